import DaeVerif.C20.Model
/-!
# C20 — invariants and their preservation

The pending flag is treated as a *token*: it is created by the successful CAS in
`tryQueueReloadRequest` and travels queue → worker → (reloading flag →) main loop → (release
goroutine), until someone stores `pending=false`.  `tokens s` counts where tokens currently are;
the main invariant is `tokens s = [pending]`, hence at most one.  `owed s` counts the
`endReloadProxyFailureSuppression` calls that are still due; `suppress = owed`.
-/
namespace DaeVerif.C20

/-! ## weights of sections -/

def wsum (f : Micro → Nat) : List Micro → Nat
  | [] => 0
  | x :: xs => f x + wsum f xs

@[simp] theorem wsum_nil (f : Micro → Nat) : wsum f [] = 0 := rfl
@[simp] theorem wsum_cons (f : Micro → Nat) (x : Micro) (xs : List Micro) :
    wsum f (x :: xs) = f x + wsum f xs := rfl
@[simp] theorem wsum_append (f : Micro → Nat) (a b : List Micro) :
    wsum f (a ++ b) = wsum f a + wsum f b := by
  induction a with
  | nil => simp
  | cons x xs ih => simp [ih, Nat.add_assoc]

/-- sections of the worker that give the token away (release it, hand it to the main loop, or
take the process down). -/
def Micro.tokW : Micro → Nat
  | .storePF | .beginHandoff | .fatal => 1
  | _ => 0

/-- the main loop's signal path holds a freshly created token while `beginSend` is ahead. -/
def Micro.sigTok : Micro → Nat
  | .beginSend _ => 1
  | _ => 0

/-- sections of the run-state handler that give the token away. -/
def Micro.isRelM : Micro → Bool
  | .storePF | .finishFailHead | .finishSucc | .exitHold => true
  | _ => false

def Micro.relM (x : Micro) : Nat := if x.isRelM then 1 else 0

/-- sections that stand for one outstanding `endReloadProxyFailureSuppression`. -/
def Micro.sup : Micro → Nat
  | .endSupp | .beginHandoff | .fatal | .finishSucc | .exitHold => 1
  | _ => 0

def anyRelM (l : List Micro) : Bool := l.any Micro.isRelM

@[simp] theorem anyRelM_nil : anyRelM [] = false := rfl
@[simp] theorem anyRelM_cons (x : Micro) (xs : List Micro) :
    anyRelM (x :: xs) = (x.isRelM || anyRelM xs) := by simp [anyRelM]
@[simp] theorem anyRelM_append (a b : List Micro) : anyRelM (a ++ b) = (anyRelM a || anyRelM b) := by
  simp [anyRelM]

theorem anyRelM_false_of_relM_zero (l : List Micro) (h : wsum Micro.relM l = 0) : anyRelM l = false := by
  induction l with
  | nil => rfl
  | cons x xs ih =>
    simp only [wsum_cons, Micro.relM] at h
    cases hx : x.isRelM <;> simp [hx] at h ⊢
    exact ih h

/-- where the tokens are. -/
def tokens (s : St) : Nat :=
  s.queue.length + wsum Micro.tokW s.w + (s.reloading || anyRelM s.m).toNat +
    wsum Micro.sigTok s.m + s.gBlocked + s.gStore

/-- outstanding `endReloadProxyFailureSuppression` calls. -/
def owed (s : St) : Nat :=
  s.queue.length + wsum Micro.sup s.w + wsum Micro.sup s.m + (s.reloading && !anyRelM s.m).toNat +
    s.gBlocked + s.gStore + s.gEnd

/-! ## syntactic well-formedness of programs -/

def Prog.isProcessing : Prog → Bool
  | .processing => true
  | _ => false

def Micro.wAllowed : Micro → Bool
  | .setActive _ | .coalesce | .setErr _ | .nop | .storePF | .endSupp | .readProg
  | .writeClr | .setStaged _ | .setMeta | .clearRet | .beginHandoff | .startRet | .notifyM | .fatal => true
  | .setProg p => !p.isBusy
  | _ => false

def Micro.mAllowed : Micro → Bool
  | .setProg p => !p.isBusy && !p.isProcessing
  | .casQ _ | .beginSend _ | .endSupp | .writeBusy _ | .storePF | .readProg | .writeClr
  | .setActive false | .setErr _ | .nop | .setStaged _ | .startRet
  | .storeReloading false | .waitReady | .setResult | .finishFailHead | .finishSucc
  | .exitHold | .exitIdle => true
  | _ => false

def Micro.isReader : Micro → Bool
  | .readProg | .writeClr | .writeBusy _ => true
  | _ => false

def Micro.clrW : Micro → Bool
  | .setActive false | .beginHandoff | .fatal => true
  | _ => false

def Micro.clrM : Micro → Bool
  | .setActive false | .finishFailHead | .finishSucc | .exitHold => true
  | _ => false

/-- worker sections after which the file no longer says Processing, or the answer is the main loop's job. -/
def Micro.ansW : Micro → Bool
  | .setProg p => !p.isProcessing
  | .beginHandoff | .fatal => true
  | _ => false

/-- handler sections that write the answer (or take the process down). -/
def Micro.ansM : Micro → Bool
  | .setProg p => !p.isProcessing
  | .setResult | .exitHold => true
  | _ => false

def anyAnsW (l : List Micro) : Bool := l.any Micro.ansW
def anyAnsM (l : List Micro) : Bool := l.any Micro.ansM
@[simp] theorem anyAnsW_nil : anyAnsW [] = false := rfl
@[simp] theorem anyAnsW_cons (x : Micro) (xs : List Micro) : anyAnsW (x :: xs) = (x.ansW || anyAnsW xs) := by
  simp [anyAnsW]
@[simp] theorem anyAnsW_append (a b : List Micro) : anyAnsW (a ++ b) = (anyAnsW a || anyAnsW b) := by
  simp [anyAnsW]
@[simp] theorem anyAnsM_nil : anyAnsM [] = false := rfl
@[simp] theorem anyAnsM_cons (x : Micro) (xs : List Micro) : anyAnsM (x :: xs) = (x.ansM || anyAnsM xs) := by
  simp [anyAnsM]
@[simp] theorem anyAnsM_append (a b : List Micro) : anyAnsM (a ++ b) = (anyAnsM a || anyAnsM b) := by
  simp [anyAnsM]

/-- Done "OK" / Error: the answer to a request (Done "" is only ever a cleared busy report). -/
def Prog.isAnswer : Prog → Bool
  | .done | .error => true
  | _ => false

def Micro.isProc : Micro → Bool
  | .setProg p => p.isProcessing
  | _ => false

def hasProc (l : List Micro) : Bool := l.any Micro.isProc
@[simp] theorem hasProc_nil : hasProc [] = false := rfl
@[simp] theorem hasProc_cons (x : Micro) (xs : List Micro) : hasProc (x :: xs) = (x.isProc || hasProc xs) := by
  simp [hasProc]
@[simp] theorem hasProc_append (a b : List Micro) : hasProc (a ++ b) = (hasProc a || hasProc b) := by
  simp [hasProc]

/-- worker sections that do not touch any reload flag, the queue or the retirement channel: what
the worker may still run after it has given the request away. -/
def Micro.inert : Micro → Bool
  | .nop | .notifyM | .endSupp | .readProg | .writeClr => true
  | _ => false

def allInert (l : List Micro) : Bool := l.all Micro.inert
@[simp] theorem allInert_nil : allInert [] = true := rfl
@[simp] theorem allInert_cons (x : Micro) (xs : List Micro) : allInert (x :: xs) = (x.inert && allInert xs) := by
  simp [allInert]
@[simp] theorem allInert_append (a b : List Micro) : allInert (a ++ b) = (allInert a && allInert b) := by
  simp [allInert]

def anyRd (l : List Micro) : Bool := l.any Micro.isReader
def anyClrW (l : List Micro) : Bool := l.any Micro.clrW
def anyClrM (l : List Micro) : Bool := l.any Micro.clrM

@[simp] theorem anyRd_nil : anyRd [] = false := rfl
@[simp] theorem anyRd_cons (x : Micro) (xs : List Micro) : anyRd (x :: xs) = (x.isReader || anyRd xs) := by
  simp [anyRd]
@[simp] theorem anyRd_append (a b : List Micro) : anyRd (a ++ b) = (anyRd a || anyRd b) := by simp [anyRd]
@[simp] theorem anyClrW_nil : anyClrW [] = false := rfl
@[simp] theorem anyClrW_cons (x : Micro) (xs : List Micro) : anyClrW (x :: xs) = (x.clrW || anyClrW xs) := by
  simp [anyClrW]
@[simp] theorem anyClrW_append (a b : List Micro) : anyClrW (a ++ b) = (anyClrW a || anyClrW b) := by
  simp [anyClrW]
@[simp] theorem anyClrM_nil : anyClrM [] = false := rfl
@[simp] theorem anyClrM_cons (x : Micro) (xs : List Micro) : anyClrM (x :: xs) = (x.clrM || anyClrM xs) := by
  simp [anyClrM]
@[simp] theorem anyClrM_append (a b : List Micro) : anyClrM (a ++ b) = (anyClrM a || anyClrM b) := by
  simp [anyClrM]

/-- worker programs: only worker sections; a `coalesce` is run while holding a token; every
release is followed by the busy-report cleanup; `active` is cleared (or handed over) later. -/
def wfW : List Micro → Bool
  | [] => true
  | x :: rest =>
    x.wAllowed && wfW rest &&
    (match x with
     | .coalesce => decide (1 ≤ wsum Micro.tokW rest)
     | .storePF => anyRd rest && allInert rest
     | .beginHandoff => allInert rest
     | .setActive true => anyClrW rest
     | .setProg p => if p.isProcessing then anyAnsW rest else (!anyAnsW rest && decide (1 ≤ wsum Micro.tokW rest))
     | _ => true)

/-- main-loop programs. -/
def wfM : List Micro → Bool
  | [] => true
  | x :: rest =>
    x.mAllowed && wfM rest &&
    (match x with
     | .storeReloading _ => anyRelM rest && anyClrM rest
     | .waitReady => anyRelM rest
     | .setProg _ => anyRelM rest && !anyAnsM rest
     | .setResult => anyRelM rest && !anyAnsM rest
     | .storePF => anyRd rest
     | .finishFailHead => anyRd rest
     | _ => true)

/-- the first token-releasing section of the handler is a bare `pending.Store(false)` (the
re-listen failure branch): it must run with `reloading` already cleared. -/
def firstRelIsStore : List Micro → Bool
  | [] => false
  | .storePF :: _ => true
  | .storeReloading _ :: _ => false
  | .finishFailHead :: _ => false
  | .finishSucc :: _ => false
  | .exitHold :: _ => false
  | _ :: rest => firstRelIsStore rest

theorem anyRelM_of_firstRelIsStore (l : List Micro) (h : firstRelIsStore l = true) : anyRelM l = true := by
  induction l with
  | nil => simp [firstRelIsStore] at h
  | cons x xs ih =>
    cases x <;> simp_all [firstRelIsStore, Micro.isRelM]

theorem inert_facts (l : List Micro) (h : allInert l = true) :
    anyAnsW l = false ∧ hasProc l = false ∧ wsum Micro.tokW l = 0 := by
  induction l with
  | nil => simp
  | cons x xs ih =>
    simp only [allInert_cons, Bool.and_eq_true] at h
    obtain ⟨h1, h2, h3⟩ := ih h.2
    cases x <;> simp_all [Micro.inert, Micro.ansW, Micro.isProc, Micro.tokW]

theorem ansM_imp_relM (l : List Micro) (hwf : wfM l = true) (h : anyAnsM l = true) : anyRelM l = true := by
  induction l with
  | nil => simp at h
  | cons x xs ih =>
    simp only [wfM, Bool.and_eq_true] at hwf
    cases x <;> simp_all [Micro.ansM, Micro.isRelM, Micro.mAllowed]

theorem ansW_imp_tok (l : List Micro) (hwf : wfW l = true) (h : anyAnsW l = true) : 1 ≤ wsum Micro.tokW l := by
  induction l with
  | nil => simp at h
  | cons x xs ih =>
    simp only [wfW, Bool.and_eq_true] at hwf
    cases x
    case setProg p =>
      cases hp : p.isProcessing <;> simp_all [Micro.ansW, Micro.tokW, Micro.wAllowed]
    all_goals (simp_all [Micro.ansW, Micro.tokW, Micro.wAllowed] <;> (try omega))

/-- the request in progress has been announced (`Processing` written) and its own answer is still
to be written: by the worker (Error, or it still has to hand off), by the main loop (Done / Error
after the serve-ready wait), or the hand-off is waiting for the main loop. -/
def answerPending (s : St) : Bool :=
  (anyAnsW s.w && !hasProc s.w) || anyAnsM s.m || (s.reloading && !anyRelM s.m)

/-! ## the invariant -/

structure Inv (s : St) : Prop where
  tok : tokens s = s.pending.toNat
  sup : s.suppress = owed s
  wfw : wfW s.w = true
  wfm : wfM s.m = true
  rel1 : wsum Micro.relM s.m ≤ 1
  store : firstRelIsStore s.m = true → s.reloading = false
  note : s.reloading = true → anyRelM s.m = false → s.notify = true
  busy : s.faults = 0 → s.progress.isBusy = true → s.pending = true ∨ anyRd s.m = true ∨
          anyRd s.w = true ∨ 0 < s.gStore + s.gEnd + s.gRead + s.gWrite
  act : s.active = true → anyClrW s.w = true ∨ anyClrM s.m = true ∨ s.reloading = true
  proc : s.faults = 0 → s.progress.isProcessing = true → anyAnsW s.w = true ∨ anyAnsM s.m = true ∨
          (s.reloading = true ∧ anyRelM s.m = false)
  tail : wsum Micro.tokW s.w = 0 → allInert s.w = true
  own : s.faults = 0 → answerPending s = true → s.progress.isAnswer = false

def Good (s : St) : Prop := s.exited = true ∨ Inv s

/-! ## facts about the tables (finite checks) -/

def wPathOk (p : List Eff) : Bool :=
  let w := expand p
  wfW w && wsum Micro.tokW w == 1 && wsum Micro.sup w == 1 && hasProc w

def hPathOk (p : HPath) : Bool :=
  let m := expand p.effs
  wfM m && decide (wsum Micro.relM m ≤ 1) && wsum Micro.sigTok m == 0 &&
  (if p.reloading then anyRelM m && wsum Micro.sup m == 1 && !firstRelIsStore m
   else !anyRelM m && wsum Micro.sup m == 0) &&
  (if p.reloading then anyAnsM m else !anyAnsM m)

theorem workerPaths_ok : workerPaths.all wPathOk = true := by decide

theorem handlerPaths_ok : handlerPaths.all hPathOk = true := by decide

set_option linter.unusedSimpArgs false

/-! ## preservation: one section of W / of M -/


/-- new state after W ran section `x`. -/
def afterW (s : St) (x : Micro) (rest : List Micro) : St :=
  { (exec s x).1 with w := (exec s x).2 ++ rest }

theorem toNat_le_one (b : Bool) : b.toNat ≤ 1 := by cases b <;> simp

theorem num_stepW {s : St} (h : Inv s) {x : Micro} {rest : List Micro} (hw : s.w = x :: rest)
    (hx : (afterW s x rest).exited = false) :
    tokens (afterW s x rest) = (afterW s x rest).pending.toNat ∧
    (afterW s x rest).suppress = owed (afterW s x rest) := by
  obtain ⟨tok, sup, wfw, wfm, rel1, store, note, busy, act, proc, tail, own⟩ := h
  rw [hw] at wfw
  simp only [tokens, owed, hw] at tok sup
  have hp := toNat_le_one s.pending
  cases x <;> simp only [wfW, Micro.wAllowed, Bool.false_and, Bool.and_false, Bool.false_eq_true] at wfw
  all_goals simp only [afterW, exec, tokens, owed, wsum_cons, wsum_nil, wsum_append, Micro.tokW, Micro.sup,
    List.nil_append, List.length_nil] at tok sup hx ⊢
  all_goals simp only [Bool.and_eq_true, decide_eq_true_eq, Bool.true_and] at wfw
  case readProg => split <;> simp only [wsum_cons, wsum_nil, Micro.tokW, Micro.sup] <;> omega
  case fatal => simp at hx
  all_goals (
    cases hr : s.reloading <;> cases ha : anyRelM s.m <;> cases hpd : s.pending <;>
    simp only [hr, ha, hpd, Bool.toNat_true, Bool.toNat_false, Bool.or_true, Bool.or_false, Bool.and_true, Bool.and_false,
      Bool.true_and, Bool.false_and, Bool.true_or, Bool.false_or, Bool.not_true, Bool.not_false, List.length_nil] at * <;> omega)


macro "marith" s:ident rest:ident : tactic => `(tactic| (
    repeat' split
    all_goals (
      try simp only [wsum_cons, wsum_nil, Micro.tokW, Micro.sup, Micro.sigTok, anyRelM_cons, anyRelM_nil, Micro.isRelM,
        List.length_append, List.length_cons, List.length_nil, Bool.false_or, Bool.or_false] at *
      cases hr : ($s).reloading <;> cases ha : anyRelM $rest <;> cases hpd : ($s).pending <;>
      simp only [hr, ha, hpd, Bool.toNat_true, Bool.toNat_false, Bool.or_true, Bool.or_false, Bool.and_true, Bool.and_false,
        Bool.true_and, Bool.false_and, Bool.true_or, Bool.false_or, Bool.not_true, Bool.not_false, List.length_nil,
        forall_const, true_implies, Bool.false_eq_true, Bool.true_eq_false, eq_self, false_and, and_false, and_true, true_and, not_true_eq_false, not_false_eq_true, false_implies, implies_true] at * <;> omega)))
def afterM (s : St) (x : Micro) (rest : List Micro) : St :=
  { (exec s x).1 with m := (exec s x).2 ++ rest }

theorem relM_le (x : Micro) : x.relM ≤ 1 := by unfold Micro.relM; split <;> omega

theorem num_stepM {s : St} (h : Inv s) {x : Micro} {rest : List Micro} (hm : s.m = x :: rest)
    (hx : (afterM s x rest).exited = false) :
    tokens (afterM s x rest) = (afterM s x rest).pending.toNat ∧
    (afterM s x rest).suppress = owed (afterM s x rest) := by
  obtain ⟨tok, sup, wfw, wfm, rel1, store, note, busy, act, proc, tail, own⟩ := h
  rw [hm] at wfm rel1 store
  simp only [tokens, owed, hm] at tok sup
  have hp := toNat_le_one s.pending
  have hrel : anyRelM rest = true → 1 ≤ wsum Micro.relM rest := by
    intro h
    rcases Nat.eq_zero_or_pos (wsum Micro.relM rest) with h0 | h0
    · rw [anyRelM_false_of_relM_zero rest h0] at h; cases h
    · exact h0
  cases x <;> simp only [wfM, Micro.mAllowed, Bool.false_and, Bool.and_false, Bool.false_eq_true] at wfm
  all_goals simp only [afterM, exec, tokens, owed, wsum_cons, wsum_nil, wsum_append, Micro.tokW, Micro.sup, Micro.sigTok,
    Micro.relM, Micro.isRelM, anyRelM_cons, anyRelM_append, anyRelM_nil, firstRelIsStore,
    List.nil_append, List.length_nil, Bool.false_or, Bool.true_or, if_true, if_false, Bool.false_eq_true] at tok sup hx rel1 store ⊢
  all_goals simp only [Bool.and_eq_true, decide_eq_true_eq, Bool.true_and] at wfm
  case exitHold => simp at hx
  case exitIdle => simp at hx
  case casQ k => marith s rest
  case beginSend k => marith s rest
  case endSupp => marith s rest
  case writeBusy b => marith s rest
  case storePF => marith s rest
  case readProg => marith s rest
  case writeClr => marith s rest
  case setProg p => marith s rest
  case setActive b => cases b <;> simp at wfm; marith s rest
  case setErr b => marith s rest
  case nop => marith s rest
  case setStaged b => marith s rest
  case startRet => marith s rest
  case storeReloading b => cases b <;> simp at wfm; marith s rest
  case waitReady => marith s rest
  case setResult => marith s rest
  case finishFailHead => marith s rest
  case finishSucc => marith s rest

set_option maxHeartbeats 1000000 in
theorem rest_stepW {s : St} (h : Inv s) {x : Micro} {rest : List Micro} (hw : s.w = x :: rest)
    (hx : (afterW s x rest).exited = false) :
    let s' := afterW s x rest
    wfW s'.w = true ∧ wfM s'.m = true ∧ wsum Micro.relM s'.m ≤ 1 ∧
    (firstRelIsStore s'.m = true → s'.reloading = false) ∧
    (s'.reloading = true → anyRelM s'.m = false → s'.notify = true) ∧
    (s'.faults = 0 → s'.progress.isBusy = true → s'.pending = true ∨ anyRd s'.m = true ∨ anyRd s'.w = true ∨
        0 < s'.gStore + s'.gEnd + s'.gRead + s'.gWrite) ∧
    (s'.active = true → anyClrW s'.w = true ∨ anyClrM s'.m = true ∨ s'.reloading = true) ∧
    (s'.faults = 0 → s'.progress.isProcessing = true → anyAnsW s'.w = true ∨ anyAnsM s'.m = true ∨
        (s'.reloading = true ∧ anyRelM s'.m = false)) ∧
    (wsum Micro.tokW s'.w = 0 → allInert s'.w = true) ∧
    (s'.faults = 0 → answerPending s' = true → s'.progress.isAnswer = false) := by
  obtain ⟨tok, sup, wfw, wfm, rel1, store, note, busy, act, proc, tail, own⟩ := h
  rw [hw] at wfw busy act proc tail
  simp only [answerPending, hw] at own
  simp only [tokens, owed, hw] at tok sup
  have hfs := anyRelM_of_firstRelIsStore s.m
  have key : 1 ≤ wsum Micro.tokW (x :: rest) → s.reloading = false ∧ anyRelM s.m = false := by
    intro h1
    simp only [wsum_cons] at h1
    have hp : s.pending.toNat ≤ 1 := by cases s.pending <;> simp
    cases hr : s.reloading <;> cases ha : anyRelM s.m <;> simp [hr, ha] at tok ⊢ <;> omega
  have hfs' : anyRelM s.m = false → firstRelIsStore s.m = false := by
    intro h; cases hf : firstRelIsStore s.m
    · rfl
    · rw [hfs hf] at h; cases h
  have keyM : 1 ≤ wsum Micro.tokW (x :: rest) → anyAnsM s.m = false := by
    intro h1
    cases hh : anyAnsM s.m
    · rfl
    · have h2 := ansM_imp_relM s.m wfm hh
      rw [(key h1).2] at h2; cases h2
  have hIn : allInert rest = true → anyAnsW rest = false ∧ hasProc rest = false := fun h =>
    ⟨(inert_facts rest h).1, (inert_facts rest h).2.1⟩
  have hAT : anyAnsW (x :: rest) = true → 1 ≤ wsum Micro.tokW (x :: rest) := ansW_imp_tok _ wfw
  cases x <;> simp only [wfW, Micro.wAllowed, Bool.false_and, Bool.and_false, Bool.false_eq_true] at wfw
  all_goals simp only [afterW, exec] at hx ⊢
  case fatal => simp at hx
  case setProg p =>
    cases p <;>
    (simp only [Bool.and_eq_true, decide_eq_true_eq, Bool.true_and, Bool.not_eq_true', Bool.or_eq_true,
       Prog.isProcessing, Prog.isBusy, Bool.false_eq_true, if_false, if_true, Bool.not_false, Bool.not_true] at wfw
     have k1 : 1 ≤ wsum Micro.tokW rest → s.reloading = false ∧ anyRelM s.m = false := fun h =>
       key (by simp only [wsum_cons]; omega)
     have k2 : 1 ≤ wsum Micro.tokW rest → anyAnsM s.m = false := fun h =>
       keyM (by simp only [wsum_cons]; omega)
     refine ⟨?_, ?_, ?_, ?_, ?_, ?_, ?_, ?_, ?_, ?_⟩ <;> (try intro hf0) <;>
     simp_all [Micro.ansW, Micro.ansM, Prog.isProcessing, Micro.inert, Micro.isProc, Prog.isAnswer, answerPending, wfW, Micro.wAllowed, Micro.isReader, Micro.clrW, Micro.tokW, Micro.sup, Prog.isBusy])
  case readProg =>
    by_cases hb : s.progress.isBusy = true <;>
    (refine ⟨?_, ?_, ?_, ?_, ?_, ?_, ?_, ?_, ?_, ?_⟩ <;> (try intro hf0) <;>
     simp_all [Micro.ansW, Micro.ansM, Prog.isProcessing, Micro.inert, Micro.isProc, Prog.isAnswer, answerPending, wfW, Micro.wAllowed, Micro.isReader, Micro.clrW, Micro.tokW, Micro.sup, Prog.isBusy])
  case setActive b =>
    cases b <;>
    (simp only [Bool.and_eq_true, decide_eq_true_eq, Bool.true_and, Bool.not_eq_true'] at wfw
     refine ⟨?_, ?_, ?_, ?_, ?_, ?_, ?_, ?_, ?_, ?_⟩ <;> (try intro hf0) <;>
     simp_all [Micro.ansW, Micro.ansM, Prog.isProcessing, Micro.inert, Micro.isProc, Prog.isAnswer, answerPending, wfW, Micro.wAllowed, Micro.isReader, Micro.clrW, Micro.tokW, Micro.sup, Prog.isBusy])
  case beginHandoff =>
    have k := key (by simp [Micro.tokW])
    have k2 := keyM (by simp [Micro.tokW])
    have hi := hIn (by simp only [Bool.and_eq_true, Bool.true_and] at wfw; exact wfw.2)
    refine ⟨?_, ?_, ?_, ?_, ?_, ?_, ?_, ?_, ?_, ?_⟩ <;> (try intro hf0) <;>
     simp_all [Micro.ansW, Micro.ansM, Prog.isProcessing, Micro.inert, Micro.isProc, Prog.isAnswer, answerPending, wfW, Micro.wAllowed, Micro.isReader, Micro.clrW, Micro.tokW, Micro.sup]
  all_goals (
    simp only [Bool.and_eq_true, decide_eq_true_eq, Bool.true_and, Bool.not_eq_true'] at wfw
    refine ⟨?_, ?_, ?_, ?_, ?_, ?_, ?_, ?_, ?_, ?_⟩ <;> (try intro hf0) <;>
    simp_all [Micro.ansW, Micro.ansM, Prog.isProcessing, Micro.inert, Micro.isProc, Prog.isAnswer, answerPending, wfW, Micro.wAllowed, Micro.isReader, Micro.clrW, Micro.tokW, Micro.sup, Prog.isBusy])

set_option maxHeartbeats 1000000 in
theorem rest_stepM {s : St} (h : Inv s) {x : Micro} {rest : List Micro} (hm : s.m = x :: rest)
    (hx : (afterM s x rest).exited = false) :
    let s' := afterM s x rest
    wfW s'.w = true ∧ wfM s'.m = true ∧ wsum Micro.relM s'.m ≤ 1 ∧
    (firstRelIsStore s'.m = true → s'.reloading = false) ∧
    (s'.reloading = true → anyRelM s'.m = false → s'.notify = true) ∧
    (s'.faults = 0 → s'.progress.isBusy = true → s'.pending = true ∨ anyRd s'.m = true ∨ anyRd s'.w = true ∨
        0 < s'.gStore + s'.gEnd + s'.gRead + s'.gWrite) ∧
    (s'.active = true → anyClrW s'.w = true ∨ anyClrM s'.m = true ∨ s'.reloading = true) ∧
    (s'.faults = 0 → s'.progress.isProcessing = true → anyAnsW s'.w = true ∨ anyAnsM s'.m = true ∨
        (s'.reloading = true ∧ anyRelM s'.m = false)) ∧
    (wsum Micro.tokW s'.w = 0 → allInert s'.w = true) ∧
    (s'.faults = 0 → answerPending s' = true → s'.progress.isAnswer = false) := by
  obtain ⟨tok, sup, wfw, wfm, rel1, store, note, busy, act, proc, tail, own⟩ := h
  rw [hm] at wfm busy act rel1 store note proc
  simp only [answerPending, hm] at own
  simp only [tokens, owed, hm] at tok sup
  have hp : s.pending.toNat ≤ 1 := by cases s.pending <;> simp
  have keySig : 1 ≤ wsum Micro.sigTok (x :: rest) → s.queue.length = 0 ∧ s.pending = true := by
    intro h1
    simp only [wsum_cons] at h1 tok
    cases hpd : s.pending <;> simp only [hpd, Bool.toNat_false, Bool.toNat_true] at tok
    · omega
    · exact ⟨by omega, rfl⟩
  have keyRel : x.isRelM = true → anyRelM rest = false := by
    intro h1
    apply anyRelM_false_of_relM_zero
    simp only [wsum_cons, Micro.relM, h1, if_true] at rel1
    omega
  have hWin : (s.reloading = true ∨ anyRelM (x :: rest) = true) → anyAnsW s.w = false ∧ hasProc s.w = false := by
    intro h
    have t0 : wsum Micro.tokW s.w = 0 := by
      rcases h with h | h <;> simp only [h, Bool.true_or, Bool.or_true, Bool.toNat_true] at tok <;> omega
    exact ⟨(inert_facts _ (tail t0)).1, (inert_facts _ (tail t0)).2.1⟩
  have hAR : anyAnsM (x :: rest) = true → anyRelM (x :: rest) = true := ansM_imp_relM _ wfm
  cases x <;> simp only [wfM, Micro.mAllowed, Bool.false_and, Bool.and_false, Bool.false_eq_true] at wfm
  all_goals simp only [afterM, exec] at hx ⊢
  case exitHold => simp at hx
  case exitIdle => simp at hx
  case casQ k =>
    by_cases hpd : s.pending = true <;>
    (refine ⟨?_, ?_, ?_, ?_, ?_, ?_, ?_, ?_, ?_, ?_⟩ <;> (try intro hf0) <;>
     simp_all [Micro.ansW, Micro.ansM, Prog.isProcessing, Micro.inert, Micro.isProc, Prog.isAnswer, answerPending, wfM, Micro.mAllowed, Micro.isReader, Micro.clrM, Micro.relM, Micro.isRelM, firstRelIsStore, Prog.isBusy])
  case beginSend k =>
    have k1 := keySig (by simp [Micro.sigTok])
    have hq : s.queue.length < 1 := by omega
    simp only [hq, if_true]
    (refine ⟨?_, ?_, ?_, ?_, ?_, ?_, ?_, ?_, ?_, ?_⟩ <;> (try intro hf0) <;>
     simp_all [Micro.ansW, Micro.ansM, Prog.isProcessing, Micro.inert, Micro.isProc, Prog.isAnswer, answerPending, wfM, Micro.mAllowed, Micro.isReader, Micro.clrM, Micro.relM, Micro.isRelM, firstRelIsStore, Prog.isBusy, busyOf] <;>
     first | omega | (intros; right; right; right; omega))
  case writeBusy b =>
    by_cases hpd : s.pending = true <;> cases b <;> (refine ⟨?_, ?_, ?_, ?_, ?_, ?_, ?_, ?_, ?_, ?_⟩ <;> (try intro hf0) <;>
     simp_all [Micro.ansW, Micro.ansM, Prog.isProcessing, Micro.inert, Micro.isProc, Prog.isAnswer, answerPending, wfM, Micro.mAllowed, Micro.isReader, Micro.clrM, Micro.relM, Micro.isRelM, firstRelIsStore, Prog.isBusy, busyOf] <;>
     first | omega | (intros; right; right; right; omega))
  case readProg =>
    by_cases hb : s.progress.isBusy = true <;> (refine ⟨?_, ?_, ?_, ?_, ?_, ?_, ?_, ?_, ?_, ?_⟩ <;> (try intro hf0) <;>
     simp_all [Micro.ansW, Micro.ansM, Prog.isProcessing, Micro.inert, Micro.isProc, Prog.isAnswer, answerPending, wfM, Micro.mAllowed, Micro.isReader, Micro.clrM, Micro.relM, Micro.isRelM, firstRelIsStore, Prog.isBusy, busyOf] <;>
     first | omega | (intros; right; right; right; omega))
  case setActive b => cases b <;> (refine ⟨?_, ?_, ?_, ?_, ?_, ?_, ?_, ?_, ?_, ?_⟩ <;> (try intro hf0) <;>
     simp_all [Micro.ansW, Micro.ansM, Prog.isProcessing, Micro.inert, Micro.isProc, Prog.isAnswer, answerPending, wfM, Micro.mAllowed, Micro.isReader, Micro.clrM, Micro.relM, Micro.isRelM, firstRelIsStore, Prog.isBusy, busyOf] <;>
     first | omega | (intros; right; right; right; omega))
  case storeReloading b => cases b <;> (refine ⟨?_, ?_, ?_, ?_, ?_, ?_, ?_, ?_, ?_, ?_⟩ <;> (try intro hf0) <;>
     simp_all [Micro.ansW, Micro.ansM, Prog.isProcessing, Micro.inert, Micro.isProc, Prog.isAnswer, answerPending, wfM, Micro.mAllowed, Micro.isReader, Micro.clrM, Micro.relM, Micro.isRelM, firstRelIsStore, Prog.isBusy, busyOf] <;>
     first | omega | (intros; right; right; right; omega))
  case storePF =>
    have k1 := keyRel (by simp [Micro.isRelM])
    (refine ⟨?_, ?_, ?_, ?_, ?_, ?_, ?_, ?_, ?_, ?_⟩ <;> (try intro hf0) <;>
     simp_all [Micro.ansW, Micro.ansM, Prog.isProcessing, Micro.inert, Micro.isProc, Prog.isAnswer, answerPending, wfM, Micro.mAllowed, Micro.isReader, Micro.clrM, Micro.relM, Micro.isRelM, firstRelIsStore, Prog.isBusy, busyOf] <;>
     first | omega | (intros; right; right; right; omega))
  case finishFailHead =>
    have k1 := keyRel (by simp [Micro.isRelM])
    (refine ⟨?_, ?_, ?_, ?_, ?_, ?_, ?_, ?_, ?_, ?_⟩ <;> (try intro hf0) <;>
     simp_all [Micro.ansW, Micro.ansM, Prog.isProcessing, Micro.inert, Micro.isProc, Prog.isAnswer, answerPending, wfM, Micro.mAllowed, Micro.isReader, Micro.clrM, Micro.relM, Micro.isRelM, firstRelIsStore, Prog.isBusy, busyOf] <;>
     first | omega | (intros; right; right; right; omega))
  case finishSucc =>
    have k1 := keyRel (by simp [Micro.isRelM])
    rcases hrd : s.retDone with _ | _ | _ <;> (refine ⟨?_, ?_, ?_, ?_, ?_, ?_, ?_, ?_, ?_, ?_⟩ <;> (try intro hf0) <;>
     simp_all [Micro.ansW, Micro.ansM, Prog.isProcessing, Micro.inert, Micro.isProc, Prog.isAnswer, answerPending, wfM, Micro.mAllowed, Micro.isReader, Micro.clrM, Micro.relM, Micro.isRelM, firstRelIsStore, Prog.isBusy, busyOf] <;>
     first | omega | (intros; right; right; right; omega))
  case setResult => cases s.reloadErr <;> (refine ⟨?_, ?_, ?_, ?_, ?_, ?_, ?_, ?_, ?_, ?_⟩ <;> (try intro hf0) <;>
     simp_all [Micro.ansW, Micro.ansM, Prog.isProcessing, Micro.inert, Micro.isProc, Prog.isAnswer, answerPending, wfM, Micro.mAllowed, Micro.isReader, Micro.clrM, Micro.relM, Micro.isRelM, firstRelIsStore, Prog.isBusy, busyOf] <;>
     first | omega | (intros; right; right; right; omega))
  all_goals (refine ⟨?_, ?_, ?_, ?_, ?_, ?_, ?_, ?_, ?_, ?_⟩ <;> (try intro hf0) <;>
     simp_all [Micro.ansW, Micro.ansM, Prog.isProcessing, Micro.inert, Micro.isProc, Prog.isAnswer, answerPending, wfM, Micro.mAllowed, Micro.isReader, Micro.clrM, Micro.relM, Micro.isRelM, firstRelIsStore, Prog.isBusy, busyOf] <;>
     first | omega | (intros; right; right; right; omega))

theorem inv_stepW {s : St} (h : Inv s) {x : Micro} {rest : List Micro} (hw : s.w = x :: rest) :
    Good (afterW s x rest) := by
  cases hx : (afterW s x rest).exited
  · right
    obtain ⟨h1, h2⟩ := num_stepW h hw hx
    obtain ⟨h3, h4, h5, h6, h7, h8, h9, h10, h11, h12⟩ := rest_stepW h hw hx
    exact ⟨h1, h2, h3, h4, h5, h6, h7, h8, h9, h10, h11, h12⟩
  · left; exact hx

theorem inv_stepM {s : St} (h : Inv s) {x : Micro} {rest : List Micro} (hm : s.m = x :: rest) :
    Good (afterM s x rest) := by
  cases hx : (afterM s x rest).exited
  · right
    obtain ⟨h1, h2⟩ := num_stepM h hm hx
    obtain ⟨h3, h4, h5, h6, h7, h8, h9, h10, h11, h12⟩ := rest_stepM h hm hx
    exact ⟨h1, h2, h3, h4, h5, h6, h7, h8, h9, h10, h11, h12⟩
  · left; exact hx

/-! ## preservation: a section whose progress-file operation fails -/

theorem inv_stepMF {s : St} (h : Inv s) {x : Micro} {rest : List Micro} (hm : s.m = x :: rest)
    {r : St × List Micro} (hr : execF s x = some r) :
    Inv { r.1 with m := r.2 ++ rest, faults := s.faults + 1 } := by
  obtain ⟨tok, sup, wfw, wfm, rel1, store, note, busy, act, proc, tail, own⟩ := h
  rw [hm] at wfm rel1 store note act
  simp only [tokens, owed, hm] at tok sup
  cases x <;> simp only [execF, Option.some.injEq, reduceCtorEq] at hr
  all_goals subst hr
  all_goals (
    cases hpd : s.pending <;>
    (refine ⟨?_, ?_, ?_, ?_, ?_, ?_, ?_, ?_, ?_, ?_, ?_, ?_⟩ <;> (try intro hf0) <;>
     simp_all [tokens, owed, wfM, Micro.mAllowed, Micro.relM, Micro.isRelM, Micro.sigTok, Micro.sup, Micro.tokW,
       firstRelIsStore, Micro.isReader, Micro.clrM, Micro.ansM] <;> omega))

theorem inv_stepWF {s : St} (h : Inv s) {x : Micro} {rest : List Micro} (hw : s.w = x :: rest)
    {r : St × List Micro} (hr : execF s x = some r) :
    Inv { r.1 with w := r.2 ++ rest, faults := s.faults + 1 } := by
  obtain ⟨tok, sup, wfw, wfm, rel1, store, note, busy, act, proc, tail, own⟩ := h
  rw [hw] at wfw act tail
  simp only [tokens, owed, hw] at tok sup
  have hAT : anyAnsW rest = true → wfW rest = true → 1 ≤ wsum Micro.tokW rest := fun h1 h2 => ansW_imp_tok _ h2 h1
  cases x <;> simp only [execF, Option.some.injEq, reduceCtorEq] at hr
  all_goals subst hr
  all_goals simp only [wfW, Micro.wAllowed, Bool.false_and, Bool.and_false, Bool.false_eq_true] at wfw
  case setProg p =>
    cases hp : p.isProcessing <;>
    (refine ⟨?_, ?_, ?_, ?_, ?_, ?_, ?_, ?_, ?_, ?_, ?_, ?_⟩ <;> (try intro hf0) <;>
     simp_all [tokens, owed, wfW, Micro.wAllowed, Micro.sup, Micro.tokW, Micro.isReader, Micro.clrW, Micro.ansW, Micro.inert] <;> omega)
  all_goals (
    (refine ⟨?_, ?_, ?_, ?_, ?_, ?_, ?_, ?_, ?_, ?_, ?_, ?_⟩ <;> (try intro hf0) <;>
     simp_all [tokens, owed, wfW, Micro.wAllowed, Micro.sup, Micro.tokW, Micro.isReader, Micro.clrW, Micro.ansW, Micro.inert] <;> omega))

theorem hPath_of_get {i : Nat} {p : HPath} (h : handlerPaths[i]? = some p) : hPathOk p = true :=
  List.all_eq_true.mp handlerPaths_ok p (List.mem_of_getElem? h)

theorem wPath_of_get {i : Nat} {p : List Eff} (h : workerPaths[i]? = some p) : wPathOk p = true :=
  List.all_eq_true.mp workerPaths_ok p (List.mem_of_getElem? h)

macro "numtac" s:ident : tactic => `(tactic| (
  simp only [tokens, owed, exec, wsum_nil, wsum_cons, List.length_cons, List.length_nil] at *
  cases hr : ($s).reloading <;> cases ha : anyRelM ($s).m <;> cases hpd : ($s).pending <;>
  simp only [hr, ha, hpd, Bool.toNat_true, Bool.toNat_false, Bool.or_true, Bool.or_false, Bool.and_true, Bool.and_false,
    Bool.true_and, Bool.false_and, Bool.true_or, Bool.false_or, Bool.not_true, Bool.not_false, List.length_nil,
    forall_const, true_implies, Bool.false_eq_true, Bool.true_eq_false, eq_self, false_and, and_false, and_true, true_and,
    not_true_eq_false, not_false_eq_true, false_implies, implies_true] at * <;> omega))

theorem good_step {s s' : St} (h : Good s) (a : Act) (hs : step s a = some s') : Good s' := by
  unfold step at hs
  cases hex : s.exited
  case true => simp [hex] at hs
  simp only [hex, Bool.false_eq_true, if_false] at hs
  have hI : Inv s := by
    rcases h with h | h
    · rw [hex] at h; cases h
    · exact h
  cases a <;> simp only at hs
  case stepM =>
    split at hs
    · cases hs
    · rename_i x rest hm
      simp only [Option.some.injEq] at hs
      rw [← hs]; exact inv_stepM hI hm
  case stepW =>
    split at hs
    · cases hs
    · rename_i x rest hw
      simp only [Option.some.injEq] at hs
      rw [← hs]; exact inv_stepW hI hw
  all_goals obtain ⟨tok, sup, wfw, wfm, rel1, store, note, busy, act, proc, tail, own⟩ := hI
  all_goals simp only [tokens, owed] at tok sup
  case sig k =>
    split at hs
    · rename_i hm
      have hm' : s.m = [] := by simpa using hm
      simp only [Option.some.injEq] at hs
      subst hs
      right
      refine ⟨?_, ?_, ?_, ?_, ?_, ?_, ?_, ?_, ?_, ?_, ?_, ?_⟩ <;>
        simp_all [Micro.ansW, Micro.ansM, Prog.isProcessing, Micro.inert, Micro.isProc, Prog.isAnswer, answerPending, tokens, owed, wfM, Micro.mAllowed, Micro.relM, Micro.isRelM, Micro.sigTok, Micro.sup, firstRelIsStore,
          Micro.isReader, Micro.clrM]
    · cases hs
  case swallow k =>
    split at hs
    · rename_i rest hm
      simp only [Option.some.injEq] at hs; subst hs; right
      have hwf := wfm
      simp only [hm, wfM, Bool.and_eq_true] at hwf
      have hp : s.pending = true := by
        have h1 := hwf.2
        cases hpd : s.pending
        · simp only [hm, anyRelM_cons, h1, Bool.or_true, hpd, Bool.toNat_true, Bool.toNat_false] at tok; omega
        · rfl
      refine ⟨?_, ?_, ?_, ?_, ?_, ?_, ?_, ?_, ?_, ?_, ?_, ?_⟩ <;> simp_all [Micro.ansW, Micro.ansM, Prog.isProcessing, Micro.inert, Micro.isProc, Prog.isAnswer, answerPending, tokens, owed]
    · cases hs
  case cliMark =>
    simp only [Option.some.injEq] at hs; subst hs; right
    exact ⟨tok, sup, wfw, wfm, rel1, store, note, busy, act, proc, tail, own⟩
  case spuriousNotify =>
    simp only [Option.some.injEq] at hs; subst hs; right
    exact ⟨tok, sup, wfw, wfm, rel1, store, fun _ _ => rfl, busy, act, proc, tail, own⟩
  case chooseRet sc =>
    split at hs
    · simp only [Option.some.injEq] at hs; subst hs; right
      exact ⟨tok, sup, wfw, wfm, rel1, store, note, busy, act, proc, tail, own⟩
    · cases hs
  case tick d =>
    split at hs
    · simp only [Option.some.injEq] at hs; subst hs; right
      exact ⟨tok, sup, wfw, wfm, rel1, store, note, busy, act, proc, tail, own⟩
    · cases hs
  case term =>
    split at hs
    · simp only [Option.some.injEq] at hs; subst hs; left; rfl
    · cases hs
  case cliSend =>
    split at hs
    · simp only [Option.some.injEq] at hs; subst hs; right
      refine ⟨?_, ?_, ?_, ?_, ?_, ?_, ?_, ?_, ?_, ?_, ?_, ?_⟩ <;> simp_all [Micro.ansW, Micro.ansM, Prog.isProcessing, Micro.inert, Micro.isProc, Prog.isAnswer, answerPending, tokens, owed, wfM, wfW, Micro.mAllowed, Micro.relM, Micro.isRelM, Micro.sigTok, Micro.sup, Micro.tokW, firstRelIsStore,
          Micro.isReader, Micro.clrM, exec, Prog.isBusy, Prog.cliAccepts]
    · cases hs
  case closeMgr =>
    split at hs
    · simp only [Option.some.injEq] at hs; subst hs; right
      refine ⟨?_, ?_, ?_, ?_, ?_, ?_, ?_, ?_, ?_, ?_, ?_, ?_⟩ <;> simp_all [Micro.ansW, Micro.ansM, Prog.isProcessing, Micro.inert, Micro.isProc, Prog.isAnswer, answerPending, tokens, owed, wfM, wfW, Micro.mAllowed, Micro.relM, Micro.isRelM, Micro.sigTok, Micro.sup, Micro.tokW, firstRelIsStore,
          Micro.isReader, Micro.clrM, exec, Prog.isBusy, Prog.cliAccepts]
    · cases hs
  case closeG =>
    split at hs
    · simp only [Option.some.injEq] at hs; subst hs; right
      refine ⟨?_, ?_, ?_, ?_, ?_, ?_, ?_, ?_, ?_, ?_, ?_, ?_⟩ <;> simp_all [Micro.ansW, Micro.ansM, Prog.isProcessing, Micro.inert, Micro.isProc, Prog.isAnswer, answerPending, tokens, owed, wfM, wfW, Micro.mAllowed, Micro.relM, Micro.isRelM, Micro.sigTok, Micro.sup, Micro.tokW, firstRelIsStore,
          Micro.isReader, Micro.clrM, exec, Prog.isBusy, Prog.cliAccepts] <;> omega
    · cases hs
  case gStore =>
    split at hs
    · rename_i hg
      simp only [Option.some.injEq] at hs; subst hs; right
      refine ⟨?_, ?_, ?_, ?_, ?_, ?_, ?_, ?_, ?_, ?_, ?_, ?_⟩
      · numtac s
      · numtac s
      all_goals (simp_all [Micro.ansW, Micro.ansM, Prog.isProcessing, Micro.inert, Micro.isProc, Prog.isAnswer, answerPending, wfM, wfW, Micro.mAllowed, Micro.relM, Micro.isRelM, Micro.sigTok, Micro.sup, Micro.tokW, firstRelIsStore,
          Micro.isReader, Micro.clrM, exec, Prog.isBusy, Prog.cliAccepts] <;> first | omega | (intros; right; right; right; omega))
    · cases hs
  case gEnd =>
    split at hs
    · rename_i hg
      simp only [Option.some.injEq] at hs; subst hs; right
      refine ⟨?_, ?_, ?_, ?_, ?_, ?_, ?_, ?_, ?_, ?_, ?_, ?_⟩
      · numtac s
      · numtac s
      all_goals (simp_all [Micro.ansW, Micro.ansM, Prog.isProcessing, Micro.inert, Micro.isProc, Prog.isAnswer, answerPending, wfM, wfW, Micro.mAllowed, Micro.relM, Micro.isRelM, Micro.sigTok, Micro.sup, Micro.tokW, firstRelIsStore,
          Micro.isReader, Micro.clrM, exec, Prog.isBusy, Prog.cliAccepts] <;> first | omega | (intro hb; rcases busy hb with h | h | h | h <;> simp [h]; omega))
    · cases hs
  case gRead =>
    split at hs
    · rename_i hg
      simp only [Option.some.injEq] at hs; subst hs; right
      refine ⟨?_, ?_, ?_, ?_, ?_, ?_, ?_, ?_, ?_, ?_, ?_, ?_⟩
      · numtac s
      · numtac s
      all_goals (by_cases hb : s.progress.isBusy = true <;> simp_all [Micro.ansW, Micro.ansM, Prog.isProcessing, Micro.inert, Micro.isProc, Prog.isAnswer, answerPending, wfM, wfW, Micro.mAllowed, Micro.relM, Micro.isRelM, Micro.sigTok, Micro.sup, Micro.tokW, firstRelIsStore,
          Micro.isReader, Micro.clrM, exec, Prog.isBusy, Prog.cliAccepts] <;> first | omega | (intros; right; right; right; omega))
    · cases hs
  case gWrite =>
    split at hs
    · rename_i hg
      simp only [Option.some.injEq] at hs; subst hs; right
      refine ⟨?_, ?_, ?_, ?_, ?_, ?_, ?_, ?_, ?_, ?_, ?_, ?_⟩
      · numtac s
      · numtac s
      all_goals (simp_all [Micro.ansW, Micro.ansM, Prog.isProcessing, Micro.inert, Micro.isProc, Prog.isAnswer, answerPending, wfM, wfW, Micro.mAllowed, Micro.relM, Micro.isRelM, Micro.sigTok, Micro.sup, Micro.tokW, firstRelIsStore,
          Micro.isReader, Micro.clrM, exec, Prog.isBusy, Prog.cliAccepts])
    · cases hs
  case wake i =>
    split at hs
    · rename_i hc
      simp only [Bool.and_eq_true, List.isEmpty_iff] at hc
      obtain ⟨hm, hn⟩ := hc
      split at hs
      · rename_i p hp
        split at hs
        · rename_i hr
          have hr' : p.reloading = s.reloading := by simpa using hr
          simp only [Option.some.injEq] at hs; subst hs; right
          have hok := hPath_of_get hp
          simp only [hPathOk, Bool.and_eq_true, decide_eq_true_eq, beq_iff_eq] at hok
          obtain ⟨⟨⟨⟨h1, h2⟩, h3⟩, h4⟩, h4b⟩ := hok
          rw [hm] at tok sup store note busy act proc
          simp only [answerPending, hm, anyAnsM_nil, anyRelM_nil, Bool.or_false, Bool.not_false, Bool.and_true] at own
          cases hrl : s.reloading <;> rw [hr', hrl] at h4 h4b <;>
            simp only [Bool.false_eq_true, if_false, if_true, Bool.and_eq_true, Bool.not_eq_true', beq_iff_eq] at h4 h4b
          · obtain ⟨h5, h6⟩ := h4
            refine ⟨?_, ?_, ?_, ?_, ?_, ?_, ?_, ?_, ?_, ?_, ?_, ?_⟩
            rotate_right
            · intro hf0 ha; apply own hf0
              simp only [hrl, Bool.or_false]
              simpa [answerPending, h4b] using ha
            all_goals (simp_all [Micro.ansW, Micro.ansM, Prog.isProcessing, Micro.inert, Micro.isProc, Prog.isAnswer, tokens, owed] <;>
              (intro hf0 hb; rcases busy hf0 hb with h | h | h <;> simp [h]))
          · obtain ⟨⟨h5, h6⟩, h7⟩ := h4
            refine ⟨?_, ?_, ?_, ?_, ?_, ?_, ?_, ?_, ?_, ?_, ?_, ?_⟩
            rotate_right
            · intro hf0 _; apply own hf0; simp [hrl]
            all_goals (simp_all [Micro.ansW, Micro.ansM, Prog.isProcessing, Micro.inert, Micro.isProc, Prog.isAnswer, tokens, owed] <;>
              (intro hf0 hb; rcases busy hf0 hb with h | h | h <;> simp [h]))
        · cases hs
      · cases hs
    · cases hs
  case wStart i =>
    split at hs
    · rename_i hc
      have hw : s.w = [] := by simpa using hc
      split at hs
      · rename_i k q p hq hp
        simp only [Option.some.injEq] at hs; subst hs; right
        have hok := wPath_of_get hp
        simp only [wPathOk, Bool.and_eq_true, beq_iff_eq] at hok
        obtain ⟨⟨⟨h1, h2⟩, h3⟩, h4⟩ := hok
        have hown : s.faults = 0 → answerPending { s with queue := q, w := expand p, wAbort := s.qAbort } = true →
            s.progress.isAnswer = false := by
          intro hf0 ha; apply own hf0
          simp only [answerPending, hw, h4, anyAnsW_nil, hasProc_nil, Bool.not_true, Bool.and_false, Bool.false_and,
            Bool.false_or] at ha ⊢
          exact ha
        rw [hw] at tok sup busy act proc tail
        rw [hq] at tok sup
        refine ⟨?_, ?_, ?_, ?_, ?_, ?_, ?_, ?_, ?_, ?_, ?_, hown⟩
        · numtac s
        · numtac s
        all_goals (simp_all <;> (intro hf0 hb; rcases busy hf0 hb with h | h | h <;> simp [h]))
      · cases hs
    · cases hs
  case stepMF =>
    split at hs
    · cases hs
    · rename_i x rest hm
      split at hs
      · rename_i r hr
        simp only [Option.some.injEq] at hs
        rw [← hs]; right; exact inv_stepMF ⟨tok, sup, wfw, wfm, rel1, store, note, busy, act, proc, tail, own⟩ hm hr
      · cases hs
  case stepWF =>
    split at hs
    · cases hs
    · rename_i x rest hw
      split at hs
      · rename_i r hr
        simp only [Option.some.injEq] at hs
        rw [← hs]; right; exact inv_stepWF ⟨tok, sup, wfw, wfm, rel1, store, note, busy, act, proc, tail, own⟩ hw hr
      · cases hs
  case gReadF =>
    split at hs
    · simp only [Option.some.injEq] at hs; subst hs; right
      exact ⟨tok, sup, wfw, wfm, rel1, store, note, fun h => by simp at h, act, fun h => by simp at h, tail, fun h => by simp at h⟩
    · cases hs
  case gWriteF =>
    split at hs
    · simp only [Option.some.injEq] at hs; subst hs; right
      exact ⟨tok, sup, wfw, wfm, rel1, store, note, fun h => by simp at h, act, fun h => by simp at h, tail, fun h => by simp at h⟩
    · cases hs
  case swallowF k =>
    split at hs
    · simp only [Option.some.injEq] at hs; subst hs; right
      exact ⟨tok, sup, wfw, wfm, rel1, store, note, fun h => by simp at h, act, fun h => by simp at h, tail, fun h => by simp at h⟩
    · cases hs
  case cliFail =>
    split at hs
    · simp only [Option.some.injEq] at hs; subst hs; right
      exact ⟨tok, sup, wfw, wfm, rel1, store, note, busy, act, proc, tail, own⟩
    · cases hs

theorem good_init : Good init := by
  right
  refine ⟨?_, ?_, ?_, ?_, ?_, ?_, ?_, ?_, ?_, ?_, ?_, ?_⟩ <;> simp [init, tokens, owed, wfW, wfM, firstRelIsStore, Prog.isBusy, Prog.isProcessing, answerPending, Prog.isAnswer]

theorem reachable_good {s : St} (h : Reachable s) : Good s := by
  induction h with
  | init => exact good_init
  | step a _ hs ih => exact good_step ih a hs

theorem reachable_inv {s : St} (h : Reachable s) (hx : s.exited = false) : Inv s := by
  rcases reachable_good h with h | h
  · rw [hx] at h; cases h
  · exact h

end DaeVerif.C20
