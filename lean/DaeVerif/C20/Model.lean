import DaeVerif.C20.Gen
/-!
# C20 — executable model of dae's reload/suspend serialisation (cmd/run.go, cmd/reload_manager.go)

An interleaving transition system.  Threads:

* **M** — the main loop of `(*Runner).Run`: handles SIGUSR1/SIGUSR2 (`tryQueueReloadRequest`) and
  run-state notifications (`case <-runStateChanges`, the hand-off / serve-ready / finish part);
* **W** — the reload worker goroutine (`for req := range reloadManager.reloadReqs`);
* **G** — the anonymous goroutines of `releaseReloadPendingAfterRetirement` (wait for the old
  generation's retirement, then `clearReloadPending`), kept as position counters;
* the retirement goroutines of `startControlPlaneRetirement` appear only through the event
  "the retirement channel closes" (`closeMgr`, `closeG`).

Every thread is a *program*: the list of atomic sections (`Micro`) it still has to run.  A section
is the piece of real code between two calls of the four hook variables of package cmd
(`setRunSignalProgress`, `getRunSignalProgress`, `beginReloadProxyFailureSuppression`,
`endReloadProxyFailureSuppression`) or between two statements of the worker / handler bodies —
exactly the points at which the correspondence harness can park the real goroutines.

The worker body and the run-state handler cannot be executed without a live control plane; their
flag effects are the tables `workerPaths` / `handlerPaths` below, which the harness compares on
every run with the paths it extracts from cmd/run.go by go/ast (see c20_paths_test.go).

Core Lean only (no Mathlib): this file is linked into `c20drv`.
-/
namespace DaeVerif.C20

inductive Kind | reload | suspend
  deriving DecidableEq, Repr

/-- content class of the progress file `/var/run/dae.progress` (code + message class). -/
inductive Prog
  | send          -- '0'   written by `dae reload` before signalling
  | processing    -- '1'
  | done          -- '2' "OK"
  | doneClr       -- '2' ""   (start-up, and a cleared busy report)
  | error         -- '3' msg
  | busyActive    -- '4' "reload already in progress"
  | busyRetiring  -- '4' "... still retiring old generation"
  deriving DecidableEq, Repr

def Prog.isBusy : Prog → Bool
  | .busyActive | .busyRetiring => true
  | _ => false

/-- the pre-check of `dae reload` (cmd/reload.go): it signals only when the file says Done/Error. -/
def Prog.cliAccepts : Prog → Bool
  | .done | .doneClr | .error => true
  | _ => false

/-- atomic sections. -/
inductive Micro
  -- tryQueueReloadRequest
  | casQ (k : Kind)            -- CAS(pending,false,true); on failure also `reloadActive.Load()`
  | beginSend (k : Kind)       -- begin suppression; non-blocking send; on failure pending.Store(false)
  | endSupp                    -- endReloadProxyFailureSuppression()
  | writeBusy (act : Bool)     -- write Busy; then `if !reloadPending.Load()` → clearRejectedReloadProgress
  | writeBusyForce             -- queue-full branch: write Busy "in progress" (no re-check)
  -- clearReloadPending / clearRejectedReloadProgress
  | storePF                    -- pending.Store(false)
  | readProg                   -- read progress file; busy → will write Done ""
  | writeClr                   -- write Done ""
  -- worker / handler statements
  | setProg (p : Prog)
  | setActive (b : Bool)
  | coalesce
  | setErr (b : Bool)
  | nop
  | setStaged (b : Bool)        -- true: setPendingStagedHandoff(handoff, reloadStartedAt, …), also records the request time
  | setMeta                    -- setPendingReloadMetadata(reloadStartedAt, …)
  | clearRet
  | beginHandoff               -- reloading.Store(true); notifyRunStateChange
  | startRet                   -- startControlPlaneRetirement: publishes a fresh retirementDone
  | notifyM
  | fatal                      -- log.Fatalln: the process is gone
  | storeReloading (b : Bool)
  | waitReady                  -- waitReloadReadyOrSignal (outcome = choice of path)
  | setResult                  -- Done "OK" when no reload error was recorded, else Error
  | finishFailHead             -- finishReloadFailure up to and including pending.Store(false)
  | finishSucc                 -- finishReloadSuccess (release now, or hand the release to a G)
  | exitHold                   -- `break loop` on a termination signal during the ready wait
  | exitIdle                   -- `break loop` because the listener is gone and nothing is reloading
  deriving DecidableEq, Repr

/-! ## Retirement of the old generation, with an explicit clock (time unit: ns)

`startControlPlaneRetirement` computes the drain budget with `remainingReloadRetirementBudget`
(`reloadTotalSwitchBudget` minus the time since the request arrived, clamped at 0) and spawns the
retirement goroutine: abort at once (`--abort` / no dialer overlap), or `waitForControlPlaneDrain`:
return when the old generation has no session (left), when the next reload cancels this
retirement, or when the budget timer fires — a timer armed with a duration ≤ 0 fires at once.
`retirementDone` closes right after (`ControlPlane.Close` has its own 5 s bound, not modelled). -/

/-- `reloadTotalSwitchBudget`, regenerated from cmd/run.go on every run (Gen.lean): the theorems hold
for whatever value the source has. -/
def totalSwitchBudget : Nat := Gen.totalSwitchBudgetNs

/-- `remainingReloadRetirementBudget(startedAt, budget)`; `age = time.Since(startedAt)`. -/
def remBudget (zeroStart : Bool) (age : Int) (budget : Int) : Int :=
  if budget ≤ 0 then 0
  else if zeroStart then budget
  else if budget - age < 0 then 0 else budget - age

def optMin (t : Nat) : Option Nat → Nat
  | none => t
  | some x => min t x

/-- when `waitForControlPlaneDrain(maxWait)` returns, measured from its call: `sessions` live
sessions at the call, the last of them ending at `idleAt` (`none` = never), the context cancelled
at `cancelAt`. -/
def drainTime (maxWait : Int) (sessions : Nat) (idleAt cancelAt : Option Nat) : Nat :=
  if sessions = 0 then 0 else optMin (optMin maxWait.toNat idleAt) cancelAt

inductive DrainRes | idle | canceled | timeout
  deriving DecidableEq, Repr

/-- the results `waitForControlPlaneDrain` may return (several when events coincide: Go's `select`
picks any ready case). -/
def drainResults (maxWait : Int) (sessions : Nat) (idleAt cancelAt : Option Nat) : List DrainRes :=
  if sessions = 0 then [.idle] else
  let t := drainTime maxWait sessions idleAt cancelAt
  (if idleAt = some t then [.idle] else []) ++ (if cancelAt = some t then [.canceled] else []) ++
  (if maxWait.toNat = t then [.timeout] else [])

/-- what the environment decides about one retirement. -/
structure RetScenario where
  zeroStart : Bool := false   -- pendingReloadRequestedAt.IsZero()
  abort : Bool := false       -- abort file present
  overlap : Bool := false     -- InheritDialerHealthFrom found a common dialer
  age : Int := 0              -- time since the request arrived, at retirement start
  sessions : Nat := 0         -- live sessions of the old generation
  idleAt : Option Nat := none
  cancelAt : Option Nat := none
  deriving DecidableEq, Repr

def RetScenario.budget (sc : RetScenario) : Int := remBudget sc.zeroStart sc.age totalSwitchBudget

/-- when `retirementDone` closes, measured from `startControlPlaneRetirement`. -/
def retireDoneAt (sc : RetScenario) : Nat :=
  if sc.abort || !sc.overlap then 0 else drainTime sc.budget sc.sessions sc.idleAt sc.cancelAt

/-- was the old generation force-aborted (`AbortConnections`)? -/
def retireAborted (sc : RetScenario) : List Bool :=
  if sc.abort || !sc.overlap then [true]
  else (drainResults sc.budget sc.sessions sc.idleAt sc.cancelAt).map fun r => r != .idle

/-- `reloadFailureQuiesce` (component/outbound/dialer: Timeout + 10 s): after the suppression
counter has returned to 0 node-failure reports stay muted for this long. -/
def quiesceNs : Nat := Gen.quiesceNs

/-! ## The serve-ready wait has a clock too

`waitReloadReadyOrSignal(timeout)` returns when the Serve goroutine reports (ready or failed), when a
termination signal arrives, or when its timer fires — the timer is armed only for `timeout > 0`
(both call sites pass `reloadReadyTimeout`; pinned by the extractor, positivity checked on every
run).  SIGUSR1/SIGUSR2/SIGHUP are consumed in between and change nothing about when it returns. -/

def optMinO : Option Nat → Option Nat → Option Nat
  | none, b => b
  | a, none => a
  | some a, some b => some (min a b)

/-- when the wait returns (`none` = never). -/
def waitDoneAt (timeout : Int) (reportAt termAt : Option Nat) : Option Nat :=
  optMinO (if 0 < timeout then some timeout.toNat else none) (optMinO reportAt termAt)

inductive WaitRes | ready | failed | signal | timeout
  deriving DecidableEq, Repr

/-- the results it may return (several when events coincide). -/
def waitResults (timeout : Int) (reportAt : Option Nat) (reportOk : Bool) (termAt : Option Nat) : List WaitRes :=
  match waitDoneAt timeout reportAt termAt with
  | none => []
  | some t =>
    (if reportAt = some t then [if reportOk then .ready else .failed] else []) ++
    (if termAt = some t then [.signal] else []) ++
    (if 0 < timeout ∧ timeout.toNat = t then [.timeout] else [])

structure St where
  pending : Bool := false
  active : Bool := false
  reloading : Bool := false
  suppress : Nat := 0
  progress : Prog := .doneClr
  queue : List Kind := []
  reloadErr : Bool := false
  staged : Bool := false
  /-- `pendingRetirementDone`: `none` = nil, `some c` = a channel, `c` = already closed. -/
  retDone : Option Bool := none
  notify : Bool := false
  exited : Bool := false
  m : List Micro := []
  w : List Micro := []
  /-- G goroutines: waiting on an open channel / channel closed, about to `pending.Store(false)` /
  about to end suppression / about to read the progress file / about to write Done "". -/
  gBlocked : Nat := 0
  gStore : Nat := 0
  gEnd : Nat := 0
  gRead : Nat := 0
  gWrite : Nat := 0
  /-- the scenario the environment has chosen for the next retirement to start. -/
  nextRet : RetScenario := {}
  /-- time left until the retirement published in `pendingRetirementDone` completes by itself
  (meaningful while it is open), and the same for the one a blocked G is waiting for. -/
  mgrLeft : Nat := 0
  gLeft : Nat := 0
  /-- remaining time of the post-reload mute window (`reloadProxyFailureSuppressUntil - now`). -/
  muteLeft : Nat := 0
  /-- the abort marker file `/var/run/dae.abort` exists. -/
  marker : Bool := false
  /-- abort decision carried by the queued request / by the request the worker is processing. -/
  qAbort : Bool := false
  wAbort : Bool := false
  /-- progress-file operations that have failed so far (a write error is dropped by every caller of
  `setRunSignalProgress`, a read error makes `clearRejectedReloadProgress` return). -/
  faults : Nat := 0
  /-- model time (ns); `tick d` advances it. -/
  now : Nat := 0
  /-- `requestedAt` of the request in progress: the time its signal was taken (`time.Now()` in the
  dispatch of the main select), carried by the request through the queue and `coalesceReloadRequest`
  into the worker's `reloadStartedAt`. -/
  reqAt : Nat := 0
  /-- `pendingReloadRequestedAt` of the manager (`none` = the zero time), written by
  `setPendingReloadMetadata` / `setPendingStagedHandoff` and read by `startControlPlaneRetirement`. -/
  metaAt : Option Nat := none
  deriving DecidableEq, Repr

def init : St := {}

/-- the circumstances of the retirement that `startControlPlaneRetirement` starts NOW: what the
environment decided (sessions, their end, the next reload's cancellation, dialer overlap), and what the
system itself determines — the time since the request arrived as recorded in the manager
(`time.Since(pendingReloadRequestedAt)`), and the abort decision of the request being processed
(`req.abortConnections`, resp. `handoff.abortConnections` of the staged hand-off it prepared). -/
def retScenarioOf (s : St) : RetScenario :=
  { s.nextRet with
    zeroStart := s.metaAt.isNone
    age := (s.now : Int) - ((s.metaAt.getD 0 : Nat) : Int)
    abort := s.wAbort }

def busyOf (act : Bool) : Prog := if act then .busyActive else .busyRetiring

/-- one atomic section on the shared state; returns the sections the same thread runs next
(pushed in front of its remaining program). -/
def exec (s : St) : Micro → St × List Micro
  | .casQ k =>
    if s.pending then ({ s with marker := false }, [.writeBusy s.active])
    else ({ s with pending := true, marker := false, qAbort := s.marker, reqAt := s.now }, [.beginSend k])
  | .beginSend k =>
    if s.queue.length < 1 then
      ({ s with suppress := s.suppress + 1, queue := s.queue ++ [k] }, [])
    else
      ({ s with suppress := s.suppress + 1, pending := false }, [.endSupp, .writeBusyForce])
  | .endSupp =>
    ({ s with suppress := s.suppress - 1, muteLeft := if s.suppress = 1 then quiesceNs else s.muteLeft }, [])
  | .writeBusy act =>
    ({ s with progress := busyOf act }, if s.pending then [] else [.readProg])
  | .writeBusyForce => ({ s with progress := .busyActive }, [])
  | .storePF => ({ s with pending := false }, [])
  | .readProg => (s, if s.progress.isBusy then [.writeClr] else [])
  | .writeClr => ({ s with progress := .doneClr }, [])
  | .setProg p => ({ s with progress := p }, [])
  | .setActive b => ({ s with active := b }, [])
  | .coalesce => ({ s with queue := [] }, [])
  | .setErr b => ({ s with reloadErr := b }, [])
  | .nop => (s, [])
  | .setStaged b => ({ s with staged := b, metaAt := if b then some s.reqAt else s.metaAt }, [])
  | .setMeta => ({ s with metaAt := some s.reqAt }, [])
  | .clearRet => ({ s with retDone := none }, [])
  | .beginHandoff => ({ s with reloading := true, notify := true }, [])
  | .startRet => ({ s with retDone := some false, mgrLeft := retireDoneAt (retScenarioOf s) }, [])
  | .notifyM => ({ s with notify := true }, [])
  | .fatal => ({ s with exited := true }, [])
  | .storeReloading b => ({ s with reloading := b }, [])
  | .waitReady => (s, [])
  | .setResult => ({ s with progress := if s.reloadErr then .error else .done }, [])
  | .finishFailHead => ({ s with reloading := false, active := false, pending := false }, [])
  | .finishSucc =>
    match s.retDone with
    | none => ({ s with reloading := false, active := false, pending := false }, [.endSupp, .readProg])
    | some false => ({ s with reloading := false, active := false, retDone := none,
                              gBlocked := s.gBlocked + 1, gLeft := s.mgrLeft }, [])
    | some true => ({ s with reloading := false, active := false, retDone := none,
                             gStore := s.gStore + 1 }, [])
  | .exitHold => ({ s with exited := true }, [])
  | .exitIdle => ({ s with exited := true }, [])

/-- the same section with its progress-file operation FAILING (disk full, `/var/run` read-only, the
file unreadable …): every caller drops the error of `setRunSignalProgress` (`_ = …`), so a failed write
leaves the file as it was and the section goes on; `clearRejectedReloadProgress` returns on a read
error, so a failed read skips the clean-up.  `none` for sections without file I/O. -/
def execF (s : St) : Micro → Option (St × List Micro)
  | .writeBusy _ => some (s, if s.pending then [] else [.readProg])
  | .writeBusyForce => some (s, [])
  | .readProg => some (s, [])
  | .writeClr => some (s, [])
  | .setProg _ => some (s, [])
  | .setResult => some (s, [])
  | _ => none

/-! ## The path tables (what cmd/run.go does between the hook points) -/

inductive GuardName | reloading | lnil | staged | term | notready | retire
  deriving DecidableEq, Repr

/-- statement-level effects, as the go/ast extractor reports them. -/
inductive Eff
  | setActive (b : Bool) | coalesce | setProg (p : Prog) | setErr (b : Bool) | resetProxy
  | clearPending | setStaged | clearStaged | clearRet | setMeta | beginHandoff | startRet
  | pprof | notify | fatal | storeReloading (b : Bool) | hooks | wait | result
  | finishFail | finishSucc | exitHold | exitIdle
  | serveLit   -- `go func(){ … Serve … notifyRunStateChange }()`: nothing but a later notification
  | guard (g : GuardName) (pol : Bool)
  deriving DecidableEq, Repr

def expand1 : Eff → List Micro
  | .setActive b => [.setActive b]
  | .coalesce => [.coalesce]
  | .setProg p => [.setProg p]
  | .setErr b => [.setErr b]
  | .resetProxy => [.nop]
  | .clearPending => [.storePF, .endSupp, .readProg]
  | .setStaged => [.setStaged true]
  | .clearStaged => [.setStaged false]
  | .clearRet => [.clearRet]
  | .setMeta => [.setMeta]
  | .beginHandoff => [.beginHandoff]
  | .startRet => [.startRet]
  | .pprof => [.nop]
  | .notify => [.notifyM]
  | .fatal => [.fatal]
  | .storeReloading b => [.storeReloading b]
  | .hooks => [.nop]
  | .wait => [.waitReady]
  | .result => [.setResult]
  -- a7f78cf: finishReloadFailure ends like finishReloadSuccess (release now, or hand the release to a G
  -- that waits for the retirement the worker has already published)
  | .finishFail => [.finishSucc]
  | .finishSucc => [.finishSucc]
  | .exitHold => [.exitHold]
  | .exitIdle => [.exitIdle]
  | .serveLit => []
  | .guard _ _ => []

def expand (es : List Eff) : List Micro := es.flatMap expand1

/-- common head of every worker iteration (after the receive from `reloadReqs`). -/
def wHead : List Eff := [.setActive true, .coalesce, .setProg .processing, .setErr false, .resetProxy]

def wFail : List Eff := [.setProg .error, .setActive false, .clearPending]

def wSwitch (stagedEff : Eff) (retire : Bool) : List Eff :=
  [stagedEff, .clearRet, .setMeta, .guard .retire retire] ++
    (if retire then [.startRet] else []) ++ [.beginHandoff, .pprof, .notify]

/-- every control-flow path of the worker body, loop head to `continue` / end / Fatalln. -/
def workerPaths : List (List Eff) :=
  [ -- config load failed (reload: readConfig, suspend: emptyConfig)
    wHead ++ wFail,
    -- staged same-port hand-off: prepare failed / listener clone failed
    wHead ++ [.setErr true] ++ wFail,
    -- staged same-port hand-off prepared
    wHead ++ [.setStaged, .beginHandoff, .notify],
    -- full reload: new control plane built
    wHead ++ wSwitch .clearStaged false,
    wHead ++ wSwitch .clearStaged true,
    wHead ++ wSwitch .setStaged false,
    wHead ++ wSwitch .setStaged true,
    -- full reload: build failed, rolled back
    wHead ++ [.setErr true] ++ wSwitch .clearStaged false,
    wHead ++ [.setErr true] ++ wSwitch .clearStaged true,
    wHead ++ [.setErr true] ++ wSwitch .setStaged false,
    wHead ++ [.setErr true] ++ wSwitch .setStaged true,
    -- full reload: build failed, rollback failed
    wHead ++ [.setErr true, .fatal],
    -- full reload: (rolled back and) the new listener could not be prepared
    wHead ++ [.setErr true, .setErr true] ++ wFail ]

structure HPath where
  reloading : Bool
  lnil : Bool
  effs : List Eff
  deriving DecidableEq, Repr

def hServePre : List Eff := [.storeReloading false, .hooks, .serveLit, .wait]

/-- every control-flow path of `case <-runStateChanges:`. -/
def handlerPaths : List HPath :=
  [ ⟨false, false, []⟩,
    ⟨false, true, [.exitIdle]⟩,
    -- serve branch (listener present)
    ⟨true, false, hServePre ++ [.guard .term true, .exitHold]⟩,
    ⟨true, false, hServePre ++ [.guard .term false, .guard .notready true, .setErr true, .setProg .error,
        .guard .staged false, .finishFail]⟩,
    ⟨true, false, hServePre ++ [.guard .term false, .guard .notready true, .setErr true, .setProg .error,
        .guard .staged true, .clearStaged, .finishFail]⟩,
    ⟨true, false, hServePre ++ [.guard .term false, .guard .notready false, .guard .staged false,
        .result, .finishSucc]⟩,
    ⟨true, false, hServePre ++ [.guard .term false, .guard .notready false, .guard .staged true,
        .clearStaged, .result, .finishSucc]⟩,
    ⟨true, false, hServePre ++ [.guard .term false, .guard .notready false, .guard .staged true,
        .clearStaged, .startRet, .result, .finishSucc]⟩,
    -- re-listen branch (listener == nil)
    ⟨true, true, [.serveLit, .wait, .guard .term true, .exitHold]⟩,
    ⟨true, true, [.serveLit, .wait, .guard .term false, .guard .notready true, .setErr true, .setProg .error,
        .storeReloading false, .setActive false, .clearPending]⟩,
    ⟨true, true, [.serveLit, .wait, .guard .term false, .guard .notready false, .result, .finishSucc]⟩ ]

/-! ## Actions -/

inductive Act
  | sig (k : Kind)        -- M takes SIGUSR1 / SIGUSR2 from `sigs` and calls queueReloadRequest
  | swallow (k : Kind)    -- SIGUSR1/2 consumed by waitReloadReadyOrSignal: refused, reported busy
  | term                  -- M takes a termination signal in its main select
  | cliSend               -- a `dae reload` client passes its pre-check and writes ReloadSend
  | wake (i : Nat)        -- M takes a run-state notification and follows handlerPaths[i]
  | wStart (i : Nat)      -- W receives a request and follows workerPaths[i]
  | stepM | stepW
  | closeMgr              -- the retirement published in pendingRetirementDone completes
  | closeG                -- a retirement some G is waiting for completes
  | gStore | gEnd | gRead | gWrite   -- a G runs its next section of clearReloadPending
  | chooseRet (sc : RetScenario)     -- the environment fixes the circumstances of the next retirement
  | tick (d : Nat)                   -- time passes; not beyond the completion time of an open retirement
  | cliMark                          -- a `-a` client leaves the abort marker (just before it signals)
  | spuriousNotify                   -- a Serve goroutine ends: notifyRunStateChange
  -- the same steps with the progress-file operation inside failing (the environment decides)
  | stepMF | stepWF | gReadF | gWriteF
  | swallowF (k : Kind)              -- signal consumed in the ready wait, the busy report cannot be written
  | cliFail                          -- a `dae reload` client writes ReloadSend, its kill(2) fails, it restores the file
  deriving DecidableEq, Repr

/-- environment inputs; everything else is the system's own progress. -/
def Act.isExternal : Act → Bool
  | .sig _ | .swallow _ | .term | .cliSend | .chooseRet _ | .tick _ | .cliMark | .spuriousNotify
  | .swallowF _ | .cliFail => true
  | _ => false

def step (s : St) (a : Act) : Option St :=
  if s.exited then none else
  match a with
  | .sig k => if s.m.isEmpty then some { s with m := [.casQ k] } else none
  | .swallow _ =>
    match s.m with
    | .waitReady :: _ => some { s with progress := .busyActive, marker := false }
    | _ => none
  | .term => if s.m.isEmpty then some { s with exited := true } else none
  | .cliSend => if s.progress.cliAccepts then some { s with progress := .send } else none
  | .wake i =>
    if s.m.isEmpty && s.notify then
      match handlerPaths[i]? with
      | some p => if p.reloading == s.reloading then some { s with notify := false, m := expand p.effs } else none
      | none => none
    else none
  | .wStart i =>
    if s.w.isEmpty then
      match s.queue, workerPaths[i]? with
      | _ :: q, some p => some { s with queue := q, w := expand p, wAbort := s.qAbort }
      | _, _ => none
    else none
  | .stepM =>
    match s.m with
    | [] => none
    | x :: rest => let r := exec s x; some { r.1 with m := r.2 ++ rest }
  | .stepW =>
    match s.w with
    | [] => none
    | x :: rest => let r := exec s x; some { r.1 with w := r.2 ++ rest }
  | .closeMgr => if s.retDone = some false then some { s with retDone := some true } else none
  | .closeG => if 0 < s.gBlocked then some { s with gBlocked := s.gBlocked - 1, gStore := s.gStore + 1 } else none
  | .gStore =>
    if 0 < s.gStore then
      some { (exec s .storePF).1 with gStore := s.gStore - 1, gEnd := s.gEnd + 1 } else none
  | .gEnd =>
    if 0 < s.gEnd then
      some { (exec s .endSupp).1 with gEnd := s.gEnd - 1, gRead := s.gRead + 1 } else none
  | .gRead =>
    if 0 < s.gRead then
      let r := exec s .readProg
      some { r.1 with gRead := s.gRead - 1, gWrite := s.gWrite + r.2.length } else none
  | .gWrite =>
    if 0 < s.gWrite then
      some { (exec s .writeClr).1 with gWrite := s.gWrite - 1 } else none
  | .chooseRet sc => if 0 ≤ sc.age then some { s with nextRet := sc } else none
  | .cliMark => some { s with marker := true }
  | .spuriousNotify => some { s with notify := true }
  | .stepMF =>
    match s.m with
    | [] => none
    | x :: rest =>
      match execF s x with
      | some r => some { r.1 with m := r.2 ++ rest, faults := s.faults + 1 }
      | none => none
  | .stepWF =>
    match s.w with
    | [] => none
    | x :: rest =>
      match execF s x with
      | some r => some { r.1 with w := r.2 ++ rest, faults := s.faults + 1 }
      | none => none
  | .gReadF => if 0 < s.gRead then some { s with gRead := s.gRead - 1, faults := s.faults + 1 } else none
  | .gWriteF => if 0 < s.gWrite then some { s with gWrite := s.gWrite - 1, faults := s.faults + 1 } else none
  | .swallowF _ =>
    match s.m with
    | .waitReady :: _ => some { s with marker := false, faults := s.faults + 1 }
    | _ => none
  | .cliFail => if s.progress.cliAccepts then some s else none
  | .tick d =>
    if (s.retDone != some false || decide (d ≤ s.mgrLeft)) && (s.gBlocked == 0 || decide (d ≤ s.gLeft)) then
      some { s with mgrLeft := s.mgrLeft - d, gLeft := s.gLeft - d, muteLeft := s.muteLeft - d, now := s.now + d } else none

/-- run a schedule; `none` as soon as an action is not enabled. -/
def runActs (s : St) : List Act → Option St
  | [] => some s
  | a :: as => match step s a with
    | some s' => runActs s' as
    | none => none

inductive Reachable : St → Prop
  | init : Reachable init
  | step {s s' : St} (a : Act) : Reachable s → step s a = some s' → Reachable s'

/-- nothing the system can do by itself is enabled. -/
def internalActs : List Act :=
  [.stepM, .stepW, .closeMgr, .closeG, .gStore, .gEnd, .gRead, .gWrite] ++
  (List.range handlerPaths.length).map .wake ++ (List.range workerPaths.length).map .wStart

def quiescent (s : St) : Bool := internalActs.all fun a => (step s a).isNone

end DaeVerif.C20
