/-!
# C20 — the muting scope counter as a concurrent object

`BeginReloadProxyFailureSuppression` is one atomic add; `EndReloadProxyFailureSuppression` is a
Load / CompareAndSwap retry loop on the same word (component/outbound/dialer/sticky_cache.go).  Any
number of threads, each running a program of Begin / End calls, every interleaving of the individual
atomic operations.  An End call is only ever made for a scope that has been begun (`pool`: the main
model's `end_suppression_never_clamped`); `retry = false` is the single-attempt variant (one Load, one
CAS, return whatever happens).  Core Lean only.
-/
namespace DaeVerif.C20.Scope

inductive Op | begin | end_
  deriving DecidableEq, Repr

/-- where a thread is inside its current End call. -/
inductive TS | idle | claimed | loaded (cur : Nat)
  deriving DecidableEq, Repr

structure Thread where
  prog : List Op
  st : TS := .idle
  deriving DecidableEq, Repr

structure S where
  counter : Nat := 0
  /-- scopes begun whose End call has not started yet. -/
  pool : Nat := 0
  /-- End calls that returned at the `current <= 0` clamp / that returned after a failed CAS. -/
  clamped : Nat := 0
  lost : Nat := 0
  threads : List Thread := []
  deriving DecidableEq, Repr

/-- one atomic operation of thread `i`. -/
def step (retry : Bool) (s : S) (i : Nat) : Option S :=
  match s.threads[i]? with
  | none => none
  | some t =>
    match t.prog, t.st with
    | .begin :: r, .idle =>
      some { s with counter := s.counter + 1, pool := s.pool + 1, threads := s.threads.set i ⟨r, .idle⟩ }
    | .end_ :: r, .idle =>
      if 0 < s.pool then some { s with pool := s.pool - 1, threads := s.threads.set i ⟨.end_ :: r, .claimed⟩ } else none
    | .end_ :: r, .claimed =>      -- current := Load()
      if s.counter = 0 then some { s with clamped := s.clamped + 1, threads := s.threads.set i ⟨r, .idle⟩ }
      else some { s with threads := s.threads.set i ⟨.end_ :: r, .loaded s.counter⟩ }
    | .end_ :: r, .loaded cur =>   -- CompareAndSwap(current, current-1)
      if s.counter = cur then some { s with counter := cur - 1, threads := s.threads.set i ⟨r, .idle⟩ }
      else if retry then some { s with threads := s.threads.set i ⟨.end_ :: r, .claimed⟩ }
      else some { s with lost := s.lost + 1, threads := s.threads.set i ⟨r, .idle⟩ }
    | _, _ => none

def run (retry : Bool) (s : S) : List Nat → Option S
  | [] => some s
  | i :: is => (step retry s i).bind fun s' => run retry s' is

def sumF (f : Thread → Nat) : List Thread → Nat
  | [] => 0
  | t :: r => f t + sumF f r

def cntB : List Op → Nat
  | [] => 0
  | .begin :: r => cntB r + 1
  | .end_ :: r => cntB r

def cntE : List Op → Nat
  | [] => 0
  | .begin :: r => cntE r
  | .end_ :: r => cntE r + 1

/-- the thread is inside an End call that has claimed its scope and not yet decremented. -/
def infl : Thread → Nat
  | ⟨.end_ :: _, .claimed⟩ => 1
  | ⟨.end_ :: _, .loaded _⟩ => 1
  | _ => 0

def nb (t : Thread) : Nat := cntB t.prog

/-- End calls of the thread that have not started yet. -/
def ue : Thread → Nat
  | ⟨.end_ :: r, .claimed⟩ => cntE r
  | ⟨.end_ :: r, .loaded _⟩ => cntE r
  | ⟨p, _⟩ => cntE p

theorem ue_idle (p : List Op) : ue ⟨p, .idle⟩ = cntE p := by
  cases p with
  | nil => rfl
  | cons o r => cases o <;> rfl
theorem infl_idle (p : List Op) : infl ⟨p, .idle⟩ = 0 := by
  cases p with
  | nil => rfl
  | cons o r => cases o <;> rfl
theorem nb_mk (p : List Op) (st : TS) : nb ⟨p, st⟩ = cntB p := rfl
theorem ue_claimed (r : List Op) : ue ⟨.end_ :: r, .claimed⟩ = cntE r := rfl
theorem ue_loaded (r : List Op) (c : Nat) : ue ⟨.end_ :: r, .loaded c⟩ = cntE r := rfl
theorem infl_claimed (r : List Op) : infl ⟨.end_ :: r, .claimed⟩ = 1 := rfl
theorem infl_loaded (r : List Op) (c : Nat) : infl ⟨.end_ :: r, .loaded c⟩ = 1 := rfl

def mk (progs : List (List Op)) : S := { threads := progs.map fun p => ⟨p, .idle⟩ }

def finished (s : S) : Prop := ∀ t ∈ s.threads, t.prog = []

theorem sumF_set (f : Thread → Nat) : ∀ (l : List Thread) (i : Nat) (t t' : Thread), l[i]? = some t →
    sumF f (l.set i t') + f t = sumF f l + f t' := by
  intro l
  induction l with
  | nil => intro i t t' h; simp at h
  | cons x xs ih =>
    intro i t t' h
    cases i with
    | zero => simp at h; subst h; simp [sumF]; omega
    | succ n =>
      simp at h
      have := ih n t t' h
      simp [sumF]; omega

/-- the invariant: the counter word = scopes waiting for their End + End calls in flight; no End ever
returned without its decrement; and the bookkeeping of begun / ended scopes. -/
structure Inv (b0 e0 : Nat) (s : S) : Prop where
  cnt : s.counter = s.pool + sumF infl s.threads
  noClamp : s.clamped = 0
  noLost : s.lost = 0
  bal : s.pool + sumF nb s.threads + e0 = sumF ue s.threads + b0

theorem inv_step {b0 e0 : Nat} {s s' : S} {i : Nat} (h : Inv b0 e0 s) (hs : step true s i = some s') :
    Inv b0 e0 s' := by
  obtain ⟨cnt, nc, nl, bal⟩ := h
  unfold step at hs
  split at hs
  · cases hs
  · rename_i t ht
    have e1 := fun t' => sumF_set infl s.threads i t t' ht
    have e2 := fun t' => sumF_set nb s.threads i t t' ht
    have e3 := fun t' => sumF_set ue s.threads i t t' ht
    obtain ⟨prog, st⟩ := t
    split at hs
    · rename_i r hp hst
      simp only at hp hst; subst hp; subst hst
      simp only [Option.some.injEq] at hs; subst hs
      have a1 := e1 ⟨r, .idle⟩; have a2 := e2 ⟨r, .idle⟩; have a3 := e3 ⟨r, .idle⟩
      refine ⟨?_, nc, nl, ?_⟩ <;>
        simp only [ue_idle, infl_idle, ue_claimed, ue_loaded, infl_claimed, infl_loaded, nb_mk, cntB, cntE] at a1 a2 a3 ⊢ <;> omega
    · rename_i r hp hst
      simp only at hp hst; subst hp; subst hst
      split at hs
      · simp only [Option.some.injEq] at hs; subst hs
        have a1 := e1 ⟨.end_ :: r, .claimed⟩; have a2 := e2 ⟨.end_ :: r, .claimed⟩; have a3 := e3 ⟨.end_ :: r, .claimed⟩
        refine ⟨?_, nc, nl, ?_⟩ <;> simp only [ue_idle, infl_idle, ue_claimed, ue_loaded, infl_claimed, infl_loaded, nb_mk, cntB, cntE] at a1 a2 a3 ⊢ <;> omega
      · cases hs
    · rename_i r hp hst
      simp only at hp hst; subst hp; subst hst
      have a0 := e1 ⟨[], .idle⟩
      simp only [infl_claimed, infl_idle] at a0
      split at hs
      · -- the clamp: impossible, this very thread is in flight
        rename_i hz; exfalso; omega
      · simp only [Option.some.injEq] at hs; subst hs
        have a1 := e1 ⟨.end_ :: r, .loaded s.counter⟩; have a2 := e2 ⟨.end_ :: r, .loaded s.counter⟩
        have a3 := e3 ⟨.end_ :: r, .loaded s.counter⟩
        refine ⟨?_, nc, nl, ?_⟩ <;> simp only [ue_idle, infl_idle, ue_claimed, ue_loaded, infl_claimed, infl_loaded, nb_mk, cntB, cntE] at a1 a2 a3 ⊢ <;> omega
    · rename_i r cur hp hst
      simp only at hp hst; subst hp; subst hst
      split at hs
      · rename_i hc
        simp only [Option.some.injEq] at hs; subst hs
        have a1 := e1 ⟨r, .idle⟩; have a2 := e2 ⟨r, .idle⟩; have a3 := e3 ⟨r, .idle⟩
        refine ⟨?_, nc, nl, ?_⟩ <;>
          simp only [ue_idle, infl_idle, ue_claimed, ue_loaded, infl_claimed, infl_loaded, nb_mk, cntB, cntE] at a1 a2 a3 ⊢ <;> omega
      · simp only [if_true, Option.some.injEq] at hs; subst hs
        have a1 := e1 ⟨.end_ :: r, .claimed⟩; have a2 := e2 ⟨.end_ :: r, .claimed⟩; have a3 := e3 ⟨.end_ :: r, .claimed⟩
        refine ⟨?_, nc, nl, ?_⟩ <;> simp only [ue_idle, infl_idle, ue_claimed, ue_loaded, infl_claimed, infl_loaded, nb_mk, cntB, cntE] at a1 a2 a3 ⊢ <;> omega
    · cases hs

theorem sum_finished (f : Thread → Nat) (hf : ∀ st, f ⟨[], st⟩ = 0) :
    ∀ l : List Thread, (∀ t ∈ l, t.prog = []) → sumF f l = 0 := by
  intro l
  induction l with
  | nil => intro _; rfl
  | cons x xs ih =>
    intro h
    have hx := h x (by simp)
    obtain ⟨p, st⟩ := x
    simp only at hx; subst hx
    simp [sumF, hf, ih (fun t ht => h t (by simp [ht]))]

theorem sumF_mk (f : Thread → Nat) (g : List Op → Nat) (hfg : ∀ p, f ⟨p, .idle⟩ = g p) :
    ∀ progs : List (List Op), sumF f (progs.map fun p => ⟨p, .idle⟩) = (progs.map g).sum := by
  intro progs
  induction progs with
  | nil => rfl
  | cons p ps ih => simp [sumF, hfg, ih]

theorem inv_mk (progs : List (List Op)) : Inv ((progs.map cntB).sum) ((progs.map cntE).sum) (mk progs) := by
  refine ⟨?_, rfl, rfl, ?_⟩
  · have : sumF infl (progs.map fun p => ⟨p, .idle⟩) = (progs.map fun _ => 0).sum :=
      sumF_mk infl (fun _ => 0) infl_idle progs
    have z : ∀ l : List (List Op), (l.map fun _ => 0).sum = 0 := by
      intro l; induction l <;> simp_all
    simp [mk, this, z]
  · have h1 := sumF_mk nb cntB (fun _ => rfl) progs
    have h2 := sumF_mk ue cntE ue_idle progs
    simp only [mk, h1, h2]; omega

theorem inv_run {b0 e0 : Nat} : ∀ (sched : List Nat) {s s' : S}, Inv b0 e0 s → run true s sched = some s' → Inv b0 e0 s' := by
  intro sched
  induction sched with
  | nil => intro s s' h hr; simp [run] at hr; subst hr; exact h
  | cons i is ih =>
    intro s s' h hr
    simp only [run] at hr
    cases hs : step true s i with
    | none => simp [hs] at hr
    | some s1 => simp only [hs, Option.bind] at hr; exact ih (inv_step h hs) hr

end DaeVerif.C20.Scope
