import DaeVerif.C20.Proofs
/-!
# C20 — settling: quiescent states are clean, internal steps terminate, progress is always possible
-/
set_option linter.unusedSimpArgs false
namespace DaeVerif.C20

/-! ## quiescent states -/

theorem internal_not_external : internalActs.all (fun a => !a.isExternal) = true := by decide

theorem quiescent_step {s : St} (hq : quiescent s = true) {a : Act} (ha : a ∈ internalActs) :
    step s a = none := by
  have := List.all_eq_true.mp hq a ha
  simpa using this

structure Idle (s : St) : Prop where
  m : s.m = []
  w : s.w = []
  queue : s.queue = []
  notify : s.notify = false
  gBlocked : s.gBlocked = 0
  gStore : s.gStore = 0
  gEnd : s.gEnd = 0
  gRead : s.gRead = 0
  gWrite : s.gWrite = 0
  ret : s.retDone ≠ some false

theorem idle_of_quiescent {s : St} (hq : quiescent s = true) (hx : s.exited = false) : Idle s := by
  have hM := quiescent_step hq (a := .stepM) (by decide)
  have hW := quiescent_step hq (a := .stepW) (by decide)
  have hCM := quiescent_step hq (a := .closeMgr) (by decide)
  have hCG := quiescent_step hq (a := .closeG) (by decide)
  have hGS := quiescent_step hq (a := .gStore) (by decide)
  have hGE := quiescent_step hq (a := .gEnd) (by decide)
  have hGR := quiescent_step hq (a := .gRead) (by decide)
  have hGW := quiescent_step hq (a := .gWrite) (by decide)
  have hK0 := quiescent_step hq (a := .wake 0) (by decide)
  have hK2 := quiescent_step hq (a := .wake 2) (by decide)
  have hS0 := quiescent_step hq (a := .wStart 0) (by decide)
  simp only [step, hx, Bool.false_eq_true, if_false] at hM hW hCM hCG hGS hGE hGR hGW hK0 hK2 hS0
  have hm : s.m = [] := by
    cases h : s.m with
    | nil => rfl
    | cons x r => simp [h] at hM
  have hw : s.w = [] := by
    cases h : s.w with
    | nil => rfl
    | cons x r => simp [h] at hW
  have hq' : s.queue = [] := by
    cases h : s.queue with
    | nil => rfl
    | cons x r => simp [hw, h, workerPaths] at hS0
  have hn : s.notify = false := by
    cases h : s.notify with
    | false => rfl
    | true =>
      cases hr : s.reloading
      · simp [hm, h, hr, handlerPaths] at hK0
      · simp [hm, h, hr, handlerPaths] at hK2
  refine ⟨hm, hw, hq', hn, ?_, ?_, ?_, ?_, ?_, ?_⟩
  · simpa using hCG
  · simpa using hGS
  · simpa using hGE
  · simpa using hGR
  · simpa using hGW
  · intro h; simp [h] at hCM

/-- a settled state of a running daemon is clean. -/
theorem clean_of_idle {s : St} (hI : Inv s) (hi : Idle s) :
    s.pending = false ∧ s.suppress = 0 ∧ (s.faults = 0 → s.progress.isBusy = false) ∧ s.active = false ∧
    s.reloading = false := by
  obtain ⟨tok, sup, wfw, wfm, rel1, store, note, busy, act, proc, tail, own⟩ := hI
  obtain ⟨hm, hw, hq, hn, g1, g2, g3, g4, g5, _⟩ := hi
  simp only [tokens, owed, hm, hw, hq, g1, g2, g3, anyRelM_nil, wsum_nil, List.length_nil, Bool.or_false,
    Bool.not_false, Bool.and_true] at tok sup
  have hr : s.reloading = false := by
    cases h : s.reloading
    · rfl
    · have := note h (by simp [hm]); rw [hn] at this; cases this
  rw [hr] at tok sup
  have hp : s.pending = false := by
    cases h : s.pending
    · rfl
    · simp [h] at tok
  refine ⟨hp, by simpa using sup, ?_, ?_, hr⟩
  · intro hf0
    cases hb : s.progress.isBusy
    · rfl
    · rcases busy hf0 hb with h | h | h | h
      · rw [hp] at h; cases h
      · simp [hm] at h
      · simp [hw] at h
      · omega
  · cases ha : s.active
    · rfl
    · rcases act ha with h | h | h
      · simp [hw] at h
      · simp [hm] at h
      · rw [hr] at h; cases h

/-- a settled state of a running daemon does not still say `Processing`. -/
theorem not_processing_of_idle {s : St} (hI : Inv s) (hi : Idle s) (hf0 : s.faults = 0) :
    s.progress.isProcessing = false := by
  have hr := (clean_of_idle hI hi).2.2.2.2
  cases hp : s.progress.isProcessing
  · rfl
  · rcases hI.proc hf0 hp with h | h | h
    · simp [hi.w] at h
    · simp [hi.m] at h
    · rw [hr] at h; cases h.1

theorem execF_fst {s : St} {x : Micro} {r : St × List Micro} (h : execF s x = some r) : r.1 = s := by
  cases x <;> simp only [execF, Option.some.injEq, reduceCtorEq] at h <;> subst h <;> rfl

/-! ## termination of internal steps -/

def QW : Nat := 100
def NW : Nat := 20

def Micro.fuel : Micro → Nat
  | .casQ _ => QW + 2
  | .beginSend _ => QW + 1
  | .beginHandoff => NW + 1
  | .notifyM => NW + 1
  | .startRet => 2
  | .readProg => 2
  | .writeBusy _ => 3
  | .finishSucc => 6
  | _ => 1

/-- ranking function: strictly decreases on every internal step. -/
def mu (s : St) : Nat :=
  wsum Micro.fuel s.m + wsum Micro.fuel s.w + 5 * s.gBlocked + 4 * s.gStore + 3 * s.gEnd + 2 * s.gRead +
    s.gWrite + (if s.retDone = some false then 1 else 0) + QW * s.queue.length + NW * s.notify.toNat

theorem fuel_pos (x : Micro) : 1 ≤ x.fuel := by cases x <;> simp [Micro.fuel, QW, NW]

theorem workerPaths_fuel : workerPaths.all (fun p => decide (wsum Micro.fuel (expand p) < QW)) = true := by decide

theorem handlerPaths_fuel : handlerPaths.all (fun p => decide (wsum Micro.fuel (expand p.effs) < NW)) = true := by
  decide

theorem mu_exec_lt (s : St) (x : Micro) (rest : List Micro) :
    mu { (exec s x).1 with m := (exec s x).2 ++ rest } < mu { s with m := x :: rest } ∧
    mu { (exec s x).1 with w := (exec s x).2 ++ rest } < mu { s with w := x :: rest } := by
  have hn : s.notify.toNat ≤ 1 := toNat_le_one _
  rcases hrd : s.retDone with _ | _ | _ <;>
  cases x <;> simp only [exec, mu, wsum_cons, wsum_append, wsum_nil, Micro.fuel, QW, NW, hrd, reduceCtorEq, if_true, if_false]
  all_goals (
    repeat' split
    all_goals (
      try simp only [wsum_cons, wsum_nil, Micro.fuel, QW, NW, List.length_append, List.length_cons, List.length_nil,
        Bool.toNat_true, Bool.toNat_false, reduceCtorEq, if_true, if_false] at *
      first | done | (constructor <;> omega)))

theorem mu_step_lt {s s' : St} {a : Act} (hs : step s a = some s') (ha : a.isExternal = false) : mu s' < mu s := by
  unfold step at hs
  cases hex : s.exited
  case true => simp [hex] at hs
  simp only [hex, Bool.false_eq_true, if_false] at hs
  cases a <;> simp only [Act.isExternal, Bool.true_eq_false] at ha <;> simp only at hs
  case stepM =>
    split at hs
    · cases hs
    · rename_i x rest hm
      simp only [Option.some.injEq] at hs
      have := (mu_exec_lt s x rest).1
      rw [← hs]
      have e : ({ s with m := x :: rest } : St) = s := by rw [← hm]
      rw [e] at this; exact this
  case stepW =>
    split at hs
    · cases hs
    · rename_i x rest hw
      simp only [Option.some.injEq] at hs
      have := (mu_exec_lt s x rest).2
      rw [← hs]
      have e : ({ s with w := x :: rest } : St) = s := by rw [← hw]
      rw [e] at this; exact this
  case wake i =>
    split at hs
    · rename_i hc
      simp only [Bool.and_eq_true, List.isEmpty_iff] at hc
      obtain ⟨hm, hn⟩ := hc
      split at hs
      · rename_i p hp
        split at hs
        · simp only [Option.some.injEq] at hs; subst hs
          have hf := List.all_eq_true.mp handlerPaths_fuel p (List.mem_of_getElem? hp)
          simp only [decide_eq_true_eq] at hf
          simp only [mu, hm, hn, wsum_nil, Bool.toNat_true, Bool.toNat_false, NW] at hf ⊢
          omega
        · cases hs
      · cases hs
    · cases hs
  case wStart i =>
    split at hs
    · rename_i hc
      have hw : s.w = [] := by simpa using hc
      split at hs
      · rename_i k q p hq hp
        simp only [Option.some.injEq] at hs; subst hs
        have hf := List.all_eq_true.mp workerPaths_fuel p (List.mem_of_getElem? hp)
        simp only [decide_eq_true_eq] at hf
        simp only [mu, hw, hq, wsum_nil, List.length_cons, QW] at hf ⊢
        omega
      · cases hs
    · cases hs
  case stepMF =>
    split at hs
    · cases hs
    · rename_i x rest hm
      split at hs
      · rename_i r hr
        simp only [Option.some.injEq] at hs; subst hs
        have e : mu s = mu { s with m := x :: rest } := by rw [← hm]
        rw [e]
        cases x <;> simp only [execF, Option.some.injEq, reduceCtorEq] at hr
        all_goals subst hr
        all_goals simp only [mu, wsum_cons, wsum_append, wsum_nil, Micro.fuel]
        all_goals (repeat' split)
        all_goals ((try simp only [wsum_cons, wsum_nil, Micro.fuel] at *); omega)
      · cases hs
  case stepWF =>
    split at hs
    · cases hs
    · rename_i x rest hw
      split at hs
      · rename_i r hr
        simp only [Option.some.injEq] at hs; subst hs
        have e : mu s = mu { s with w := x :: rest } := by rw [← hw]
        rw [e]
        cases x <;> simp only [execF, Option.some.injEq, reduceCtorEq] at hr
        all_goals subst hr
        all_goals simp only [mu, wsum_cons, wsum_append, wsum_nil, Micro.fuel]
        all_goals (repeat' split)
        all_goals ((try simp only [wsum_cons, wsum_nil, Micro.fuel] at *); omega)
      · cases hs
  all_goals (
    split at hs
    · simp only [Option.some.injEq] at hs; subst hs
      rename_i hc
      simp only [mu, exec, hc, reduceCtorEq, if_true, if_false]
      repeat' split
      all_goals ((try simp only [List.length_cons, List.length_nil, reduceCtorEq, Option.some.injEq, Bool.true_eq_false, Bool.false_eq_true, not_true_eq_false, not_false_eq_true] at *) <;> (try simp only [*, if_true, if_false]) <;> omega)
    · cases hs)

/-- while a request is in progress, the system itself can always take another step. -/
theorem progress_possible {s : St} (hI : Inv s) (hx : s.exited = false) (hp : s.pending = true) :
    ∃ a ∈ internalActs, (step s a).isSome = true := by
  obtain ⟨tok, sup, wfw, wfm, rel1, store, note, busy, act, proc, tail, own⟩ := hI
  simp only [tokens, hp, Bool.toNat_true] at tok
  by_cases hm : s.m = []
  · by_cases hw : s.w = []
    · simp only [hm, hw, wsum_nil, anyRelM_nil, Bool.or_false] at tok
      cases hq : s.queue with
      | cons k q =>
        exact ⟨.wStart 0, by decide, by simp [step, hx, hw, hq, workerPaths]⟩
      | nil =>
        simp only [hq, List.length_nil] at tok
        cases hr : s.reloading with
        | true =>
          have hn := note hr (by simp [hm])
          exact ⟨.wake 2, by decide, by simp [step, hx, hm, hn, hr, handlerPaths]⟩
        | false =>
          simp only [hr, Bool.toNat_false] at tok
          by_cases hb : 0 < s.gBlocked
          · exact ⟨.closeG, by decide, by simp [step, hx, hb]⟩
          · have hg : 0 < s.gStore := by omega
            exact ⟨.gStore, by decide, by simp [step, hx, hg]⟩
    · cases hw' : s.w with
      | nil => exact absurd hw' hw
      | cons x r => exact ⟨.stepW, by decide, by simp [step, hx, hw']⟩
  · cases hm' : s.m with
    | nil => exact absurd hm' hm
    | cons x r => exact ⟨.stepM, by decide, by simp [step, hx, hm']⟩

theorem not_quiescent_step {s : St} (hq : quiescent s = false) :
    ∃ a ∈ internalActs, ∃ s', step s a = some s' := by
  unfold quiescent at hq
  rw [List.all_eq_false] at hq
  obtain ⟨a, ha, hn⟩ := hq
  cases h : step s a with
  | none => simp [h] at hn
  | some s' => exact ⟨a, ha, s', h⟩

theorem internal_of_mem {a : Act} (ha : a ∈ internalActs) : a.isExternal = false := by
  have := List.all_eq_true.mp internal_not_external a ha
  simpa using this

/-- every run of internal steps is shorter than the ranking of its start state. -/
theorem run_length_le {acts : List Act} : ∀ {s s' : St}, (∀ a ∈ acts, a.isExternal = false) →
    runActs s acts = some s' → acts.length + mu s' ≤ mu s := by
  induction acts with
  | nil => intro s s' _ h; simp [runActs] at h; subst h; simp
  | cons a as ih =>
    intro s s' hall h
    simp only [runActs] at h
    cases hs : step s a with
    | none => simp [hs] at h
    | some s1 =>
      simp only [hs] at h
      have h1 := mu_step_lt hs (hall a (by simp))
      have h2 := ih (fun b hb => hall b (by simp [hb])) h
      simp only [List.length_cons]; omega

theorem reachable_run {acts : List Act} : ∀ {s s' : St}, Reachable s → runActs s acts = some s' → Reachable s' := by
  induction acts with
  | nil => intro s s' hr h; simp [runActs] at h; subst h; exact hr
  | cons a as ih =>
    intro s s' hr h
    simp only [runActs] at h
    cases hs : step s a with
    | none => simp [hs] at h
    | some s1 => simp only [hs] at h; exact ih (Reachable.step a hr hs) h

/-- from every reachable state some run of internal steps reaches a quiescent state. -/
theorem settles (n : Nat) : ∀ {s : St}, mu s ≤ n → ∃ acts s', (∀ a ∈ acts, a.isExternal = false) ∧
    runActs s acts = some s' ∧ quiescent s' = true := by
  induction n with
  | zero =>
    intro s hmu
    cases hq : quiescent s with
    | true => exact ⟨[], s, by simp, rfl, hq⟩
    | false =>
      obtain ⟨a, ha, s1, hs⟩ := not_quiescent_step hq
      have := mu_step_lt hs (internal_of_mem ha)
      omega
  | succ n ih =>
    intro s hmu
    cases hq : quiescent s with
    | true => exact ⟨[], s, by simp, rfl, hq⟩
    | false =>
      obtain ⟨a, ha, s1, hs⟩ := not_quiescent_step hq
      have hlt := mu_step_lt hs (internal_of_mem ha)
      obtain ⟨acts, s', h1, h2, h3⟩ := ih (s := s1) (by omega)
      refine ⟨a :: acts, s', ?_, ?_, h3⟩
      · intro b hb
        rcases List.mem_cons.mp hb with h | h
        · rw [h]; exact internal_of_mem ha
        · exact h1 b h
      · simp [runActs, hs, h2]

/-! ## the retirement clock -/

theorem optMin_le (t : Nat) (o : Option Nat) : optMin t o ≤ t := by
  cases o <;> simp [optMin]; omega

theorem optMin_le_some (t x : Nat) : optMin t (some x) ≤ x := by
  simp [optMin]; omega

theorem drainTime_le_budget (mw : Int) (n : Nat) (i c : Option Nat) : drainTime mw n i c ≤ mw.toNat := by
  unfold drainTime; split
  · omega
  · exact Nat.le_trans (optMin_le _ _) (optMin_le _ _)

theorem drainTime_le_cancel (mw : Int) (n : Nat) (i : Option Nat) (c : Nat) : drainTime mw n i (some c) ≤ c := by
  unfold drainTime; split
  · omega
  · exact optMin_le_some _ _

theorem remBudget_nonneg (z : Bool) (age b : Int) : 0 ≤ remBudget z age b := by
  unfold remBudget; repeat' split
  all_goals omega

theorem remBudget_le (z : Bool) (age b : Int) (ha : 0 ≤ age) (hb : 0 ≤ b) : remBudget z age b ≤ b := by
  unfold remBudget; repeat' split
  all_goals omega

theorem retireDoneAt_le_total (sc : RetScenario) (ha : 0 ≤ sc.age) : retireDoneAt sc ≤ totalSwitchBudget := by
  unfold retireDoneAt; split
  · omega
  · have h1 := drainTime_le_budget sc.budget sc.sessions sc.idleAt sc.cancelAt
    have h2 := remBudget_le sc.zeroStart sc.age totalSwitchBudget ha (Int.natCast_nonneg _)
    have h3 := remBudget_nonneg sc.zeroStart sc.age totalSwitchBudget
    simp only [RetScenario.budget] at h1 ⊢
    omega

/-- the clock fields stay within the total switch budget. -/
structure ClockOk (s : St) : Prop where
  mgr : s.mgrLeft ≤ totalSwitchBudget
  g : s.gLeft ≤ totalSwitchBudget
  age : 0 ≤ s.nextRet.age
  mute : s.muteLeft ≤ quiesceNs
  /-- recorded request times lie in the past. -/
  metaLe : ∀ t, s.metaAt = some t → t ≤ s.now
  req : s.reqAt ≤ s.now

theorem age_nonneg (s : St) (h : ClockOk s) : 0 ≤ (retScenarioOf s).age := by
  simp only [retScenarioOf]
  cases hm : s.metaAt with
  | none => simp
  | some t => have := h.metaLe t hm; simp; omega

theorem clock_exec (s : St) (x : Micro) (h : ClockOk s) :
    (exec s x).1.mgrLeft ≤ totalSwitchBudget ∧ (exec s x).1.gLeft ≤ totalSwitchBudget ∧
    0 ≤ (exec s x).1.nextRet.age ∧ (exec s x).1.muteLeft ≤ quiesceNs ∧
    (∀ t, (exec s x).1.metaAt = some t → t ≤ (exec s x).1.now) ∧ (exec s x).1.reqAt ≤ (exec s x).1.now := by
  have := retireDoneAt_le_total (retScenarioOf s) (age_nonneg s h)
  obtain ⟨h1, h2, h3, h4, h5, h6⟩ := h
  cases x <;> simp only [exec] <;> (repeat' split) <;> (try simp only) <;>
    refine ⟨by omega, by omega, h3, by first | omega | exact Nat.le_refl _, ?_, by first | omega | exact Nat.le_refl _⟩ <;>
    first
      | exact h5
      | (intro t ht; simp only [Option.some.injEq] at ht; omega)

theorem clock_step {s s' : St} (h : ClockOk s) (a : Act) (hs : step s a = some s') : ClockOk s' := by
  obtain ⟨h1, h2, h3, h4, h5, h6⟩ := h
  unfold step at hs
  cases hex : s.exited
  case true => simp [hex] at hs
  simp only [hex, Bool.false_eq_true, if_false] at hs
  cases a <;> simp only at hs
  case stepM =>
    split at hs
    · cases hs
    · simp only [Option.some.injEq] at hs; subst hs
      obtain ⟨a1, a2, a3, a4, a5, a6⟩ := clock_exec s _ ⟨h1, h2, h3, h4, h5, h6⟩
      exact ⟨a1, a2, a3, a4, a5, a6⟩
  case stepW =>
    split at hs
    · cases hs
    · simp only [Option.some.injEq] at hs; subst hs
      obtain ⟨a1, a2, a3, a4, a5, a6⟩ := clock_exec s _ ⟨h1, h2, h3, h4, h5, h6⟩
      exact ⟨a1, a2, a3, a4, a5, a6⟩
  case stepMF =>
    split at hs
    · cases hs
    · split at hs
      · rename_i r hr
        simp only [Option.some.injEq] at hs; subst hs
        have e := execF_fst hr
        refine ⟨?_, ?_, ?_, ?_, ?_, ?_⟩ <;> simp only [e] <;> assumption
      · cases hs
  case stepWF =>
    split at hs
    · cases hs
    · split at hs
      · rename_i r hr
        simp only [Option.some.injEq] at hs; subst hs
        have e := execF_fst hr
        refine ⟨?_, ?_, ?_, ?_, ?_, ?_⟩ <;> simp only [e] <;> assumption
      · cases hs
  all_goals (
    repeat' split at hs
    all_goals first
      | (cases hs <;> done)
      | (simp only [Option.some.injEq] at hs; subst hs
         refine ⟨?_, ?_, ?_, ?_, ?_, ?_⟩ <;> (try simp only [exec]) <;> (repeat' split) <;>
           first | omega | exact Nat.le_refl _ | exact h5 | (intro t ht; have := h5 t ht; omega)))

theorem reachable_clock {s : St} (h : Reachable s) : ClockOk s := by
  induction h with
  | init => exact ⟨by simp [init], by simp [init], by simp [init], by simp [init], by simp [init], by simp [init]⟩
  | step a _ hs ih => exact clock_step ih a hs

def tickOf : Act → Nat
  | .tick d => d
  | _ => 0

/-- model time that passes during a schedule. -/
def elapsed : List Act → Nat
  | [] => 0
  | a :: as => tickOf a + elapsed as

theorem step_exited {s : St} (h : s.exited = true) (a : Act) : step s a = none := by
  simp [step, h]

theorem runActs_exited {s s' : St} (h : s.exited = true) {acts : List Act} (hr : runActs s acts = some s') :
    acts = [] := by
  cases acts with
  | nil => rfl
  | cons a as => simp [runActs, step_exited h] at hr

/-- while a release goroutine is blocked on a retirement, every step other than that retirement's
completion leaves it blocked, and time only passes within the retirement's remaining time. -/
theorem blocked_step {s s' : St} (hI : Inv s) (hx : s.exited = false) (hg : 0 < s.gBlocked) {a : Act}
    (ha : a ≠ .closeG) (hs : step s a = some s') :
    s'.gBlocked = s.gBlocked ∧ s'.gLeft + tickOf a = s.gLeft := by
  have htok := hI.tok
  have hp : s.pending.toNat ≤ 1 := toNat_le_one _
  have hrel : anyRelM s.m = false := by
    cases h : anyRelM s.m
    · rfl
    · simp only [tokens, h, Bool.or_true, Bool.toNat_true] at htok; omega
  unfold step at hs
  simp only [hx, Bool.false_eq_true, if_false] at hs
  cases a <;> simp only [tickOf] at hs ⊢
  case closeG => exact absurd rfl ha
  case stepM =>
    split at hs
    · cases hs
    · rename_i x rest hm
      simp only [Option.some.injEq] at hs; subst hs
      rw [hm] at hrel
      cases x <;> simp [anyRelM_cons, Micro.isRelM] at hrel <;> simp only [exec] <;> (repeat' split) <;> simp
  case stepW =>
    split at hs
    · cases hs
    · rename_i x rest hw
      simp only [Option.some.injEq] at hs; subst hs
      have hwf := hI.wfw
      rw [hw] at hwf
      cases x <;> simp [wfW, Micro.wAllowed] at hwf <;> simp only [exec] <;> (repeat' split) <;> simp
  case tick d =>
    split at hs
    · rename_i hc
      simp only [Option.some.injEq] at hs; subst hs
      simp only [Bool.and_eq_true, Bool.or_eq_true, decide_eq_true_eq, beq_iff_eq] at hc
      have : d ≤ s.gLeft := by rcases hc.2 with h | h <;> omega
      exact ⟨rfl, by simp only; omega⟩
    · cases hs
  case stepMF =>
    split at hs
    · cases hs
    · split at hs
      · rename_i r hr
        simp only [Option.some.injEq] at hs; subst hs
        simp [execF_fst hr]
      · cases hs
  case stepWF =>
    split at hs
    · cases hs
    · split at hs
      · rename_i r hr
        simp only [Option.some.injEq] at hs; subst hs
        simp [execF_fst hr]
      · cases hs
  all_goals (
    repeat' split at hs
    all_goals first
      | (cases hs <;> done)
      | (simp only [Option.some.injEq] at hs; subst hs; simp [exec]))

/-- **A blocked release is unblocked within the retirement's remaining time**: along any schedule
that does not contain the completion of the retirement it waits for, the release goroutine stays
blocked and the model time that passes is at most `gLeft`. -/
theorem blocked_release_bounded {acts : List Act} : ∀ {s s' : St}, Reachable s → s.exited = false →
    0 < s.gBlocked → Act.closeG ∉ acts → runActs s acts = some s' → elapsed acts ≤ s.gLeft := by
  induction acts with
  | nil => intro s s' _ _ _ _ _; simp [elapsed]
  | cons a as ih =>
    intro s s' hr hx hg hmem h
    simp only [runActs] at h
    cases hs : step s a with
    | none => simp [hs] at h
    | some s1 =>
      simp only [hs] at h
      have ha : a ≠ .closeG := fun e => hmem (by simp [e])
      have hb := blocked_step (reachable_inv hr hx) hx hg ha hs
      have hr1 : Reachable s1 := Reachable.step a hr hs
      cases hx1 : s1.exited with
      | true =>
        have := runActs_exited hx1 h
        subst this
        simp only [elapsed]; omega
      | false =>
        have := ih hr1 hx1 (by omega) (fun m => hmem (by simp [m])) h
        simp only [elapsed]; omega

theorem drainResults_ne_nil (maxWait : Int) (sessions : Nat) (idleAt cancelAt : Option Nat) :
    drainResults maxWait sessions idleAt cancelAt ≠ [] := by
  unfold drainResults
  split
  · simp
  · rename_i hn
    simp only [drainTime, hn, if_false]
    intro h
    simp only [List.append_eq_nil_iff] at h
    obtain ⟨⟨h1, h2⟩, h3⟩ := h
    have a1 : ¬ idleAt = some (optMin (optMin maxWait.toNat idleAt) cancelAt) := by
      intro e; rw [if_pos e] at h1; cases h1
    have a2 : ¬ cancelAt = some (optMin (optMin maxWait.toNat idleAt) cancelAt) := by
      intro e; rw [if_pos e] at h2; cases h2
    have a3 : ¬ maxWait.toNat = optMin (optMin maxWait.toNat idleAt) cancelAt := by
      intro e; rw [if_pos e] at h3; cases h3
    cases idleAt <;> cases cancelAt <;> simp [optMin] at a1 a2 a3 <;> omega

theorem waitDoneAt_some (timeout : Int) (reportAt termAt : Option Nat) (h : 0 < timeout) :
    ∃ t, waitDoneAt timeout reportAt termAt = some t ∧ t ≤ timeout.toNat ∧
      (reportAt = some t ∨ termAt = some t ∨ timeout.toNat = t) := by
  cases reportAt <;> cases termAt <;> simp only [waitDoneAt, h, if_true, optMinO] <;>
    refine ⟨_, rfl, ?_, ?_⟩ <;>
    (try simp only [Nat.min_def, Option.some.injEq, reduceCtorEq, false_or, or_false]) <;>
    (try generalize timeout.toNat = T) <;> (repeat' split) <;> omega

theorem waitResults_ne_nil (timeout : Int) (reportAt termAt : Option Nat) (ok : Bool) (h : 0 < timeout) :
    waitResults timeout reportAt ok termAt ≠ [] := by
  obtain ⟨t, ht, _, hc⟩ := waitDoneAt_some timeout reportAt termAt h
  simp only [waitResults, ht]
  rcases hc with hc | hc | hc
  · simp [hc]
  · simp [hc]
  · simp [hc, h]

end DaeVerif.C20
