import DaeVerif.C20.Meta
import DaeVerif.C20.Scope
/-!
# C20 — property theorems

*Reload requests are serialised, answered, and never leave dae wedged.*

All theorems are about `DaeVerif.C20.step` (Model.lean), the transition function the driver
`c20drv` executes against the real code, and quantify over **every** reachable state, i.e. over all
interleavings of signals, the main loop's sections, the worker's statements, the release
goroutines' sections and retirement completions, with any path (any failure) chosen at every
stage.  `tokens s` (Proofs.lean) counts the requests in progress: queued, held by the worker, handed
to the main loop, or waiting for the old generation to retire.
-/
namespace DaeVerif.C20.Props
open DaeVerif.C20

/-! ### helpers for the non-vacuity examples -/

theorem reachable_of_run {acts : List Act} {s : St} (h : runActs init acts = some s) : Reachable s :=
  reachable_run Reachable.init h

/-- accept one reload, let the worker pick it up (path 4: full reload with retirement). -/
def exAccepted : List Act := [.sig .reload, .stepM, .stepM]
def exWorkerBusy : List Act := exAccepted ++ [.wStart 4, .stepW, .stepW]

/-! ### serialisation -/

/-- **At most one reload or suspend is in progress.**  In every reachable state of a running
daemon the number of requests in progress equals `[pending]`, hence is 0 or 1. -/
theorem at_most_one_in_progress {s : St} (hr : Reachable s) (hx : s.exited = false) :
    tokens s = s.pending.toNat ∧ tokens s ≤ 1 := by
  have h := (reachable_inv hr hx).tok
  refine ⟨h, ?_⟩
  rw [h]; cases s.pending <;> simp

example : ∃ s, Reachable s ∧ s.exited = false ∧ tokens s = 1 ∧ s.queue = [.reload] :=
  ⟨_, reachable_of_run (acts := exAccepted) rfl, rfl, rfl, rfl⟩

/-- A signal is accepted (the CAS on `pending` succeeds) only when nothing is in progress, and then
exactly one request is. -/
theorem accept_only_when_idle {s s' : St} {k : Kind} {rest : List Micro} (hr : Reachable s)
    (hx : s.exited = false) (hm : s.m = .casQ k :: rest) (hs : step s .stepM = some s')
    (hacc : s'.pending = true ∧ s.pending = false) : tokens s = 0 ∧ tokens s' = 1 := by
  have h0 := (at_most_one_in_progress hr hx).1
  have hr' : Reachable s' := Reachable.step _ hr hs
  have hx' : s'.exited = false := by
    simp only [step, hx, hm, exec, hacc.2, Bool.false_eq_true, if_false, Option.some.injEq] at hs
    rw [← hs]
  have h1 := (at_most_one_in_progress hr' hx').1
  rw [hacc.2] at h0; rw [hacc.1] at h1
  exact ⟨by simpa using h0, by simpa using h1⟩

example : ∃ s s', Reachable s ∧ s.m = [.casQ .reload] ∧ step s .stepM = some s' ∧ s'.pending = true ∧
    s.pending = false :=
  ⟨_, _, reachable_of_run (acts := [.sig .reload]) rfl, rfl, rfl, rfl, rfl⟩

/-- **A refused request changes nothing except the busy report.**  While a request is in progress
(`pending`), every section the main loop runs for a second signal — the failed CAS (which also takes
the refused request's own abort marker, 612b092), the busy report, and (4876faa) the re-check with
its possible clean-up — leaves every component of the state untouched except the progress file, the
marker the refused request brought with it (removed, never created) and the main loop's own program
counter; in particular the abort decision of the request in progress (`wAbort`, `qAbort`) stays.
Section by section, hence under any interleaving with the request in progress. -/
theorem refusal_is_pure {s s' : St} {x : Micro} {rest : List Micro} (hm : s.m = x :: rest)
    (hx : (∃ k, x = .casQ k ∧ s.pending = true) ∨ (∃ b, x = .writeBusy b) ∨ x = .readProg ∨ x = .writeClr)
    (hs : step s .stepM = some s') :
    s' = { s with progress := s'.progress, m := s'.m, marker := s'.marker } ∧
    (s'.marker = true → s.marker = true) := by
  unfold step at hs
  cases hex : s.exited
  case true => simp [hex] at hs
  simp only [hex, hm, Bool.false_eq_true, if_false, Option.some.injEq] at hs
  rcases hx with ⟨k, rfl, hp⟩ | ⟨b, rfl⟩ | rfl | rfl
  · simp only [exec, hp, if_true] at hs; rw [← hs]; simp [hp, hex]
  · simp only [exec] at hs; rw [← hs]; simp [hex]
  · simp only [exec] at hs; rw [← hs]; simp [hex]
  · simp only [exec] at hs; rw [← hs]; simp [hex]

example : ∃ s : St, s.m = [.casQ .suspend] ∧ s.pending = true ∧ (step s .stepM).isSome = true :=
  ⟨{ pending := true, m := [.casQ .suspend], queue := [.reload], suppress := 1 }, rfl, rfl, rfl⟩

/-- **A refused request is reported as busy**: from any state with a request in progress, the main
loop's two sections for a further signal end with a busy progress report, and nothing else changed. -/
theorem refusal_reports_busy {s : St} {k : Kind} (hm : s.m = []) (hp : s.pending = true)
    (hx : s.exited = false) :
    runActs s [.sig k, .stepM, .stepM] = some { s with progress := busyOf s.active, marker := false } ∧
    (busyOf s.active).isBusy = true := by
  constructor
  · simp [runActs, step, hx, hm, exec, hp]
  · cases s.active <;> rfl

example : ∃ s, Reachable s ∧ s.m = [] ∧ s.pending = true ∧ s.exited = false :=
  ⟨_, reachable_of_run (acts := exWorkerBusy) rfl, rfl, rfl, rfl⟩

/-- While the main loop sits in the serve-ready wait of a hand-off, the request is still in
progress (so a signal arriving there is "meanwhile"). -/
theorem ready_wait_is_in_progress {s : St} {rest : List Micro} (hr : Reachable s) (hx : s.exited = false)
    (hm : s.m = .waitReady :: rest) : s.pending = true ∧ tokens s = 1 := by
  have hI := reachable_inv hr hx
  have hwf := hI.wfm
  simp only [hm, wfM, Bool.and_eq_true] at hwf
  have ht := hI.tok
  have hp : s.pending = true := by
    cases hpd : s.pending
    · simp only [tokens, hm, anyRelM_cons, hwf.2, Bool.or_true, hpd, Bool.toNat_true, Bool.toNat_false] at ht; omega
    · rfl
  exact ⟨hp, by rw [ht, hp]; rfl⟩

example : ∃ s rest, Reachable s ∧ s.exited = false ∧ s.m = .waitReady :: rest :=
  ⟨_, _, reachable_of_run (acts := exAccepted ++ [.wStart 4] ++ List.replicate 12 .stepW ++ [.wake 5, .stepM, .stepM]) rfl,
    rfl, rfl⟩

/-- **A signal taken during the serve-ready wait is refused and reported as busy** (fixed code,
926f7bd), and changes nothing else: not the flags, not the queue, not the suppression counter, not
the main loop's position in the hand-off. -/
theorem signal_in_ready_wait_reports_busy {s s' : St} {k : Kind} (hs : step s (.swallow k) = some s') :
    s' = { s with progress := .busyActive, marker := false } ∧ s'.progress.isBusy = true ∧
    ∃ rest, s.m = .waitReady :: rest := by
  unfold step at hs
  cases hex : s.exited
  case true => simp [hex] at hs
  simp only [hex, Bool.false_eq_true, if_false] at hs
  split at hs
  · rename_i rest hm
    simp only [Option.some.injEq] at hs
    exact ⟨hs.symm, by rw [← hs]; rfl, rest, hm⟩
  · cases hs

example : ∃ s s' : St, step s (.swallow .suspend) = some s' ∧ s.progress = .processing :=
  ⟨{ pending := true, progress := .processing, m := [.waitReady, .setResult, .finishSucc] }, _, rfl, rfl⟩

/-- **Every reload/suspend signal the main loop takes while a request is in progress is answered
with a busy report and changes nothing else** — whether it is taken by the main `select`
(`tryQueueReloadRequest`: failed CAS, busy report) or by the serve-ready wait.  (A signal that
arrives while the main loop is busy elsewhere stays in the OS signal channel and is taken later.) -/
theorem signal_while_in_progress_is_refused_busy {s : St} {k : Kind} (hr : Reachable s)
    (hx : s.exited = false) (hp : s.pending = true) :
    (s.m = [] → runActs s [.sig k, .stepM, .stepM] = some { s with progress := busyOf s.active, marker := false }) ∧
    (∀ rest, s.m = .waitReady :: rest → step s (.swallow k) = some { s with progress := .busyActive, marker := false }) ∧
    ((step s (.sig k)).isSome = true ∨ (step s (.swallow k)).isSome = true →
      s.m = [] ∨ ∃ rest, s.m = .waitReady :: rest) := by
  have _ := hr
  refine ⟨fun hm => (refusal_reports_busy hm hp hx).1, ?_, ?_⟩
  · intro rest hm; simp [step, hx, hm]
  · intro h
    rcases h with h | h
    · left
      simp only [step, hx, Bool.false_eq_true, if_false] at h
      split at h
      · rename_i hm; simpa using hm
      · simp at h
    · right
      simp only [step, hx, Bool.false_eq_true, if_false] at h
      split at h
      · rename_i rest hm; exact ⟨rest, hm⟩
      · simp at h

/-- The "queue full" rollback branch of `tryQueueReloadRequest` is dead: whenever the main loop is
about to send, the one-slot queue is empty. -/
theorem queue_full_branch_unreachable {s : St} {k : Kind} {rest : List Micro} (hr : Reachable s)
    (hx : s.exited = false) (hm : s.m = .beginSend k :: rest) : s.queue = [] := by
  have h := (reachable_inv hr hx).tok
  have hp : s.pending.toNat ≤ 1 := toNat_le_one _
  simp only [tokens, hm, wsum_cons, Micro.sigTok] at h
  exact List.eq_nil_of_length_eq_zero (by omega)

example : ∃ s, Reachable s ∧ s.exited = false ∧ s.m = [.beginSend .reload] :=
  ⟨_, reachable_of_run (acts := [.sig .reload, .stepM]) rfl, rfl, rfl⟩

/-- `coalesceReloadRequest` never drops a request: when the worker drains the queue it is empty. -/
theorem coalesce_drops_nothing {s : St} {rest : List Micro} (hr : Reachable s)
    (hx : s.exited = false) (hw : s.w = .coalesce :: rest) : s.queue = [] := by
  have hI := reachable_inv hr hx
  have h := hI.tok
  have hwf := hI.wfw
  have hp : s.pending.toNat ≤ 1 := toNat_le_one _
  simp only [hw, wfW, Bool.and_eq_true, decide_eq_true_eq] at hwf
  simp only [tokens, hw, wsum_cons, Micro.tokW] at h
  exact List.eq_nil_of_length_eq_zero (by omega)

example : ∃ s rest, Reachable s ∧ s.exited = false ∧ s.w = .coalesce :: rest :=
  ⟨_, _, reachable_of_run (acts := exAccepted ++ [.wStart 4, .stepW]) rfl, rfl, rfl⟩

/-! ### the muting of node-failure reports -/

/-- **The suppression counter equals the number of `End…Suppression` calls still due** (one per
request in progress, plus one per release that has cleared `pending` but not yet ended its
suppression scope). -/
theorem suppression_balanced {s : St} (hr : Reachable s) (hx : s.exited = false) :
    s.suppress = owed s :=
  (reachable_inv hr hx).sup

example : ∃ s, Reachable s ∧ s.exited = false ∧ s.suppress = 1 :=
  ⟨_, reachable_of_run (acts := exWorkerBusy) rfl, rfl, rfl⟩

/-- `EndReloadProxyFailureSuppression` is never called with the counter at 0 (its clamp is never
exercised, so no scope is ever lost). -/
theorem end_suppression_never_clamped {s : St} (hr : Reachable s) (hx : s.exited = false)
    (h : (∃ rest, s.m = .endSupp :: rest) ∨ (∃ rest, s.w = .endSupp :: rest) ∨ 0 < s.gEnd) :
    0 < s.suppress := by
  have hs := (reachable_inv hr hx).sup
  simp only [owed] at hs
  rcases h with ⟨rest, h⟩ | ⟨rest, h⟩ | h
  · simp only [h, wsum_cons, Micro.sup] at hs; omega
  · simp only [h, wsum_cons, Micro.sup] at hs; omega
  · omega

/-! ### never wedged -/

/-- **A settled daemon is clean**: in a reachable state of a running daemon in which nothing can
move by itself (no section left to run, no queued request, no pending notification, no retirement
running), no request is in progress, the suppression is lifted, no flag is stuck and the progress
file does not say busy — whatever happened before (success, failure at any stage, rejections).  The
flags part holds even when progress-file operations failed on the way (`faults > 0`: stepMF, stepWF,
gReadF, gWriteF, swallowF); only the statement about the file's content needs the file to have worked. -/
theorem settled_is_clean {s : St} (hr : Reachable s) (hx : s.exited = false) (hq : quiescent s = true) :
    s.pending = false ∧ s.suppress = 0 ∧ (s.faults = 0 → s.progress.isBusy = false) ∧ s.active = false ∧
    s.reloading = false ∧ s.queue = [] :=
  have hi := idle_of_quiescent hq hx
  have h := clean_of_idle (reachable_inv hr hx) hi
  ⟨h.1, h.2.1, h.2.2.1, h.2.2.2.1, h.2.2.2.2, hi.queue⟩

/-- a failed reload (config error), fully settled. -/
def exFailedSettled : List Act :=
  exAccepted ++ [.wStart 0] ++ List.replicate 10 .stepW

example : ∃ s, Reachable s ∧ s.exited = false ∧ quiescent s = true ∧ s.progress = .error :=
  ⟨_, reachable_of_run (acts := exFailedSettled) rfl, rfl, by decide, rfl⟩

/-- **No stale busy report** (the defect repaired by 4876faa): a busy report in the progress file
is always covered — a request is in progress, or some goroutine still has the read that will clear
it ahead.  In particular no reachable settled state has `pending = false ∧ progress = busy`; this
covers every interleaving of the refuser's sections with the releaser's sections. -/
theorem no_stale_busy_when_idle {s : St} (hr : Reachable s) (hx : s.exited = false) (hf : s.faults = 0)
    (hb : s.progress.isBusy = true) :
    s.pending = true ∨ anyRd s.m = true ∨ anyRd s.w = true ∨ 0 < s.gStore + s.gEnd + s.gRead + s.gWrite :=
  (reachable_inv hr hx).busy hf hb

/-- the schedule of the repaired defect: reload succeeds, old generation retiring, second request
refused; the release goroutine runs completely between the refuser's CAS and its busy report. -/
def exStaleBusy : List Act :=
  exAccepted ++ [.wStart 4] ++ List.replicate 12 .stepW ++ [.wake 5] ++ List.replicate 5 .stepM ++
  [.sig .reload, .stepM, .closeG, .gStore, .gEnd, .gRead, .stepM]

example : ∃ s, Reachable s ∧ s.exited = false ∧ s.faults = 0 ∧ s.progress.isBusy = true ∧ s.pending = false ∧
    s.m = [.readProg] :=
  ⟨_, reachable_of_run (acts := exStaleBusy) rfl, rfl, rfl, rfl, rfl, rfl⟩

/-- **Whatever the scheduler does, the system's own steps run out**: a run of `n` internal steps
(worker statements, main-loop sections, release goroutines, retirement completions, wake-ups) from
`s` satisfies `n ≤ mu s`; no livelock. -/
theorem internal_steps_terminate {s s' : St} {acts : List Act} (hint : ∀ a ∈ acts, a.isExternal = false)
    (h : runActs s acts = some s') : acts.length ≤ mu s := by
  have := run_length_le hint h; omega

example : ∀ a ∈ exFailedSettled.drop 1, a.isExternal = false := by decide

/-- **No deadlock while a request is in progress**: some internal step is enabled. -/
theorem pending_implies_progress_possible {s : St} (hr : Reachable s) (hx : s.exited = false)
    (hp : s.pending = true) : ∃ a ∈ internalActs, (step s a).isSome = true :=
  progress_possible (reachable_inv hr hx) hx hp

/-- **dae accepts a new request again**: from every reachable state the system's own steps lead
(and by `internal_steps_terminate` every maximal run of them leads) to a state where nothing moves
any more; there the daemon has exited or is clean (`settled_is_clean`), and the next signal is
accepted and queued. -/
theorem eventually_accepts_again {s : St} (hr : Reachable s) :
    ∃ acts s', (∀ a ∈ acts, a.isExternal = false) ∧ runActs s acts = some s' ∧ quiescent s' = true ∧
      (s'.exited = true ∨
        (s'.pending = false ∧ s'.suppress = 0 ∧ (s'.faults = 0 → s'.progress.isBusy = false) ∧
          ∀ k, ∃ s'', runActs s' [.sig k, .stepM, .stepM] = some s'' ∧ s''.pending = true ∧
            s''.queue = [k] ∧ s''.suppress = 1)) := by
  obtain ⟨acts, s', h1, h2, h3⟩ := settles (mu s) (s := s) (Nat.le_refl _)
  refine ⟨acts, s', h1, h2, h3, ?_⟩
  cases hx : s'.exited
  · right
    have hr' := reachable_run hr h2
    have hc := settled_is_clean hr' hx h3
    have hi := idle_of_quiescent h3 hx
    refine ⟨hc.1, hc.2.1, hc.2.2.1, fun k => ?_⟩
    refine ⟨{ s' with pending := true, suppress := s'.suppress + 1, queue := s'.queue ++ [k], m := [], marker := false,
                      qAbort := s'.marker, reqAt := s'.now }, ?_, rfl, ?_, ?_⟩
    · simp [runActs, step, hx, hi.m, exec, hc.1, hi.queue]
    · simp [hi.queue]
    · simp [hc.2.1]
  · left; rfl

example : ∃ s, Reachable s ∧ s.pending = true ∧ s.gBlocked = 1 :=
  ⟨_, reachable_of_run (acts := exAccepted ++ [.wStart 4] ++ List.replicate 12 .stepW ++ [.wake 5] ++
      List.replicate 5 .stepM) rfl, rfl, rfl⟩

/-! ### ordering of release and retirement; the worker's tail; the abort marker; the mute window -/

/-- **The request is released only after the old generation's retirement has been published**
(dd3bc5b): whenever the hand-off is with the main loop (the `reloading` flag is up or the handler is
running, in particular when `finishReloadSuccess` is about to run) the worker has no
`startControlPlaneRetirement` ahead any more. -/
theorem release_after_retirement {s : St} (hr : Reachable s) (hx : s.exited = false)
    (hm : s.reloading = true ∨ anyRelM s.m = true) : Micro.startRet ∉ s.w := by
  have hI := reachable_inv hr hx
  have hp : s.pending.toNat ≤ 1 := toNat_le_one _
  have ht := hI.tok
  have t0 : wsum Micro.tokW s.w = 0 := by
    simp only [tokens] at ht
    rcases hm with h | h <;> simp only [h, Bool.true_or, Bool.or_true, Bool.toNat_true] at ht <;> omega
  have hin := hI.tail t0
  intro hmem
  have : Micro.inert .startRet = true := by
    simp only [allInert, List.all_eq_true] at hin
    exact hin _ hmem
  simp [Micro.inert] at this

example : ∃ s rest, Reachable s ∧ s.exited = false ∧ s.m = .finishSucc :: rest ∧ s.w = [.nop, .notifyM] :=
  ⟨_, _, reachable_of_run (acts := exAccepted ++ [.wStart 4] ++ List.replicate 10 .stepW ++ [.wake 5] ++
      List.replicate 4 .stepM) rfl, rfl, rfl, rfl⟩

/-- **"In progress" covers everything the worker does to the reload state**: once the worker has
given the request away (released it, handed it to the main loop) what it still runs of that
iteration is inert — `refreshPprofServer`, the extra notification, the end of the suppression scope
and the busy-report clean-up; no flag, no queue, no retirement.  So a new request accepted while the
worker is in that tail cannot be disturbed by it. -/
theorem worker_tail_is_inert {s : St} (hr : Reachable s) (hx : s.exited = false)
    (h0 : wsum Micro.tokW s.w = 0) : allInert s.w = true :=
  (reachable_inv hr hx).tail h0

/-- **The abort marker goes with the request that created it** (612b092): taking a signal consumes the
marker, whether the request is accepted (then it becomes that request's abort decision) or refused
(then it is gone and nobody else's decision changes); the worker uses the decision of the request it
dequeued. -/
theorem abort_marker_goes_with_its_request (s : St) (k : Kind) :
    (exec s (.casQ k)).1.marker = false ∧
    (s.pending = false → (exec s (.casQ k)).1.qAbort = s.marker) ∧
    (s.pending = true → (exec s (.casQ k)).1.qAbort = s.qAbort ∧ (exec s (.casQ k)).1.wAbort = s.wAbort) ∧
    (∀ s', step s (.swallow k) = some s' → s'.marker = false ∧ s'.qAbort = s.qAbort ∧ s'.wAbort = s.wAbort) ∧
    (∀ i s', step s (.wStart i) = some s' → s'.wAbort = s.qAbort) := by
  refine ⟨?_, ?_, ?_, ?_, ?_⟩
  · simp only [exec]; split <;> rfl
  · intro h; simp [exec, h]
  · intro h; simp [exec, h]
  · intro s' hs
    simp only [step] at hs
    split at hs
    · cases hs
    · split at hs
      · simp only [Option.some.injEq] at hs; subst hs; exact ⟨rfl, rfl, rfl⟩
      · cases hs
  · intro i s' hs
    simp only [step] at hs
    split at hs
    · cases hs
    · split at hs
      · split at hs
        · simp only [Option.some.injEq] at hs; subst hs; rfl
        · cases hs
      · cases hs

example : ∃ s : St, s.marker = true ∧ s.pending = true ∧ (exec s (.casQ .reload)).1.marker = false :=
  ⟨{ marker := true, pending := true }, rfl, rfl, rfl⟩

/-- node-failure reports are muted: the counter is up, or the post-reload window is still running
(`proxyFailureSuppressedForReload`). -/
def muted (s : St) : Bool := decide (0 < s.suppress) || decide (0 < s.muteLeft)

/-- **The muting is always lifted again**: the window opened when the counter returns to 0 is
`reloadFailureQuiesce` long and never longer; in a settled state the counter is 0 and after that much
time nothing is muted any more (and time can pass: no retirement is open). -/
theorem muting_always_lifted {s : St} (hr : Reachable s) (hx : s.exited = false) (hq : quiescent s = true) :
    s.muteLeft ≤ quiesceNs ∧
    ∃ s', step s (.tick quiesceNs) = some s' ∧ muted s' = false := by
  have hi := idle_of_quiescent hq hx
  have hc := settled_is_clean hr hx hq
  have hm := (reachable_clock hr).mute
  refine ⟨hm, { s with mgrLeft := s.mgrLeft - quiesceNs, gLeft := s.gLeft - quiesceNs, muteLeft := s.muteLeft - quiesceNs,
                       now := s.now + quiesceNs }, ?_, ?_⟩
  · have hret : (s.retDone != some false) = true := by
      cases h : s.retDone with
      | none => rfl
      | some b => cases b
                  · exact absurd h hi.ret
                  · rfl
    simp [step, hx, hret, hi.gBlocked]
  · simp only [muted, hc.2.1, Bool.or_eq_false_iff, decide_eq_false_iff_not]
    omega

/-- the window starts exactly when the last suppression scope ends. -/
theorem mute_window_starts_at_last_end (s : St) (h : s.suppress = 1) :
    (exec s .endSupp).1.muteLeft = quiesceNs ∧ (exec s .endSupp).1.suppress = 0 := by
  simp [exec, h]

example : ∃ s, Reachable s ∧ s.exited = false ∧ quiescent s = true ∧ s.muteLeft = quiesceNs ∧ muted s = true :=
  ⟨_, reachable_of_run (acts := exFailedSettled) rfl, rfl, by decide, rfl, rfl⟩

/-- **While a request is in progress the progress file never shows an answer that is not its own**:
from the worker's `Processing` write until the request's own Done "OK" / Error is written (by the
worker, or by the main loop after the hand-off), the file holds neither Done "OK" nor Error — only
Processing, a busy report, a cleared busy report (Done ""), or a client's ReloadSend.  (It does *not*
say that the own answer, once written, survives until the release: a refusal's busy report may
overwrite it and then be cleared to Done "" — one progress slot shared by all requesters; see the
design note, observations B–D.) -/
theorem no_foreign_answer_in_progress {s : St} (hr : Reachable s) (hx : s.exited = false) (hf : s.faults = 0)
    (h : answerPending s = true) : s.progress.isAnswer = false :=
  (reachable_inv hr hx).own hf h

example : ∃ s, Reachable s ∧ s.exited = false ∧ answerPending s = true ∧ s.progress = .processing :=
  ⟨_, reachable_of_run (acts := exAccepted ++ [.wStart 4, .stepW, .stepW, .stepW]) rfl, rfl, rfl, rfl⟩

/-! ### failing progress-file operations (faults injected at every section that touches the file) -/

/-- **A failing progress-file operation touches nothing**: a section whose write / read fails leaves
the whole shared state as it was (the error is dropped), and the same section with working I/O
changes the progress file and nothing else; whichever way it goes, all it can schedule is the
busy-report clean-up (`readProg`, `writeClr`).  So no flag, no counter, no queue ever depends on
whether `/var/run/dae.progress` could be written or read. -/
theorem io_fault_touches_only_the_file (s : St) (x : Micro) (r : St × List Micro) (h : execF s x = some r) :
    r.1 = s ∧ (exec s x).1 = { s with progress := (exec s x).1.progress } ∧
    (∀ y ∈ r.2 ++ (exec s x).2, y = .readProg ∨ y = .writeClr) := by
  cases x <;> simp only [execF, Option.some.injEq, reduceCtorEq] at h <;> subst h <;>
    simp only [exec] <;> (repeat' split) <;> simp

example : execF { pending := true, m := [.writeBusy true] } (.writeBusy true) =
    some ({ pending := true, m := [.writeBusy true] }, []) := rfl

/-- **A refused request changes nothing — not even the busy report — when the file cannot be
written**: the refuser's sections with failing I/O leave every component untouched except the main
loop's own program counter (and the count of failed operations). -/
theorem refusal_is_pure_under_io_faults {s s' : St} {x : Micro} {rest : List Micro} (hm : s.m = x :: rest)
    (hx : (∃ b, x = .writeBusy b) ∨ x = .readProg ∨ x = .writeClr)
    (hs : step s .stepMF = some s') :
    s' = { s with m := s'.m, faults := s.faults + 1 } := by
  unfold step at hs
  cases hex : s.exited
  case true => simp [hex] at hs
  simp only [hex, hm, Bool.false_eq_true, if_false] at hs
  rcases hx with ⟨b, rfl⟩ | rfl | rfl <;> simp only [execF, Option.some.injEq] at hs <;> rw [← hs] <;> simp [hex]

example : ∃ s s' : St, s.m = [.writeBusy false] ∧ step s .stepMF = some s' ∧ s'.m = [.readProg] :=
  ⟨{ m := [.writeBusy false] }, _, rfl, rfl, rfl⟩

/-- a signal consumed during the serve-ready wait whose busy report cannot be written: the refused
request's marker is gone, nothing else changed. -/
theorem failed_report_in_ready_wait_changes_nothing {s s' : St} {k : Kind} (hs : step s (.swallowF k) = some s') :
    s' = { s with marker := false, faults := s.faults + 1 } := by
  unfold step at hs
  cases hex : s.exited
  case true => simp [hex] at hs
  simp only [hex, Bool.false_eq_true, if_false] at hs
  split at hs
  · simp only [Option.some.injEq] at hs; exact hs.symm
  · cases hs

example : ∃ s s' : St, step s (.swallowF .reload) = some s' ∧ s'.progress = .processing :=
  ⟨{ pending := true, progress := .processing, m := [.waitReady, .setResult, .finishSucc] }, _, rfl, rfl⟩

/-- a `dae reload` client whose `kill(2)` fails restores the progress file it found
(`writeReloadSendAndSignal`): no trace is left, later clients are not refused because of it. -/
theorem failed_client_leaves_no_trace {s s' : St} (hs : step s .cliFail = some s') : s' = s := by
  unfold step at hs
  cases hex : s.exited
  case true => simp [hex] at hs
  simp only [hex, Bool.false_eq_true, if_false] at hs
  split at hs
  · simp only [Option.some.injEq] at hs; exact hs.symm
  · cases hs

example : (step init .cliFail).isSome = true := rfl

/-- **Failing file I/O cannot wedge the daemon**: whatever progress-file operations failed on the way
(any number, at any section of any goroutine), a settled running daemon has no request in progress, no
flag up, the muting counter at 0 — and takes the next signal.  What a failure CAN leave behind is a
stale busy report in the file (see the example below): `dae suspend` and a plain `kill -USR1` work,
the `dae reload` client refuses at its pre-check until the next release's clean-up clears the report
(coordinator decision (ii): not an alarm). -/
theorem never_wedged_under_io_faults {s : St} (hr : Reachable s) (hx : s.exited = false) (hq : quiescent s = true) :
    s.pending = false ∧ s.suppress = 0 ∧ s.active = false ∧ s.reloading = false ∧ s.queue = [] ∧
    ∀ k, ∃ s'', runActs s [.sig k, .stepM, .stepM] = some s'' ∧ s''.pending = true ∧ s''.queue = [k] ∧
      s''.suppress = 1 := by
  have hc := settled_is_clean hr hx hq
  have hi := idle_of_quiescent hq hx
  refine ⟨hc.1, hc.2.1, hc.2.2.2.1, hc.2.2.2.2.1, hc.2.2.2.2.2, fun k => ?_⟩
  refine ⟨{ s with pending := true, suppress := s.suppress + 1, queue := s.queue ++ [k], m := [], marker := false,
                    qAbort := s.marker, reqAt := s.now }, ?_, rfl, ?_, ?_⟩
  · simp [runActs, step, hx, hi.m, exec, hc.1, hi.queue]
  · simp [hi.queue]
  · simp [hc.2.1]

/-- the read of the release's clean-up fails after a refusal wrote its busy report: settled, idle,
accepting — and the file still says busy. -/
def exStaleBusyAfterFault : List Act :=
  exAccepted ++ [.wStart 4] ++ List.replicate 12 .stepW ++ [.wake 5] ++ List.replicate 5 .stepM ++
  [.sig .reload, .stepM, .stepM, .closeG, .gStore, .gEnd, .gReadF]

example : ∃ s, Reachable s ∧ s.exited = false ∧ quiescent s = true ∧ s.faults = 1 ∧ s.pending = false ∧
    s.progress.isBusy = true :=
  ⟨_, reachable_of_run (acts := exStaleBusyAfterFault) rfl, rfl, by decide, rfl, rfl, rfl⟩

/-- and the headline invariants are about such runs too: a refusal whose busy report could not be
written, while a request is in progress. -/
example : ∃ s, Reachable s ∧ s.exited = false ∧ s.faults = 1 ∧ tokens s = 1 ∧ s.progress = .processing :=
  ⟨_, reachable_of_run (acts := exAccepted ++ [.wStart 4, .stepW, .stepW, .stepW, .sig .suspend, .stepM, .stepMF]) rfl,
    rfl, rfl, rfl, rfl⟩

/-! ### the old generation's retirement has a clock -/

/-- **`retirementDone` closes no later than `max(budget, 0)` after the retirement started — for every
budget and every behaviour of the old generation's sessions** (none, ending early, ending late,
never ending), at once when the budget is used up (≤ 0), when there is no session, on `--abort` or
without dialer overlap, and no later than the moment the next reload cancels it; and the budget never
exceeds `reloadTotalSwitchBudget`. -/
theorem retirement_done_within_budget (sc : RetScenario) :
    retireDoneAt sc ≤ sc.budget.toNat ∧
    (∀ c, sc.cancelAt = some c → retireDoneAt sc ≤ c) ∧
    (sc.budget ≤ 0 → retireDoneAt sc = 0) ∧
    (sc.sessions = 0 ∨ sc.abort = true ∨ sc.overlap = false → retireDoneAt sc = 0) ∧
    (0 ≤ sc.age → retireDoneAt sc ≤ totalSwitchBudget) := by
  have hb := drainTime_le_budget sc.budget sc.sessions sc.idleAt sc.cancelAt
  refine ⟨?_, ?_, ?_, ?_, retireDoneAt_le_total sc⟩
  · unfold retireDoneAt; split <;> omega
  · intro c hc
    unfold retireDoneAt; split
    · omega
    · rw [hc]; exact drainTime_le_cancel _ _ _ _
  · intro h0
    unfold retireDoneAt; split
    · rfl
    · omega
  · intro h
    unfold retireDoneAt
    rcases h with h | h | h
    · split
      · rfl
      · simp [drainTime, h]
    · simp [h]
    · simp [h]

/-- the seeded regression's scenario: budget used up, one live session that never ends. -/
example : (⟨false, false, true, totalSwitchBudget, 1, none, none⟩ : RetScenario).budget = 0 ∧
    retireDoneAt ⟨false, false, true, totalSwitchBudget, 1, none, none⟩ = 0 ∧
    retireAborted ⟨false, false, true, totalSwitchBudget, 1, none, none⟩ = [true] := by
  simp [RetScenario.budget, remBudget, retireDoneAt, retireAborted, drainTime, drainResults, optMin]

/-- a session that ends (after 5 ns) before any budget runs out ends the retirement then. -/
example : retireDoneAt ⟨true, false, true, 0, 3, some 0, none⟩ = 0 := by
  simp [retireDoneAt, drainTime, optMin]

/-- `waitForControlPlaneDrain` returns within `max(maxWait, 0)`, for every `maxWait` (negative,
zero, positive), and always has a result. -/
theorem drain_wait_bounded (maxWait : Int) (sessions : Nat) (idleAt cancelAt : Option Nat) :
    drainTime maxWait sessions idleAt cancelAt ≤ maxWait.toNat ∧
    drainResults maxWait sessions idleAt cancelAt ≠ [] := by
  exact ⟨drainTime_le_budget _ _ _ _, drainResults_ne_nil _ _ _ _⟩

/-! ### the scope counter itself: Begin / End as concurrent operations on one word -/

/-- **Every `EndReloadProxyFailureSuppression` that returns has decremented the counter exactly once, under
every interleaving of any number of threads** (Begin = one atomic add; End = Load, then CompareAndSwap,
retried until it wins): no End returns at the clamp, none returns after a lost CAS, the counter word
always equals the scopes waiting for their End plus the End calls in flight — and when all threads are
done and as many scopes were ended as begun, the counter is 0: the muting is lifted.  (The transition
system `suppress` field of the main model treats End as one atomic step; this is what justifies it.) -/
theorem scope_counter_balanced (progs : List (List Scope.Op)) (sched : List Nat) (s : Scope.S)
    (h : Scope.run true (Scope.mk progs) sched = some s) :
    s.clamped = 0 ∧ s.lost = 0 ∧ s.counter = s.pool + Scope.sumF Scope.infl s.threads ∧
    (Scope.finished s → (progs.map Scope.cntB).sum = (progs.map Scope.cntE).sum → s.counter = 0) := by
  have hI := Scope.inv_run sched (Scope.inv_mk progs) h
  refine ⟨hI.noClamp, hI.noLost, hI.cnt, fun hf hb => ?_⟩
  have z1 := Scope.sum_finished Scope.infl (by intro st; cases st <;> rfl) s.threads hf
  have z2 := Scope.sum_finished Scope.nb (by intro st; rfl) s.threads hf
  have z3 := Scope.sum_finished Scope.ue (by intro st; cases st <;> rfl) s.threads hf
  have hc := hI.cnt
  have hbal := hI.bal
  omega

/-- two threads, one scope each; thread 0's CAS loses to thread 1's Begin and is retried: counter 0. -/
example : (Scope.run true (Scope.mk [[.begin, .end_], [.begin, .end_]]) [0, 0, 0, 1, 0, 0, 0, 1, 1, 1]).map
    (fun s => (s.counter, s.lost, s.threads.all fun t => t.prog.isEmpty)) = some (0, 0, true) := by decide

/-- **the single-attempt variant (one Load, one CAS, return) loses an End** on the same interleaving:
both threads are done, both scopes were ended, and the counter is stuck at 1 — muted forever. -/
example : (Scope.run false (Scope.mk [[.begin, .end_], [.begin, .end_]]) [0, 0, 0, 1, 0, 1, 1, 1]).map
    (fun s => (s.counter, s.lost, s.threads.all fun t => t.prog.isEmpty)) = some (1, 1, true) := by decide

/-- the production shape: the release of request N (End on the release goroutine) overlaps the accept of
request N+1 (Begin on the main loop), then N+1 is released. -/
example : (Scope.run true (Scope.mk [[.begin, .begin], [.end_, .end_]]) [0, 1, 1, 0, 1, 1, 1, 1, 1, 1]).map
    (fun s => (s.counter, s.lost, s.threads.all fun t => t.prog.isEmpty)) = some (0, 0, true) := by decide

/-! ### the retirement's budget counts from the arrival of the request it belongs to -/

/-- **When a retirement starts — in the worker (full reload) or in the run-state handler (staged
hand-off) — the request time recorded in the manager is the arrival time of the request in progress**
(never a stale one of an earlier request, never the zero time), under every interleaving; so the drain
budget is `reloadTotalSwitchBudget` minus the time this very request has taken so far, and the old
generation has retired no later than `reloadTotalSwitchBudget` after the request's signal was taken —
or at once, when the switch itself already took longer.  (This is the content of the constant's name;
it is what bounds "once the previous generation has retired".) -/
theorem retirement_budget_counts_from_the_request {s : St} (hr : Reachable s) (hx : s.exited = false)
    (h : (∃ rest, s.w = .startRet :: rest) ∨ (∃ rest, s.m = .startRet :: rest)) :
    s.metaAt = some s.reqAt ∧ s.reqAt ≤ s.now ∧
    (exec s .startRet).1.mgrLeft = retireDoneAt (retScenarioOf s) ∧
    (s.now - s.reqAt) + retireDoneAt (retScenarioOf s) ≤ max (s.now - s.reqAt) totalSwitchBudget := by
  have _ := hx
  have hM := reachable_meta hr
  have hreq := (reachable_clock hr).req
  have hmeta : s.metaAt = some s.reqAt := by
    rcases h with ⟨rest, h⟩ | ⟨rest, h⟩
    · exact hM.w (by rw [h]; rfl)
    · have hk := hM.okm
      rw [h] at hk
      simp only [okM, Bool.and_eq_true] at hk
      exact hM.m (Or.inr (by rw [h]; simp [anyRelM_cons, Micro.isRelM, hk.1]))
  refine ⟨hmeta, hreq, rfl, ?_⟩
  have hb := (retirement_done_within_budget (retScenarioOf s)).1
  have hbud : (retScenarioOf s).budget = remBudget false ((s.now : Int) - (s.reqAt : Int)) totalSwitchBudget := by
    simp [RetScenario.budget, retScenarioOf, hmeta]
  rw [hbud] at hb
  unfold remBudget at hb
  simp only [Bool.false_eq_true, if_false] at hb
  repeat' split at hb
  all_goals omega

/-- 3 s after its signal was taken a full reload starts retiring its old generation (3 sessions that
never end): the retirement has the rest of the budget and no more. -/
def exRetireAfter3s : List Act :=
  exAccepted ++ [.tick 3000000000, .chooseRet ⟨false, false, true, 0, 3, none, none⟩, .wStart 4] ++
  List.replicate 8 .stepW

example : ∃ s rest, Reachable s ∧ s.exited = false ∧ s.w = .startRet :: rest ∧ s.now - s.reqAt = 3000000000 ∧
    retireDoneAt (retScenarioOf s) = totalSwitchBudget - 3000000000 :=
  ⟨_, _, reachable_of_run (acts := exRetireAfter3s) rfl, rfl, rfl, rfl, by decide⟩

/-- **The abort decision of the request being processed decides the retirement it starts**
(`dae reload -a`): the old generation is aborted at once, whatever its sessions do. -/
theorem abort_request_retires_old_generation_at_once (s : St) (h : s.wAbort = true) :
    retireDoneAt (retScenarioOf s) = 0 ∧ retireAborted (retScenarioOf s) = [true] ∧
    (exec s .startRet).1.mgrLeft = 0 := by
  simp [exec, retireDoneAt, retireAborted, retScenarioOf, h]

example : ∃ s, Reachable s ∧ s.wAbort = true ∧ s.w.head? = some (.setActive true) :=
  ⟨_, reachable_of_run (acts := [.cliMark, .sig .reload, .stepM, .stepM, .wStart 4]) rfl, rfl, rfl⟩

/-- In the transition system the retirement step starts the clock with that bound: the section
`startControlPlaneRetirement` publishes an open channel and sets its remaining time to
`retireDoneAt` of the scenario the environment chose. -/
theorem retirement_step_starts_clock (s : St) :
    exec s .startRet = ({ s with retDone := some false, mgrLeft := retireDoneAt (retScenarioOf s) }, []) := rfl

/-- The remaining times of open retirements never exceed `reloadTotalSwitchBudget`. -/
theorem retirement_clock_bounded {s : St} (hr : Reachable s) :
    s.mgrLeft ≤ totalSwitchBudget ∧ s.gLeft ≤ totalSwitchBudget :=
  ⟨(reachable_clock hr).mgr, (reachable_clock hr).g⟩

/-- *True by construction of the model* (the urgency rule built into `step … (.tick d)`), stated so
that the rule is visible: time passes only within the remaining time of the retirement published in
the manager and of the one a release goroutine is blocked on, and completing a retirement is always
enabled.  The substance — that the REAL drain returns by `retireDoneAt` — is
`retirement_done_within_budget` plus the synctest tie (`c20ret` stream). -/
theorem clock_urgency_by_construction {s s' : St} {d : Nat} (hs : step s (.tick d) = some s') :
    (s.retDone = some false → d ≤ s.mgrLeft ∧ s'.mgrLeft + d = s.mgrLeft ∧ (step s .closeMgr).isSome = true) ∧
    (0 < s.gBlocked → d ≤ s.gLeft ∧ s'.gLeft + d = s.gLeft ∧ (step s .closeG).isSome = true) := by
  unfold step at hs
  cases hex : s.exited
  case true => simp [hex] at hs
  simp only [hex, Bool.false_eq_true, if_false] at hs
  split at hs
  · rename_i hc
    simp only [Option.some.injEq] at hs; subst hs
    simp only [Bool.and_eq_true, Bool.or_eq_true, decide_eq_true_eq, beq_iff_eq, bne_iff_ne, ne_eq] at hc
    constructor
    · intro h
      have : d ≤ s.mgrLeft := by
        rcases hc.1 with h' | h'
        · exact absurd h h'
        · exact h'
      exact ⟨this, by simp only; omega, by simp [step, hex, h]⟩
    · intro h
      have : d ≤ s.gLeft := by rcases hc.2 with h' | h' <;> omega
      exact ⟨this, by simp only; omega, by simp [step, hex, h]⟩
  · cases hs

example : ∃ s s' : St, step s (.tick 5) = some s' ∧ s.retDone = some false ∧ s.mgrLeft = 7 :=
  ⟨{ retDone := some false, mgrLeft := 7 }, _, rfl, rfl, rfl⟩

/-- *Consequence of the urgency rule* (not an independent fact about the code): on every schedule from
a reachable state in which a release goroutine is blocked, as long as its retirement has not completed
the model time that has passed is at most `gLeft ≤ reloadTotalSwitchBudget`.  Together with the tie
this replaces "a retirement eventually completes" by "the real drain returns by `retireDoneAt`,
sampled by the `c20ret` stream". -/
theorem blocked_release_bounded_by_construction {s s' : St} {acts : List Act} (hr : Reachable s)
    (hx : s.exited = false) (hg : 0 < s.gBlocked) (hno : Act.closeG ∉ acts)
    (h : runActs s acts = some s') : elapsed acts ≤ s.gLeft ∧ s.gLeft ≤ totalSwitchBudget :=
  ⟨blocked_release_bounded hr hx hg hno h, (reachable_clock hr).g⟩

/-- a reload whose old generation (3 sessions that never end) retires with the full budget left: the
release goroutine is blocked with exactly that much time to go. -/
def exRetiring : List Act :=
  exAccepted ++ [.chooseRet ⟨true, false, true, 0, 3, none, none⟩, .wStart 4] ++
  List.replicate 12 .stepW ++ [.wake 5] ++ List.replicate 5 .stepM

example : ∃ s, Reachable s ∧ s.exited = false ∧ s.gBlocked = 1 ∧
    s.gLeft = retireDoneAt ⟨true, false, true, 0, 3, none, none⟩ ∧ s.pending = true :=
  ⟨_, reachable_of_run (acts := exRetiring) rfl, rfl, rfl, rfl, rfl⟩

/-- **The serve-ready wait returns within its time-out**: for every positive time-out and every
behaviour of the Serve goroutine (reports ready, reports failure, never reports) and of termination
signals, `waitReloadReadyOrSignal` returns, no later than the time-out, and with a result; reload /
suspend signals consumed meanwhile do not postpone it.  (With `timeout ≤ 0` and a Serve goroutine
that never reports it never returns — the mutation "pass 0" of the audit; the call sites pass
`reloadReadyTimeout`, pinned, positive.) -/
theorem ready_wait_bounded (timeout : Int) (reportAt termAt : Option Nat) (ok : Bool) (h : 0 < timeout) :
    ∃ t, waitDoneAt timeout reportAt termAt = some t ∧ t ≤ timeout.toNat ∧
      waitResults timeout reportAt ok termAt ≠ [] := by
  obtain ⟨t, h1, h2, _⟩ := waitDoneAt_some timeout reportAt termAt h
  exact ⟨t, h1, h2, waitResults_ne_nil timeout reportAt termAt ok h⟩

example : waitDoneAt 0 none none = none := rfl

/-! ### answered -/

/-- does the effect list write an answer (Error / result) before it gives the request away? -/
def answersBeforeRelease : List Eff → Bool
  | [] => true
  | .setProg .error :: _ => true
  | .result :: _ => true
  | .clearPending :: _ => false
  | .finishFail :: _ => false
  | .finishSucc :: _ => false
  | _ :: rest => answersBeforeRelease rest

/-- **Every accepted request is answered**: a settled running daemon shows an answer (Done / Error)
— or a client's fresh ReloadSend — in the progress file; never a left-over `Processing` and never
a left-over busy report.  Proved from the dynamic invariant `Inv.proc` ("while the file says
Processing, the worker still has its Error write or the hand-off ahead, or the main loop still has
its Done/Error write ahead, or the hand-off is waiting for the main loop") together with the busy
coverage invariant; it holds under all interleavings, including busy reports written by refusals
(4876faa) and by the serve-ready wait (926f7bd) on top of `Processing`. -/
theorem answered_full {s : St} (hr : Reachable s) (hx : s.exited = false) (hq : quiescent s = true)
    (hf : s.faults = 0) : s.progress.cliAccepts = true ∨ s.progress = .send := by
  have hI := reachable_inv hr hx
  have hi := idle_of_quiescent hq hx
  have hb := (clean_of_idle hI hi).2.2.1 hf
  have hp := not_processing_of_idle hI hi hf
  cases h : s.progress <;> simp [h, Prog.isBusy, Prog.isProcessing, Prog.cliAccepts] at hb hp ⊢

/-- a reload that succeeded and whose old generation has retired, fully settled: Done "OK". -/
def exSucceededSettled : List Act :=
  exAccepted ++ [.wStart 4] ++ List.replicate 12 .stepW ++ [.wake 5] ++ List.replicate 5 .stepM ++
  [.closeG, .gStore, .gEnd, .gRead]

example : ∃ s, Reachable s ∧ s.exited = false ∧ quiescent s = true ∧ s.progress = .done :=
  ⟨_, reachable_of_run (acts := exSucceededSettled) rfl, rfl, by decide, rfl⟩

/-- while a reload is being processed the file does say `Processing` (the invariant is not vacuous). -/
example : ∃ s, Reachable s ∧ s.exited = false ∧ s.progress = .processing ∧ anyAnsW s.w = true :=
  ⟨_, reachable_of_run (acts := exAccepted ++ [.wStart 4, .stepW, .stepW, .stepW]) rfl, rfl, rfl, rfl⟩

/-- **Every outcome is answered (path-level corollary)**: every path of the worker starts by writing
`Processing`, and every path (worker or run-state handler) that releases the request has written
its answer (Error, or Done/Error according to the recorded reload error) before it does so. -/
theorem answer_written_before_release :
    (∀ p ∈ workerPaths, (p.take 3).contains (.setProg .processing) = true ∧ answersBeforeRelease p = true) ∧
    (∀ p ∈ handlerPaths, answersBeforeRelease p.effs = true) := by
  decide

/-- **The in-progress request's own answer still lands after a busy report written during the
serve-ready wait**: on every handler path, the statements after the wait write Done/Error before the
request is given away (and the release's clean-up then clears any later busy report:
`no_stale_busy_when_idle`, `settled_is_clean`). -/
theorem answer_lands_after_ready_wait :
    ∀ p ∈ handlerPaths, p.effs.contains .wait = true →
      p.effs.contains .exitHold = true ∨
      answersBeforeRelease (p.effs.dropWhile (fun e => e != .wait)) = true := by
  decide

end DaeVerif.C20.Props
