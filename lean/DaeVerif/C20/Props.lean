import DaeVerif.C20.Proofs
namespace DaeVerif.C20.Props
end DaeVerif.C20.Props
