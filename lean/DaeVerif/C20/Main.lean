import DaeVerif.C20.Model
import DaeVerif.Common.Proto
/-!
Line-protocol driver for C20 (stateful).  Two kinds of lines:

* schedule lines (`reset`, `sig r`, `m`, `w`, `wake 3`, `wstart 5`, `closeg`, `gstore`, …): apply
  `DaeVerif.C20.step` and print the observable state, or `disabled`;
* table lines (`path worker <tokens> !next`, `endpaths worker`): compare the control-flow paths the
  harness extracted from cmd/run.go with `workerPaths` / `handlerPaths` / `signalPaths`.
-/
open DaeVerif DaeVerif.C20 DaeVerif.Proto

def b01 (b : Bool) : String := if b then "1" else "0"

def progStr : Prog → String
  | .send => "send" | .processing => "processing" | .done => "doneOK" | .doneClr => "doneClr"
  | .error => "error" | .busyActive => "busyActive" | .busyRetiring => "busyRetiring"

/-- where a thread is parked: at one of the four hooks inside a real function, between two
statements of its path (`stmt`), or idle (`-`). -/
def posStr : List Micro → String
  | [] => "-"
  | .beginSend _ :: _ => "begin"
  | .endSupp :: _ => "end"
  | .readProg :: _ => "get"
  | .writeBusy _ :: _ => "set"
  | .writeBusyForce :: _ => "set"
  | .writeClr :: _ => "set"
  | .casQ _ :: _ => "entry"
  | _ => "stmt"

def stStr (s : St) : String :=
  let rd := match s.retDone with | none => "nil" | some false => "open" | some true => "closed"
  s!"p={b01 s.pending} a={b01 s.active} r={b01 s.reloading} s={s.suppress} f={progStr s.progress} " ++
  s!"q={s.queue.length} e={b01 s.reloadErr} st={b01 s.staged} rd={rd} n={b01 s.notify} x={b01 s.exited} ab={b01 s.marker} wa={b01 s.wAbort} " ++
  s!"M={posStr s.m} W={posStr s.w} g={s.gBlocked},{s.gStore},{s.gEnd},{s.gRead},{s.gWrite}"

/-! ### token forms of the path tables -/

def guardStr : GuardName → String
  | .reloading => "reloading" | .lnil => "lnil" | .staged => "staged" | .term => "term"
  | .notready => "notready" | .retire => "retire"

def progTok : Prog → String
  | .send => "prog=0" | .processing => "prog=1" | .done => "prog=2ok" | .doneClr => "prog=2"
  | .error => "prog=3" | .busyActive => "prog=4" | .busyRetiring => "prog=4"

/-- the alternative token sequences one effect stands for. -/
def effForms : Eff → List (List String)
  | .setActive b => [[s!"active={b01 b}"]]
  | .coalesce => [["coalesce"]]
  | .setProg p => [[progTok p]]
  | .setErr b => [[s!"err={b01 b}"]]
  | .resetProxy => [["resetproxy"]]
  | .clearPending => [["clearpending"]]
  | .setStaged => [["setstaged"]]
  | .clearStaged => [["clearstaged"]]
  | .clearRet => [["clearret"]]
  | .setMeta => [["setmeta"]]
  | .beginHandoff => [["beginhandoff"]]
  | .startRet => [["startret"]]
  | .pprof => [["pprof"]]
  | .notify => [["notify"]]
  | .fatal => [["fatal"]]
  | .storeReloading b => [[s!"reloading:={b01 b}"]]
  | .hooks => [["hooks"]]
  | .wait => [["wait"]]
  | .result => [["errnil=0", "prog=3"], ["errnil=1", "prog=2ok"]]
  | .finishFail => [["finishfail"]]
  | .finishSucc => [["finishsucc"]]
  | .exitHold => [[]]
  | .exitIdle => [[]]
  | .serveLit => [["lit{notify}"]]
  | .guard g b => [[s!"{guardStr g}={b01 b}"]]

def pathForms : List Eff → List (List String)
  | [] => [[]]
  | e :: es => (effForms e).flatMap fun a => (pathForms es).map fun r => a ++ r

def joinToks (ts : List String) (term : String) : String :=
  " ".intercalate (ts ++ ["!" ++ term])

def workerForms : List String :=
  workerPaths.flatMap fun p =>
    let term := if p.contains .fatal then "exit" else "next"
    (pathForms p).map fun ts => joinToks ts term

def handlerForms : List String :=
  handlerPaths.flatMap fun p =>
    let term := if p.effs.contains .exitHold || p.effs.contains .exitIdle then "break" else "next"
    (pathForms p.effs).map fun ts =>
      joinToks ([s!"reloading={b01 p.reloading}", s!"lnil={b01 p.lnil}"] ++ ts) term

/-- the signal dispatch of the main select: which signals queue a request, which leave the loop. -/
def signalForms : List String :=
  [ "case:SIGHUP !next",
    "case:SIGINT,SIGTERM,SIGQUIT,SIGKILL !break",
    "case:SIGUSR1 takeabort queue:reload !next",
    "case:SIGUSR2 takeabort queue:suspend !next",
    "case:default !next" ]

/-- `waitForControlPlaneDrain`: every exit of its select, for every budget (the timer is armed
unconditionally, whatever `maxWait` is). -/
def drainForms : List String :=
  (["logevery=0", "logevery=1 ticker:logEvery defer:ticker.Stop()"].flatMap fun t =>
    ["on:<-ctx.Done() ret:canceled !return", "on:<-idleCh ret:idle !return", "on:<-tickCh !loop",
     "on:<-timer.C ret:timeout !return"].map fun c =>
      "nosession=0 timer:maxWait defer:timer.Stop() " ++ t ++ " " ++ c) ++
  ["nosession=1 ret:idle !return"]

/-- `retireControlPlaneConnections`. -/
def retireForms : List String :=
  [ "case:!hasOverlap abortconns !end",
    "case:abort abortconns !end",
    "case:default drainwait:maxDrain case:controlPlaneDrainCanceled abortconns !end",
    "case:default drainwait:maxDrain case:controlPlaneDrainIdle !end",
    "case:default drainwait:maxDrain case:controlPlaneDrainTimeout abortconns !end",
    "case:default drainwait:maxDrain case:none !end" ]

/-- `startControlPlaneRetirement` up to the spawn, and the retirement goroutine. -/
def startretForms : List String :=
  [ "nilplane=0 hasprev=0 newctx set:m.lastRetirementCancel set:m.pendingRetirementDone budget:reloadTotalSwitchBudget spawn !end",
    "nilplane=0 hasprev=1 cancelprev newctx set:m.lastRetirementCancel set:m.pendingRetirementDone budget:reloadTotalSwitchBudget spawn !end",
    "nilplane=1 !return" ]

def retgoForms : List String :=
  ["hasoldcancel=0", "hasoldcancel=1 oldcancel"].flatMap fun a =>
    ["hassucc=0", "hassucc=1 cleanup"].map fun b =>
      "defer:close(done) markretired retireconns:drainBudget " ++ a ++ " closeplane " ++ b ++ " !end"

def progCodeName : Prog → String
  | .send => "ReloadSend" | .processing => "ReloadProcessing" | .done => "ReloadDone" | .doneClr => "ReloadDone"
  | .error => "ReloadError" | .busyActive => "ReloadBusy" | .busyRetiring => "ReloadBusy"

def allProgs : List Prog := [.send, .processing, .done, .doneClr, .error, .busyActive, .busyRetiring]

def sortStrs (l : List String) : List String := (l.toArray.qsort (· < ·)).toList

/-- facts about code outside the path regions that the model relies on: the client's pre-check is
`Prog.cliAccepts`; the three channels of `Run` have one slot; every dispatched signal is subscribed;
the ready wait and the prepare contexts have their time-outs; the start-up goroutine only writes
Done "" and notifies. -/
def factForms : List String :=
  let acc := sortStrs ((allProgs.filter Prog.cliAccepts).map progCodeName).eraseDups
  [ "pins worker ctx:reloadPrepareTimeout*3 !fact",
    "pins handler wait:reloadReadyTimeout*2 !fact",
    "ctor startup lit{notify,prog=2} !fact",
    "ctor sigs chanos.Signal cap=1 !fact",
    "ctor runStateChanges chanstruct{} cap=1 !fact",
    "ctor reloadReqs chanreloadRequest cap=1 !fact",
    "ctor notify sigs SIGHUP,SIGILL,SIGINT,SIGQUIT,SIGTERM,SIGUSR1,SIGUSR2 !fact",
    "cli reload precheck signals-only-on=" ++ ",".intercalate acc ++ " needs-readable=1 else=returns-without-signal !fact",
    "cli reload abortmarker=after-precheck !fact",
    "cli reload stops-waiting-on=ReloadBusy,ReloadDone,ReloadError !fact",
    "cli suspend reads-progress=0 abortmarker=1 !fact",
    -- where the request's arrival time and abort decision come from and where they go (model: reqAt /
    -- metaAt / wAbort → retScenarioOf)
    "flow signals queue{requestedAt:time.Now(),abort:takeAbortMarker()}*2 !fact",
    "flow worker setmeta(req.requestedAt,req.requestedAtMono)*1 setstaged(req.requestedAt,req.requestedAtMono){abort:req.abortConnections,overlap:InheritDialerHealthFrom}*2 startret(req.abortConnections,InheritDialerHealthFrom)*1 !fact",
    "flow handler startret(handoff.abortConnections,handoff.hasOverlap)*1 !fact" ]

def regionForms : String → Option (List String)
  | "worker" => some workerForms
  | "handler" => some handlerForms
  | "signals" => some signalForms
  | "drain" => some drainForms
  | "retire" => some retireForms
  | "startret" => some startretForms
  | "retgo" => some retgoForms
  | "facts" => some factForms
  | _ => none

/-! ### retirement clock ops -/

def kv (toks : List String) (k : String) : Option String :=
  toks.findSome? fun t =>
    match t.splitOn "=" with
    | [a, b] => if a = k then some b else none
    | _ => none

def optTime? (v : String) : Option (Option Nat) :=
  if v = "never" || v = "none" then some none else v.toNat?.map some

def resStr : DrainRes → String
  | .idle => "idle" | .canceled => "canceled" | .timeout => "timeout"

def retireLine (toks : List String) : Option String := do
  let zero ← kv toks "zero"; let age ← (← kv toks "age").toInt?; let abort ← kv toks "abort"
  let overlap ← kv toks "overlap"; let n ← (← kv toks "n").toNat?
  let idle ← optTime? (← kv toks "idle"); let cancel ← optTime? (← kv toks "cancel")
  let succ := (kv toks "succ").getD "0"
  let sc : RetScenario := ⟨zero == "1", abort == "1", overlap == "1", age, n, idle, cancel⟩
  -- the whole chain in the transition system: a reload about to succeed, the retirement step, the
  -- hand-over of the release to a goroutine, exactly `retireDoneAt` of model time, completion, release
  -- the scenario's age / zero start / abort are state of the system itself (request time recorded in the
  -- manager, abort decision of the request being processed), not choices of the environment
  let s0 : St := { pending := true, active := true, suppress := 1, progress := .done, nextRet := sc,
                   m := [.startRet, .finishSucc], wAbort := sc.abort,
                   now := if age < 0 then 0 else age.toNat,
                   metaAt := if sc.zeroStart then none else some (if age < 0 then (-age).toNat else 0) }
  let fin := fun (s : St) => s!"p={b01 s.pending} a={b01 s.active} s={s.suppress} f={progStr s.progress}"
  match runActs s0 [.stepM, .stepM] with
  | some s1 =>
    let d := s1.gLeft
    let late := (step s1 (.tick (d + 1))).isSome
    match runActs s1 [.tick d, .closeG, .gStore, .gEnd, .gRead] with
    | some s2 =>
      let ab := "|".intercalate ((retireAborted sc).eraseDups.map b01)
      -- the mute window: muted at the release, still muted one ns before it ends, not afterwards
      let isMuted := fun (s : St) => decide (0 < s.suppress) || decide (0 < s.muteLeft)
      let m0 := isMuted s2
      let m1 := (step s2 (.tick (quiesceNs - 1))).map isMuted
      let m2 := (step s2 (.tick quiesceNs)).map isMuted
      let ob := fun (o : Option Bool) => match o with | some b => b01 b | none => "x"
      some (s!"done={d} aborted={ab} oldcancel=1 cleanup={succ} final={fin s2} mute={b01 m0},{ob m1},{ob m2}" ++
        (if late then " clock-not-urgent" else ""))
    | none => some "disabled"
  | none => some "disabled"


/-! ### a whole reload with a clock: signal → queue → worker → (ready wait) → retirement → release → next signal -/

def stepN (a : Act) : Nat → St → Option St
  | 0, s => some s
  | n + 1, s => (step s a).bind (stepN a n)

def untilM (p : St → Bool) : Nat → St → Option St
  | 0, s => some s
  | n + 1, s => if p s then some s else (step s .stepM).bind (untilM p n)

def untilW (p : St → Bool) : Nat → St → Option St
  | 0, s => some s
  | n + 1, s => if p s then some s else (step s .stepW).bind (untilW p n)

/-- release goroutines that are not blocked run to their end (nothing gates them in production). -/
def settleG : Nat → St → St
  | 0, s => s
  | n + 1, s =>
    let a := if 0 < s.gStore then some Act.gStore else if 0 < s.gEnd then some Act.gEnd
      else if 0 < s.gRead then some Act.gRead else if 0 < s.gWrite then some Act.gWrite else none
    match a with
    | none => s
    | some a => match step s a with
      | some s' => settleG n s'
      | none => s

/-- let `d` ns pass; a retirement whose remaining time is at most `d` completes on the way (and the
release goroutine waiting for it runs its clean-up). -/
def advance (s : St) (d : Nat) : Option St :=
  let s := settleG 16 s
  if s.retDone = some false && decide (s.mgrLeft ≤ d) then do
    let s1 ← step s (.tick s.mgrLeft)
    let s2 ← step s1 .closeMgr
    step s2 (.tick (d - s.mgrLeft))
  else if decide (0 < s.gBlocked) && decide (s.gLeft ≤ d) then do
    let s1 ← step s (.tick s.gLeft)
    let s2 ← step s1 .closeG
    step (settleG 16 s2) (.tick (d - s.gLeft))
  else step s (.tick d)

/-- one reload whose request sits in the queue: `d1` in the queue, `d2` for config load + prepare,
`d3` in the serve-ready wait; full reload (retirement started by the worker) or staged hand-off
(retirement started by the run-state handler after the wait). -/
def chainRound (s : St) (staged : Bool) (d1 d2 d3 : Nat) (sc : RetScenario) : Option (St × String) := do
  let s ← advance s d1
  let s ← step s (.chooseRet sc)
  let s ← step s (.wStart (if staged then 2 else 4))
  let s ← stepN .stepW 5 s
  let s ← advance s d2
  -- the worker up to (not including) its startControlPlaneRetirement, if it has one
  let s ← untilW (fun t => t.w.isEmpty || t.w.head? == some .startRet) 40 s
  let info1 := if s.w.head? == some .startRet then
      some (s.now - s.reqAt, retireDoneAt (retScenarioOf s), retireAborted (retScenarioOf s)) else none
  let s ← untilW (fun t => t.w.isEmpty) 40 s
  let s ← step s (.wake (if staged then 7 else 5))
  let s ← untilM (fun t => t.m.head? == some .waitReady) 40 s
  let s ← advance s d3
  let s ← step s .stepM
  let s ← untilM (fun t => t.m.isEmpty || t.m.head? == some .startRet) 40 s
  let info2 := if s.m.head? == some .startRet then
      some (s.now - s.reqAt, retireDoneAt (retScenarioOf s), retireAborted (retScenarioOf s)) else none
  let s ← untilM (fun t => t.m.isEmpty) 40 s
  let (age, dn, ab) ← (info1 <|> info2)
  pure (s, s!"age={age} done={dn} aborted={"|".intercalate (ab.eraseDups.map b01)}")

def probeStr (s0 s : St) : String :=
  if s0.pending then s!"refused:{progStr s.progress}" else if s.pending && s.queue.length == 1 then "accepted" else "lost"

def chainLine (toks : List String) : Option String := do
  let mark := (kv toks "mark").getD "0"
  let rd := fun (sfx : String) => do
    let st ← kv toks ("s" ++ sfx)
    if st == "x" then pure none else
    let d1 ← (← kv toks ("d1" ++ sfx)).toNat?; let d2 ← (← kv toks ("d2" ++ sfx)).toNat?
    let d3 ← (← kv toks ("d3" ++ sfx)).toNat?
    let o ← kv toks ("o" ++ sfx); let n ← (← kv toks ("n" ++ sfx)).toNat?
    let i ← optTime? (← kv toks ("i" ++ sfx))
    pure (some (st == "1", d1, d2, d3, (⟨false, false, o == "1", 0, n, i, none⟩ : RetScenario)))
  let ra ← rd "a"
  let rb ← rd "b"
  let probe ← (← kv toks "probe").toNat?
  let (sta, d1, d2, d3, sc) ← ra
  let s ← runActs init ((if mark == "1" then [.cliMark] else []) ++ [.sig .reload, .stepM, .stepM])
  let (s, outA) ← chainRound s sta d1 d2 d3 sc
  -- the next signal, `probe` ns after the hand-off finished
  let s ← advance s probe
  let s1 ← runActs s [.sig .suspend, .stepM, .stepM]
  let pr := probeStr s s1
  match rb with
  | none => pure (outA ++ s!" probe={pr} final=p={b01 s1.pending} a={b01 s1.active} s={s1.suppress} f={progStr s1.progress}")
  | some (stb, e1, e2, e3, scb) =>
    if !(s1.pending && !s.pending) then pure (outA ++ s!" probe={pr} second=not-run") else
    let (s2, outB) ← chainRound s1 stb e1 e2 e3 scb
    let s3 ← advance s2 (totalSwitchBudget + 1)
    pure (outA ++ s!" probe={pr} second: " ++ outB ++ s!" final=p={b01 s3.pending} a={b01 s3.active} s={s3.suppress} f={progStr s3.progress}")

def retOp (ws : List String) : Option String :=
  match ws with
  | ["const", "total"] => some s!"total={totalSwitchBudget}"
  | ["const", "quiesce"] => some s!"quiesce={quiesceNs}"
  | ["const", "readywait"] => some s!"positive={b01 (decide (0 < Gen.readyTimeoutNs))} ns={Gen.readyTimeoutNs}"
  | ["const", "preparewait"] => some s!"positive={b01 (decide (0 < Gen.prepareTimeoutNs))} ns={Gen.prepareTimeoutNs}"
  | ["budget", z, age, b] => do
    let a ← age.toInt?; let bb ← b.toInt?
    pure s!"rem={remBudget (z == "1") a bb}"
  | "drain" :: toks => do
    let mw ← (← kv toks "mw").toInt?; let n ← (← kv toks "n").toNat?
    let idle ← optTime? (← kv toks "idle"); let cancel ← optTime? (← kv toks "cancel")
    pure (s!"at={drainTime mw n idle cancel} res=" ++ "|".intercalate ((drainResults mw n idle cancel).map resStr))
  | "retire" :: toks => retireLine toks
  | "chain" :: toks => some ((chainLine toks).getD "disabled")
  | "rwait" :: toks => do
    let tmo ← (← kv toks "timeout").toInt?
    let rep ← optTime? (← kv toks "report"); let ok := (kv toks "ok").getD "1"
    let term ← optTime? (← kv toks "term")
    let tstr := match waitDoneAt tmo rep term with | some t => toString t | none => "never"
    let rs := (waitResults tmo rep (ok == "1") term).map fun r =>
      match r with | .ready => "ready" | .failed => "failed" | .signal => "signal" | .timeout => "timeout"
    pure (s!"at={tstr} res=" ++ (if rs.isEmpty then "none" else "|".intercalate rs))
  | _ => none


structure DState where
  st : St := init
  seen : List String := []

def kind? : String → Option Kind
  | "r" => some .reload
  | "s" => some .suspend
  | _ => none

def workerIndex? (p : String) : Option Nat :=
  (List.range workerPaths.length).find? fun i =>
    match workerPaths[i]? with
    | some e => ((pathForms e).map fun ts => joinToks ts (if e.contains .fatal then "exit" else "next")).contains p
    | none => false

def handlerIndex? (p : String) : Option Nat :=
  (List.range handlerPaths.length).find? fun i =>
    match handlerPaths[i]? with
    | some h =>
      let term := if h.effs.contains .exitHold || h.effs.contains .exitIdle then "break" else "next"
      ((pathForms h.effs).map fun ts =>
        joinToks ([s!"reloading={b01 h.reloading}", s!"lnil={b01 h.lnil}"] ++ ts) term).contains p
    | none => false

def act? : List String → Option Act
  | ["sig", k] => (kind? k).map .sig
  | ["swallow", k] => (kind? k).map .swallow
  | ["term"] => some .term
  | ["cli"] => some .cliSend
  | ["mark"] => some .cliMark
  | ["spur"] => some .spuriousNotify
  | "wake" :: toks => (handlerIndex? (" ".intercalate toks)).map .wake
  | "wstart" :: toks => (workerIndex? (" ".intercalate toks)).map .wStart
  | ["m"] => some .stepM
  | ["w"] => some .stepW
  | ["closemgr"] => some .closeMgr
  | ["closeg"] => some .closeG
  | ["gstore"] => some .gStore
  | ["gend"] => some .gEnd
  | ["gread"] => some .gRead
  | ["gwrite"] => some .gWrite
  -- the same steps with the progress-file operation inside failing
  | ["mf"] => some .stepMF
  | ["wf"] => some .stepWF
  | ["greadf"] => some .gReadF
  | ["gwritef"] => some .gWriteF
  | ["swallowf", k] => (kind? k).map .swallowF
  | ["clifail"] => some .cliFail
  | _ => none

/-- `a ; b ; c` — several actions the real code cannot separate (no hook in between). -/
def splitActs (ws : List String) : List (List String) :=
  ws.foldr (fun t acc =>
    match acc with
    | [] => [[t]]
    | g :: gs => if t = ";" then [] :: g :: gs else (t :: g) :: gs) [[]]

def handle (d : DState) (line : String) : DState × String :=
  match words line with
  | ["reset"] => ({ d with st := init }, stStr init)
  | ["quiet?"] =>
    let q := quiescent d.st
    let live := q && !d.st.exited
    -- `stuck`: a flag or the muting counter is left up; `stale`: the file still says busy (legitimate
    -- only after a failed progress-file operation, see `never_wedged_under_io_faults`)
    (d, s!"quiescent={b01 q} stuck={b01 (live && (d.st.pending || d.st.suppress != 0 || d.st.active || d.st.reloading))} stale={b01 (live && d.st.progress.isBusy)}")
  | "path" :: region :: rest =>
    match regionForms region with
    | some forms =>
      let p := " ".intercalate rest
      -- a dispatch case that does nothing and stays in the loop (an extra ignored signal) is harmless
      let ignoredSignal := region == "signals" && (match rest with
        | [c, "!next"] => c.startsWith "case:"
        | _ => false)
      if ignoredSignal && !forms.contains p then (d, "known") else
      if forms.contains p then ({ d with seen := (region ++ " " ++ p) :: d.seen }, "known") else (d, "unknown")
    | none => (d, "bad-op")
  | ["endpaths", region] =>
    match regionForms region with
    | some forms =>
      let missing := forms.filter fun p => !d.seen.contains (region ++ " " ++ p)
      (d, s!"missing={missing.length}" ++ String.join (missing.map fun p => " [" ++ p ++ "]"))
    | none => (d, "bad-op")
  | ws =>
    match retOp ws with
    | some out => (d, out)
    | none =>
    match (splitActs ws).mapM act? with
    | some acts =>
      match runActs d.st acts with
      | some s' => ({ d with st := s' }, stStr s')
      | none => (d, "disabled")
    | none => (d, "unknown-path-or-op")

def main : IO Unit := lineLoopS ({} : DState) handle
