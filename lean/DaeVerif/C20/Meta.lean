import DaeVerif.C20.Live
/-!
# C20 — the request's arrival time reaches the retirement it belongs to

`startControlPlaneRetirement` computes the old generation's drain budget from
`pendingReloadRequestedAt` (model: `metaAt`).  Invariant: whenever a retirement is about to start, or
the hand-off is with the main loop, that field holds the arrival time of the request in progress
(`reqAt`) — the worker always refreshes it (`setPendingReloadMetadata` / `setPendingStagedHandoff`)
before it starts a retirement or hands off, and no other request can have been accepted in between.
-/
set_option linter.unusedSimpArgs false
namespace DaeVerif.C20

/-- does the worker reach a retirement / the hand-off without refreshing the recorded request time? -/
def needsMeta : List Micro → Bool
  | [] => false
  | .setMeta :: _ => false
  | .setStaged true :: _ => false
  | .startRet :: _ => true
  | .beginHandoff :: _ => true
  | _ :: rest => needsMeta rest

/-- every `startControlPlaneRetirement` of the run-state handler is followed by the request's release. -/
def okM : List Micro → Bool
  | [] => true
  | .startRet :: rest => anyRelM rest && okM rest
  | _ :: rest => okM rest

structure MetaOk (s : St) : Prop where
  okm : okM s.m = true
  w : needsMeta s.w = true → s.metaAt = some s.reqAt
  m : (s.reloading = true ∨ anyRelM s.m = true) → s.metaAt = some s.reqAt

theorem workerPaths_meta : workerPaths.all (fun p => !needsMeta (expand p)) = true := by decide

theorem handlerPaths_meta : handlerPaths.all (fun p => okM (expand p.effs)) = true := by decide

theorem needsMeta_of_inert (l : List Micro) (h : allInert l = true) : needsMeta l = false := by
  induction l with
  | nil => rfl
  | cons x xs ih =>
    simp only [allInert_cons, Bool.and_eq_true] at h
    cases x <;> simp_all [Micro.inert, needsMeta]

theorem okM_tail (x : Micro) (rest : List Micro) (h : okM (x :: rest) = true) : okM rest = true := by
  cases x <;> simp_all [okM]

theorem meta_stepM {s : St} (hI : Inv s) (hM : MetaOk s) {x : Micro} {rest : List Micro} (hm : s.m = x :: rest) :
    MetaOk (afterM s x rest) := by
  obtain ⟨okm, mw, mm⟩ := hM
  have htok := hI.tok
  have hwfm := hI.wfm
  have htail := hI.tail
  rw [hm] at okm mm hwfm
  simp only [tokens, hm] at htok
  have hrest := okM_tail x rest okm
  have hp : s.pending.toNat ≤ 1 := toNat_le_one _
  -- with no request in progress the worker is in its inert tail
  have hidle : s.pending = false → needsMeta s.w = false ∧ s.reloading = false ∧ anyRelM rest = false := by
    intro h0
    simp only [h0, Bool.toNat_false] at htok
    have t0 : wsum Micro.tokW s.w = 0 := by omega
    refine ⟨needsMeta_of_inert _ (htail t0), ?_, ?_⟩
    · cases hr : s.reloading
      · rfl
      · simp [hr] at htok
    · cases ha : anyRelM rest
      · rfl
      · simp [anyRelM_cons, ha] at htok
  cases x <;> simp only [wfM, Micro.mAllowed, Bool.false_and, Bool.and_false, Bool.false_eq_true] at hwfm
  case casQ k =>
    cases hpd : s.pending
    · obtain ⟨i1, i2, i3⟩ := hidle hpd
      refine ⟨?_, ?_, ?_⟩ <;> simp_all [afterM, exec, okM, anyRelM_cons, Micro.isRelM]
    · refine ⟨?_, ?_, ?_⟩ <;> simp_all [afterM, exec, okM, anyRelM_cons, Micro.isRelM]
  all_goals (
    refine ⟨?_, ?_, ?_⟩ <;> simp only [afterM, exec] <;> (repeat' split) <;>
      simp_all [okM, anyRelM_cons, anyRelM_append, Micro.isRelM])

theorem meta_stepW {s : St} (hI : Inv s) (hM : MetaOk s) {x : Micro} {rest : List Micro} (hw : s.w = x :: rest) :
    MetaOk (afterW s x rest) := by
  obtain ⟨okm, mw, mm⟩ := hM
  have hwfw := hI.wfw
  rw [hw] at mw hwfw
  cases x <;> simp only [wfW, Micro.wAllowed, Bool.false_and, Bool.and_false, Bool.false_eq_true] at hwfw
  case setStaged b =>
    cases b <;> (refine ⟨?_, ?_, ?_⟩ <;> simp_all [afterW, exec, needsMeta])
  all_goals (
    refine ⟨?_, ?_, ?_⟩ <;> simp only [afterW, exec] <;> (repeat' split) <;>
      simp_all [needsMeta])

theorem meta_stepF {s : St} (hM : MetaOk s) :
    (∀ x rest r, s.m = x :: rest → execF s x = some r →
      MetaOk { r.1 with m := r.2 ++ rest, faults := s.faults + 1 }) ∧
    (∀ x rest r, s.w = x :: rest → execF s x = some r →
      MetaOk { r.1 with w := r.2 ++ rest, faults := s.faults + 1 }) := by
  obtain ⟨okm, mw, mm⟩ := hM
  constructor
  · intro x rest r hm hr
    rw [hm] at okm mm
    cases x <;> simp only [execF, Option.some.injEq, reduceCtorEq] at hr
    all_goals subst hr
    all_goals (
      refine ⟨?_, ?_, ?_⟩ <;> (try simp only) <;> (repeat' split) <;>
        simp_all [okM, anyRelM_cons, anyRelM_append, Micro.isRelM])
  · intro x rest r hw hr
    rw [hw] at mw
    cases x <;> simp only [execF, Option.some.injEq, reduceCtorEq] at hr
    all_goals subst hr
    all_goals (
      refine ⟨?_, ?_, ?_⟩ <;> (try simp only) <;> (repeat' split) <;>
        simp_all [needsMeta])

theorem meta_step {s s' : St} (hI : Inv s) (hM : MetaOk s) (a : Act) (hs : step s a = some s') : MetaOk s' := by
  unfold step at hs
  cases hex : s.exited
  case true => simp [hex] at hs
  simp only [hex, Bool.false_eq_true, if_false] at hs
  cases a <;> simp only at hs
  case stepM =>
    split at hs
    · cases hs
    · rename_i x rest hm
      simp only [Option.some.injEq] at hs
      rw [← hs]; exact meta_stepM hI hM hm
  case stepW =>
    split at hs
    · cases hs
    · rename_i x rest hw
      simp only [Option.some.injEq] at hs
      rw [← hs]; exact meta_stepW hI hM hw
  case stepMF =>
    split at hs
    · cases hs
    · rename_i x rest hm
      split at hs
      · rename_i r hr
        simp only [Option.some.injEq] at hs
        rw [← hs]; exact (meta_stepF hM).1 x rest r hm hr
      · cases hs
  case stepWF =>
    split at hs
    · cases hs
    · rename_i x rest hw
      split at hs
      · rename_i r hr
        simp only [Option.some.injEq] at hs
        rw [← hs]; exact (meta_stepF hM).2 x rest r hw hr
      · cases hs
  case wake i =>
    obtain ⟨okm, mw, mm⟩ := hM
    split at hs
    · rename_i hc
      simp only [Bool.and_eq_true, List.isEmpty_iff] at hc
      obtain ⟨hm, hn⟩ := hc
      split at hs
      · rename_i p hp
        split at hs
        · rename_i hr
          have hr' : p.reloading = s.reloading := by simpa using hr
          simp only [Option.some.injEq] at hs; subst hs
          have hok := hPath_of_get hp
          have hmt := List.all_eq_true.mp handlerPaths_meta p (List.mem_of_getElem? hp)
          simp only [hPathOk, Bool.and_eq_true, decide_eq_true_eq, beq_iff_eq] at hok
          obtain ⟨⟨⟨⟨h1, h2⟩, h3⟩, h4⟩, h4b⟩ := hok
          refine ⟨hmt, mw, ?_⟩
          intro hpre
          cases hrl : s.reloading
          · rw [hr', hrl] at h4
            simp only [Bool.false_eq_true, if_false, Bool.and_eq_true, Bool.not_eq_true', beq_iff_eq] at h4
            simp only [hrl, h4.1, Bool.false_eq_true, or_self] at hpre
          · exact mm (Or.inl hrl)
        · cases hs
      · cases hs
    · cases hs
  case wStart i =>
    obtain ⟨okm, mw, mm⟩ := hM
    split at hs
    · split at hs
      · rename_i k q p hq hp
        simp only [Option.some.injEq] at hs; subst hs
        have hmt := List.all_eq_true.mp workerPaths_meta p (List.mem_of_getElem? hp)
        simp only [Bool.not_eq_true'] at hmt
        exact ⟨okm, fun h => by simp [hmt] at h, mm⟩
      · cases hs
    · cases hs
  all_goals (
    obtain ⟨okm, mw, mm⟩ := hM
    repeat' split at hs
    all_goals first
      | (cases hs <;> done)
      | (simp only [Option.some.injEq] at hs; subst hs
         refine ⟨?_, ?_, ?_⟩ <;> simp_all [exec, okM, anyRelM_cons, Micro.isRelM]))

theorem metaok_init : MetaOk init := ⟨rfl, fun h => by simp [init, needsMeta] at h, fun h => by simp [init] at h⟩

theorem reachable_meta {s : St} (h : Reachable s) : MetaOk s := by
  induction h with
  | init => exact metaok_init
  | @step s s' a hr hs ih =>
    have hx : s.exited = false := by
      cases hex : s.exited
      · rfl
      · simp [step, hex] at hs
    exact meta_step (reachable_inv hr hx) ih a hs

end DaeVerif.C20
