import DaeVerif.C12.Model
/-! Helper lemmas for C12. -/
namespace DaeVerif.C12

theorem take_natBits (w n x : Nat) (h : n ≤ w) :
    (natBits w x).take n = (List.range n).map fun i => x.testBit (w - 1 - i) := by
  unfold natBits
  rw [← List.map_take, List.take_range, Nat.min_eq_left h]

theorem natBits_length (w x : Nat) : (natBits w x).length = w := by simp [natBits]

theorem map_range_eq_iff {α} (n : Nat) (f g : Nat → α) :
    (List.range n).map f = (List.range n).map g ↔ ∀ i, i < n → f i = g i := by
  constructor
  · intro h i hi
    have := congrArg (fun l => l[i]?) h
    simpa [hi] using this
  · intro h
    apply List.map_congr_left
    intro i hi
    exact h i (List.mem_range.mp hi)

theorem testBit_ge_false {w x i : Nat} (hx : x < 2 ^ w) (hi : w ≤ i) : x.testBit i = false :=
  Nat.testBit_lt_two_pow (Nat.lt_of_lt_of_le hx (Nat.pow_le_pow_right (by decide) hi))

/-- The bit-string form of prefix equality is the numeric one. -/
theorem take_bits_eq_iff (w n x y : Nat) (hn : n ≤ w) (hx : x < 2 ^ w) (hy : y < 2 ^ w) :
    (natBits w x).take n = (natBits w y).take n ↔ x / 2 ^ (w - n) = y / 2 ^ (w - n) := by
  rw [take_natBits w n x hn, take_natBits w n y hn, map_range_eq_iff]
  constructor
  · intro h
    apply Nat.eq_of_testBit_eq
    intro j
    rw [← Nat.shiftRight_eq_div_pow, ← Nat.shiftRight_eq_div_pow, Nat.testBit_shiftRight,
      Nat.testBit_shiftRight]
    by_cases hj : j < n
    · have := h (n - 1 - j) (by omega)
      have e : w - 1 - (n - 1 - j) = w - n + j := by omega
      rw [e] at this
      exact this
    · rw [testBit_ge_false hx (by omega), testBit_ge_false hy (by omega)]
  · intro h i hi
    have := congrArg (fun v => v.testBit (n - 1 - i)) h
    simp only [← Nat.shiftRight_eq_div_pow, Nat.testBit_shiftRight] at this
    have e : w - n + (n - 1 - i) = w - 1 - i := by omega
    rw [e] at this
    exact this

theorem isPrefixOf_take_iff {α} [DecidableEq α] (l w : List α) (n : Nat) (hl : n ≤ l.length) : (l.take n).isPrefixOf w = true ↔ l.take n = w.take n := by
  rw [List.isPrefixOf_iff_prefix]
  constructor
  · intro h
    have := List.prefix_iff_eq_take.mp h
    rw [this]
    simp [List.length_take, Nat.min_eq_left hl]
  · intro h
    rw [h]
    exact List.take_prefix n w

/-! ### canonicalize -/

theorem mem_insertSorted (x y : Prefix) (l : List Prefix) : y ∈ insertSorted x l ↔ y = x ∨ y ∈ l := by
  induction l with
  | nil => simp [insertSorted]
  | cons z zs ih =>
    unfold insertSorted
    split
    · simp
    · simp [ih]; constructor <;> (intro h; rcases h with h | h | h <;> simp [h])

theorem mem_sortPrefixes (y : Prefix) (l : List Prefix) : y ∈ sortPrefixes l ↔ y ∈ l := by
  induction l with
  | nil => simp [sortPrefixes]
  | cons z zs ih =>
    have : sortPrefixes (z :: zs) = insertSorted z (sortPrefixes zs) := rfl
    rw [this, mem_insertSorted, ih]; simp

theorem mem_dedupAdj (y : Prefix) (l : List Prefix) : y ∈ dedupAdj l ↔ y ∈ l := by
  fun_induction dedupAdj l with
  | case1 => simp
  | case2 a => simp
  | case3 a rest ih => rw [ih]; simp
  | case4 a b rest h ih => simp only [List.mem_cons, ih]

theorem mem_canonicalize (y : Prefix) (l : List Prefix) : y ∈ canonicalize l ↔ y ∈ l := by
  unfold canonicalize; rw [mem_dedupAdj, mem_sortPrefixes]

end DaeVerif.C12

namespace DaeVerif.C12

/-! ### sharing -/

def Builder.Inv (b : Builder) : Prop :=
  ∀ h e, lookupHash h b.dedup = some e → b.tries[e.index]? = some e.prefixes

theorem Builder.inv_empty : Builder.empty.Inv := by
  intro h e he; simp [Builder.empty, lookupHash] at he

theorem lookupHash_cons (h k : Nat) (e : DedupEntry) (rest : List (Nat × DedupEntry)) :
    lookupHash h ((k, e) :: rest) = if k = h then some e else lookupHash h rest := rfl

/-- One `addSet` keeps the invariant, only appends to `tries`, and the returned index holds exactly
the caller's canonical list. -/
theorem Builder.addSet_spec (hash : List Prefix → Nat) (b : Builder) (raw : List Prefix)
    (hinv : b.Inv) :
    (b.addSet hash raw).1.Inv ∧
    (∃ ext, (b.addSet hash raw).1.tries = b.tries ++ ext) ∧
    (b.addSet hash raw).1.tries[(b.addSet hash raw).2]? = some (canonicalize raw) := by
  unfold Builder.addSet
  simp only
  have fresh : (⟨b.tries ++ [canonicalize raw],
      (hash (canonicalize raw), ⟨b.tries.length, canonicalize raw⟩) :: b.dedup⟩ : Builder).Inv := by
    intro h e he
    rw [lookupHash_cons] at he
    split at he
    · cases he; simp
    · have := hinv h e he
      simp only
      rw [List.getElem?_append_left]
      · exact this
      · exact (List.getElem?_eq_some_iff.mp this).1
  split
  · rename_i e he
    split
    · rename_i heq
      refine ⟨hinv, ⟨[], by simp⟩, ?_⟩
      simp only
      rw [hinv _ e he, heq]
    · exact ⟨fresh, ⟨[_], rfl⟩, by simp⟩
  · exact ⟨fresh, ⟨[_], rfl⟩, by simp⟩

theorem Builder.addAll_spec (hash : List Prefix → Nat) (sets : List (List Prefix)) :
    ∀ (b : Builder), b.Inv →
      (Builder.addAll hash b sets).2.length = sets.length ∧
      (∃ ext, (Builder.addAll hash b sets).1.tries = b.tries ++ ext) ∧
      ∀ i (hi : i < sets.length) (hj : i < (Builder.addAll hash b sets).2.length),
        (Builder.addAll hash b sets).1.tries[(Builder.addAll hash b sets).2[i]]? =
          some (canonicalize sets[i]) ∧ (Builder.addAll hash b sets).1.Inv := by
  induction sets with
  | nil =>
    intro b hb
    refine ⟨rfl, ⟨[], by simp [Builder.addAll]⟩, ?_⟩
    intro i hi; simp at hi
  | cons s ss ih =>
    intro b hb
    obtain ⟨hinv1, ⟨ext1, hext1⟩, hidx1⟩ := Builder.addSet_spec hash b s hb
    obtain ⟨hlen, ⟨ext2, hext2⟩, hall⟩ := ih (b.addSet hash s).1 hinv1
    have unfold_eq : Builder.addAll hash b (s :: ss) =
        ((Builder.addAll hash (b.addSet hash s).1 ss).1,
          (b.addSet hash s).2 :: (Builder.addAll hash (b.addSet hash s).1 ss).2) := rfl
    rw [unfold_eq]
    refine ⟨by simp [hlen], ⟨ext1 ++ ext2, by simp [hext2, hext1]⟩, ?_⟩
    intro i hi hj
    cases i with
    | zero =>
      simp only [List.getElem_cons_zero]
      constructor
      · rw [hext2]
        rw [List.getElem?_append_left]
        · exact hidx1
        · exact (List.getElem?_eq_some_iff.mp hidx1).1
      · cases ss with
        | nil => simpa [Builder.addAll] using hinv1
        | cons s' ss' => exact (hall 0 (by simp) (by simp [hlen])).2
    | succ k =>
      simp only [List.getElem_cons_succ]
      exact hall k (by simpa using hi) (by simpa using hj)

end DaeVerif.C12
