import DaeVerif.C12.Model
/-! Helper lemmas for C12. -/
namespace DaeVerif.C12

theorem take_natBits (w n x : Nat) (h : n ≤ w) :
    (natBits w x).take n = (List.range n).map fun i => x.testBit (w - 1 - i) := by
  unfold natBits
  rw [← List.map_take, List.take_range, Nat.min_eq_left h]

theorem natBits_length (w x : Nat) : (natBits w x).length = w := by simp [natBits]

theorem map_range_eq_iff {α} (n : Nat) (f g : Nat → α) :
    (List.range n).map f = (List.range n).map g ↔ ∀ i, i < n → f i = g i := by
  constructor
  · intro h i hi
    have := congrArg (fun l => l[i]?) h
    simpa [hi] using this
  · intro h
    apply List.map_congr_left
    intro i hi
    exact h i (List.mem_range.mp hi)

theorem testBit_ge_false {w x i : Nat} (hx : x < 2 ^ w) (hi : w ≤ i) : x.testBit i = false :=
  Nat.testBit_lt_two_pow (Nat.lt_of_lt_of_le hx (Nat.pow_le_pow_right (by decide) hi))

/-- The bit-string form of prefix equality is the numeric one. -/
theorem take_bits_eq_iff (w n x y : Nat) (hn : n ≤ w) (hx : x < 2 ^ w) (hy : y < 2 ^ w) :
    (natBits w x).take n = (natBits w y).take n ↔ x / 2 ^ (w - n) = y / 2 ^ (w - n) := by
  rw [take_natBits w n x hn, take_natBits w n y hn, map_range_eq_iff]
  constructor
  · intro h
    apply Nat.eq_of_testBit_eq
    intro j
    rw [← Nat.shiftRight_eq_div_pow, ← Nat.shiftRight_eq_div_pow, Nat.testBit_shiftRight,
      Nat.testBit_shiftRight]
    by_cases hj : j < n
    · have := h (n - 1 - j) (by omega)
      have e : w - 1 - (n - 1 - j) = w - n + j := by omega
      rw [e] at this
      exact this
    · rw [testBit_ge_false hx (by omega), testBit_ge_false hy (by omega)]
  · intro h i hi
    have := congrArg (fun v => v.testBit (n - 1 - i)) h
    simp only [← Nat.shiftRight_eq_div_pow, Nat.testBit_shiftRight] at this
    have e : w - n + (n - 1 - i) = w - 1 - i := by omega
    rw [e] at this
    exact this

theorem isPrefixOf_take_iff {α} [DecidableEq α] (l w : List α) (n : Nat) (hl : n ≤ l.length) : (l.take n).isPrefixOf w = true ↔ l.take n = w.take n := by
  rw [List.isPrefixOf_iff_prefix]
  constructor
  · intro h
    have := List.prefix_iff_eq_take.mp h
    rw [this]
    simp [List.length_take, Nat.min_eq_left hl]
  · intro h
    rw [h]
    exact List.take_prefix n w

/-! ### canonicalize -/

theorem mem_insertSorted (x y : Prefix) (l : List Prefix) : y ∈ insertSorted x l ↔ y = x ∨ y ∈ l := by
  induction l with
  | nil => simp [insertSorted]
  | cons z zs ih =>
    unfold insertSorted
    split
    · simp
    · simp [ih]; constructor <;> (intro h; rcases h with h | h | h <;> simp [h])

theorem mem_sortPrefixes (y : Prefix) (l : List Prefix) : y ∈ sortPrefixes l ↔ y ∈ l := by
  induction l with
  | nil => simp [sortPrefixes]
  | cons z zs ih =>
    have : sortPrefixes (z :: zs) = insertSorted z (sortPrefixes zs) := rfl
    rw [this, mem_insertSorted, ih]; simp

theorem mem_dedupAdj (y : Prefix) (l : List Prefix) : y ∈ dedupAdj l ↔ y ∈ l := by
  fun_induction dedupAdj l with
  | case1 => simp
  | case2 a => simp
  | case3 a rest ih => rw [ih]; simp
  | case4 a b rest h ih => simp only [List.mem_cons, ih]

theorem mem_canonicalize (y : Prefix) (l : List Prefix) : y ∈ canonicalize l ↔ y ∈ l := by
  unfold canonicalize; rw [mem_dedupAdj, mem_sortPrefixes]

end DaeVerif.C12

namespace DaeVerif.C12

/-! ### sharing -/

def Builder.Inv (b : Builder) : Prop :=
  ∀ h e, lookupHash h b.dedup = some e → b.tries[e.index]? = some e.prefixes

theorem Builder.inv_empty : Builder.empty.Inv := by
  intro h e he; simp [Builder.empty, lookupHash] at he

theorem lookupHash_cons (h k : Nat) (e : DedupEntry) (rest : List (Nat × DedupEntry)) :
    lookupHash h ((k, e) :: rest) = if k = h then some e else lookupHash h rest := rfl

/-- One `addSet` keeps the invariant, only appends to `tries`, and the returned index holds exactly
the caller's canonical list. -/
theorem Builder.addSet_spec (hash : List Prefix → Nat) (b : Builder) (raw : List Prefix)
    (hinv : b.Inv) :
    (b.addSet hash raw).1.Inv ∧
    (∃ ext, (b.addSet hash raw).1.tries = b.tries ++ ext) ∧
    (b.addSet hash raw).1.tries[(b.addSet hash raw).2]? = some (canonicalize raw) := by
  unfold Builder.addSet
  simp only
  have fresh : (⟨b.tries ++ [canonicalize raw],
      (hash (canonicalize raw), ⟨b.tries.length, canonicalize raw⟩) :: b.dedup⟩ : Builder).Inv := by
    intro h e he
    rw [lookupHash_cons] at he
    split at he
    · cases he; simp
    · have := hinv h e he
      simp only
      rw [List.getElem?_append_left]
      · exact this
      · exact (List.getElem?_eq_some_iff.mp this).1
  split
  · rename_i e he
    split
    · rename_i heq
      refine ⟨hinv, ⟨[], by simp⟩, ?_⟩
      simp only
      rw [hinv _ e he, heq]
    · exact ⟨fresh, ⟨[_], rfl⟩, by simp⟩
  · exact ⟨fresh, ⟨[_], rfl⟩, by simp⟩

theorem Builder.addAll_spec (hash : List Prefix → Nat) (sets : List (List Prefix)) :
    ∀ (b : Builder), b.Inv →
      (Builder.addAll hash b sets).2.length = sets.length ∧
      (∃ ext, (Builder.addAll hash b sets).1.tries = b.tries ++ ext) ∧
      ∀ i (hi : i < sets.length) (hj : i < (Builder.addAll hash b sets).2.length),
        (Builder.addAll hash b sets).1.tries[(Builder.addAll hash b sets).2[i]]? =
          some (canonicalize sets[i]) ∧ (Builder.addAll hash b sets).1.Inv := by
  induction sets with
  | nil =>
    intro b hb
    refine ⟨rfl, ⟨[], by simp [Builder.addAll]⟩, ?_⟩
    intro i hi; simp at hi
  | cons s ss ih =>
    intro b hb
    obtain ⟨hinv1, ⟨ext1, hext1⟩, hidx1⟩ := Builder.addSet_spec hash b s hb
    obtain ⟨hlen, ⟨ext2, hext2⟩, hall⟩ := ih (b.addSet hash s).1 hinv1
    have unfold_eq : Builder.addAll hash b (s :: ss) =
        ((Builder.addAll hash (b.addSet hash s).1 ss).1,
          (b.addSet hash s).2 :: (Builder.addAll hash (b.addSet hash s).1 ss).2) := rfl
    rw [unfold_eq]
    refine ⟨by simp [hlen], ⟨ext1 ++ ext2, by simp [hext2, hext1]⟩, ?_⟩
    intro i hi hj
    cases i with
    | zero =>
      simp only [List.getElem_cons_zero]
      constructor
      · rw [hext2]
        rw [List.getElem?_append_left]
        · exact hidx1
        · exact (List.getElem?_eq_some_iff.mp hidx1).1
      · cases ss with
        | nil => simpa [Builder.addAll] using hinv1
        | cons s' ss' => exact (hall 0 (by simp) (by simp [hlen])).2
    | succ k =>
      simp only [List.getElem_cons_succ]
      exact hall k (by simpa using hi) (by simpa using hj)

theorem Builder.addOp_spec (hash : List Prefix → Nat) (b : Builder) (op : SetOp) (hinv : b.Inv) :
    (b.addOp hash op).1.Inv ∧
    (∃ ext, (b.addOp hash op).1.tries = b.tries ++ ext) ∧
    (b.addOp hash op).1.tries[(b.addOp hash op).2]? = some op.slotValues := by
  cases op with
  | ip raw => exact Builder.addSet_spec hash b raw hinv
  | mac macs neg =>
    simp only [Builder.addOp]
    refine ⟨?_, ⟨[_], rfl⟩, by simp⟩
    intro h e he
    have := hinv h e he
    simp only
    rw [List.getElem?_append_left]
    · exact this
    · exact (List.getElem?_eq_some_iff.mp this).1

theorem Builder.addOps_spec (hash : List Prefix → Nat) (ops : List SetOp) :
    ∀ (b : Builder), b.Inv →
      (Builder.addOps hash b ops).2.length = ops.length ∧
      (∃ ext, (Builder.addOps hash b ops).1.tries = b.tries ++ ext) ∧
      ∀ i (hi : i < ops.length) (hj : i < (Builder.addOps hash b ops).2.length),
        (Builder.addOps hash b ops).1.tries[(Builder.addOps hash b ops).2[i]]? =
          some (ops[i]).slotValues ∧ (Builder.addOps hash b ops).1.Inv := by
  induction ops with
  | nil =>
    intro b hb
    refine ⟨rfl, ⟨[], by simp [Builder.addOps]⟩, ?_⟩
    intro i hi; simp at hi
  | cons s ss ih =>
    intro b hb
    obtain ⟨hinv1, ⟨ext1, hext1⟩, hidx1⟩ := Builder.addOp_spec hash b s hb
    obtain ⟨hlen, ⟨ext2, hext2⟩, hall⟩ := ih (b.addOp hash s).1 hinv1
    have unfold_eq : Builder.addOps hash b (s :: ss) =
        ((Builder.addOps hash (b.addOp hash s).1 ss).1,
          (b.addOp hash s).2 :: (Builder.addOps hash (b.addOp hash s).1 ss).2) := rfl
    rw [unfold_eq]
    refine ⟨by simp [hlen], ⟨ext1 ++ ext2, by simp [hext2, hext1]⟩, ?_⟩
    intro i hi hj
    cases i with
    | zero =>
      simp only [List.getElem_cons_zero]
      constructor
      · rw [hext2]
        rw [List.getElem?_append_left]
        · exact hidx1
        · exact (List.getElem?_eq_some_iff.mp hidx1).1
      · cases ss with
        | nil => simpa [Builder.addOps] using hinv1
        | cons s' ss' => exact (hall 0 (by simp) (by simp [hlen])).2
    | succ k =>
      simp only [List.getElem_cons_succ]
      exact hall k (by simpa using hi) (by simpa using hj)

/-! ### the order used by `canonicalizePrefixes` is a total order on well-formed prefixes -/

theorem prefixLe_total (a b : Prefix) : prefixLe a b = true ∨ prefixLe b a = true := by
  unfold prefixLe
  by_cases h1 : a.bits = b.bits
  · by_cases h2 : a.is4 = b.is4
    · simp [h1, h2]; omega
    · cases ha : a.is4 <;> cases hb : b.is4 <;> simp_all
  · simp [h1, Ne.symm h1]; omega

theorem prefixLe_antisymm (a b : Prefix) (h1 : prefixLe a b = true) (h2 : prefixLe b a = true) : a = b := by
  unfold prefixLe at h1 h2
  by_cases hb : a.bits = b.bits
  · by_cases h4 : a.is4 = b.is4
    · simp [hb, h4] at h1 h2
      have : a.addr = b.addr := by omega
      cases a; cases b; simp_all
    · cases ha : a.is4 <;> cases hb4 : b.is4 <;> simp_all
  · simp [hb, Ne.symm hb] at h1 h2; omega

theorem prefixLe_trans (a b c : Prefix) (h1 : prefixLe a b = true) (h2 : prefixLe b c = true) :
    prefixLe a c = true := by
  unfold prefixLe at *
  by_cases hab : a.bits = b.bits <;> by_cases hbc : b.bits = c.bits
  · by_cases h4 : a.is4 = b.is4 <;> by_cases h5 : b.is4 = c.is4
    · simp [hab, hbc, h4, h5] at *; omega
    · cases ha : a.is4 <;> cases hb4 : b.is4 <;> cases hc : c.is4 <;> simp_all
    · cases ha : a.is4 <;> cases hb4 : b.is4 <;> cases hc : c.is4 <;> simp_all
    · cases ha : a.is4 <;> cases hb4 : b.is4 <;> cases hc : c.is4 <;> simp_all
  · have : a.bits ≠ c.bits := by omega
    simp [hab, hbc, this] at *
    omega
  · have : a.bits ≠ c.bits := by omega
    simp [hab, hbc, this] at *
    omega
  · simp [hab, hbc] at h1 h2
    have : a.bits ≠ c.bits := by omega
    simp [this]; omega

/-- strictly sorted by `prefixLe` (sorted and without repetitions) -/
def StrictSorted : List Prefix → Prop
  | [] => True
  | [_] => True
  | a :: b :: rest => prefixLe a b = true ∧ a ≠ b ∧ StrictSorted (b :: rest)

def Sorted : List Prefix → Prop
  | [] => True
  | [_] => True
  | a :: b :: rest => prefixLe a b = true ∧ Sorted (b :: rest)

theorem sorted_insertSorted (x : Prefix) (l : List Prefix) (h : Sorted l) : Sorted (insertSorted x l) := by
  induction l with
  | nil => trivial
  | cons y ys ih =>
    unfold insertSorted
    split
    · rename_i hxy; exact ⟨hxy, h⟩
    · rename_i hxy
      have hyx : prefixLe y x = true := by
        rcases prefixLe_total x y with h' | h'
        · exact absurd h' hxy
        · exact h'
      cases ys with
      | nil => exact ⟨hyx, trivial⟩
      | cons z zs =>
        have hz : Sorted (z :: zs) := h.2
        have := ih hz
        unfold insertSorted at this ⊢
        split
        · rename_i hxz
          simp only [hxz, if_true] at this
          exact ⟨hyx, this⟩
        · rename_i hxz
          simp only [hxz] at this
          exact ⟨h.1, this⟩

theorem sorted_sortPrefixes (l : List Prefix) : Sorted (sortPrefixes l) := by
  induction l with
  | nil => trivial
  | cons x xs ih => exact sorted_insertSorted x _ ih

theorem sorted_head_le (a : Prefix) (l : List Prefix) (h : Sorted (a :: l)) : ∀ y ∈ l, prefixLe a y = true := by
  induction l generalizing a with
  | nil => intro y hy; simp at hy
  | cons b rest ih =>
    intro y hy
    simp only [List.mem_cons] at hy
    rcases hy with rfl | hy
    · exact h.1
    · exact prefixLe_trans a b y h.1 (ih b h.2 y hy)

theorem dedupAdj_head (b : Prefix) (rest : List Prefix) : ∃ t, dedupAdj (b :: rest) = b :: t := by
  induction rest generalizing b with
  | nil => exact ⟨[], rfl⟩
  | cons c r ihr =>
    unfold dedupAdj
    split
    · rename_i hbc; subst hbc; exact ihr b
    · exact ⟨_, rfl⟩

theorem strictSorted_dedupAdj (l : List Prefix) (h : Sorted l) : StrictSorted (dedupAdj l) := by
  induction l with
  | nil => trivial
  | cons a rest ih =>
    cases rest with
    | nil => trivial
    | cons b rest' =>
      have hs : Sorted (b :: rest') := h.2
      have ihb := ih hs
      unfold dedupAdj
      split
      · exact ihb
      · rename_i hne
        have hd := dedupAdj_head b rest'
        obtain ⟨t, ht⟩ := hd
        rw [ht] at ihb ⊢
        exact ⟨h.1, hne, ihb⟩

theorem strictSorted_tail (a : Prefix) (l : List Prefix) (h : StrictSorted (a :: l)) : StrictSorted l := by
  cases l with
  | nil => trivial
  | cons b r => exact h.2.2

theorem strictSorted_head_lt (a : Prefix) (l : List Prefix) (h : StrictSorted (a :: l)) :
    ∀ y ∈ l, prefixLe a y = true ∧ a ≠ y := by
  induction l generalizing a with
  | nil => intro y hy; simp at hy
  | cons b rest ih =>
    intro y hy
    simp only [List.mem_cons] at hy
    rcases hy with rfl | hy
    · exact ⟨h.1, h.2.1⟩
    · obtain ⟨hby, hne⟩ := ih b h.2.2 y hy
      refine ⟨prefixLe_trans a b y h.1 hby, ?_⟩
      intro hay
      subst hay
      exact h.2.1 (prefixLe_antisymm a b h.1 hby)

/-- A strictly sorted list is determined by its members. -/
theorem strictSorted_ext : ∀ (xs ys : List Prefix), StrictSorted xs → StrictSorted ys →
    (∀ p, p ∈ xs ↔ p ∈ ys) → xs = ys := by
  intro xs
  induction xs with
  | nil =>
    intro ys _ _ hm
    cases ys with
    | nil => rfl
    | cons b r => exact absurd ((hm b).mpr List.mem_cons_self) (by simp)
  | cons a xs' ih =>
    intro ys hx hy hm
    cases ys with
    | nil => exact absurd ((hm a).mp List.mem_cons_self) (by simp)
    | cons b ys' =>
      have hab : a = b := by
        by_cases hab : a = b
        · exact hab
        · have h1 : a ∈ ys' := by
            have := (hm a).mp List.mem_cons_self
            simp only [List.mem_cons] at this
            rcases this with h | h
            · exact absurd h hab
            · exact h
          have h2 : b ∈ xs' := by
            have := (hm b).mpr List.mem_cons_self
            simp only [List.mem_cons] at this
            rcases this with h | h
            · exact absurd h.symm hab
            · exact h
          exact prefixLe_antisymm a b (strictSorted_head_lt a xs' hx b h2).1 (strictSorted_head_lt b ys' hy a h1).1
      subst hab
      congr 1
      apply ih ys' (strictSorted_tail a xs' hx) (strictSorted_tail a ys' hy)
      intro p
      constructor
      · intro hp
        have := (hm p).mp (List.mem_cons_of_mem _ hp)
        simp only [List.mem_cons] at this
        rcases this with h | h
        · subst h; exact absurd rfl (strictSorted_head_lt p xs' hx p hp).2
        · exact h
      · intro hp
        have := (hm p).mpr (List.mem_cons_of_mem _ hp)
        simp only [List.mem_cons] at this
        rcases this with h | h
        · subst h; exact absurd rfl (strictSorted_head_lt p ys' hy p hp).2
        · exact h

theorem strictSorted_canonicalize (l : List Prefix) : StrictSorted (canonicalize l) :=
  strictSorted_dedupAdj _ (sorted_sortPrefixes l)

end DaeVerif.C12
