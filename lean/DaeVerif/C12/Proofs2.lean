import DaeVerif.C12.Proofs
import DaeVerif.C12.Text
/-! Helper lemmas for the extensions of C12: text syntax, interval form of containment,
routing through shared slots, parallel construction. -/
namespace DaeVerif.C12
open DaeVerif.Proto

/-! ### interval form of CIDR containment -/

theorem div_eq_iff_range (a q m : Nat) (hm : 0 < m) : a / m = q ↔ q * m ≤ a ∧ a < q * m + m := by
  constructor
  · intro h
    subst h
    constructor
    · exact Nat.div_mul_le_self a m
    · have := Nat.lt_div_mul_add (a := a) hm
      omega
  · rintro ⟨h1, h2⟩
    apply Nat.div_eq_of_lt_le h1
    rw [Nat.succ_mul]; exact h2

/-! ### text -/

theorem takeWhile_append_stop {α} (p : α → Bool) (l : List α) (x : α) (r : List α)
    (hl : ∀ y ∈ l, p y = true) (hx : p x = false) : (l ++ x :: r).takeWhile p = l := by
  induction l with
  | nil => simp [List.takeWhile, hx]
  | cons y ys ih =>
    have hy : p y = true := hl y (by simp)
    simp only [List.cons_append, List.takeWhile_cons, hy, if_true]
    rw [ih (fun z hz => hl z (by simp [hz]))]

theorem dropWhile_append_stop {α} (p : α → Bool) (l : List α) (x : α) (r : List α)
    (hl : ∀ y ∈ l, p y = true) (hx : p x = false) : (l ++ x :: r).dropWhile p = x :: r := by
  induction l with
  | nil => simp [List.dropWhile, hx]
  | cons y ys ih =>
    have hy : p y = true := hl y (by simp)
    simp only [List.cons_append, List.dropWhile_cons, hy, if_true]
    exact ih (fun z hz => hl z (by simp [hz]))

/-- splitting at the last separator undoes appending `sep :: b` when `b` has no separator -/
theorem splitLast_append (sep : Char) (a b : List Char) (hb : sep ∉ b) :
    splitLast sep (a ++ sep :: b) = some (a, b) := by
  unfold splitLast
  have hrev : (a ++ sep :: b).reverse = b.reverse ++ sep :: a.reverse := by simp
  have hall : ∀ y ∈ b.reverse, (y != sep) = true := by
    intro y hy
    have : y ∈ b := List.mem_reverse.mp hy
    simp only [bne_iff_ne, ne_eq]
    intro h; subst h; exact hb this
  have hx : (sep != sep) = false := by simp
  rw [hrev, dropWhile_append_stop _ _ _ _ hall hx, takeWhile_append_stop _ _ _ _ hall hx]
  simp

theorem firstSpecial_mem (cs : List Char) (c : Char) (h : firstSpecial cs = some c) : c ∈ cs := by
  induction cs with
  | nil => simp [firstSpecial] at h
  | cons d ds ih =>
    unfold firstSpecial at h
    split at h
    · cases h; simp
    · exact List.mem_cons_of_mem _ (ih h)

theorem parseV4Val_no_colon (cs : List Char) (v : Nat) (h : parseV4Val cs = some v) : ':' ∉ cs := by
  unfold parseV4Val at h
  split at h
  · cases h
  · rename_i hall
    simp only [Bool.not_eq_true', Bool.not_eq_false] at hall
    intro hmem
    have := (List.all_eq_true.mp (by simpa using hall)) ':' hmem
    revert this; decide

theorem decField?_le (cs : List Char) (max v : Nat) (h : decField? cs max = some v) : v ≤ max := by
  unfold decField? at h
  split at h
  · cases h
  · split at h
    · cases h
    · split at h
      · cases h
      · simp only at h
        split at h
        · cases h; assumption
        · cases h

theorem parseV4Val_lt (cs : List Char) (v : Nat) (h : parseV4Val cs = some v) : v < 2 ^ 32 := by
  unfold parseV4Val at h
  split at h
  · cases h
  · split at h
    · split at h
      · rename_i a b c d _ _ _ _ ha hb hc hd
        cases h
        have := decField?_le _ _ _ ha
        have := decField?_le _ _ _ hb
        have := decField?_le _ _ _ hc
        have := decField?_le _ _ _ hd
        omega
      · cases h
    · cases h

theorem hexDigit?_lt (c : Char) (d : Nat) (h : hexDigit? c = some d) : d < 16 := by
  unfold hexDigit? at h
  split at h
  · rename_i hc
    cases h
    have h1 : c.toNat ≤ '9'.toNat := hc.2
    have : ('9' : Char).toNat = 57 := by decide
    have : ('0' : Char).toNat = 48 := by decide
    omega
  · split at h
    · rename_i hc
      cases h
      have h1 : c.toNat ≤ 'f'.toNat := hc.2
      have : ('f' : Char).toNat = 102 := by decide
      have : ('a' : Char).toNat = 97 := by decide
      omega
    · split at h
      · rename_i hc
        cases h
        have h1 : c.toNat ≤ 'F'.toNat := hc.2
        have : ('F' : Char).toNat = 70 := by decide
        have : ('A' : Char).toNat = 65 := by decide
        omega
      · cases h

theorem foldl_hexAcc_lt (cs : List Char) : ∀ (a v : Nat) (n : Nat), a < 16 ^ n →
    cs.foldl hexAcc (some a) = some v → v < 16 ^ (n + cs.length) := by
  induction cs with
  | nil => intro a v n ha h; simp at h; subst h; simpa using ha
  | cons c cs ih =>
    intro a v n ha h
    simp only [List.foldl_cons] at h
    cases hd : hexDigit? c with
    | none =>
      have : hexAcc (some a) c = none := by simp [hexAcc, hd]
      rw [this] at h
      have hnone : ∀ (l : List Char), l.foldl hexAcc none = none := by
        intro l; induction l with
        | nil => rfl
        | cons x xs ihx => simp only [List.foldl_cons]; exact ihx
      rw [hnone] at h; cases h
    | some d =>
      have hd' := hexDigit?_lt c d hd
      have : hexAcc (some a) c = some (a * 16 + d) := by simp [hexAcc, hd]
      rw [this] at h
      have hb : a * 16 + d < 16 ^ (n + 1) := by
        rw [Nat.pow_succ]; omega
      have := ih (a * 16 + d) v (n + 1) hb h
      simpa [Nat.add_assoc, Nat.add_comm 1] using this

theorem hexGroup?_lt (cs : List Char) (v : Nat) (h : hexGroup? cs = some v) : v < 65536 := by
  unfold hexGroup? at h
  split at h
  · cases h
  · rename_i hc
    have hlen : cs.length ≤ 4 := by
      have := not_or.mp hc
      omega
    have := foldl_hexAcc_lt cs 0 v 0 (by simp) h
    have h2 : (16:Nat) ^ (0 + cs.length) ≤ 16 ^ 4 := Nat.pow_le_pow_right (by decide) (by omega)
    have : (16:Nat) ^ 4 = 65536 := by decide
    omega

theorem hexGroups_lt : ∀ (ts : List (List Char)) (g : List Nat), hexGroups ts = some g → ∀ x ∈ g, x < 65536 := by
  intro ts
  induction ts with
  | nil => intro g h x hx; simp [hexGroups] at h; subst h; simp at hx
  | cons t ts ih =>
    intro g h x hx
    unfold hexGroups at h
    split at h
    · rename_i g0 r hg hr
      cases h
      simp only [List.mem_cons] at hx
      rcases hx with rfl | hx
      · exact hexGroup?_lt t _ hg
      · exact ih r hr x hx
    · cases h

theorem v6Groups_lt : ∀ (ts : List (List Char)) (g : List Nat), v6Groups ts = some g → ∀ x ∈ g, x < 65536 := by
  intro ts
  fun_induction v6Groups ts with
  | case1 => intro g h x hx; cases h; simp at hx
  | case2 t hdot v hv =>
    intro g h x hx
    cases h
    have := parseV4Val_lt t v hv
    simp only [List.mem_cons, List.not_mem_nil, or_false] at hx
    rcases hx with rfl | rfl
    · omega
    · omega
  | case3 t hdot hv => intro g h; cases h
  | case4 t hdot g0 hg =>
    intro g h x hx
    cases h
    simp only [List.mem_cons, List.not_mem_nil, or_false] at hx
    subst hx
    exact hexGroup?_lt t _ hg
  | case5 t hdot hg => intro g h; cases h
  | case6 t t2 ts g0 r hg hr ih =>
    intro g h x hx
    cases h
    simp only [List.mem_cons] at hx
    rcases hx with rfl | hx
    · exact hexGroup?_lt t _ hr
    · exact ih r hg x hx
  | case7 t t2 ts hno => intro g h; cases h

theorem foldl_groups_lt (g : List Nat) (hg : ∀ x ∈ g, x < 65536) : ∀ (a n : Nat), a < 65536 ^ n →
    g.foldl (fun a x => a * 65536 + x) a < 65536 ^ (n + g.length) := by
  induction g with
  | nil => intro a n ha; simpa using ha
  | cons x xs ih =>
    intro a n ha
    simp only [List.foldl_cons, List.length_cons]
    have hx : x < 65536 := hg x (by simp)
    have hb : a * 65536 + x < 65536 ^ (n + 1) := by rw [Nat.pow_succ]; omega
    have := ih (fun y hy => hg y (by simp [hy])) (a * 65536 + x) (n + 1) hb
    simpa [Nat.add_assoc, Nat.add_comm 1] using this

theorem groupsValue_lt (g : List Nat) (hg : ∀ x ∈ g, x < 65536) (hlen : g.length = 8) :
    groupsValue g < 2 ^ 128 := by
  have := foldl_groups_lt g hg 0 0 (by simp)
  unfold groupsValue
  rw [hlen] at this
  have e : (65536:Nat) ^ (0 + 8) = 2 ^ 128 := by decide
  omega

theorem parseV6Val_lt (cs : List Char) (v : Nat) (h : parseV6Val cs = some v) : v < 2 ^ 128 := by
  unfold parseV6Val at h
  cases he : findEllipsis cs with
  | none =>
    rw [he] at h
    simp only at h
    cases hg : v6Groups (v6Tokens cs) with
    | none => rw [hg] at h; cases h
    | some g =>
      rw [hg] at h
      simp only at h
      split at h
      · rename_i hlen
        cases h
        exact groupsValue_lt g (v6Groups_lt _ g hg) hlen
      · cases h
  | some lr =>
    obtain ⟨l, r⟩ := lr
    rw [he] at h
    simp only at h
    cases hgl : hexGroups (v6Tokens l) with
    | none => rw [hgl] at h; cases h
    | some gl =>
      cases hgr : v6Groups (v6Tokens r) with
      | none => rw [hgl, hgr] at h; cases h
      | some gr =>
        rw [hgl, hgr] at h
        simp only at h
        split at h
        · rename_i hlen
          cases h
          apply groupsValue_lt
          · intro x hx
            simp only [List.mem_append, List.mem_replicate] at hx
            rcases hx with (hx | hx) | hx
            · exact hexGroups_lt _ gl hgl x hx
            · omega
            · exact v6Groups_lt _ gr hgr x hx
          · simp only [List.length_append, List.length_replicate]; omega
        · cases h

/-- What `ParseAddr` returns: an IPv4 address only for a text without `:`, an IPv6 one only for a
text with `:`; the 16-byte value is in range. -/
theorem parseAddrText_spec (cs : List Char) (is4 : Bool) (addr : Nat) (h : parseAddrText cs = some (is4, addr)) :
    addr < 2 ^ 128 ∧ (is4 = true → ':' ∉ cs) ∧ (is4 = false → ':' ∈ cs) := by
  unfold parseAddrText at h
  split at h
  · cases h
  · rename_i c hc
    split at h
    · split at h
      · rename_i v hv
        cases h
        refine ⟨?_, fun _ => parseV4Val_no_colon cs v hv, fun h => by cases h⟩
        have := parseV4Val_lt cs v hv
        unfold mapped4; omega
      · cases h
    · split at h
      · rename_i hcol
        split at h
        · cases h
        · split at h
          · rename_i v hv
            cases h
            refine ⟨parseV6Val_lt cs _ hv, (fun h => by cases h), fun _ => ?_⟩
            have := firstSpecial_mem cs c hc
            rw [hcol] at this; exact this
          · cases h
      · cases h

theorem netipParsePrefix_spec (cs : List Char) (p : Prefix) (h : netipParsePrefix cs = some p) :
    ∃ a b, splitLast '/' cs = some (a, b) ∧ parseAddrText a = some (p.is4, p.addr) ∧
      decField? b (if p.is4 then 32 else 128) = some p.bits := by
  unfold netipParsePrefix at h
  split at h
  · cases h
  · rename_i a b hs
    split at h
    · cases h
    · rename_i is4 addr ha
      split at h
      · rename_i bits hb
        cases h
        exact ⟨a, b, hs, ha, hb⟩
      · cases h

theorem netipParsePrefix_wf (cs : List Char) (p : Prefix) (h : netipParsePrefix cs = some p) : p.WF := by
  obtain ⟨a, b, _, ha, hb⟩ := netipParsePrefix_spec cs p h
  have h1 := (parseAddrText_spec a p.is4 p.addr ha).1
  have h2 := decField?_le _ _ _ hb
  refine ⟨h1, ?_⟩
  cases h4 : p.is4 <;> simp [h4] at h2 ⊢ <;> exact h2

theorem mem_of_mapM_some {α β} (f : α → Option β) : ∀ (l : List α) (r : List β), l.mapM f = some r →
    ∀ y ∈ r, ∃ x ∈ l, f x = some y := by
  intro l
  induction l with
  | nil => intro r h y hy; simp at h; subst h; simp at hy
  | cons x xs ih =>
    intro r h y hy
    rw [List.mapM_cons] at h
    cases hx : f x with
    | none => simp [hx] at h
    | some y0 =>
      cases hxs : xs.mapM f with
      | none => simp [hx, hxs] at h
      | some ys =>
        simp [hx, hxs] at h
        subst h
        simp only [List.mem_cons] at hy
        rcases hy with rfl | hy
        · exact ⟨x, by simp, hx⟩
        · obtain ⟨x', hx', hf⟩ := ih ys hxs y hy
          exact ⟨x', by simp [hx'], hf⟩

/-! ### routing through shared slots -/

theorem routeViaSlots_eq_spec (tries : List (List Prefix)) :
    ∀ (zs : List (AddrRule × Nat)) (pk : AddrPkt) (fb : Nat),
      (∀ z ∈ zs, tries[z.2]? = some z.1.op.slotValues) →
      (∀ z ∈ zs, (trieMatch z.1.op.slotValues (z.1.target pk)) = z.1.listed pk) →
      routeViaSlots tries zs pk fb = some (routeSpec (zs.map Prod.fst) pk fb) := by
  intro zs
  induction zs with
  | nil => intro pk fb _ _; rfl
  | cons z zs ih =>
    intro pk fb hs hm
    obtain ⟨r, i⟩ := z
    have h1 : tries[i]? = some r.op.slotValues := hs (r, i) (by simp)
    have h2 : trieMatch r.op.slotValues (r.target pk) = r.listed pk := hm (r, i) (by simp)
    simp only [routeViaSlots, h1, h2, List.map_cons, routeSpec]
    split
    · rfl
    · exact ih pk fb (fun z hz => hs z (by simp [hz])) (fun z hz => hm z (by simp [hz]))

/-! ### parallel construction -/

theorem parallelFill_spec {α} (g : Nat → α) : ∀ (sched : List Nat) (init : List α),
    (parallelFill g sched init).length = init.length ∧
    ∀ j, (parallelFill g sched init)[j]? =
      if j ∈ sched ∧ j < init.length then some (g j) else init[j]? := by
  intro sched
  induction sched with
  | nil => intro init; simp [parallelFill]
  | cons i rest ih =>
    intro init
    have e : parallelFill g (i :: rest) init = parallelFill g rest (init.set i (g i)) := rfl
    rw [e]
    obtain ⟨hl, hj⟩ := ih (init.set i (g i))
    refine ⟨by simpa using hl, ?_⟩
    intro j
    rw [hj j]
    simp only [List.length_set, List.mem_cons]
    by_cases hjr : j ∈ rest
    · by_cases hlt : j < init.length
      · simp [hjr, hlt]
      · simp [hjr, hlt]
    · by_cases hji : j = i
      · subst hji
        by_cases hlt : j < init.length
        · simp [hjr, hlt]
        · simp [hjr, hlt]
      · have : i ≠ j := fun h => hji h.symm
        simp [hjr, hji, List.getElem?_set, this]

end DaeVerif.C12
