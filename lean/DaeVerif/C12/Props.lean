import DaeVerif.C12.Proofs
/-!
# C12 — property theorems

Only statements a reader should audit live here (namespace `DaeVerif.C12.Props`); helper lemmas
are in `Proofs.lean`.  Every theorem is followed by a non-vacuity `example`.
-/
namespace DaeVerif.C12.Props
open DaeVerif.C12

/-- **Headline.** The bit string `Prefix2bin128` produces for a prefix is a prefix of the probe's
128-bit string exactly when the prefix numerically contains the address (IPv4 in mapped form),
for every prefix length `0..32 / 0..128`. -/
theorem bin_prefix_iff_contains (p : Prefix) (a : Nat) (hp : p.WF) (ha : a < 2 ^ 128) :
    (prefix2bin p).isPrefixOf (addrBin a) = true ↔ contains p a := by
  have hn : p.len128 ≤ 128 := by
    unfold Prefix.len128; have := hp.2; split <;> simp_all <;> omega
  unfold prefix2bin addrBin
  rw [isPrefixOf_take_iff _ _ _ (by simp [natBits_length, hn])]
  rw [take_bits_eq_iff 128 p.len128 p.addr a hn hp.1 ha]
  unfold contains
  exact eq_comm

example : (⟨true, mapped4 0x0a000000, 8⟩ : Prefix).WF ∧ (mapped4 0x0a010203) < 2 ^ 128 := by
  unfold Prefix.WF mapped4; decide

/-- The userspace trie query (`HasPrefix` over the stored bit strings) matches exactly when some
prefix of the set contains the address. -/
theorem trie_matches_iff_contained (ps : List Prefix) (a : Nat) (hps : ∀ p ∈ ps, p.WF)
    (ha : a < 2 ^ 128) : trieMatch ps a = true ↔ ∃ p ∈ ps, contains p a := by
  unfold trieMatch hasPrefixSpec
  simp only [List.any_map, List.any_eq_true, Function.comp]
  constructor
  · rintro ⟨p, hp, h⟩; exact ⟨p, hp, (bin_prefix_iff_contains p a (hps p hp) ha).mp h⟩
  · rintro ⟨p, hp, h⟩; exact ⟨p, hp, (bin_prefix_iff_contains p a (hps p hp) ha).mpr h⟩

/-- The kernel keys written by `cidrToBpfLpmKey`, looked up under the LPM-trie contract, match
exactly when some prefix of the set contains the address. -/
theorem lpm_matches_iff_contained (ps : List Prefix) (a : Nat) (hps : ∀ p ∈ ps, p.WF)
    (ha : a < 2 ^ 128) : lpmLookup (ps.map cidrToKey) a = true ↔ ∃ p ∈ ps, contains p a := by
  unfold lpmLookup cidrToKey
  simp only [List.any_map, List.any_eq_true, Function.comp, beq_iff_eq]
  have key : ∀ p ∈ ps, ((natBits 128 p.addr).take p.len128 = (natBits 128 a).take p.len128 ↔
      contains p a) := by
    intro p hp
    have hn : p.len128 ≤ 128 := by
      unfold Prefix.len128; have := (hps p hp).2; split <;> simp_all <;> omega
    rw [take_bits_eq_iff 128 p.len128 p.addr a hn (hps p hp).1 ha]
    unfold contains; exact eq_comm
  constructor
  · rintro ⟨p, hp, h⟩; exact ⟨p, hp, (key p hp).mp h⟩
  · rintro ⟨p, hp, h⟩; exact ⟨p, hp, (key p hp).mpr h⟩

/-- Userspace trie and kernel keys describe the same set. -/
theorem kernel_userspace_same_set (ps : List Prefix) (a : Nat) (hps : ∀ p ∈ ps, p.WF)
    (ha : a < 2 ^ 128) : lpmLookup (ps.map cidrToKey) a = trieMatch ps a := by
  have h1 := lpm_matches_iff_contained ps a hps ha
  have h2 := trie_matches_iff_contained ps a hps ha
  rw [Bool.eq_iff_iff, h1, h2]

/-- Prefix length 0 is honoured: `::/0` contains every address and the trie says so. -/
theorem zero_length_matches_all (p : Prefix) (a : Nat) (hp : p.WF) (ha : a < 2 ^ 128)
    (h0 : p.len128 = 0) : contains p a ∧ trieMatch [p] a = true := by
  have hc : contains p a := by
    unfold contains; rw [h0]
    rw [Nat.div_eq_of_lt (by simpa using ha), Nat.div_eq_of_lt (by simpa using hp.1)]
  exact ⟨hc, (trie_matches_iff_contained [p] a (by simpa using hp) ha).mpr ⟨p, by simp, hc⟩⟩

example : (⟨false, 0, 0⟩ : Prefix).WF ∧ (⟨false, 0, 0⟩ : Prefix).len128 = 0 := by
  unfold Prefix.WF Prefix.len128; decide

/-- Host routes (`/32`, `/128`) match the one address only. -/
theorem host_route_exact (p : Prefix) (a : Nat) (h : p.len128 = 128) : contains p a ↔ a = p.addr := by
  unfold contains; rw [h]; simp

/-- IPv4 is treated as IPv4-mapped IPv6: an IPv4 prefix contains a mapped IPv4 address exactly when
it contains it as 32-bit numbers … -/
theorem ipv4_as_mapped (net bits x : Nat) (hb : bits ≤ 32) :
    contains ⟨true, mapped4 net, bits⟩ (mapped4 x) ↔ contains4 net bits x := by
  unfold contains contains4 Prefix.len128 mapped4
  simp only [if_true]
  have e : 128 - (bits + 96) = 32 - bits := by omega
  rw [e]
  have hpow : (2:Nat) ^ 32 = 2 ^ (32 - bits) * 2 ^ bits := by
    rw [← Nat.pow_add]; congr 1; omega
  have hd : ∀ y, (0xffff * 2 ^ 32 + y) / 2 ^ (32 - bits) = 0xffff * 2 ^ bits + y / 2 ^ (32 - bits) := by
    intro y
    rw [hpow, ← Nat.mul_assoc, Nat.mul_comm (0xffff) (2 ^ (32 - bits)), Nat.mul_assoc,
      Nat.mul_add_div (Nat.two_pow_pos _)]
  rw [hd, hd]
  omega

/-- … and never contains an address outside `::ffff:0:0/96`. -/
theorem ipv4_prefix_excludes_non_mapped (net bits a : Nat) (hb : bits ≤ 32) (hnet : net < 2 ^ 32)
    (ha : a / 2 ^ 32 ≠ 0xffff) : ¬ contains ⟨true, mapped4 net, bits⟩ a := by
  unfold contains Prefix.len128 mapped4
  simp only [if_true]
  intro h
  apply ha
  have e : 128 - (bits + 96) = 32 - bits := by omega
  rw [e] at h
  have hpow : (2:Nat) ^ 32 = 2 ^ (32 - bits) * 2 ^ bits := by
    rw [← Nat.pow_add]; congr 1; omega
  have h2 := congrArg (· / 2 ^ bits) h
  simp only [Nat.div_div_eq_div_mul, ← hpow] at h2
  rw [h2, Nat.mul_comm, Nat.mul_add_div (by decide), Nat.div_eq_of_lt hnet]

/-- `canonicalizePrefixes` keeps exactly the same prefixes (as a set) … -/
theorem canonicalize_same_members (ps : List Prefix) (p : Prefix) : p ∈ canonicalize ps ↔ p ∈ ps :=
  mem_canonicalize p ps

/-- … hence describes the same address set. -/
theorem canonicalize_same_set (ps : List Prefix) (a : Nat) :
    trieMatch (canonicalize ps) a = trieMatch ps a := by
  unfold trieMatch hasPrefixSpec
  rw [Bool.eq_iff_iff]
  simp only [List.any_map, List.any_eq_true, Function.comp]
  constructor
  · rintro ⟨p, hp, h⟩; exact ⟨p, (mem_canonicalize p ps).mp hp, h⟩
  · rintro ⟨p, hp, h⟩; exact ⟨p, (mem_canonicalize p ps).mpr hp, h⟩

/-- The canonical form is canonical: two raw lists with the same members — in any order, with any
repetitions — have the SAME canonical list (strictly sorted by length, family, address), so they
hash alike and are recognised as the same set. -/
theorem canonicalize_canonical (xs ys : List Prefix) (h : ∀ p, p ∈ xs ↔ p ∈ ys) :
    canonicalize xs = canonicalize ys :=
  strictSorted_ext _ _ (strictSorted_canonicalize xs) (strictSorted_canonicalize ys)
    (fun p => by rw [mem_canonicalize, mem_canonicalize]; exact h p)

example : canonicalize [⟨true, mapped4 2, 32⟩, ⟨false, 5, 7⟩, ⟨true, mapped4 2, 32⟩, ⟨true, mapped4 1, 32⟩] =
    canonicalize [⟨true, mapped4 1, 32⟩, ⟨true, mapped4 2, 32⟩, ⟨false, 5, 7⟩] := by decide

/-- `0.0.0.0/0` is "every IPv4 address" (exactly the IPv4-mapped block), not "everything". -/
theorem v4_default_route (net a : Nat) (hnet : net < 2 ^ 32) (ha : a < 2 ^ 128) :
    (trieMatch [⟨true, mapped4 net, 0⟩] a = true ↔ a / 2 ^ 32 = 0xffff) := by
  have hwf : (⟨true, mapped4 net, 0⟩ : Prefix).WF := by
    unfold Prefix.WF mapped4; simp; omega
  rw [trie_matches_iff_contained _ a (by simpa using hwf) ha]
  simp only [List.mem_cons, List.not_mem_nil, or_false, exists_eq_left]
  unfold contains Prefix.len128 mapped4
  simp only [if_true]
  omega

/-- **Sharing.** Whatever the hash function (collisions included), after compiling any sequence of
IP/MAC sets the LPM slot assigned to the `i`-th set holds exactly that set's own canonical prefix
list: two rule sets share a slot only when their canonical lists are identical. -/
theorem share_only_if_equal (hash : List Prefix → Nat) (sets : List (List Prefix)) (i : Nat)
    (hi : i < sets.length) :
    let r := Builder.addAll hash Builder.empty sets
    ∃ hj : i < r.2.length, r.1.tries[r.2[i]]? = some (canonicalize sets[i]) := by
  intro r
  obtain ⟨hlen, _, hall⟩ := Builder.addAll_spec hash sets Builder.empty Builder.inv_empty
  exact ⟨by rw [hlen]; exact hi, (hall i hi (by rw [hlen]; exact hi)).1⟩

theorem shared_slots_equal_sets (hash : List Prefix → Nat) (sets : List (List Prefix)) (i j : Nat)
    (hi : i < sets.length) (hj : j < sets.length) :
    let r := Builder.addAll hash Builder.empty sets
    ∀ (hi' : i < r.2.length) (hj' : j < r.2.length), r.2[i] = r.2[j] →
      canonicalize sets[i] = canonicalize sets[j] := by
  intro r hi' hj' heq
  obtain ⟨_, h1⟩ := share_only_if_equal hash sets i hi
  obtain ⟨_, h2⟩ := share_only_if_equal hash sets j hj
  have h1' : r.1.tries[r.2[i]]? = some (canonicalize sets[i]) := h1
  have h2' : r.1.tries[r.2[j]]? = some (canonicalize sets[j]) := h2
  rw [heq] at h1'
  rw [h1'] at h2'
  exact Option.some.inj h2'

/-- **All three producers of LPM slots** (`addIp`, `addSourceIp`: canonicalised and shared through
`lpmDedup`; `addSourceMac`: MACs as host routes in the 16-byte form, zero MAC appended for a negated
rule, never shared): after any sequence of them, whatever the hash function, the slot assigned to the
`i`-th operation holds exactly that operation's own list. -/
theorem slots_hold_own_set (hash : List Prefix → Nat) (ops : List SetOp) (i : Nat) (hi : i < ops.length) :
    let r := Builder.addOps hash Builder.empty ops
    ∃ hj : i < r.2.length, r.1.tries[r.2[i]]? = some (ops[i]).slotValues := by
  intro r
  obtain ⟨hlen, _, hall⟩ := Builder.addOps_spec hash ops Builder.empty Builder.inv_empty
  exact ⟨by rw [hlen]; exact hi, (hall i hi (by rw [hlen]; exact hi)).1⟩

/-- … hence the set a rule is matched against (userspace trie of its slot) is the set the rule lists:
for an IP rule the addresses its prefixes contain … -/
theorem slot_same_set_ip (hash : List Prefix → Nat) (ops : List SetOp) (i : Nat) (hi : i < ops.length)
    (raw : List Prefix) (hop : ops[i] = .ip raw) (a : Nat) :
    let r := Builder.addOps hash Builder.empty ops
    ∃ hj : i < r.2.length, ∃ vals, r.1.tries[r.2[i]]? = some vals ∧ trieMatch vals a = trieMatch raw a := by
  intro r
  obtain ⟨hj, h⟩ := slots_hold_own_set hash ops i hi
  refine ⟨hj, _, h, ?_⟩
  rw [hop]
  exact canonicalize_same_set raw a

/-- … and for a MAC rule exactly the listed MACs (plus the zero MAC when the rule is negated). -/
theorem mac_slot_exact (macs : List Nat) (neg : Bool) (a : Nat) (hm : ∀ m ∈ macs, m < 2 ^ 128)
    (ha : a < 2 ^ 128) :
    trieMatch (SetOp.mac macs neg).slotValues a = true ↔ (a ∈ macs ∨ (neg = true ∧ a = 0)) := by
  have hwf : ∀ p ∈ (SetOp.mac macs neg).slotValues, p.WF := by
    intro p hp
    simp only [SetOp.slotValues, List.mem_map] at hp
    obtain ⟨m, hm', rfl⟩ := hp
    refine ⟨?_, by simp [macPrefix128]⟩
    cases neg <;> simp at hm'
    · exact hm m hm'
    · rcases hm' with h | h
      · exact hm m h
      · subst h; simp [macPrefix128]
  rw [trie_matches_iff_contained _ a hwf ha]
  simp only [SetOp.slotValues, List.mem_map]
  constructor
  · rintro ⟨p, ⟨m, hm', rfl⟩, hc⟩
    have : a = m := (host_route_exact (macPrefix128 m) a (by simp [macPrefix128, Prefix.len128])).mp hc
    subst this
    cases neg <;> simp at hm'
    · exact Or.inl hm'
    · rcases hm' with h | h
      · exact Or.inl h
      · exact Or.inr ⟨rfl, h⟩
  · intro h
    refine ⟨macPrefix128 a, ⟨a, ?_, rfl⟩, (host_route_exact (macPrefix128 a) a (by simp [macPrefix128, Prefix.len128])).mpr rfl⟩
    rcases h with h | ⟨hn, h0⟩
    · cases neg <;> simp [h]
    · subst hn; subst h0; simp

/-- **DNS response `ip()` sets.** For every list of response rules `[!]ip(prefixes) -> accept|reject`
and every list of answer addresses, the matcher (one trie per rule, an answer address hits when the
trie holds one of its prefixes) decides as the first rule whose condition holds under CIDR
containment — every rule is judged against ITS OWN address set. -/
theorem dns_ip_rules_by_containment (rules : List DnsIpRule) (answers : List Nat)
    (hwf : ∀ r ∈ rules, ∀ p ∈ r.ps, p.WF) (ha : ∀ a ∈ answers, a < 2 ^ 128) :
    dnsIpMatch rules answers = dnsIpSpec rules answers := by
  induction rules with
  | nil => rfl
  | cons r rs ih =>
    have hr : ∀ p ∈ r.ps, p.WF := hwf r (by simp)
    have hcond : (answers.any fun a => trieMatch r.ps a) = decide (∃ a ∈ answers, ∃ p ∈ r.ps, contains p a) := by
      rw [Bool.eq_iff_iff, List.any_eq_true, decide_eq_true_iff]
      constructor
      · rintro ⟨a, haa, h⟩; exact ⟨a, haa, (trie_matches_iff_contained r.ps a hr (ha a haa)).mp h⟩
      · rintro ⟨a, haa, h⟩; exact ⟨a, haa, (trie_matches_iff_contained r.ps a hr (ha a haa)).mpr h⟩
    simp only [dnsIpMatch, dnsIpSpec, hcond]
    rw [ih (fun r' hr' => hwf r' (by simp [hr']))]

/-- non-vacuity: `ip(10.0.0.0/8) -> reject ; !ip(2001:db8::/32) -> reject`: 10.1.2.3 is rejected by the
first rule, 2001:db8::1 falls through both (accepted), 8.8.8.8 is rejected by the negated rule. -/
example : dnsIpMatch [⟨false, true, [⟨true, mapped4 0x0a000000, 8⟩]⟩, ⟨true, true, [⟨false, 0x20010db8 * 2 ^ 96, 32⟩]⟩]
      [mapped4 0x0a010203] = true ∧
    dnsIpMatch [⟨false, true, [⟨true, mapped4 0x0a000000, 8⟩]⟩, ⟨true, true, [⟨false, 0x20010db8 * 2 ^ 96, 32⟩]⟩]
      [0x20010db8 * 2 ^ 96 + 1] = false ∧
    dnsIpMatch [⟨false, true, [⟨true, mapped4 0x0a000000, 8⟩]⟩, ⟨true, true, [⟨false, 0x20010db8 * 2 ^ 96, 32⟩]⟩]
      [mapped4 0x08080808] = true := by decide

-- a colliding hash really exercises the collision branch: constant hash, two different sets
example : (Builder.addAll (fun _ => 7) Builder.empty
    [[⟨true, mapped4 1, 32⟩], [⟨true, mapped4 2, 32⟩], [⟨true, mapped4 1, 32⟩]]).2 = [0, 1, 2] := by decide

end DaeVerif.C12.Props
