import DaeVerif.C12.Proofs2
/-!
# C12 — property theorems

Only statements a reader should audit live here (namespace `DaeVerif.C12.Props`); helper lemmas
are in `Proofs.lean`.  Every theorem is followed by a non-vacuity `example`.
-/
namespace DaeVerif.C12.Props
open DaeVerif.C12

/-- **Headline.** The bit string `Prefix2bin128` produces for a prefix is a prefix of the probe's
128-bit string exactly when the prefix numerically contains the address (IPv4 in mapped form),
for every prefix length `0..32 / 0..128`. -/
theorem bin_prefix_iff_contains (p : Prefix) (a : Nat) (hp : p.WF) (ha : a < 2 ^ 128) :
    (prefix2bin p).isPrefixOf (addrBin a) = true ↔ contains p a := by
  have hn : p.len128 ≤ 128 := by
    unfold Prefix.len128; have := hp.2; split <;> simp_all <;> omega
  unfold prefix2bin addrBin
  rw [isPrefixOf_take_iff _ _ _ (by simp [natBits_length, hn])]
  rw [take_bits_eq_iff 128 p.len128 p.addr a hn hp.1 ha]
  unfold contains
  exact eq_comm

example : (⟨true, mapped4 0x0a000000, 8⟩ : Prefix).WF ∧ (mapped4 0x0a010203) < 2 ^ 128 := by
  unfold Prefix.WF mapped4; decide

/-- The userspace trie query (`HasPrefix` over the stored bit strings) matches exactly when some
prefix of the set contains the address. -/
theorem trie_matches_iff_contained (ps : List Prefix) (a : Nat) (hps : ∀ p ∈ ps, p.WF)
    (ha : a < 2 ^ 128) : trieMatch ps a = true ↔ ∃ p ∈ ps, contains p a := by
  unfold trieMatch hasPrefixSpec
  simp only [List.any_map, List.any_eq_true, Function.comp]
  constructor
  · rintro ⟨p, hp, h⟩; exact ⟨p, hp, (bin_prefix_iff_contains p a (hps p hp) ha).mp h⟩
  · rintro ⟨p, hp, h⟩; exact ⟨p, hp, (bin_prefix_iff_contains p a (hps p hp) ha).mpr h⟩

/-- The kernel keys written by `cidrToBpfLpmKey`, looked up under the LPM-trie contract, match
exactly when some prefix of the set contains the address. -/
theorem lpm_matches_iff_contained (ps : List Prefix) (a : Nat) (hps : ∀ p ∈ ps, p.WF)
    (ha : a < 2 ^ 128) : lpmLookup (ps.map cidrToKey) a = true ↔ ∃ p ∈ ps, contains p a := by
  unfold lpmLookup cidrToKey
  simp only [List.any_map, List.any_eq_true, Function.comp, beq_iff_eq]
  have key : ∀ p ∈ ps, ((natBits 128 p.addr).take p.len128 = (natBits 128 a).take p.len128 ↔
      contains p a) := by
    intro p hp
    have hn : p.len128 ≤ 128 := by
      unfold Prefix.len128; have := (hps p hp).2; split <;> simp_all <;> omega
    rw [take_bits_eq_iff 128 p.len128 p.addr a hn (hps p hp).1 ha]
    unfold contains; exact eq_comm
  constructor
  · rintro ⟨p, hp, h⟩; exact ⟨p, hp, (key p hp).mp h⟩
  · rintro ⟨p, hp, h⟩; exact ⟨p, hp, (key p hp).mpr h⟩

/-- Userspace trie and kernel keys describe the same set. -/
theorem kernel_userspace_same_set (ps : List Prefix) (a : Nat) (hps : ∀ p ∈ ps, p.WF)
    (ha : a < 2 ^ 128) : lpmLookup (ps.map cidrToKey) a = trieMatch ps a := by
  have h1 := lpm_matches_iff_contained ps a hps ha
  have h2 := trie_matches_iff_contained ps a hps ha
  rw [Bool.eq_iff_iff, h1, h2]

/-- Prefix length 0 is honoured: `::/0` contains every address and the trie says so. -/
theorem zero_length_matches_all (p : Prefix) (a : Nat) (hp : p.WF) (ha : a < 2 ^ 128)
    (h0 : p.len128 = 0) : contains p a ∧ trieMatch [p] a = true := by
  have hc : contains p a := by
    unfold contains; rw [h0]
    rw [Nat.div_eq_of_lt (by simpa using ha), Nat.div_eq_of_lt (by simpa using hp.1)]
  exact ⟨hc, (trie_matches_iff_contained [p] a (by simpa using hp) ha).mpr ⟨p, by simp, hc⟩⟩

example : (⟨false, 0, 0⟩ : Prefix).WF ∧ (⟨false, 0, 0⟩ : Prefix).len128 = 0 := by
  unfold Prefix.WF Prefix.len128; decide

/-- Host routes (`/32`, `/128`) match the one address only. -/
theorem host_route_exact (p : Prefix) (a : Nat) (h : p.len128 = 128) : contains p a ↔ a = p.addr := by
  unfold contains; rw [h]; simp

/-- IPv4 is treated as IPv4-mapped IPv6: an IPv4 prefix contains a mapped IPv4 address exactly when
it contains it as 32-bit numbers … -/
theorem ipv4_as_mapped (net bits x : Nat) (hb : bits ≤ 32) :
    contains ⟨true, mapped4 net, bits⟩ (mapped4 x) ↔ contains4 net bits x := by
  unfold contains contains4 Prefix.len128 mapped4
  simp only [if_true]
  have e : 128 - (bits + 96) = 32 - bits := by omega
  rw [e]
  have hpow : (2:Nat) ^ 32 = 2 ^ (32 - bits) * 2 ^ bits := by
    rw [← Nat.pow_add]; congr 1; omega
  have hd : ∀ y, (0xffff * 2 ^ 32 + y) / 2 ^ (32 - bits) = 0xffff * 2 ^ bits + y / 2 ^ (32 - bits) := by
    intro y
    rw [hpow, ← Nat.mul_assoc, Nat.mul_comm (0xffff) (2 ^ (32 - bits)), Nat.mul_assoc,
      Nat.mul_add_div (Nat.two_pow_pos _)]
  rw [hd, hd]
  omega

/-- … and never contains an address outside `::ffff:0:0/96`. -/
theorem ipv4_prefix_excludes_non_mapped (net bits a : Nat) (hb : bits ≤ 32) (hnet : net < 2 ^ 32)
    (ha : a / 2 ^ 32 ≠ 0xffff) : ¬ contains ⟨true, mapped4 net, bits⟩ a := by
  unfold contains Prefix.len128 mapped4
  simp only [if_true]
  intro h
  apply ha
  have e : 128 - (bits + 96) = 32 - bits := by omega
  rw [e] at h
  have hpow : (2:Nat) ^ 32 = 2 ^ (32 - bits) * 2 ^ bits := by
    rw [← Nat.pow_add]; congr 1; omega
  have h2 := congrArg (· / 2 ^ bits) h
  simp only [Nat.div_div_eq_div_mul, ← hpow] at h2
  rw [h2, Nat.mul_comm, Nat.mul_add_div (by decide), Nat.div_eq_of_lt hnet]

/-- `canonicalizePrefixes` keeps exactly the same prefixes (as a set) … -/
theorem canonicalize_same_members (ps : List Prefix) (p : Prefix) : p ∈ canonicalize ps ↔ p ∈ ps :=
  mem_canonicalize p ps

/-- … hence describes the same address set. -/
theorem canonicalize_same_set (ps : List Prefix) (a : Nat) :
    trieMatch (canonicalize ps) a = trieMatch ps a := by
  unfold trieMatch hasPrefixSpec
  rw [Bool.eq_iff_iff]
  simp only [List.any_map, List.any_eq_true, Function.comp]
  constructor
  · rintro ⟨p, hp, h⟩; exact ⟨p, (mem_canonicalize p ps).mp hp, h⟩
  · rintro ⟨p, hp, h⟩; exact ⟨p, (mem_canonicalize p ps).mpr hp, h⟩

/-- The canonical form is canonical: two raw lists with the same members — in any order, with any
repetitions — have the SAME canonical list (strictly sorted by length, family, address), so they
hash alike and are recognised as the same set. -/
theorem canonicalize_canonical (xs ys : List Prefix) (h : ∀ p, p ∈ xs ↔ p ∈ ys) :
    canonicalize xs = canonicalize ys :=
  strictSorted_ext _ _ (strictSorted_canonicalize xs) (strictSorted_canonicalize ys)
    (fun p => by rw [mem_canonicalize, mem_canonicalize]; exact h p)

example : canonicalize [⟨true, mapped4 2, 32⟩, ⟨false, 5, 7⟩, ⟨true, mapped4 2, 32⟩, ⟨true, mapped4 1, 32⟩] =
    canonicalize [⟨true, mapped4 1, 32⟩, ⟨true, mapped4 2, 32⟩, ⟨false, 5, 7⟩] := by decide

/-- `0.0.0.0/0` is "every IPv4 address" (exactly the IPv4-mapped block), not "everything". -/
theorem v4_default_route (net a : Nat) (hnet : net < 2 ^ 32) (ha : a < 2 ^ 128) :
    (trieMatch [⟨true, mapped4 net, 0⟩] a = true ↔ a / 2 ^ 32 = 0xffff) := by
  have hwf : (⟨true, mapped4 net, 0⟩ : Prefix).WF := by
    unfold Prefix.WF mapped4; simp; omega
  rw [trie_matches_iff_contained _ a (by simpa using hwf) ha]
  simp only [List.mem_cons, List.not_mem_nil, or_false, exists_eq_left]
  unfold contains Prefix.len128 mapped4
  simp only [if_true]
  omega

/-- **Sharing.** Whatever the hash function (collisions included), after compiling any sequence of
IP/MAC sets the LPM slot assigned to the `i`-th set holds exactly that set's own canonical prefix
list: two rule sets share a slot only when their canonical lists are identical. -/
theorem share_only_if_equal (hash : List Prefix → Nat) (sets : List (List Prefix)) (i : Nat)
    (hi : i < sets.length) :
    let r := Builder.addAll hash Builder.empty sets
    ∃ hj : i < r.2.length, r.1.tries[r.2[i]]? = some (canonicalize sets[i]) := by
  intro r
  obtain ⟨hlen, _, hall⟩ := Builder.addAll_spec hash sets Builder.empty Builder.inv_empty
  exact ⟨by rw [hlen]; exact hi, (hall i hi (by rw [hlen]; exact hi)).1⟩

theorem shared_slots_equal_sets (hash : List Prefix → Nat) (sets : List (List Prefix)) (i j : Nat)
    (hi : i < sets.length) (hj : j < sets.length) :
    let r := Builder.addAll hash Builder.empty sets
    ∀ (hi' : i < r.2.length) (hj' : j < r.2.length), r.2[i] = r.2[j] →
      canonicalize sets[i] = canonicalize sets[j] := by
  intro r hi' hj' heq
  obtain ⟨_, h1⟩ := share_only_if_equal hash sets i hi
  obtain ⟨_, h2⟩ := share_only_if_equal hash sets j hj
  have h1' : r.1.tries[r.2[i]]? = some (canonicalize sets[i]) := h1
  have h2' : r.1.tries[r.2[j]]? = some (canonicalize sets[j]) := h2
  rw [heq] at h1'
  rw [h1'] at h2'
  exact Option.some.inj h2'

/-- **All three producers of LPM slots** (`addIp`, `addSourceIp`: canonicalised and shared through
`lpmDedup`; `addSourceMac`: MACs as host routes in the 16-byte form, zero MAC appended for a negated
rule, never shared): after any sequence of them, whatever the hash function, the slot assigned to the
`i`-th operation holds exactly that operation's own list. -/
theorem slots_hold_own_set (hash : List Prefix → Nat) (ops : List SetOp) (i : Nat) (hi : i < ops.length) :
    let r := Builder.addOps hash Builder.empty ops
    ∃ hj : i < r.2.length, r.1.tries[r.2[i]]? = some (ops[i]).slotValues := by
  intro r
  obtain ⟨hlen, _, hall⟩ := Builder.addOps_spec hash ops Builder.empty Builder.inv_empty
  exact ⟨by rw [hlen]; exact hi, (hall i hi (by rw [hlen]; exact hi)).1⟩

/-- … hence the set a rule is matched against (userspace trie of its slot) is the set the rule lists:
for an IP rule the addresses its prefixes contain … -/
theorem slot_same_set_ip (hash : List Prefix → Nat) (ops : List SetOp) (i : Nat) (hi : i < ops.length)
    (raw : List Prefix) (hop : ops[i] = .ip raw) (a : Nat) :
    let r := Builder.addOps hash Builder.empty ops
    ∃ hj : i < r.2.length, ∃ vals, r.1.tries[r.2[i]]? = some vals ∧ trieMatch vals a = trieMatch raw a := by
  intro r
  obtain ⟨hj, h⟩ := slots_hold_own_set hash ops i hi
  refine ⟨hj, _, h, ?_⟩
  rw [hop]
  exact canonicalize_same_set raw a

/-- … and for a MAC rule exactly the listed MACs (plus the zero MAC when the rule is negated). -/
theorem mac_slot_exact (macs : List Nat) (neg : Bool) (a : Nat) (hm : ∀ m ∈ macs, m < 2 ^ 128)
    (ha : a < 2 ^ 128) :
    trieMatch (SetOp.mac macs neg).slotValues a = true ↔ (a ∈ macs ∨ (neg = true ∧ a = 0)) := by
  have hwf : ∀ p ∈ (SetOp.mac macs neg).slotValues, p.WF := by
    intro p hp
    simp only [SetOp.slotValues, List.mem_map] at hp
    obtain ⟨m, hm', rfl⟩ := hp
    refine ⟨?_, by simp [macPrefix128]⟩
    cases neg <;> simp at hm'
    · exact hm m hm'
    · rcases hm' with h | h
      · exact hm m h
      · subst h; simp [macPrefix128]
  rw [trie_matches_iff_contained _ a hwf ha]
  simp only [SetOp.slotValues, List.mem_map]
  constructor
  · rintro ⟨p, ⟨m, hm', rfl⟩, hc⟩
    have : a = m := (host_route_exact (macPrefix128 m) a (by simp [macPrefix128, Prefix.len128])).mp hc
    subst this
    cases neg <;> simp at hm'
    · exact Or.inl hm'
    · rcases hm' with h | h
      · exact Or.inl h
      · exact Or.inr ⟨rfl, h⟩
  · intro h
    refine ⟨macPrefix128 a, ⟨a, ?_, rfl⟩, (host_route_exact (macPrefix128 a) a (by simp [macPrefix128, Prefix.len128])).mpr rfl⟩
    rcases h with h | ⟨hn, h0⟩
    · cases neg <;> simp [h]
    · subst hn; subst h0; simp

/-- **DNS response `ip()` sets.** For every list of response rules `[!]ip(prefixes) -> accept|reject`
and every list of answer addresses, the matcher (one trie per rule, an answer address hits when the
trie holds one of its prefixes) decides as the first rule whose condition holds under CIDR
containment — every rule is judged against ITS OWN address set. -/
theorem dns_ip_rules_by_containment (rules : List DnsIpRule) (answers : List Nat)
    (hwf : ∀ r ∈ rules, ∀ p ∈ r.ps, p.WF) (ha : ∀ a ∈ answers, a < 2 ^ 128) :
    dnsIpMatch rules answers = dnsIpSpec rules answers := by
  induction rules with
  | nil => rfl
  | cons r rs ih =>
    have hr : ∀ p ∈ r.ps, p.WF := hwf r (by simp)
    have hcond : (answers.any fun a => trieMatch r.ps a) = decide (∃ a ∈ answers, ∃ p ∈ r.ps, contains p a) := by
      rw [Bool.eq_iff_iff, List.any_eq_true, decide_eq_true_iff]
      constructor
      · rintro ⟨a, haa, h⟩; exact ⟨a, haa, (trie_matches_iff_contained r.ps a hr (ha a haa)).mp h⟩
      · rintro ⟨a, haa, h⟩; exact ⟨a, haa, (trie_matches_iff_contained r.ps a hr (ha a haa)).mpr h⟩
    simp only [dnsIpMatch, dnsIpSpec, hcond]
    rw [ih (fun r' hr' => hwf r' (by simp [hr']))]

/-- non-vacuity: `ip(10.0.0.0/8) -> reject ; !ip(2001:db8::/32) -> reject`: 10.1.2.3 is rejected by the
first rule, 2001:db8::1 falls through both (accepted), 8.8.8.8 is rejected by the negated rule. -/
example : dnsIpMatch [⟨false, true, [⟨true, mapped4 0x0a000000, 8⟩]⟩, ⟨true, true, [⟨false, 0x20010db8 * 2 ^ 96, 32⟩]⟩]
      [mapped4 0x0a010203] = true ∧
    dnsIpMatch [⟨false, true, [⟨true, mapped4 0x0a000000, 8⟩]⟩, ⟨true, true, [⟨false, 0x20010db8 * 2 ^ 96, 32⟩]⟩]
      [0x20010db8 * 2 ^ 96 + 1] = false ∧
    dnsIpMatch [⟨false, true, [⟨true, mapped4 0x0a000000, 8⟩]⟩, ⟨true, true, [⟨false, 0x20010db8 * 2 ^ 96, 32⟩]⟩]
      [mapped4 0x08080808] = true := by decide

-- a colliding hash really exercises the collision branch: constant hash, two different sets
example : (Builder.addAll (fun _ => 7) Builder.empty
    [[⟨true, mapped4 1, 32⟩], [⟨true, mapped4 2, 32⟩], [⟨true, mapped4 1, 32⟩]]).2 = [0, 1, 2] := by decide

/-! ## Extensions: interval form, unions, host bits, text syntax, routing through shared slots,
parallel construction -/

/-- the network address of a prefix: host bits cleared (`Masked()`) -/
def netBase (p : Prefix) : Nat := p.addr / 2 ^ (128 - p.len128) * 2 ^ (128 - p.len128)

/-- **Interval form.** A prefix contains exactly the `2^(128-len)` addresses from its network address
upwards — the short specification the boundary probes are aimed at. -/
theorem contains_iff_in_range (p : Prefix) (a : Nat) :
    contains p a ↔ netBase p ≤ a ∧ a < netBase p + 2 ^ (128 - p.len128) := by
  unfold contains netBase
  exact div_eq_iff_range a _ _ (Nat.two_pow_pos _)

/-- The first and the last address of the block are inside, the neighbours just below and just above
are outside (for every length, `/0` and host routes included). -/
theorem first_last_inside_neighbours_outside (p : Prefix) :
    contains p (netBase p) ∧ contains p (netBase p + 2 ^ (128 - p.len128) - 1) ∧
    (0 < netBase p → ¬ contains p (netBase p - 1)) ∧ ¬ contains p (netBase p + 2 ^ (128 - p.len128)) := by
  have hpos : 0 < 2 ^ (128 - p.len128) := Nat.two_pow_pos _
  refine ⟨?_, ?_, ?_, ?_⟩ <;> rw [contains_iff_in_range] <;> omega

example : netBase ⟨true, mapped4 0x0a0102ff, 8⟩ = mapped4 0x0a000000 ∧
    (⟨true, mapped4 0x0a0102ff, 8⟩ : Prefix).len128 = 104 := by decide

/-- Host bits of a prefix written unmasked (`10.1.2.3/8`) are ignored, by the userspace bit string
and by the kernel key alike (neither is masked by the code). -/
theorem host_bits_ignored (p : Prefix) (a : Nat) (hp : p.WF) (ha : a < 2 ^ 128) :
    trieMatch [p] a = trieMatch [⟨p.is4, netBase p, p.bits⟩] a ∧
    lpmLookup [cidrToKey p] a = lpmLookup [cidrToKey ⟨p.is4, netBase p, p.bits⟩] a := by
  have hq : (⟨p.is4, netBase p, p.bits⟩ : Prefix).WF := by
    refine ⟨Nat.lt_of_le_of_lt (Nat.div_mul_le_self _ _) hp.1, hp.2⟩
  have hc : contains p a ↔ contains ⟨p.is4, netBase p, p.bits⟩ a := by
    have hl : (⟨p.is4, netBase p, p.bits⟩ : Prefix).len128 = p.len128 := rfl
    unfold contains
    rw [hl]
    show _ ↔ a / _ = netBase p / _
    unfold netBase
    rw [Nat.mul_div_cancel _ (Nat.two_pow_pos _)]
  have t1 := trie_matches_iff_contained [p] a (by simpa using hp) ha
  have t2 := trie_matches_iff_contained [⟨p.is4, netBase p, p.bits⟩] a (by simpa using hq) ha
  have l1 := lpm_matches_iff_contained [p] a (by simpa using hp) ha
  have l2 := lpm_matches_iff_contained [⟨p.is4, netBase p, p.bits⟩] a (by simpa using hq) ha
  simp only [List.mem_cons, List.not_mem_nil, or_false, exists_eq_left, List.map_cons, List.map_nil] at t1 t2 l1 l2
  constructor
  · rw [Bool.eq_iff_iff, t1, t2]; exact hc
  · rw [Bool.eq_iff_iff, l1, l2]; exact hc

/-- A set is the union of its parts (what merging `ip(A) -> X ; ip(B) -> X` into `ip(A, B) -> X`
relies on) … -/
theorem set_union (ps qs : List Prefix) (a : Nat) :
    trieMatch (ps ++ qs) a = (trieMatch ps a || trieMatch qs a) := by
  unfold trieMatch hasPrefixSpec
  rw [List.map_append, List.any_append]

/-- … and depends only on which prefixes are listed, not on their order or multiplicity. -/
theorem same_members_same_set (ps qs : List Prefix) (h : ∀ p, p ∈ ps ↔ p ∈ qs) (a : Nat) :
    trieMatch ps a = trieMatch qs a := by
  unfold trieMatch hasPrefixSpec
  rw [Bool.eq_iff_iff]
  simp only [List.any_map, List.any_eq_true, Function.comp]
  constructor
  · rintro ⟨p, hp, hm⟩; exact ⟨p, (h p).mp hp, hm⟩
  · rintro ⟨p, hp, hm⟩; exact ⟨p, (h p).mpr hp, hm⟩

/-- An IPv4 prefix `a.b.c.d/N` and its IPv4-mapped twin `::ffff:a.b.c.d/(N+96)` contain the same
addresses (but are different list entries: the sharing machine treats them as different sets, which
the property allows — see the example). -/
theorem mapped_twin_same_addresses (net bits a : Nat) :
    contains ⟨true, mapped4 net, bits⟩ a ↔ contains ⟨false, mapped4 net, bits + 96⟩ a := Iff.rfl

example : canonicalize [⟨true, mapped4 0x0a000000, 8⟩] ≠ canonicalize [⟨false, mapped4 0x0a000000, 104⟩] := by decide

/-! ### text of a set entry (`parsePrefixes`) -/

/-- Everything the text parser lets through is a well-formed prefix (16-byte value, length within
0..32 / 0..128): the hypothesis `WF` of the containment theorems holds for every set that comes from
configuration text. -/
theorem parsed_prefix_wf (cs : List Char) (p : Prefix) (h : parsePrefixText cs = some p) : p.WF := by
  unfold parsePrefixText at h
  split at h
  · exact netipParsePrefix_wf _ p h
  · split at h <;> exact netipParsePrefix_wf _ p h

/-- **A bare address is a host route**, whatever its spelling: a value without `/` that parses yields
`/32` for an IPv4 address and `/128` for an IPv6 one — in particular for IPv6 literals that embed a
dotted quad (`::ffff:1.2.3.4`, `64:ff9b::192.0.2.1`). -/
theorem bare_text_is_host_route (cs : List Char) (p : Prefix) (hs : '/' ∉ cs)
    (h : parsePrefixText cs = some p) : p.bits = if p.is4 then 32 else 128 := by
  unfold parsePrefixText at h
  have hc : cs.contains '/' = false := by
    simpa using hs
  rw [hc] at h
  simp only [Bool.false_eq_true, if_false] at h
  split at h
  · rename_i hcol
    have hmem : ':' ∈ cs := by simpa using hcol
    obtain ⟨a, b, hsp, ha, hb⟩ := netipParsePrefix_spec _ p h
    rw [splitLast_append '/' cs ['1', '2', '8'] (by decide)] at hsp
    cases hsp
    have h6 : p.is4 = false := by
      cases h4 : p.is4 with
      | false => rfl
      | true => exact absurd hmem ((parseAddrText_spec cs p.is4 p.addr ha).2.1 h4)
    rw [h6] at hb ⊢
    have : decField? ['1', '2', '8'] 128 = some 128 := by decide
    simp only [Bool.false_eq_true, if_false] at hb ⊢
    rw [this] at hb
    exact (Option.some.inj hb).symm
  · rename_i hcol
    have hmem : ':' ∉ cs := by simpa using hcol
    obtain ⟨a, b, hsp, ha, hb⟩ := netipParsePrefix_spec _ p h
    rw [splitLast_append '/' cs ['3', '2'] (by decide)] at hsp
    cases hsp
    have h4 : p.is4 = true := by
      cases h4 : p.is4 with
      | true => rfl
      | false => exact absurd ((parseAddrText_spec cs p.is4 p.addr ha).2.2 h4) hmem
    rw [h4] at hb ⊢
    have : decField? ['3', '2'] 32 = some 32 := by decide
    simp only [if_true] at hb ⊢
    rw [this] at hb
    exact (Option.some.inj hb).symm

example : parsePrefixText "::ffff:1.2.3.4".toList = some ⟨false, mapped4 0x01020304, 128⟩ ∧
    parsePrefixText "64:ff9b::192.0.2.1".toList = some ⟨false, 0x0064ff9b0000000000000000c0000201, 128⟩ ∧
    parsePrefixText "10.1.2.3".toList = some ⟨true, mapped4 0x0a010203, 32⟩ := by decide

/-- An explicit length is kept as written: `addr/len` yields the address of `addr` with exactly that
length, and only when the length fits the family. -/
theorem explicit_length_kept (a b : List Char) (p : Prefix) (hb : '/' ∉ b)
    (h : parsePrefixText (a ++ '/' :: b) = some p) :
    parseAddrText a = some (p.is4, p.addr) ∧ decField? b (if p.is4 then 32 else 128) = some p.bits := by
  unfold parsePrefixText at h
  have hc : (a ++ '/' :: b).contains '/' = true := by simp
  rw [hc] at h
  simp only [if_true] at h
  obtain ⟨a', b', hsp, ha, hb'⟩ := netipParsePrefix_spec _ p h
  rw [splitLast_append '/' a b hb] at hsp
  cases hsp
  exact ⟨ha, hb'⟩

example : parsePrefixText "10.1.2.3/8".toList = some ⟨true, mapped4 0x0a010203, 8⟩ ∧
    parsePrefixText "10.0.0.0/33".toList = none ∧ parsePrefixText "::/0".toList = some ⟨false, 0, 0⟩ ∧
    parsePrefixText "::1/129".toList = none ∧ parsePrefixText "1.2.3.4/08".toList = none := by decide

/-- **From text to set.** A set written as text — every entry accepted by the parser — matches, in
the userspace trie and in kernel key form, exactly the addresses some entry contains; no
well-formedness side condition is left. -/
theorem text_set_by_containment (texts : List (List Char)) (ps : List Prefix)
    (h : texts.mapM parsePrefixText = some ps) (a : Nat) (ha : a < 2 ^ 128) :
    (trieMatch ps a = true ↔ ∃ p ∈ ps, contains p a) ∧
    (lpmLookup (ps.map cidrToKey) a = true ↔ ∃ p ∈ ps, contains p a) := by
  have hwf : ∀ p ∈ ps, p.WF := by
    intro p hp
    obtain ⟨t, _, ht⟩ := mem_of_mapM_some parsePrefixText texts ps h p hp
    exact parsed_prefix_wf t p ht
  exact ⟨trie_matches_iff_contained ps a hwf ha, lpm_matches_iff_contained ps a hwf ha⟩

/-! ### routing: address-set rules through the shared slot table -/

/-- **End to end.** For every list of single-condition rules `[!]dip(..) | [!]sip(..) | [!]mac(..) ->
out`, compiled by the builder WITH slot sharing under ANY hash function (collisions included), the
matcher — which reads, for rule `k`, the slot whose index the builder wrote — never hits a missing slot
and returns the outbound of the first rule whose condition holds under CIDR containment on the rule's
OWN listed set (destination address for `dip`, source address for `sip`, source MAC for `mac`; a negated
`mac` rule never applies to the zero MAC). -/
theorem route_with_sharing_by_containment (hash : List Prefix → Nat) (rules : List AddrRule) (pk : AddrPkt)
    (fb : Nat) (hwf : ∀ r ∈ rules, (∀ p ∈ r.raw, p.WF) ∧ (∀ m ∈ r.macs, m < 2 ^ 128))
    (hs : pk.src < 2 ^ 128) (hd : pk.dst < 2 ^ 128) (hm : pk.mac < 2 ^ 128) :
    routeCompiled hash rules pk fb = some (routeSpec rules pk fb) := by
  unfold routeCompiled
  simp only
  obtain ⟨hlen, _, hall⟩ := Builder.addOps_spec hash (rules.map AddrRule.op) Builder.empty Builder.inv_empty
  have hlen' : (Builder.addOps hash Builder.empty (rules.map AddrRule.op)).2.length = rules.length := by
    rw [hlen, List.length_map]
  rw [routeViaSlots_eq_spec]
  · rw [List.map_fst_zip (by omega)]
  · intro z hz
    obtain ⟨k, hk, hzk⟩ := List.mem_iff_getElem.mp hz
    rw [List.length_zip, hlen', Nat.min_self] at hk
    rw [List.getElem_zip] at hzk
    subst hzk
    have := (hall k (by rw [List.length_map]; exact hk) (by rw [hlen']; exact hk)).1
    simpa using this
  · intro z hz
    have hzr : z.1 ∈ rules := (List.of_mem_zip hz).1
    obtain ⟨hp, hmac⟩ := hwf z.1 hzr
    have htgt : z.1.target pk < 2 ^ 128 := by
      unfold AddrRule.target; cases z.1.kind <;> assumption
    cases hk : z.1.kind with
    | mac =>
      have e1 : z.1.op = .mac z.1.macs z.1.neg := by simp [AddrRule.op, hk]
      have e2 : z.1.target pk = pk.mac := by simp [AddrRule.target, hk]
      rw [e1, e2]
      rw [Bool.eq_iff_iff, mac_slot_exact z.1.macs z.1.neg pk.mac hmac hm]
      simp [AddrRule.listed, hk]
    | dip =>
      have e1 : z.1.op = .ip z.1.raw := by simp [AddrRule.op, hk]
      rw [e1]
      show trieMatch (canonicalize z.1.raw) _ = _
      rw [canonicalize_same_set, Bool.eq_iff_iff, trie_matches_iff_contained _ _ hp htgt]
      simp [AddrRule.listed, hk]
    | sip =>
      have e1 : z.1.op = .ip z.1.raw := by simp [AddrRule.op, hk]
      rw [e1]
      show trieMatch (canonicalize z.1.raw) _ = _
      rw [canonicalize_same_set, Bool.eq_iff_iff, trie_matches_iff_contained _ _ hp htgt]
      simp [AddrRule.listed, hk]

/-- non-vacuity: under a constant (always colliding) hash, `dip(10/8) -> 2 ; !sip(11/8) -> 1 ;
mac(00:11:22:33:44:55) -> 3`, fallback 7. -/
example :
    let rules : List AddrRule := [⟨.dip, false, 2, [⟨true, mapped4 0x0a000000, 8⟩], []⟩,
      ⟨.sip, true, 1, [⟨true, mapped4 0x0b000000, 8⟩], []⟩, ⟨.mac, false, 3, [], [0x001122334455]⟩]
    routeCompiled (fun _ => 7) rules ⟨mapped4 0x0b000001, mapped4 0x0a000001, 0⟩ 7 = some 2 ∧
    routeCompiled (fun _ => 7) rules ⟨mapped4 0x0b000001, mapped4 0x0c000001, 0⟩ 7 = some 7 ∧
    routeCompiled (fun _ => 7) rules ⟨mapped4 0x0c000001, mapped4 0x0c000001, 0⟩ 7 = some 1 ∧
    routeCompiled (fun _ => 7) rules ⟨mapped4 0x0b000001, mapped4 0x0c000001, 0x001122334455⟩ 7 = some 3 := by
  decide

/-! ### parallel construction -/

/-- **Every interleaving.** The per-slot workers of the parallel build paths may finish in any order
(`sched` = any sequence in which every slot occurs, repetitions allowed): the resulting table is the one
the serial loop produces — slot `j` holds `g j`. -/
theorem parallel_build_order_independent {α} (g : Nat → α) (n : Nat) (sched : List Nat) (init : List α)
    (hinit : init.length = n) (hall : ∀ j, j < n → j ∈ sched) :
    parallelFill g sched init = (List.range n).map g := by
  obtain ⟨hl, hj⟩ := parallelFill_spec g sched init
  apply List.ext_getElem?
  intro j
  rw [hj j]
  by_cases hlt : j < n
  · simp [hall j hlt, hinit, hlt]
  · have h1 : ¬ (j ∈ sched ∧ j < init.length) := by omega
    simp only [h1, if_false]
    rw [List.getElem?_eq_none (by omega), List.getElem?_eq_none (by simp; omega)]

example : parallelFill (fun i => i * i) [2, 0, 3, 1] [0, 0, 0, 0] = [0, 1, 4, 9] ∧
    parallelFill (fun i => i * i) [1, 3, 0, 2] [0, 0, 0, 0] = [0, 1, 4, 9] := by decide

end DaeVerif.C12.Props
