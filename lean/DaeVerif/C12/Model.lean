/-!
# C12 — address sets: model of `pkg/trie.Prefix2bin128`, the trie query contract,
`control.cidrToBpfLpmKey`, `canonicalizePrefixes` and the LPM-set sharing of
`RoutingMatcherBuilder.addIp/addSourceIp/addSourceMac`.

Core-only (no Mathlib) so that the line-protocol driver links as a `lean_exe`.
-/
namespace DaeVerif.C12

/-- `netip.Prefix` as the Go code sees it: `is4` = `Addr().Is4()`, `addr` = the big-endian value
of `Addr().As16()` (so an IPv4 address `a.b.c.d` is `0xffff_0000_0000 + a.b.c.d`), `bits` =
`Bits()`. -/
structure Prefix where
  is4 : Bool
  addr : Nat
  bits : Nat
deriving DecidableEq, Repr, Inhabited

/-- Prefix length counted in the 128-bit IPv4-mapped space (`n += 96` for IPv4). -/
def Prefix.len128 (p : Prefix) : Nat := if p.is4 then p.bits + 96 else p.bits

/-- What `netip` guarantees of a valid prefix. -/
def Prefix.WF (p : Prefix) : Prop :=
  p.addr < 2 ^ 128 ∧ (if p.is4 then p.bits ≤ 32 else p.bits ≤ 128)

/-- The bits of a `w`-bit number, most significant first (the order in which the Go loop walks
`ip[i] >> j` for `i = 0..15`, `j = 7..0`). -/
def natBits (w x : Nat) : List Bool := (List.range w).map fun i => x.testBit (w - 1 - i)

/-- `Prefix2bin128` of a host address (`PrefixFrom(AddrFrom16(a), 128)`), as a list of bits. -/
def addrBin (a : Nat) : List Bool := natBits 128 a

/-- `Prefix2bin128`: the first `len128` bits of the 16-byte form (after the `fix:` commit that
returns the empty string for length 0; the loop `emit; n--; if n == 0 break` emits exactly `n`
bits for `1 ≤ n ≤ 128`). -/
def prefix2bin (p : Prefix) : List Bool := (natBits 128 p.addr).take p.len128

/-- Contract of `Trie.HasPrefix` (`NewTrie(keys)`): some stored key is a prefix of the word. -/
def hasPrefixSpec (keys : List (List Bool)) (w : List Bool) : Bool := keys.any fun k => k.isPrefixOf w

/-- Userspace set membership as `RoutingMatcher.Match` computes it. -/
def trieMatch (ps : List Prefix) (a : Nat) : Bool := hasPrefixSpec (ps.map prefix2bin) (addrBin a)

/-- `_bpfLpmKey`: prefix length and the 16 data bytes (as their big-endian value: the Go side copies
the bytes verbatim, `Ipv6ByteSliceToUint32Array` is byte preserving). -/
structure LpmKey where
  prefixLen : Nat
  data : Nat
deriving DecidableEq, Repr

/-- `cidrToBpfLpmKey`. -/
def cidrToKey (p : Prefix) : LpmKey := ⟨p.len128, p.addr⟩

/-- Kernel LPM-trie lookup contract (trusted): a stored key matches a probe when the first
`prefixLen` bits of their data agree. The probe is a host key (prefix length 128). -/
def lpmLookup (stored : List LpmKey) (a : Nat) : Bool :=
  stored.any fun k => (natBits 128 k.data).take k.prefixLen == (natBits 128 a).take k.prefixLen

/-- The documented meaning: CIDR containment, numerically, in the IPv4-mapped 128-bit space. -/
def contains (p : Prefix) (a : Nat) : Prop :=
  a / 2 ^ (128 - p.len128) = p.addr / 2 ^ (128 - p.len128)

instance (p : Prefix) (a : Nat) : Decidable (contains p a) := by unfold contains; infer_instance

/-- The same for IPv4 numbers (32-bit) — used to state "IPv4 is treated as IPv4-mapped". -/
def contains4 (net bits a : Nat) : Prop := a / 2 ^ (32 - bits) = net / 2 ^ (32 - bits)

def mapped4 (a : Nat) : Nat := 0xffff * 2 ^ 32 + a

/-! ## canonicalizePrefixes -/

/-- Sort order of `canonicalizePrefixes`: by `Bits()`, then `Addr().Less` (IPv4 before IPv6,
then numerically). -/
def prefixLe (a b : Prefix) : Bool :=
  if a.bits != b.bits then a.bits < b.bits
  else if a.is4 != b.is4 then a.is4
  else a.addr ≤ b.addr

/-- Drop adjacent duplicates (the `deduped` loop). -/
def dedupAdj : List Prefix → List Prefix
  | [] => []
  | [a] => [a]
  | a :: b :: rest => if a = b then dedupAdj (b :: rest) else a :: dedupAdj (b :: rest)

/-- Insertion sort stands in for `sort.Slice` (any sort produces the same list up to the order of
equal elements, and equal elements are then deduplicated). -/
def insertSorted (x : Prefix) : List Prefix → List Prefix
  | [] => [x]
  | y :: ys => if prefixLe x y then x :: y :: ys else y :: insertSorted x ys

def sortPrefixes (ps : List Prefix) : List Prefix := ps.foldr insertSorted []

def canonicalize (ps : List Prefix) : List Prefix := dedupAdj (sortPrefixes ps)

/-! ## LPM set sharing (`lpmDedup`) -/

structure DedupEntry where
  index : Nat
  prefixes : List Prefix

structure Builder where
  tries : List (List Prefix)                -- simulatedLpmTries
  dedup : List (Nat × DedupEntry)           -- lpmDedup : map[uint64]lpmDedupEntry (assoc list, first hit wins)

def Builder.empty : Builder := ⟨[], []⟩

def lookupHash (h : Nat) : List (Nat × DedupEntry) → Option DedupEntry
  | [] => none
  | (k, e) :: rest => if k = h then some e else lookupHash h rest

/-- One `addIp`: returns the new builder and the LPM index written into the match set.
`hash` is an arbitrary function (the FNV hash of the real code): nothing below depends on it. -/
def Builder.addSet (hash : List Prefix → Nat) (b : Builder) (raw : List Prefix) : Builder × Nat :=
  let values := canonicalize raw
  let h := hash values
  match lookupHash h b.dedup with
  | some e =>
    if e.prefixes = values then (b, e.index)
    else
      let idx := b.tries.length
      (⟨b.tries ++ [values], (h, ⟨idx, values⟩) :: b.dedup⟩, idx)
  | none =>
    let idx := b.tries.length
    (⟨b.tries ++ [values], (h, ⟨idx, values⟩) :: b.dedup⟩, idx)

/-- A whole build: the list of raw sets in rule order; returns the final builder and the index
assigned to each. -/
def Builder.addAll (hash : List Prefix → Nat) : Builder → List (List Prefix) → Builder × List Nat
  | b, [] => (b, [])
  | b, s :: ss =>
    let (b1, i) := b.addSet hash s
    let (b2, is) := Builder.addAll hash b1 ss
    (b2, i :: is)

/-! ### the three producers of LPM slots: `addIp` / `addSourceIp` (shared through `lpmDedup`) and
`addSourceMac` (never shared) -/

/-- `addSourceMac`'s 16-byte form of a MAC (bytes 10..15) as a host route. -/
def macPrefix128 (m : Nat) : Prefix := ⟨false, m, 128⟩

inductive SetOp where
  | ip (raw : List Prefix)                  -- addIp / addSourceIp
  | mac (macs : List Nat) (neg : Bool)      -- addSourceMac; `neg` = `f.Not`

/-- What the slot assigned to an operation has to hold. -/
def SetOp.slotValues : SetOp → List Prefix
  | .ip raw => canonicalize raw
  | .mac macs neg => (if neg then macs ++ [0] else macs).map macPrefix128   -- zero MAC appended when negated

def Builder.addOp (hash : List Prefix → Nat) (b : Builder) : SetOp → Builder × Nat
  | .ip raw => b.addSet hash raw
  | .mac macs neg => (⟨b.tries ++ [(SetOp.mac macs neg).slotValues], b.dedup⟩, b.tries.length)

def Builder.addOps (hash : List Prefix → Nat) : Builder → List SetOp → Builder × List Nat
  | b, [] => (b, [])
  | b, s :: ss =>
    let (b1, i) := b.addOp hash s
    let (b2, is) := Builder.addOps hash b1 ss
    (b2, i :: is)

/-- FNV-1a over (bits, address bytes) exactly as `hashLpmSet` (64-bit wrap-around). Used only by the
driver so the sharing decisions can be compared index by index. -/
def fnvStep (h x : Nat) : Nat := ((h ^^^ x) * 1099511628211) % 2 ^ 64

def addrBytes (p : Prefix) : List Nat :=
  if p.is4 then (List.range 4).map fun i => (p.addr / 2 ^ (8 * (3 - i))) % 256
  else (List.range 16).map fun i => (p.addr / 2 ^ (8 * (15 - i))) % 256

def hashLpmSet (ps : List Prefix) : Nat :=
  ps.foldl (fun h p => (addrBytes p).foldl fnvStep (fnvStep h p.bits)) 14695981039346656037

/-! ## DNS response routing: `ip(...)` rules (`component/dns/response_routing.go`) -/

/-- One single-condition response rule `[!]ip(prefixes) -> accept|reject`. -/
structure DnsIpRule where
  neg : Bool
  reject : Bool
  ps : List Prefix

/-- `ResponseMatcher.Match` restricted to such rules: each rule owns one trie (`ipSet[Value]`), the rule
hits when some answer address has a stored prefix (`slices.ContainsFunc(bin128, trie.HasPrefix)`),
negation flips the hit, the first rule that holds decides, the fallback is `accept`.
`true` = reject. -/
def dnsIpMatch (rules : List DnsIpRule) (answers : List Nat) : Bool :=
  match rules with
  | [] => false
  | r :: rs => if (answers.any fun a => trieMatch r.ps a) != r.neg then r.reject else dnsIpMatch rs answers

/-- The specification: first rule, top to bottom, whose condition holds, where `ip(ps)` holds iff some
answer address is contained in some listed prefix. -/
def dnsIpSpec (rules : List DnsIpRule) (answers : List Nat) : Bool :=
  match rules with
  | [] => false
  | r :: rs =>
    if (decide (∃ a ∈ answers, ∃ p ∈ r.ps, contains p a)) != r.neg then r.reject else dnsIpSpec rs answers

/-! ## Traffic routing: address-set rules through the shared slot table
(`control/routing_matcher_userspace.go` `RoutingMatcher.Match`, address-set branch) -/

inductive SetKind where
  | dip | sip | mac
deriving DecidableEq, Repr

/-- One single-condition routing rule `[!]dip(..)|sip(..)|mac(..) -> out`. -/
structure AddrRule where
  kind : SetKind
  neg : Bool
  out : Nat
  raw : List Prefix      -- dip / sip: the listed prefixes
  macs : List Nat        -- mac: the listed MACs (value of the 16-byte form, bytes 10..15)

/-- what the builder is asked to store for the rule -/
def AddrRule.op (r : AddrRule) : SetOp :=
  match r.kind with
  | .mac => .mac r.macs r.neg
  | _ => .ip r.raw

structure AddrPkt where
  src : Nat
  dst : Nat
  mac : Nat

/-- `Match` hands the destination address to `ip`/`dip` sets, the source address to `sip` sets and
the source MAC (16-byte form) to `mac` sets. -/
def AddrRule.target (r : AddrRule) (pk : AddrPkt) : Nat :=
  match r.kind with
  | .dip => pk.dst
  | .sip => pk.src
  | .mac => pk.mac

/-- `RoutingMatcher.Match` on such rules: rule `k` reads the LPM slot whose index the builder wrote
into its match set; a missing slot is the code's `bad lpm index` error (`none`). -/
def routeViaSlots (tries : List (List Prefix)) : List (AddrRule × Nat) → AddrPkt → Nat → Option Nat
  | [], _, fb => some fb
  | (r, i) :: rest, pk, fb =>
    match tries[i]? with
    | none => none
    | some set =>
      if (trieMatch set (r.target pk)) != r.neg then some r.out else routeViaSlots tries rest pk fb

/-- The documented meaning of one condition. `mac(..)` holds for the listed MACs; a negated MAC rule
additionally never applies to the zero MAC (traffic without a source MAC). -/
def AddrRule.listed (r : AddrRule) (pk : AddrPkt) : Bool :=
  match r.kind with
  | .mac => decide (pk.mac ∈ r.macs ∨ (r.neg = true ∧ pk.mac = 0))
  | _ => decide (∃ p ∈ r.raw, contains p (r.target pk))

/-- First rule, top to bottom, whose condition holds; otherwise the fallback. -/
def routeSpec : List AddrRule → AddrPkt → Nat → Nat
  | [], _, fb => fb
  | r :: rs, pk, fb => if (r.listed pk) != r.neg then r.out else routeSpec rs pk fb

/-- The whole pipeline of the model: compile the rules' sets with sharing, then match. -/
def routeCompiled (hash : List Prefix → Nat) (rules : List AddrRule) (pk : AddrPkt) (fb : Nat) : Option Nat :=
  let r := Builder.addOps hash Builder.empty (rules.map AddrRule.op)
  routeViaSlots r.1.tries (rules.zip r.2) pk fb

/-! ## Parallel construction (`BuildUserspace` with more than 4 sets, the key conversion of
`buildRoutingKernspace` with at least 4): one worker per slot, each writes its own index. -/

/-- The workers run in the order `sched`; worker `i` stores `g i` at index `i`. -/
def parallelFill {α} (g : Nat → α) (sched : List Nat) (init : List α) : List α :=
  sched.foldl (fun arr i => arr.set i (g i)) init

end DaeVerif.C12
