import DaeVerif.C12.Model
import DaeVerif.C12.Text
import DaeVerif.Common.Proto
/-! Line-protocol driver for C12 (see harness/overlay/control/c12_test.go for the op grammar). -/
open DaeVerif DaeVerif.C12 DaeVerif.Proto

/-- `4:0a000000/8` or `6:<32 hex>/64` -/
def parsePrefix? (tok : String) : Option Prefix := do
  match tok.splitOn "/" with
  | [l, b] =>
    let bits ← b.toNat?
    match l.splitOn ":" with
    | ["4", h] => let a ← hexToNat? h; pure ⟨true, mapped4 a, bits⟩
    | ["6", h] => let a ← hexToNat? h; pure ⟨false, a, bits⟩
    | _ => none
  | _ => none

def bitsStr (l : List Bool) : String := String.ofList (l.map fun b => if b then '1' else '0')

def prefixStr (p : Prefix) : String :=
  if p.is4 then s!"4:{bytesToHex (addrBytes p)}/{p.bits}" else s!"6:{bytesToHex (addrBytes p)}/{p.bits}"

def parseSets (toks : List String) : Option (List (List Prefix)) :=
  -- sets separated by "|"
  let groups := toks.foldr (fun t acc =>
    match acc with
    | [] => [[t]]  -- unreachable
    | g :: gs => if t = "|" then [] :: g :: gs else (t :: g) :: gs) [[]]
  groups.mapM (fun g => g.mapM parsePrefix?)

/-- a set is either prefixes (`addIp`/`addSourceIp`) or `mac0|mac1 <12 hex>*` (`addSourceMac`, 1 = negated rule) -/
def parseOps (toks : List String) : Option (List SetOp) :=
  let groups := toks.foldr (fun t acc =>
    match acc with
    | [] => [[t]]  -- unreachable
    | g :: gs => if t = "|" then [] :: g :: gs else (t :: g) :: gs) [[]]
  groups.mapM fun g =>
    match g with
    | "mac0" :: ms => (ms.mapM hexToNat?).map fun l => SetOp.mac l false
    | "mac1" :: ms => (ms.mapM hexToNat?).map fun l => SetOp.mac l true
    | _ => (g.mapM parsePrefix?).map SetOp.ip

/-- rules of the `route` op: header `D|S|M` + optional `!` + `:<out>`, then the rule's prefixes / MACs -/
def parseRules (toks : List String) : Option (List AddrRule) :=
  let groups := toks.foldl (fun (acc : List (String × List String)) t =>
    if t.startsWith "D" || t.startsWith "S" || t.startsWith "M" then acc ++ [(t, [])]
    else match acc.reverse with
      | (h, ps) :: before => before.reverse ++ [(h, ps ++ [t])]
      | [] => acc) []
  groups.mapM fun (h, vs) =>
    match h.splitOn ":" with
    | [k, o] =>
      match o.toNat? with
      | some out =>
        let neg := k.contains '!'
        if k.startsWith "M" then (vs.mapM hexToNat?).map fun ms => (⟨.mac, neg, out, [], ms⟩ : AddrRule)
        else
          let kind := if k.startsWith "S" then SetKind.sip else SetKind.dip
          (vs.mapM parsePrefix?).map fun ps => (⟨kind, neg, out, ps, []⟩ : AddrRule)
      | none => none
    | _ => none

def handle (line : String) : String :=
  match words line with
  | ["bin", tok] =>
    match parsePrefix? tok with
    | some p => "bin=" ++ bitsStr (prefix2bin p)
    | none => "bad-op"
  | "match" :: probe :: rest =>
    match hexToNat? probe, rest.mapM parsePrefix? with
    | some a, some ps =>
      let spec := decide (∃ p ∈ ps, contains p a)
      s!"trie={boolStr (trieMatch ps a)} lpm={boolStr (lpmLookup (ps.map cidrToKey) a)} spec={boolStr spec}"
    | _, _ => "bad-op"
  | "matchk" :: probe :: rest =>
    -- as `match`, plus the answer of the REAL kernel LPM trie (production keys, production newLpmMap)
    match hexToNat? probe, rest.mapM parsePrefix? with
    | some a, some ps =>
      let spec := decide (∃ p ∈ ps, contains p a)
      let l := lpmLookup (ps.map cidrToKey) a
      s!"trie={boolStr (trieMatch ps a)} lpm={boolStr l} spec={boolStr spec} kern={boolStr l}"
    | _, _ => "bad-op"
  | "ptxt" :: hs =>
    -- the text itself (hex of its bytes; nothing = the empty text), parsed by the model of
    -- parsePrefixes / netip.ParsePrefix
    match hexToBytes? (hs.headD "") with
    | some bs =>
      match parsePrefixText (bs.map Char.ofNat) with
      | some p => "pfx=" ++ prefixStr p
      | none => "err"
    | none => "bad-op"
  | "route" :: src :: dst :: mac :: fb :: rest =>
    match hexToNat? src, hexToNat? dst, hexToNat? mac, fb.toNat?, parseRules rest with
    | some s, some d, some m, some fb, some rules =>
      let pk : AddrPkt := ⟨s, d, m⟩
      match routeCompiled hashLpmSet rules pk fb with
      | some o => if o == routeSpec rules pk fb then s!"out={o}" else "SPEC-DIFFERS"
      | none => "bad-lpm-index"
    | _, _, _, _, _ => "bad-op"
  | "kcheck" :: _ => "ok"
  | "kfault" :: _ => "refused"
  | "regen" :: _ => "stable"
  | "conc" :: _ => "stable"
  | "key" :: [tok] =>
    match parsePrefix? tok with
    | some p => let k := cidrToKey p; s!"key={k.prefixLen}:{bytesToHex ((List.range 16).map fun i => (k.data / 2 ^ (8 * (15 - i))) % 256)}"
    | none => "bad-op"
  | ["ptext", tok] =>
    -- the generator's typed prefix is the meaning of the text it rendered; the real text parser must
    -- produce exactly it
    match parsePrefix? tok with
    | some p => "pfx=" ++ prefixStr p
    | none => "bad-op"
  | "dnsip" :: probes :: rest =>
    -- rules: `R[!](a|r)` followed by the rule's prefixes; `-` as probe list = "does the program build"
    let groups := rest.foldl (fun (acc : List (String × List String)) t =>
      if t.startsWith "R" then acc ++ [(t, [])]
      else match acc.reverse with
        | (h, ps) :: before => before.reverse ++ [(h, ps ++ [t])]
        | [] => acc) []
    let rules? := groups.mapM fun (h, ps) =>
      (ps.mapM parsePrefix?).map fun l => (⟨h.contains '!', h.endsWith "r", l⟩ : DnsIpRule)
    match rules? with
    | some rules =>
      if probes = "-" then "built" else
      match (probes.splitOn ",").mapM hexToNat? with
      | some as =>
        let m := dnsIpMatch rules as
        if m == dnsIpSpec rules as then (if m then "reject" else "accept") else "SPEC-DIFFERS"
      | none => "bad-op"
    | none => "bad-op"
  | ["dnswrap", _] => "sound"
  | "canon" :: rest =>
    match rest.mapM parsePrefix? with
    | some ps => "canon=" ++ " ".intercalate ((canonicalize ps).map prefixStr)
    | none => "bad-op"
  | "share" :: rest =>
    match parseOps rest with
    | some ops =>
      let r := Builder.addOps hashLpmSet Builder.empty ops
      "idx=" ++ ",".intercalate (r.2.map toString) ++ " tries=" ++ toString r.1.tries.length
    | none => "bad-op"
  | _ => "bad-op"

def main : IO Unit := lineLoop handle
