import DaeVerif.C12.Model
import DaeVerif.Common.Proto
/-!
# C12 — the text of an address-set entry: `component/routing.parsePrefixes`

`parsePrefixes` (component/routing/function_parser.go) turns each value of `ip(…)`, `dip(…)`,
`sip(…)` into a `netip.Prefix`:

* a value without `/` gets `/128` appended when it contains a `:` and `/32` otherwise,
* the result goes through `netip.ParsePrefix` (split at the LAST `/`, `ParseAddr` on the left, a
  plain decimal length without sign / leading zero on the right, length ≤ 32 / 128, zones refused).

The model below is executable (core-only): the driver parses the very text the real parser was given
and the two results are compared (`ptxt` ops).  `netip`'s own address syntax is modelled as it behaves
(dispatch on the first of `.`, `:`, `%`; dotted quad with four decimal octets without leading zeros;
IPv6 groups of 1–4 hex digits, one optional `::` standing for at least one zero group, an optional
dotted quad in the last position).
-/
namespace DaeVerif.C12
open DaeVerif.Proto

/-- split at every `sep` (never returns `[]`) -/
def splitOnChar (sep : Char) : List Char → List (List Char)
  | [] => [[]]
  | c :: cs =>
    match splitOnChar sep cs with
    | [] => [[]]
    | g :: gs => if c = sep then [] :: g :: gs else (c :: g) :: gs

/-- A decimal field as `netip` accepts it: digits only, no leading zero unless the field is `0`,
value at most `max` (octets: 255; prefix length: 32 / 128). -/
def decField? (cs : List Char) (max : Nat) : Option Nat :=
  match cs with
  | [] => none
  | c :: rest =>
    if !(cs.all Char.isDigit) then none
    else if c = '0' ∧ rest ≠ [] then none
    else
      let v := cs.foldl (fun a d => a * 10 + (d.toNat - 48)) 0
      if v ≤ max then some v else none

def isDigOrDot (c : Char) : Bool := c.isDigit || c == '.'

/-- `parseIPv4`: exactly four decimal octets. -/
def parseV4Val (cs : List Char) : Option Nat :=
  if !(cs.all isDigOrDot) then none
  else
    match splitOnChar '.' cs with
    | [a, b, c, d] =>
      match decField? a 255, decField? b 255, decField? c 255, decField? d 255 with
      | some a, some b, some c, some d => some (((a * 256 + b) * 256 + c) * 256 + d)
      | _, _, _, _ => none
    | _ => none

def hexAcc (acc : Option Nat) (c : Char) : Option Nat :=
  match acc, hexDigit? c with
  | some a, some d => some (a * 16 + d)
  | _, _ => none

/-- one IPv6 group: 1..4 hex digits -/
def hexGroup? (cs : List Char) : Option Nat :=
  if cs = [] ∨ 4 < cs.length then none else cs.foldl hexAcc (some 0)

/-- the text between single colons; empty text = no group at all -/
def v6Tokens (cs : List Char) : List (List Char) := if cs = [] then [] else splitOnChar ':' cs

/-- groups without a dotted quad (left of `::`) -/
def hexGroups : List (List Char) → Option (List Nat)
  | [] => some []
  | t :: ts =>
    match hexGroup? t, hexGroups ts with
    | some g, some r => some (g :: r)
    | _, _ => none

/-- groups whose LAST token may be a dotted quad (= two groups) -/
def v6Groups : List (List Char) → Option (List Nat)
  | [] => some []
  | [t] =>
    if t.contains '.' then
      match parseV4Val t with
      | some v => some [v / 65536, v % 65536]
      | none => none
    else
      match hexGroup? t with
      | some g => some [g]
      | none => none
  | t :: t2 :: ts =>
    match hexGroup? t, v6Groups (t2 :: ts) with
    | some g, some r => some (g :: r)
    | _, _ => none

/-- the first `::` -/
def findEllipsis : List Char → Option (List Char × List Char)
  | [] => none
  | c :: rest =>
    match c, rest with
    | ':', ':' :: r => some ([], r)
    | _, _ =>
      match findEllipsis rest with
      | some (l, r) => some (c :: l, r)
      | none => none

def groupsValue (g : List Nat) : Nat := g.foldl (fun a x => a * 65536 + x) 0

/-- `parseIPv6` (zone-free). -/
def parseV6Val (cs : List Char) : Option Nat :=
  match findEllipsis cs with
  | none =>
    match v6Groups (v6Tokens cs) with
    | some g => if g.length = 8 then some (groupsValue g) else none
    | none => none
  | some (l, r) =>
    match hexGroups (v6Tokens l), v6Groups (v6Tokens r) with
    | some gl, some gr =>
      if gl.length + gr.length ≤ 7 then
        some (groupsValue (gl ++ List.replicate (8 - (gl.length + gr.length)) 0 ++ gr))
      else none
    | _, _ => none

def isSpecial (c : Char) : Bool := c == '.' || c == ':' || c == '%'

/-- `ParseAddr` dispatches on the first of `.`, `:`, `%`. -/
def firstSpecial : List Char → Option Char
  | [] => none
  | c :: cs => if isSpecial c then some c else firstSpecial cs

/-- `netip.ParseAddr` as far as `ParsePrefix` lets it through (any zone is refused there):
`(is4, As16 value)`. -/
def parseAddrText (cs : List Char) : Option (Bool × Nat) :=
  match firstSpecial cs with
  | none => none
  | some c =>
    if c = '.' then
      match parseV4Val cs with
      | some v => some (true, mapped4 v)
      | none => none
    else if c = ':' then
      if cs.contains '%' then none
      else
        match parseV6Val cs with
        | some v => some (false, v)
        | none => none
    else none

/-- split at the LAST `sep` -/
def splitLast (sep : Char) (cs : List Char) : Option (List Char × List Char) :=
  match cs.reverse.dropWhile (· != sep) with
  | [] => none
  | _ :: a => some (a.reverse, (cs.reverse.takeWhile (· != sep)).reverse)

/-- `netip.ParsePrefix` -/
def netipParsePrefix (cs : List Char) : Option Prefix :=
  match splitLast '/' cs with
  | none => none
  | some (a, b) =>
    match parseAddrText a with
    | none => none
    | some (is4, addr) =>
      match decField? b (if is4 then 32 else 128) with
      | some bits => some ⟨is4, addr, bits⟩
      | none => none

/-- one value of `parsePrefixes` -/
def parsePrefixText (cs : List Char) : Option Prefix :=
  if cs.contains '/' then netipParsePrefix cs
  else if cs.contains ':' then netipParsePrefix (cs ++ ['/', '1', '2', '8'])
  else netipParsePrefix (cs ++ ['/', '3', '2'])

end DaeVerif.C12
