import DaeVerif.C16.Proofs
/-! # C16 — helper lemmas for the probe loop (`Model.cycleEvents`) -/
namespace DaeVerif.C16

/-- the three observable components of one health slot -/
def slotOf (nd : Node) (i : Nat) : Bool × Nat × Nat := (nd.alive i, nd.fail i, nd.tfail i)

theorem slotOf_of_slotU {nd nd' : Node} {i : Nat} (h : SlotU nd nd' i) : slotOf nd' i = slotOf nd i := by
  obtain ⟨a, b, c⟩ := h; simp [slotOf, a, b, c]

/-- the events of a list of probes of node `n` -/
def probeEvents (n : Nat) (sc : Typ → Attempt × Attempt) (o : Oracle) (ts : List Typ) : List Event :=
  ts.map fun t => .probe n t (sc t).1 (sc t).2 o

theorem cycleEvents_eq (w : World) (n : Nat) (fam : Family) (sc : Typ → Attempt × Attempt) (o : Oracle) :
    cycleEvents w n fam sc o = probeEvents n sc o (cycleOpts w n fam) := rfl

theorem escalates_addr0 (w : World) (n : Nat) (t : Typ) (tr : Bool) (h : (w.nodes n).addr = 0) :
    escalates w n t tr = false := by
  simp [escalates, h]

/-! ## what one probe does to the node maps -/

theorem probe_nodes (w : World) (n : Nat) (t : Typ) (a1 a2 : Attempt) (o : Oracle) :
    (step w (.probe n t a1 a2 o)).1.nodes =
      match probeOutcome a1 a2 with
      | .success _ => upd w.nodes n ((w.nodes n).avail t)
      | .failure =>
        if w.suppressed then w.nodes
        else if escalates w n t false then upd w.nodes n (escalationTyps.foldl Node.forced ((w.nodes n).counted t false))
        else upd w.nodes n ((w.nodes n).counted t false)
      | .nothing => w.nodes := by
  simp only [step]
  cases probeOutcome a1 a2 with
  | success l => simp only [markAvail_nodes]
  | failure => simp only [markUnavail_nodes]
  | nothing => rfl

/-- a probe never makes a slot alive other than the one it probes -/
theorem probe_dead_stays (w : World) (n : Nat) (t : Typ) (a1 a2 : Attempt) (o : Oracle) (m i : Nat)
    (hne : ¬(n = m ∧ t.idx = i)) (h : (w.nodes m).alive i = false) :
    ((step w (.probe n t a1 a2 o)).1.nodes m).alive i = false := by
  simp only [step]
  cases probeOutcome a1 a2 with
  | success l =>
    rcases markAvail_slot { w with now := w.now + l } n t o m i with h1 | h1
    · exact absurd ⟨h1.1, h1.2.1⟩ hne
    · rw [h1.2.1]; exact h
  | failure =>
    rcases markUnavail_slot w n t false o m i with h1 | h1 | h1 | h1
    · exact h1
    · rw [h1.2]; exact h
    · rw [h1.2.2.1]; exact h
    · exact absurd ⟨h1.2.1, h1.2.2.1⟩ hne
  | nothing => exact h

theorem run_probes_dead_stays (n : Nat) (sc : Typ → Attempt × Attempt) (o : Oracle) (m i : Nat) :
    ∀ (ts : List Typ) (w : World), (∀ t ∈ ts, ¬(n = m ∧ t.idx = i)) → (w.nodes m).alive i = false →
      ((run w (probeEvents n sc o ts)).1.nodes m).alive i = false := by
  intro ts
  induction ts with
  | nil => intro w _ h; exact h
  | cons t ts ih =>
    intro w hts h
    simp only [probeEvents, List.map_cons, run]
    exact ih _ (fun t' ht' => hts t' (List.mem_cons_of_mem _ ht'))
      (probe_dead_stays w n t _ _ o m i (hts t (List.mem_cons_self ..)) h)

theorem cycleOpts_mem (w : World) (n : Nat) (fam : Family) (t : Typ) :
    t ∈ cycleOpts w n fam ↔ t ∈ probeTable ∧ fam.selects t = true ∧ w.probed n t = true := by
  simp [cycleOpts, List.mem_filter]

theorem probeTable_idx (t : Typ) (h : t ∈ probeTable) : t.idx = 2 ∨ t.idx = 3 ∨ t.idx = 4 ∨ t.idx = 5 := by
  simp only [probeTable, List.mem_cons, List.not_mem_nil, or_false] at h
  rcases h with rfl | rfl | rfl | rfl <;> simp [Typ.idx]

theorem sublist_map_nodup {α β : Type} (f : α → β) {l l' : List α} (h : l.Sublist l') (hn : (l'.map f).Nodup) :
    (l.map f).Nodup :=
  (List.Sublist.map f h).nodup hn

theorem cycleOpts_nodup (w : World) (n : Nat) (fam : Family) : ((cycleOpts w n fam).map Typ.idx).Nodup := by
  apply sublist_map_nodup Typ.idx (List.filter_sublist (l := probeTable))
  decide

/-! ## order of the probes of one iteration (nodes without a proxy address) -/

/-- what the clock and the suppression state look like to a probe -/
structure ProbeEnv (w w' : World) (n : Nat) : Prop where
  addr : (w'.nodes n).addr = (w.nodes n).addr
  supp : w'.suppressed = w.suppressed
  stable : 0 < w'.supCount ∨ w'.supUntil ≤ w'.now

theorem suppressed_now (w : World) (l : Nat) (h : 0 < w.supCount ∨ w.supUntil ≤ w.now) :
    ({ w with now := w.now + l } : World).suppressed = w.suppressed := by
  simp only [World.suppressed]
  rcases h with h | h
  · simp [h]
  · have h1 : ¬ (w.now + l < w.supUntil) := by omega
    have h2 : ¬ (w.now < w.supUntil) := by omega
    simp [h1, h2]

theorem markAvail_clock (w : World) (n : Nat) (t : Typ) (o : Oracle) :
    (markAvail w n t o).1.now = w.now ∧ (markAvail w n t o).1.supCount = w.supCount ∧
      (markAvail w n t o).1.supUntil = w.supUntil := ⟨rfl, rfl, rfl⟩

theorem upd_addr (nodes : Nat → Node) (n m : Nat) (nd' : Node) (h : nd'.addr = (nodes n).addr) :
    ((upd nodes n nd') m).addr = (nodes m).addr := by
  by_cases hm : m = n
  · subst hm; simp [upd, h]
  · simp [upd, hm]

theorem counted_addr (nd : Node) (t : Typ) (tr : Bool) : (nd.counted t tr).addr = nd.addr := by
  cases tr <;> rfl

/-- a probe of a node without proxy address keeps the environment of later probes -/
theorem probe_env (w : World) (n : Nat) (t : Typ) (a1 a2 : Attempt) (o : Oracle)
    (haddr : (w.nodes n).addr = 0) (hst : 0 < w.supCount ∨ w.supUntil ≤ w.now) :
    ProbeEnv w (step w (.probe n t a1 a2 o)).1 n := by
  refine ⟨?_, ?_, ?_⟩
  · rw [probe_nodes]
    cases probeOutcome a1 a2 with
    | success l => exact upd_addr _ _ _ _ rfl
    | failure =>
      simp only [escalates_addr0 w n t false haddr, Bool.false_eq_true, if_false]
      split
      · rfl
      · exact upd_addr _ _ _ _ (counted_addr _ _ _)
    | nothing => rfl
  · simp only [step]
    cases probeOutcome a1 a2 with
    | success l =>
      have hc := markAvail_clock { w with now := w.now + l } n t o
      rw [← suppressed_now w l hst]
      simp only [World.suppressed, hc.1, hc.2.1, hc.2.2]
    | failure => exact sameClock_suppressed (markUnavail_clock w n t false o)
    | nothing => rfl
  · simp only [step]
    cases probeOutcome a1 a2 with
    | success l =>
      have hc := markAvail_clock { w with now := w.now + l } n t o
      rw [hc.1, hc.2.1, hc.2.2]
      rcases hst with h | h
      · left; exact h
      · right; show w.supUntil ≤ w.now + l; omega
    | failure =>
      obtain ⟨h1, h2, h3⟩ := markUnavail_clock w n t false o
      rw [h1, h2, h3]; exact hst
    | nothing => exact hst

/-- a probe of `(n, t)` leaves every other slot of `n` as it was (no escalation without an address) -/
theorem probe_frame (w : World) (n : Nat) (t : Typ) (a1 a2 : Attempt) (o : Oracle) (i : Nat)
    (haddr : (w.nodes n).addr = 0) (hi : t.idx ≠ i) :
    slotOf ((step w (.probe n t a1 a2 o)).1.nodes n) i = slotOf (w.nodes n) i := by
  rw [probe_nodes]
  cases probeOutcome a1 a2 with
  | success l => simp [slotOf, upd, Node.avail, Ne.symm hi]
  | failure =>
    simp only [escalates_addr0 w n t false haddr, Bool.false_eq_true, if_false]
    split
    · rfl
    · simp only [upd_same]; exact slotOf_of_slotU (counted_slot _ t false i (Ne.symm hi))
  | nothing => rfl

/-- the probed slot after the probe is a function of that slot before and of the suppression state -/
theorem probe_local (w w' : World) (n : Nat) (t : Typ) (a1 a2 : Attempt) (o : Oracle)
    (ha : (w.nodes n).addr = 0) (ha' : (w'.nodes n).addr = 0) (hs : w'.suppressed = w.suppressed)
    (hslot : slotOf (w'.nodes n) t.idx = slotOf (w.nodes n) t.idx) :
    slotOf ((step w' (.probe n t a1 a2 o)).1.nodes n) t.idx = slotOf ((step w (.probe n t a1 a2 o)).1.nodes n) t.idx := by
  rw [probe_nodes, probe_nodes]
  simp only [slotOf, Prod.mk.injEq] at hslot
  obtain ⟨h1, h2, h3⟩ := hslot
  cases probeOutcome a1 a2 with
  | success l => simp [slotOf, upd, Node.avail]
  | failure =>
    simp only [escalates_addr0 w n t false ha, escalates_addr0 w' n t false ha', hs, Bool.false_eq_true, if_false]
    split
    · simp [slotOf, h1, h2, h3]
    · simp [slotOf, upd, Node.counted, h1, h2, h3]
  | nothing => simp [slotOf, h1, h2, h3]

theorem run_probes_slots (n : Nat) (sc : Typ → Attempt × Attempt) (o : Oracle) :
    ∀ (ts : List Typ) (w : World), (ts.map Typ.idx).Nodup → (w.nodes n).addr = 0 →
      (0 < w.supCount ∨ w.supUntil ≤ w.now) →
      (∀ t ∈ ts, slotOf ((run w (probeEvents n sc o ts)).1.nodes n) t.idx =
        slotOf ((step w (.probe n t (sc t).1 (sc t).2 o)).1.nodes n) t.idx) ∧
      (∀ i, i ∉ ts.map Typ.idx → slotOf ((run w (probeEvents n sc o ts)).1.nodes n) i = slotOf (w.nodes n) i) ∧
      ((run w (probeEvents n sc o ts)).1.nodes n).addr = 0 := by
  intro ts
  induction ts with
  | nil => intro w _ ha _; exact ⟨fun t ht => by simp at ht, fun i _ => rfl, ha⟩
  | cons t0 ts ih =>
    intro w hnd ha hst
    simp only [List.map_cons, List.nodup_cons] at hnd
    have env := probe_env w n t0 (sc t0).1 (sc t0).2 o ha hst
    have ha1 : ((step w (.probe n t0 (sc t0).1 (sc t0).2 o)).1.nodes n).addr = 0 := by rw [env.addr]; exact ha
    obtain ⟨ih1, ih2, ih3⟩ := ih (step w (.probe n t0 (sc t0).1 (sc t0).2 o)).1 hnd.2 ha1 env.stable
    simp only [probeEvents, List.map_cons, run] at *
    refine ⟨?_, ?_, ih3⟩
    · intro t ht
      rcases List.mem_cons.mp ht with rfl | ht
      · rw [ih2 _ hnd.1]
      · rw [ih1 t ht]
        have hne : t0.idx ≠ t.idx := fun h => hnd.1 (h ▸ List.mem_map_of_mem (f := Typ.idx) ht)
        exact probe_local w _ n t _ _ o ha ha1 env.supp (probe_frame w n t0 _ _ o t.idx ha hne)
    · intro i hi
      simp only [List.mem_cons, not_or] at hi
      rw [ih2 i hi.2]
      exact probe_frame w n t0 _ _ o i ha (Ne.symm hi.1)

/-! ## selection (`CaptureReloadSelectionFallback`) -/

theorem best_mem (s : ASet) (h : SetInv s) (c : Nat) (hb : s.best = some c) : c ∈ keys s.entries := by
  unfold ASet.best at hb
  cases hm : s.minD with
  | some d => rw [hm] at hb; cases hb; exact h.minMem _ hm
  | none =>
    rw [hm] at hb
    simp only at hb
    rcases minEntry_spec s.entries none hour with ⟨h1, _⟩ | ⟨e, he, h1⟩
    · rw [h1] at hb; cases hb
    · rw [h1] at hb; cases hb
      exact List.mem_map_of_mem (f := Prod.fst) he

theorem best_some_iff (s : ASet) (h : SetInv s) (hmp : s.minPolicy = true) : s.best.isSome = true ↔ s.entries ≠ [] := by
  unfold ASet.best
  cases hm : s.minD with
  | some d =>
    simp only [Option.isSome_some, true_iff]
    intro he; have := (h.sel hmp).mpr he; rw [hm] at this; cases this
  | none =>
    have he := (h.sel hmp).mp hm
    simp [he, minEntry]

theorem firstSome_some {α β : Type} (f : α → Option β) (l : List α) (y : β) (h : firstSome f l = some y) :
    ∃ x ∈ l, f x = some y := by
  induction l with
  | nil => cases h
  | cons x xs ih =>
    simp only [firstSome] at h
    cases hx : f x with
    | some z => rw [hx] at h; cases h; exact ⟨x, List.mem_cons_self, hx⟩
    | none => rw [hx] at h; obtain ⟨x', hx', e⟩ := ih h; exact ⟨x', List.mem_cons_of_mem _ hx', e⟩

theorem selectMin_listed (w : World) (hg : SetsAll GoodSet w) (g i c : Nat) (h : selectMin w g i = some c) :
    ∃ j ∈ selChain i, ∃ s, findSet w.sets g j = some s ∧ c ∈ keys s.entries := by
  obtain ⟨j, hj, hf⟩ := firstSome_some _ _ _ h
  cases hs : findSet w.sets g j with
  | none => rw [hs] at hf; cases hf
  | some s =>
    rw [hs] at hf
    exact ⟨j, hj, s, hs, best_mem s (hg s (findSet_mem _ _ _ _ hs).1) c hf⟩

theorem selectMin_head (w : World) (g i : Nat) (s : ASet) (hs : findSet w.sets g i = some s) (c : Nat)
    (hb : s.best = some c) : selectMin w g i = some c := by
  unfold selectMin selChain
  split
  · rename_i h6; subst h6; simp [firstSome, hs, hb]
  · split
    · rename_i _ h7; subst h7; simp [firstSome, hs, hb]
    · simp [firstSome, hs, hb]

end DaeVerif.C16
