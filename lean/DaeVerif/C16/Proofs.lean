import DaeVerif.C16.Model
/-! # C16 — helper lemmas -/
namespace DaeVerif.C16

@[simp] theorem upd_same {β : Type} (f : Nat → β) (i : Nat) (v : β) : upd f i v i = v := by simp [upd]
theorem upd_other {β : Type} (f : Nat → β) (i j : Nat) (v : β) (h : j ≠ i) : upd f i v j = f j := by
  simp [upd, h]
@[simp] theorem upd_upd {β : Type} (f : Nat → β) (i : Nat) (a b : β) : upd (upd f i a) i b = upd f i b := by
  funext j; unfold upd; split <;> rfl

/-! ## lists of set entries -/

def keys (es : List (Nat × Int)) : List Nat := es.map Prod.fst

theorem has_iff (s : ASet) (d : Nat) : s.has d = true ↔ d ∈ keys s.entries := by
  simp [ASet.has, keys, List.any_eq_true]

theorem has_false_iff (s : ASet) (d : Nat) : s.has d = false ↔ d ∉ keys s.entries := by
  rw [← has_iff]; cases s.has d <;> simp

theorem keys_setLat (es : List (Nat × Int)) (d : Nat) (l : Int) : keys (setLat es d l) = keys es := by
  unfold keys setLat
  rw [List.map_map]
  apply List.map_congr_left
  intro e _
  simp only [Function.comp]
  split <;> rfl

theorem mem_setLat (es : List (Nat × Int)) (d : Nat) (l : Int) (e : Nat × Int) (h : e ∈ setLat es d l) :
    e ∈ es ∨ e = (d, l) := by
  unfold setLat at h
  rw [List.mem_map] at h
  obtain ⟨e', he', rfl⟩ := h
  split
  · right; rename_i h; rw [h]
  · left; exact he'

/-- replace key `d` by `r` in a duplicate-free key list not containing `r` -/
theorem replace_keys (K : List Nat) (d r : Nat) (hnd : K.Nodup) (hr : r ∉ K) :
    (K.map fun k => if k = d then r else k).Nodup ∧
    ∀ x, x ∈ (K.map fun k => if k = d then r else k) ↔ (x ∈ K ∧ x ≠ d) ∨ (x = r ∧ d ∈ K) := by
  induction K with
  | nil => simp
  | cons k K ih =>
    have hk : k ∉ K := (List.nodup_cons.mp hnd).1
    have hK : K.Nodup := (List.nodup_cons.mp hnd).2
    have hrK : r ∉ K := fun h => hr (List.mem_cons_of_mem _ h)
    have hrk : r ≠ k := fun h => hr (h ▸ List.mem_cons_self)
    obtain ⟨ih1, ih2⟩ := ih hK hrK
    constructor
    · rw [List.map_cons, List.nodup_cons]
      refine ⟨?_, ih1⟩
      rw [ih2]
      by_cases hkd : k = d
      · simp only [hkd, if_true]
        rintro (⟨h, _⟩ | ⟨_, h⟩)
        · exact hrK h
        · exact hk (hkd ▸ h)
      · simp only [hkd, if_false]
        rintro (⟨h, _⟩ | ⟨h, _⟩)
        · exact hk h
        · exact hrk h.symm
    · intro x
      rw [List.map_cons, List.mem_cons, ih2]
      by_cases hkd : k = d
      · subst hkd
        simp only [if_true, List.mem_cons]
        constructor
        · rintro (h | ⟨h, h'⟩ | ⟨h, h'⟩)
          · right; exact ⟨h, by simp⟩
          · left; exact ⟨Or.inr h, h'⟩
          · exact absurd h' hk
        · rintro (⟨h | h, h'⟩ | ⟨h, _⟩)
          · exact absurd h h'
          · right; left; exact ⟨h, h'⟩
          · left; exact h
      · simp only [hkd, if_false, List.mem_cons]
        constructor
        · rintro (h | ⟨h, h'⟩ | ⟨h, h'⟩)
          · left; exact ⟨Or.inl h, h ▸ hkd⟩
          · left; exact ⟨Or.inr h, h'⟩
          · right; exact ⟨h, Or.inr h'⟩
        · rintro (⟨h | h, h'⟩ | ⟨h, h' | h'⟩)
          · left; exact h
          · right; left; exact ⟨h, h'⟩
          · exact absurd h'.symm hkd
          · right; right; exact ⟨h, h'⟩


theorem swapRemove_concat (init : List (Nat × Int)) (l : Nat × Int) (d : Nat) :
    swapRemove (init ++ [l]) d = init.map fun e => if e.1 = d then l else e := by
  unfold swapRemove
  simp

theorem swapRemove_spec (es : List (Nat × Int)) (d : Nat) (hnd : (keys es).Nodup) (hd : d ∈ keys es) :
    (keys (swapRemove es d)).Nodup ∧ (∀ x, x ∈ keys (swapRemove es d) ↔ x ∈ keys es ∧ x ≠ d) ∧
    (∀ e ∈ swapRemove es d, e ∈ es) ∧ (swapRemove es d).length + 1 = es.length := by
  rcases List.eq_nil_or_concat es with h | ⟨init, l, h⟩
  · subst h; simp [keys] at hd
  · rw [List.concat_eq_append] at h
    subst h
    rw [swapRemove_concat]
    have hk : keys (init ++ [l]) = keys init ++ [l.1] := by simp [keys]
    rw [hk] at hnd hd
    have hnd' : (keys init).Nodup ∧ l.1 ∉ keys init := by
      rw [List.nodup_append] at hnd
      refine ⟨hnd.1, fun h => ?_⟩
      exact hnd.2.2 _ h _ (List.mem_singleton.mpr rfl) rfl
    have hkm : keys (init.map fun e => if e.1 = d then l else e) =
        (keys init).map fun k => if k = d then l.1 else k := by
      unfold keys; rw [List.map_map, List.map_map]
      apply List.map_congr_left
      intro e _; simp only [Function.comp]; split <;> rfl
    obtain ⟨r1, r2⟩ := replace_keys (keys init) d l.1 hnd'.1 hnd'.2
    refine ⟨hkm ▸ r1, ?_, ?_, by simp⟩
    · intro x
      rw [hkm, r2, hk, List.mem_append, List.mem_singleton]
      rw [List.mem_append, List.mem_singleton] at hd
      by_cases hdl : d = l.1
      · have : d ∉ keys init := hdl ▸ hnd'.2
        constructor
        · rintro (⟨h, h'⟩ | ⟨_, h⟩)
          · exact ⟨Or.inl h, h'⟩
          · exact absurd h this
        · rintro ⟨h | h, h'⟩
          · exact Or.inl ⟨h, h'⟩
          · exact absurd (h.trans hdl.symm) h'
      · have hdi : d ∈ keys init := hd.resolve_right hdl
        constructor
        · rintro (⟨h, h'⟩ | ⟨h, _⟩)
          · exact ⟨Or.inl h, h'⟩
          · exact ⟨Or.inr h, fun h' => hdl (h'.symm.trans h)⟩
        · rintro ⟨h | h, h'⟩
          · exact Or.inl ⟨h, h'⟩
          · exact Or.inr ⟨h, hdi⟩
    · intro e he
      rw [List.mem_map] at he
      obtain ⟨e', he', rfl⟩ := he
      split
      · simp
      · exact List.mem_append_left _ he'

theorem swapRemove_not_mem (es : List (Nat × Int)) (d : Nat) (hd : d ∉ keys es) :
    ∀ e ∈ swapRemove es d, e ∈ es := by
  intro e he
  rcases List.eq_nil_or_concat es with h | ⟨init, l, h⟩
  · subst h; simp [swapRemove] at he
  · rw [List.concat_eq_append] at h
    subst h
    rw [swapRemove_concat, List.mem_map] at he
    obtain ⟨e', he', rfl⟩ := he
    split
    · simp
    · exact List.mem_append_left _ he'


/-! ## best-node selection -/

theorem minEntry_spec (es : List (Nat × Int)) : ∀ (md : Option Nat) (ml : Int),
    (minEntry es (md, ml) = (md, ml) ∧ (md = none → es = [])) ∨
    (∃ e ∈ es, minEntry es (md, ml) = (some e.1, e.2)) := by
  induction es with
  | nil => intro md ml; left; simp [minEntry]
  | cons e es ih =>
    intro md ml
    obtain ⟨d, l⟩ := e
    unfold minEntry
    by_cases h : (md.isNone || decide (l < ml)) = true
    · simp only [h, if_true]
      rcases ih (some d) l with ⟨h1, _⟩ | ⟨e, he, h1⟩
      · right; exact ⟨(d, l), List.mem_cons_self, h1⟩
      · right; exact ⟨e, List.mem_cons_of_mem _ he, h1⟩
    · simp only [h]
      have hmd : md ≠ none := by intro hm; apply h; simp [hm]
      rcases ih md ml with ⟨h1, _⟩ | ⟨e, he, h1⟩
      · left; exact ⟨h1, fun hm => absurd hm hmd⟩
      · right; exact ⟨e, List.mem_cons_of_mem _ he, h1⟩

/-- callback option for a change of "has a best node" -/
def edgeOpt (b b' : Bool) : Option Bool := if b = b' then none else some b'

@[simp] theorem setMin_entries (s : ASet) (d : Option Nat) (l : Int) : (s.setMin d l).entries = s.entries := rfl
@[simp] theorem setMin_minD (s : ASet) (d : Option Nat) (l : Int) : (s.setMin d l).minD = d := rfl
@[simp] theorem setMin_minLat (s : ASet) (d : Option Nat) (l : Int) : (s.setMin d l).minLat = l := rfl
@[simp] theorem setMin_minPolicy (s : ASet) (d : Option Nat) (l : Int) : (s.setMin d l).minPolicy = s.minPolicy := rfl
@[simp] theorem setMin_tol (s : ASet) (d : Option Nat) (l : Int) : (s.setMin d l).tol = s.tol := rfl
@[simp] theorem remove_minD (s : ASet) (d : Nat) : (s.remove d).minD = s.minD := rfl
@[simp] theorem remove_minLat (s : ASet) (d : Nat) : (s.remove d).minLat = s.minLat := rfl
@[simp] theorem remove_entries (s : ASet) (d : Nat) : (s.remove d).entries = swapRemove s.entries d := rfl
@[simp] theorem add_minD (s : ASet) (d : Nat) : (s.add d).minD = s.minD := rfl
@[simp] theorem add_minLat (s : ASet) (d : Nat) : (s.add d).minLat = s.minLat := rfl
@[simp] theorem add_entries (s : ASet) (d : Nat) : (s.add d).entries = s.entries ++ [(d, 0)] := rfl
@[simp] theorem setEntryLat_minD (s : ASet) (d : Nat) (l : Int) : (s.setEntryLat d l).minD = s.minD := rfl
@[simp] theorem setEntryLat_minLat (s : ASet) (d : Nat) (l : Int) : (s.setEntryLat d l).minLat = s.minLat := rfl
@[simp] theorem setEntryLat_entries (s : ASet) (d : Nat) (l : Int) :
    (s.setEntryLat d l).entries = setLat s.entries d l := rfl

theorem calcMin_entries (s : ASet) : s.calcMin.entries = s.entries := by
  unfold ASet.calcMin; simp only; split
  · rfl
  · split <;> rfl

theorem phase1_cb (s : ASet) (d : Nat) (a : Bool) (lat : Option Int) :
    (s.phase1 d a lat).2 = edgeOpt s.minD.isSome (s.phase1 d a lat).1.minD.isSome := by
  unfold ASet.phase1 edgeOpt
  cases a <;> cases hh : s.has d <;> simp only [Bool.false_eq_true, if_false, if_true] <;> try simp
  by_cases hrb : (s.minPolicy = true ∧ lat = none) ∧ s.minD = some d
  · simp only [hrb, and_self, if_true]
    generalize ((s.remove d).setMin none hour).calcMin = s2
    cases h3 : s2.minD <;> simp
  · simp only [hrb, if_false]; simp

theorem phase2_cb (s : ASet) (d : Nat) (a : Bool) (lat : Option Int) :
    (s.phase2 d a lat).2 = edgeOpt s.minD.isSome (s.phase2 d a lat).1.minD.isSome := by
  unfold ASet.phase2 edgeOpt
  cases lat with
  | none =>
    simp only
    split
    · rename_i h
      simp only [Bool.and_eq_true] at h
      cases hm : s.minD <;> simp [hm] at h ⊢
    · simp
  | some raw =>
    simp only
    generalize (s.setEntryLat d (raw + s.offset d)).reselect d a (raw + s.offset d) s.minLat = s2
    cases h1 : s2.minD <;> cases h2 : s.minD <;> simp


/-- the static part of a set -/
def ASet.sameStatic (s s' : ASet) : Prop :=
  s'.gid = s.gid ∧ s'.outbound = s.outbound ∧ s'.idx = s.idx ∧ s'.minPolicy = s.minPolicy ∧ s'.tol = s.tol ∧
  s'.members = s.members ∧ s'.offset = s.offset ∧ s'.active = s.active

theorem sameStatic_refl (s : ASet) : s.sameStatic s := ⟨rfl, rfl, rfl, rfl, rfl, rfl, rfl, rfl⟩
theorem sameStatic_trans {a b c : ASet} (h1 : a.sameStatic b) (h2 : b.sameStatic c) : a.sameStatic c := by
  unfold ASet.sameStatic at *
  obtain ⟨a1, a2, a3, a4, a5, a6, a7, a8⟩ := h1
  obtain ⟨b1, b2, b3, b4, b5, b6, b7, b8⟩ := h2
  exact ⟨b1.trans a1, b2.trans a2, b3.trans a3, b4.trans a4, b5.trans a5, b6.trans a6, b7.trans a7, b8.trans a8⟩

theorem calcMin_static (s : ASet) : s.sameStatic s.calcMin := by
  unfold ASet.calcMin; simp only; split
  · exact sameStatic_refl _
  · split <;> exact sameStatic_refl _

theorem reselect_static (s : ASet) (d : Nat) (a : Bool) (l b : Int) : s.sameStatic (s.reselect d a l b) := by
  unfold ASet.reselect
  split
  · exact sameStatic_refl _
  · split
    · split
      · exact sameStatic_trans (sameStatic_refl _) (calcMin_static _)
      · exact sameStatic_refl _
    · exact sameStatic_refl _

theorem reselect_entries (s : ASet) (d : Nat) (a : Bool) (l b : Int) : (s.reselect d a l b).entries = s.entries := by
  unfold ASet.reselect
  split
  · rfl
  · split
    · split
      · rw [calcMin_entries]; rfl
      · rfl
    · rfl

theorem phase1_static (s : ASet) (d : Nat) (a : Bool) (lat : Option Int) : s.sameStatic (s.phase1 d a lat).1 := by
  unfold ASet.phase1
  split
  · split <;> exact sameStatic_refl _
  · split
    · split
      · exact sameStatic_trans (sameStatic_refl _) (calcMin_static _)
      · exact sameStatic_refl _
    · exact sameStatic_refl _

theorem phase2_static (s : ASet) (d : Nat) (a : Bool) (lat : Option Int) : s.sameStatic (s.phase2 d a lat).1 := by
  unfold ASet.phase2
  cases lat with
  | none => simp only; split <;> exact sameStatic_refl _
  | some raw => exact sameStatic_trans (sameStatic_refl _) (reselect_static _ _ _ _ _)

theorem fire_static (s : ASet) (c : Option Bool) : s.sameStatic (s.fire c) := by
  cases c <;> exact sameStatic_refl _

@[simp] theorem fire_entries (s : ASet) (c : Option Bool) : (s.fire c).entries = s.entries := by cases c <;> rfl
@[simp] theorem fire_minD (s : ASet) (c : Option Bool) : (s.fire c).minD = s.minD := by cases c <;> rfl
@[simp] theorem fire_minLat (s : ASet) (c : Option Bool) : (s.fire c).minLat = s.minLat := by cases c <;> rfl

theorem notify_static (s : ASet) (d : Nat) (a : Bool) (lat : Option Int) : s.sameStatic (s.notify d a lat).1 := by
  unfold ASet.notify
  exact sameStatic_trans (sameStatic_trans (sameStatic_trans (phase1_static _ _ _ _) (phase2_static _ _ _ _))
    (fire_static _ _)) (fire_static _ _)

structure CoreInv (s : ASet) : Prop where
  nodup : (keys s.entries).Nodup
  minMem : ∀ m, s.minD = some m → m ∈ keys s.entries
  minNone : s.minD = none → s.minLat = hour
  sel : s.minPolicy = true → (s.minD = none ↔ s.entries = [])
  nonMin : s.minPolicy = false → s.minD = none

theorem calcMin_none (s : ASet) (h : s.minD = none) :
    (s.calcMin.minD = none ↔ s.entries = []) ∧ (s.calcMin.minD = none → s.calcMin.minLat = hour) ∧
    (∀ m, s.calcMin.minD = some m → m ∈ keys s.entries) := by
  unfold ASet.calcMin
  simp only [h, if_true, setMin_minD, setMin_minLat]
  rcases minEntry_spec s.entries none hour with ⟨h1, h2⟩ | ⟨e, he, h1⟩
  · rw [h1]
    have : s.entries = [] := h2 rfl
    simp [this]
  · rw [h1]
    refine ⟨?_, by simp, ?_⟩
    · simp only [reduceCtorEq, false_iff]
      intro h; rw [h] at he; simp at he
    · intro m hm
      simp only [Option.some.injEq] at hm
      subst hm
      exact List.mem_map_of_mem he

theorem calcMin_some (s : ASet) (m : Nat) (h : s.minD = some m) :
    s.calcMin.minD = some m ∨ ∃ e ∈ s.entries, s.calcMin.minD = some e.1 := by
  unfold ASet.calcMin
  simp only [h, reduceCtorEq, if_false]
  split
  · rename_i hc
    simp only [Bool.and_eq_true] at hc
    rcases minEntry_spec s.entries none hour with ⟨h1, _⟩ | ⟨e, he, h1⟩
    · rw [h1] at hc; simp at hc
    · right; exact ⟨e, he, by rw [h1]; rfl⟩
  · left; exact h


theorem phase2_keys (s : ASet) (d : Nat) (a : Bool) (lat : Option Int) :
    keys (s.phase2 d a lat).1.entries = keys s.entries := by
  unfold ASet.phase2
  cases lat with
  | none => simp only; split <;> rfl
  | some raw => simp only [reselect_entries, setEntryLat_entries, keys_setLat]

/-- alive notification, after the membership step: `d` is a member; `sel` may be pending -/
structure PreAlive (s : ASet) (d : Nat) : Prop where
  nodup : (keys s.entries).Nodup
  minMem : ∀ m, s.minD = some m → m ∈ keys s.entries
  minNone : s.minD = none → s.minLat = hour
  nonMin : s.minPolicy = false → s.minD = none
  memd : d ∈ keys s.entries

theorem phase2_alive (s : ASet) (d : Nat) (lat : Option Int) (h : PreAlive s d)
    (hp : lat.isSome = true → s.minPolicy = true) : CoreInv (s.phase2 d true lat).1 := by
  have hst := phase2_static s d true lat
  have hk := phase2_keys s d true lat
  have hne : (s.phase2 d true lat).1.entries ≠ [] := by
    intro h0
    have := h.memd; rw [← hk, h0] at this; simp [keys] at this
  have hmin : ((s.phase2 d true lat).1.minD = none → s.minPolicy = false) ∧
      (∀ m, (s.phase2 d true lat).1.minD = some m → m ∈ keys s.entries) := by
    unfold ASet.phase2
    cases lat with
    | none =>
      simp only
      split
      · rename_i hc
        simp only [setMin_minD, reduceCtorEq, false_imp_iff, Option.some.injEq, true_and]
        intro m hm; subst hm; exact h.memd
      · rename_i hc
        simp only [Bool.and_eq_true, Bool.true_and, not_and] at hc
        refine ⟨?_, h.minMem⟩
        intro hn
        cases hmp : s.minPolicy
        · rfl
        · have := hc hmp; exact absurd hn (by simpa using this)
    | some raw =>
      have hmp : s.minPolicy = true := hp rfl
      simp only
      generalize hL : raw + s.offset d = l at *
      unfold ASet.reselect
      simp only [Bool.true_and, Bool.not_true, Bool.false_or, if_true, setEntryLat_minD]
      split
      · simp only [setMin_minD, reduceCtorEq, false_imp_iff, Option.some.injEq, true_and]
        intro m hm; subst hm; exact h.memd
      · rename_i hb
        split
        · rename_i hd
          split
          · rcases calcMin_some ((s.setEntryLat d l).setMin (some d) l) d rfl with hc | ⟨e, he, hc⟩
            · rw [hc]; simp only [reduceCtorEq, false_imp_iff, Option.some.injEq, true_and]
              intro m hm; subst hm; exact h.memd
            · rw [hc]; simp only [reduceCtorEq, false_imp_iff, Option.some.injEq, true_and]
              intro m hm; subst hm
              simp only [setMin_entries, setEntryLat_entries] at he
              have := List.mem_map_of_mem (f := Prod.fst) he
              rw [show List.map Prod.fst (setLat s.entries d l) = keys (setLat s.entries d l) from rfl,
                keys_setLat] at this
              exact this
          · simp only [setMin_minD, reduceCtorEq, false_imp_iff, Option.some.injEq, true_and]
            intro m hm; subst hm; exact h.memd
        · rename_i hd
          simp only [setEntryLat_minD]
          refine ⟨?_, h.minMem⟩
          intro hn
          exfalso
          apply hb
          simp [hn]
  obtain ⟨_, _, _, hpol, _, _, _, _⟩ := hst
  refine ⟨hk ▸ h.nodup, ?_, ?_, ?_, ?_⟩
  · intro m hm; rw [hk]; exact hmin.2 m hm
  · intro hn
    have := hmin.1 hn
    -- minPolicy false: phase2 leaves the set untouched
    have hlat : lat = none := by
      cases lat with
      | none => rfl
      | some r => have := hp rfl; simp_all
    subst hlat
    unfold ASet.phase2 at hn ⊢
    simp only [this, Bool.and_false, Bool.false_and, Bool.false_eq_true, if_false] at hn ⊢
    exact h.minNone hn
  · intro hmp
    rw [hpol] at hmp
    constructor
    · intro hn; have := hmin.1 hn; simp_all
    · intro h0; exact absurd h0 hne
  · intro hmp
    rw [hpol] at hmp
    have hlat : lat = none := by
      cases lat with
      | none => rfl
      | some r => have := hp rfl; simp_all
    subst hlat
    unfold ASet.phase2
    simp only [hmp, Bool.and_false, Bool.false_and, Bool.false_eq_true, if_false]
    exact h.nonMin hmp


/-- dead notification, after the membership step: `d` is gone from the entries; the best node may
still point at `d` (then a latency is present and the selection step repairs it). -/
structure PreDead (s : ASet) (d : Nat) (lat : Option Int) : Prop where
  nodup : (keys s.entries).Nodup
  minNone : s.minD = none → s.minLat = hour
  nonMin : s.minPolicy = false → s.minD = none
  notmem : d ∉ keys s.entries
  minMem : ∀ m, s.minD = some m → m ≠ d → m ∈ keys s.entries
  pend : s.minD = some d → lat.isSome = true
  sel : s.minPolicy = true → s.minD = none → s.entries = []
  sel' : s.minPolicy = true → s.entries = [] → s.minD = none ∨ s.minD = some d

theorem phase2_dead (s : ASet) (d : Nat) (lat : Option Int) (h : PreDead s d lat)
    (hp : lat.isSome = true → s.minPolicy = true) : CoreInv (s.phase2 d false lat).1 := by
  have hst := phase2_static s d false lat
  have hk := phase2_keys s d false lat
  obtain ⟨_, _, _, hpol, _, _, _, _⟩ := hst
  cases lat with
  | none =>
    have hnd : s.minD ≠ some d := fun hd => by simpa using h.pend hd
    have he : (s.phase2 d false none).1 = s := by unfold ASet.phase2; simp
    rw [he]
    refine ⟨h.nodup, ?_, h.minNone, ?_, h.nonMin⟩
    · intro m hm; exact h.minMem m hm (fun hmd => hnd (hmd ▸ hm))
    · intro hmp
      refine ⟨h.sel hmp, fun h0 => ?_⟩
      rcases h.sel' hmp h0 with h1 | h1
      · exact h1
      · exact absurd h1 hnd
  | some raw =>
    have hmp : s.minPolicy = true := hp rfl
    have hEnt : (s.phase2 d false (some raw)).1.entries = setLat s.entries d (raw + s.offset d) := by
      unfold ASet.phase2; simp only [reselect_entries, setEntryLat_entries]
    have hEmpty : (s.phase2 d false (some raw)).1.entries = [] ↔ s.entries = [] := by
      rw [hEnt]; unfold setLat; simp
    by_cases hd : s.minD = some d
    · -- the removed node was the best: recompute
      have he : (s.phase2 d false (some raw)).1 =
          ((s.setEntryLat d (raw + s.offset d)).setMin none (raw + s.offset d)).calcMin := by
        unfold ASet.phase2 ASet.reselect
        simp [hd]
      obtain ⟨c1, c2, c3⟩ := calcMin_none _ (setMin_minD _ _ _)
      rw [← he] at c1 c2 c3
      refine ⟨hk ▸ h.nodup, ?_, c2, ?_, ?_⟩
      · intro m hm
        have := c3 m hm
        simp only [setMin_entries, setEntryLat_entries, keys_setLat] at this
        rw [hk]; exact this
      · intro _
        rw [c1]; simp only [setMin_entries, setEntryLat_entries]
        rw [← hEnt]
      · intro hf; rw [hpol] at hf; simp_all
    · have he : (s.phase2 d false (some raw)).1.minD = s.minD ∧
          (s.phase2 d false (some raw)).1.minLat = s.minLat := by
        unfold ASet.phase2 ASet.reselect
        simp [hd]
      refine ⟨hk ▸ h.nodup, ?_, ?_, ?_, ?_⟩
      · intro m hm; rw [he.1] at hm; rw [hk]
        exact h.minMem m hm (fun hmd => hd (hmd ▸ hm))
      · intro hn; rw [he.1] at hn; rw [he.2]; exact h.minNone hn
      · intro _
        rw [he.1, hEmpty]
        refine ⟨h.sel hmp, fun h0 => ?_⟩
        rcases h.sel' hmp h0 with h1 | h1
        · exact h1
        · exact absurd h1 hd
      · intro hf; rw [hpol] at hf; simp_all

theorem keys_append_single (es : List (Nat × Int)) (d : Nat) (l : Int) : keys (es ++ [(d, l)]) = keys es ++ [d] := by
  simp [keys]

/-- effect of the membership step on the key set -/
theorem phase1_keys (s : ASet) (d : Nat) (a : Bool) (lat : Option Int) (hnd : (keys s.entries).Nodup) :
    ∀ x, x ∈ keys (s.phase1 d a lat).1.entries ↔ if x = d then a = true else x ∈ keys s.entries := by
  intro x
  unfold ASet.phase1
  cases a <;> cases hh : s.has d <;> simp only [Bool.false_eq_true, if_false, if_true]
  · rw [has_false_iff] at hh
    by_cases hx : x = d <;> simp [hx, hh]
  · rw [has_iff] at hh
    have sp := (swapRemove_spec s.entries d hnd hh).2.1 x
    split
    · simp only [calcMin_entries, setMin_entries, remove_entries]
      rw [sp]; by_cases hx : x = d <;> simp [hx]
    · simp only [remove_entries]
      rw [sp]; by_cases hx : x = d <;> simp [hx]
  · rw [has_false_iff] at hh
    simp only [add_entries, keys_append_single, List.mem_append, List.mem_singleton]
    by_cases hx : x = d <;> simp [hx]
  · rw [has_iff] at hh
    by_cases hx : x = d <;> simp [hx, hh]

theorem phase1_alive (s : ASet) (d : Nat) (lat : Option Int) (h : CoreInv s) :
    PreAlive (s.phase1 d true lat).1 d := by
  have hk := phase1_keys s d true lat h.nodup
  unfold ASet.phase1 at hk ⊢
  cases hh : s.has d <;> simp only [hh, Bool.false_eq_true, if_false, if_true] at hk ⊢
  · rw [has_false_iff] at hh
    refine ⟨?_, ?_, h.minNone, h.nonMin, ?_⟩
    · simp only [add_entries, keys_append_single]
      rw [List.nodup_append]
      refine ⟨h.nodup, by simp, ?_⟩
      intro a ha b hb
      rw [List.mem_singleton] at hb
      rw [hb]; intro hab; exact hh (hab ▸ ha)
    · intro m hm
      simp only [add_minD] at hm
      simp only [add_entries, keys_append_single, List.mem_append]
      left; exact h.minMem m hm
    · simp only [add_entries, keys_append_single, List.mem_append, List.mem_singleton, or_true]
  · rw [has_iff] at hh
    exact ⟨h.nodup, h.minMem, h.minNone, h.nonMin, hh⟩

theorem phase1_dead (s : ASet) (d : Nat) (lat : Option Int) (h : CoreInv s)
    (_hp : lat.isSome = true → s.minPolicy = true) : PreDead (s.phase1 d false lat).1 d lat := by
  unfold ASet.phase1
  cases hh : s.has d <;> simp only [Bool.false_eq_true, if_false, if_true]
  · rw [has_false_iff] at hh
    refine ⟨h.nodup, h.minNone, h.nonMin, hh, fun m hm _ => h.minMem m hm, ?_, ?_, ?_⟩
    · intro hd; exact absurd (h.minMem d hd) hh
    · intro hmp hn; exact (h.sel hmp).mp hn
    · intro hmp h0; left; exact (h.sel hmp).mpr h0
  · rw [has_iff] at hh
    obtain ⟨sp1, sp2, sp3, sp4⟩ := swapRemove_spec s.entries d h.nodup hh
    have hnot : d ∉ keys (swapRemove s.entries d) := by rw [sp2]; simp
    split
    · rename_i hrb
      simp only [Bool.and_eq_true, beq_iff_eq, Option.isNone_iff_eq_none] at hrb
      obtain ⟨c1, c2, c3⟩ := calcMin_none ((s.remove d).setMin none hour) rfl
      simp only [setMin_entries, remove_entries] at c1 c3
      have hE : (((s.remove d).setMin none hour).calcMin).entries = swapRemove s.entries d := by
        rw [calcMin_entries]; rfl
      have hpol : (((s.remove d).setMin none hour).calcMin).minPolicy = s.minPolicy :=
        (calcMin_static _).2.2.2.1
      refine ⟨hE ▸ sp1, c2, ?_, hE ▸ hnot, ?_, ?_, ?_, ?_⟩
      · intro hf; rw [hpol] at hf; rw [hrb.1.1] at hf; exact absurd hf (by simp)
      · intro m hm _; rw [hE]; exact c3 m hm
      · intro hd; exact absurd (c3 d hd) hnot
      · intro _ hn; rw [hE]; exact c1.mp hn
      · intro _ h0; left; rw [hE] at h0; exact c1.mpr h0
    · rename_i hrb
      simp only [Bool.and_eq_true, beq_iff_eq, Option.isNone_iff_eq_none, not_and] at hrb
      refine ⟨sp1, h.minNone, h.nonMin, hnot, ?_, ?_, ?_, ?_⟩
      · intro m hm hmd
        simp only [remove_minD] at hm
        simp only [remove_entries]; rw [sp2]; exact ⟨h.minMem m hm, hmd⟩
      · intro hd
        simp only [remove_minD] at hd
        cases hl : lat with
        | some r => rfl
        | none =>
          exfalso
          cases hmp : s.minPolicy
          · have := h.nonMin hmp; rw [this] at hd; exact absurd hd (by simp)
          · exact hrb ⟨hmp, hl⟩ hd
      · intro hmp hn
        simp only [remove_minD] at hn
        have := (h.sel hmp).mp hn
        rw [this] at hh; simp [keys] at hh
      · intro hmp h0
        simp only [remove_minD]
        cases hm : s.minD with
        | none => left; rfl
        | some m =>
          right
          by_cases hmd : m = d
          · rw [hmd]
          · exfalso
            have := h.minMem m hm
            have h2 : m ∈ keys (swapRemove s.entries d) := by rw [sp2]; exact ⟨this, hmd⟩
            simp only [remove_entries] at h0
            rw [h0] at h2; simp [keys] at h2


def ASet.sameGhost (s s' : ASet) : Prop := s'.kbit = s.kbit ∧ s'.ncb = s.ncb

theorem calcMin_ghost (s : ASet) : s.sameGhost s.calcMin := by
  unfold ASet.calcMin ASet.sameGhost; simp only; split
  · exact ⟨rfl, rfl⟩
  · split <;> exact ⟨rfl, rfl⟩

theorem phase1_ghost (s : ASet) (d : Nat) (a : Bool) (lat : Option Int) : s.sameGhost (s.phase1 d a lat).1 := by
  unfold ASet.phase1
  split
  · split <;> exact ⟨rfl, rfl⟩
  · split
    · split
      · have := calcMin_ghost ((s.remove d).setMin none hour)
        exact this
      · exact ⟨rfl, rfl⟩
    · exact ⟨rfl, rfl⟩

theorem reselect_ghost (s : ASet) (d : Nat) (a : Bool) (l b : Int) : s.sameGhost (s.reselect d a l b) := by
  unfold ASet.reselect
  split
  · exact ⟨rfl, rfl⟩
  · split
    · split
      · exact calcMin_ghost _
      · exact ⟨rfl, rfl⟩
    · exact ⟨rfl, rfl⟩

theorem phase2_ghost (s : ASet) (d : Nat) (a : Bool) (lat : Option Int) : s.sameGhost (s.phase2 d a lat).1 := by
  unfold ASet.phase2
  cases lat with
  | none => simp only; split <;> exact ⟨rfl, rfl⟩
  | some raw => exact reselect_ghost _ _ _ _ _

theorem coreInv_fire (s : ASet) (c : Option Bool) (h : CoreInv s) : CoreInv (s.fire c) := by
  cases c with
  | none => exact h
  | some b => exact ⟨h.nodup, h.minMem, h.minNone, h.sel, h.nonMin⟩

/-- the latency actually consulted by a notification -/
def ASet.effLat (s : ASet) (lat : Option Int) : Option Int := if s.minPolicy then lat else none

theorem notify_eq (s : ASet) (d : Nat) (a : Bool) (lat : Option Int) :
    s.notify d a lat =
      ((((s.phase1 d a (s.effLat lat)).1.phase2 d a (s.effLat lat)).1.fire (s.phase1 d a (s.effLat lat)).2).fire
          ((s.phase1 d a (s.effLat lat)).1.phase2 d a (s.effLat lat)).2,
        (s.phase1 d a (s.effLat lat)).2.toList ++ ((s.phase1 d a (s.effLat lat)).1.phase2 d a (s.effLat lat)).2.toList) := rfl

theorem notify_core (s : ASet) (d : Nat) (a : Bool) (lat : Option Int) (h : CoreInv s) :
    CoreInv (s.notify d a lat).1 ∧
    (∀ x, x ∈ keys (s.notify d a lat).1.entries ↔ if x = d then a = true else x ∈ keys s.entries) := by
  rw [notify_eq]
  have hp : (s.effLat lat).isSome = true → s.minPolicy = true := by
    unfold ASet.effLat; cases s.minPolicy <;> simp
  generalize s.effLat lat = lat' at *
  have hst := phase1_static s d a lat'
  obtain ⟨_, _, _, hpol, htol, _, hoff, _⟩ := hst
  have hp1 : lat'.isSome = true → (s.phase1 d a lat').1.minPolicy = true := by
    rw [hpol]; exact hp
  have hk1 := phase1_keys s d a lat' h.nodup
  have hk2 := phase2_keys (s.phase1 d a lat').1 d a lat'
  simp only [fire_entries]
  refine ⟨coreInv_fire _ _ (coreInv_fire _ _ ?_), ?_⟩
  · cases a
    · exact phase2_dead _ d lat' (phase1_dead s d lat' h hp) hp1
    · exact phase2_alive _ d lat' (phase1_alive s d lat' h) hp1
  · intro x; rw [hk2]; exact hk1 x

structure SetInv (s : ASet) : Prop extends CoreInv s where
  bit : s.minPolicy = true → (s.entries ≠ [] → s.kbit = true) ∧ (s.entries = [] → s.kbit = false ∨ s.ncb = 0)

theorem notify_inv (s : ASet) (d : Nat) (a : Bool) (lat : Option Int) (h : SetInv s) :
    SetInv (s.notify d a lat).1 := by
  obtain ⟨hc, _⟩ := notify_core s d a lat h.toCoreInv
  refine ⟨hc, ?_⟩
  intro hmp
  have hst := notify_static s d a lat
  have hmp0 : s.minPolicy = true := by rw [← hst.2.2.2.1]; exact hmp
  have hsel0 := h.sel hmp0
  have hsel2 := hc.sel hmp
  have hbit := h.bit hmp0
  rw [notify_eq] at hsel2 ⊢
  generalize s.effLat lat = lat' at *
  have c1 := phase1_cb s d a lat'
  have c2 := phase2_cb (s.phase1 d a lat').1 d a lat'
  have g1 := phase1_ghost s d a lat'
  have g2 := phase2_ghost (s.phase1 d a lat').1 d a lat'
  simp only [fire_entries, fire_minD] at hsel2 ⊢
  generalize (s.phase1 d a lat').2 = e1 at *
  generalize hs1 : (s.phase1 d a lat').1 = s1 at *
  generalize (s1.phase2 d a lat').2 = e2 at *
  generalize hs2 : (s1.phase2 d a lat').1 = s2 at *
  obtain ⟨gk1, gn1⟩ := g1
  obtain ⟨gk2, gn2⟩ := g2
  have hk : s2.kbit = s.kbit := gk2.trans gk1
  have hn : s2.ncb = s.ncb := gn2.trans gn1
  have e0 : (s.entries = []) ↔ s.minD.isSome = false := by
    rw [← hsel0]; cases s.minD <;> simp
  have e2' : (s2.entries = []) ↔ s2.minD.isSome = false := by
    rw [← hsel2]; cases s2.minD <;> simp
  subst c1 c2
  unfold edgeOpt
  cases hb0 : s.minD.isSome <;> cases hb1 : s1.minD.isSome <;> cases hb2 : s2.minD.isSome <;>
    simp only [hb0, hb2] at e0 e2' ⊢ <;>
    simp [ASet.fire, hk, hn, e2'] <;> simp_all


/-! ## callbacks of one notification are exactly the emptiness edges -/

/-- replay a callback sequence from a state: every callback must flip the state -/
def replay : Bool → List Bool → Option Bool
  | b, [] => some b
  | b, x :: xs => if x = b then none else replay x xs

theorem replay_append (b : Bool) (l1 l2 : List Bool) :
    replay b (l1 ++ l2) = (replay b l1).bind fun b' => replay b' l2 := by
  induction l1 generalizing b with
  | nil => simp [replay]
  | cons x xs ih =>
    simp only [List.cons_append, replay]
    split
    · simp
    · exact ih x

theorem replay_edgeOpt (b b' : Bool) : replay b (edgeOpt b b').toList = some b' := by
  unfold edgeOpt; cases b <;> cases b' <;> simp [replay]

theorem notify_replay_min (s : ASet) (d : Nat) (a : Bool) (lat : Option Int) :
    replay s.minD.isSome (s.notify d a lat).2 = some (s.notify d a lat).1.minD.isSome := by
  rw [notify_eq]
  simp only [fire_minD]
  rw [replay_append, phase1_cb, replay_edgeOpt, phase2_cb]
  simp only [Option.bind_some]   
  exact replay_edgeOpt _ _

theorem notify_nonmin_silent (s : ASet) (d : Nat) (a : Bool) (lat : Option Int) (h : s.minPolicy = false) :
    (s.notify d a lat).2 = [] := by
  rw [notify_eq]
  have : s.effLat lat = none := by unfold ASet.effLat; simp [h]
  rw [this]
  have h1 : (s.phase1 d a none).2 = none := by
    unfold ASet.phase1; simp [h]; split <;> split <;> rfl
  have hp : (s.phase1 d a none).1.minPolicy = false := by
    rw [(phase1_static s d a none).2.2.2.1]; exact h
  have h2 : ((s.phase1 d a none).1.phase2 d a none).2 = none := by
    unfold ASet.phase2; simp [hp]
  rw [h1, h2]; rfl

/-- For a latency-policy set satisfying the invariant, the callbacks of one notification are
exactly the edges of "the set is non-empty". -/
theorem notify_replay (s : ASet) (d : Nat) (a : Bool) (lat : Option Int) (h : SetInv s)
    (hmp : s.minPolicy = true) :
    replay (!s.entries.isEmpty) (s.notify d a lat).2 = some (!(s.notify d a lat).1.entries.isEmpty) := by
  have h2 := notify_inv s d a lat h
  have hmp2 : (s.notify d a lat).1.minPolicy = true := by rw [(notify_static s d a lat).2.2.2.1]; exact hmp
  have e0 : (!s.entries.isEmpty) = s.minD.isSome := by
    have := h.sel hmp
    cases hm : s.minD <;> cases he : s.entries <;> simp_all
  have e2 : (!(s.notify d a lat).1.entries.isEmpty) = (s.notify d a lat).1.minD.isSome := by
    have := h2.sel hmp2
    cases hm : (s.notify d a lat).1.minD <;> cases he : (s.notify d a lat).1.entries <;> simp_all
  rw [e0, e2]; exact notify_replay_min s d a lat

/-- the per-set invariant carried by every reachable world -/
def GoodSet (s : ASet) : Prop := SetInv s

theorem goodSet_notify (s : ASet) (d : Nat) (a : Bool) (o : Oracle) (h : GoodSet s) :
    GoodSet (s.notify d a (o.get s.gid s.idx d)).1 := notify_inv s d a _ h

/-! ## world level: a per-set property preserved by notifications is preserved by every event -/

section pres
variable (P : ASet → Prop) (o : Oracle)

/-- `P` is stable under a notification with this event's oracle -/
def NotifyStable : Prop := ∀ s d a, P s → P (s.notify d a (o.get s.gid s.idx d)).1

theorem notifyOne_pres (hP : NotifyStable P o) (s : ASet) (n c : Nat) (a : Bool) (h : P s) :
    P (notifyOne s n c a o).1 := by
  unfold notifyOne; split
  · exact hP s n a h
  · exact h

theorem notifyAll_pres (hP : NotifyStable P o) (sets : List ASet) (n c : Nat) (a : Bool)
    (h : ∀ s ∈ sets, P s) : ∀ s ∈ (notifyAll sets n c a o).1, P s := by
  induction sets with
  | nil => intro s hs; simp [notifyAll] at hs
  | cons x xs ih =>
    intro s hs
    simp only [notifyAll, List.mem_cons] at hs
    rcases hs with rfl | hs
    · exact notifyOne_pres P o hP x n c a (h x List.mem_cons_self)
    · exact ih (fun s hs => h s (List.mem_cons_of_mem _ hs)) s hs

def SetsAll (w : World) : Prop := ∀ s ∈ w.sets, P s

theorem markForced_pres (hP : NotifyStable P o) (w : World) (n : Nat) (t : Typ) (h : SetsAll P w) :
    SetsAll P (markForced w n t o).1 := notifyAll_pres P o hP w.sets n t.idx false h

theorem escalateFrom_pres (hP : NotifyStable P o) (ts : List Typ) (w : World) (n : Nat) (h : SetsAll P w) :
    SetsAll P (escalateFrom ts w n o).1 := by
  induction ts generalizing w with
  | nil => exact h
  | cons t ts ih => exact ih _ (markForced_pres P o hP w n t h)

theorem cleanupFailures_sets (w : World) : (cleanupFailures w).sets = w.sets := by
  unfold cleanupFailures; split <;> rfl

theorem recordFailure_sets (w : World) (a : Nat) : (recordFailure w a).1.sets = w.sets := by
  unfold recordFailure; simp only; split <;> exact cleanupFailures_sets w

theorem markUnavail_pres (hP : NotifyStable P o) (w : World) (n : Nat) (t : Typ) (tr : Bool) (h : SetsAll P w) :
    SetsAll P (markUnavail w n t tr o).1 := by
  unfold markUnavail
  split
  · exact h
  · simp only
    apply notifyAll_pres P o hP
    split
    · split
      · apply escalateFrom_pres P o hP
        intro s hs; rw [recordFailure_sets] at hs; exact h s hs
      · intro s hs; rw [recordFailure_sets] at hs; exact h s hs
    · exact h

theorem markAvail_pres (hP : NotifyStable P o) (w : World) (n : Nat) (t : Typ) (h : SetsAll P w) :
    SetsAll P (markAvail w n t o).1 := notifyAll_pres P o hP w.sets n t.idx true h

theorem trafficOk_pres (hP : NotifyStable P o) (w : World) (n : Nat) (t : Typ) (h : SetsAll P w) :
    SetsAll P (trafficOk w n t o).1 := by
  unfold trafficOk; simp only; split
  · exact markAvail_pres P o hP _ n t h
  · exact h

theorem restoreIdx_pres (hP : NotifyStable P o) (w : World) (n : Nat) (s : Snapshot) (i : Nat) (h : SetsAll P w) :
    SetsAll P (restoreIdx w n s o i).1 := notifyAll_pres P o hP w.sets n (canon i) (s.alive i) h

theorem restoreFrom_pres (hP : NotifyStable P o) (is : List Nat) (w : World) (n : Nat) (s : Snapshot)
    (h : SetsAll P w) : SetsAll P (restoreFrom is w n s o).1 := by
  induction is generalizing w with
  | nil => exact h
  | cons i is ih => exact ih _ (restoreIdx_pres P o hP w n s i h)

theorem markAliveFallback_pres (hP : NotifyStable P o) (w : World) (n : Nat) (t : Typ) (h : SetsAll P w) :
    SetsAll P (markAliveFallback w n t o).1 := notifyAll_pres P o hP w.sets n t.idx true h

theorem floorOne_pres (hP : NotifyStable P o) (w : World) (g : Nat) (fb : Nat → Option Nat) (t : Typ)
    (h : SetsAll P w) : SetsAll P (floorOne w g fb o t).1 := by
  unfold floorOne
  split
  · exact h
  · split
    · exact h
    · split
      · exact h
      · exact markAliveFallback_pres P o hP w _ t h

theorem floorFrom_pres (hP : NotifyStable P o) (ts : List Typ) (w : World) (g : Nat) (fb : Nat → Option Nat)
    (h : SetsAll P w) : SetsAll P (floorFrom ts w g fb o).1 := by
  induction ts generalizing w with
  | nil => exact h
  | cons t ts ih => exact ih _ (floorOne_pres P o hP w g fb t h)

theorem inheritPairs_pres (hP : NotifyStable P o) (ps : List (Nat × Nat)) : ∀ w : World, SetsAll P w →
    SetsAll P (inheritPairs ps w o).1 := by
  induction ps with
  | nil => intro w h; exact h
  | cons p ps ih => intro w h; exact ih _ (restoreFrom_pres P o hP _ w p.1 _ h)

theorem restoreGroups_pres (hP : NotifyStable P o) (gs : List ReloadGroup) : ∀ w : World, SetsAll P w →
    SetsAll P (restoreGroups gs w o).1 := by
  induction gs with
  | nil => intro w h; exact h
  | cons G gs ih => intro w h; exact ih _ (inheritPairs_pres P o hP G.pairs w h)

theorem floorGroups_pres (hP : NotifyStable P o) (gs : List ReloadGroup) : ∀ w : World, SetsAll P w →
    SetsAll P (floorGroups gs w o).1 := by
  induction gs with
  | nil => intro w h; exact h
  | cons G gs ih => intro w h; exact ih _ (floorFrom_pres P o hP _ w G.g G.fb h)

theorem reload_pres (hP : NotifyStable P o) (w : World) (gs : List ReloadGroup) (h : SetsAll P w) :
    SetsAll P (reload w gs o).1 :=
  floorGroups_pres P o hP gs _ (restoreGroups_pres P o hP gs w h)

end pres


theorem goodSet_stable (o : Oracle) : NotifyStable GoodSet o :=
  fun s d a h => goodSet_notify s d a o h

theorem notifyEach_pres (P : ASet → Prop) (o : Oracle) (hP : NotifyStable P o) (alive : Nat → Bool) (ds : List Nat) :
    ∀ s, P s → P (notifyEach s alive o ds).1 := by
  induction ds with
  | nil => intro s h; exact h
  | cons d ds ih => intro s h; exact ih _ (hP s d (alive d) h)

theorem goodSet_fresh (g ob : Nat) (p : Policy) (tol : Int) (ms : List (Nat × Int)) (t : Typ) :
    GoodSet ⟨g, ob, t.idx, p.isMin, tol, ms.map (·.1),
      (fun d => match ms.find? fun e => e.1 == d with | some e => e.2 | none => 0), false, [], none, hour, true, 0⟩ :=
  ⟨⟨by simp [keys], by simp, by simp, by simp, by simp⟩, by simp⟩

theorem goodSet_active (s : ASet) (b : Bool) (h : GoodSet s) : GoodSet { s with active := b } :=
  ⟨⟨h.nodup, h.minMem, h.minNone, h.sel, h.nonMin⟩, h.bit⟩

theorem goodSet_init (s : ASet) (h : GoodSet s) : GoodSet { s with kbit := true, ncb := 0 } := by
  refine ⟨⟨h.nodup, h.minMem, h.minNone, h.sel, h.nonMin⟩, ?_⟩
  intro _; exact ⟨fun _ => rfl, fun _ => Or.inr rfl⟩

theorem newSet_good (w : World) (g ob : Nat) (p : Policy) (tol : Int) (ms : List (Nat × Int)) (o : Oracle) (t : Typ) :
    GoodSet (newSet w g ob p tol ms o t).1 := by
  unfold newSet
  simp only
  apply goodSet_active
  apply notifyEach_pres GoodSet o (goodSet_stable o)
  apply notifyEach_pres GoodSet o (goodSet_stable o)
  exact goodSet_fresh g ob p tol ms t

theorem newSets_good (w : World) (g ob : Nat) (p : Policy) (tol : Int) (ms : List (Nat × Int)) (o : Oracle)
    (ts : List Typ) : ∀ s ∈ (newSets w g ob p tol ms o ts).1, GoodSet s := by
  induction ts with
  | nil => intro s hs; simp [newSets] at hs
  | cons t ts ih =>
    intro s hs
    simp only [newSets, List.mem_cons] at hs
    rcases hs with rfl | hs
    · exact newSet_good w g ob p tol ms o t
    · exact ih s hs

theorem step_good (w : World) (e : Event) (h : SetsAll GoodSet w) : SetsAll GoodSet (step w e).1 := by
  cases e with
  | node n a => simp only [step]; split <;> exact h
  | group g ob p tol ms o =>
    simp only [step]; split
    · exact h
    · intro s hs
      simp only [newGroup, List.mem_append, List.mem_map] at hs
      rcases hs with hs | ⟨s', hs', rfl⟩
      · exact h s hs
      · apply goodSet_init
        split at hs'
        · exact newSets_good w g ob p tol ms o _ s' hs'
        · simp at hs'
  | close g =>
    intro s hs
    simp only [step, List.mem_map] at hs
    obtain ⟨s', hs', rfl⟩ := hs
    split
    · exact goodSet_active s' false (h s' hs')
    · exact h s' hs'
  | probe n t a1 a2 o =>
    simp only [step]; split
    · exact markAvail_pres GoodSet o (goodSet_stable o) _ n t h
    · exact markUnavail_pres GoodSet o (goodSet_stable o) w n t false h
    · exact h
  | txn n t ign o =>
    simp only [step]; split
    · exact h
    · exact markUnavail_pres GoodSet o (goodSet_stable o) w n t false h
  | tfail n t ign o =>
    simp only [step]; split
    · exact h
    · exact markUnavail_pres GoodSet o (goodSet_stable o) w n t true h
  | forced n t o => exact markForced_pres GoodSet o (goodSet_stable o) w n t h
  | tok n t o => exact trafficOk_pres GoodSet o (goodSet_stable o) w n t h
  | sbegin => exact h
  | send =>
    simp only [step]; split
    · exact h
    · split <;> exact h
  | tick d => exact h
  | resetGlobal => exact h
  | inherit n m o => exact restoreFrom_pres GoodSet o (goodSet_stable o) _ w n _ h
  | restore n s o => exact restoreFrom_pres GoodSet o (goodSet_stable o) _ w n s h
  | floor g fb o => exact floorFrom_pres GoodSet o (goodSet_stable o) _ w g fb h
  | reload gs o => exact reload_pres GoodSet o (goodSet_stable o) w gs h

theorem run_good (es : List Event) : ∀ (w : World), SetsAll GoodSet w → SetsAll GoodSet (run w es).1 := by
  induction es with
  | nil => intro w h; exact h
  | cons e es ih => intro w h; exact ih _ (step_good w e h)


/-! ## node maps after each primitive -/

@[simp] theorem setNode_nodes (w : World) (n : Nat) (nd : Node) : (w.setNode n nd).nodes = upd w.nodes n nd := rfl
@[simp] theorem setNode_sets (w : World) (n : Nat) (nd : Node) : (w.setNode n nd).sets = w.sets := rfl

theorem markForced_nodes (w : World) (n : Nat) (t : Typ) (o : Oracle) :
    (markForced w n t o).1.nodes = upd w.nodes n ((w.nodes n).forced t) := rfl

theorem escalateFrom_nodes (ts : List Typ) (n : Nat) (o : Oracle) : ∀ w : World,
    (escalateFrom ts w n o).1.nodes = upd w.nodes n (ts.foldl Node.forced (w.nodes n)) := by
  induction ts with
  | nil => intro w; funext m; simp [escalateFrom, upd]; intro h; rw [h]
  | cons t ts ih =>
    intro w
    simp only [escalateFrom, List.foldl_cons]
    rw [ih, markForced_nodes]
    simp

theorem markAvail_nodes (w : World) (n : Nat) (t : Typ) (o : Oracle) :
    (markAvail w n t o).1.nodes = upd w.nodes n ((w.nodes n).avail t) := rfl

theorem cleanupFailures_nodes (w : World) : (cleanupFailures w).nodes = w.nodes := by
  unfold cleanupFailures; split <;> rfl

theorem recordFailure_nodes (w : World) (a : Nat) : (recordFailure w a).1.nodes = w.nodes := by
  unfold recordFailure; simp only; split <;> exact cleanupFailures_nodes w

/-- did this counted failure escalate? (`recordProxyFailure` returned true) -/
def escalates (w : World) (n : Nat) (t : Typ) (tr : Bool) : Bool :=
  let nd := w.nodes n
  let nd' := nd.counted t tr
  (nd.alive t.idx && !nd'.alive t.idx) && decide (nd.addr ≠ 0) && (recordFailure (w.setNode n nd') nd.addr).2

theorem markUnavail_nodes (w : World) (n : Nat) (t : Typ) (tr : Bool) (o : Oracle) :
    (markUnavail w n t tr o).1.nodes =
      if w.suppressed then w.nodes
      else if escalates w n t tr then upd w.nodes n (escalationTyps.foldl Node.forced ((w.nodes n).counted t tr))
      else upd w.nodes n ((w.nodes n).counted t tr) := by
  unfold markUnavail escalates
  split
  · rfl
  · simp only
    split
    · rename_i hc
      split
      · rename_i hr
        simp only [escalate, escalateFrom_nodes, recordFailure_nodes, setNode_nodes, upd_same, upd_upd]
        simp [hc.1, hc.2, hr]
      · rename_i hr
        simp only [recordFailure_nodes, setNode_nodes]
        simp [hc.1, hc.2, hr]
    · rename_i hc
      simp only [setNode_nodes]
      have : ((w.nodes n).alive t.idx && !((w.nodes n).counted t tr).alive t.idx && decide ((w.nodes n).addr ≠ 0)) = false := by
        cases h1 : ((w.nodes n).alive t.idx && !((w.nodes n).counted t tr).alive t.idx)
        · simp
        · simp only [h1, true_and, Decidable.not_not] at hc
          simp [hc]
      simp only [this, Bool.false_and, Bool.false_eq_true, if_false]

theorem trafficOk_nodes (w : World) (n : Nat) (t : Typ) (o : Oracle) :
    (trafficOk w n t o).1.nodes =
      if t.isData && !(w.nodes n).alive t.idx then upd w.nodes n (((w.nodes n).clearTraffic t).avail t)
      else upd w.nodes n ((w.nodes n).clearTraffic t) := by
  unfold trafficOk; simp only; split
  · rw [markAvail_nodes]; simp
  · rfl

theorem restoreIdx_nodes (w : World) (n : Nat) (s : Snapshot) (o : Oracle) (i : Nat) :
    (restoreIdx w n s o i).1.nodes = upd w.nodes n ((w.nodes n).restoreIdx s i) := rfl

theorem restoreFrom_nodes (is : List Nat) (n : Nat) (s : Snapshot) (o : Oracle) : ∀ w : World,
    (restoreFrom is w n s o).1.nodes = upd w.nodes n (is.foldl (fun nd i => nd.restoreIdx s i) (w.nodes n)) := by
  induction is with
  | nil => intro w; funext m; simp [restoreFrom, upd]; intro h; rw [h]
  | cons i is ih =>
    intro w
    simp only [restoreFrom, List.foldl_cons]
    rw [ih, restoreIdx_nodes]
    simp

theorem markAliveFallback_nodes (w : World) (n : Nat) (t : Typ) (o : Oracle) :
    (markAliveFallback w n t o).1.nodes = upd w.nodes n ((w.nodes n).avail t) := rfl


/-! ## duplicate-free entries: holds for every oracle -/

theorem notify_keys (s : ASet) (d : Nat) (a : Bool) (lat : Option Int) (hnd : (keys s.entries).Nodup) :
    (keys (s.notify d a lat).1.entries).Nodup ∧
    (∀ x, x ∈ keys (s.notify d a lat).1.entries ↔ if x = d then a = true else x ∈ keys s.entries) := by
  rw [notify_eq]
  simp only [fire_entries]
  generalize s.effLat lat = lat'
  have hk1 := phase1_keys s d a lat' hnd
  have hk2 := phase2_keys (s.phase1 d a lat').1 d a lat'
  refine ⟨?_, fun x => by rw [hk2]; exact hk1 x⟩
  rw [hk2]
  unfold ASet.phase1
  cases a <;> cases hh : s.has d <;> simp only [Bool.false_eq_true, if_false, if_true]
  · exact hnd
  · rw [has_iff] at hh
    have sp := (swapRemove_spec s.entries d hnd hh).1
    split
    · simp only [calcMin_entries, setMin_entries, remove_entries]; exact sp
    · exact sp
  · rw [has_false_iff] at hh
    simp only [add_entries, keys_append_single]
    rw [List.nodup_append]
    refine ⟨hnd, by simp, ?_⟩
    intro a ha b hb
    rw [List.mem_singleton] at hb
    rw [hb]; intro hab; exact hh (hab ▸ ha)
  · exact hnd

def NodupSet (s : ASet) : Prop := (keys s.entries).Nodup

theorem nodupSet_stable (o : Oracle) : NotifyStable NodupSet o :=
  fun s d a h => (notify_keys s d a _ h).1

/-! ## groups see the node's state -/

def AgreeAt (nodes : Nat → Node) (s : ASet) (m : Nat) : Prop :=
  m ∈ keys s.entries ↔ (nodes m).alive s.idx = true

/-- every registered set agrees with every member's alive flag, except possibly at pairs in `Ex` -/
def AgreeEx (nodes : Nat → Node) (sets : List ASet) (Ex : Nat → Nat → Prop) : Prop :=
  ∀ s ∈ sets, s.active = true → ∀ m ∈ s.members, Ex m s.idx ∨ AgreeAt nodes s m

theorem notifyAll_agree (nodes : Nat → Node) (n c : Nat) (a : Bool) (o : Oracle) (Ex : Nat → Nat → Prop)
    (ha : (nodes n).alive c = a) : ∀ sets : List ASet, (∀ s ∈ sets, NodupSet s) →
    AgreeEx nodes sets (fun m i => (m = n ∧ i = c) ∨ Ex m i) →
    AgreeEx nodes (notifyAll sets n c a o).1 Ex := by
  intro sets
  induction sets with
  | nil => intro _ _ s hs; simp [notifyAll] at hs
  | cons x xs ih =>
    intro hnd hag s hs hact m hm
    simp only [notifyAll, List.mem_cons] at hs
    rcases hs with rfl | hs
    · unfold notifyOne at hact hm ⊢
      by_cases hc : x.active = true ∧ x.idx = c ∧ n ∈ x.members
      · simp only [hc, and_self, if_true] at hact hm ⊢
        generalize o.get x.gid c n = lat at *
        obtain ⟨_, _, hidx, _, _, hmem, _, hactive⟩ := notify_static x n a lat
        obtain ⟨_, hk⟩ := notify_keys x n a lat (hnd x List.mem_cons_self)
        rw [hmem] at hm
        by_cases hmn : m = n
        · right
          subst hmn
          unfold AgreeAt
          rw [hk, hidx, hc.2.1, ha]; simp
        · rcases hag x List.mem_cons_self hc.1 m hm with (⟨h1, _⟩ | h1) | h1
          · exact absurd h1 hmn
          · left; rw [hidx]; exact h1
          · right
            unfold AgreeAt at h1 ⊢
            rw [hk, hidx]; simp only [hmn, if_false]; exact h1
      · simp only [hc, if_false] at hact hm ⊢
        rcases hag x List.mem_cons_self hact m hm with (⟨h1, h2⟩ | h1) | h1
        · exfalso; apply hc; exact ⟨hact, h2, h1 ▸ hm⟩
        · left; exact h1
        · right; exact h1
    · exact ih (fun s hs => hnd s (List.mem_cons_of_mem _ hs))
        (fun s hs => hag s (List.mem_cons_of_mem _ hs)) s hs hact m hm

/-- updating one node at one index weakens agreement by exactly that pair -/
theorem agreeEx_update (nodes nodes' : Nat → Node) (sets : List ASet) (Ex : Nat → Nat → Prop) (n c : Nat)
    (hd : ∀ m i, (m = n ∧ i = c) ∨ (nodes' m).alive i = (nodes m).alive i)
    (h : AgreeEx nodes sets Ex) : AgreeEx nodes' sets (fun m i => (m = n ∧ i = c) ∨ Ex m i) := by
  intro s hs hact m hm
  rcases h s hs hact m hm with h1 | h1
  · left; right; exact h1
  · rcases hd m s.idx with h2 | h2
    · left; left; exact h2
    · right; unfold AgreeAt at *; rw [h2]; exact h1

theorem agreeEx_same (nodes nodes' : Nat → Node) (sets : List ASet) (Ex : Nat → Nat → Prop)
    (hd : ∀ m i, (nodes' m).alive i = (nodes m).alive i) (h : AgreeEx nodes sets Ex) : AgreeEx nodes' sets Ex := by
  intro s hs hact m hm
  rcases h s hs hact m hm with h1 | h1
  · left; exact h1
  · right; unfold AgreeAt at *; rw [hd]; exact h1

/-- a primitive that sets `alive (n, c) := a` (other flags untouched) and then notifies -/
theorem point_update_agree (w : World) (n c : Nat) (a : Bool) (o : Oracle) (nd' : Node) (Ex : Nat → Nat → Prop)
    (hnd : SetsAll NodupSet w) (ha : nd'.alive c = a) (hother : ∀ i, i ≠ c → nd'.alive i = (w.nodes n).alive i)
    (h : AgreeEx w.nodes w.sets Ex) :
    AgreeEx (upd w.nodes n nd') (notifyAll w.sets n c a o).1 Ex := by
  apply notifyAll_agree _ n c a o Ex (by simp [ha]) _ hnd
  apply agreeEx_update w.nodes _ w.sets Ex n c _ h
  intro m i
  by_cases hm : m = n
  · by_cases hi : i = c
    · left; exact ⟨hm, hi⟩
    · right; subst hm; simp [hother i hi]
  · right; rw [upd_other _ _ _ _ hm]


def AgreeW (w : World) (Ex : Nat → Nat → Prop) : Prop := AgreeEx w.nodes w.sets Ex

theorem forced_alive_other (nd : Node) (t : Typ) (i : Nat) (h : i ≠ t.idx) : (nd.forced t).alive i = nd.alive i := by
  simp [Node.forced, upd, h]
theorem forced_alive_self (nd : Node) (t : Typ) : (nd.forced t).alive t.idx = false := by simp [Node.forced]
theorem forced_alive_false (nd : Node) (t : Typ) (i : Nat) (h : nd.alive i = false) : (nd.forced t).alive i = false := by
  by_cases hi : i = t.idx
  · rw [hi]; exact forced_alive_self nd t
  · rw [forced_alive_other nd t i hi]; exact h
theorem foldl_forced_alive_false (ts : List Typ) (i : Nat) : ∀ nd : Node, nd.alive i = false →
    (ts.foldl Node.forced nd).alive i = false := by
  induction ts with
  | nil => intro nd h; exact h
  | cons t ts ih => intro nd h; exact ih _ (forced_alive_false nd t i h)
theorem avail_alive_other (nd : Node) (t : Typ) (i : Nat) (h : i ≠ t.idx) : (nd.avail t).alive i = nd.alive i := by
  simp [Node.avail, upd, h]
theorem avail_alive_self (nd : Node) (t : Typ) : (nd.avail t).alive t.idx = true := by simp [Node.avail]
theorem counted_alive_other (nd : Node) (t : Typ) (tr : Bool) (i : Nat) (h : i ≠ t.idx) :
    (nd.counted t tr).alive i = nd.alive i := by
  simp [Node.counted, upd, h]
@[simp] theorem clearTraffic_alive (nd : Node) (t : Typ) : (nd.clearTraffic t).alive = nd.alive := rfl
theorem restoreIdx_alive_other (nd : Node) (s : Snapshot) (idx i : Nat) (h : i ≠ canon idx) :
    (nd.restoreIdx s idx).alive i = nd.alive i := by
  simp [Node.restoreIdx, upd, h]
theorem restoreIdx_alive_self (nd : Node) (s : Snapshot) (idx : Nat) :
    (nd.restoreIdx s idx).alive (canon idx) = s.alive idx := by simp [Node.restoreIdx]

section agree
variable (o : Oracle) (Ex : Nat → Nat → Prop)

theorem markForced_agree (w : World) (n : Nat) (t : Typ) (hnd : SetsAll NodupSet w) (h : AgreeW w Ex) :
    AgreeW (markForced w n t o).1 Ex :=
  point_update_agree w n t.idx false o _ Ex hnd (forced_alive_self _ t) (fun i hi => forced_alive_other _ t i hi) h

theorem escalateFrom_agree (ts : List Typ) (n : Nat) : ∀ w : World, SetsAll NodupSet w → AgreeW w Ex →
    AgreeW (escalateFrom ts w n o).1 Ex := by
  induction ts with
  | nil => intro w _ h; exact h
  | cons t ts ih =>
    intro w hnd h
    exact ih _ (markForced_pres NodupSet o (nodupSet_stable o) w n t hnd) (markForced_agree o Ex w n t hnd h)

theorem markAvail_agree (w : World) (n : Nat) (t : Typ) (hnd : SetsAll NodupSet w) (h : AgreeW w Ex) :
    AgreeW (markAvail w n t o).1 Ex :=
  point_update_agree w n t.idx true o _ Ex hnd (avail_alive_self _ t) (fun i hi => avail_alive_other _ t i hi) h

theorem markAliveFallback_agree (w : World) (n : Nat) (t : Typ) (hnd : SetsAll NodupSet w) (h : AgreeW w Ex) :
    AgreeW (markAliveFallback w n t o).1 Ex :=
  point_update_agree w n t.idx true o _ Ex hnd (avail_alive_self _ t) (fun i hi => avail_alive_other _ t i hi) h

theorem restoreIdx_agree (w : World) (n : Nat) (s : Snapshot) (i : Nat) (hnd : SetsAll NodupSet w) (h : AgreeW w Ex) :
    AgreeW (restoreIdx w n s o i).1 Ex :=
  point_update_agree w n (canon i) (s.alive i) o _ Ex hnd (restoreIdx_alive_self _ s i)
    (fun j hj => restoreIdx_alive_other _ s i j hj) h

theorem restoreFrom_agree (is : List Nat) (n : Nat) (s : Snapshot) : ∀ w : World, SetsAll NodupSet w → AgreeW w Ex →
    AgreeW (restoreFrom is w n s o).1 Ex := by
  induction is with
  | nil => intro w _ h; exact h
  | cons i is ih =>
    intro w hnd h
    exact ih _ (restoreIdx_pres NodupSet o (nodupSet_stable o) w n s i hnd) (restoreIdx_agree o Ex w n s i hnd h)

theorem trafficOk_agree (w : World) (n : Nat) (t : Typ) (hnd : SetsAll NodupSet w) (h : AgreeW w Ex) :
    AgreeW (trafficOk w n t o).1 Ex := by
  have h1 : AgreeW (w.setNode n ((w.nodes n).clearTraffic t)) Ex := by
    apply agreeEx_same w.nodes _ w.sets Ex _ h
    intro m i
    by_cases hm : m = n
    · subst hm; simp
    · simp [upd_other _ _ _ _ hm]
  unfold trafficOk; simp only; split
  · exact markAvail_agree o Ex _ n t hnd h1
  · exact h1

theorem floorOne_agree (w : World) (g : Nat) (fb : Nat → Option Nat) (t : Typ) (hnd : SetsAll NodupSet w)
    (h : AgreeW w Ex) : AgreeW (floorOne w g fb o t).1 Ex := by
  unfold floorOne
  split
  · exact h
  · split
    · exact h
    · split
      · exact h
      · exact markAliveFallback_agree o Ex w _ t hnd h

theorem floorFrom_agree (ts : List Typ) (g : Nat) (fb : Nat → Option Nat) : ∀ w : World, SetsAll NodupSet w →
    AgreeW w Ex → AgreeW (floorFrom ts w g fb o).1 Ex := by
  induction ts with
  | nil => intro w _ h; exact h
  | cons t ts ih =>
    intro w hnd h
    exact ih _ (floorOne_pres NodupSet o (nodupSet_stable o) w g fb t hnd) (floorOne_agree o Ex w g fb t hnd h)

theorem markUnavail_agree (w : World) (n : Nat) (t : Typ) (tr : Bool) (hnd : SetsAll NodupSet w) (h : AgreeW w Ex) :
    AgreeW (markUnavail w n t tr o).1 Ex := by
  unfold markUnavail
  split
  · exact h
  · simp only
    -- after the counter update the pair (n, t.idx) is pending
    have h1 : AgreeW (w.setNode n ((w.nodes n).counted t tr)) (fun m i => (m = n ∧ i = t.idx) ∨ Ex m i) := by
      apply agreeEx_update w.nodes _ w.sets Ex n t.idx _ h
      intro m i
      by_cases hm : m = n
      · by_cases hi : i = t.idx
        · left; exact ⟨hm, hi⟩
        · right; subst hm; simp [counted_alive_other _ t tr i hi]
      · right; simp [upd_other _ _ _ _ hm]
    have hnd1 : SetsAll NodupSet (w.setNode n ((w.nodes n).counted t tr)) := hnd
    split
    · rename_i hc
      split
      · -- escalation
        rename_i hr
        have hrf : AgreeW (recordFailure (w.setNode n ((w.nodes n).counted t tr)) (w.nodes n).addr).1
            (fun m i => (m = n ∧ i = t.idx) ∨ Ex m i) := by
          unfold AgreeW; rw [recordFailure_nodes, recordFailure_sets]; exact h1
        have hndrf : SetsAll NodupSet (recordFailure (w.setNode n ((w.nodes n).counted t tr)) (w.nodes n).addr).1 := by
          intro s hs; rw [recordFailure_sets] at hs; exact hnd s hs
        have he := escalateFrom_agree o _ escalationTyps n _ hndrf hrf
        have hnde := escalateFrom_pres NodupSet o (nodupSet_stable o) escalationTyps _ n hndrf
        apply notifyAll_agree _ n t.idx _ o Ex _ _ hnde he
        simp only [escalateFrom_nodes, recordFailure_nodes, setNode_nodes, upd_same]
        have hdead : ((w.nodes n).counted t tr).alive t.idx = false := by
          have := hc.1; simp only [Bool.and_eq_true, Bool.not_eq_true'] at this; exact this.2
        rw [hdead]
        exact foldl_forced_alive_false _ _ _ hdead
      · have hrf : AgreeW (recordFailure (w.setNode n ((w.nodes n).counted t tr)) (w.nodes n).addr).1
            (fun m i => (m = n ∧ i = t.idx) ∨ Ex m i) := by
          unfold AgreeW; rw [recordFailure_nodes, recordFailure_sets]; exact h1
        have hndrf : SetsAll NodupSet (recordFailure (w.setNode n ((w.nodes n).counted t tr)) (w.nodes n).addr).1 := by
          intro s hs; rw [recordFailure_sets] at hs; exact hnd s hs
        apply notifyAll_agree _ n t.idx _ o Ex _ _ hndrf hrf
        simp [recordFailure_nodes]
    · apply notifyAll_agree _ n t.idx _ o Ex _ _ hnd1 h1
      simp

theorem inheritPairs_agree (ps : List (Nat × Nat)) : ∀ w : World, SetsAll NodupSet w → AgreeW w Ex →
    SetsAll NodupSet (inheritPairs ps w o).1 ∧ AgreeW (inheritPairs ps w o).1 Ex := by
  induction ps with
  | nil => intro w h1 h2; exact ⟨h1, h2⟩
  | cons p ps ih =>
    intro w hnd h
    exact ih _ (restoreFrom_pres NodupSet o (nodupSet_stable o) _ w p.1 _ hnd) (restoreFrom_agree o Ex _ p.1 _ w hnd h)

theorem restoreGroups_agree (gs : List ReloadGroup) : ∀ w : World, SetsAll NodupSet w → AgreeW w Ex →
    SetsAll NodupSet (restoreGroups gs w o).1 ∧ AgreeW (restoreGroups gs w o).1 Ex := by
  induction gs with
  | nil => intro w h1 h2; exact ⟨h1, h2⟩
  | cons G gs ih =>
    intro w hnd h
    obtain ⟨a, b⟩ := inheritPairs_agree o Ex G.pairs w hnd h
    exact ih _ a b

theorem floorGroups_agree (gs : List ReloadGroup) : ∀ w : World, SetsAll NodupSet w → AgreeW w Ex →
    SetsAll NodupSet (floorGroups gs w o).1 ∧ AgreeW (floorGroups gs w o).1 Ex := by
  induction gs with
  | nil => intro w h1 h2; exact ⟨h1, h2⟩
  | cons G gs ih =>
    intro w hnd h
    exact ih _ (floorFrom_pres NodupSet o (nodupSet_stable o) _ w G.g G.fb hnd) (floorFrom_agree o Ex _ G.g G.fb w hnd h)

theorem reload_agree (w : World) (gs : List ReloadGroup) (hnd : SetsAll NodupSet w) (h : AgreeW w Ex) :
    SetsAll NodupSet (reload w gs o).1 ∧ AgreeW (reload w gs o).1 Ex := by
  obtain ⟨a, b⟩ := restoreGroups_agree o Ex gs w hnd h
  exact floorGroups_agree o Ex gs _ a b

end agree


theorem nodupB_iff (l : List Nat) : nodupB l = true ↔ l.Nodup := by
  induction l with
  | nil => simp [nodupB]
  | cons x xs ih =>
    simp only [nodupB, Bool.and_eq_true, Bool.not_eq_true', List.nodup_cons, ih]
    constructor
    · rintro ⟨h1, h2⟩; exact ⟨by simpa using h1, h2⟩
    · rintro ⟨h1, h2⟩; exact ⟨by simpa using h1, h2⟩

theorem notifyEach_static (o : Oracle) (alive : Nat → Bool) : ∀ (ds : List Nat) (s : ASet),
    s.sameStatic (notifyEach s alive o ds).1 := by
  intro ds
  induction ds with
  | nil => intro s; exact sameStatic_refl s
  | cons d ds ih => intro s; exact sameStatic_trans (notify_static s d _ _) (ih _)

theorem notifyEach_keys (o : Oracle) (alive : Nat → Bool) : ∀ (ds : List Nat) (s : ASet), NodupSet s → ds.Nodup →
    NodupSet (notifyEach s alive o ds).1 ∧
    ∀ x, x ∈ keys (notifyEach s alive o ds).1.entries ↔ if x ∈ ds then alive x = true else x ∈ keys s.entries := by
  intro ds
  induction ds with
  | nil => intro s h _; exact ⟨h, fun x => by simp [notifyEach]⟩
  | cons d ds ih =>
    intro s h hnd
    obtain ⟨hd, hds⟩ := List.nodup_cons.mp hnd
    obtain ⟨k1, k2⟩ := notify_keys s d (alive d) (o.get s.gid s.idx d) h
    obtain ⟨i1, i2⟩ := ih _ k1 hds
    refine ⟨i1, fun x => ?_⟩
    simp only [notifyEach]
    rw [i2, k2]
    by_cases hx : x = d
    · subst hx; simp [hd]
    · simp [hx]

theorem newSet_spec (w : World) (g ob : Nat) (p : Policy) (tol : Int) (ms : List (Nat × Int)) (o : Oracle) (t : Typ)
    (hms : (ms.map (·.1)).Nodup) :
    let s := (newSet w g ob p tol ms o t).1
    NodupSet s ∧ s.gid = g ∧ s.idx = t.idx ∧ s.members = ms.map (·.1) ∧ s.active = true ∧
    ∀ m ∈ s.members, AgreeAt w.nodes s m := by
  simp only [newSet]
  generalize hs0 : (⟨g, ob, t.idx, p.isMin, tol, ms.map (·.1),
      (fun d => match ms.find? fun e => e.1 == d with | some e => e.2 | none => 0), false, [], none, hour, true, 0⟩ : ASet) = s0
  have hs0m : s0.members = ms.map (·.1) := by rw [← hs0]
  have hs0i : s0.idx = t.idx := by rw [← hs0]
  have hs0g : s0.gid = g := by rw [← hs0]
  have hs0e : s0.entries = [] := by rw [← hs0]
  have hn0 : NodupSet s0 := by unfold NodupSet; rw [hs0e]; simp [keys]
  obtain ⟨a1, a2⟩ := notifyEach_keys o (fun _ => false) (ms.map (·.1)) s0 hn0 hms
  have st1 := notifyEach_static o (fun _ => false) (ms.map (·.1)) s0
  obtain ⟨b1, b2⟩ := notifyEach_keys o (fun d => (w.nodes d).alive t.idx) (ms.map (·.1)) _ a1 hms
  have st2 := notifyEach_static o (fun d => (w.nodes d).alive t.idx) (ms.map (·.1)) (notifyEach s0 (fun _ => false) o (ms.map (·.1))).1
  have st := sameStatic_trans st1 st2
  obtain ⟨sg, _, si, _, _, sm, _, _⟩ := st
  refine ⟨b1, sg.trans hs0g, si.trans hs0i, sm.trans hs0m, trivial, ?_⟩
  intro m hm
  rw [sm, hs0m] at hm
  show m ∈ keys _ ↔ _
  simp only
  rw [b2, si, hs0i]
  simp [hm]

def Inv (w : World) : Prop := SetsAll NodupSet w ∧ AgreeW w (fun _ _ => False)

theorem newSets_spec (w : World) (g ob : Nat) (p : Policy) (tol : Int) (ms : List (Nat × Int)) (o : Oracle)
    (hms : (ms.map (·.1)).Nodup) (ts : List Typ) :
    ∀ s ∈ (newSets w g ob p tol ms o ts).1, NodupSet s ∧ s.gid = g ∧ s.members = ms.map (·.1) ∧
      ∀ m ∈ s.members, AgreeAt w.nodes s m := by
  induction ts with
  | nil => intro s hs; simp [newSets] at hs
  | cons t ts ih =>
    intro s hs
    simp only [newSets, List.mem_cons] at hs
    rcases hs with rfl | hs
    · obtain ⟨h1, h2, _, h4, _, h6⟩ := newSet_spec w g ob p tol ms o t hms
      exact ⟨h1, h2, h4, h6⟩
    · exact ih s hs

theorem nodeInUse_false (w : World) (n : Nat) (h : w.nodeInUse n = false) : ∀ s ∈ w.sets, n ∉ s.members := by
  intro s hs hn
  unfold World.nodeInUse at h
  rw [List.any_eq_false] at h
  have := h s hs
  simp at this
  exact this hn

theorem step_inv (w : World) (e : Event) (h : Inv w) : Inv (step w e).1 := by
  obtain ⟨hnd, hag⟩ := h
  cases e with
  | node n a =>
    simp only [step]; split
    · exact ⟨hnd, hag⟩
    · rename_i hu
      refine ⟨hnd, ?_⟩
      have hu' := nodeInUse_false w n (by simpa using hu)
      intro s hs hact m hm
      rcases hag s hs hact m hm with h1 | h1
      · exact absurd h1 id
      · right
        have : m ≠ n := fun hmn => hu' s hs (hmn ▸ hm)
        unfold AgreeAt at *
        simp only [setNode_nodes, upd_other _ _ _ _ this]; exact h1
  | group g ob p tol ms o =>
    simp only [step]; split
    · exact ⟨hnd, hag⟩
    · rename_i hg
      simp only [Bool.or_eq_true, not_or, Bool.not_eq_true, Bool.not_eq_true'] at hg
      have hms : (ms.map (·.1)).Nodup := by
        rw [← nodupB_iff]; have := hg.2; simpa using this
      simp only [newGroup]
      constructor
      · intro s hs
        simp only [List.mem_append, List.mem_map] at hs
        rcases hs with hs | ⟨s', hs', rfl⟩
        · exact hnd s hs
        · split at hs'
          · exact (newSets_spec w g ob p tol ms o hms _ s' hs').1
          · simp at hs'
      · intro s hs hact m hm
        simp only [List.mem_append, List.mem_map] at hs
        rcases hs with hs | ⟨s', hs', rfl⟩
        · exact hag s hs hact m hm
        · right
          split at hs'
          · exact (newSets_spec w g ob p tol ms o hms _ s' hs').2.2.2 m hm
          · simp at hs'
  | close g =>
    simp only [step]
    constructor
    · intro s hs
      simp only [List.mem_map] at hs
      obtain ⟨s', hs', rfl⟩ := hs
      split
      · exact hnd s' hs'
      · exact hnd s' hs'
    · intro s hs hact m hm
      simp only [List.mem_map] at hs
      obtain ⟨s', hs', rfl⟩ := hs
      by_cases hg : s'.gid = g
      · simp [hg] at hact
      · simp only [hg, if_false] at hact hm ⊢
        exact hag s' hs' hact m hm
  | probe n t a1 a2 o =>
    simp only [step]; split
    · exact ⟨markAvail_pres NodupSet o (nodupSet_stable o) _ n t hnd, markAvail_agree o _ _ n t hnd hag⟩
    · exact ⟨markUnavail_pres NodupSet o (nodupSet_stable o) w n t false hnd, markUnavail_agree o _ w n t false hnd hag⟩
    · exact ⟨hnd, hag⟩
  | txn n t ign o =>
    simp only [step]; split
    · exact ⟨hnd, hag⟩
    · exact ⟨markUnavail_pres NodupSet o (nodupSet_stable o) w n t false hnd, markUnavail_agree o _ w n t false hnd hag⟩
  | tfail n t ign o =>
    simp only [step]; split
    · exact ⟨hnd, hag⟩
    · exact ⟨markUnavail_pres NodupSet o (nodupSet_stable o) w n t true hnd, markUnavail_agree o _ w n t true hnd hag⟩
  | forced n t o =>
    exact ⟨markForced_pres NodupSet o (nodupSet_stable o) w n t hnd, markForced_agree o _ w n t hnd hag⟩
  | tok n t o =>
    exact ⟨trafficOk_pres NodupSet o (nodupSet_stable o) w n t hnd, trafficOk_agree o _ w n t hnd hag⟩
  | sbegin => exact ⟨hnd, hag⟩
  | send =>
    simp only [step]; split
    · exact ⟨hnd, hag⟩
    · split <;> exact ⟨hnd, hag⟩
  | tick d => exact ⟨hnd, hag⟩
  | resetGlobal => exact ⟨hnd, hag⟩
  | inherit n m o =>
    exact ⟨restoreFrom_pres NodupSet o (nodupSet_stable o) _ w n _ hnd, restoreFrom_agree o _ _ n _ w hnd hag⟩
  | restore n s o =>
    exact ⟨restoreFrom_pres NodupSet o (nodupSet_stable o) _ w n s hnd, restoreFrom_agree o _ _ n s w hnd hag⟩
  | floor g fb o =>
    exact ⟨floorFrom_pres NodupSet o (nodupSet_stable o) _ w g fb hnd, floorFrom_agree o _ _ g fb w hnd hag⟩
  | reload gs o => exact reload_agree o _ w gs hnd hag

theorem run_inv (es : List Event) : ∀ w : World, Inv w → Inv (run w es).1 := by
  induction es with
  | nil => intro w h; exact h
  | cons e es ih => intro w h; exact ih _ (step_inv w e h)

theorem inv_init : Inv World.init := by
  constructor
  · intro s hs; simp [World.init] at hs
  · intro s hs; simp [World.init] at hs


/-! ## transition callbacks fire exactly once per actual transition -/

/-- the alive values reported by `notifyAliveTransition` for node `n`, collection index `i` -/
def transOf (n i : Nat) (outs : List Out) : List Bool :=
  outs.filterMap fun
    | .trans n' t a => if n' = n ∧ t.idx = i then some a else none
    | _ => none

theorem transOf_append (n i : Nat) (a b : List Out) : transOf n i (a ++ b) = transOf n i a ++ transOf n i b := by
  simp [transOf, List.filterMap_append]

def NoTrans (outs : List Out) : Prop := ∀ x ∈ outs, ∀ n t a, x ≠ Out.trans n t a

theorem transOf_noTrans (n i : Nat) (outs : List Out) (h : NoTrans outs) : transOf n i outs = [] := by
  unfold transOf
  rw [List.filterMap_eq_nil_iff]
  intro x hx
  cases x with
  | trans n' t a => exact absurd rfl (h _ hx n' t a)
  | group _ _ _ _ => rfl
  | escalate _ => rfl

theorem notifyOne_noTrans (s : ASet) (n c : Nat) (a : Bool) (o : Oracle) : NoTrans (notifyOne s n c a o).2 := by
  unfold notifyOne; split
  · intro x hx; simp only [List.mem_map] at hx; obtain ⟨b, _, rfl⟩ := hx; intro _ _ _ h; cases h
  · intro x hx; simp at hx

theorem notifyAll_noTrans (sets : List ASet) (n c : Nat) (a : Bool) (o : Oracle) : NoTrans (notifyAll sets n c a o).2 := by
  induction sets with
  | nil => intro x hx; simp [notifyAll] at hx
  | cons s ss ih =>
    intro x hx
    simp only [notifyAll, List.mem_append] at hx
    rcases hx with hx | hx
    · exact notifyOne_noTrans s n c a o x hx
    · exact ih x hx

/-- the callbacks for `(n, i)` in `outs`, replayed from the old flag, flip it every time and end at the new flag -/
def EdgesAt (n i : Nat) (nodes nodes' : Nat → Node) (outs : List Out) : Prop :=
  replay ((nodes n).alive i) (transOf n i outs) = some ((nodes' n).alive i)

theorem edgesAt_trans (n i : Nat) (a b c : Nat → Node) (o1 o2 : List Out) (h1 : EdgesAt n i a b o1)
    (h2 : EdgesAt n i b c o2) : EdgesAt n i a c (o1 ++ o2) := by
  unfold EdgesAt at *
  rw [transOf_append, replay_append, h1]; exact h2

theorem edgesAt_silent (n i : Nat) (a b : Nat → Node) (outs : List Out) (ho : transOf n i outs = [])
    (h : (b n).alive i = (a n).alive i) : EdgesAt n i a b outs := by
  unfold EdgesAt; rw [ho, h]; rfl

/-- a primitive that writes `alive (m, t.idx) := v`, reports a transition iff the flag changed, and
otherwise only produces group callbacks -/
theorem edgesAt_point (n i m : Nat) (t : Typ) (v : Bool) (nodes : Nat → Node) (nd' : Node) (g1 g2 : List Out)
    (hg1 : NoTrans g1) (hg2 : NoTrans g2) (hv : nd'.alive t.idx = v)
    (hother : ∀ j, j ≠ t.idx → nd'.alive j = (nodes m).alive j) (t' : Typ) (ht' : t'.idx = t.idx) :
    EdgesAt n i nodes (upd nodes m nd')
      (g1 ++ (if (nodes m).alive t.idx = v then [] else [Out.trans m t' v]) ++ g2) := by
  unfold EdgesAt
  rw [transOf_append, transOf_append, transOf_noTrans n i g1 hg1, transOf_noTrans n i g2 hg2]
  simp only [List.nil_append, List.append_nil]
  by_cases hm : n = m
  · subst hm
    simp only [upd_same]
    by_cases hi : i = t.idx
    · subst hi
      rw [hv]
      by_cases hc : (nodes n).alive t.idx = v
      · simp [hc, transOf, replay]
      · simp only [hc, if_false, transOf, List.filterMap_cons, ht', and_self, if_true, List.filterMap_nil]
        simp only [replay]
        rw [if_neg (fun h => hc h.symm)]
    · rw [hother i hi]
      have : transOf n i (if (nodes n).alive t.idx = v then [] else [Out.trans n t' v]) = [] := by
        split
        · rfl
        · simp [transOf, ht', Ne.symm hi]
      rw [this]; rfl
  · rw [upd_other _ _ _ _ hm]
    have : transOf n i (if (nodes m).alive t.idx = v then [] else [Out.trans m t' v]) = [] := by
      split
      · rfl
      · simp [transOf, Ne.symm hm]
    rw [this]; rfl


theorem edgesAt_point' (n i m c : Nat) (v : Bool) (nodes : Nat → Node) (nd' : Node) (outs : List Out)
    (hv : nd'.alive c = v) (hother : ∀ j, j ≠ c → nd'.alive j = (nodes m).alive j)
    (ht : transOf n i outs = if m = n ∧ c = i ∧ (nodes m).alive c ≠ v then [v] else []) :
    EdgesAt n i nodes (upd nodes m nd') outs := by
  unfold EdgesAt
  rw [ht]
  by_cases hm : m = n
  · subst hm
    simp only [upd_same, true_and]
    by_cases hi : c = i
    · subst hi
      rw [hv]
      by_cases hc : (nodes m).alive c = v
      · simp [hc, replay]
      · simp only [hc, ne_eq, not_false_eq_true, and_self, if_true, replay]
        rw [if_neg (fun h => hc h.symm)]
    · simp only [hi, false_and, if_false, replay]
      rw [hother i (Ne.symm hi)]
  · simp only [hm, false_and, if_false, replay]
    rw [upd_other _ _ _ _ (Ne.symm hm)]

theorem transOf_single (n i m : Nat) (t : Typ) (a : Bool) :
    transOf n i [Out.trans m t a] = if m = n ∧ t.idx = i then [a] else [] := by
  by_cases h : m = n ∧ t.idx = i <;> simp [transOf, h]

theorem markForced_edges (n i : Nat) (w : World) (m : Nat) (t : Typ) (o : Oracle) :
    EdgesAt n i w.nodes (markForced w m t o).1.nodes (markForced w m t o).2 := by
  rw [markForced_nodes]
  apply edgesAt_point' n i m t.idx false w.nodes _ _ (forced_alive_self _ t) (fun j hj => forced_alive_other _ t j hj)
  simp only [markForced, transOf_append, transOf_noTrans _ _ _ (notifyAll_noTrans _ _ _ _ _), List.append_nil]
  cases h : (w.nodes m).alive t.idx
  · simp [transOf]
  · simp only [if_true, transOf_single]
    by_cases h1 : m = n <;> by_cases h2 : t.idx = i <;> simp [h1, h2]

theorem escalateFrom_edges (n i : Nat) (ts : List Typ) (m : Nat) (o : Oracle) : ∀ w : World,
    EdgesAt n i w.nodes (escalateFrom ts w m o).1.nodes (escalateFrom ts w m o).2 := by
  induction ts with
  | nil => intro w; exact edgesAt_silent n i _ _ _ rfl rfl
  | cons t ts ih =>
    intro w
    simp only [escalateFrom]
    exact edgesAt_trans n i _ _ _ _ _ (markForced_edges n i w m t o) (ih _)

theorem markAvail_edges (n i : Nat) (w : World) (m : Nat) (t : Typ) (o : Oracle) :
    EdgesAt n i w.nodes (markAvail w m t o).1.nodes (markAvail w m t o).2 := by
  rw [markAvail_nodes]
  apply edgesAt_point' n i m t.idx true w.nodes _ _ (avail_alive_self _ t) (fun j hj => avail_alive_other _ t j hj)
  simp only [markAvail, transOf_append, transOf_noTrans _ _ _ (notifyAll_noTrans _ _ _ _ _), List.append_nil]
  cases h : (w.nodes m).alive t.idx
  · simp only [Bool.false_eq_true, if_false, transOf_single]
    by_cases h1 : m = n <;> by_cases h2 : t.idx = i <;> simp [h1, h2]
  · simp [transOf]

theorem markAliveFallback_edges (n i : Nat) (w : World) (m : Nat) (t : Typ) (o : Oracle) :
    EdgesAt n i w.nodes (markAliveFallback w m t o).1.nodes (markAliveFallback w m t o).2 := by
  rw [markAliveFallback_nodes]
  apply edgesAt_point' n i m t.idx true w.nodes _ _ (avail_alive_self _ t) (fun j hj => avail_alive_other _ t j hj)
  simp only [markAliveFallback, transOf_append, transOf_noTrans _ _ _ (notifyAll_noTrans _ _ _ _ _), List.nil_append]
  cases h : (w.nodes m).alive t.idx
  · simp only [Bool.false_eq_true, if_false, transOf_single]
    by_cases h1 : m = n <;> by_cases h2 : t.idx = i <;> simp [h1, h2]
  · simp [transOf]

theorem typOfIdx_idx (idx : Nat) (h : idx < 8) : (typOfIdx idx).idx = canon idx := by
  have : idx = 0 ∨ idx = 1 ∨ idx = 2 ∨ idx = 3 ∨ idx = 4 ∨ idx = 5 ∨ idx = 6 ∨ idx = 7 := by omega
  rcases this with h | h | h | h | h | h | h | h <;> subst h <;> rfl

theorem restoreIdx_edges (n i : Nat) (w : World) (m : Nat) (s : Snapshot) (o : Oracle) (idx : Nat) (hidx : idx < 8) :
    EdgesAt n i w.nodes (restoreIdx w m s o idx).1.nodes (restoreIdx w m s o idx).2 := by
  rw [restoreIdx_nodes]
  apply edgesAt_point' n i m (canon idx) (s.alive idx) w.nodes _ _ (restoreIdx_alive_self _ s idx)
    (fun j hj => restoreIdx_alive_other _ s idx j hj)
  simp only [restoreIdx, transOf_append, transOf_noTrans _ _ _ (notifyAll_noTrans _ _ _ _ _), List.nil_append]
  by_cases hc : (w.nodes m).alive (canon idx) = s.alive idx
  · simp [hc, transOf]
  · have : ((w.nodes m).alive (canon idx) != s.alive idx) = true := by simpa using hc
    simp only [this, if_true, transOf_single, typOfIdx_idx idx hidx]
    by_cases h1 : m = n <;> by_cases h2 : canon idx = i <;> simp [h1, h2] <;> (subst h1; subst h2; exact hc)

theorem restoreFrom_edges (n i : Nat) (is : List Nat) (his : ∀ j ∈ is, j < 8) (m : Nat) (s : Snapshot) (o : Oracle) :
    ∀ w : World, EdgesAt n i w.nodes (restoreFrom is w m s o).1.nodes (restoreFrom is w m s o).2 := by
  induction is with
  | nil => intro w; exact edgesAt_silent n i _ _ _ rfl rfl
  | cons j js ih =>
    intro w
    simp only [restoreFrom]
    exact edgesAt_trans n i _ _ _ _ _ (restoreIdx_edges n i w m s o j (his j List.mem_cons_self))
      (ih (fun k hk => his k (List.mem_cons_of_mem _ hk)) _)

theorem floorOne_edges (n i : Nat) (w : World) (g : Nat) (fb : Nat → Option Nat) (o : Oracle) (t : Typ) :
    EdgesAt n i w.nodes (floorOne w g fb o t).1.nodes (floorOne w g fb o t).2 := by
  unfold floorOne
  split
  · exact edgesAt_silent n i _ _ _ rfl rfl
  · split
    · exact edgesAt_silent n i _ _ _ rfl rfl
    · split
      · exact edgesAt_silent n i _ _ _ rfl rfl
      · exact markAliveFallback_edges n i w _ t o

theorem floorFrom_edges (n i : Nat) (ts : List Typ) (g : Nat) (fb : Nat → Option Nat) (o : Oracle) :
    ∀ w : World, EdgesAt n i w.nodes (floorFrom ts w g fb o).1.nodes (floorFrom ts w g fb o).2 := by
  induction ts with
  | nil => intro w; exact edgesAt_silent n i _ _ _ rfl rfl
  | cons t ts ih =>
    intro w
    simp only [floorFrom]
    exact edgesAt_trans n i _ _ _ _ _ (floorOne_edges n i w g fb o t) (ih _)

theorem trafficOk_edges (n i : Nat) (w : World) (m : Nat) (t : Typ) (o : Oracle) :
    EdgesAt n i w.nodes (trafficOk w m t o).1.nodes (trafficOk w m t o).2 := by
  have h0 : EdgesAt n i w.nodes (w.setNode m ((w.nodes m).clearTraffic t)).nodes [] := by
    apply edgesAt_silent n i _ _ _ rfl
    by_cases hm : n = m
    · subst hm; simp
    · simp [upd_other _ _ _ _ hm]
  unfold trafficOk; simp only; split
  · have := edgesAt_trans n i _ _ _ _ _ h0 (markAvail_edges n i (w.setNode m ((w.nodes m).clearTraffic t)) m t o)
    simpa using this
  · exact h0


theorem counted_alive_le (nd : Node) (t : Typ) (tr : Bool) (h : (nd.counted t tr).alive t.idx = true) :
    nd.alive t.idx = true := by
  cases tr <;> simp [Node.counted] at h <;> exact h.2

theorem markUnavail_edges (n i : Nat) (w : World) (m : Nat) (t : Typ) (tr : Bool) (o : Oracle) :
    EdgesAt n i w.nodes (markUnavail w m t tr o).1.nodes (markUnavail w m t tr o).2 := by
  unfold markUnavail
  split
  · exact edgesAt_silent n i _ _ _ rfl rfl
  · simp only
    have E1 : EdgesAt n i w.nodes (w.setNode m ((w.nodes m).counted t tr)).nodes
        (if ((w.nodes m).alive t.idx && !((w.nodes m).counted t tr).alive t.idx) = true then [Out.trans m t false] else []) := by
      rw [setNode_nodes]
      apply edgesAt_point' n i m t.idx (((w.nodes m).counted t tr).alive t.idx) w.nodes _ _ rfl
        (fun j hj => counted_alive_other _ t tr j hj)
      cases h1 : (w.nodes m).alive t.idx <;> cases h2 : ((w.nodes m).counted t tr).alive t.idx
      · simp [transOf]
      · have := counted_alive_le _ t tr h2; rw [h1] at this; exact absurd this (by simp)
      · simp only [Bool.not_false, Bool.and_self, if_true, transOf_single]
        by_cases a1 : m = n <;> by_cases a2 : t.idx = i <;> simp [a1, a2]
      · simp [transOf]
    rw [List.append_assoc]
    apply edgesAt_trans n i _ _ _ _ _ E1
    have E3 : ∀ (w2 : World), EdgesAt n i w2.nodes w2.nodes
        (notifyAll w2.sets m t.idx ((w.nodes m).counted t tr |>.alive t.idx) o).2 :=
      fun w2 => edgesAt_silent n i _ _ _ (transOf_noTrans _ _ _ (notifyAll_noTrans _ _ _ _ _)) rfl
    split
    · split
      · apply edgesAt_trans n i _ _ _ _ _ _ (E3 _)
        have he := escalateFrom_edges n i escalationTyps m o
          (recordFailure (w.setNode m ((w.nodes m).counted t tr)) (w.nodes m).addr).1
        rw [recordFailure_nodes] at he
        have h0 : EdgesAt n i (w.setNode m ((w.nodes m).counted t tr)).nodes
            (w.setNode m ((w.nodes m).counted t tr)).nodes [Out.escalate m] :=
          edgesAt_silent n i _ _ _ rfl rfl
        have := edgesAt_trans n i _ _ _ _ _ h0 he
        simpa [escalate] using this
      · apply edgesAt_trans n i _ _ _ _ _ _ (E3 _)
        apply edgesAt_silent n i _ _ _ rfl
        rw [recordFailure_nodes]
    · exact edgesAt_trans n i _ _ _ _ _ (edgesAt_silent n i _ _ _ rfl rfl) (E3 _)

theorem restore_edges (n i : Nat) (w : World) (m : Nat) (s : Snapshot) (o : Oracle) :
    EdgesAt n i w.nodes (restore w m s o).1.nodes (restore w m s o).2 :=
  restoreFrom_edges n i _ (by intro j hj; simp at hj; omega) m s o w

theorem inheritPairs_edges (n i : Nat) (o : Oracle) (ps : List (Nat × Nat)) : ∀ w : World,
    EdgesAt n i w.nodes (inheritPairs ps w o).1.nodes (inheritPairs ps w o).2 := by
  induction ps with
  | nil => intro w; exact edgesAt_silent n i _ _ _ rfl rfl
  | cons p ps ih =>
    intro w
    simp only [inheritPairs]
    exact edgesAt_trans n i _ _ _ _ _ (restore_edges n i w p.1 _ o) (ih _)

theorem restoreGroups_edges (n i : Nat) (o : Oracle) (gs : List ReloadGroup) : ∀ w : World,
    EdgesAt n i w.nodes (restoreGroups gs w o).1.nodes (restoreGroups gs w o).2 := by
  induction gs with
  | nil => intro w; exact edgesAt_silent n i _ _ _ rfl rfl
  | cons G gs ih =>
    intro w
    simp only [restoreGroups]
    exact edgesAt_trans n i _ _ _ _ _ (inheritPairs_edges n i o G.pairs w) (ih _)

theorem floorGroups_edges (n i : Nat) (o : Oracle) (gs : List ReloadGroup) : ∀ w : World,
    EdgesAt n i w.nodes (floorGroups gs w o).1.nodes (floorGroups gs w o).2 := by
  induction gs with
  | nil => intro w; exact edgesAt_silent n i _ _ _ rfl rfl
  | cons G gs ih =>
    intro w
    simp only [floorGroups]
    exact edgesAt_trans n i _ _ _ _ _ (floorFrom_edges n i _ G.g G.fb o w) (ih _)

theorem reload_edges (n i : Nat) (o : Oracle) (gs : List ReloadGroup) (w : World) :
    EdgesAt n i w.nodes (reload w gs o).1.nodes (reload w gs o).2 := by
  simp only [reload]
  exact edgesAt_trans n i _ _ _ _ _ (restoreGroups_edges n i o gs w) (floorGroups_edges n i o gs _)

theorem step_edges (n i : Nat) (w : World) (e : Event) (hne : ∀ a, e ≠ .node n a) :
    EdgesAt n i w.nodes (step w e).1.nodes (step w e).2 := by
  cases e with
  | node m a =>
    simp only [step]; split
    · exact edgesAt_silent n i _ _ _ rfl rfl
    · apply edgesAt_silent n i _ _ _ rfl
      have : n ≠ m := fun h => hne a (by rw [h])
      simp [upd_other _ _ _ _ this]
  | group g ob p tol ms o =>
    simp only [step]; split
    · exact edgesAt_silent n i _ _ _ rfl rfl
    · apply edgesAt_silent n i _ _ _ _ rfl
      apply transOf_noTrans
      intro x hx
      simp only [newGroup, List.mem_append, List.mem_map] at hx
      rcases hx with hx | ⟨t, _, rfl⟩
      · split at hx
        · intro a b c hc; subst hc
          -- outputs of newSets are group callbacks
          have : ∀ ts, ∀ x ∈ (newSets w g ob p tol ms o ts).2, ∀ n t a, x ≠ Out.trans n t a := by
            intro ts
            induction ts with
            | nil => intro x hx; simp [newSets] at hx
            | cons t ts ih =>
              intro x hx
              simp only [newSets, List.mem_append] at hx
              rcases hx with hx | hx
              · simp only [newSet, List.mem_map] at hx
                obtain ⟨b, _, rfl⟩ := hx
                intro _ _ _ h; cases h
              · exact ih x hx
          exact this _ _ hx a b c rfl
        · simp at hx
      · intro _ _ _ h; cases h
  | close g => exact edgesAt_silent n i _ _ _ rfl rfl
  | probe m t a1 a2 o =>
    simp only [step]; split
    · exact markAvail_edges n i _ m t o
    · exact markUnavail_edges n i w m t false o
    · exact edgesAt_silent n i _ _ _ rfl rfl
  | txn m t ign o =>
    simp only [step]; split
    · exact edgesAt_silent n i _ _ _ rfl rfl
    · exact markUnavail_edges n i w m t false o
  | tfail m t ign o =>
    simp only [step]; split
    · exact edgesAt_silent n i _ _ _ rfl rfl
    · exact markUnavail_edges n i w m t true o
  | forced m t o => exact markForced_edges n i w m t o
  | tok m t o => exact trafficOk_edges n i w m t o
  | sbegin => exact edgesAt_silent n i _ _ _ rfl rfl
  | send =>
    simp only [step]; split
    · exact edgesAt_silent n i _ _ _ rfl rfl
    · split <;> exact edgesAt_silent n i _ _ _ rfl rfl
  | tick d => exact edgesAt_silent n i _ _ _ rfl rfl
  | resetGlobal => exact edgesAt_silent n i _ _ _ rfl rfl
  | inherit m k o => exact restoreFrom_edges n i _ (by intro j hj; simp at hj; omega) m _ o w
  | restore m s o => exact restoreFrom_edges n i _ (by intro j hj; simp at hj; omega) m s o w
  | floor g fb o => exact floorFrom_edges n i _ g fb o w
  | reload gs o => exact reload_edges n i o gs w

theorem run_edges (n i : Nat) (es : List Event) : ∀ w : World, (∀ e ∈ es, ∀ a, e ≠ .node n a) →
    EdgesAt n i w.nodes (run w es).1.nodes (run w es).2 := by
  induction es with
  | nil => intro w _; exact edgesAt_silent n i _ _ _ rfl rfl
  | cons e es ih =>
    intro w h
    simp only [run]
    exact edgesAt_trans n i _ _ _ _ _ (step_edges n i w e (h e List.mem_cons_self))
      (ih _ (fun e' he' => h e' (List.mem_cons_of_mem _ he')))


/-! ## failure streaks over histories -/

inductive Touch
  | fail      -- a counted failure of this source on this node and network type
  | none      -- neither a success nor a counted failure for this counter
  | restart   -- a success: the streak starts over
deriving DecidableEq, Repr

/-- How event `e`, executed in state `w`, relates to the streak of the probe counter
(`traffic = false`: probes and transactional reports) or the traffic counter (`traffic = true`) of
node `n` at collection index `i`.  Defined from the event and the suppression state only. -/
def touch (traffic : Bool) (n i : Nat) (w : World) : Event → Touch
  | .probe m t a1 a2 _ =>
    if m = n ∧ t.idx = i then
      match probeOutcome a1 a2 with
      | .success _ => .restart
      | .failure => if w.suppressed || traffic then .none else .fail
      | .nothing => .none
    else .none
  | .txn m t ign _ =>
    if m = n ∧ t.idx = i ∧ ign = false ∧ w.suppressed = false ∧ traffic = false then .fail else .none
  | .tfail m t ign _ =>
    if m = n ∧ t.idx = i ∧ ign = false ∧ w.suppressed = false ∧ traffic = true then .fail else .none
  | .tok m t _ =>
    if m = n ∧ t.idx = i ∧ (traffic = true ∨ (t.isData = true ∧ (w.nodes n).alive i = false)) then .restart
    else .none
  | _ => .none

def Touch.next (acc : Nat) : Touch → Nat
  | .fail => acc + 1
  | .none => acc
  | .restart => 0

/-- number of counted failures since the last success (or since `acc` failures ago), along a history -/
def specCount (traffic : Bool) (n i : Nat) : World → List Event → Nat → Nat
  | _, [], acc => acc
  | w, e :: es, acc => specCount traffic n i (step w e).1 es ((touch traffic n i w e).next acc)

def cnt (traffic : Bool) (nd : Node) (i : Nat) : Nat := if traffic then nd.tfail i else nd.fail i

/-- restore events carry sanitised snapshots (what `ReloadHealthSnapshot` produces) -/
def Event.Sane : Event → Prop
  | .restore _ s _ => ∀ i, s.fail i = 0 ∧ s.tfail i = 0
  | _ => True

def CountInv (tr : Bool) (n i : Nat) (w : World) (acc : Nat) : Prop :=
  (w.nodes n).alive i = true → cnt tr (w.nodes n) i ≤ acc

/-- relation between a node's slot before and after: unchanged, dead, or counters zeroed -/
def SlotU (nd nd' : Node) (i : Nat) : Prop := nd'.alive i = nd.alive i ∧ nd'.fail i = nd.fail i ∧ nd'.tfail i = nd.tfail i
def SlotD (nd' : Node) (i : Nat) : Prop := nd'.alive i = false
def SlotZ (nd' : Node) (i : Nat) : Prop := nd'.fail i = 0 ∧ nd'.tfail i = 0

theorem countInv_U (tr : Bool) (n i : Nat) (w w' : World) (acc : Nat) (h : CountInv tr n i w acc)
    (hu : SlotU (w.nodes n) (w'.nodes n) i) : CountInv tr n i w' acc := by
  unfold CountInv cnt at *; obtain ⟨a, b, c⟩ := hu; rw [a, b, c]; exact h
theorem countInv_D (tr : Bool) (n i : Nat) (w' : World) (acc : Nat) (hd : SlotD (w'.nodes n) i) : CountInv tr n i w' acc := by
  unfold CountInv SlotD at *; intro h; rw [hd] at h; exact absurd h (by simp)
theorem countInv_Z (tr : Bool) (n i : Nat) (w' : World) (acc : Nat) (hz : SlotZ (w'.nodes n) i) : CountInv tr n i w' acc := by
  unfold CountInv cnt SlotZ at *; intro _; cases tr <;> simp [hz.1, hz.2]

theorem slotU_refl (nd : Node) (i : Nat) : SlotU nd nd i := ⟨rfl, rfl, rfl⟩
theorem slotU_trans {a b c : Node} {i : Nat} (h1 : SlotU a b i) (h2 : SlotU b c i) : SlotU a c i :=
  ⟨h2.1.trans h1.1, h2.2.1.trans h1.2.1, h2.2.2.trans h1.2.2⟩

theorem forced_slot (nd : Node) (t : Typ) (i : Nat) : SlotU nd (nd.forced t) i ∨ SlotD (nd.forced t) i := by
  by_cases h : i = t.idx
  · right; rw [h]; exact forced_alive_self nd t
  · left; simp [SlotU, Node.forced, upd, h]

theorem foldl_forced_slot (ts : List Typ) (i : Nat) : ∀ nd : Node,
    SlotU nd (ts.foldl Node.forced nd) i ∨ SlotD (ts.foldl Node.forced nd) i := by
  induction ts with
  | nil => intro nd; left; exact slotU_refl nd i
  | cons t ts ih =>
    intro nd
    simp only [List.foldl_cons]
    rcases forced_slot nd t i with h1 | h1
    · rcases ih (nd.forced t) with h2 | h2
      · left; exact slotU_trans h1 h2
      · right; exact h2
    · right; exact foldl_forced_alive_false ts i _ h1

theorem upd_nodes_other (nodes : Nat → Node) (m n : Nat) (nd' : Node) (i : Nat) (h : n ≠ m) :
    SlotU (nodes n) ((upd nodes m nd') n) i := by rw [upd_other _ _ _ _ h]; exact slotU_refl _ i


theorem markAvail_slot (w : World) (m : Nat) (t : Typ) (o : Oracle) (n i : Nat) :
    (m = n ∧ t.idx = i ∧ ((markAvail w m t o).1.nodes n).alive i = true ∧ SlotZ ((markAvail w m t o).1.nodes n) i) ∨
    (¬(m = n ∧ t.idx = i) ∧ SlotU (w.nodes n) ((markAvail w m t o).1.nodes n) i) := by
  rw [markAvail_nodes]
  by_cases hm : m = n
  · subst hm
    by_cases hi : t.idx = i
    · subst hi; left; simp [SlotZ, Node.avail]
    · right; refine ⟨by simp [hi], ?_⟩
      simp [SlotU, Node.avail, upd, Ne.symm hi]
  · right; exact ⟨by simp [hm], upd_nodes_other _ _ _ _ _ (Ne.symm hm)⟩

theorem markForced_slot (w : World) (m : Nat) (t : Typ) (o : Oracle) (n i : Nat) :
    SlotU (w.nodes n) ((markForced w m t o).1.nodes n) i ∨ SlotD ((markForced w m t o).1.nodes n) i := by
  rw [markForced_nodes]
  by_cases hm : m = n
  · subst hm; simp only [upd_same]; exact forced_slot _ t i
  · left; exact upd_nodes_other _ _ _ _ _ (Ne.symm hm)

/-- the slot after one counted failure (before any escalation) -/
theorem counted_slot (nd : Node) (t : Typ) (tr : Bool) (i : Nat) (hi : i ≠ t.idx) : SlotU nd (nd.counted t tr) i := by
  cases tr <;> simp [SlotU, Node.counted, upd, hi]

theorem markUnavail_slot (w : World) (m : Nat) (t : Typ) (tr : Bool) (o : Oracle) (n i : Nat) :
    SlotD ((markUnavail w m t tr o).1.nodes n) i ∨
    (w.suppressed = true ∧ (markUnavail w m t tr o).1.nodes n = w.nodes n) ∨
    (w.suppressed = false ∧ ¬(m = n ∧ t.idx = i) ∧ SlotU (w.nodes n) ((markUnavail w m t tr o).1.nodes n) i) ∨
    (w.suppressed = false ∧ m = n ∧ t.idx = i ∧
      SlotU ((w.nodes n).counted t tr) ((markUnavail w m t tr o).1.nodes n) i) := by
  rw [markUnavail_nodes]
  by_cases hs0 : w.suppressed = true
  · right; left; rw [if_pos hs0]; exact ⟨hs0, rfl⟩
  · have hs : w.suppressed = false := by simpa using hs0
    rw [if_neg hs0]
    by_cases hm : m = n
    · subst hm
      by_cases he : escalates w m t tr = true
      · rw [if_pos he, upd_same]
        rcases foldl_forced_slot escalationTyps i ((w.nodes m).counted t tr) with h | h
        · by_cases hi : t.idx = i
          · right; right; right; exact ⟨hs, rfl, hi, h⟩
          · right; right; left
            exact ⟨hs, fun hh => hi hh.2, slotU_trans (counted_slot _ t tr i (Ne.symm hi)) h⟩
        · left; exact h
      · rw [if_neg he, upd_same]
        by_cases hi : t.idx = i
        · right; right; right; exact ⟨hs, rfl, hi, slotU_refl _ i⟩
        · right; right; left; exact ⟨hs, fun hh => hi hh.2, counted_slot _ t tr i (Ne.symm hi)⟩
    · right; right; left
      refine ⟨hs, fun hh => hm hh.1, ?_⟩
      split <;> exact upd_nodes_other _ _ _ _ _ (Ne.symm hm)

theorem trafficOk_slot (w : World) (m : Nat) (t : Typ) (o : Oracle) (n i : Nat) :
    (¬(m = n ∧ t.idx = i) ∧ SlotU (w.nodes n) ((trafficOk w m t o).1.nodes n) i) ∨
    (m = n ∧ t.idx = i ∧ ((trafficOk w m t o).1.nodes n).tfail i = 0 ∧
      ((t.isData = true ∧ (w.nodes n).alive i = false ∧ ((trafficOk w m t o).1.nodes n).fail i = 0) ∨
       (¬(t.isData = true ∧ (w.nodes n).alive i = false) ∧ ((trafficOk w m t o).1.nodes n).fail i = (w.nodes n).fail i ∧
          ((trafficOk w m t o).1.nodes n).alive i = (w.nodes n).alive i))) := by
  rw [trafficOk_nodes]
  by_cases hm : m = n
  · subst hm
    by_cases hi : t.idx = i
    · subst hi
      right
      refine ⟨rfl, rfl, ?_⟩
      cases hd : t.isData <;> cases ha : (w.nodes m).alive t.idx <;>
        simp [Node.avail, Node.clearTraffic, ha]
    · left
      refine ⟨by simp [hi], ?_⟩
      split <;> simp [SlotU, Node.avail, Node.clearTraffic, upd, Ne.symm hi]
  · left
    refine ⟨by simp [hm], ?_⟩
    split <;> exact upd_nodes_other _ _ _ _ _ (Ne.symm hm)

theorem foldl_restore_slot (s : Snapshot) (hs : ∀ i, s.fail i = 0 ∧ s.tfail i = 0) (i : Nat) :
    ∀ (is : List Nat) (nd : Node),
    (i ∈ is → SlotZ (is.foldl (fun nd j => nd.restoreIdx s j) nd) i) ∧
    (SlotZ nd i → SlotZ (is.foldl (fun nd j => nd.restoreIdx s j) nd) i) ∧
    (i ∉ is → (∀ j ∈ is, canon j ≠ i) → SlotU nd (is.foldl (fun nd j => nd.restoreIdx s j) nd) i) := by
  intro is
  induction is with
  | nil => intro nd; exact ⟨by simp, fun h => h, fun _ _ => slotU_refl nd i⟩
  | cons j js ih =>
    intro nd
    simp only [List.foldl_cons]
    obtain ⟨i1, i2, i3⟩ := ih (nd.restoreIdx s j)
    have hz : SlotZ nd i → SlotZ (nd.restoreIdx s j) i := by
      intro h
      by_cases hij : i = j
      · subst hij; simp [SlotZ, Node.restoreIdx, hs]
      · simp [SlotZ, Node.restoreIdx, upd, hij, h.1, h.2]
    refine ⟨?_, fun h => i2 (hz h), ?_⟩
    · intro hmem
      by_cases hij : i = j
      · subst hij; apply i2; simp [SlotZ, Node.restoreIdx, hs]
      · exact i1 (by simpa [hij] using hmem)
    · intro hn hc
      have hij : i ≠ j := fun h => hn (by simp [h])
      have h1 : SlotU nd (nd.restoreIdx s j) i := by
        have := hc j (by simp)
        simp [SlotU, Node.restoreIdx, upd, hij, Ne.symm this]
      exact slotU_trans h1 (i3 (fun h => hn (List.mem_cons_of_mem _ h)) (fun k hk => hc k (List.mem_cons_of_mem _ hk)))

theorem restore_slot (w : World) (m : Nat) (s : Snapshot) (o : Oracle) (hs : ∀ i, s.fail i = 0 ∧ s.tfail i = 0)
    (n i : Nat) :
    SlotU (w.nodes n) ((restore w m s o).1.nodes n) i ∨ SlotZ ((restore w m s o).1.nodes n) i := by
  unfold restore
  rw [restoreFrom_nodes]
  by_cases hm : m = n
  · subst hm
    simp only [upd_same]
    obtain ⟨h1, _, h3⟩ := foldl_restore_slot s hs i [0, 1, 2, 3, 4, 5, 6, 7] (w.nodes m)
    by_cases hi : i < 8
    · right; apply h1; simp; omega
    · left; apply h3
      · simp; omega
      · intro j hj; simp at hj; unfold canon; split <;> omega
  · left; exact upd_nodes_other _ _ _ _ _ (Ne.symm hm)

theorem markAliveFallback_slot (w : World) (m : Nat) (t : Typ) (o : Oracle) (n i : Nat) :
    SlotU (w.nodes n) ((markAliveFallback w m t o).1.nodes n) i ∨ SlotZ ((markAliveFallback w m t o).1.nodes n) i := by
  rw [markAliveFallback_nodes]
  by_cases hm : m = n
  · subst hm
    by_cases hi : t.idx = i
    · subst hi; right; simp [SlotZ, Node.avail]
    · left; simp [SlotU, Node.avail, upd, Ne.symm hi]
  · left; exact upd_nodes_other _ _ _ _ _ (Ne.symm hm)

/-- zeroed-or-unchanged composes -/
theorem slotUZ_trans {a b c : Node} {i : Nat} (h1 : SlotU a b i ∨ SlotZ b i) (h2 : SlotU b c i ∨ SlotZ c i) :
    SlotU a c i ∨ SlotZ c i := by
  rcases h2 with h2 | h2
  · rcases h1 with h1 | h1
    · left; exact slotU_trans h1 h2
    · right; exact ⟨h2.2.1.trans h1.1, h2.2.2.trans h1.2⟩
  · right; exact h2

theorem floorOne_slot (w : World) (g : Nat) (fb : Nat → Option Nat) (o : Oracle) (t : Typ) (n i : Nat) :
    SlotU (w.nodes n) ((floorOne w g fb o t).1.nodes n) i ∨ SlotZ ((floorOne w g fb o t).1.nodes n) i := by
  unfold floorOne
  split
  · left; exact slotU_refl _ i
  · split
    · left; exact slotU_refl _ i
    · split
      · left; exact slotU_refl _ i
      · exact markAliveFallback_slot w _ t o n i

theorem floorFrom_slot (ts : List Typ) (g : Nat) (fb : Nat → Option Nat) (o : Oracle) (n i : Nat) : ∀ w : World,
    SlotU (w.nodes n) ((floorFrom ts w g fb o).1.nodes n) i ∨ SlotZ ((floorFrom ts w g fb o).1.nodes n) i := by
  induction ts with
  | nil => intro w; left; exact slotU_refl _ i
  | cons t ts ih =>
    intro w
    simp only [floorFrom]
    exact slotUZ_trans (floorOne_slot w g fb o t n i) (ih _)


theorem inheritPairs_slot (o : Oracle) (n i : Nat) (ps : List (Nat × Nat)) : ∀ w : World,
    SlotU (w.nodes n) ((inheritPairs ps w o).1.nodes n) i ∨ SlotZ ((inheritPairs ps w o).1.nodes n) i := by
  induction ps with
  | nil => intro w; left; exact slotU_refl _ i
  | cons p ps ih =>
    intro w
    simp only [inheritPairs]
    exact slotUZ_trans (restore_slot w p.1 _ o (fun _ => ⟨rfl, rfl⟩) n i) (ih _)

theorem restoreGroups_slot (o : Oracle) (n i : Nat) (gs : List ReloadGroup) : ∀ w : World,
    SlotU (w.nodes n) ((restoreGroups gs w o).1.nodes n) i ∨ SlotZ ((restoreGroups gs w o).1.nodes n) i := by
  induction gs with
  | nil => intro w; left; exact slotU_refl _ i
  | cons G gs ih =>
    intro w
    simp only [restoreGroups]
    exact slotUZ_trans (inheritPairs_slot o n i G.pairs w) (ih _)

theorem floorGroups_slot (o : Oracle) (n i : Nat) (gs : List ReloadGroup) : ∀ w : World,
    SlotU (w.nodes n) ((floorGroups gs w o).1.nodes n) i ∨ SlotZ ((floorGroups gs w o).1.nodes n) i := by
  induction gs with
  | nil => intro w; left; exact slotU_refl _ i
  | cons G gs ih =>
    intro w
    simp only [floorGroups]
    exact slotUZ_trans (floorFrom_slot standardTyps G.g G.fb o n i w) (ih _)

theorem reload_slot (o : Oracle) (n i : Nat) (gs : List ReloadGroup) (w : World) :
    SlotU (w.nodes n) ((reload w gs o).1.nodes n) i ∨ SlotZ ((reload w gs o).1.nodes n) i := by
  simp only [reload]
  exact slotUZ_trans (restoreGroups_slot o n i gs w) (floorGroups_slot o n i gs _)

theorem countInv_counted (tr tr' : Bool) (n i : Nat) (w w' : World) (t : Typ) (acc : Nat) (hi : t.idx = i)
    (h : CountInv tr n i w acc) (hu : SlotU ((w.nodes n).counted t tr') (w'.nodes n) i) :
    CountInv tr n i w' (if tr = tr' then acc + 1 else acc) := by
  unfold CountInv cnt at *
  obtain ⟨a, b, c⟩ := hu
  rw [a, b, c]
  subst hi
  intro hal
  have h0 := h (counted_alive_le _ t tr' hal)
  cases tr <;> cases tr' <;> simp [Node.counted] at h0 ⊢ <;> omega

theorem countInv_step (tr : Bool) (n i : Nat) (w : World) (e : Event) (acc : Nat) (hs : e.Sane)
    (h : CountInv tr n i w acc) : CountInv tr n i (step w e).1 ((touch tr n i w e).next acc) := by
  cases e with
  | node m a =>
    simp only [step, touch, Touch.next]
    split
    · exact h
    · by_cases hm : m = n
      · subst hm; apply countInv_Z; simp [SlotZ, Node.fresh]
      · exact countInv_U tr n i w _ acc h (upd_nodes_other _ _ _ _ _ (Ne.symm hm))
  | group g ob p tol ms o =>
    simp only [step, touch, Touch.next]
    split
    · exact h
    · exact countInv_U tr n i w _ acc h (slotU_refl _ i)
  | close g => exact countInv_U tr n i w _ acc h (slotU_refl _ i)
  | probe m t a1 a2 o =>
    simp only [step, touch]
    cases hp : probeOutcome a1 a2 with
    | success l =>
      simp only
      rcases markAvail_slot { w with now := w.now + l } m t o n i with ⟨h1, h2, _, h4⟩ | ⟨h1, h2⟩
      · subst h1; subst h2
        simp only [and_self, if_true, Touch.next]; exact countInv_Z tr _ _ _ 0 h4
      · simp only [h1, if_false, Touch.next]; exact countInv_U tr n i w _ acc h h2
    | nothing =>
      simp only
      have : (if m = n ∧ t.idx = i then Touch.none else Touch.none) = Touch.none := by split <;> rfl
      rw [this]; exact h
    | failure =>
      simp only
      rcases markUnavail_slot w m t false o n i with h1 | ⟨h1, h2⟩ | ⟨h1, h2, h3⟩ | ⟨h1, h2, h3, h4⟩
      · exact countInv_D tr n i _ _ h1
      · have : (if m = n ∧ t.idx = i then (if (w.suppressed || tr) = true then Touch.none else Touch.fail) else Touch.none)
            = Touch.none := by simp [h1]
        rw [this]; unfold CountInv; rw [h2]; exact h
      · simp only [h2, if_false, Touch.next]; exact countInv_U tr n i w _ acc h h3
      · subst h2; subst h3
        simp only [and_self, if_true, h1, Bool.false_or]
        have := countInv_counted tr false _ _ w _ t acc rfl h h4
        cases tr <;> simpa [Touch.next] using this
  | txn m t ign o =>
    simp only [step, touch]
    cases ign with
    | true => simp [Touch.next]; exact h
    | false =>
      simp only [Bool.false_eq_true, if_false, true_and]
      rcases markUnavail_slot w m t false o n i with h1 | ⟨h1, h2⟩ | ⟨h1, h2, h3⟩ | ⟨h1, h2, h3, h4⟩
      · exact countInv_D tr n i _ _ h1
      · simp only [h1, Bool.true_eq_false, false_and, and_false, if_false, Touch.next]
        unfold CountInv; rw [h2]; exact h
      · have : (if m = n ∧ t.idx = i ∧ w.suppressed = false ∧ tr = false then Touch.fail else Touch.none) = Touch.none := by
          rw [if_neg]; intro hh; exact h2 ⟨hh.1, hh.2.1⟩
        rw [this]; exact countInv_U tr n i w _ acc h h3
      · subst h2; subst h3
        simp only [h1, true_and]
        have := countInv_counted tr false _ _ w _ t acc rfl h h4
        cases tr <;> simpa [Touch.next] using this
  | tfail m t ign o =>
    simp only [step, touch]
    cases ign with
    | true => simp [Touch.next]; exact h
    | false =>
      simp only [Bool.false_eq_true, if_false, true_and]
      rcases markUnavail_slot w m t true o n i with h1 | ⟨h1, h2⟩ | ⟨h1, h2, h3⟩ | ⟨h1, h2, h3, h4⟩
      · exact countInv_D tr n i _ _ h1
      · simp only [h1, Bool.true_eq_false, false_and, and_false, if_false, Touch.next]
        unfold CountInv; rw [h2]; exact h
      · have : (if m = n ∧ t.idx = i ∧ w.suppressed = false ∧ tr = true then Touch.fail else Touch.none) = Touch.none := by
          rw [if_neg]; intro hh; exact h2 ⟨hh.1, hh.2.1⟩
        rw [this]; exact countInv_U tr n i w _ acc h h3
      · subst h2; subst h3
        simp only [h1, true_and]
        have := countInv_counted tr true _ _ w _ t acc rfl h h4
        cases tr <;> simpa [Touch.next] using this
  | forced m t o =>
    simp only [step, touch, Touch.next]
    rcases markForced_slot w m t o n i with h1 | h1
    · exact countInv_U tr n i w _ acc h h1
    · exact countInv_D tr n i _ _ h1
  | tok m t o =>
    simp only [step, touch]
    rcases trafficOk_slot w m t o n i with ⟨h1, h2⟩ | ⟨h1, h2, h3, h4⟩
    · have : (if m = n ∧ t.idx = i ∧ (tr = true ∨ t.isData = true ∧ (w.nodes n).alive i = false) then Touch.restart
          else Touch.none) = Touch.none := by
        rw [if_neg]; intro hh; exact h1 ⟨hh.1, hh.2.1⟩
      rw [this]; exact countInv_U tr n i w _ acc h h2
    · subst h1; subst h2
      simp only [true_and]
      rcases h4 with ⟨d1, d2, d3⟩ | ⟨d1, d2, d3⟩
      · simp only [d1, d2, and_self, or_true, if_true, Touch.next]
        exact countInv_Z tr _ _ _ 0 ⟨d3, h3⟩
      · cases tr with
        | true =>
          simp only [true_or, if_true, Touch.next]
          unfold CountInv cnt; intro _; simp [h3]
        | false =>
          have : (if (false = true ∨ t.isData = true ∧ (w.nodes m).alive t.idx = false) then Touch.restart else Touch.none)
              = Touch.none := by
            rw [if_neg]; rintro (hh | hh)
            · exact absurd hh (by simp)
            · exact d1 hh
          rw [this]
          unfold CountInv cnt at *
          simp only [Bool.false_eq_true, if_false, Touch.next] at h ⊢
          rw [d3, d2]; exact h
  | sbegin => exact countInv_U tr n i w _ acc h (slotU_refl _ i)
  | send =>
    simp only [step, touch, Touch.next]
    split
    · exact h
    · split <;> exact countInv_U tr n i w _ acc h (slotU_refl _ i)
  | tick d => exact countInv_U tr n i w _ acc h (slotU_refl _ i)
  | resetGlobal => exact countInv_U tr n i w _ acc h (slotU_refl _ i)
  | inherit m k o =>
    simp only [step, touch, Touch.next]
    rcases restore_slot w m (reloadSnapshot (w.nodes k)) o (fun _ => ⟨rfl, rfl⟩) n i with h1 | h1
    · exact countInv_U tr n i w _ acc h h1
    · exact countInv_Z tr n i _ _ h1
  | restore m s o =>
    simp only [step, touch, Touch.next]
    rcases restore_slot w m s o hs n i with h1 | h1
    · exact countInv_U tr n i w _ acc h h1
    · exact countInv_Z tr n i _ _ h1
  | floor g fb o =>
    simp only [step, touch, Touch.next]
    rcases floorFrom_slot standardTyps g fb o n i w with h1 | h1
    · exact countInv_U tr n i w _ acc h h1
    · exact countInv_Z tr n i _ _ h1
  | reload gs o =>
    simp only [step, touch, Touch.next]
    rcases reload_slot o n i gs w with h1 | h1
    · exact countInv_U tr n i w _ acc h h1
    · exact countInv_Z tr n i _ _ h1

/-- along any sane history the real counter of an alive slot is bounded by the streak -/
theorem countInv_run (tr : Bool) (n i : Nat) (es : List Event) : ∀ (w : World) (acc : Nat),
    (∀ e ∈ es, e.Sane) → CountInv tr n i w acc →
    CountInv tr n i (run w es).1 (specCount tr n i w es acc) := by
  induction es with
  | nil => intro w acc _ h; exact h
  | cons e es ih =>
    intro w acc hs h
    simp only [run, specCount]
    exact ih _ _ (fun e' he' => hs e' (List.mem_cons_of_mem _ he'))
      (countInv_step tr n i w e acc (hs e List.mem_cons_self) h)


theorem specCount_append (tr : Bool) (n i : Nat) (es : List Event) (e : Event) : ∀ (w : World) (acc : Nat),
    specCount tr n i w (es ++ [e]) acc =
      (touch tr n i (run w es).1 e).next (specCount tr n i w es acc) := by
  induction es with
  | nil => intro w acc; simp [specCount, run]
  | cons x xs ih => intro w acc; simp only [List.cons_append, specCount, run]; exact ih _ _

theorem isUdp_of_idx (t t' : Typ) (h : t.idx = t'.idx) : t.isUdp = t'.isUdp := by
  cases t <;> cases t' <;> simp [Typ.idx] at h <;> rfl

/-- the events that may take a slot down without a threshold being reached -/
inductive ForcedCause (w : World) (n i : Nat) : Event → Prop
  | forced (t : Typ) (o : Oracle) : t.idx = i → ForcedCause w n i (.forced n t o)
  | restore (s : Snapshot) (o : Oracle) : ForcedCause w n i (.restore n s o)
  | inherit (m : Nat) (o : Oracle) : ForcedCause w n i (.inherit n m o)
  | escalation (e : Event) : Out.escalate n ∈ (step w e).2 → ForcedCause w n i e
  | reload (gs : List ReloadGroup) (o : Oracle) : (∃ G ∈ gs, ∃ p ∈ G.pairs, p.1 = n) → ForcedCause w n i (.reload gs o)

theorem escalates_out (w : World) (m : Nat) (t : Typ) (tr : Bool) (o : Oracle) (hs : w.suppressed = false)
    (he : escalates w m t tr = true) : Out.escalate m ∈ (markUnavail w m t tr o).2 := by
  unfold escalates at he
  simp only [Bool.and_eq_true, decide_eq_true_eq] at he
  unfold markUnavail
  simp only [hs, Bool.false_eq_true, if_false]
  have hc : ((w.nodes m).alive t.idx && !((w.nodes m).counted t tr).alive t.idx) = true ∧ (w.nodes m).addr ≠ 0 :=
    ⟨by simpa using he.1.1, he.1.2⟩
  rw [if_pos hc, if_pos he.2]
  simp

/-- what a counted failure does to the slot it is about -/
theorem markUnavail_death (w : World) (m : Nat) (t : Typ) (tr : Bool) (o : Oracle) (n i : Nat)
    (ha : (w.nodes n).alive i = true) (hd : ((markUnavail w m t tr o).1.nodes n).alive i = false) :
    Out.escalate n ∈ (markUnavail w m t tr o).2 ∨
    (w.suppressed = false ∧ m = n ∧ t.idx = i ∧ threshold t.isUdp tr ≤ cnt tr (w.nodes n) i + 1) := by
  rw [markUnavail_nodes] at hd
  by_cases hs0 : w.suppressed = true
  · rw [if_pos hs0] at hd; rw [ha] at hd; exact absurd hd (by simp)
  · have hs : w.suppressed = false := by simpa using hs0
    rw [if_neg hs0] at hd
    by_cases he : escalates w m t tr = true
    · by_cases hm : m = n
      · subst hm; left; exact escalates_out w m t tr o hs he
      · rw [if_pos he, upd_other _ _ _ _ (Ne.symm hm), ha] at hd; exact absurd hd (by simp)
    · rw [if_neg he] at hd
      by_cases hm : m = n
      · subst hm
        rw [upd_same] at hd
        by_cases hi : t.idx = i
        · subst hi
          right
          refine ⟨hs, rfl, rfl, ?_⟩
          cases tr <;> simp [Node.counted, ha, cnt] at hd ⊢ <;> omega
        · rw [counted_alive_other _ t tr i (Ne.symm hi), ha] at hd; exact absurd hd (by simp)
      · rw [upd_other _ _ _ _ (Ne.symm hm), ha] at hd; exact absurd hd (by simp)

theorem avail_alive_mono (nd : Node) (t : Typ) (i : Nat) (h : nd.alive i = true) : (nd.avail t).alive i = true := by
  by_cases hi : i = t.idx
  · rw [hi]; exact avail_alive_self nd t
  · rw [avail_alive_other nd t i hi]; exact h

theorem markAvail_alive_mono (w : World) (m : Nat) (t : Typ) (o : Oracle) (n i : Nat)
    (h : (w.nodes n).alive i = true) : ((markAvail w m t o).1.nodes n).alive i = true := by
  rw [markAvail_nodes]
  by_cases hm : m = n
  · subst hm; rw [upd_same]; exact avail_alive_mono _ t i h
  · rw [upd_other _ _ _ _ (Ne.symm hm)]; exact h

theorem markAliveFallback_alive_mono (w : World) (m : Nat) (t : Typ) (o : Oracle) (n i : Nat)
    (h : (w.nodes n).alive i = true) : ((markAliveFallback w m t o).1.nodes n).alive i = true := by
  rw [markAliveFallback_nodes]
  by_cases hm : m = n
  · subst hm; rw [upd_same]; exact avail_alive_mono _ t i h
  · rw [upd_other _ _ _ _ (Ne.symm hm)]; exact h

theorem floorFrom_alive_mono (ts : List Typ) (g : Nat) (fb : Nat → Option Nat) (o : Oracle) (n i : Nat) :
    ∀ w : World, (w.nodes n).alive i = true → ((floorFrom ts w g fb o).1.nodes n).alive i = true := by
  induction ts with
  | nil => intro w h; exact h
  | cons t ts ih =>
    intro w h
    simp only [floorFrom]
    apply ih
    unfold floorOne
    split
    · exact h
    · split
      · exact h
      · split
        · exact h
        · exact markAliveFallback_alive_mono w _ t o n i h

theorem trafficOk_alive_mono (w : World) (m : Nat) (t : Typ) (o : Oracle) (n i : Nat)
    (h : (w.nodes n).alive i = true) : ((trafficOk w m t o).1.nodes n).alive i = true := by
  rw [trafficOk_nodes]
  by_cases hm : m = n
  · subst hm
    split
    · rw [upd_same]; exact avail_alive_mono _ t i (by simpa using h)
    · rw [upd_same]; simpa using h
  · split <;> (rw [upd_other _ _ _ _ (Ne.symm hm)]; exact h)

theorem restore_nodes_other (w : World) (m : Nat) (s : Snapshot) (o : Oracle) (n : Nat) (h : n ≠ m) :
    (restore w m s o).1.nodes n = w.nodes n := by
  simp only [restore, restoreFrom_nodes, upd_other _ _ _ _ h]

theorem inheritPairs_alive_mono (o : Oracle) (n i : Nat) (ps : List (Nat × Nat)) : ∀ w : World,
    (∀ p ∈ ps, p.1 ≠ n) → (w.nodes n).alive i = true → ((inheritPairs ps w o).1.nodes n).alive i = true := by
  induction ps with
  | nil => intro w _ h; exact h
  | cons p ps ih =>
    intro w hp h
    simp only [inheritPairs]
    apply ih _ (fun q hq => hp q (List.mem_cons_of_mem _ hq))
    rw [restore_nodes_other _ _ _ _ _ (Ne.symm (hp p List.mem_cons_self))]; exact h

theorem restoreGroups_alive_mono (o : Oracle) (n i : Nat) (gs : List ReloadGroup) : ∀ w : World,
    (∀ G ∈ gs, ∀ p ∈ G.pairs, p.1 ≠ n) → (w.nodes n).alive i = true →
    ((restoreGroups gs w o).1.nodes n).alive i = true := by
  induction gs with
  | nil => intro w _ h; exact h
  | cons G gs ih =>
    intro w hp h
    simp only [restoreGroups]
    exact ih _ (fun G' hG' => hp G' (List.mem_cons_of_mem _ hG'))
      (inheritPairs_alive_mono o n i G.pairs w (hp G List.mem_cons_self) h)

theorem floorGroups_alive_mono (o : Oracle) (n i : Nat) (gs : List ReloadGroup) : ∀ w : World,
    (w.nodes n).alive i = true → ((floorGroups gs w o).1.nodes n).alive i = true := by
  induction gs with
  | nil => intro w h; exact h
  | cons G gs ih =>
    intro w h
    simp only [floorGroups]
    exact ih _ (floorFrom_alive_mono _ G.g G.fb o n i w h)

/-- **Step form.** A slot that is alive before an event and not alive after it: the event is a forced
report on it, a restore of the node, an escalation of the node in this very step, or a counted
(non-ignorable, non-suppressed) failure on exactly this slot that brought its counter to the threshold. -/
theorem death_step (w : World) (e : Event) (n i : Nat) (ha : (w.nodes n).alive i = true)
    (hd : ((step w e).1.nodes n).alive i = false) :
    ForcedCause w n i e ∨
    (∃ t : Typ, t.idx = i ∧ touch false n i w e = .fail ∧ threshold t.isUdp false ≤ cnt false (w.nodes n) i + 1) ∨
    (∃ t : Typ, t.idx = i ∧ touch true n i w e = .fail ∧ threshold t.isUdp true ≤ cnt true (w.nodes n) i + 1) := by
  have contra : ∀ {P : Prop}, ((step w e).1.nodes n).alive i = true → P := by
    intro P h; rw [h] at hd; exact absurd hd (by simp)
  cases e with
  | node m a =>
    apply contra
    simp only [step]; split
    · exact ha
    · by_cases hm : m = n
      · subst hm; simp [Node.fresh]
      · simp [upd_other _ _ _ _ (Ne.symm hm), ha]
  | group g ob p tol ms o =>
    apply contra; simp only [step]; split <;> exact ha
  | close g => exact contra ha
  | probe m t a1 a2 o =>
    simp only [step] at hd
    cases hp : probeOutcome a1 a2 with
    | success l =>
      rw [hp] at hd; simp only at hd
      rw [markAvail_alive_mono { w with now := w.now + l } m t o n i ha] at hd; exact absurd hd (by simp)
    | nothing => rw [hp] at hd; simp only at hd; rw [ha] at hd; exact absurd hd (by simp)
    | failure =>
      rw [hp] at hd; simp only at hd
      rcases markUnavail_death w m t false o n i ha hd with h1 | ⟨h1, h2, h3, h4⟩
      · left; apply ForcedCause.escalation; simp only [step, hp]; exact h1
      · right; left
        refine ⟨t, h3, ?_, h4⟩
        simp [touch, h2, h3, hp, h1]
  | txn m t ign o =>
    simp only [step] at hd
    cases ign with
    | true => simp only [if_true] at hd; rw [ha] at hd; exact absurd hd (by simp)
    | false =>
      simp only [Bool.false_eq_true, if_false] at hd
      rcases markUnavail_death w m t false o n i ha hd with h1 | ⟨h1, h2, h3, h4⟩
      · left; apply ForcedCause.escalation; simp only [step, Bool.false_eq_true, if_false]; exact h1
      · right; left
        refine ⟨t, h3, ?_, h4⟩
        simp [touch, h2, h3, h1]
  | tfail m t ign o =>
    simp only [step] at hd
    cases ign with
    | true => simp only [if_true] at hd; rw [ha] at hd; exact absurd hd (by simp)
    | false =>
      simp only [Bool.false_eq_true, if_false] at hd
      rcases markUnavail_death w m t true o n i ha hd with h1 | ⟨h1, h2, h3, h4⟩
      · left; apply ForcedCause.escalation; simp only [step, Bool.false_eq_true, if_false]; exact h1
      · right; right
        refine ⟨t, h3, ?_, h4⟩
        simp [touch, h2, h3, h1]
  | forced m t o =>
    simp only [step, markForced_nodes] at hd
    by_cases hm : m = n
    · subst hm
      by_cases hi : t.idx = i
      · left; exact ForcedCause.forced t o hi
      · rw [upd_same, forced_alive_other _ t i (Ne.symm hi), ha] at hd; exact absurd hd (by simp)
    · rw [upd_other _ _ _ _ (Ne.symm hm), ha] at hd; exact absurd hd (by simp)
  | tok m t o => exact contra (trafficOk_alive_mono w m t o n i ha)
  | sbegin => exact contra ha
  | send =>
    apply contra; simp only [step]; split
    · exact ha
    · split <;> exact ha
  | tick d => exact contra ha
  | resetGlobal => exact contra ha
  | inherit m k o =>
    by_cases hm : m = n
    · subst hm; left; exact ForcedCause.inherit k o
    · apply contra
      simp only [step, restore, restoreFrom_nodes, upd_other _ _ _ _ (Ne.symm hm)]; exact ha
  | restore m s o =>
    by_cases hm : m = n
    · subst hm; left; exact ForcedCause.restore s o
    · apply contra
      simp only [step, restore, restoreFrom_nodes, upd_other _ _ _ _ (Ne.symm hm)]; exact ha
  | floor g fb o => exact contra (floorFrom_alive_mono _ g fb o n i w ha)
  | reload gs o =>
    by_cases hex : ∃ G ∈ gs, ∃ p ∈ G.pairs, p.1 = n
    · left; exact ForcedCause.reload gs o hex
    · apply contra
      simp only [step, reload]
      apply floorGroups_alive_mono
      apply restoreGroups_alive_mono _ _ _ _ _ _ ha
      intro G hG p hp hpn
      exact hex ⟨G, hG, p, hp, hpn⟩


/-! ## reload: hand-over and selection floor -/

theorem inherit_nodes (w : World) (n m : Nat) (o : Oracle) (i : Nat) (hi : i < 8) :
    (((step w (.inherit n m o)).1.nodes n).alive (canon i) = (w.nodes m).alive (canon i)) ∧
    ((step w (.inherit n m o)).1.nodes n).fail i = 0 ∧ ((step w (.inherit n m o)).1.nodes n).tfail i = 0 := by
  simp only [step, restore, restoreFrom_nodes, upd_same, List.foldl_cons, List.foldl_nil]
  have : i = 0 ∨ i = 1 ∨ i = 2 ∨ i = 3 ∨ i = 4 ∨ i = 5 ∨ i = 6 ∨ i = 7 := by omega
  rcases this with h | h | h | h | h | h | h | h <;> subst h <;>
    simp [Node.restoreIdx, reloadSnapshot, canon, upd]

theorem notifyOne_gid_idx (s : ASet) (n c : Nat) (a : Bool) (o : Oracle) :
    (notifyOne s n c a o).1.gid = s.gid ∧ (notifyOne s n c a o).1.idx = s.idx := by
  unfold notifyOne; split
  · have := notify_static s n a (o.get s.gid s.idx n); exact ⟨this.1, this.2.2.1⟩
  · exact ⟨rfl, rfl⟩

theorem findSet_notifyAll (sets : List ASet) (n c : Nat) (a : Bool) (o : Oracle) (g i : Nat) :
    findSet (notifyAll sets n c a o).1 g i = (findSet sets g i).map fun s => (notifyOne s n c a o).1 := by
  induction sets with
  | nil => simp [findSet, notifyAll]
  | cons s ss ih =>
    unfold findSet at *
    simp only [notifyAll, List.find?_cons]
    obtain ⟨h1, h2⟩ := notifyOne_gid_idx s n c a o
    rw [h1, h2]
    split
    · simp
    · exact ih

theorem notifyOne_static (s : ASet) (n c : Nat) (a : Bool) (o : Oracle) : s.sameStatic (notifyOne s n c a o).1 := by
  unfold notifyOne; split
  · exact notify_static s n a _
  · exact sameStatic_refl s

/-- an alive notification never empties a set; it makes a registered member's set non-empty -/
theorem notifyOne_alive_nonempty (s : ASet) (n c : Nat) (o : Oracle) (hnd : NodupSet s) :
    (s.entries ≠ [] → (notifyOne s n c true o).1.entries ≠ []) ∧
    (s.active = true → s.idx = c → n ∈ s.members → (notifyOne s n c true o).1.entries ≠ []) := by
  unfold notifyOne
  by_cases hc : s.active = true ∧ s.idx = c ∧ n ∈ s.members
  · rw [if_pos hc]
    obtain ⟨_, hk⟩ := notify_keys s n true (o.get s.gid s.idx n) hnd
    have hn : n ∈ keys (s.notify n true (o.get s.gid s.idx n)).1.entries := by rw [hk]; simp
    have hne : (s.notify n true (o.get s.gid s.idx n)).1.entries ≠ [] := by
      intro h0; rw [h0] at hn; simp [keys] at hn
    exact ⟨fun _ => hne, fun _ _ _ => hne⟩
  · rw [if_neg hc]
    exact ⟨fun h => h, fun h1 h2 h3 => absurd ⟨h1, h2, h3⟩ hc⟩

theorem findSet_mem (sets : List ASet) (g i : Nat) (s : ASet) (h : findSet sets g i = some s) :
    s ∈ sets ∧ s.gid = g ∧ s.idx = i := by
  unfold findSet at h
  have h1 := List.mem_of_find?_eq_some h
  have h2 := List.find?_some h
  simp only [Bool.and_eq_true, beq_iff_eq] at h2
  exact ⟨h1, h2.1, h2.2⟩

/-- the found set of `(g, i)` is non-empty -/
def DoneAt (w : World) (g i : Nat) : Prop := ∀ s, findSet w.sets g i = some s → s.entries ≠ []

/-- what the floor needs of the found set of `(g, t.idx)`: registered, and the fallback candidate
(or the first member) belongs to the group -/
def ReadyAt (w : World) (g : Nat) (fb : Nat → Option Nat) (i : Nat) : Prop :=
  ∀ s, findSet w.sets g i = some s → s.active = true ∧ s.members ≠ [] ∧ ∀ c, fb i = some c → c ∈ s.members

theorem markAliveFallback_find (w : World) (c : Nat) (t : Typ) (o : Oracle) (g i : Nat) :
    findSet (markAliveFallback w c t o).1.sets g i =
      (findSet w.sets g i).map fun s => (notifyOne s c t.idx true o).1 :=
  findSet_notifyAll w.sets c t.idx true o g i

theorem floorOne_props (w : World) (g : Nat) (fb : Nat → Option Nat) (o : Oracle) (t : Typ)
    (hnd : SetsAll NodupSet w) :
    (∀ i, ReadyAt w g fb i → ReadyAt (floorOne w g fb o t).1 g fb i) ∧
    (∀ i, DoneAt w g i → DoneAt (floorOne w g fb o t).1 g i) ∧
    (ReadyAt w g fb t.idx → DoneAt (floorOne w g fb o t).1 g t.idx) := by
  unfold floorOne
  cases hf : findSet w.sets g t.idx with
  | none =>
    simp only
    refine ⟨fun _ h => h, fun _ h => h, ?_⟩
    intro _ s hs; rw [hf] at hs; exact absurd hs (by simp)
  | some s0 =>
    simp only
    by_cases hlen : s0.entries.length > 0
    · rw [if_pos hlen]
      refine ⟨fun _ h => h, fun _ h => h, ?_⟩
      intro _ s hs; rw [hf] at hs
      simp only [Option.some.injEq] at hs; subst hs
      intro h0; rw [h0] at hlen; simp at hlen
    · rw [if_neg hlen]
      cases hcand : floorCandidate fb s0 t.idx with
      | none =>
        simp only
        refine ⟨fun _ h => h, fun _ h => h, ?_⟩
        intro hr
        obtain ⟨_, hmem, _⟩ := hr s0 hf
        exfalso
        cases hfb : fb t.idx with
        | some c => simp [floorCandidate, hfb] at hcand
        | none =>
          simp only [floorCandidate, hfb] at hcand
          cases hm : s0.members with
          | nil => exact hmem hm
          | cons x xs => rw [hm] at hcand; simp at hcand
      | some c =>
        simp only
        have hmap : ∀ i, findSet (markAliveFallback w c t o).1.sets g i =
            (findSet w.sets g i).map fun s => (notifyOne s c t.idx true o).1 :=
          fun i => markAliveFallback_find w c t o g i
        refine ⟨?_, ?_, ?_⟩
        · intro i hr s hs
          rw [hmap] at hs
          cases hfi : findSet w.sets g i with
          | none => rw [hfi] at hs; simp at hs
          | some s1 =>
            rw [hfi] at hs; simp only [Option.map_some, Option.some.injEq] at hs; subst hs
            obtain ⟨_, _, _, _, _, hm, _, ha⟩ := notifyOne_static s1 c t.idx true o
            rw [ha, hm]; exact hr s1 hfi
        · intro i hd s hs
          rw [hmap] at hs
          cases hfi : findSet w.sets g i with
          | none => rw [hfi] at hs; simp at hs
          | some s1 =>
            rw [hfi] at hs; simp only [Option.map_some, Option.some.injEq] at hs; subst hs
            exact (notifyOne_alive_nonempty s1 c t.idx o (hnd s1 (findSet_mem _ _ _ _ hfi).1)).1 (hd s1 hfi)
        · intro hr s hs
          rw [hmap, hf] at hs
          simp only [Option.map_some, Option.some.injEq] at hs; subst hs
          obtain ⟨hact, hmem, hfbm⟩ := hr s0 hf
          have hc : c ∈ s0.members := by
            cases hfb : fb t.idx with
            | some c' => simp only [floorCandidate, hfb, Option.some.injEq] at hcand; subst hcand; exact hfbm _ hfb
            | none =>
              simp only [floorCandidate, hfb] at hcand
              exact List.mem_of_mem_head? hcand
          exact (notifyOne_alive_nonempty s0 c t.idx o (hnd s0 (findSet_mem _ _ _ _ hf).1)).2 hact
            (findSet_mem _ _ _ _ hf).2.2 hc

theorem floorFrom_props (g : Nat) (fb : Nat → Option Nat) (o : Oracle) (ts : List Typ) : ∀ w : World,
    SetsAll NodupSet w → (∀ t ∈ ts, ReadyAt w g fb t.idx) →
    (∀ i, DoneAt w g i → DoneAt (floorFrom ts w g fb o).1 g i) ∧
    (∀ t ∈ ts, DoneAt (floorFrom ts w g fb o).1 g t.idx) := by
  induction ts with
  | nil => intro w _ _; exact ⟨fun _ h => h, fun t ht => by simp at ht⟩
  | cons t ts ih =>
    intro w hnd hr
    simp only [floorFrom]
    obtain ⟨p1, p2, p3⟩ := floorOne_props w g fb o t hnd
    have hnd' := floorOne_pres NodupSet o (nodupSet_stable o) w g fb t hnd
    obtain ⟨q1, q2⟩ := ih _ hnd' (fun t' ht' => p1 _ (hr t' (List.mem_cons_of_mem _ ht')))
    refine ⟨fun i h => q1 i (p2 i h), ?_⟩
    intro t' ht'
    rcases List.mem_cons.mp ht' with rfl | ht'
    · exact q1 _ (p3 (hr _ List.mem_cons_self))
    · exact q2 t' ht'


/-! ## the whole hand-over leaves every group selectable -/

/-- a world step that only notifies: the found set of `(g, i)` is the notified found set -/
theorem readyAt_notifyAll (sets : List ASet) (n c : Nat) (a : Bool) (o : Oracle) (g : Nat) (fb : Nat → Option Nat) (i : Nat)
    (h : ∀ s, findSet sets g i = some s → s.active = true ∧ s.members ≠ [] ∧ ∀ c, fb i = some c → c ∈ s.members) :
    ∀ s, findSet (notifyAll sets n c a o).1 g i = some s →
      s.active = true ∧ s.members ≠ [] ∧ ∀ c, fb i = some c → c ∈ s.members := by
  intro s hs
  rw [findSet_notifyAll] at hs
  cases hfi : findSet sets g i with
  | none => rw [hfi] at hs; simp at hs
  | some s1 =>
    rw [hfi] at hs; simp only [Option.map_some, Option.some.injEq] at hs; subst hs
    obtain ⟨_, _, _, _, _, hm, _, ha⟩ := notifyOne_static s1 n c a o
    rw [ha, hm]; exact h s1 hfi

theorem restoreFrom_ready (g : Nat) (fb : Nat → Option Nat) (i : Nat) (n : Nat) (s : Snapshot) (o : Oracle)
    (is : List Nat) : ∀ w : World, ReadyAt w g fb i → ReadyAt (restoreFrom is w n s o).1 g fb i := by
  induction is with
  | nil => intro w h; exact h
  | cons j js ih =>
    intro w h
    simp only [restoreFrom]
    apply ih
    exact readyAt_notifyAll w.sets n (canon j) (s.alive j) o g fb i h

theorem inheritPairs_ready (g : Nat) (fb : Nat → Option Nat) (i : Nat) (o : Oracle) (ps : List (Nat × Nat)) :
    ∀ w : World, ReadyAt w g fb i → ReadyAt (inheritPairs ps w o).1 g fb i := by
  induction ps with
  | nil => intro w h; exact h
  | cons p ps ih => intro w h; exact ih _ (restoreFrom_ready g fb i p.1 _ o _ w h)

theorem restoreGroups_ready (g : Nat) (fb : Nat → Option Nat) (i : Nat) (o : Oracle) (gs : List ReloadGroup) :
    ∀ w : World, ReadyAt w g fb i → ReadyAt (restoreGroups gs w o).1 g fb i := by
  induction gs with
  | nil => intro w h; exact h
  | cons G gs ih => intro w h; exact ih _ (inheritPairs_ready g fb i o G.pairs w h)

/-- flooring one group never un-readies or empties the found set of any group -/
theorem floorOne_other (w : World) (g : Nat) (fb : Nat → Option Nat) (o : Oracle) (t : Typ)
    (hnd : SetsAll NodupSet w) (g' : Nat) (fb' : Nat → Option Nat) (i : Nat) :
    (ReadyAt w g' fb' i → ReadyAt (floorOne w g fb o t).1 g' fb' i) ∧
    (DoneAt w g' i → DoneAt (floorOne w g fb o t).1 g' i) := by
  unfold floorOne
  split
  · exact ⟨fun h => h, fun h => h⟩
  · split
    · exact ⟨fun h => h, fun h => h⟩
    · split
      · exact ⟨fun h => h, fun h => h⟩
      · rename_i c _
        constructor
        · intro h; exact readyAt_notifyAll w.sets c t.idx true o g' fb' i h
        · intro hd s hs
          have hmap := markAliveFallback_find w c t o g' i
          rw [hmap] at hs
          cases hfi : findSet w.sets g' i with
          | none => rw [hfi] at hs; simp at hs
          | some s1 =>
            rw [hfi] at hs; simp only [Option.map_some, Option.some.injEq] at hs; subst hs
            exact (notifyOne_alive_nonempty s1 c t.idx o (hnd s1 (findSet_mem _ _ _ _ hfi).1)).1 (hd s1 hfi)

theorem floorFrom_other (g : Nat) (fb : Nat → Option Nat) (o : Oracle) (g' : Nat) (fb' : Nat → Option Nat) (i : Nat)
    (ts : List Typ) : ∀ w : World, SetsAll NodupSet w →
    (ReadyAt w g' fb' i → ReadyAt (floorFrom ts w g fb o).1 g' fb' i) ∧
    (DoneAt w g' i → DoneAt (floorFrom ts w g fb o).1 g' i) := by
  induction ts with
  | nil => intro w _; exact ⟨fun h => h, fun h => h⟩
  | cons t ts ih =>
    intro w hnd
    simp only [floorFrom]
    obtain ⟨a, b⟩ := floorOne_other w g fb o t hnd g' fb' i
    obtain ⟨c, d⟩ := ih _ (floorOne_pres NodupSet o (nodupSet_stable o) w g fb t hnd)
    exact ⟨fun h => c (a h), fun h => d (b h)⟩

theorem floorGroups_done_mono (o : Oracle) (g' : Nat) (i : Nat) (gs : List ReloadGroup) : ∀ w : World,
    SetsAll NodupSet w → DoneAt w g' i → DoneAt (floorGroups gs w o).1 g' i := by
  induction gs with
  | nil => intro w _ h; exact h
  | cons G gs ih =>
    intro w hnd h
    simp only [floorGroups]
    exact ih _ (floorFrom_pres NodupSet o (nodupSet_stable o) _ w G.g G.fb hnd)
      ((floorFrom_other G.g G.fb o g' (fun _ => none) i standardTyps w hnd).2 h)

theorem floorGroups_done (o : Oracle) (gs : List ReloadGroup) : ∀ w : World, SetsAll NodupSet w →
    ∀ G ∈ gs, (∀ t ∈ standardTyps, ReadyAt w G.g G.fb t.idx) →
    ∀ t ∈ standardTyps, DoneAt (floorGroups gs w o).1 G.g t.idx := by
  induction gs with
  | nil => intro w _ G hG; simp at hG
  | cons G0 gs ih =>
    intro w hnd G hG hr t ht
    simp only [floorGroups]
    have hnd1 := floorFrom_pres NodupSet o (nodupSet_stable o) standardTyps w G0.g G0.fb hnd
    rcases List.mem_cons.mp hG with rfl | hG
    · exact floorGroups_done_mono o _ _ gs _ hnd1 ((floorFrom_props G.g G.fb o standardTyps w hnd hr).2 t ht)
    · apply ih _ hnd1 G hG _ t ht
      intro t' ht'
      exact (floorFrom_other G0.g G0.fb o G.g G.fb t'.idx standardTyps w hnd).1 (hr t' ht')

/-- After the whole hand-over (all restores, then all floors) every group of the list whose sets are
registered, have members and whose fallback candidates are members has all six found sets non-empty. -/
theorem reload_all_done (w : World) (gs : List ReloadGroup) (o : Oracle) (hnd : SetsAll NodupSet w) :
    ∀ G ∈ gs, (∀ t ∈ standardTyps, ReadyAt w G.g G.fb t.idx) →
    ∀ t ∈ standardTyps, DoneAt (reload w gs o).1 G.g t.idx := by
  intro G hG hr
  simp only [reload]
  apply floorGroups_done o gs _ (restoreGroups_pres NodupSet o (nodupSet_stable o) gs w hnd) G hG
  intro t ht
  exact restoreGroups_ready G.g G.fb t.idx o gs w (hr t ht)


/-! ## escalation and misc single-step facts -/

theorem foldl_forced_all_dead (nd : Node) (t : Typ) : (escalationTyps.foldl Node.forced nd).alive t.idx = false := by
  cases t <;> simp [escalationTyps, Node.forced, upd, Typ.idx]

theorem escalation_all_dead (w : World) (n : Nat) (t : Typ) (tr : Bool) (o : Oracle) (hs : w.suppressed = false)
    (he : escalates w n t tr = true) (t' : Typ) : ((markUnavail w n t tr o).1.nodes n).alive t'.idx = false := by
  rw [markUnavail_nodes]
  simp only [hs, Bool.false_eq_true, if_false, he, if_true, upd_same]
  exact foldl_forced_all_dead _ t'

theorem threshold_kills (w : World) (n : Nat) (t : Typ) (tr : Bool) (o : Oracle) (hs : w.suppressed = false)
    (hc : threshold t.isUdp tr ≤ cnt tr (w.nodes n) t.idx + 1) :
    ((markUnavail w n t tr o).1.nodes n).alive t.idx = false := by
  rw [markUnavail_nodes]
  simp only [hs, Bool.false_eq_true, if_false]
  have hdead : ((w.nodes n).counted t tr).alive t.idx = false := by
    cases tr <;> simp [Node.counted, cnt] at hc ⊢ <;> omega
  split
  · rw [upd_same]; exact foldl_forced_alive_false _ _ _ hdead
  · rw [upd_same]; exact hdead

theorem below_threshold_keeps (w : World) (n : Nat) (t : Typ) (tr : Bool) (o : Oracle)
    (hc : cnt tr (w.nodes n) t.idx + 1 < threshold t.isUdp tr) :
    ((markUnavail w n t tr o).1.nodes n).alive t.idx = (w.nodes n).alive t.idx := by
  rw [markUnavail_nodes]
  have hsame : ((w.nodes n).counted t tr).alive t.idx = (w.nodes n).alive t.idx := by
    cases tr <;> simp [Node.counted, cnt] at hc ⊢ <;> omega
  have hne : escalates w n t tr = false := by
    unfold escalates; simp only [hsame]; cases (w.nodes n).alive t.idx <;> simp
  split
  · rfl
  · simp only [hne, Bool.false_eq_true, if_false, upd_same]; exact hsame

theorem markUnavail_suppressed (w : World) (n : Nat) (t : Typ) (tr : Bool) (o : Oracle) (hs : w.suppressed = true) :
    markUnavail w n t tr o = (w, []) := by
  unfold markUnavail; simp [hs]

theorem kernelKey_inj (ob ob' i i' : Nat) (hi : 2 ≤ i ∧ i ≤ 7) (hi' : 2 ≤ i' ∧ i' ≤ 7)
    (h : kernelKey ob i = kernelKey ob' i') : ob = ob' ∧ i = i' := by
  unfold kernelKey domainOfIdx ipvOfIdx at h
  have c : i = 2 ∨ i = 3 ∨ i = 4 ∨ i = 5 ∨ i = 6 ∨ i = 7 := by omega
  have c' : i' = 2 ∨ i' = 3 ∨ i' = 4 ∨ i' = 5 ∨ i' = 6 ∨ i' = 7 := by omega
  rcases c with h1 | h1 | h1 | h1 | h1 | h1 <;> rcases c' with h2 | h2 | h2 | h2 | h2 | h2 <;> subst h1 <;> subst h2 <;>
    simp at h <;> omega

theorem kernelKey_range (ob i : Nat) (hi : 2 ≤ i ∧ i ≤ 7) : ob * 6 ≤ kernelKey ob i ∧ kernelKey ob i < ob * 6 + 6 := by
  unfold kernelKey domainOfIdx ipvOfIdx
  have c : i = 2 ∨ i = 3 ∨ i = 4 ∨ i = 5 ∨ i = 6 ∨ i = 7 := by omega
  rcases c with h1 | h1 | h1 | h1 | h1 | h1 <;> subst h1 <;> simp <;> omega

theorem ofTable_tabulate {β : Type} (f : Nat → β) : ofTable (tabulate f) f = f := by
  funext i
  unfold ofTable tabulate
  match i with
  | 0 | 1 | 2 | 3 | 4 | 5 | 6 | 7 => rfl
  | n + 8 => simp

theorem node_tab (nd : Node) : nd.tab = nd := by
  unfold Node.tab; simp only [ofTable_tabulate]

theorem tabNodes_eq (ids : List Nat) (f : Nat → Node) : tabNodesAux (nodeTable ids f) f = f := by
  funext n
  unfold tabNodesAux
  split
  · rename_i e he
    have hm := List.mem_of_find?_eq_some he
    have hp := List.find?_some he
    simp only [nodeTable, List.mem_map] at hm
    obtain ⟨k, _, rfl⟩ := hm
    simp only [beq_iff_eq] at hp
    simp only [node_tab]; rw [hp]
  · rfl

theorem world_tab (w : World) (ids : List Nat) : w.tab ids = w := by
  unfold World.tab; rw [tabNodes_eq]


/-! ## the per-address failure table -/

def fkeys (fs : List FailEntry) : List Nat := fs.map (·.1)

theorem failLookup_nil (a : Nat) : failLookup [] a = 0 := rfl

theorem failLookup_cons (e : FailEntry) (fs : List FailEntry) (a : Nat) :
    failLookup (e :: fs) a = if e.1 = a then e.2.1 else failLookup fs a := by
  unfold failLookup
  simp only [List.find?_cons]
  by_cases h : e.1 = a
  · simp [h]
  · have : (e.1 == a) = false := by simpa using h
    simp [this, h]

theorem failLookup_not_mem (fs : List FailEntry) (a : Nat) (h : a ∉ fkeys fs) : failLookup fs a = 0 := by
  induction fs with
  | nil => rfl
  | cons e fs ih =>
    rw [failLookup_cons]
    simp only [fkeys, List.map_cons, List.mem_cons, not_or] at h
    rw [if_neg (fun h' => h.1 h'.symm)]
    exact ih h.2

theorem failLookup_filter_le (p : FailEntry → Bool) (fs : List FailEntry) (a : Nat) (hnd : (fkeys fs).Nodup) :
    failLookup (fs.filter p) a ≤ failLookup fs a := by
  induction fs with
  | nil => simp [failLookup_nil]
  | cons e fs ih =>
    have hnd' := (List.nodup_cons.mp hnd)
    simp only [List.filter_cons]
    by_cases hp : p e = true
    · simp only [hp, if_true, failLookup_cons]
      split
      · exact Nat.le_refl _
      · exact ih hnd'.2
    · simp only [hp, Bool.false_eq_true, if_false, failLookup_cons]
      split
      · rename_i hea
        have : a ∉ fkeys (fs.filter p) := by
          intro hm
          apply hnd'.1
          simp only [fkeys, List.mem_map, List.mem_filter] at hm
          obtain ⟨x, ⟨hx, _⟩, rfl⟩ := hm
          show e.1 ∈ List.map (fun x => x.1) fs
          rw [hea]; exact List.mem_map_of_mem (f := fun x : FailEntry => x.1) hx
        rw [failLookup_not_mem _ _ this]; exact Nat.zero_le _
      · exact ih hnd'.2

theorem fkeys_filter_nodup (p : FailEntry → Bool) (fs : List FailEntry) (hnd : (fkeys fs).Nodup) :
    (fkeys (fs.filter p)).Nodup := by
  unfold fkeys at *
  exact List.Nodup.sublist (List.Sublist.map _ List.filter_sublist) hnd

theorem failErase_lookup (fs : List FailEntry) (a b : Nat) :
    failLookup (failErase fs a) b = if b = a then 0 else failLookup fs b := by
  induction fs with
  | nil => simp [failErase, failLookup_nil]
  | cons e fs ih =>
    unfold failErase at *
    simp only [List.filter_cons]
    by_cases he : e.1 = a
    · simp only [he, bne_self_eq_false, Bool.false_eq_true, if_false, failLookup_cons]
      rw [ih]
      by_cases hb : b = a
      · simp [hb]
      · simp [hb, Ne.symm hb]
    · have : (e.1 != a) = true := by simpa using he
      simp only [this, if_true, failLookup_cons]
      rw [ih]
      by_cases hb : b = a
      · subst hb; simp [he]
      · simp [hb]

theorem failErase_nodup (fs : List FailEntry) (a : Nat) (hnd : (fkeys fs).Nodup) :
    (fkeys (failErase fs a)).Nodup ∧ a ∉ fkeys (failErase fs a) := by
  refine ⟨fkeys_filter_nodup _ fs hnd, ?_⟩
  intro hm
  simp only [fkeys, failErase, List.mem_map, List.mem_filter] at hm
  obtain ⟨x, ⟨_, hx⟩, rfl⟩ := hm
  simp at hx

def FailWF (w : World) : Prop := (fkeys w.failures).Nodup

theorem cleanup_props (w : World) (hwf : FailWF w) :
    FailWF (cleanupFailures w) ∧ ∀ a, failLookup (cleanupFailures w).failures a ≤ failLookup w.failures a := by
  unfold cleanupFailures
  split
  · exact ⟨fkeys_filter_nodup _ _ hwf, fun a => failLookup_filter_le _ _ a hwf⟩
  · exact ⟨hwf, fun a => Nat.le_refl _⟩

theorem recordFailure_props (w : World) (a : Nat) (hwf : FailWF w) :
    FailWF (recordFailure w a).1 ∧
    (∀ b, b ≠ a → failLookup (recordFailure w a).1.failures b ≤ failLookup w.failures b) ∧
    failLookup (recordFailure w a).1.failures a ≤ failLookup w.failures a + 1 ∧
    ((recordFailure w a).2 = true → maxConsecutiveFailures ≤ failLookup w.failures a + 1) := by
  obtain ⟨c1, c2⟩ := cleanup_props w hwf
  unfold recordFailure
  simp only
  obtain ⟨e1, e2⟩ := failErase_nodup (cleanupFailures w).failures a c1
  by_cases hc : failLookup (cleanupFailures w).failures a + 1 ≥ maxConsecutiveFailures
  · rw [if_pos hc]
    refine ⟨e1, ?_, ?_, ?_⟩
    · intro b hb; simp only [failErase_lookup, hb, if_false]; exact c2 b
    · simp [failErase_lookup]
    · intro _; have := c2 a; omega
  · rw [if_neg hc]
    refine ⟨?_, ?_, ?_, ?_⟩
    · unfold FailWF fkeys
      simp only [List.map_cons, List.nodup_cons]
      exact ⟨e2, e1⟩
    · intro b hb
      simp only [failLookup_cons, failErase_lookup, hb, if_false]
      rw [if_neg (Ne.symm hb)]; exact c2 b
    · simp only [failLookup_cons, if_true]; have := c2 a; omega
    · intro h; simp at h


theorem markForced_failures (w : World) (n : Nat) (t : Typ) (o : Oracle) :
    (markForced w n t o).1.failures = w.failures := rfl

theorem escalateFrom_failures (ts : List Typ) (n : Nat) (o : Oracle) : ∀ w : World,
    (escalateFrom ts w n o).1.failures = w.failures := by
  induction ts with
  | nil => intro w; rfl
  | cons t ts ih => intro w; simp only [escalateFrom]; rw [ih, markForced_failures]

theorem restoreFrom_failures (is : List Nat) (n : Nat) (s : Snapshot) (o : Oracle) : ∀ w : World,
    (restoreFrom is w n s o).1.failures = w.failures := by
  induction is with
  | nil => intro w; rfl
  | cons i is ih => intro w; simp only [restoreFrom]; rw [ih]; rfl

theorem floorFrom_failures (ts : List Typ) (g : Nat) (fb : Nat → Option Nat) (o : Oracle) : ∀ w : World,
    (floorFrom ts w g fb o).1.failures = w.failures := by
  induction ts with
  | nil => intro w; rfl
  | cons t ts ih =>
    intro w; simp only [floorFrom]; rw [ih]
    unfold floorOne
    split
    · rfl
    · split
      · rfl
      · split <;> rfl

theorem reload_failures (w : World) (gs : List ReloadGroup) (o : Oracle) : (reload w gs o).1.failures = w.failures := by
  have h1 : ∀ (ps : List (Nat × Nat)) (w : World), (inheritPairs ps w o).1.failures = w.failures := by
    intro ps
    induction ps with
    | nil => intro w; rfl
    | cons p ps ih => intro w; simp only [inheritPairs]; rw [ih]; exact restoreFrom_failures _ _ _ _ _
  have h2 : ∀ (gs : List ReloadGroup) (w : World), (restoreGroups gs w o).1.failures = w.failures := by
    intro gs
    induction gs with
    | nil => intro w; rfl
    | cons G gs ih => intro w; simp only [restoreGroups]; rw [ih, h1]
  have h3 : ∀ (gs : List ReloadGroup) (w : World), (floorGroups gs w o).1.failures = w.failures := by
    intro gs
    induction gs with
    | nil => intro w; rfl
    | cons G gs ih => intro w; simp only [floorGroups]; rw [ih, floorFrom_failures]
  simp only [reload]; rw [h3, h2]

/-- the counted failure `(m, t, traffic)` executed in `w` is a death transition of that slot -/
def diesBy (w : World) (m : Nat) (t : Typ) (tr : Bool) : Bool :=
  !w.suppressed && (w.nodes m).alive t.idx && !((w.nodes m).counted t tr).alive t.idx

/-- How an event relates to the consecutive-failure count of proxy address `a`: a death transition
(non-forced) of a node with that address counts, a success of such a node (or the reload reset)
starts over. -/
def touchAddr (a : Nat) (w : World) : Event → Touch
  | .probe m t a1 a2 _ =>
    match probeOutcome a1 a2 with
    | .success _ => if (w.nodes m).addr = a then .restart else .none
    | .failure => if (w.nodes m).addr = a ∧ diesBy w m t false = true then .fail else .none
    | .nothing => .none
  | .txn m t ign _ => if ign = false ∧ (w.nodes m).addr = a ∧ diesBy w m t false = true then .fail else .none
  | .tfail m t ign _ => if ign = false ∧ (w.nodes m).addr = a ∧ diesBy w m t true = true then .fail else .none
  | .tok m t _ =>
    if (w.nodes m).addr = a ∧ t.isData = true ∧ (w.nodes m).alive t.idx = false then .restart else .none
  | .resetGlobal => .restart
  | _ => .none

def specAddr (a : Nat) : World → List Event → Nat → Nat
  | _, [], acc => acc
  | w, e :: es, acc => specAddr a (step w e).1 es ((touchAddr a w e).next acc)

def AddrInv (a : Nat) (w : World) (acc : Nat) : Prop := FailWF w ∧ failLookup w.failures a ≤ acc

theorem markAvail_addr (a : Nat) (ha : a ≠ 0) (w : World) (m : Nat) (t : Typ) (o : Oracle) (acc : Nat)
    (h : AddrInv a w acc) :
    AddrInv a (markAvail w m t o).1 (if (w.nodes m).addr = a then 0 else acc) := by
  unfold markAvail AddrInv FailWF at *
  simp only
  by_cases h0 : (w.nodes m).addr ≠ 0
  · rw [if_pos h0]
    refine ⟨(failErase_nodup _ _ h.1).1, ?_⟩
    rw [failErase_lookup]
    by_cases hm : (w.nodes m).addr = a
    · simp [hm]
    · simp only [hm, if_false]; rw [if_neg (Ne.symm hm)]; exact h.2
  · rw [if_neg h0]
    have : (w.nodes m).addr ≠ a := by
      intro hh; apply h0; rw [hh]; exact ha
    simp only [this, if_false]; exact h

theorem markUnavail_failures (w : World) (m : Nat) (t : Typ) (tr : Bool) (o : Oracle) :
    (markUnavail w m t tr o).1.failures =
      if diesBy w m t tr = true ∧ (w.nodes m).addr ≠ 0 then
        (recordFailure (w.setNode m ((w.nodes m).counted t tr)) (w.nodes m).addr).1.failures
      else w.failures := by
  unfold markUnavail diesBy
  by_cases hs : w.suppressed = true
  · simp [hs]
  · have hs' : w.suppressed = false := by simpa using hs
    simp only [hs', Bool.false_eq_true, if_false, Bool.not_false, Bool.true_and]
    split
    · split
      · exact escalateFrom_failures _ _ _ _
      · rfl
    · rfl

theorem markUnavail_addr (a : Nat) (_ha : a ≠ 0) (w : World) (m : Nat) (t : Typ) (tr : Bool) (o : Oracle) (acc : Nat)
    (h : AddrInv a w acc) :
    AddrInv a (markUnavail w m t tr o).1 (if (w.nodes m).addr = a ∧ diesBy w m t tr = true then acc + 1 else acc) := by
  have hwf : FailWF (markUnavail w m t tr o).1 ∧
      failLookup (markUnavail w m t tr o).1.failures a ≤
        (if (w.nodes m).addr = a ∧ diesBy w m t tr = true then acc + 1 else acc) := by
    unfold FailWF
    rw [markUnavail_failures]
    by_cases hc : diesBy w m t tr = true ∧ (w.nodes m).addr ≠ 0
    · rw [if_pos hc]
      have hwf1 : FailWF (w.setNode m ((w.nodes m).counted t tr)) := h.1
      obtain ⟨r1, r2, r3, _⟩ := recordFailure_props (w.setNode m ((w.nodes m).counted t tr)) (w.nodes m).addr hwf1
      refine ⟨r1, ?_⟩
      by_cases hm : (w.nodes m).addr = a
      · simp only [hm, hc.1, and_self, if_true]
        rw [hm] at r3
        have h2 : failLookup (w.setNode m ((w.nodes m).counted t tr)).failures a ≤ acc := h.2
        omega
      · simp only [hm, false_and, if_false]
        exact Nat.le_trans (r2 a (Ne.symm hm)) h.2
    · rw [if_neg hc]
      refine ⟨h.1, ?_⟩
      split
      · exact Nat.le_succ_of_le h.2
      · exact h.2
  exact hwf

theorem addrInv_step (a : Nat) (ha : a ≠ 0) (w : World) (e : Event) (acc : Nat) (h : AddrInv a w acc) :
    AddrInv a (step w e).1 ((touchAddr a w e).next acc) := by
  cases e with
  | node m x => simp only [step, touchAddr, Touch.next]; split <;> exact h
  | group g ob p tol ms o => simp only [step, touchAddr, Touch.next]; split <;> exact h
  | close g => exact h
  | probe m t a1 a2 o =>
    simp only [step, touchAddr]
    cases hp : probeOutcome a1 a2 with
    | success l =>
      simp only
      have := markAvail_addr a ha { w with now := w.now + l } m t o acc h
      by_cases hm : (w.nodes m).addr = a <;> simpa [hm, Touch.next] using this
    | nothing => exact h
    | failure =>
      simp only
      have := markUnavail_addr a ha w m t false o acc h
      by_cases hc : (w.nodes m).addr = a ∧ diesBy w m t false = true
      · simp only [hc, and_self, if_true, Touch.next] at this ⊢; exact this
      · simp only [hc, if_false, Touch.next] at this ⊢; exact this
  | txn m t ign o =>
    simp only [step, touchAddr]
    cases ign with
    | true => simp [Touch.next]; exact h
    | false =>
      simp only [Bool.false_eq_true, if_false, true_and]
      have := markUnavail_addr a ha w m t false o acc h
      by_cases hc : (w.nodes m).addr = a ∧ diesBy w m t false = true
      · simp only [hc, and_self, if_true, Touch.next] at this ⊢; exact this
      · simp only [hc, if_false, Touch.next] at this ⊢; exact this
  | tfail m t ign o =>
    simp only [step, touchAddr]
    cases ign with
    | true => simp [Touch.next]; exact h
    | false =>
      simp only [Bool.false_eq_true, if_false, true_and]
      have := markUnavail_addr a ha w m t true o acc h
      by_cases hc : (w.nodes m).addr = a ∧ diesBy w m t true = true
      · simp only [hc, and_self, if_true, Touch.next] at this ⊢; exact this
      · simp only [hc, if_false, Touch.next] at this ⊢; exact this
  | forced m t o => exact h
  | tok m t o =>
    simp only [step, touchAddr, trafficOk]
    by_cases hc : (t.isData && !(w.nodes m).alive t.idx) = true
    · rw [if_pos hc]
      have h1 : AddrInv a (w.setNode m ((w.nodes m).clearTraffic t)) acc := h
      have := markAvail_addr a ha (w.setNode m ((w.nodes m).clearTraffic t)) m t o acc h1
      simp only [Bool.and_eq_true, Bool.not_eq_true'] at hc
      simp only [setNode_nodes, upd_same] at this
      have hadr : ((w.nodes m).clearTraffic t).addr = (w.nodes m).addr := rfl
      rw [hadr] at this
      by_cases hm : (w.nodes m).addr = a
      · simp only [hm, hc.1, hc.2, and_self, if_true, Touch.next] at this ⊢; exact this
      · simp only [hm, false_and, if_false, Touch.next] at this ⊢; exact this
    · rw [if_neg hc]
      have : ¬((w.nodes m).addr = a ∧ t.isData = true ∧ (w.nodes m).alive t.idx = false) := by
        intro hh; apply hc; simp [hh.2.1, hh.2.2]
      simp only [this, if_false, Touch.next]; exact h
  | sbegin => exact h
  | send => simp only [step, touchAddr, Touch.next]; split; exact h; split <;> exact h
  | tick d => exact h
  | resetGlobal =>
    simp only [step, touchAddr, Touch.next]
    exact ⟨by simp [FailWF, fkeys], by simp [failLookup_nil]⟩
  | inherit m k o =>
    simp only [step, touchAddr, Touch.next, AddrInv, FailWF, restore, restoreFrom_failures]; exact h
  | restore m s o =>
    simp only [step, touchAddr, Touch.next, AddrInv, FailWF, restore, restoreFrom_failures]; exact h
  | floor g fb o =>
    simp only [step, touchAddr, Touch.next, AddrInv, FailWF, floorFrom_failures]; exact h
  | reload gs o =>
    simp only [step, touchAddr, Touch.next, AddrInv, FailWF, reload_failures]; exact h

theorem addrInv_run (a : Nat) (ha : a ≠ 0) (es : List Event) : ∀ (w : World) (acc : Nat), AddrInv a w acc →
    AddrInv a (run w es).1 (specAddr a w es acc) := by
  induction es with
  | nil => intro w acc h; exact h
  | cons e es ih => intro w acc h; simp only [run, specAddr]; exact ih _ _ (addrInv_step a ha w e acc h)

theorem specAddr_append (a : Nat) (es : List Event) (e : Event) : ∀ (w : World) (acc : Nat),
    specAddr a w (es ++ [e]) acc = (touchAddr a (run w es).1 e).next (specAddr a w es acc) := by
  induction es with
  | nil => intro w acc; simp [specAddr, run]
  | cons x xs ih => intro w acc; simp only [List.cons_append, specAddr, run]; exact ih _ _

/-- when a counted failure escalates, it is a death transition of a node with a non-empty address whose
address count (after this failure) reached `maxConsecutiveFailures` -/
theorem escalates_spec (w : World) (m : Nat) (t : Typ) (tr : Bool) (hwf : FailWF w) (he : escalates w m t tr = true) :
    (w.nodes m).alive t.idx = true ∧ ((w.nodes m).counted t tr).alive t.idx = false ∧ (w.nodes m).addr ≠ 0 ∧
    maxConsecutiveFailures ≤ failLookup w.failures (w.nodes m).addr + 1 := by
  unfold escalates at he
  simp only [Bool.and_eq_true, decide_eq_true_eq, Bool.not_eq_true'] at he
  obtain ⟨⟨⟨h1, h2⟩, h3⟩, h4⟩ := he
  have hwf1 : FailWF (w.setNode m ((w.nodes m).counted t tr)) := hwf
  exact ⟨h1, h2, h3, (recordFailure_props _ _ hwf1).2.2.2 h4⟩


def NoEsc (outs : List Out) : Prop := ∀ x ∈ outs, ∀ n, x ≠ Out.escalate n

theorem noEsc_append {a b : List Out} (ha : NoEsc a) (hb : NoEsc b) : NoEsc (a ++ b) := by
  intro x hx; rcases List.mem_append.mp hx with h | h
  · exact ha x h
  · exact hb x h

theorem noEsc_nil : NoEsc [] := by intro x hx; simp at hx

theorem notifyAll_noEsc (sets : List ASet) (n c : Nat) (a : Bool) (o : Oracle) : NoEsc (notifyAll sets n c a o).2 := by
  induction sets with
  | nil => exact noEsc_nil
  | cons s ss ih =>
    simp only [notifyAll]
    apply noEsc_append _ ih
    unfold notifyOne; split
    · intro x hx; simp only [List.mem_map] at hx; obtain ⟨b, _, rfl⟩ := hx; intro _ h; cases h
    · exact noEsc_nil

theorem noEsc_ite_trans (c : Prop) [Decidable c] (n : Nat) (t : Typ) (a : Bool) :
    NoEsc (if c then [Out.trans n t a] else []) := by
  split
  · intro x hx; simp at hx; subst hx; intro _ h; cases h
  · exact noEsc_nil

theorem noEsc_ite_trans' (c : Prop) [Decidable c] (n : Nat) (t : Typ) (a : Bool) :
    NoEsc (if c then [] else [Out.trans n t a]) := by
  split
  · exact noEsc_nil
  · intro x hx; simp at hx; subst hx; intro _ h; cases h

theorem markForced_noEsc (w : World) (n : Nat) (t : Typ) (o : Oracle) : NoEsc (markForced w n t o).2 :=
  noEsc_append (noEsc_ite_trans _ _ _ _) (notifyAll_noEsc _ _ _ _ _)

theorem escalateFrom_noEsc (ts : List Typ) (n : Nat) (o : Oracle) : ∀ w : World, NoEsc (escalateFrom ts w n o).2 := by
  induction ts with
  | nil => intro w; exact noEsc_nil
  | cons t ts ih => intro w; exact noEsc_append (markForced_noEsc w n t o) (ih _)

theorem markAvail_noEsc (w : World) (n : Nat) (t : Typ) (o : Oracle) : NoEsc (markAvail w n t o).2 :=
  noEsc_append (noEsc_ite_trans' _ _ _ _) (notifyAll_noEsc _ _ _ _ _)

theorem markAliveFallback_noEsc (w : World) (n : Nat) (t : Typ) (o : Oracle) : NoEsc (markAliveFallback w n t o).2 :=
  noEsc_append (notifyAll_noEsc _ _ _ _ _) (noEsc_ite_trans' _ _ _ _)

theorem restoreFrom_noEsc (is : List Nat) (n : Nat) (s : Snapshot) (o : Oracle) : ∀ w : World,
    NoEsc (restoreFrom is w n s o).2 := by
  induction is with
  | nil => intro w; exact noEsc_nil
  | cons i is ih =>
    intro w
    exact noEsc_append (noEsc_append (notifyAll_noEsc _ _ _ _ _) (noEsc_ite_trans _ _ _ _)) (ih _)

theorem floorFrom_noEsc (ts : List Typ) (g : Nat) (fb : Nat → Option Nat) (o : Oracle) : ∀ w : World,
    NoEsc (floorFrom ts w g fb o).2 := by
  induction ts with
  | nil => intro w; exact noEsc_nil
  | cons t ts ih =>
    intro w
    simp only [floorFrom]
    apply noEsc_append _ (ih _)
    unfold floorOne
    split
    · exact noEsc_nil
    · split
      · exact noEsc_nil
      · split
        · exact noEsc_nil
        · exact markAliveFallback_noEsc _ _ _ _

theorem newSets_noEsc (w : World) (g ob : Nat) (p : Policy) (tol : Int) (ms : List (Nat × Int)) (o : Oracle)
    (ts : List Typ) : NoEsc (newSets w g ob p tol ms o ts).2 := by
  induction ts with
  | nil => exact noEsc_nil
  | cons t ts ih =>
    simp only [newSets]
    apply noEsc_append _ ih
    intro x hx
    simp only [newSet, List.mem_map] at hx
    obtain ⟨b, _, rfl⟩ := hx
    intro _ h; cases h

theorem reload_noEsc (w : World) (gs : List ReloadGroup) (o : Oracle) : NoEsc (reload w gs o).2 := by
  have h1 : ∀ (ps : List (Nat × Nat)) (w : World), NoEsc (inheritPairs ps w o).2 := by
    intro ps
    induction ps with
    | nil => intro w; exact noEsc_nil
    | cons p ps ih => intro w; exact noEsc_append (restoreFrom_noEsc _ _ _ _ _) (ih _)
  have h2 : ∀ (gs : List ReloadGroup) (w : World), NoEsc (restoreGroups gs w o).2 := by
    intro gs
    induction gs with
    | nil => intro w; exact noEsc_nil
    | cons G gs ih => intro w; exact noEsc_append (h1 _ _) (ih _)
  have h3 : ∀ (gs : List ReloadGroup) (w : World), NoEsc (floorGroups gs w o).2 := by
    intro gs
    induction gs with
    | nil => intro w; exact noEsc_nil
    | cons G gs ih => intro w; exact noEsc_append (floorFrom_noEsc _ _ _ _ _) (ih _)
  exact noEsc_append (h2 _ _) (h3 _ _)

/-- `Out.escalate n` is produced only by a counted, non-suppressed failure on node `n` for which
`recordProxyFailure` reported the threshold -/
theorem markUnavail_esc (w : World) (m : Nat) (t : Typ) (tr : Bool) (o : Oracle) (n : Nat)
    (h : Out.escalate n ∈ (markUnavail w m t tr o).2) : n = m ∧ w.suppressed = false ∧ escalates w m t tr = true := by
  unfold markUnavail at h
  by_cases hs : w.suppressed = true
  · simp [hs] at h
  · have hs' : w.suppressed = false := by simpa using hs
    simp only [hs', Bool.false_eq_true, if_false] at h
    rw [List.append_assoc, List.mem_append] at h
    rcases h with h | h
    · exact absurd rfl (noEsc_ite_trans _ _ _ _ _ h n)
    · rw [List.mem_append] at h
      rcases h with h | h
      · split at h
        · rename_i hc
          split at h
          · rename_i hr
            simp only [List.mem_cons] at h
            rcases h with h | h
            · cases h
              refine ⟨rfl, hs', ?_⟩
              unfold escalates
              simp only [Bool.and_eq_true, decide_eq_true_eq]
              exact ⟨⟨by simpa using hc.1, hc.2⟩, hr⟩
            · exact absurd rfl (escalateFrom_noEsc _ _ _ _ _ h n)
          · simp at h
        · simp at h
      · exact absurd rfl (notifyAll_noEsc _ _ _ _ _ _ h n)

/-- the events that can escalate -/
inductive CountedFailureOn (n : Nat) (t : Typ) : Bool → Event → Prop
  | probe (a1 a2 : Attempt) (o : Oracle) : probeOutcome a1 a2 = .failure → CountedFailureOn n t false (.probe n t a1 a2 o)
  | txn (o : Oracle) : CountedFailureOn n t false (.txn n t false o)
  | tfail (o : Oracle) : CountedFailureOn n t true (.tfail n t false o)

theorem step_esc (w : World) (e : Event) (n : Nat) (h : Out.escalate n ∈ (step w e).2) :
    ∃ t tr, CountedFailureOn n t tr e ∧ w.suppressed = false ∧ escalates w n t tr = true := by
  cases e with
  | node m a => simp only [step] at h; split at h <;> simp at h
  | group g ob p tol ms o =>
    simp only [step] at h
    split at h
    · simp at h
    · simp only [newGroup, List.mem_append, List.mem_map] at h
      rcases h with h | ⟨t, _, h⟩
      · split at h
        · exact absurd rfl (newSets_noEsc _ _ _ _ _ _ _ _ _ h n)
        · simp at h
      · cases h
  | close g => simp [step] at h
  | probe m t a1 a2 o =>
    simp only [step] at h
    cases hp : probeOutcome a1 a2 with
    | success l => rw [hp] at h; exact absurd rfl (markAvail_noEsc _ _ _ _ _ h n)
    | nothing => rw [hp] at h; simp at h
    | failure =>
      rw [hp] at h
      obtain ⟨h1, h2, h3⟩ := markUnavail_esc w m t false o n h
      subst h1
      exact ⟨t, false, CountedFailureOn.probe a1 a2 o hp, h2, h3⟩
  | txn m t ign o =>
    simp only [step] at h
    cases ign with
    | true => simp at h
    | false =>
      simp only [Bool.false_eq_true, if_false] at h
      obtain ⟨h1, h2, h3⟩ := markUnavail_esc w m t false o n h
      subst h1
      exact ⟨t, false, CountedFailureOn.txn o, h2, h3⟩
  | tfail m t ign o =>
    simp only [step] at h
    cases ign with
    | true => simp at h
    | false =>
      simp only [Bool.false_eq_true, if_false] at h
      obtain ⟨h1, h2, h3⟩ := markUnavail_esc w m t true o n h
      subst h1
      exact ⟨t, true, CountedFailureOn.tfail o, h2, h3⟩
  | forced m t o => exact absurd rfl (markForced_noEsc _ _ _ _ _ h n)
  | tok m t o =>
    simp only [step, trafficOk] at h
    split at h
    · exact absurd rfl (markAvail_noEsc _ _ _ _ _ h n)
    · simp at h
  | sbegin => simp [step] at h
  | send => simp only [step] at h; split at h; simp at h; split at h <;> simp at h
  | tick d => simp [step] at h
  | resetGlobal => simp [step] at h
  | inherit m k o => exact absurd rfl (restoreFrom_noEsc _ _ _ _ _ _ h n)
  | restore m s o => exact absurd rfl (restoreFrom_noEsc _ _ _ _ _ _ h n)
  | floor g fb o => exact absurd rfl (floorFrom_noEsc _ _ _ _ _ _ h n)
  | reload gs o => exact absurd rfl (reload_noEsc _ _ _ _ h n)

theorem touchAddr_of_counted (w : World) (n : Nat) (t : Typ) (tr : Bool) (e : Event) (hc : CountedFailureOn n t tr e)
    (hd : diesBy w n t tr = true) : touchAddr (w.nodes n).addr w e = .fail := by
  cases hc with
  | probe a1 a2 o hp => simp [touchAddr, hp, hd]
  | txn o => simp [touchAddr, hd]
  | tfail o => simp [touchAddr, hd]


/-! ## exactness along a run of consecutive failures -/

def SameClock (w w' : World) : Prop := w'.now = w.now ∧ w'.supCount = w.supCount ∧ w'.supUntil = w.supUntil

theorem sameClock_suppressed {w w' : World} (h : SameClock w w') : w'.suppressed = w.suppressed := by
  unfold World.suppressed; rw [h.1, h.2.1, h.2.2]

theorem escalateFrom_clock (ts : List Typ) (n : Nat) (o : Oracle) : ∀ w : World, SameClock w (escalateFrom ts w n o).1 := by
  induction ts with
  | nil => intro w; exact ⟨rfl, rfl, rfl⟩
  | cons t ts ih =>
    intro w
    simp only [escalateFrom]
    obtain ⟨a, b, c⟩ := ih (markForced w n t o).1
    exact ⟨a, b, c⟩

theorem recordFailure_clock (w : World) (a : Nat) : SameClock w (recordFailure w a).1 := by
  unfold recordFailure cleanupFailures
  simp only
  split <;> split <;> exact ⟨rfl, rfl, rfl⟩

theorem markUnavail_clock (w : World) (n : Nat) (t : Typ) (tr : Bool) (o : Oracle) :
    SameClock w (markUnavail w n t tr o).1 := by
  unfold markUnavail
  split
  · exact ⟨rfl, rfl, rfl⟩
  · simp only
    split
    · split
      · obtain ⟨a, b, c⟩ := escalateFrom_clock escalationTyps n o
          (recordFailure (w.setNode n ((w.nodes n).counted t tr)) (w.nodes n).addr).1
        obtain ⟨a', b', c'⟩ := recordFailure_clock (w.setNode n ((w.nodes n).counted t tr)) (w.nodes n).addr
        exact ⟨a.trans a', b.trans b', c.trans c'⟩
      · exact recordFailure_clock (w.setNode n ((w.nodes n).counted t tr)) (w.nodes n).addr
    · exact ⟨rfl, rfl, rfl⟩

/-- one counted failure strictly below the threshold: the slot keeps its flag and the counter grows by one -/
theorem markUnavail_below (w : World) (n : Nat) (t : Typ) (tr : Bool) (o : Oracle) (hs : w.suppressed = false)
    (hc : cnt tr (w.nodes n) t.idx + 1 < threshold t.isUdp tr) :
    ((markUnavail w n t tr o).1.nodes n).alive t.idx = (w.nodes n).alive t.idx ∧
    cnt tr ((markUnavail w n t tr o).1.nodes n) t.idx = cnt tr (w.nodes n) t.idx + 1 := by
  have hsame : ((w.nodes n).counted t tr).alive t.idx = (w.nodes n).alive t.idx := by
    cases tr <;> simp [Node.counted, cnt] at hc ⊢ <;> omega
  have hne : escalates w n t tr = false := by
    unfold escalates; simp only [hsame]; cases (w.nodes n).alive t.idx <;> simp
  rw [markUnavail_nodes]
  simp only [hs, Bool.false_eq_true, if_false, hne, upd_same]
  refine ⟨hsame, ?_⟩
  cases tr <;> simp [Node.counted, cnt]

def failEvent (n : Nat) (t : Typ) (tr : Bool) (o : Oracle) : Event :=
  if tr then .tfail n t false o else .txn n t false o

theorem step_failEvent (w : World) (n : Nat) (t : Typ) (tr : Bool) (o : Oracle) :
    step w (failEvent n t tr o) = markUnavail w n t tr o := by
  cases tr <;> simp [failEvent, step]

theorem run_replicate_succ (w : World) (e : Event) (j : Nat) :
    (run w (List.replicate (j + 1) e)).1 = (step (run w (List.replicate j e)).1 e).1 := by
  induction j generalizing w with
  | zero => simp [run]
  | succ j ih =>
    rw [List.replicate_succ, run]
    simp only
    rw [ih]
    rw [List.replicate_succ, run]

theorem consecutive_below (w : World) (n : Nat) (t : Typ) (tr : Bool) (o : Oracle) (hs : w.suppressed = false)
    (hc : cnt tr (w.nodes n) t.idx = 0) : ∀ j, j < threshold t.isUdp tr →
    (run w (List.replicate j (failEvent n t tr o))).1.suppressed = false ∧
    ((run w (List.replicate j (failEvent n t tr o))).1.nodes n).alive t.idx = (w.nodes n).alive t.idx ∧
    cnt tr ((run w (List.replicate j (failEvent n t tr o))).1.nodes n) t.idx = j := by
  intro j
  induction j with
  | zero => intro _; exact ⟨hs, rfl, hc⟩
  | succ j ih =>
    intro hj
    obtain ⟨i1, i2, i3⟩ := ih (by omega)
    rw [run_replicate_succ, step_failEvent]
    have hb := markUnavail_below _ n t tr o i1 (by rw [i3]; exact hj)
    refine ⟨?_, hb.1.trans i2, by rw [hb.2, i3]⟩
    rw [sameClock_suppressed (markUnavail_clock _ n t tr o)]; exact i1


/-! ## matching of generations is per group -/

theorem lookupLast_some {β : Type} (p : β → Bool) (l : List β) (x : β) (h : lookupLast p l = some x) :
    x ∈ l ∧ p x = true := by
  unfold lookupLast at h
  exact ⟨List.mem_reverse.mp (List.mem_of_find?_eq_some h), List.find?_some h⟩

theorem matchMember_spec (olds : List (Nat × Nat × Nat)) (used : List Nat) (nm : Nat × Nat × Nat) (o : Nat)
    (h : matchMember olds used nm = some o) :
    o ∉ used ∧ ∃ m ∈ olds, m.1 = o ∧ m.2.1 = nm.2.1 := by
  unfold matchMember at h
  simp only at h
  split at h
  · rename_i m hm
    simp only [Option.some.injEq] at h; subst h
    have h1 := List.find?_some hm
    have h2 := List.mem_of_find?_eq_some hm
    simp only [Bool.and_eq_true, Bool.not_eq_true', beq_iff_eq] at h1
    rw [List.mem_filter] at h2
    refine ⟨by simpa using h1.1, m, h2.1, rfl, by simpa using h2.2⟩
  · split at h
    · rename_i m hc
      split at h
      · cases h
      · rename_i hu
        simp only [Option.some.injEq] at h; subst h
        have hm : m ∈ olds.filter fun x => x.2.1 == nm.2.1 := by rw [hc]; simp
        rw [List.mem_filter] at hm
        exact ⟨by simpa using hu, m, hm.1, rfl, by simpa using hm.2⟩
    · cases h

/-- the pairs of one group: sources are fresh w.r.t. `used`, pairwise distinct, and same-named members -/
theorem matchMembers_spec (olds : List (Nat × Nat × Nat)) : ∀ (ms : List (Nat × Nat × Nat)) (used : List Nat),
    (∀ p ∈ matchMembers olds ms used, p.2 ∉ used ∧ ∃ nm ∈ ms, nm.1 = p.1 ∧ ∃ m ∈ olds, m.1 = p.2 ∧ m.2.1 = nm.2.1) ∧
    ((matchMembers olds ms used).map Prod.snd).Nodup := by
  intro ms
  induction ms with
  | nil => intro used; simp [matchMembers]
  | cons nm rest ih =>
    intro used
    simp only [matchMembers]
    cases hm : matchMember olds used nm with
    | none =>
      simp only
      obtain ⟨i1, i2⟩ := ih used
      refine ⟨fun p hp => ?_, i2⟩
      obtain ⟨a, nm', hn, b⟩ := i1 p hp
      exact ⟨a, nm', List.mem_cons_of_mem _ hn, b⟩
    | some o =>
      simp only
      obtain ⟨hou, m, hmo, hm1, hm2⟩ := matchMember_spec olds used nm o hm
      obtain ⟨i1, i2⟩ := ih (o :: used)
      constructor
      · intro p hp
        rcases List.mem_cons.mp hp with rfl | hp
        · exact ⟨hou, nm, List.mem_cons_self, rfl, m, hmo, hm1, hm2⟩
        · obtain ⟨a, nm', hn, b⟩ := i1 p hp
          exact ⟨fun h => a (List.mem_cons_of_mem _ h), nm', List.mem_cons_of_mem _ hn, b⟩
      · simp only [List.map_cons, List.nodup_cons]
        refine ⟨?_, i2⟩
        intro hin
        rw [List.mem_map] at hin
        obtain ⟨p, hp, hpo⟩ := hin
        exact (i1 p hp).1 (by rw [hpo]; exact List.mem_cons_self)

/-- every pair produced for new group `G` joins a member of `G` with a same-named member of an old group
that has `G`'s name -/
theorem matchGroup_sound (olds : List GenGroup) (G : GenGroup) (p : Nat × Nat) (hp : p ∈ matchGroup olds G) :
    ∃ og ∈ olds, og.gname = G.gname ∧ ∃ nm ∈ G.members, nm.1 = p.1 ∧ ∃ m ∈ og.members, m.1 = p.2 ∧ m.2.1 = nm.2.1 := by
  unfold matchGroup at hp
  split at hp
  · simp at hp
  · rename_i og hog
    obtain ⟨h1, h2⟩ := lookupLast_some _ _ _ hog
    obtain ⟨_, nm, hn, hh⟩ := (matchMembers_spec og.members G.members []).1 p hp
    exact ⟨og, h1, by simpa using h2, nm, hn, hh⟩

/-- no old member hands its state to two members of one new group -/
theorem matchGroup_injective (olds : List GenGroup) (G : GenGroup) : ((matchGroup olds G).map Prod.snd).Nodup := by
  unfold matchGroup
  split
  · simp
  · exact (matchMembers_spec _ G.members []).2

theorem restoreGroups_nodes_other (o : Oracle) (n : Nat) (gs : List ReloadGroup) : ∀ w : World,
    (∀ G ∈ gs, ∀ p ∈ G.pairs, p.1 ≠ n) → (restoreGroups gs w o).1.nodes n = w.nodes n := by
  have h1 : ∀ (ps : List (Nat × Nat)) (w : World), (∀ p ∈ ps, p.1 ≠ n) → (inheritPairs ps w o).1.nodes n = w.nodes n := by
    intro ps
    induction ps with
    | nil => intro w _; rfl
    | cons p ps ih =>
      intro w hp
      simp only [inheritPairs]
      rw [ih _ (fun q hq => hp q (List.mem_cons_of_mem _ hq)),
        restore_nodes_other _ _ _ _ _ (Ne.symm (hp p List.mem_cons_self))]
  induction gs with
  | nil => intro w _; rfl
  | cons G gs ih =>
    intro w hp
    simp only [restoreGroups]
    rw [ih _ (fun G' hG' => hp G' (List.mem_cons_of_mem _ hG')), h1 _ _ (hp G List.mem_cons_self)]


/-! ## the shared kernel map -/

/-- `x` is a group callback that really writes `key` in `kw` (wired group, core not silenced, init or not dry-run) -/
def LiveWrite (kw : KWorld) (x : Out) (key : Nat) (v : Nat) : Prop :=
  ∃ g i a init k, x = Out.group g i a init ∧ kw.wiring g = some k ∧ kw.silenced k.core = false ∧
    (init = true ∨ k.dryrun = false) ∧ kernelKey k.ob i = key ∧ v = (if a then 1 else 0)

theorem applyOut_frame (kw : KWorld) (x : Out) :
    (applyOut kw x).wiring = kw.wiring ∧ (applyOut kw x).silenced = kw.silenced ∧ (applyOut kw x).w = kw.w := by
  cases x with
  | group g i a init =>
    simp only [applyOut]
    split
    · exact ⟨rfl, rfl, rfl⟩
    · split <;> exact ⟨rfl, rfl, rfl⟩
  | trans _ _ _ => exact ⟨rfl, rfl, rfl⟩
  | escalate _ => exact ⟨rfl, rfl, rfl⟩

theorem applyOut_kmap (kw : KWorld) (x : Out) (key : Nat) :
    (∃ v, LiveWrite kw x key v ∧ (applyOut kw x).kmap key = v) ∨
    ((¬ ∃ v, LiveWrite kw x key v) ∧ (applyOut kw x).kmap key = kw.kmap key) := by
  cases x with
  | trans n t a =>
    right; refine ⟨?_, rfl⟩
    rintro ⟨v, g, i, a', init, k, h, _⟩; cases h
  | escalate n =>
    right; refine ⟨?_, rfl⟩
    rintro ⟨v, g, i, a', init, k, h, _⟩; cases h
  | group g i a init =>
    simp only [applyOut]
    cases hw : kw.wiring g with
    | none =>
      right; refine ⟨?_, rfl⟩
      rintro ⟨v, g', i', a', init', k, h, h2, _⟩
      cases h; rw [hw] at h2; cases h2
    | some k =>
      simp only [kernelCallback, Bool.false_or]
      by_cases hc : (kw.silenced k.core || (!init && k.dryrun)) = true
      · simp only [hc, if_true]
        right; refine ⟨?_, by first | rfl | trivial⟩
        rintro ⟨v, g', i', a', init', k', h, h2, h3, h4, _⟩
        cases h; rw [hw] at h2; cases h2
        simp only [Bool.or_eq_true, Bool.and_eq_true, Bool.not_eq_true'] at hc
        rcases hc with hc | ⟨hc1, hc2⟩
        · rw [h3] at hc; cases hc
        · rcases h4 with h4 | h4
          · rw [h4] at hc1; cases hc1
          · rw [h4] at hc2; cases hc2
      · simp only [hc]
        have hc' : kw.silenced k.core = false ∧ (init = true ∨ k.dryrun = false) := by
          simp only [Bool.or_eq_true, Bool.and_eq_true, Bool.not_eq_true', not_or, not_and] at hc
          refine ⟨by simpa using hc.1, ?_⟩
          cases hi : init
          · right; have := hc.2; simp [hi] at this; exact this
          · left; rfl
        by_cases hk : kernelKey k.ob i = key
        · left
          refine ⟨if a then 1 else 0, ⟨g, i, a, init, k, rfl, hw, hc'.1, hc'.2, hk, rfl⟩, ?_⟩
          simp [upd, hk]
        · right
          refine ⟨?_, by simp [upd, Ne.symm hk]⟩
          rintro ⟨v, g', i', a', init', k', h, h2, _, _, h5, _⟩
          cases h; rw [hw] at h2; cases h2; exact hk h5

/-- a key changes only if some live group callback of the step wrote it -/
theorem applyOuts_unchanged (outs : List Out) : ∀ (kw : KWorld) (key : Nat),
    (∀ x ∈ outs, ¬ ∃ v, LiveWrite kw x key v) → (applyOuts kw outs).kmap key = kw.kmap key := by
  induction outs with
  | nil => intro kw key _; rfl
  | cons x xs ih =>
    intro kw key h
    simp only [applyOuts]
    obtain ⟨fw, fs, _⟩ := applyOut_frame kw x
    have hx := h x List.mem_cons_self
    rcases applyOut_kmap kw x key with ⟨v, hv, _⟩ | ⟨_, he⟩
    · exact absurd ⟨v, hv⟩ hx
    · rw [ih (applyOut kw x) key, he]
      intro y hy hex
      apply h y (List.mem_cons_of_mem _ hy)
      obtain ⟨v, g, i, a, init, k, h1, h2, h3, h4⟩ := hex
      exact ⟨v, g, i, a, init, k, h1, fw ▸ h2, fs ▸ h3, h4⟩

theorem applyOuts_append (a b : List Out) (kw : KWorld) : applyOuts kw (a ++ b) = applyOuts (applyOuts kw a) b := by
  induction a generalizing kw with
  | nil => rfl
  | cons x xs ih => simp only [List.cons_append, applyOuts]; exact ih _

theorem applyOuts_frame (outs : List Out) : ∀ kw : KWorld,
    (applyOuts kw outs).wiring = kw.wiring ∧ (applyOuts kw outs).silenced = kw.silenced := by
  induction outs with
  | nil => intro kw; exact ⟨rfl, rfl⟩
  | cons x xs ih =>
    intro kw
    obtain ⟨a, b⟩ := ih (applyOut kw x)
    obtain ⟨c, d, _⟩ := applyOut_frame kw x
    exact ⟨a.trans c, b.trans d⟩

/-- the value of a key after a step is the value of the last live report to it -/
theorem applyOuts_last (pre post : List Out) (x : Out) (kw : KWorld) (key v : Nat)
    (hx : LiveWrite kw x key v) (hpost : ∀ y ∈ post, ¬ ∃ v', LiveWrite kw y key v') :
    (applyOuts kw (pre ++ x :: post)).kmap key = v := by
  rw [applyOuts_append]
  simp only [applyOuts]
  obtain ⟨fw, fs⟩ := applyOuts_frame pre kw
  have lw : ∀ y v', LiveWrite (applyOuts kw pre) y key v' ↔ LiveWrite kw y key v' := by
    intro y v'
    unfold LiveWrite; rw [fw, fs]
  have hx' := (lw x v).mpr hx
  rcases applyOut_kmap (applyOuts kw pre) x key with ⟨v2, hv2, he⟩ | ⟨hn, _⟩
  · obtain ⟨fw2, fs2, _⟩ := applyOut_frame (applyOuts kw pre) x
    rw [applyOuts_unchanged post _ key, he]
    · obtain ⟨g, i, a, init, k, h1, _, _, _, _, h6⟩ := hx'
      obtain ⟨g', i', a', init', k', h1', _, _, _, _, h6'⟩ := hv2
      rw [h1] at h1'; cases h1'; rw [h6, h6']
    · intro y hy hex
      apply hpost y hy
      obtain ⟨v', g, i, a, init, k, h1, h2, h3, h4⟩ := hex
      exact ⟨v', g, i, a, init, k, h1, (fw ▸ fw2 ▸ h2), (fs ▸ fs2 ▸ h3), h4⟩
  · exact absurd ⟨v, hx'⟩ hn



/-! ## interleavings of concurrent reports -/

theorem rstep_inv (s : RState) (a : RAct) (h : s.set ≠ s.node → s.pending ≠ []) :
    (rstep true s a).set ≠ (rstep true s a).node → (rstep true s a).pending ≠ [] := by
  cases a with
  | store i v => intro _; simp [rstep]
  | deliver i => intro hne; simp [rstep] at hne

theorem rrun_inv (as : List RAct) : ∀ s : RState, (s.set ≠ s.node → s.pending ≠ []) →
    ((rrun true s as).set ≠ (rrun true s as).node → (rrun true s as).pending ≠ []) := by
  induction as with
  | nil => intro s h; exact h
  | cons a as ih => intro s h; exact ih _ (rstep_inv s a h)

end DaeVerif.C16
