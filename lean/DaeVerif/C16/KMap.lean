import DaeVerif.C16.Proofs
/-! # C16 — the kernel map follows the group that wrote it last (across steps and generations)

`ASet.kbit` is the ghost "last value handed to this set's group callback".  This file relates it to the
callback lists every primitive returns (`TrackStep`) and then to the shared map of `KWorld`
(`KInv`): a slot whose last writer is a live, non-dry-run group holds that group's `kbit`. -/
namespace DaeVerif.C16

/-- the values handed to the group callback of set `(g, i)` in a list of outputs, in order -/
def gcbOf (g i : Nat) (outs : List Out) : List Bool :=
  outs.filterMap fun
    | .group g' i' a _ => if g' = g ∧ i' = i then some a else none
    | _ => none

theorem gcbOf_append (g i : Nat) (a b : List Out) : gcbOf g i (a ++ b) = gcbOf g i a ++ gcbOf g i b := by
  simp [gcbOf, List.filterMap_append]

def lastD (l : List Bool) (d : Bool) : Bool := l.getLast?.getD d

theorem lastD_nil (d : Bool) : lastD [] d = d := rfl

theorem lastD_append (l1 l2 : List Bool) (d : Bool) : lastD (l1 ++ l2) d = lastD l2 (lastD l1 d) := by
  unfold lastD
  rw [List.getLast?_append]
  cases l2.getLast? <;> simp

/-! ## one set -/

theorem fire_kbit (s : ASet) (c : Option Bool) : (s.fire c).kbit = lastD c.toList s.kbit := by
  cases c <;> rfl

theorem notify_kbit (s : ASet) (d : Nat) (a : Bool) (lat : Option Int) :
    (s.notify d a lat).1.kbit = lastD (s.notify d a lat).2 s.kbit := by
  rw [notify_eq]
  simp only [lastD_append, fire_kbit]
  have h1 := (phase1_ghost s d a (s.effLat lat)).1
  have h2 := (phase2_ghost (s.phase1 d a (s.effLat lat)).1 d a (s.effLat lat)).1
  rw [h2, h1]

/-- key of a set in the world's list -/
def skey (s : ASet) : Nat × Nat := (s.gid, s.idx)

def KeysNodup (sets : List ASet) : Prop := (sets.map skey).Nodup

theorem findSet_none_of_not_mem (sets : List ASet) (g i : Nat) (h : (g, i) ∉ sets.map skey) : findSet sets g i = none := by
  unfold findSet
  rw [List.find?_eq_none]
  intro s hs hc
  simp only [Bool.and_eq_true, beq_iff_eq] at hc
  exact h (List.mem_map.mpr ⟨s, hs, by simp [skey, hc.1, hc.2]⟩)

theorem findSet_cons (s : ASet) (ss : List ASet) (g i : Nat) :
    findSet (s :: ss) g i = if s.gid = g ∧ s.idx = i then some s else findSet ss g i := by
  unfold findSet
  simp only [List.find?_cons]
  by_cases h : s.gid = g ∧ s.idx = i
  · simp [h.1, h.2]
  · rw [if_neg h]
    have : (s.gid == g && s.idx == i) = false := by
      simp only [Bool.and_eq_false_iff, beq_eq_false_iff_ne]
      by_cases hg : s.gid = g
      · right; exact fun hi => h ⟨hg, hi⟩
      · left; exact hg
    simp [this]

theorem notifyOne_outs (s : ASet) (n c : Nat) (a : Bool) (o : Oracle) (g i : Nat) :
    gcbOf g i (notifyOne s n c a o).2 =
      if s.gid = g ∧ s.idx = i then
        (if s.active ∧ s.idx = c ∧ n ∈ s.members then (s.notify n a (o.get s.gid s.idx n)).2 else [])
      else [] := by
  unfold notifyOne
  by_cases hc : s.active ∧ s.idx = c ∧ n ∈ s.members
  · simp only [if_pos hc]
    generalize (s.notify n a (o.get s.gid s.idx n)).2 = cbs
    by_cases hk : s.gid = g ∧ s.idx = i
    · simp only [if_pos hk]
      induction cbs with
      | nil => rfl
      | cons b bs ih => simp only [List.map_cons, gcbOf, List.filterMap_cons, if_pos hk] at *; rw [ih]
    · simp only [if_neg hk]
      induction cbs with
      | nil => rfl
      | cons b bs ih => simp only [List.map_cons, gcbOf, List.filterMap_cons, if_neg hk] at *; exact ih
  · simp only [if_neg hc]; split <;> rfl

theorem notifyOne_kbit (s : ASet) (n c : Nat) (a : Bool) (o : Oracle) :
    (notifyOne s n c a o).1.kbit = lastD (gcbOf s.gid s.idx (notifyOne s n c a o).2) s.kbit := by
  rw [notifyOne_outs]
  simp only [and_self, if_true]
  unfold notifyOne
  split
  · exact notify_kbit _ _ _ _
  · rfl

theorem notifyAll_keys (sets : List ASet) (n c : Nat) (a : Bool) (o : Oracle) :
    (notifyAll sets n c a o).1.map skey = sets.map skey := by
  induction sets with
  | nil => rfl
  | cons s ss ih =>
    simp only [notifyAll, List.map_cons, ih]
    obtain ⟨h1, h2⟩ := notifyOne_gid_idx s n c a o
    simp [skey, h1, h2]

theorem notifyAll_gcb_none (sets : List ASet) (n c : Nat) (a : Bool) (o : Oracle) (g i : Nat)
    (h : (g, i) ∉ sets.map skey) : gcbOf g i (notifyAll sets n c a o).2 = [] := by
  induction sets with
  | nil => rfl
  | cons s ss ih =>
    simp only [List.map_cons, List.mem_cons, not_or] at h
    simp only [notifyAll, gcbOf_append, ih h.2, List.append_nil, notifyOne_outs]
    rw [if_neg]
    rintro ⟨h1, h2⟩; exact h.1 (by simp [skey, h1, h2])

/-- what a step does to the ghost bit of every set, in terms of the callbacks it returned -/
def TrackStep (sets sets' : List ASet) (outs : List Out) : Prop :=
  ∀ g i,
    (∀ s, findSet sets g i = some s → ∃ s', findSet sets' g i = some s' ∧ s'.kbit = lastD (gcbOf g i outs) s.kbit) ∧
    (findSet sets g i = none → ∀ s', findSet sets' g i = some s' → (gcbOf g i outs).getLast? = some s'.kbit)

theorem notifyAll_track (sets : List ASet) (n c : Nat) (a : Bool) (o : Oracle) (hk : KeysNodup sets) :
    TrackStep sets (notifyAll sets n c a o).1 (notifyAll sets n c a o).2 := by
  intro g i
  refine ⟨?_, ?_⟩
  · induction sets with
    | nil => intro s hs; simp [findSet] at hs
    | cons s0 ss ih =>
      intro s hs
      have hk' : KeysNodup ss := (List.nodup_cons.mp hk).2
      have hnot : skey s0 ∉ ss.map skey := (List.nodup_cons.mp hk).1
      simp only [notifyAll, gcbOf_append]
      obtain ⟨g1, g2⟩ := notifyOne_gid_idx s0 n c a o
      rw [findSet_cons] at hs
      rw [findSet_cons, g1, g2]
      by_cases h0 : s0.gid = g ∧ s0.idx = i
      · rw [if_pos h0] at hs ⊢
        cases hs
        refine ⟨_, rfl, ?_⟩
        have : gcbOf g i (notifyAll ss n c a o).2 = [] :=
          notifyAll_gcb_none ss n c a o g i (by rw [← h0.1, ← h0.2]; exact hnot)
        rw [this, List.append_nil, ← h0.1, ← h0.2]
        exact notifyOne_kbit s0 n c a o
      · rw [if_neg h0] at hs ⊢
        obtain ⟨s', e1, e2⟩ := ih hk' s hs
        refine ⟨s', e1, ?_⟩
        rw [e2, notifyOne_outs, if_neg h0, List.nil_append]
  · intro hn s' hs'
    rw [findSet_notifyAll, hn] at hs'
    cases hs'

/-- chains of notifications (the shape of every primitive) -/
inductive NSeq : List ASet → List ASet → List Out → Prop
  | silent (A : List ASet) (o : List Out) (h : ∀ x ∈ o, ∀ g i a b, x ≠ Out.group g i a b) : NSeq A A o
  | notify (A : List ASet) (n c : Nat) (a : Bool) (orc : Oracle) :
      NSeq A (notifyAll A n c a orc).1 (notifyAll A n c a orc).2
  | append {A B C : List ASet} {o1 o2 : List Out} : NSeq A B o1 → NSeq B C o2 → NSeq A C (o1 ++ o2)

theorem gcbOf_silent (g i : Nat) (o : List Out) (h : ∀ x ∈ o, ∀ g i a b, x ≠ Out.group g i a b) : gcbOf g i o = [] := by
  induction o with
  | nil => rfl
  | cons x xs ih =>
    have hx := h x List.mem_cons_self
    have := ih (fun y hy => h y (List.mem_cons_of_mem _ hy))
    cases x with
    | group g' i' a b => exact absurd rfl (hx g' i' a b)
    | trans _ _ _ => simpa [gcbOf] using this
    | escalate _ => simpa [gcbOf] using this

theorem trackStep_refl (A : List ASet) (o : List Out) (h : ∀ g i, gcbOf g i o = []) : TrackStep A A o := by
  intro g i
  refine ⟨fun s hs => ⟨s, hs, by rw [h]; rfl⟩, fun hn s' hs' => ?_⟩
  rw [hn] at hs'; cases hs'

theorem trackStep_trans {A B C : List ASet} {o1 o2 : List Out} (h1 : TrackStep A B o1) (h2 : TrackStep B C o2)
    (hnone : ∀ g i, findSet A g i = none → findSet B g i = none ∧ gcbOf g i o1 = []) :
    TrackStep A C (o1 ++ o2) := by
  intro g i
  refine ⟨fun s hs => ?_, fun hn s' hs' => ?_⟩
  · obtain ⟨s1, e1, k1⟩ := (h1 g i).1 s hs
    obtain ⟨s2, e2, k2⟩ := (h2 g i).1 s1 e1
    exact ⟨s2, e2, by rw [k2, k1, gcbOf_append, lastD_append]⟩
  · obtain ⟨hb, ho⟩ := hnone g i hn
    have := (h2 g i).2 hb s' hs'
    rw [gcbOf_append, ho, List.nil_append]; exact this

theorem nseq_props {A B : List ASet} {o : List Out} (h : NSeq A B o) :
    B.map skey = A.map skey ∧ (KeysNodup A → TrackStep A B o) ∧
    (∀ g i, findSet A g i = none → findSet B g i = none ∧ gcbOf g i o = []) := by
  induction h with
  | silent A o h =>
    refine ⟨rfl, fun _ => trackStep_refl A o (fun g i => gcbOf_silent g i o h), fun g i hn => ⟨hn, gcbOf_silent g i o h⟩⟩
  | notify A n c a orc =>
    refine ⟨notifyAll_keys A n c a orc, notifyAll_track A n c a orc, fun g i hn => ⟨?_, ?_⟩⟩
    · rw [findSet_notifyAll, hn]; rfl
    · apply notifyAll_gcb_none
      intro hm
      obtain ⟨s, hs, hk⟩ := List.mem_map.mp hm
      have : findSet A g i ≠ none := by
        unfold findSet
        intro hc
        rw [List.find?_eq_none] at hc
        apply hc s hs
        simp only [skey, Prod.mk.injEq] at hk
        simp [hk.1, hk.2]
      exact this hn
  | @append A' B' C' o1' o2' s1 s2 ih1 ih2 =>
    obtain ⟨k1, t1, n1⟩ := ih1
    obtain ⟨k2, t2, n2⟩ := ih2
    refine ⟨k2.trans k1, fun hk => ?_, fun g i hn => ?_⟩
    · have hkB : KeysNodup B' := by unfold KeysNodup; rw [k1]; exact hk
      exact trackStep_trans (t1 hk) (t2 hkB) n1
    · obtain ⟨b1, b2⟩ := n1 g i hn
      obtain ⟨c1, c2⟩ := n2 g i b1
      exact ⟨c1, by rw [gcbOf_append, b2, c2]; rfl⟩

/-! ## every primitive is a chain of notifications -/

theorem NSeq.refl (A : List ASet) : NSeq A A [] := NSeq.silent A [] (fun x hx => by simp at hx)

theorem nseq_trans_opt (A : List ASet) (c : Prop) [Decidable c] (n : Nat) (t : Typ) (a : Bool) :
    NSeq A A (if c then [Out.trans n t a] else []) := by
  apply NSeq.silent
  intro x hx g i a' b
  split at hx
  · simp only [List.mem_singleton] at hx; rw [hx]; intro h; cases h
  · simp at hx

theorem nseq_trans_opt' (A : List ASet) (c : Prop) [Decidable c] (n : Nat) (t : Typ) (a : Bool) :
    NSeq A A (if c then [] else [Out.trans n t a]) := by
  apply NSeq.silent
  intro x hx g i a' b
  split at hx
  · simp at hx
  · simp only [List.mem_singleton] at hx; rw [hx]; intro h; cases h

theorem markForced_nseq (w : World) (n : Nat) (t : Typ) (o : Oracle) :
    NSeq w.sets (markForced w n t o).1.sets (markForced w n t o).2 := by
  unfold markForced
  exact NSeq.append (nseq_trans_opt _ _ _ _ _) (NSeq.notify w.sets n t.idx false o)

theorem escalateFrom_nseq (ts : List Typ) (n : Nat) (o : Oracle) : ∀ w : World,
    NSeq w.sets (escalateFrom ts w n o).1.sets (escalateFrom ts w n o).2 := by
  induction ts with
  | nil => intro w; exact NSeq.refl _
  | cons t ts ih => intro w; simp only [escalateFrom]; exact NSeq.append (markForced_nseq w n t o) (ih _)

theorem markAvail_nseq (w : World) (n : Nat) (t : Typ) (o : Oracle) :
    NSeq w.sets (markAvail w n t o).1.sets (markAvail w n t o).2 := by
  unfold markAvail
  exact NSeq.append (nseq_trans_opt' _ _ _ _ _) (NSeq.notify w.sets n t.idx true o)

theorem markAliveFallback_nseq (w : World) (n : Nat) (t : Typ) (o : Oracle) :
    NSeq w.sets (markAliveFallback w n t o).1.sets (markAliveFallback w n t o).2 := by
  unfold markAliveFallback
  exact NSeq.append (NSeq.notify w.sets n t.idx true o) (nseq_trans_opt' _ _ _ _ _)

theorem trafficOk_nseq (w : World) (n : Nat) (t : Typ) (o : Oracle) :
    NSeq w.sets (trafficOk w n t o).1.sets (trafficOk w n t o).2 := by
  unfold trafficOk
  simp only
  split
  · exact markAvail_nseq (w.setNode n ((w.nodes n).clearTraffic t)) n t o
  · exact NSeq.refl _

theorem restoreIdx_nseq (w : World) (n : Nat) (s : Snapshot) (o : Oracle) (idx : Nat) :
    NSeq w.sets (restoreIdx w n s o idx).1.sets (restoreIdx w n s o idx).2 := by
  unfold restoreIdx
  exact NSeq.append (NSeq.notify w.sets n (canon idx) (s.alive idx) o) (nseq_trans_opt _ _ _ _ _)

theorem restoreFrom_nseq (is : List Nat) (n : Nat) (s : Snapshot) (o : Oracle) : ∀ w : World,
    NSeq w.sets (restoreFrom is w n s o).1.sets (restoreFrom is w n s o).2 := by
  induction is with
  | nil => intro w; exact NSeq.refl _
  | cons i is ih => intro w; simp only [restoreFrom]; exact NSeq.append (restoreIdx_nseq w n s o i) (ih _)

theorem floorOne_nseq (w : World) (g : Nat) (fb : Nat → Option Nat) (o : Oracle) (t : Typ) :
    NSeq w.sets (floorOne w g fb o t).1.sets (floorOne w g fb o t).2 := by
  unfold floorOne
  split
  · exact NSeq.refl _
  · split
    · exact NSeq.refl _
    · split
      · exact NSeq.refl _
      · exact markAliveFallback_nseq _ _ _ _

theorem floorFrom_nseq (ts : List Typ) (g : Nat) (fb : Nat → Option Nat) (o : Oracle) : ∀ w : World,
    NSeq w.sets (floorFrom ts w g fb o).1.sets (floorFrom ts w g fb o).2 := by
  induction ts with
  | nil => intro w; exact NSeq.refl _
  | cons t ts ih => intro w; simp only [floorFrom]; exact NSeq.append (floorOne_nseq w g fb o t) (ih _)

theorem inheritPairs_nseq (o : Oracle) (ps : List (Nat × Nat)) : ∀ w : World,
    NSeq w.sets (inheritPairs ps w o).1.sets (inheritPairs ps w o).2 := by
  induction ps with
  | nil => intro w; exact NSeq.refl _
  | cons p ps ih => intro w; simp only [inheritPairs]; exact NSeq.append (restoreFrom_nseq _ _ _ _ w) (ih _)

theorem restoreGroups_nseq (o : Oracle) (gs : List ReloadGroup) : ∀ w : World,
    NSeq w.sets (restoreGroups gs w o).1.sets (restoreGroups gs w o).2 := by
  induction gs with
  | nil => intro w; exact NSeq.refl _
  | cons G gs ih => intro w; simp only [restoreGroups]; exact NSeq.append (inheritPairs_nseq o G.pairs w) (ih _)

theorem floorGroups_nseq (o : Oracle) (gs : List ReloadGroup) : ∀ w : World,
    NSeq w.sets (floorGroups gs w o).1.sets (floorGroups gs w o).2 := by
  induction gs with
  | nil => intro w; exact NSeq.refl _
  | cons G gs ih => intro w; simp only [floorGroups]; exact NSeq.append (floorFrom_nseq standardTyps G.g G.fb o w) (ih _)

theorem reload_nseq (w : World) (gs : List ReloadGroup) (o : Oracle) :
    NSeq w.sets (reload w gs o).1.sets (reload w gs o).2 := by
  unfold reload
  exact NSeq.append (restoreGroups_nseq o gs w) (floorGroups_nseq o gs _)

theorem markUnavail_nseq (w : World) (n : Nat) (t : Typ) (tr : Bool) (o : Oracle) :
    NSeq w.sets (markUnavail w n t tr o).1.sets (markUnavail w n t tr o).2 := by
  unfold markUnavail
  split
  · exact NSeq.refl _
  · simp only
    refine NSeq.append (NSeq.append (nseq_trans_opt _ _ _ _ _) ?_) (NSeq.notify _ _ _ _ _)
    split
    · split
      · have h := escalateFrom_nseq escalationTyps n o (recordFailure (w.setNode n ((w.nodes n).counted t tr)) (w.nodes n).addr).1
        rw [recordFailure_sets] at h
        exact NSeq.append (A := w.sets) (B := w.sets) (o1 := [Out.escalate n])
          (NSeq.silent _ _ (fun x hx g i a b => by simp only [List.mem_singleton] at hx; rw [hx]; intro h; cases h)) h
      · rw [recordFailure_sets]; exact NSeq.refl _
    · exact NSeq.refl _

/-! ## collection indices of sets and callbacks stay inside 2..7 -/

def IdxRange (sets : List ASet) : Prop := ∀ s ∈ sets, 2 ≤ s.idx ∧ s.idx ≤ 7
def OutsRange (outs : List Out) : Prop := ∀ g i a b, Out.group g i a b ∈ outs → 2 ≤ i ∧ i ≤ 7

theorem idxRange_of_keys {A B : List ASet} (h : B.map skey = A.map skey) (hr : IdxRange A) : IdxRange B := by
  intro s hs
  have : skey s ∈ A.map skey := h ▸ List.mem_map_of_mem (f := skey) hs
  obtain ⟨s0, hs0, hk⟩ := List.mem_map.mp this
  simp only [skey, Prod.mk.injEq] at hk
  rw [← hk.2]; exact hr s0 hs0

theorem notifyAll_outs_mem (sets : List ASet) (n c : Nat) (a : Bool) (o : Oracle) (x : Out)
    (hx : x ∈ (notifyAll sets n c a o).2) : ∃ s ∈ sets, ∃ b, x = Out.group s.gid s.idx b false := by
  induction sets with
  | nil => simp [notifyAll] at hx
  | cons s ss ih =>
    simp only [notifyAll, List.mem_append] at hx
    rcases hx with hx | hx
    · unfold notifyOne at hx
      split at hx
      · simp only [List.mem_map] at hx
        obtain ⟨b, _, rfl⟩ := hx
        exact ⟨s, List.mem_cons_self, b, rfl⟩
      · simp at hx
    · obtain ⟨s', hs', b, rfl⟩ := ih hx
      exact ⟨s', List.mem_cons_of_mem _ hs', b, rfl⟩

theorem outsRange_append {a b : List Out} (ha : OutsRange a) (hb : OutsRange b) : OutsRange (a ++ b) := by
  intro g i x y h
  rcases List.mem_append.mp h with h | h
  · exact ha g i x y h
  · exact hb g i x y h

theorem nseq_range {A B : List ASet} {o : List Out} (h : NSeq A B o) (hr : IdxRange A) : OutsRange o := by
  induction h with
  | silent A o h => intro g i a b hm; exact absurd rfl (h _ hm g i a b)
  | notify A n c a orc =>
    intro g i x y hm
    obtain ⟨s, hs, b, he⟩ := notifyAll_outs_mem A n c a orc _ hm
    cases he; exact hr s hs
  | @append A' B' C' o1' o2' s1 s2 ih1 ih2 =>
    exact outsRange_append (ih1 hr) (ih2 (idxRange_of_keys (nseq_props s1).1 hr))

structure StepOK (A B : List ASet) (outs : List Out) : Prop where
  track : TrackStep A B outs
  keys : KeysNodup B
  range : IdxRange B
  orange : OutsRange outs

theorem nseq_ok {A B : List ASet} {o : List Out} (h : NSeq A B o) (hk : KeysNodup A) (hr : IdxRange A) : StepOK A B o := by
  obtain ⟨k, t, _⟩ := nseq_props h
  exact ⟨t hk, by unfold KeysNodup; rw [k]; exact hk, idxRange_of_keys k hr, nseq_range h hr⟩

theorem stepOK_same (A : List ASet) (hk : KeysNodup A) (hr : IdxRange A) : StepOK A A [] :=
  nseq_ok (NSeq.refl A) hk hr

/-! ## group construction -/

theorem newSet_key (w : World) (g ob : Nat) (p : Policy) (tol : Int) (ms : List (Nat × Int)) (o : Oracle) (t : Typ) :
    skey (newSet w g ob p tol ms o t).1 = (g, t.idx) := by
  simp only [newSet, skey]
  generalize hs0 : (⟨g, ob, t.idx, p.isMin, tol, ms.map (·.1),
      (fun d => match ms.find? fun e => e.1 == d with | some e => e.2 | none => 0), false, [], none, hour, true, 0⟩ : ASet) = s0
  have hs0i : s0.idx = t.idx := by rw [← hs0]
  have hs0g : s0.gid = g := by rw [← hs0]
  have st1 := notifyEach_static o (fun _ => false) (ms.map (·.1)) s0
  have st2 := notifyEach_static o (fun d => (w.nodes d).alive t.idx) (ms.map (·.1)) (notifyEach s0 (fun _ => false) o (ms.map (·.1))).1
  obtain ⟨sg, _, si, _⟩ := sameStatic_trans st1 st2
  rw [sg.trans hs0g, si.trans hs0i]

theorem newSet_outs (w : World) (g ob : Nat) (p : Policy) (tol : Int) (ms : List (Nat × Int)) (o : Oracle) (t : Typ) :
    ∀ x ∈ (newSet w g ob p tol ms o t).2, ∃ b, x = Out.group g t.idx b false := by
  intro x hx
  unfold newSet at hx
  simp only [List.mem_map] at hx
  obtain ⟨b, _, rfl⟩ := hx
  exact ⟨b, rfl⟩

theorem newSets_keys (w : World) (g ob : Nat) (p : Policy) (tol : Int) (ms : List (Nat × Int)) (o : Oracle) (ts : List Typ) :
    (newSets w g ob p tol ms o ts).1.map skey = ts.map fun t => (g, t.idx) := by
  induction ts with
  | nil => rfl
  | cons t ts ih => simp only [newSets, List.map_cons, ih, newSet_key]

theorem newSets_outs (w : World) (g ob : Nat) (p : Policy) (tol : Int) (ms : List (Nat × Int)) (o : Oracle) (ts : List Typ) :
    ∀ x ∈ (newSets w g ob p tol ms o ts).2, ∃ t ∈ ts, ∃ b, x = Out.group g t.idx b false := by
  induction ts with
  | nil => intro x hx; simp [newSets] at hx
  | cons t ts ih =>
    intro x hx
    simp only [newSets, List.mem_append] at hx
    rcases hx with hx | hx
    · obtain ⟨b, rfl⟩ := newSet_outs w g ob p tol ms o t x hx
      exact ⟨t, List.mem_cons_self, b, rfl⟩
    · obtain ⟨t', ht', b, rfl⟩ := ih x hx
      exact ⟨t', List.mem_cons_of_mem _ ht', b, rfl⟩

theorem gcbOf_other_gid (g g' i : Nat) (outs : List Out) (hne : g' ≠ g)
    (h : ∀ x ∈ outs, ∃ i' b c, x = Out.group g i' b c) : gcbOf g' i outs = [] := by
  induction outs with
  | nil => rfl
  | cons x xs ih =>
    obtain ⟨i', b, c, rfl⟩ := h x List.mem_cons_self
    have := ih (fun y hy => h y (List.mem_cons_of_mem _ hy))
    simp only [gcbOf, List.filterMap_cons] at this ⊢
    rw [if_neg (fun hh => hne hh.1.symm)]
    exact this

theorem findSet_append (A B : List ASet) (g i : Nat) : findSet (A ++ B) g i = (findSet A g i).or (findSet B g i) := by
  unfold findSet; rw [List.find?_append]

theorem groupInUse_false (w : World) (g : Nat) (h : w.groupInUse g = false) : ∀ s ∈ w.sets, s.gid ≠ g := by
  intro s hs hg
  unfold World.groupInUse at h
  rw [List.any_eq_false] at h
  exact h s hs (by simp [hg])

theorem standard_idx (t : Typ) (h : t ∈ standardTyps) : 2 ≤ t.idx ∧ t.idx ≤ 7 := by
  simp only [standardTyps, List.mem_cons, List.not_mem_nil, or_false] at h
  rcases h with rfl | rfl | rfl | rfl | rfl | rfl <;> simp [Typ.idx]

theorem gcbOf_inits (g i : Nat) (h : i ∈ standardTyps.map Typ.idx) :
    gcbOf g i (standardTyps.map fun t => Out.group g t.idx true true) = [true] := by
  simp only [standardTyps, List.map_cons, List.map_nil, Typ.idx, List.mem_cons, List.not_mem_nil, or_false] at h
  rcases h with rfl | rfl | rfl | rfl | rfl | rfl <;> simp [gcbOf, standardTyps, Typ.idx]

theorem newGroup_ok (w : World) (g ob : Nat) (p : Policy) (tol : Int) (ms : List (Nat × Int)) (o : Oracle)
    (hk : KeysNodup w.sets) (hr : IdxRange w.sets) (hg : w.groupInUse g = false) :
    StepOK w.sets (newGroup w g ob p tol ms o).1.sets (newGroup w g ob p tol ms o).2 := by
  have hold := groupInUse_false w g hg
  unfold newGroup
  simp only
  generalize hR : (if p.needsAlive = true then newSets w g ob p tol ms o standardTyps else ([], [])) = R
  have hkeys : ∃ ts' : List Typ, ts'.Sublist standardTyps ∧ R.1.map skey = ts'.map (fun t => (g, t.idx)) := by
    rw [← hR]; split
    · exact ⟨standardTyps, List.Sublist.refl _, newSets_keys w g ob p tol ms o standardTyps⟩
    · exact ⟨[], List.nil_sublist _, rfl⟩
  have houts : ∀ x ∈ R.2, ∃ t ∈ standardTyps, ∃ b, x = Out.group g t.idx b false := by
    rw [← hR]; split
    · exact newSets_outs w g ob p tol ms o standardTyps
    · intro x hx; simp at hx
  obtain ⟨ts', hsub, hkeys⟩ := hkeys
  have hnewkeys : (R.1.map fun s => ({ s with kbit := true, ncb := 0 } : ASet)).map skey = ts'.map (fun t => (g, t.idx)) := by
    rw [← hkeys, List.map_map]; rfl
  have hallouts : ∀ x ∈ R.2 ++ standardTyps.map (fun t => Out.group g t.idx true true), ∃ i' b c, x = Out.group g i' b c := by
    intro x hx
    rcases List.mem_append.mp hx with hx | hx
    · obtain ⟨t, _, b, rfl⟩ := houts x hx; exact ⟨_, _, _, rfl⟩
    · obtain ⟨t, _, rfl⟩ := List.mem_map.mp hx; exact ⟨_, _, _, rfl⟩
  refine ⟨?_, ?_, ?_, ?_⟩
  · intro g' i
    refine ⟨fun s hs => ?_, fun hn s' hs' => ?_⟩
    · have hne : g' ≠ g := by
        obtain ⟨hm, hgid, _⟩ := findSet_mem _ _ _ _ hs
        rw [← hgid]; exact hold s hm
      refine ⟨s, by rw [findSet_append, hs]; rfl, ?_⟩
      rw [gcbOf_other_gid g g' i _ hne hallouts]; rfl
    · rw [findSet_append, hn] at hs'
      simp only [Option.none_or] at hs'
      obtain ⟨hm, hgid, hidx⟩ := findSet_mem _ _ _ _ hs'
      obtain ⟨s0, hs0, rfl⟩ := List.mem_map.mp hm
      have hk0 : skey s0 ∈ ts'.map (fun t => (g, t.idx)) := hkeys ▸ List.mem_map_of_mem (f := skey) hs0
      obtain ⟨t, ht, hkt⟩ := List.mem_map.mp hk0
      simp only [skey, Prod.mk.injEq] at hkt
      have hg' : g' = g := by rw [← hgid]; exact hkt.1.symm
      have hi : i ∈ standardTyps.map Typ.idx := by
        rw [← hidx]; show s0.idx ∈ _; rw [← hkt.2]; exact List.mem_map_of_mem (f := Typ.idx) (hsub.subset ht)
      subst hg'
      rw [gcbOf_append, gcbOf_inits g' i hi, List.getLast?_append]
      rfl
  · unfold KeysNodup
    rw [List.map_append, hnewkeys]
    refine List.nodup_append.mpr ⟨hk, ?_, ?_⟩
    · have : (standardTyps.map fun t => (g, t.idx)).Nodup := by
        simp [standardTyps, Typ.idx]
      exact (List.Sublist.map _ hsub).nodup this
    · intro x hx1 y hx2 hxy
      subst hxy
      obtain ⟨s, hs, rfl⟩ := List.mem_map.mp hx1
      obtain ⟨t, _, ht⟩ := List.mem_map.mp hx2
      simp only [skey, Prod.mk.injEq] at ht
      exact hold s hs ht.1.symm
  · intro s hs
    rcases List.mem_append.mp hs with hs | hs
    · exact hr s hs
    · have : skey s ∈ ts'.map (fun t => (g, t.idx)) := hnewkeys ▸ List.mem_map_of_mem (f := skey) hs
      obtain ⟨t, ht, hkt⟩ := List.mem_map.mp this
      simp only [skey, Prod.mk.injEq] at hkt
      rw [← hkt.2]; exact standard_idx t (hsub.subset ht)
  · intro g' i a b hm
    rcases List.mem_append.mp hm with hm | hm
    · obtain ⟨t, ht, b', he⟩ := houts _ hm
      cases he; exact standard_idx t ht
    · obtain ⟨t, ht, he⟩ := List.mem_map.mp hm
      cases he; exact standard_idx t ht

theorem step_ok (w : World) (e : Event) (hk : KeysNodup w.sets) (hr : IdxRange w.sets) :
    StepOK w.sets (step w e).1.sets (step w e).2 := by
  cases e with
  | node n a => simp only [step]; split <;> exact stepOK_same _ hk hr
  | group g ob p tol ms o =>
    simp only [step]; split
    · exact stepOK_same _ hk hr
    · rename_i hc
      simp only [Bool.or_eq_true, not_or, Bool.not_eq_true] at hc
      exact newGroup_ok w g ob p tol ms o hk hr hc.1
  | close g =>
    simp only [step]
    have hkeys : (w.sets.map fun s => if s.gid = g then ({ s with active := false } : ASet) else s).map skey = w.sets.map skey := by
      rw [List.map_map]; apply List.map_congr_left; intro s _; simp only [Function.comp]; split <;> rfl
    refine ⟨?_, by unfold KeysNodup; rw [hkeys]; exact hk, idxRange_of_keys hkeys hr, fun _ _ _ _ h => by simp at h⟩
    intro g' i
    have hfind : findSet (w.sets.map fun s => if s.gid = g then ({ s with active := false } : ASet) else s) g' i =
        (findSet w.sets g' i).map fun s => if s.gid = g then ({ s with active := false } : ASet) else s := by
      unfold findSet
      rw [List.find?_map]
      have hp : ((fun s : ASet => s.gid == g' && s.idx == i) ∘ fun s => if s.gid = g then ({ s with active := false } : ASet) else s) =
          (fun s : ASet => s.gid == g' && s.idx == i) := by
        funext s; simp only [Function.comp]; split <;> rfl
      rw [hp]
    refine ⟨fun s hs => ⟨_, by rw [hfind, hs]; rfl, ?_⟩, fun hn s' hs' => ?_⟩
    · simp only [gcbOf, List.filterMap_nil, lastD_nil]; split <;> rfl
    · rw [hfind, hn] at hs'; cases hs'
  | probe n t a1 a2 o =>
    simp only [step]; split
    · exact nseq_ok (markAvail_nseq { w with now := w.now + _ } n t o) hk hr
    · exact nseq_ok (markUnavail_nseq w n t false o) hk hr
    · exact stepOK_same _ hk hr
  | txn n t ign o =>
    simp only [step]; split
    · exact stepOK_same _ hk hr
    · exact nseq_ok (markUnavail_nseq w n t false o) hk hr
  | tfail n t ign o =>
    simp only [step]; split
    · exact stepOK_same _ hk hr
    · exact nseq_ok (markUnavail_nseq w n t true o) hk hr
  | forced n t o => exact nseq_ok (markForced_nseq w n t o) hk hr
  | tok n t o => exact nseq_ok (trafficOk_nseq w n t o) hk hr
  | sbegin => exact stepOK_same _ hk hr
  | send =>
    simp only [step]; split
    · exact stepOK_same _ hk hr
    · split <;> exact stepOK_same _ hk hr
  | tick d => exact stepOK_same _ hk hr
  | resetGlobal => exact stepOK_same _ hk hr
  | inherit n m o => exact nseq_ok (restoreFrom_nseq _ n _ o w) hk hr
  | restore n s o => exact nseq_ok (restoreFrom_nseq _ n s o w) hk hr
  | floor g fb o => exact nseq_ok (floorFrom_nseq _ g fb o w) hk hr
  | reload gs o => exact nseq_ok (reload_nseq w gs o) hk hr

/-! ## the shared map -/

def bitv (b : Bool) : Nat := if b then 1 else 0

/-- what a callback writes: key, value, writing group -/
def writeOf (kw : KWorld) : Out → Option (Nat × Nat × Nat)
  | .group g i a init =>
    match kw.wiring g with
    | none => none
    | some k => (kernelCallback false (kw.silenced k.core) k.dryrun k.ob i a init).map fun kv => (kv.1, kv.2, g)
  | _ => none

theorem applyOut_eq (kw : KWorld) (x : Out) :
    applyOut kw x = match writeOf kw x with
      | none => kw
      | some (key, v, g) => { kw with kmap := upd kw.kmap key v, lastWriter := upd kw.lastWriter key (some g) } := by
  cases x with
  | group g i a init =>
    simp only [applyOut, writeOf]
    cases kw.wiring g with
    | none => rfl
    | some k =>
      cases hk : kernelCallback false (kw.silenced k.core) k.dryrun k.ob i a init with
      | none => simp [hk]
      | some kv => simp [hk]
  | trans _ _ _ => rfl
  | escalate _ => rfl

/-- the writes to key `K` in a list of callbacks, in order: (value, group) -/
def writesTo (kw : KWorld) (K : Nat) : List Out → List (Nat × Nat)
  | [] => []
  | x :: xs =>
    match writeOf kw x with
    | some (key, v, g) => if key = K then (v, g) :: writesTo kw K xs else writesTo kw K xs
    | none => writesTo kw K xs

theorem writeOf_frame (kw kw' : KWorld) (hw : kw'.wiring = kw.wiring) (hs : kw'.silenced = kw.silenced) (x : Out) :
    writeOf kw' x = writeOf kw x := by
  cases x <;> simp [writeOf, hw, hs]

theorem writesTo_frame (kw kw' : KWorld) (hw : kw'.wiring = kw.wiring) (hs : kw'.silenced = kw.silenced) (K : Nat)
    (outs : List Out) : writesTo kw' K outs = writesTo kw K outs := by
  induction outs with
  | nil => rfl
  | cons x xs ih => simp only [writesTo, writeOf_frame kw kw' hw hs x, ih]

theorem applyOuts_writes (outs : List Out) : ∀ (kw : KWorld) (K : Nat),
    (applyOuts kw outs).kmap K = ((writesTo kw K outs).getLast?.map (·.1)).getD (kw.kmap K) ∧
    (applyOuts kw outs).lastWriter K = ((writesTo kw K outs).getLast?.map fun p => some p.2).getD (kw.lastWriter K) := by
  induction outs with
  | nil => intro kw K; exact ⟨rfl, rfl⟩
  | cons x xs ih =>
    intro kw K
    obtain ⟨fw, fs, _⟩ := applyOut_frame kw x
    obtain ⟨i1, i2⟩ := ih (applyOut kw x) K
    simp only [applyOuts]
    rw [i1, i2, writesTo_frame kw (applyOut kw x) fw fs K xs]
    simp only [writesTo]
    rw [applyOut_eq]
    cases hwo : writeOf kw x with
    | none => exact ⟨rfl, rfl⟩
    | some kv =>
      obtain ⟨key, v, g⟩ := kv
      simp only
      by_cases hk : key = K
      · subst hk
        simp only [if_true, List.getLast?_cons, upd_same]
        cases (writesTo kw key xs).getLast? <;> simp
      · simp [if_neg hk, upd_other _ _ _ _ (Ne.symm hk)]

theorem getLast?_filter_of_last {α : Type} (p : α → Bool) (l : List α) (x : α) (h : l.getLast? = some x) (hp : p x = true) :
    (l.filter p).getLast? = some x := by
  obtain ⟨ys, rfl⟩ := List.getLast?_eq_some_iff.mp h
  rw [List.filter_append]
  simp [hp]

/-- the writes of a live, non-dry-run group `g` wired to outbound `ob` to the key of collection `i` are exactly
its callbacks for `i` -/
theorem writesTo_of_group (kw : KWorld) (g i : Nat) (k : KWire) (hw : kw.wiring g = some k) (hd : k.dryrun = false)
    (hs : kw.silenced k.core = false) (hi : 2 ≤ i ∧ i ≤ 7) :
    ∀ outs : List Out, OutsRange outs →
      (writesTo kw (kernelKey k.ob i) outs).filter (fun p => p.2 == g) = (gcbOf g i outs).map fun a => (bitv a, g) := by
  intro outs
  induction outs with
  | nil => intro _; rfl
  | cons x xs ih =>
    intro hr
    have hr' : OutsRange xs := fun g' i' a b h => hr g' i' a b (List.mem_cons_of_mem _ h)
    have ih' := ih hr'
    cases x with
    | trans n t a => simpa [writesTo, writeOf, gcbOf] using ih'
    | escalate n => simpa [writesTo, writeOf, gcbOf] using ih'
    | group g2 i2 a2 init2 =>
      have hi2 := hr g2 i2 a2 init2 List.mem_cons_self
      by_cases hg : g2 = g
      · subst hg
        have hwo : writeOf kw (Out.group g2 i2 a2 init2) = some (kernelKey k.ob i2, bitv a2, g2) := by
          simp [writeOf, hw, kernelCallback, hs, hd, bitv]
        by_cases hii : i2 = i
        · subst hii
          simp only [writesTo, hwo, if_true, List.filter_cons, beq_self_eq_true, gcbOf, List.filterMap_cons, and_self,
            List.map_cons]
          simp only [gcbOf] at ih'
          rw [ih']
        · have hkk : kernelKey k.ob i2 ≠ kernelKey k.ob i := fun h => hii (kernelKey_inj _ _ _ _ hi2 hi h).2
          simp only [writesTo, hwo, if_neg hkk, gcbOf, List.filterMap_cons]
          rw [if_neg (fun h => hii h.2)]
          simp only [gcbOf] at ih'
          exact ih'
      · have hgc : gcbOf g i (Out.group g2 i2 a2 init2 :: xs) = gcbOf g i xs := by
          simp only [gcbOf, List.filterMap_cons]
          rw [if_neg (fun h => hg h.1)]
        rw [hgc, ← ih']
        simp only [writesTo]
        cases hwo : writeOf kw (Out.group g2 i2 a2 init2) with
        | none => rfl
        | some kv =>
          obtain ⟨key, v, gg⟩ := kv
          have hgg : gg = g2 := by
            simp only [writeOf] at hwo
            cases hw2 : kw.wiring g2 with
            | none => rw [hw2] at hwo; cases hwo
            | some k2 =>
              rw [hw2] at hwo
              simp only [Option.map_eq_some_iff] at hwo
              obtain ⟨kv, _, he⟩ := hwo
              cases he; rfl
          subst hgg
          simp only
          split
          · rw [List.filter_cons]
            have : ((fun p : Nat × Nat => p.2 == g) (v, gg)) = false := by simp [hg]
            rw [if_neg (by simp [hg])]
          · rfl

theorem findSet_of_mem (sets : List ASet) (hk : KeysNodup sets) (s : ASet) (hs : s ∈ sets) :
    findSet sets s.gid s.idx = some s := by
  induction sets with
  | nil => cases hs
  | cons s0 ss ih =>
    rw [findSet_cons]
    rcases List.mem_cons.mp hs with rfl | hs'
    · simp
    · have hnot : skey s0 ∉ ss.map skey := (List.nodup_cons.mp hk).1
      rw [if_neg]
      · exact ih (List.nodup_cons.mp hk).2 hs'
      · rintro ⟨h1, h2⟩
        exact hnot (List.mem_map.mpr ⟨s, hs', by simp [skey, h1, h2]⟩)

/-- **Invariant of the shared map.** -/
structure KInv (kw : KWorld) : Prop where
  keys : KeysNodup kw.w.sets
  range : IdxRange kw.w.sets
  agree : ∀ s ∈ kw.w.sets, ∀ k, kw.wiring s.gid = some k → k.dryrun = false → kw.silenced k.core = false →
    kw.lastWriter (kernelKey k.ob s.idx) = some s.gid → kw.kmap (kernelKey k.ob s.idx) = bitv s.kbit

theorem kinv_init : KInv KWorld.init :=
  ⟨by simp [KWorld.init, World.init, KeysNodup], fun s hs => by simp [KWorld.init, World.init] at hs,
    fun s hs => by simp [KWorld.init, World.init] at hs⟩

theorem applyOuts_w (outs : List Out) : ∀ kw : KWorld, (applyOuts kw outs).w = kw.w := by
  induction outs with
  | nil => intro kw; rfl
  | cons x xs ih => intro kw; simp only [applyOuts]; rw [ih]; exact (applyOut_frame kw x).2.2

theorem kstep_inv (kw : KWorld) (e : KEvent) (h : KInv kw) : KInv (kstep kw e) := by
  cases e with
  | wire g c ob d =>
    simp only [kstep]
    split
    · exact h
    · rename_i hc
      simp only [Bool.or_eq_true, not_or, Bool.not_eq_true] at hc
      refine ⟨h.keys, h.range, fun s hs k hw => ?_⟩
      have hne : s.gid ≠ g := groupInUse_false kw.w g hc.1 s hs
      simp only [upd_other _ _ _ _ hne] at hw
      exact h.agree s hs k hw
  | silence c =>
    refine ⟨h.keys, h.range, fun s hs k hw hd hsil => ?_⟩
    simp only [kstep] at hsil hw ⊢
    have : kw.silenced k.core = false := by
      by_cases hc : k.core = c
      · rw [hc, upd_same] at hsil; cases hsil
      · rwa [upd_other _ _ _ _ hc] at hsil
    exact h.agree s hs k hw hd this
  | base e =>
    simp only [kstep]
    have ok := step_ok kw.w e h.keys h.range
    generalize hkw0 : ({ kw with w := (step kw.w e).1 } : KWorld) = kw0
    have hw0 : kw0.wiring = kw.wiring := by rw [← hkw0]
    have hs0 : kw0.silenced = kw.silenced := by rw [← hkw0]
    have hm0 : kw0.kmap = kw.kmap := by rw [← hkw0]
    have hl0 : kw0.lastWriter = kw.lastWriter := by rw [← hkw0]
    have hww : kw0.w = (step kw.w e).1 := by rw [← hkw0]
    obtain ⟨fw, fs⟩ := applyOuts_frame (step kw.w e).2 kw0
    have fwld := applyOuts_w (step kw.w e).2 kw0
    refine ⟨by rw [fwld, hww]; exact ok.keys, by rw [fwld, hww]; exact ok.range, ?_⟩
    intro s' hs' k hwir hd hsil hlw
    rw [fwld, hww] at hs'
    rw [fw, hw0] at hwir
    rw [fs, hs0] at hsil
    have hi := ok.range s' hs'
    have hfind' := findSet_of_mem _ ok.keys s' hs'
    obtain ⟨m1, m2⟩ := applyOuts_writes (step kw.w e).2 kw0 (kernelKey k.ob s'.idx)
    rw [m2, hl0] at hlw
    rw [m1, hm0]
    have hL1 := writesTo_of_group kw0 s'.gid s'.idx k (by rw [hw0]; exact hwir) hd (by rw [hs0]; exact hsil) hi
      (step kw.w e).2 ok.orange
    obtain ⟨t1, t2⟩ := ok.track s'.gid s'.idx
    cases hlast : (writesTo kw0 (kernelKey k.ob s'.idx) (step kw.w e).2).getLast? with
    | none =>
      rw [hlast] at hlw
      simp only [Option.map_none, Option.getD_none] at hlw ⊢
      have hW : writesTo kw0 (kernelKey k.ob s'.idx) (step kw.w e).2 = [] := List.getLast?_eq_none_iff.mp hlast
      rw [hW] at hL1
      have hg : gcbOf s'.gid s'.idx (step kw.w e).2 = [] := by
        have := hL1.symm
        simpa using this
      cases hold : findSet kw.w.sets s'.gid s'.idx with
      | none =>
        have := t2 hold s' hfind'
        rw [hg] at this; cases this
      | some s =>
        obtain ⟨s'', e1, e2⟩ := t1 s hold
        rw [hfind'] at e1; cases e1
        rw [hg, lastD_nil] at e2
        obtain ⟨hm, hgid, hidx⟩ := findSet_mem _ _ _ _ hold
        have := h.agree s hm k (by rw [hgid]; exact hwir) hd hsil (by rw [hgid, hidx]; exact hlw)
        rw [hidx] at this
        rw [this, e2]
    | some p =>
      obtain ⟨v, g2⟩ := p
      rw [hlast] at hlw
      simp only [Option.map_some, Option.getD_some, Option.some.injEq] at hlw ⊢
      subst hlw
      have hf := getLast?_filter_of_last (fun p : Nat × Nat => p.2 == s'.gid) _ (v, s'.gid) hlast (by simp)
      rw [hL1, List.getLast?_map] at hf
      cases hgl : (gcbOf s'.gid s'.idx (step kw.w e).2).getLast? with
      | none => rw [hgl] at hf; cases hf
      | some a =>
        rw [hgl] at hf
        simp only [Option.map_some, Option.some.injEq, Prod.mk.injEq, and_true] at hf
        rw [← hf]
        cases hold : findSet kw.w.sets s'.gid s'.idx with
        | none =>
          have := t2 hold s' hfind'
          rw [hgl] at this; cases this; rfl
        | some s =>
          obtain ⟨s'', e1, e2⟩ := t1 s hold
          rw [hfind'] at e1; cases e1
          rw [e2]; unfold lastD; rw [hgl]; rfl

theorem krun_inv (es : List KEvent) : ∀ kw : KWorld, KInv kw → KInv (krun kw es) := by
  induction es with
  | nil => intro kw h; exact h
  | cons e es ih => intro kw h; exact ih _ (kstep_inv kw e h)

/-- the health events among the events of the shared-map layer -/
def baseOf : List KEvent → List Event
  | [] => []
  | .base e :: es => e :: baseOf es
  | _ :: es => baseOf es

theorem kstep_w (kw : KWorld) (e : KEvent) :
    (kstep kw e).w = match e with | .base ev => (step kw.w ev).1 | _ => kw.w := by
  cases e with
  | base ev => simp only [kstep]; rw [applyOuts_w]
  | wire g c ob d => simp only [kstep]; split <;> rfl
  | silence c => rfl

theorem krun_w (es : List KEvent) : ∀ kw : KWorld, (krun kw es).w = (run kw.w (baseOf es)).1 := by
  induction es with
  | nil => intro kw; rfl
  | cons e es ih =>
    intro kw
    simp only [krun]
    rw [ih, kstep_w]
    cases e <;> rfl

end DaeVerif.C16
