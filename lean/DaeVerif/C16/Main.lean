import DaeVerif.C16.Model
import DaeVerif.Common.Proto
/-!
Line-protocol driver for C16.  Op grammar (see harness/overlay/component/outbound/dialer/c16x_test.go):

```
scenario
node <n> <addr>
group <g> <outbound> <min_last|min_avg|min_moving|random|fixed> <tolNs> <n:offNs,...|-> | <oracle>
close <g>
probe <n> <typ> <a1> <a2> | <oracle>          a = ok:<ns> | err | cancel | skip | -
txn|tfail <n> <typ> <ign 0/1> | <oracle>
forced|tok <n> <typ> | <oracle>
sbegin | send | tick <ns> | resetglobal
inherit <n> <m> | <oracle>
restore <n> <8 alive bits> <8 csv fail> <8 csv tfail> | <oracle>
floor <g> <idx:n,...|-> | <oracle>
reload <g>/<idx:n,...|->/<new:old,...|-> ... | <oracle>     (ControlPlane.InheritDialerHealthFrom)
handover o/<gname>/<n:name:link,..> ... n/<gid>/<gname>/<idx:n,..|->/<n:name:link,..> ... | <oracle>
        (InheritDialerHealthFrom given both generations; the MODEL does the group-name/node-name matching)
kcb <outbound> <typ> <alive> <isInit> <dryrun> <retired> <closed>  -> key=.. val=.. | unchanged
wire <g> <core> <outbound> <dryrun>   (before `group g`: which core's closure the group gets)  -> ok
silence <core>                        (MarkRetired / core closed)
typidx <typ>           -> idx=<Index()> udp=<0/1> data=<0/1>
consts                 -> the model's constants
key <outbound> <typ> <alive>   -> kernel key/value
```
oracle = `g.idx.n:rawNs` tokens.  Every event answers with the complete state (see `showWorld`).
-/
open DaeVerif DaeVerif.C16 DaeVerif.Proto

structure DState where
  kw : KWorld
  nodeIds : List Nat
  wired : List Nat := []      -- group ids wired to a core, in order

def DState.init : DState := ⟨KWorld.init, [], []⟩

def DState.w (st : DState) : World := st.kw.w

def parseTyp? : String → Option Typ
  | "t4" => some .t4 | "t6" => some .t6 | "T4" => some .T4 | "T6" => some .T6
  | "d4" => some .d4 | "d6" => some .d6 | "u4" => some .u4 | "u6" => some .u6
  | "x4" => some .x4 | "x6" => some .x6 | "y4" => some .y4 | "y6" => some .y6
  | "z4" => some .z4 | "z6" => some .z6 | "a4" => some .a4 | "a6" => some .a6
  | "b4" => some .b4 | "b6" => some .b6 | _ => none

def typStr : Typ → String
  | .t4 => "t4" | .t6 => "t6" | .T4 => "T4" | .T6 => "T6" | .d4 => "d4" | .d6 => "d6"
  | .u4 => "u4" | .u6 => "u6" | .x4 => "x4" | .x6 => "x6" | .y4 => "y4" | .y6 => "y6" | .z4 => "z4" | .z6 => "z6"
  | .a4 => "a4" | .a6 => "a6" | .b4 => "b4" | .b6 => "b6"

def parseInt? (s : String) : Option Int :=
  if s.startsWith "-" then (s.drop 1).toNat?.map fun n => -(Int.ofNat n) else s.toNat?.map Int.ofNat

def parseOracleTok? (tok : String) : Option ((Nat × Nat × Nat) × Int) :=
  match tok.splitOn ":" with
  | [k, v] =>
    match k.splitOn ".", parseInt? v with
    | [g, i, n], some r => do
      let g ← g.toNat?; let i ← i.toNat?; let n ← n.toNat?
      pure ((g, i, n), r)
    | _, _ => none
  | _ => none

def parseOracle? (toks : List String) : Option Oracle := toks.mapM parseOracleTok?

def parseAttempt? (s : String) : Option Attempt :=
  if s = "err" ∨ s = "-" then some .err
  else if s = "hang" then some .err       -- blocks until the attempt's deadline: a real error (timeout)
  else if s = "cancel" then some .canceled
  else if s = "skip" then some .skip
  else match s.splitOn ":" with
    | ["ok", v] => v.toNat?.map Attempt.ok
    | _ => none

def parsePolicy? : String → Option Policy
  | "min_last" => some .minLast | "min_avg" => some .minAvg | "min_moving" => some .minMoving
  | "random" => some .random | "fixed" => some .fixed | _ => none

def parsePairs? (s : String) : Option (List (Nat × Int)) :=
  if s = "-" then some []
  else (s.splitOn ",").mapM fun p =>
    match p.splitOn ":" with
    | [a, b] => do let a ← a.toNat?; let b ← parseInt? b; pure (a, b)
    | _ => none

def parseCsv? (s : String) : Option (List Nat) := (s.splitOn ",").mapM (·.toNat?)

def listFn {β : Type} (l : List β) (d : β) : Nat → β := fun i => l.getD i d

def splitBar (ws : List String) : List String × List String :=
  (ws.takeWhile (· ≠ "|"), (ws.dropWhile (· ≠ "|")).drop 1)

def natPairs? (s : String) : Option (List (Nat × Nat)) := do
  let ps ← parsePairs? s
  pure (ps.map fun p => (p.1, p.2.toNat))

/-- `g/idx:n,.../new:old,...` -/
def parseReloadGroup? (tok : String) : Option ReloadGroup :=
  match tok.splitOn "/" with
  | [g, fb, ps] => do
    let g ← g.toNat?
    let fbs ← natPairs? fb
    let ps ← natPairs? ps
    let f : Nat → Option Nat := fun i => match fbs.find? fun e => e.1 == i with | some e => some e.2 | none => none
    pure ⟨g, f, ps⟩
  | _ => none

def natTriples? (s : String) : Option (List (Nat × Nat × Nat)) :=
  if s = "-" then some []
  else (s.splitOn ",").mapM fun p =>
    match p.splitOn ":" with
    | [a, b, c] => do let a ← a.toNat?; let b ← b.toNat?; let c ← c.toNat?; pure (a, b, c)
    | _ => none

/-- `o/<gname>/<n:name:link,...|->`  or  `n/<gid>/<gname>/<idx:n,...|->/<n:name:link,...|->` -/
def parseGen? (toks : List String) : Option (List GenGroup × List GenGroup × List (Nat × List (Nat × Nat))) :=
  toks.foldlM (fun (acc : List GenGroup × List GenGroup × List (Nat × List (Nat × Nat))) tok =>
    match tok.splitOn "/" with
    | ["o", gn, ms] => do
      let gn ← gn.toNat?; let ms ← natTriples? ms
      pure (acc.1 ++ [⟨0, gn, ms⟩], acc.2.1, acc.2.2)
    | ["n", g, gn, fb, ms] => do
      let g ← g.toNat?; let gn ← gn.toNat?; let fb ← natPairs? fb; let ms ← natTriples? ms
      pure (acc.1, acc.2.1 ++ [⟨g, gn, ms⟩], acc.2.2 ++ [(g, fb)])
    | _ => none) ([], [], [])

def parseEvent? (ws : List String) : Option Event :=
  let (hd, otoks) := splitBar ws
  match parseOracle? otoks with
  | none => none
  | some o =>
    match hd with
    | ["node", n, a] => do pure (.node (← n.toNat?) (← a.toNat?))
    | ["group", g, ob, p, tol, ms] => do
      pure (.group (← g.toNat?) (← ob.toNat?) (← parsePolicy? p) (← parseInt? tol) (← parsePairs? ms) o)
    | ["close", g] => do pure (.close (← g.toNat?))
    | ["probe", n, t, a1, a2] => do
      pure (.probe (← n.toNat?) (← parseTyp? t) (← parseAttempt? a1) (← parseAttempt? a2) o)
    | ["txn", n, t, ign] => do pure (.txn (← n.toNat?) (← parseTyp? t) (ign == "1") o)
    | ["tfail", n, t, ign] => do pure (.tfail (← n.toNat?) (← parseTyp? t) (ign == "1") o)
    | ["forced", n, t] => do pure (.forced (← n.toNat?) (← parseTyp? t) o)
    | ["tok", n, t] => do pure (.tok (← n.toNat?) (← parseTyp? t) o)
    | ["sbegin"] => some .sbegin
    | ["send"] => some .send
    | ["tick", d] => do pure (.tick (← d.toNat?))
    | ["resetglobal"] => some .resetGlobal
    | ["inherit", n, m] => do pure (.inherit (← n.toNat?) (← m.toNat?) o)
    | ["restore", n, bits, f, t] => do
      let f ← parseCsv? f; let t ← parseCsv? t
      let bs := bits.toList.map (· == '1')
      pure (.restore (← n.toNat?) ⟨listFn bs false, listFn f 0, listFn t 0⟩ o)
    | "handover" :: gtoks => do
      let (olds, news, fbs) ← parseGen? gtoks
      let fb : Nat → Nat → Option Nat := fun g i =>
        match fbs.find? fun e => e.1 == g with
        | some e => (match e.2.find? fun x => x.1 == i with | some x => some x.2 | none => none)
        | none => none
      pure (.reload (reloadGroupsOf olds news fb) o)
    | "reload" :: gtoks => do
      let gs ← gtoks.mapM parseReloadGroup?
      pure (.reload gs o)
    | ["floor", g, fb] => do
      let ps ← parsePairs? fb
      let f : Nat → Option Nat := fun i =>
        match ps.find? fun e => e.1 == i with | some e => some e.2.toNat | none => none
      pure (.floor (← g.toNat?) f o)
    | _ => none

/-! ### printing -/

def csv (l : List Nat) : String := ",".intercalate (l.map toString)

def showNode (n : Nat) (nd : Node) : String :=
  let bits := String.ofList ([2, 3, 4, 5, 6, 7].map fun i => if nd.alive i then '1' else '0')
  s!"{n}:{bits}/{csv ((List.range 8).map nd.fail)}/{csv ((List.range 8).map nd.tfail)}"

def showSet (s : ASet) : String :=
  let es := ",".intercalate (s.entries.map fun e => s!"{e.1}:{e.2}")
  let m := match s.minD with | some d => toString d | none => "-"
  s!"{s.gid}.{s.idx}{if s.active then "a" else "i"}[{es}]m={m}:{s.minLat}"

def insertBy {α : Type} (le : α → α → Bool) (x : α) : List α → List α
  | [] => [x]
  | y :: ys => if le x y then x :: y :: ys else y :: insertBy le x ys

/-- stable insertion sort -/
def sortBy {α : Type} (le : α → α → Bool) (l : List α) : List α := l.foldr (insertBy le) []

def showOuts (outs : List Out) : String :=
  let ts := outs.filterMap fun
    | .trans n t a => some s!"{n}{typStr t}{boolStr a}"
    | _ => none
  let gs := outs.filterMap fun
    | .group g i a init => some (g, i, a, init)
    | _ => none
  let gs := sortBy (fun (a b : Nat × Nat × Bool × Bool) => a.1 < b.1 || (a.1 == b.1 && a.2.1 ≤ b.2.1)) gs
  let es := outs.filterMap fun
    | .escalate n => some (toString n)
    | _ => none
  let gstr := gs.map fun (g, i, a, init) => s!"{g}.{i}={boolStr a}{if init then "i" else ""}"
  s!"T[{",".intercalate ts}] G[{",".intercalate gstr}] E[{",".intercalate es}]"

def showWorld (st : DState) (outs : List Out) : String :=
  let w := st.w
  let ns := ";".intercalate (st.nodeIds.map fun n => showNode n (w.nodes n))
  let ss := ";".intercalate (w.sets.map showSet)
  let pf := sortBy (fun (a b : FailEntry) => a.1 ≤ b.1) w.failures
  let pfs := ",".intercalate (pf.map fun e => s!"{e.1}:{e.2.1}")
  -- kernel bit of a set: the shared map's slot when the group is wired to a core, else the per-set ghost
  let kb := String.ofList (w.sets.map fun s =>
    match st.kw.wiring s.gid with
    | some k => (match st.kw.kmap (kernelKey k.ob s.idx) with | 0 => '0' | 1 => '1' | _ => '?')
    | none => if s.kbit then '1' else '0')
  -- the six map slots of every wired group's outbound id
  let mm := ";".intercalate (st.wired.map fun g =>
    match st.kw.wiring g with
    | some k => String.ofList ((List.range 6).map fun j => (toString (st.kw.kmap (k.ob * 6 + j))).toList.headD '?')
    | none => "")
  let mstr := if st.wired.isEmpty then "" else s!" M[{mm}]"
  s!"N[{ns}] {showOuts outs} S[{ss}] K[{kb}] P[now={w.now} sup={boolStr w.suppressed} pf={pfs}]{mstr}"

def handle (st : DState) (line : String) : DState × String :=
  match words line with
  | ["scenario"] =>
    -- a new scenario keeps the durations read from the real code
    (⟨{ KWorld.init with w := { World.init with cfg := st.kw.w.cfg } }, [], []⟩, "ok")
  | ["typidx", t] =>
    match parseTyp? t with
    | some t => (st, s!"idx={t.idx} udp={boolStr t.isUdp} data={boolStr t.isData}")
    | none => (st, "bad-op")
  | ["params", q, t, c] =>
    -- durations read from the real code (not compared: the property does not fix them)
    match q.toNat?, t.toNat?, c.toNat? with
    | some q, some t, some c =>
      (⟨{ st.kw with w := { st.kw.w with cfg := ⟨q, t, c⟩ } }, st.nodeIds, st.wired⟩, "ok")
    | _, _, _ => (st, "bad-op")
  | ["consts"] =>
    (st, s!"max={maxConsecutiveFailures}")
  | ["key", ob, t, a] =>
    match ob.toNat?, parseTyp? t with
    | some ob, some t =>
      let kv := kernelWrite ob t.idx (a == "1")
      (st, s!"key={kv.1} val={kv.2}")
    | _, _ => (st, "bad-op")
  | ["kcb", ob, t, a, init, dry, ret, cl] =>
    match ob.toNat?, parseTyp? t with
    | some ob, some t =>
      match kernelCallback (cl == "1") (ret == "1") (dry == "1") ob t.idx (a == "1") (init == "1") with
      | some kv => (st, s!"key={kv.1} val={kv.2}")
      | none => (st, "unchanged")
    | _, _ => (st, "bad-op")
  | ["wire", g, c, ob, d] =>
    match g.toNat?, c.toNat?, ob.toNat? with
    | some g, some c, some ob => (⟨kstep st.kw (.wire g c ob (d == "1")), st.nodeIds, st.wired ++ [g]⟩, "ok")
    | _, _, _ => (st, "bad-op")
  | ["silence", c] =>
    match c.toNat? with
    | some c => let st' : DState := ⟨kstep st.kw (.silence c), st.nodeIds, st.wired⟩; (st', showWorld st' [])
    | none => (st, "bad-op")
  | ["capture", g] =>
    -- what `CaptureReloadSelectionFallback` of latency-policy group g returns now
    match g.toNat? with
    | some g =>
      let fb := captureFallback st.w g
      let toks := [2, 3, 4, 5, 6, 7].filterMap fun i => (fb i).map fun d => s!"{i}:{d}"
      (st, s!"F[{",".intercalate toks}]")
    | none => (st, "bad-op")
  | "cycle" :: n :: fam :: dur :: rest =>
    -- one iteration of the probe loop, given `dur` ns of (virtual) time:
    -- `cycle <n> <full|tcp|udp> <dur> t4=a1,a2 t6=a1,a2 d4=a1,a2 d6=a1,a2 | oracle`
    let (sctoks, otoks) := splitBar rest
    let fam? : Option Family := match fam with
      | "full" => some .full | "tcp" => some .tcp | "udp" => some .udp | _ => none
    let sc? : Option (List (Typ × Attempt × Attempt)) := sctoks.mapM fun tok =>
      match tok.splitOn "=" with
      | [t, as] =>
        match parseTyp? t, as.splitOn "," with
        | some t, [a1, a2] => do pure (t, (← parseAttempt? a1), (← parseAttempt? a2))
        | _, _ => none
      | _ => none
    match n.toNat?, fam?, sc?, parseOracle? otoks, dur.toNat? with
    | some n, some fam, some scl, some o, some dur =>
      let sc : Typ → Attempt × Attempt := fun t =>
        match scl.find? fun e => e.1 == t with | some e => e.2 | none => (.err, .err)
      let opts := cycleOpts st.w n fam
      let evs := cycleEvents st.w n fam sc o ++ [.tick dur]
      let r := run st.w evs
      let kw' := evs.foldl (fun kw e => kstep kw (.base e)) st.kw
      let st' : DState := ⟨{ kw' with w := kw'.w.tab st.nodeIds }, st.nodeIds, st.wired⟩
      let hs := ",".intercalate (probeTable.map fun t =>
        s!"{typStr t}:{if opts.contains t then dialsUsed (sc t).1 (sc t).2 else 0}")
      (st', s!"{showWorld st' r.2} H[{hs}]")
    | _, _, _, _, _ => (st, "bad-op")
  | ws =>
    match parseEvent? ws with
    | none => (st, "bad-op")
    | some e =>
      let r := step st.w e
      let kw' := kstep st.kw (.base e)
      let ids := match e with
        | .node n _ => if st.nodeIds.contains n then st.nodeIds else st.nodeIds ++ [n]
        | _ => st.nodeIds
      let st' : DState := ⟨{ kw' with w := kw'.w.tab ids }, ids, st.wired⟩
      (st', showWorld st' r.2)

/-- `quiet <op>`: execute, answer `SETUP` (used when the real code performs a whole batch at once) -/
def handle' (st : DState) (line : String) : DState × String :=
  match words line with
  | "quiet" :: rest => ((handle st (" ".intercalate rest)).1, "SETUP")
  | _ => handle st line

def main : IO Unit := lineLoopS DState.init handle'
