import DaeVerif.C16.Proofs
import DaeVerif.C16.Probe
import DaeVerif.C16.KMap
/-!
# C16 — property theorems

Only statements a reader should audit live here (namespace `DaeVerif.C16.Props`); definitions they
mention (`step`, `run`, `touch`, `specCount`, `touchAddr`, `specAddr`, `ForcedCause`, `EdgesAt`,
`AgreeAt`, `SetInv`, `Event.Sane`, …) are in `Model.lean` / `Proofs.lean`.
Every theorem is about the definitions the driver `c16drv` executes, quantifies over all states /
histories / latency inputs, and is followed by a non-vacuity `example`.

Clause map of the property statement:
* thresholds — `dead_only_after_threshold` ("only after"), `kth_consecutive_failure_kills` ("exactly at", back to
  back), `threshold_reached_kills`, `below_threshold_stays`;
* the probe loop (which probes an iteration of `aliveBackground` runs) — `probe_loop_runs_exactly_the_table`,
  `probe_loop_never_revives_data_udp`, `probe_loop_order_irrelevant`; an iteration is a list of `probe` events, so the
  history theorems below cover it;
* forced report / escalation — `forced_report_kills_immediately`, `escalation_takes_all_types_down`,
  `escalation_only_after_three_deaths`;
* success revives and clears — `success_revives_and_clears`, `data_udp_traffic_revives`,
  `traffic_success_clears_traffic_count`;
* cancellation / teardown never counts — `ignorable_never_counts`, `canceled_probe_never_counts`;
* reload suppression — `suppressed_failures_dont_count`, `suppression_window` (definitional), `suppression_steps`;
* callbacks exactly once per transition — `callbacks_on_edges_only`, `callbacks_on_edges_only_history`;
* every group sees the node's state — `groups_see_state`; under concurrency (separate interleaving model)
  `concurrent_reports_agree_at_quiescence`, `captured_value_protocol_can_disagree`;
* kernel bit — `kernel_bit`, `group_callbacks_are_edges`, `random_policy_never_writes`, `kernel_key_injective`,
  `kernel_key_slots`, `kernel_callback_guards`; the map shared by generations:
  `kernel_map_changed_only_by_live_report`, `kernel_map_untouched_by_wiring_and_retirement`,
  `kernel_map_is_last_live_report_in_step`, `kernel_map_follows_newest_live_group` (history level);
* reload — `reload_hands_over_state`, `reload_snapshot_drops_counters`, `handover_matches_per_group`,
  `handover_unmatched_node_untouched`, `reload_leaves_every_group_selectable`,
  `reload_old_order_leaves_group_empty`, `reload_floor_leaves_selectable` (one floor step),
  `reload_leaves_every_group_selectable_by_select`, `captured_fallback_is_listed` (`CaptureReloadSelectionFallback`).
-/
namespace DaeVerif.C16.Props
open DaeVerif.C16

/-! ## the probe loop -/

/-- **Which probes run.** One iteration of `aliveBackground` for node `n` consists of exactly the probes
of TCP/4, TCP/6, DNS-UDP/4, DNS-UDP/6 that belong to the triggered family (all four for a periodic /
`NotifyCheck` iteration) and whose collection has a registered set listing `n` — each with the two
attempts the script gives it, each at most once, never a data-UDP probe. -/
theorem probe_loop_runs_exactly_the_table (w : World) (n : Nat) (fam : Family) (sc : Typ → Attempt × Attempt)
    (o : Oracle) :
    (∀ e, e ∈ cycleEvents w n fam sc o ↔
      ∃ t, (t = .t4 ∨ t = .t6 ∨ t = .d4 ∨ t = .d6) ∧ fam.selects t = true ∧ w.probed n t = true ∧
        e = .probe n t (sc t).1 (sc t).2 o) ∧
    ((cycleOpts w n fam).map Typ.idx).Nodup ∧
    (∀ t ∈ cycleOpts w n fam, t.isData = false ∧ (t.idx = 2 ∨ t.idx = 3 ∨ t.idx = 4 ∨ t.idx = 5)) := by
  refine ⟨fun e => ?_, cycleOpts_nodup w n fam, fun t ht => ?_⟩
  · simp only [cycleEvents, List.mem_map, cycleOpts_mem, probeTable, List.mem_cons, List.not_mem_nil, or_false]
    constructor
    · rintro ⟨t, ⟨h1, h2, h3⟩, rfl⟩; exact ⟨t, h1, h2, h3, rfl⟩
    · rintro ⟨t, h1, h2, h3, rfl⟩; exact ⟨t, ⟨h1, h2, h3⟩, rfl⟩
  · have hm := ((cycleOpts_mem w n fam t).mp ht).1
    refine ⟨?_, probeTable_idx t hm⟩
    simp only [probeTable, List.mem_cons, List.not_mem_nil, or_false] at hm
    rcases hm with rfl | rfl | rfl | rfl <;> rfl

/-- a targeted TCP iteration of a node used by a group: the two TCP probes, nothing else; an unused node: nothing -/
example :
    let w := (run World.init [.node 0 0, .node 1 0, .group 0 2 .minLast 0 [(0, 0)] []]).1
    cycleOpts w 0 .tcp = [.t4, .t6] ∧ cycleOpts w 0 .udp = [.d4, .d6] ∧ cycleOpts w 0 .full = [.t4, .t6, .d4, .d6] ∧
      cycleOpts w 1 .full = [] ∧ cycleOpts (step w (.close 0)).1 0 .full = [] := by decide

/-- **Data UDP is never revived by the probe loop**: whatever the probes of an iteration meet, a data-UDP slot
(of any node) that is not alive before the iteration is not alive after it — only traffic revives it. -/
theorem probe_loop_never_revives_data_udp (w : World) (n : Nat) (fam : Family) (sc : Typ → Attempt × Attempt)
    (o : Oracle) (m i : Nat) (hi : i = 6 ∨ i = 7) (h : (w.nodes m).alive i = false) :
    ((run w (cycleEvents w n fam sc o)).1.nodes m).alive i = false := by
  rw [cycleEvents_eq]
  refine run_probes_dead_stays n sc o m i _ w (fun t ht hh => ?_) h
  have := probeTable_idx t ((cycleOpts_mem w n fam t).mp ht).1
  omega

example :
    let w := (run World.init [.node 0 0, .group 0 2 .minLast 0 [(0, 0)] [], .forced 0 .u4 []]).1
    ((run w (cycleEvents w 0 .full (fun _ => (.ok 1, .err)) [])).1.nodes 0).alive 6 = false ∧
      ((step w (.tok 0 .u4 [])).1.nodes 0).alive 6 = true := by decide

/-- **The order of the probes of one iteration is irrelevant** (they run concurrently on pool workers).  For a
node without a proxy address (no cross-domain escalation), outside the quiesce window of a reload (the
suppression state cannot change while the iteration runs), and any list of probes of pairwise different
collections: each probed slot ends exactly as if its probe had run alone on the state before the iteration,
every other slot of the node is untouched.  Hence any two orders of the same probes leave the node in the
same state (alive flag and both counters of every slot). -/
theorem probe_loop_order_irrelevant (w : World) (n : Nat) (sc : Typ → Attempt × Attempt) (o : Oracle)
    (ts ts' : List Typ) (hperm : ts.Perm ts') (hnd : (ts.map Typ.idx).Nodup) (haddr : (w.nodes n).addr = 0)
    (hst : 0 < w.supCount ∨ w.supUntil ≤ w.now) :
    (∀ t ∈ ts, slotOf ((run w (probeEvents n sc o ts)).1.nodes n) t.idx =
      slotOf ((step w (.probe n t (sc t).1 (sc t).2 o)).1.nodes n) t.idx) ∧
    (∀ i, i ∉ ts.map Typ.idx → slotOf ((run w (probeEvents n sc o ts)).1.nodes n) i = slotOf (w.nodes n) i) ∧
    (∀ i, slotOf ((run w (probeEvents n sc o ts)).1.nodes n) i = slotOf ((run w (probeEvents n sc o ts')).1.nodes n) i) := by
  have hnd' : (ts'.map Typ.idx).Nodup := (hperm.map Typ.idx).nodup_iff.mp hnd
  obtain ⟨a1, a2, _⟩ := run_probes_slots n sc o ts w hnd haddr hst
  obtain ⟨b1, b2, _⟩ := run_probes_slots n sc o ts' w hnd' haddr hst
  refine ⟨a1, a2, fun i => ?_⟩
  by_cases hi : i ∈ ts.map Typ.idx
  · obtain ⟨t, ht, rfl⟩ := List.mem_map.mp hi
    rw [a1 t ht, b1 t (hperm.mem_iff.mp ht)]
  · have hi' : i ∉ ts'.map Typ.idx := fun h => hi ((hperm.map Typ.idx).mem_iff.mpr h)
    rw [a2 i hi, b2 i hi']

/-- TCP/4 fails, DNS-UDP/6 fails for the third time, TCP/6 succeeds: same node state in both orders; with a
proxy address the order can matter (the third death escalates — or not, if the success came first) -/
example :
    let w := (run World.init [.node 0 0, .probe 0 .d6 .err .err [], .probe 0 .d6 .err .err []]).1
    let sc : Typ → Attempt × Attempt := fun t => if t = .t6 then (.ok 0, .err) else (.err, .err)
    ([2, 3, 4, 5, 6, 7].map fun i => slotOf ((run w (probeEvents 0 sc [] [.t4, .t6, .d6])).1.nodes 0) i) =
      [(true, 0, 0), (false, 3, 0), (false, 1, 0), (true, 0, 0), (true, 0, 0), (true, 0, 0)] ∧
    ([2, 3, 4, 5, 6, 7].map fun i => slotOf ((run w (probeEvents 0 sc [] [.d6, .t6, .t4])).1.nodes 0) i) =
      [(true, 0, 0), (false, 3, 0), (false, 1, 0), (true, 0, 0), (true, 0, 0), (true, 0, 0)] := by decide

example :
    let w := (run World.init [.node 0 1, .probe 0 .d4 .err .err [], .probe 0 .d4 .err .err [], .probe 0 .d6 .err .err [],
      .probe 0 .d6 .err .err []]).1
    let sc : Typ → Attempt × Attempt := fun t => if t = .t6 then (.ok 0, .err) else (.err, .err)
    ((run w (probeEvents 0 sc [] [.t4, .d4, .d6, .t6])).1.nodes 0).alive 6 = false ∧
    ((run w (probeEvents 0 sc [] [.t4, .d4, .t6, .d6])).1.nodes 0).alive 6 = true := by decide

/-! ## thresholds -/

/-- **Headline (histories).** Take any history from the initial state whose restore steps carry
sanitised snapshots (what `ReloadHealthSnapshot` produces) and any next event.  If node `n` is alive for
collection index `i` before the event and not alive after it, then the event is a forced report on
that slot, a restore of the node, an escalation of the node in this step — or it is a counted
failure (not ignorable, not suppressed) of one source on exactly that slot, and the number of such
counted failures since the last success of that counter (`specCount`, a function of the history
only) has reached the documented threshold: 1 (TCP probe) / 3 (UDP probe) / 10 (TCP traffic) /
50 (UDP traffic). -/
theorem dead_only_after_threshold (h : List Event) (hs : ∀ e ∈ h, e.Sane) (e : Event) (n i : Nat)
    (ha : (((run World.init h).1).nodes n).alive i = true)
    (hd : ((step (run World.init h).1 e).1.nodes n).alive i = false) :
    ForcedCause (run World.init h).1 n i e ∨
    (∃ t : Typ, t.idx = i ∧ touch false n i (run World.init h).1 e = .fail ∧
      threshold t.isUdp false ≤ specCount false n i World.init (h ++ [e]) 0) ∨
    (∃ t : Typ, t.idx = i ∧ touch true n i (run World.init h).1 e = .fail ∧
      threshold t.isUdp true ≤ specCount true n i World.init (h ++ [e]) 0) := by
  have init0 : ∀ tr, CountInv tr n i World.init 0 := by
    intro tr _; cases tr <;> simp [cnt, World.init, Node.fresh]
  rcases death_step (run World.init h).1 e n i ha hd with h1 | ⟨t, h1, h2, h3⟩ | ⟨t, h1, h2, h3⟩
  · left; exact h1
  · right; left
    refine ⟨t, h1, h2, ?_⟩
    have := countInv_run false n i h World.init 0 hs (init0 false) ha
    rw [specCount_append, h2]; simp only [Touch.next]; omega
  · right; right
    refine ⟨t, h1, h2, ?_⟩
    have := countInv_run true n i h World.init 0 hs (init0 true) ha
    rw [specCount_append, h2]; simp only [Touch.next]; omega

/-- three UDP probe failures in a row: dead exactly at the third, streak = 3 -/
example :
    let h : List Event := [.node 0 1, .probe 0 .d4 .err .err [], .probe 0 .d4 .err .err []]
    let e : Event := .probe 0 .d4 .err .err []
    (((run World.init h).1).nodes 0).alive 2 = true ∧ ((step (run World.init h).1 e).1.nodes 0).alive 2 = false ∧
      specCount false 0 2 World.init (h ++ [e]) 0 = 3 ∧ touch false 0 2 (run World.init h).1 e = .fail := by
  decide

/-- a success in between restarts the streak: after fail, fail, ok, fail the node is still alive -/
example :
    let h : List Event := [.node 0 1, .probe 0 .d4 .err .err [], .probe 0 .d4 .err .err [],
      .probe 0 .d4 (.ok 5) .err [], .probe 0 .d4 .err .err []]
    (((run World.init h).1).nodes 0).alive 2 = true ∧ specCount false 0 2 World.init h 0 = 1 := by
  decide

/-- **Exactness.** A counted failure that brings the slot's counter to the threshold does kill it … -/
theorem threshold_reached_kills (w : World) (n : Nat) (t : Typ) (tr : Bool) (o : Oracle) (hs : w.suppressed = false)
    (hc : threshold t.isUdp tr ≤ cnt tr (w.nodes n) t.idx + 1) :
    ((markUnavail w n t tr o).1.nodes n).alive t.idx = false :=
  threshold_kills w n t tr o hs hc

/-- … and one below the threshold leaves the alive flag as it was. -/
theorem below_threshold_stays (w : World) (n : Nat) (t : Typ) (tr : Bool) (o : Oracle)
    (hc : cnt tr (w.nodes n) t.idx + 1 < threshold t.isUdp tr) :
    ((markUnavail w n t tr o).1.nodes n).alive t.idx = (w.nodes n).alive t.idx :=
  below_threshold_keeps w n t tr o hc

/-- **Exactness (histories).** From any state in which the slot is alive, not suppressed and its
counter of that source is 0 (e.g. right after a success): the slot is still alive after each of the
first k−1 consecutive counted failures and not alive after the k-th, k = 1/3 (transactional) resp.
10/50 (traffic) — not earlier, not later. -/
theorem kth_consecutive_failure_kills (w : World) (n : Nat) (t : Typ) (tr : Bool) (o : Oracle)
    (hs : w.suppressed = false) (ha : (w.nodes n).alive t.idx = true) (hc : cnt tr (w.nodes n) t.idx = 0) :
    (∀ j < threshold t.isUdp tr,
      ((run w (List.replicate j (failEvent n t tr o))).1.nodes n).alive t.idx = true) ∧
    ((run w (List.replicate (threshold t.isUdp tr) (failEvent n t tr o))).1.nodes n).alive t.idx = false := by
  constructor
  · intro j hj
    rw [(consecutive_below w n t tr o hs hc j hj).2.1]; exact ha
  · have hpos : 0 < threshold t.isUdp tr := by cases t.isUdp <;> cases tr <;> decide
    obtain ⟨k, hk⟩ : ∃ k, threshold t.isUdp tr = k + 1 := ⟨threshold t.isUdp tr - 1, by omega⟩
    rw [hk, run_replicate_succ, step_failEvent]
    obtain ⟨i1, _, i3⟩ := consecutive_below w n t tr o hs hc k (by omega)
    exact threshold_kills _ n t tr o i1 (by rw [i3]; omega)

example : ((run (run World.init [.node 0 1]).1 (List.replicate 9 (failEvent 0 .t4 true []))).1.nodes 0).alive 4 = true ∧
    ((run (run World.init [.node 0 1]).1 (List.replicate 10 (failEvent 0 .t4 true []))).1.nodes 0).alive 4 = false := by
  decide

example : threshold false false = 1 ∧ threshold true false = 3 ∧ threshold false true = 10 ∧ threshold true true = 50 := by
  decide

/-- A forced report kills the slot at once, whatever the counters and the suppression state. -/
theorem forced_report_kills_immediately (w : World) (n : Nat) (t : Typ) (o : Oracle) :
    ((step w (.forced n t o)).1.nodes n).alive t.idx = false := by
  simp [step, markForced_nodes, forced_alive_self]

/-- **Escalation.** When a counted failure makes `recordProxyFailure` report the threshold
(`escalates`), every network type of that node is down afterwards. -/
theorem escalation_takes_all_types_down (w : World) (n : Nat) (t : Typ) (tr : Bool) (o : Oracle)
    (hs : w.suppressed = false) (he : escalates w n t tr = true) (t' : Typ) :
    ((markUnavail w n t tr o).1.nodes n).alive t'.idx = false :=
  escalation_all_dead w n t tr o hs he t'

/-- **Escalation (histories).** An escalation of node `n` happens only at a counted, non-suppressed
failure of `n` that is itself a death transition, for a non-empty proxy address, and when the number of
death transitions recorded for that address since the last success of any node with that address (or
the reload reset) has reached `maxConsecutiveFailures` = 3. -/
theorem escalation_only_after_three_deaths (h : List Event) (e : Event) (n : Nat)
    (hesc : Out.escalate n ∈ (step (run World.init h).1 e).2) :
    (((run World.init h).1).nodes n).addr ≠ 0 ∧
    touchAddr (((run World.init h).1).nodes n).addr (run World.init h).1 e = .fail ∧
    maxConsecutiveFailures ≤ specAddr (((run World.init h).1).nodes n).addr World.init (h ++ [e]) 0 := by
  obtain ⟨t, tr, hc, hs, he⟩ := step_esc _ e n hesc
  have hinit : AddrInv (((run World.init h).1).nodes n).addr World.init 0 :=
    ⟨by simp [FailWF, fkeys, World.init], by simp [World.init, failLookup_nil]⟩
  have hwf0 : FailWF (run World.init h).1 := by
    have : AddrInv 1 World.init 0 := ⟨by simp [FailWF, fkeys, World.init], by simp [World.init, failLookup_nil]⟩
    exact (addrInv_run 1 (by decide) h World.init 0 this).1
  obtain ⟨s1, s2, s3, s4⟩ := escalates_spec _ n t tr hwf0 he
  have hinv := addrInv_run _ s3 h World.init 0 hinit
  have hd : diesBy (run World.init h).1 n t tr = true := by simp [diesBy, hs, s1, s2]
  have ht := touchAddr_of_counted _ n t tr e hc hd
  refine ⟨s3, ht, ?_⟩
  rw [specAddr_append, ht]
  simp only [Touch.next]
  have := hinv.2
  omega

/-- three TCP deaths of nodes sharing address 1: the third escalates and takes node 1 down everywhere -/
example :
    let h : List Event := [.node 0 1, .node 1 1, .probe 0 .t4 .err .err [], .probe 0 .t6 .err .err []]
    let e : Event := .probe 1 .t4 .err .err []
    Out.escalate 1 ∈ (step (run World.init h).1 e).2 ∧
      ([2, 3, 4, 5, 6, 7].all fun i => !((step (run World.init h).1 e).1.nodes 1).alive i) = true := by
  decide

/-! ## successes -/

/-- Any successful probe makes the slot alive and clears both counters. -/
theorem success_revives_and_clears (w : World) (n : Nat) (t : Typ) (a1 a2 : Attempt) (o : Oracle) (l : Nat)
    (h : probeOutcome a1 a2 = .success l) :
    ((step w (.probe n t a1 a2 o)).1.nodes n).alive t.idx = true ∧
    ((step w (.probe n t a1 a2 o)).1.nodes n).fail t.idx = 0 ∧
    ((step w (.probe n t a1 a2 o)).1.nodes n).tfail t.idx = 0 := by
  simp [step, h, markAvail_nodes, Node.avail]

example : probeOutcome (.ok 7) .err = .success 7 ∧ probeOutcome .err (.ok 7) = .success 7 := by decide

/-- For data UDP, successful traffic makes a dead slot alive again and clears both counters. -/
theorem data_udp_traffic_revives (w : World) (n : Nat) (t : Typ) (o : Oracle) (hd : t.isData = true) :
    ((step w (.tok n t o)).1.nodes n).alive t.idx = true ∧
    ((step w (.tok n t o)).1.nodes n).tfail t.idx = 0 ∧
    ((w.nodes n).alive t.idx = false → ((step w (.tok n t o)).1.nodes n).fail t.idx = 0) := by
  simp only [step, trafficOk_nodes, hd, Bool.true_and]
  cases ha : (w.nodes n).alive t.idx <;> simp [Node.avail, Node.clearTraffic, ha]

/-- For every network type successful traffic clears the traffic counter (and, outside data UDP, never
changes the alive flag). -/
theorem traffic_success_clears_traffic_count (w : World) (n : Nat) (t : Typ) (o : Oracle) :
    ((step w (.tok n t o)).1.nodes n).tfail t.idx = 0 ∧
    (t.isData = false → ((step w (.tok n t o)).1.nodes n).alive t.idx = (w.nodes n).alive t.idx) := by
  simp only [step, trafficOk_nodes]
  cases hd : t.isData <;> cases ha : (w.nodes n).alive t.idx <;> simp [Node.avail, Node.clearTraffic, ha]

/-! ## errors that never count -/

/-- Reports whose error is a cancellation / closed-connection error change nothing. -/
theorem ignorable_never_counts (w : World) (n : Nat) (t : Typ) (o : Oracle) :
    step w (.txn n t true o) = (w, []) ∧ step w (.tfail n t true o) = (w, []) := ⟨rfl, rfl⟩

/-- A probe that ends in `context.Canceled` (on either attempt) or finds no applicable address changes nothing. -/
theorem canceled_probe_never_counts (w : World) (n : Nat) (t : Typ) (a1 a2 : Attempt) (o : Oracle)
    (h : probeOutcome a1 a2 = .nothing) : step w (.probe n t a1 a2 o) = (w, []) := by
  simp [step, h]

example : probeOutcome .canceled .err = .nothing ∧ probeOutcome .err .canceled = .nothing ∧
    probeOutcome .skip .err = .nothing ∧ probeOutcome .err .skip = .nothing ∧ probeOutcome .err .err = .failure := by
  decide

/-! ## reload suppression -/

/-- While reload suppression is in force, non-forced failures of every source change nothing. -/
theorem suppressed_failures_dont_count (w : World) (n : Nat) (t : Typ) (a1 a2 : Attempt) (o : Oracle)
    (hs : w.suppressed = true) (hp : probeOutcome a1 a2 = .failure) :
    step w (.probe n t a1 a2 o) = (w, []) ∧ step w (.txn n t false o) = (w, []) ∧
    step w (.tfail n t false o) = (w, []) := by
  simp [step, hp, markUnavail_suppressed w n t _ o hs]

/-- Suppression is in force exactly while a begin is outstanding or within `quiesce` (20 s) after the
last matching end. -/
theorem suppression_window (w : World) :
    w.suppressed = true ↔ (0 < w.supCount ∨ w.now < w.supUntil) := by
  simp [World.suppressed]

/-- How the window arises: a begin adds one outstanding scope; the end that brings the count to zero
arms the quiesce deadline `now + cfg.quiesce` (20 s in the current source; read from the real code at run time); other ends only decrement; time never shortens the deadline. -/
theorem suppression_steps (w : World) :
    (step w .sbegin).1.supCount = w.supCount + 1 ∧ (step w .sbegin).1.supUntil = w.supUntil ∧
    (w.supCount = 1 → (step w .send).1.supCount = 0 ∧ (step w .send).1.supUntil = w.now + w.cfg.quiesce) ∧
    (w.supCount = 0 → step w .send = (w, [])) ∧
    (w.supCount > 1 → (step w .send).1.supCount = w.supCount - 1 ∧ (step w .send).1.supUntil = w.supUntil) ∧
    (∀ d, (step w (.tick d)).1.supCount = w.supCount ∧ (step w (.tick d)).1.supUntil = w.supUntil ∧
      (step w (.tick d)).1.now = w.now + d) := by
  refine ⟨rfl, rfl, ?_, ?_, ?_, fun d => ⟨rfl, rfl, rfl⟩⟩
  · intro h; simp [step, h]
  · intro h; simp [step, h]
  · intro h
    have h0 : w.supCount ≠ 0 := by omega
    have h1 : w.supCount ≠ 1 := by omega
    simp [step, h0, h1]

example :
    let w1 := (run World.init [.sbegin, .send, .tick (quiesce - 1)]).1
    let w2 := (run World.init [.sbegin, .send, .tick quiesce]).1
    w1.suppressed = true ∧ w2.suppressed = false := by decide

/-! ## transition callbacks -/

/-- **Edges only.** For every state, every event (other than creating node `n` itself) and every slot
`(n, i)`: the alive values handed to the transition callback for that slot during the event, replayed
from the slot's flag before the event, flip the flag each time and end at the flag after the event —
one callback per actual transition, none without one. -/
theorem callbacks_on_edges_only (w : World) (e : Event) (n i : Nat) (hne : ∀ a, e ≠ .node n a) :
    replay ((w.nodes n).alive i) (transOf n i (step w e).2) = some (((step w e).1.nodes n).alive i) :=
  step_edges n i w e hne

/-- The same along whole histories. -/
theorem callbacks_on_edges_only_history (w : World) (es : List Event) (n i : Nat)
    (hne : ∀ e ∈ es, ∀ a, e ≠ .node n a) :
    replay ((w.nodes n).alive i) (transOf n i (run w es).2) = some (((run w es).1.nodes n).alive i) :=
  run_edges n i es w hne

/-- kill, revive, kill again: three callbacks, alternating -/
example :
    let w := (run World.init [.node 0 0]).1
    let es : List Event := [.forced 0 .u4 [], .forced 0 .u4 [], .tok 0 .u4 [], .tok 0 .u4 [], .forced 0 .x4 []]
    transOf 0 6 (run w es).2 = [false, true, false] := by decide

/-! ## groups -/

/-- **Group agreement.** After any history from the initial state (any latency inputs), every registered
set of every group lists a member node exactly when that node is alive for the set's network type,
and its entries are duplicate-free. -/
theorem groups_see_state (h : List Event) :
    ∀ s ∈ (run World.init h).1.sets, (keys s.entries).Nodup ∧
      (s.active = true → ∀ m ∈ s.members, (m ∈ keys s.entries ↔ ((run World.init h).1.nodes m).alive s.idx = true)) := by
  have := run_inv h World.init inv_init
  intro s hs
  refine ⟨this.1 s hs, fun hact m hm => ?_⟩
  rcases this.2 s hs hact m hm with h1 | h1
  · exact absurd h1 id
  · exact h1

example :
    let h : List Event := [.node 0 0, .node 1 0, .group 0 2 .minLast 0 [(0, 0), (1, 0)] [], .group 1 3 .random 0 [(1, 0)] [],
      .forced 1 .t4 []]
    ((run World.init h).1.sets.map fun s => (s.gid, s.idx, keys s.entries)) =
      [(0, 2, [0, 1]), (0, 3, [0, 1]), (0, 4, [0]), (0, 5, [0, 1]), (0, 6, [0, 1]), (0, 7, [0, 1]),
       (1, 2, [1]), (1, 3, [1]), (1, 4, []), (1, 5, [1]), (1, 6, [1]), (1, 7, [1])] := by decide

/-! ## concurrent reports (interleaving model of fix 13e43e7) -/

/-- **Quiescence.** Any number of concurrent reports on one node, any interleaving of their stores and
notifications, any values: under the fixed protocol (a notification delivers the node's CURRENT flag),
whenever no report is between its store and its notification the set agrees with the node. -/
theorem concurrent_reports_agree_at_quiescence (b : Bool) (schedule : List RAct)
    (hq : (rrun true (RState.init b) schedule).pending = []) :
    (rrun true (RState.init b) schedule).set = (rrun true (RState.init b) schedule).node := by
  have := rrun_inv schedule (RState.init b) (by intro h; exact absurd rfl h)
  cases hs : (rrun true (RState.init b) schedule).set <;> cases hn : (rrun true (RState.init b) schedule).node <;>
    simp_all

/-- The old protocol (deliver the value captured at the store) is wrong: report 1 revives, report 2
kills, the notifications arrive in the other order — at quiescence the set lists a dead node. -/
theorem captured_value_protocol_can_disagree :
    ∃ schedule : List RAct, (rrun false (RState.init false) schedule).pending = [] ∧
      (rrun false (RState.init false) schedule).set ≠ (rrun false (RState.init false) schedule).node :=
  ⟨[.store 1 true, .store 2 false, .deliver 2, .deliver 1], by decide, by decide⟩

example : (rrun true (RState.init false) [.store 1 true, .store 2 false, .deliver 2, .deliver 1]).set = false := by
  decide

/-! ## kernel connectivity bit -/

/-- One notification of a latency-policy set satisfying the set invariant, for ANY latency value: the
group callbacks fired are exactly the edges of "the set is non-empty". -/
theorem group_callbacks_are_edges (s : ASet) (d : Nat) (a : Bool) (lat : Option Int) (h : SetInv s)
    (hmp : s.minPolicy = true) :
    replay (!s.entries.isEmpty) (s.notify d a lat).2 = some (!(s.notify d a lat).1.entries.isEmpty) :=
  notify_replay s d a lat h hmp

/-- A random-policy set never fires the group callback (its kernel bit keeps the init value). -/
theorem random_policy_never_writes (s : ASet) (d : Nat) (a : Bool) (lat : Option Int) (h : s.minPolicy = false) :
    (s.notify d a lat).2 = [] :=
  notify_nonmin_silent s d a lat h

/-- **Kernel bit.** After any history from the initial state, with any latency inputs, offsets and
tolerances, every set satisfies the set invariant and every latency-policy set satisfies: non-empty ⇒
the value last handed to the group callback (the kernel connectivity bit) is 1 and a best node is
selected; empty ⇒ the bit last written is 0 (or no callback has fired since the group's init
callbacks, which write 1 unconditionally). -/
theorem kernel_bit (h : List Event) :
    ∀ s ∈ (run World.init h).1.sets, SetInv s ∧ (s.minPolicy = true →
      (s.entries ≠ [] → s.kbit = true ∧ s.minD.isSome = true) ∧ (s.entries = [] → s.kbit = false ∨ s.ncb = 0)) := by
  have := run_good h World.init (by intro s hs; simp [World.init] at hs)
  intro s hs
  refine ⟨this s hs, fun hmp => ⟨fun hne => ⟨((this s hs).bit hmp).1 hne, ?_⟩, ((this s hs).bit hmp).2⟩⟩
  cases hm : s.minD with
  | some _ => rfl
  | none => exact absurd (((this s hs).sel hmp).mp hm) hne

/-- all members die (bit 0), one revives by traffic without any latency (bit 1 again — finding #13) -/
example :
    let h : List Event := [.node 0 0, .node 1 0, .group 0 2 .minLast 0 [(0, 0), (1, 0)] [],
      .forced 0 .u4 [], .forced 1 .u4 [], .tok 1 .u4 []]
    ((run World.init (h.take 5)).1.sets.map fun s => (s.idx, s.kbit)) =
      [(2, true), (3, true), (4, true), (5, true), (6, false), (7, true)] ∧
    ((run World.init h).1.sets.map fun s => (s.idx, s.kbit, keys s.entries)) =
      [(2, true, [0, 1]), (3, true, [0, 1]), (4, true, [0, 1]), (5, true, [0, 1]), (6, true, [1]), (7, true, [0, 1])] := by
  decide

/-- a node reviving with a sorting latency above one hour is selected too (hour sentinel, fixed by addc261) -/
example :
    let h : List Event := [.node 0 0, .group 0 2 .minLast 0 [(0, 0)] [], .forced 0 .t4 [],
      .probe 0 .t4 (.ok 0) .err [((0, 4, 0), hour + 1)]]
    ((run World.init h).1.sets.map fun s => (s.idx, s.kbit, s.minD)) =
      [(2, true, some 0), (3, true, some 0), (4, true, some 0), (5, true, some 0), (6, true, some 0), (7, true, some 0)] := by
  decide

/-- Distinct (outbound, network type) pairs write distinct keys of `outbound_connectivity_map`, inside
the six slots of their outbound. -/
theorem kernel_key_injective (ob ob' i i' : Nat) (hi : 2 ≤ i ∧ i ≤ 7) (hi' : 2 ≤ i' ∧ i' ≤ 7)
    (h : kernelKey ob i = kernelKey ob' i') : ob = ob' ∧ i = i' :=
  kernelKey_inj ob ob' i i' hi hi' h

theorem kernel_key_slots (ob i : Nat) (hi : 2 ≤ i ∧ i ≤ 7) : ob * 6 ≤ kernelKey ob i ∧ kernelKey ob i < ob * 6 + 6 :=
  kernelKey_range ob i hi

example : (standardTyps.map fun t => kernelKey 2 t.idx) = [14, 15, 12, 13, 16, 17] := by decide

/-- The closure built by `outboundAliveChangeCallback` writes nothing once its core is closed or retired
(a drained generation cannot clobber its successor's bits), and in dry-run mode (`dial_mode` other than
`ip`) only the init callbacks write; otherwise it writes `kernelWrite`. -/
theorem kernel_callback_guards (closed retired dryrun : Bool) (ob i : Nat) (alive isInit : Bool) :
    kernelCallback closed retired dryrun ob i alive isInit =
      if closed = true ∨ retired = true ∨ (isInit = false ∧ dryrun = true) then none
      else some (kernelWrite ob i alive) := by
  cases closed <;> cases retired <;> cases dryrun <;> cases isInit <;> simp [kernelCallback, kernelWrite]

example : kernelCallback false false true 2 4 false true = some (12, 0) ∧
    kernelCallback false false true 2 4 false false = none ∧ kernelCallback false true false 2 4 true true = none := by
  decide

/-! ## the kernel map shared by generations (`KWorld`: one BPF map, one core per generation) -/

/-- A slot of `outbound_connectivity_map` changes in a step only if a group callback of that step really
wrote it: a wired group whose core is neither retired nor closed, and not a dry-run non-init callback.
In particular a retired (drained) generation can never clobber its successor's bits. -/
theorem kernel_map_changed_only_by_live_report (kw : KWorld) (e : Event) (key : Nat)
    (h : ∀ x ∈ (step kw.w e).2, ¬ ∃ v, LiveWrite { kw with w := (step kw.w e).1 } x key v) :
    (kstep kw (.base e)).kmap key = kw.kmap key :=
  applyOuts_unchanged _ _ key h

/-- Wiring a group and retiring / closing a core write nothing. -/
theorem kernel_map_untouched_by_wiring_and_retirement (kw : KWorld) (g c ob : Nat) (d : Bool) :
    (kstep kw (.wire g c ob d)).kmap = kw.kmap ∧ (kstep kw (.silence c)).kmap = kw.kmap := by
  refine ⟨?_, rfl⟩
  simp only [kstep]; split <;> rfl

/-- Step level: after a step, a slot holds the value of the LAST live report to it in that step, whichever
generation sent earlier ones (the history-level statement is `kernel_map_follows_newest_live_group`). -/
theorem kernel_map_is_last_live_report_in_step (kw : KWorld) (e : Event) (pre post : List Out) (x : Out)
    (key v : Nat) (hs : (step kw.w e).2 = pre ++ x :: post)
    (hx : LiveWrite { kw with w := (step kw.w e).1 } x key v)
    (hpost : ∀ y ∈ post, ¬ ∃ v', LiveWrite { kw with w := (step kw.w e).1 } y key v') :
    (kstep kw (.base e)).kmap key = v := by
  simp only [kstep, hs]
  exact applyOuts_last pre post x _ key v hx hpost

/-- **The shared map across steps and generations.** After ANY history of health events, group constructions,
wirings (`core.outboundAliveChangeCallback(ob, dryrun)` handed to a new group) and retirements / closings of cores,
with any latency inputs: if the group that wrote slot `(ob, network type)` last is a group whose core is neither
retired nor closed and that reports non-init callbacks (`dial_mode: ip`), the slot holds the value last handed to
that group's callback for that network type — for a latency policy: 1 if the group's alive set of that type is
non-empty, 0 if it is empty (or still the unconditional 1 of the init callbacks when no callback has fired since).
A retired generation's later transitions, or writes of groups on other outbound ids, never disturb this. -/
theorem kernel_map_follows_newest_live_group (h : List KEvent) :
    ∀ s ∈ (krun KWorld.init h).w.sets, ∀ k, (krun KWorld.init h).wiring s.gid = some k → k.dryrun = false →
      (krun KWorld.init h).silenced k.core = false →
      (krun KWorld.init h).lastWriter (kernelKey k.ob s.idx) = some s.gid →
      (krun KWorld.init h).kmap (kernelKey k.ob s.idx) = (if s.kbit then 1 else 0) ∧
      (s.minPolicy = true →
        (s.entries ≠ [] → (krun KWorld.init h).kmap (kernelKey k.ob s.idx) = 1) ∧
        (s.entries = [] → (krun KWorld.init h).kmap (kernelKey k.ob s.idx) = 0 ∨ s.ncb = 0)) := by
  intro s hs k hw hd hsil hlw
  have hinv := krun_inv h KWorld.init kinv_init
  have hmap := hinv.agree s hs k hw hd hsil hlw
  refine ⟨hmap, fun hmp => ?_⟩
  have hgood : GoodSet s := by
    have := run_good (baseOf h) World.init (by intro s hs; simp [World.init] at hs)
    rw [krun_w] at hs
    exact this s hs
  rw [hmap]
  refine ⟨fun hne => ?_, fun he => ?_⟩
  · rw [((hgood.bit hmp).1 hne)]; rfl
  · rcases (hgood.bit hmp).2 he with hb | hn
    · left; rw [hb]; rfl
    · right; exact hn

/-- which group wrote a slot last: the group of the last live report of the step, else as before -/
theorem kernel_map_last_writer (kw : KWorld) (e : Event) (key : Nat) :
    (kstep kw (.base e)).lastWriter key =
      (((writesTo { kw with w := (step kw.w e).1 } key (step kw.w e).2).getLast?.map fun p => some p.2).getD
        (kw.lastWriter key)) :=
  (applyOuts_writes (step kw.w e).2 { kw with w := (step kw.w e).1 } key).2

set_option maxRecDepth 8000 in
/-- two generations on outbound id 5: the old group (core 0) goes empty and writes 0; after `MarkRetired`
of core 0 the revival of the old node no longer reaches the map, the new group's report does -/
example :
    let h : List KEvent := [.base (.node 0 0), .wire 0 0 5 false, .base (.group 0 5 .minLast 0 [(0, 0)] []),
      .base (.node 1 0), .wire 1 1 5 false, .base (.group 1 5 .minLast 0 [(1, 0)] []),
      .base (.forced 0 .t4 []), .silence 0, .base (.tok 0 .u4 []), .base (.probe 0 .t4 (.ok 1) .err [])]
    (krun KWorld.init (h.take 7)).kmap (kernelKey 5 4) = 0 ∧ (krun KWorld.init h).kmap (kernelKey 5 4) = 0 ∧
    (krun KWorld.init (h ++ [.base (.forced 1 .t4 []), .base (.probe 1 .t4 (.ok 1) .err [])])).kmap (kernelKey 5 4) = 1 ∧
    -- the hypotheses of `kernel_map_follows_newest_live_group` hold for the new generation's TCP4 set at the end
    (krun KWorld.init (h ++ [.base (.forced 1 .t4 []), .base (.probe 1 .t4 (.ok 1) .err [])])).lastWriter (kernelKey 5 4) = some 1 ∧
    (krun KWorld.init (h.take 9)).lastWriter (kernelKey 5 4) = some 0 := by
  decide

/-! ## reload -/

/-- `ReloadHealthSnapshot` keeps availability and drops both counters. -/
theorem reload_snapshot_drops_counters (nd : Node) (i : Nat) :
    (reloadSnapshot nd).alive i = nd.alive (canon i) ∧ (reloadSnapshot nd).fail i = 0 ∧ (reloadSnapshot nd).tfail i = 0 :=
  ⟨rfl, rfl, rfl⟩

/-- **Hand-over.** After `n.RestoreHealthSnapshot(m.ReloadHealthSnapshot())` node `n` has `m`'s alive flag
for every collection and all sixteen counters at zero. -/
theorem reload_hands_over_state (w : World) (n m : Nat) (o : Oracle) (i : Nat) (hi : i < 8) :
    ((step w (.inherit n m o)).1.nodes n).alive (canon i) = (w.nodes m).alive (canon i) ∧
    ((step w (.inherit n m o)).1.nodes n).fail i = 0 ∧ ((step w (.inherit n m o)).1.nodes n).tfail i = 0 :=
  inherit_nodes w n m o i hi

/-- **Floor.** In a world whose sets satisfy the invariant, after `EnsureReloadSelectionFloor` on group
`g`: for each of the six standard network types whose set is registered, has members and whose
fallback candidate (if any) is a member, the set is non-empty — and, for a latency policy, has a
selected best node (`GetMinLatency` returns it). -/
theorem reload_floor_leaves_selectable (w : World) (g : Nat) (fb : Nat → Option Nat) (o : Oracle)
    (hgood : ∀ s ∈ w.sets, SetInv s)
    (hready : ∀ t ∈ standardTyps, ∀ s, findSet w.sets g t.idx = some s →
      s.active = true ∧ s.members ≠ [] ∧ ∀ c, fb t.idx = some c → c ∈ s.members) :
    ∀ t ∈ standardTyps, ∀ s, findSet (step w (.floor g fb o)).1.sets g t.idx = some s →
      s.entries ≠ [] ∧ (s.minPolicy = true → s.minD.isSome = true) := by
  intro t ht s hs
  have hnd : SetsAll NodupSet w := fun s hs => (hgood s hs).nodup
  have h1 := (floorFrom_props g fb o standardTyps w hnd hready).2 t ht s hs
  have h2 := floorFrom_pres GoodSet o (goodSet_stable o) standardTyps w g fb hgood s (findSet_mem _ _ _ _ hs).1
  refine ⟨h1, fun hmp => ?_⟩
  have := (h2.sel hmp)
  cases hm : s.minD with
  | some _ => rfl
  | none => exact absurd (this.mp hm) h1

/-- **Whole hand-over.** After any history, `ControlPlane.InheritDialerHealthFrom` (all fallbacks
captured, every matched dialer of every group restored, then every group floored — nodes may be shared
by any number of groups) leaves every group of the new generation whose sets are registered, have
members and whose fallback candidates are members with all six sets non-empty and, for a latency
policy, a selected best node: every non-empty group keeps at least one selectable node per type. -/
theorem reload_leaves_every_group_selectable (h : List Event) (gs : List ReloadGroup) (o : Oracle) :
    ∀ G ∈ gs,
      (∀ t ∈ standardTyps, ∀ s, findSet (run World.init h).1.sets G.g t.idx = some s →
        s.active = true ∧ s.members ≠ [] ∧ ∀ c, G.fb t.idx = some c → c ∈ s.members) →
      ∀ t ∈ standardTyps, ∀ s, findSet (step (run World.init h).1 (.reload gs o)).1.sets G.g t.idx = some s →
        s.entries ≠ [] ∧ (s.minPolicy = true → s.minD.isSome = true) := by
  intro G hG hr t ht s hs
  have hgood := run_good h World.init (by intro s hs; simp [World.init] at hs)
  have hnd : SetsAll NodupSet (run World.init h).1 := fun s hs => (hgood s hs).nodup
  have h1 := reload_all_done (run World.init h).1 gs o hnd G hG hr t ht s hs
  have h2 := reload_pres GoodSet o (goodSet_stable o) (run World.init h).1 gs hgood s (findSet_mem _ _ _ _ hs).1
  refine ⟨h1, fun hmp => ?_⟩
  cases hm : s.minD with
  | some _ => rfl
  | none => exact absurd ((h2.sel hmp).mp hm) h1

/-- **Selectable, literally.** Under the hypotheses of `reload_leaves_every_group_selectable`, every latency-policy
group answers a selection (`_select` / `GetMinLatency`) for each of the six standard network types with a node
listed in that very set after the hand-over — it does not even need the data-UDP fallback chain or the other IP
family. -/
theorem reload_leaves_every_group_selectable_by_select (h : List Event) (gs : List ReloadGroup) (o : Oracle) :
    ∀ G ∈ gs,
      (∀ t ∈ standardTyps, ∀ s, findSet (run World.init h).1.sets G.g t.idx = some s →
        s.active = true ∧ s.members ≠ [] ∧ ∀ c, G.fb t.idx = some c → c ∈ s.members) →
      ∀ t ∈ standardTyps, ∀ s, findSet (step (run World.init h).1 (.reload gs o)).1.sets G.g t.idx = some s →
        s.minPolicy = true →
        ∃ c, selectMin (step (run World.init h).1 (.reload gs o)).1 G.g t.idx = some c ∧ c ∈ keys s.entries := by
  intro G hG hr t ht s hs hmp
  have hgood := run_good h World.init (by intro s hs; simp [World.init] at hs)
  have hnd : SetsAll NodupSet (run World.init h).1 := fun s hs => (hgood s hs).nodup
  have h1 := reload_all_done (run World.init h).1 gs o hnd G hG hr t ht s hs
  have h2 : SetInv s := reload_pres GoodSet o (goodSet_stable o) (run World.init h).1 gs hgood s (findSet_mem _ _ _ _ hs).1
  have hb := (best_some_iff s h2 hmp).mpr h1
  obtain ⟨c, hc⟩ := Option.isSome_iff_exists.mp hb
  exact ⟨c, selectMin_head _ G.g t.idx s hs c hc, best_mem s h2 c hc⟩

/-- **What a group captures as its fallback.** After any history, the candidate `CaptureReloadSelectionFallback` of a
latency-policy group records for a network type is a node currently listed in one of that group's alive sets: the
set of that type, for data UDP else DNS UDP else TCP of the same family, else the same chain in the other family —
and nothing when all of those are empty. -/
theorem captured_fallback_is_listed (h : List Event) (g i c : Nat)
    (hc : captureFallback (run World.init h).1 g i = some c) :
    ∃ j ∈ selChain i ++ selChain (otherFamily i), ∃ s,
      findSet (run World.init h).1.sets g j = some s ∧ c ∈ keys s.entries := by
  have hgood := run_good h World.init (by intro s hs; simp [World.init] at hs)
  unfold captureFallback at hc
  split at hc
  · unfold captureOne at hc
    cases h1 : selectMin (run World.init h).1 g i with
    | some d =>
      rw [h1] at hc; cases hc
      obtain ⟨j, hj, s, e1, e2⟩ := selectMin_listed _ hgood g i c h1
      exact ⟨j, List.mem_append_left _ hj, s, e1, e2⟩
    | none =>
      rw [h1] at hc
      obtain ⟨j, hj, s, e1, e2⟩ := selectMin_listed _ hgood g _ c hc
      exact ⟨j, List.mem_append_right _ hj, s, e1, e2⟩
  · cases hc

/-- node 0 dead on data-UDP/4 and DNS-UDP/4: data-UDP/4 falls back to TCP/4's choice (node 0 itself); with TCP/4 dead
too, to the other family; a group whose only member is dead everywhere captures nothing -/
example :
    let w := (run World.init [.node 0 0, .node 1 0, .group 0 2 .minLast 0 [(0, 0), (1, 0)] [], .forced 1 .u4 [], .forced 1 .d4 [],
      .forced 0 .u4 [], .forced 0 .d4 [], .forced 0 .t4 []]).1
    captureFallback w 0 6 = some 1 ∧ captureFallback w 0 2 = some 0 ∧
    captureFallback (step w (.forced 1 .t4 [])).1 0 6 = some 0 ∧ captureFallback w 0 1 = none ∧
    captureFallback (run World.init [.node 0 0, .group 0 2 .minLast 0 [(0, 0)] [], .forced 0 .t4 [], .forced 0 .t6 []]).1 0 4 = none := by
  decide

set_option maxRecDepth 8000 in
/-- old generation: nodes 0 (D), 1 (F) dead on TCP4, node 2 (E) alive; new generation 3 (D), 4 (F), 5 (E),
groups g0 = [D, F] and g1 = [E, D, F] sharing D and F.  The hand-over keeps g0 selectable … -/
example :
    let h : List Event := [.node 0 0, .node 1 0, .node 2 0, .forced 0 .t4 [], .forced 1 .t4 [],
      .node 3 0, .node 4 0, .node 5 0,
      .group 0 2 .minLast 0 [(3, 0), (4, 0)] [], .group 1 3 .minLast 0 [(5, 0), (3, 0), (4, 0)] []]
    let gs : List ReloadGroup := [⟨0, fun _ => none, [(3, 0), (4, 1)]⟩, ⟨1, fun _ => none, [(5, 2), (3, 0), (4, 1)]⟩]
    ((findSet (step (run World.init h).1 (.reload gs [])).1.sets 0 4).map fun s => (s.active, keys s.entries, s.kbit)) =
      some (true, [3], true) := by decide

set_option maxRecDepth 8000 in
/-- … whereas the order used before the fix (restore and floor group by group) does not: g1's restore
re-applies D's dead snapshot after g0's floor had revived D, and g1 (E alive) needs no floor itself. -/
theorem reload_old_order_leaves_group_empty :
    ∃ (h : List Event) (gs : List ReloadGroup) (s : ASet),
      findSet (reloadOld gs (run World.init h).1 []).1.sets 0 4 = some s ∧
      s.active = true ∧ s.members ≠ [] ∧ s.entries = [] ∧ s.kbit = false :=
  ⟨[.node 0 0, .node 1 0, .node 2 0, .forced 0 .t4 [], .forced 1 .t4 [],
      .node 3 0, .node 4 0, .node 5 0,
      .group 0 2 .minLast 0 [(3, 0), (4, 0)] [], .group 1 3 .minLast 0 [(5, 0), (3, 0), (4, 0)] []],
    [⟨0, fun _ => none, [(3, 0), (4, 1)]⟩, ⟨1, fun _ => none, [(5, 2), (3, 0), (4, 1)]⟩],
    _, rfl, by decide, by decide, by decide, by decide⟩

/-- **Matching is per group, by name, one-to-one.** The (new node, old node) pairs the hand-over restores
for a new group `G` are taken only from an old group with `G`'s name and only between members of the
same node name (never a same-named dialer of another group), and no old member is the source of two
members of `G` (same-named members do not inherit each other's state). -/
theorem handover_matches_per_group (olds news : List GenGroup) (fb : Nat → Nat → Option Nat) :
    ∀ R ∈ reloadGroupsOf olds news fb, ∃ G ∈ news, R.g = G.gid ∧ (R.pairs.map Prod.snd).Nodup ∧ ∀ p ∈ R.pairs,
      ∃ og ∈ olds, og.gname = G.gname ∧ ∃ nm ∈ G.members, nm.1 = p.1 ∧ ∃ m ∈ og.members, m.1 = p.2 ∧ m.2.1 = nm.2.1 := by
  intro R hR
  simp only [reloadGroupsOf, List.mem_map] at hR
  obtain ⟨G, hG, rfl⟩ := hR
  exact ⟨G, hG, rfl, matchGroup_injective olds G, fun p hp => matchGroup_sound olds G p hp⟩

/-- same-named members are matched by link: old group [HK(link 1) , HK(link 2)], new group [HK(link 2), HK(link 1)]
(order swapped by map iteration) -> each new node inherits from the old node with ITS link; a third HK with an
unknown link inherits nothing; a name that is unique in the old group still matches although the link changed -/
example :
    matchGroup [⟨0, 1, [(0, 7, 1), (1, 7, 2)]⟩] ⟨9, 1, [(5, 7, 2), (6, 7, 1), (8, 7, 3)]⟩ = [(5, 1), (6, 0)] ∧
    matchGroup [⟨0, 1, [(0, 7, 1), (1, 8, 2)]⟩] ⟨9, 1, [(5, 7, 9)]⟩ = [(5, 0)] := by decide

/-- A node of the new generation that is matched in no group (its name is absent from every namesake
old group) comes out of the restore pass exactly as it went in, and the whole hand-over never declares
it not alive. -/
theorem handover_unmatched_node_untouched (w : World) (gs : List ReloadGroup) (o : Oracle) (n : Nat)
    (hn : ∀ G ∈ gs, ∀ p ∈ G.pairs, p.1 ≠ n) :
    (restoreGroups gs w o).1.nodes n = w.nodes n ∧
    ∀ i, (w.nodes n).alive i = true → ((step w (.reload gs o)).1.nodes n).alive i = true := by
  refine ⟨restoreGroups_nodes_other o n gs w hn, fun i ha => ?_⟩
  simp only [step, reload]
  exact floorGroups_alive_mono o n i gs _ (restoreGroups_alive_mono o n i gs w hn ha)

/-- old group 1 has a dead node named 7 (object 0); old group 2 has no node of that name.  New group 2
gets a fresh node (object 5) named 7: it is matched with nothing, although the name exists elsewhere. -/
example :
    matchGroup [⟨0, 1, [(0, 7, 0)]⟩, ⟨0, 2, [(1, 8, 1)]⟩] ⟨9, 2, [(5, 7, 5), (6, 8, 1)]⟩ = [(6, 1)] ∧
    matchGroup [⟨0, 1, [(0, 7, 0)]⟩, ⟨0, 2, [(1, 8, 1)]⟩] ⟨9, 1, [(5, 7, 0)]⟩ = [(5, 0)] ∧
    matchGroup [⟨0, 1, [(0, 7, 0)]⟩] ⟨9, 3, [(5, 7, 0)]⟩ = [] := by decide

/-- a new generation inherits an all-dead TCP4 state; the floor revives the first member -/
example :
    let h : List Event := [.node 0 0, .node 1 0, .forced 0 .t4 [], .forced 1 .t4 [],
      .node 2 0, .node 3 0, .group 0 2 .minAvg 0 [(2, 0), (3, 0)] [], .inherit 2 0 [], .inherit 3 1 []]
    let w := (run World.init h).1
    ((findSet w.sets 0 4).map fun s => (keys s.entries, s.kbit)) = some ([], false) ∧
    ((findSet (step w (.floor 0 (fun _ => none) [])).1.sets 0 4).map fun s => (keys s.entries, s.kbit, s.minD)) =
      some ([2], true, some 2) := by decide

end DaeVerif.C16.Props
