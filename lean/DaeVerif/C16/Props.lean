import DaeVerif.C16.Proofs
/-! # C16 — property theorems (work in progress) -/
namespace DaeVerif.C16.Props
open DaeVerif.C16

/-- Ignorable (cancellation / teardown) errors never count. -/
theorem ignorable_never_counts (w : World) (n : Nat) (t : Typ) (o : Oracle) :
    step w (.txn n t true o) = (w, []) ∧ step w (.tfail n t true o) = (w, []) := ⟨rfl, rfl⟩

end DaeVerif.C16.Props
