/-!
# C16 — node health: thresholds, edge-triggered callbacks, group agreement, kernel bit, reload

Executable model (core Lean only) of

* `component/outbound/dialer/connectivity_check.go`: `check` (attempt loop), `markUnavailableInternal`,
  `markAvailable`, `markAvailableTraffic`, `ReportUnavailable{,Transactional,Forced}`,
  `ReportAvailableTraffic`, `informDialerGroupUpdate`;
* `component/outbound/dialer/dialer.go`: `NotifyHealthCheckResult` (proxy-address escalation),
  `markUnavailableFromProxyFailure`, `ReloadHealthSnapshot`, `RestoreHealthSnapshot`,
  `MarkAliveForReloadFallback`, `notifyAliveTransition`;
* `component/outbound/dialer/sticky_cache.go`: `recordProxyFailure/Success`, the reload suppression
  counter and quiesce window, the failure-entry TTL sweep;
* `component/outbound/dialer/alive_dialer_set.go`: `NotifyLatencyChange`, `calcMinLatency`
  (as far as membership, the selected best node and the alive callback are concerned);
* `component/outbound/dialer_group.go`: `NewDialerGroup` (set construction + init callbacks),
  `Close`, `EnsureReloadSelectionFloor`;
* `control/connectivity.go`: `outboundConnectivityMapKey` and the value written by
  `outboundAliveChangeCallback`.

Time is a natural number of nanoseconds since the start of a scenario.  Latencies are `Int`
nanoseconds (Go `time.Duration` is a signed 64 bit integer; overflow is not modelled).
The latency a set reads from a node when it is notified (`snapshotLatencyForPolicy`: last / average
of 10 / moving average plus the back-off penalty) is NOT computed by the model: it is an input
(`Oracle`) of every event, so every theorem holds for all latency values.
-/
namespace DaeVerif.C16

/-! ## constants -/

/-- `time.Hour` in ns: the "no best node" sentinel of `AliveDialerSet.minLatency`. -/
def hour : Int := 3600000000000
/-- `reloadFailureQuiesce = Timeout + 10 s`. -/
def quiesce : Nat := 20000000000
/-- `proxyFailureTTL` (15 min). -/
def failureTTL : Nat := 900000000000
/-- `proxyFailureCleanupInterval` (5 min). -/
def cleanupInterval : Nat := 300000000000
/-- `maxConsecutiveFailures`. -/
def maxConsecutiveFailures : Nat := 3

/-- point update of a total map -/
def upd {β : Type} (f : Nat → β) (i : Nat) (v : β) : Nat → β := fun j => if j = i then v else f j

/-! ## network types and collection indices -/

/-- The `NetworkType` values that reach the health code. `t`=TCP, `T`=TCP with `IsDns`,
`a`=TCP with `IsDns` and `UdpHealthDomainDns` (what the DNS-over-TCP data path passes), `b`=TCP with
`UdpHealthDomainData` (the UDP domain field is ignored for TCP),
`d`=UDP/DNS domain (`IsDns` set), `u`=UDP/data domain, `x`=UDP with the domain unset (falls back to
data), `y`=UDP, domain unset but `IsDns` set (still data: `IsDns` is ignored for UDP), `z`=UDP/DNS
domain with `IsDns` clear (still DNS). -/
inductive Typ
  | t4 | t6 | T4 | T6 | d4 | d6 | u4 | u6 | x4 | x6 | y4 | y6 | z4 | z6 | a4 | a6 | b4 | b6
deriving DecidableEq, Repr, Inhabited

/-- `NetworkType.Index()` (= `HealthKey().CollectionIndex()`): TCP-DNS shares the TCP slot. -/
def Typ.idx : Typ → Nat
  | .t4 | .T4 | .a4 | .b4 => 4
  | .t6 | .T6 | .a6 | .b6 => 5
  | .d4 | .z4 => 2
  | .d6 | .z6 => 3
  | .u4 | .x4 | .y4 => 6
  | .u6 | .x6 | .y6 => 7

def Typ.isUdp : Typ → Bool
  | .t4 | .t6 | .T4 | .T6 | .a4 | .a6 | .b4 | .b6 => false
  | _ => true

/-- `L4Proto == UDP && EffectiveUdpHealthDomain() == UdpHealthDomainData`. -/
def Typ.isData : Typ → Bool
  | .u4 | .u6 | .x4 | .x6 | .y4 | .y6 => true
  | _ => false

/-- `collections[0]`/`[1]` are the same objects as `collections[4]`/`[5]`. -/
def canon (i : Nat) : Nat := if i < 2 then i + 4 else i

/-- `networkTypeForCollectionIndex`. -/
def typOfIdx : Nat → Typ
  | 0 => .T4 | 1 => .T6 | 2 => .d4 | 3 => .d6 | 4 => .t4 | 5 => .t6 | 6 => .u4 | _ => .u6

/-- `StandardHealthKeys()` order, as network types (`standardSelectionNetworkTypes`). -/
def standardTyps : List Typ := [.d4, .d6, .t4, .t6, .u4, .u6]

/-- The order in which `markUnavailableFromProxyFailure` forces the six domains down. -/
def escalationTyps : List Typ := [.t4, .t6, .d4, .d6, .u4, .u6]

/-- The thresholds of `markUnavailableInternal`. -/
def threshold (udp traffic : Bool) : Nat :=
  match udp, traffic with
  | false, false => 1
  | true, false => 3
  | false, true => 10
  | true, true => 50

/-! ## the alive set of one group for one network type -/

structure ASet where
  gid : Nat
  outbound : Nat
  idx : Nat                    -- collection index of `CheckTyp` (2..7)
  minPolicy : Bool             -- one of the three latency policies (else: random)
  tol : Int
  members : List Nat
  offset : Nat → Int           -- `dialerToLatencyOffset`
  active : Bool                -- registered with its members (`registerAliveDialerSets`)
  entries : List (Nat × Int)   -- `aliveEntries` in slice order: node, sorting latency
  minD : Option Nat            -- `minLatency.dialer`
  minLat : Int                 -- `minLatency.sortingLatency`
  kbit : Bool                  -- ghost: last value handed to `aliveChangeCallback` (kernel bit)
  ncb : Nat                    -- ghost: number of callbacks fired since the group's init callbacks

def ASet.has (s : ASet) (d : Nat) : Bool := s.entries.any fun e => e.1 == d

/-- first strictly smallest entry, starting from an accumulator (`calcMinLatency`'s scan; with no
candidate yet the first entry is taken whatever its latency — `time.Hour` is only a start value). -/
def minEntry : List (Nat × Int) → Option Nat × Int → Option Nat × Int
  | [], acc => acc
  | (d, l) :: es, (md, ml) => if md.isNone || decide (l < ml) then minEntry es (some d, l) else minEntry es (md, ml)

/-- the hysteresis test shared by `NotifyLatencyChange` and `calcMinLatency`: `l` beats the
current best by at least the tolerance (or the current best is below the tolerance). -/
def ASet.better (s : ASet) (l : Int) : Bool :=
  decide (l ≤ s.minLat) && (decide (s.minLat < s.tol) || decide (l ≤ s.minLat - s.tol))

def ASet.setMin (s : ASet) (d : Option Nat) (l : Int) : ASet := { s with minD := d, minLat := l }

/-- `calcMinLatency`. -/
def ASet.calcMin (s : ASet) : ASet :=
  let r := minEntry s.entries (none, hour)
  if s.minD = none then s.setMin r.1 r.2
  else if r.1.isSome && s.better r.2 then s.setMin r.1 r.2
  else s

/-- swap-with-last removal of node `d` from the entries slice. -/
def swapRemove (es : List (Nat × Int)) (d : Nat) : List (Nat × Int) :=
  match es.getLast? with
  | none => []
  | some l => es.dropLast.map fun e => if e.1 = d then l else e

def setLat (es : List (Nat × Int)) (d : Nat) (l : Int) : List (Nat × Int) :=
  es.map fun e => if e.1 = d then (e.1, l) else e

def ASet.add (s : ASet) (d : Nat) : ASet := { s with entries := s.entries ++ [(d, 0)] }
def ASet.remove (s : ASet) (d : Nat) : ASet := { s with entries := swapRemove s.entries d }
def ASet.setEntryLat (s : ASet) (d : Nat) (l : Int) : ASet := { s with entries := setLat s.entries d l }

/-- membership half of `NotifyLatencyChange`; second component: the callback fired, if any. -/
def ASet.phase1 (s : ASet) (d : Nat) (alive : Bool) (lat : Option Int) : ASet × Option Bool :=
  if alive then
    if s.has d then (s, none) else (s.add d, none)
  else if s.has d then
    -- `removedBestWithoutLatency`
    if s.minPolicy && lat.isNone && (s.minD == some d) then
      let s2 := ((s.remove d).setMin none hour).calcMin
      (s2, if s2.minD = none then some false else none)
    else (s.remove d, none)
  else (s, none)

/-- the best-node update of the `hasLatency` branch (`bakLat` = best latency before). -/
def ASet.reselect (s : ASet) (d : Nat) (alive : Bool) (l bakLat : Int) : ASet :=
  if alive && (s.minD.isNone || s.better l) then s.setMin (some d) l
  else if s.minD = some d then
    if !alive || decide (l > bakLat) then (s.setMin (if alive then some d else none) l).calcMin
    else s.setMin (some d) l
  else s

/-- selection half of `NotifyLatencyChange`. -/
def ASet.phase2 (s : ASet) (d : Nat) (alive : Bool) (lat : Option Int) : ASet × Option Bool :=
  match lat with
  | some raw =>
    let l := raw + s.offset d
    let s2 := (s.setEntryLat d l).reselect d alive l s.minLat
    (s2,
      if s2.minD = s.minD then none
      else if s2.minD.isSome then (if s.minD.isNone then some true else none)
      else some false)
  | none =>
    if alive && s.minPolicy && s.minD.isNone then (s.setMin (some d) s.minLat, some true)
    else (s, none)

def ASet.fire (s : ASet) : Option Bool → ASet
  | none => s
  | some b => { s with kbit := b, ncb := s.ncb + 1 }

/-- `AliveDialerSet.NotifyLatencyChange(dialer, alive)`; `lat` = what `snapshotLatencyForPolicy`
returned (`none` = no measurement).  Non-latency policies never read a latency. -/
def ASet.notify (s : ASet) (d : Nat) (alive : Bool) (lat : Option Int) : ASet × List Bool :=
  let lat := if s.minPolicy then lat else none
  let r1 := s.phase1 d alive lat
  let r2 := r1.1.phase2 d alive lat
  let cbs := r1.2.toList ++ r2.2.toList
  ((r2.1.fire r1.2).fire r2.2, cbs)

/-! ## nodes, world, outputs -/

structure Node where
  addr : Nat                   -- proxy address (0 = empty string: no address tracking)
  alive : Nat → Bool           -- by canonical collection index
  fail : Nat → Nat             -- `failCount[8]`
  tfail : Nat → Nat            -- `trafficFailCount[8]`

def Node.fresh (addr : Nat) : Node := ⟨addr, fun _ => true, fun _ => 0, fun _ => 0⟩

/-- `markUnavailableInternal(typ, force=true, isTraffic=true)`: dead, both counters at the traffic threshold. -/
def Node.forced (nd : Node) (t : Typ) : Node :=
  { nd with alive := upd nd.alive t.idx false,
            fail := upd nd.fail t.idx (threshold t.isUdp true),
            tfail := upd nd.tfail t.idx (threshold t.isUdp true) }

/-- `markUnavailableInternal(typ, force=false, isTraffic)`: one counted failure. -/
def Node.counted (nd : Node) (t : Typ) (traffic : Bool) : Node :=
  let fail' := if traffic then nd.fail else upd nd.fail t.idx (nd.fail t.idx + 1)
  let tfail' := if traffic then upd nd.tfail t.idx (nd.tfail t.idx + 1) else nd.tfail
  let cnt := if traffic then tfail' t.idx else fail' t.idx
  let alive := if cnt < threshold t.isUdp traffic then nd.alive t.idx else false
  { nd with alive := upd nd.alive t.idx alive, fail := fail', tfail := tfail' }

/-- `markAvailable` / `markAvailableTraffic` / `MarkAliveForReloadFallback`: alive, counters cleared. -/
def Node.avail (nd : Node) (t : Typ) : Node :=
  { nd with alive := upd nd.alive t.idx true, fail := upd nd.fail t.idx 0, tfail := upd nd.tfail t.idx 0 }

/-- the head of `ReportAvailableTraffic`. -/
def Node.clearTraffic (nd : Node) (t : Typ) : Node := { nd with tfail := upd nd.tfail t.idx 0 }

/-- one tracked proxy address: address, consecutive count, last update time -/
abbrev FailEntry := Nat × Nat × Nat

/-- the three durations of `sticky_cache.go` the property does not fix: they are read from the real
code at run time (`params` op); the defaults are the current source values -/
structure Cfg where
  quiesce : Nat := quiesce           -- `reloadFailureQuiesce`
  ttl : Nat := failureTTL            -- `proxyFailureTTL`
  cleanup : Nat := cleanupInterval   -- `proxyFailureCleanupInterval`

structure World where
  now : Nat
  supCount : Nat               -- `reloadProxyFailureSuppression`
  supUntil : Nat               -- `reloadProxyFailureSuppressUntil`
  failures : List FailEntry    -- `globalProxyIpHealthTracker.failures`
  nextCleanup : Option Nat     -- `nextCleanupAt` (`none` = zero time)
  nodes : Nat → Node
  sets : List ASet
  cfg : Cfg := {}

def World.init : World := ⟨0, 0, 0, [], none, fun _ => Node.fresh 0, [], {}⟩

inductive Out
  | trans (n : Nat) (t : Typ) (alive : Bool)        -- `notifyAliveTransition`
  | group (gid idx : Nat) (alive : Bool) (init : Bool) -- group `aliveChangeCallback`
  | escalate (n : Nat)                              -- `markUnavailableFromProxyFailure` entered
deriving DecidableEq, Repr

/-- latency inputs of one event: (group, collection index, node) ↦ raw latency -/
abbrev Oracle := List ((Nat × Nat × Nat) × Int)

def Oracle.get (o : Oracle) (g i n : Nat) : Option Int :=
  match o.find? fun e => e.1 == (g, i, n) with
  | some e => some e.2
  | none => none

/-- `proxyFailureSuppressedForReload`. -/
def World.suppressed (w : World) : Bool := decide (w.supCount > 0) || decide (w.now < w.supUntil)

/-- one set receives (or not) the update of node `n` at collection `c`. -/
def notifyOne (s : ASet) (n c : Nat) (alive : Bool) (o : Oracle) : ASet × List Out :=
  if s.active ∧ s.idx = c ∧ n ∈ s.members then
    let r := s.notify n alive (o.get s.gid s.idx n)
    (r.1, r.2.map fun b => Out.group s.gid s.idx b false)
  else (s, [])

/-- `informDialerGroupUpdate`: every registered set of that collection is notified. -/
def notifyAll : List ASet → Nat → Nat → Bool → Oracle → List ASet × List Out
  | [], _, _, _, _ => ([], [])
  | s :: rest, n, c, alive, o =>
    let r1 := notifyOne s n c alive o
    let r2 := notifyAll rest n c alive o
    (r1.1 :: r2.1, r1.2 ++ r2.2)

def World.setNode (w : World) (n : Nat) (nd : Node) : World := { w with nodes := upd w.nodes n nd }

/-- `ReportUnavailableForced` = `markUnavailableInternal(typ, force=true, isTraffic=true)` + inform. -/
def markForced (w : World) (n : Nat) (t : Typ) (o : Oracle) : World × List Out :=
  let nd := w.nodes n
  let r := notifyAll w.sets n t.idx false o
  ({ (w.setNode n (nd.forced t)) with sets := r.1 },
    (if nd.alive t.idx then [Out.trans n t false] else []) ++ r.2)

/-- `markUnavailableFromProxyFailure`: all six domains forced down (the back-off punishment that
follows only changes latency penalties, which are oracle inputs here). -/
def escalateFrom : List Typ → World → Nat → Oracle → World × List Out
  | [], w, _, _ => (w, [])
  | t :: ts, w, n, o =>
    let r1 := markForced w n t o
    let r2 := escalateFrom ts r1.1 n o
    (r2.1, r1.2 ++ r2.2)

def escalate (w : World) (n : Nat) (o : Oracle) : World × List Out := escalateFrom escalationTyps w n o

def failLookup (fs : List FailEntry) (a : Nat) : Nat :=
  match fs.find? fun e => e.1 == a with
  | some e => e.2.1
  | none => 0

def failErase (fs : List FailEntry) (a : Nat) : List FailEntry := fs.filter fun e => e.1 != a

/-- `nextCleanupAt.IsZero() || !now.Before(nextCleanupAt)` -/
def cleanupDue (w : World) : Bool :=
  match w.nextCleanup with
  | none => true
  | some t => !decide (w.now < t)

/-- `maybeCleanupLocked`. -/
def cleanupFailures (w : World) : World :=
  if cleanupDue w then
    { w with failures := w.failures.filter (fun e => !decide (w.now - e.2.2 ≥ w.cfg.ttl)),
             nextCleanup := some (w.now + w.cfg.cleanup) }
  else w

/-- `recordProxyFailure`: `true` when the address reached `maxConsecutiveFailures`. -/
def recordFailure (w : World) (a : Nat) : World × Bool :=
  let w1 := cleanupFailures w
  let c := failLookup w1.failures a + 1
  if c ≥ maxConsecutiveFailures then ({ w1 with failures := failErase w1.failures a }, true)
  else ({ w1 with failures := (a, c, w1.now) :: failErase w1.failures a }, false)

/-- `markUnavailableInternal(typ, force=false, isTraffic)` + `informDialerGroupUpdate`. -/
def markUnavail (w : World) (n : Nat) (t : Typ) (traffic : Bool) (o : Oracle) : World × List Out :=
  if w.suppressed then (w, []) else
  let nd := w.nodes n
  let i := t.idx
  let nd' := nd.counted t traffic
  let alive := nd'.alive i
  let w1 := w.setNode n nd'
  let died := nd.alive i && !alive
  -- `NotifyHealthCheckResult(typ, false, false)` on a true death: address tracking, escalation
  let r2 : World × List Out :=
    if died ∧ nd.addr ≠ 0 then
      let rf := recordFailure w1 nd.addr
      if rf.2 then
        let re := escalate rf.1 n o
        (re.1, Out.escalate n :: re.2)
      else (rf.1, [])
    else (w1, [])
  let r3 := notifyAll r2.1.sets n i alive o
  ({ r2.1 with sets := r3.1 }, (if died then [Out.trans n t false] else []) ++ r2.2 ++ r3.2)

/-- `markAvailable` / `markAvailableTraffic` + inform (`NotifyHealthCheckResult(typ, true, _)`
clears the address entry). -/
def markAvail (w : World) (n : Nat) (t : Typ) (o : Oracle) : World × List Out :=
  let nd := w.nodes n
  let fs := if nd.addr ≠ 0 then failErase w.failures nd.addr else w.failures
  let r := notifyAll w.sets n t.idx true o
  ({ (w.setNode n (nd.avail t)) with failures := fs, sets := r.1 },
    (if nd.alive t.idx then [] else [Out.trans n t true]) ++ r.2)

/-- `ReportAvailableTraffic`. -/
def trafficOk (w : World) (n : Nat) (t : Typ) (o : Oracle) : World × List Out :=
  let nd := w.nodes n
  let w1 := w.setNode n (nd.clearTraffic t)
  if t.isData && !nd.alive t.idx then markAvail w1 n t o else (w1, [])

/-! ### probes -/

inductive Attempt
  | ok (lat : Nat)     -- CheckFunc returned (true, nil) after `lat` ns
  | err                -- a real error
  | canceled           -- context.Canceled
  | skip               -- (false, nil): no applicable address
deriving DecidableEq, Repr

inductive ProbeRes
  | success (lat : Nat)
  | failure
  | nothing
deriving DecidableEq, Repr

/-- The two-attempt loop of `Dialer.check`. -/
def probeOutcome (a1 a2 : Attempt) : ProbeRes :=
  match a1 with
  | .ok l => .success l
  | .canceled => .nothing
  | .skip => .nothing
  | .err =>
    match a2 with
    | .ok l => .success l
    | .canceled => .nothing
    | .skip => .nothing
    | .err => .failure

/-! ### reload -/

structure Snapshot where
  alive : Nat → Bool    -- by raw collection index 0..7
  fail : Nat → Nat
  tfail : Nat → Nat

/-- `ReloadHealthSnapshot`: availability is kept, counters are dropped. -/
def reloadSnapshot (nd : Node) : Snapshot := ⟨fun i => nd.alive (canon i), fun _ => 0, fun _ => 0⟩

def Node.restoreIdx (nd : Node) (s : Snapshot) (idx : Nat) : Node :=
  { nd with alive := upd nd.alive (canon idx) (s.alive idx), fail := upd nd.fail idx (s.fail idx),
            tfail := upd nd.tfail idx (s.tfail idx) }

/-- One index of `RestoreHealthSnapshot` (store, then notify the groups, then the transition
callback).  The real code stores all eight first and notifies afterwards; notifications do not read
node state, so the fused order is observationally the same. -/
def restoreIdx (w : World) (n : Nat) (s : Snapshot) (o : Oracle) (idx : Nat) : World × List Out :=
  let nd := w.nodes n
  let a := s.alive idx
  let r := notifyAll w.sets n (canon idx) a o
  ({ (w.setNode n (nd.restoreIdx s idx)) with sets := r.1 },
    r.2 ++ (if nd.alive (canon idx) != a then [Out.trans n (typOfIdx idx) a] else []))

def restoreFrom : List Nat → World → Nat → Snapshot → Oracle → World × List Out
  | [], w, _, _, _ => (w, [])
  | i :: is, w, n, s, o =>
    let r1 := restoreIdx w n s o i
    let r2 := restoreFrom is r1.1 n s o
    (r2.1, r1.2 ++ r2.2)

def restore (w : World) (n : Nat) (s : Snapshot) (o : Oracle) : World × List Out :=
  restoreFrom [0, 1, 2, 3, 4, 5, 6, 7] w n s o

/-- `MarkAliveForReloadFallback`. -/
def markAliveFallback (w : World) (n : Nat) (t : Typ) (o : Oracle) : World × List Out :=
  let nd := w.nodes n
  let r := notifyAll w.sets n t.idx true o
  ({ (w.setNode n (nd.avail t)) with sets := r.1 },
    r.2 ++ (if nd.alive t.idx then [] else [Out.trans n t true]))

def findSet (sets : List ASet) (g i : Nat) : Option ASet := sets.find? fun s => s.gid == g && s.idx == i

/-- the floor's candidate: the captured fallback, else `g.Dialers[0]` -/
def floorCandidate (fb : Nat → Option Nat) (s : ASet) (i : Nat) : Option Nat :=
  match fb i with
  | some c => some c
  | none => s.members.head?

/-- `EnsureReloadSelectionFloor`, one network type. -/
def floorOne (w : World) (g : Nat) (fb : Nat → Option Nat) (o : Oracle) (t : Typ) : World × List Out :=
  match findSet w.sets g t.idx with
  | none => (w, [])
  | some s =>
    if s.entries.length > 0 then (w, [])
    else
      match floorCandidate fb s t.idx with
      | none => (w, [])
      | some c => markAliveFallback w c t o

def floorFrom : List Typ → World → Nat → (Nat → Option Nat) → Oracle → World × List Out
  | [], w, _, _, _ => (w, [])
  | t :: ts, w, g, fb, o =>
    let r1 := floorOne w g fb o t
    let r2 := floorFrom ts r1.1 g fb o
    (r2.1, r1.2 ++ r2.2)

/-! ### selection as far as the hand-over needs it (`CaptureReloadSelectionFallback`) -/

/-- `AliveDialerSet.GetMinLatency(nil)`: the selected best node, else the first strictly smallest entry -/
def ASet.best (s : ASet) : Option Nat :=
  match s.minD with
  | some d => some d
  | none => (minEntry s.entries (none, hour)).1

/-- `selectionNetworkTypes`: data UDP falls back to DNS UDP, then TCP, of the same family -/
def selChain (i : Nat) : List Nat := if i = 6 then [6, 2, 4] else if i = 7 then [7, 3, 5] else [i]

/-- the same domain in the other IP family -/
def otherFamily (i : Nat) : Nat := if i % 2 = 0 then i + 1 else i - 1

def firstSome {α β : Type} (f : α → Option β) : List α → Option β
  | [] => none
  | x :: xs => match f x with | some y => some y | none => firstSome f xs

/-- `_select` of a latency-policy group for collection `i` -/
def selectMin (w : World) (g i : Nat) : Option Nat :=
  firstSome (fun j => (findSet w.sets g j).bind ASet.best) (selChain i)

/-- `SelectWithExclusionResult(nt, strictIpVersion = false, nil)` of a latency-policy group: the requested
family, else whatever the other family gives (the non-strict path returns the second `_select` directly;
the "only member of a one-member group" rule is reached by strict selections only) -/
def captureOne (w : World) (g i : Nat) : Option Nat :=
  match selectMin w g i with
  | some d => some d
  | none => selectMin w g (otherFamily i)

/-- `DialerGroup.CaptureReloadSelectionFallback` of a latency-policy group (collections 2..7) -/
def captureFallback (w : World) (g : Nat) : Nat → Option Nat := fun i =>
  if 2 ≤ i ∧ i ≤ 7 then captureOne w g i else none

/-! ### the whole hand-over -/

/-- one group of the new generation: its id, the fallback captured for it, and the
(new node, old node) pairs matched by name inside the group's namesake of the old generation
(empty when there is no namesake) -/
structure ReloadGroup where
  g : Nat
  fb : Nat → Option Nat
  pairs : List (Nat × Nat)

def inheritPairs : List (Nat × Nat) → World → Oracle → World × List Out
  | [], w, _ => (w, [])
  | p :: ps, w, o =>
    let r1 := restore w p.1 (reloadSnapshot (w.nodes p.2)) o
    let r2 := inheritPairs ps r1.1 o
    (r2.1, r1.2 ++ r2.2)

/-- pass 2 of `InheritDialerHealthFrom`: every matched dialer of every group is restored -/
def restoreGroups : List ReloadGroup → World → Oracle → World × List Out
  | [], w, _ => (w, [])
  | G :: gs, w, o =>
    let r1 := inheritPairs G.pairs w o
    let r2 := restoreGroups gs r1.1 o
    (r2.1, r1.2 ++ r2.2)

/-- pass 3: every group is floored -/
def floorGroups : List ReloadGroup → World → Oracle → World × List Out
  | [], w, _ => (w, [])
  | G :: gs, w, o =>
    let r1 := floorFrom standardTyps w G.g G.fb o
    let r2 := floorGroups gs r1.1 o
    (r2.1, r1.2 ++ r2.2)

/-- `ControlPlane.InheritDialerHealthFrom`: all fallbacks are captured first (inputs `fb`), then all
matched dialers are restored, then all groups are floored. -/
def reload (w : World) (gs : List ReloadGroup) (o : Oracle) : World × List Out :=
  let r1 := restoreGroups gs w o
  let r2 := floorGroups gs r1.1 o
  (r2.1, r1.2 ++ r2.2)

/-- The order used before the fix (restore and floor group by group, only for matched groups). NOT
part of `step`; kept to state that it violates the hand-over guarantee. -/
def reloadOld : List ReloadGroup → World → Oracle → World × List Out
  | [], w, _ => (w, [])
  | G :: gs, w, o =>
    let r1 := inheritPairs G.pairs w o
    let r2 := floorFrom standardTyps r1.1 G.g G.fb o
    let r3 := reloadOld gs r2.1 o
    (r3.1, r1.2 ++ r2.2 ++ r3.2)

/-! ### matching of the two generations (`InheritDialerHealthFrom`, by group name then node name) -/

/-- a group of one generation as the hand-over sees it: model id of the group object, its name, and
its member dialer objects with their node name and link (names are NOT unique: two subscriptions,
repeated `#name` fragments, per-group clones; the link is the node's identity) -/
structure GenGroup where
  gid : Nat
  gname : Nat
  members : List (Nat × Nat × Nat)     -- (node id, node name, link)

/-- Go map semantics of `m[k] = v` in a loop: the last entry with that key wins -/
def lookupLast {β : Type} (p : β → Bool) (l : List β) : Option β := l.reverse.find? p

/-- the old member a new member inherits from (fix3): among the old members of the same name that
have not handed their state to an earlier member, the first with the same link; if there is none
and the name occurs exactly once in the old group, that one (the link may have been edited) -/
def matchMember (olds : List (Nat × Nat × Nat)) (used : List Nat) (nm : Nat × Nat × Nat) : Option Nat :=
  let cands := olds.filter fun m => m.2.1 == nm.2.1
  match cands.find? fun m => !used.contains m.1 && m.2.2 == nm.2.2 with
  | some m => some m.1
  | none =>
    match cands with
    | [m] => if used.contains m.1 then none else some m.1
    | _ => none

def matchMembers (olds : List (Nat × Nat × Nat)) : List (Nat × Nat × Nat) → List Nat → List (Nat × Nat)
  | [], _ => []
  | nm :: rest, used =>
    match matchMember olds used nm with
    | some o => (nm.1, o) :: matchMembers olds rest (o :: used)
    | none => matchMembers olds rest used

/-- the (new node, old node) pairs of one new group: its namesake among the old groups
(`previousGroups[group.Name]`), then member by member `matchMember`; nothing without a namesake -/
def matchGroup (olds : List GenGroup) (G : GenGroup) : List (Nat × Nat) :=
  match lookupLast (fun og => og.gname == G.gname) olds with
  | none => []
  | some og => matchMembers og.members G.members []

def reloadGroupsOf (olds news : List GenGroup) (fb : Nat → Nat → Option Nat) : List ReloadGroup :=
  news.map fun G => ⟨G.gid, fb G.gid, matchGroup olds G⟩

/-! ### groups -/

inductive Policy
  | minLast | minAvg | minMoving | random | fixed
deriving DecidableEq, Repr

def Policy.isMin : Policy → Bool
  | .minLast | .minAvg | .minMoving => true
  | _ => false

def Policy.needsAlive : Policy → Bool
  | .fixed => false
  | _ => true

def notifyEach (s : ASet) (alive : Nat → Bool) (o : Oracle) : List Nat → ASet × List Bool
  | [] => (s, [])
  | d :: ds =>
    let r1 := s.notify d (alive d) (o.get s.gid s.idx d)
    let r2 := notifyEach r1.1 alive o ds
    (r2.1, r1.2 ++ r2.2)

/-- `NewAliveDialerSet(…, setAlive=false)` followed by the `setAlive` loop of `buildSelectionState`. -/
def newSet (w : World) (g ob : Nat) (p : Policy) (tol : Int) (ms : List (Nat × Int)) (o : Oracle)
    (t : Typ) : ASet × List Out :=
  let off : Nat → Int := fun d => match ms.find? fun e => e.1 == d with | some e => e.2 | none => 0
  let s0 : ASet := ⟨g, ob, t.idx, p.isMin, tol, ms.map (·.1), off, false, [], none, hour, true, 0⟩
  let r1 := notifyEach s0 (fun _ => false) o s0.members
  let r2 := notifyEach r1.1 (fun d => (w.nodes d).alive t.idx) o s0.members
  ({ r2.1 with active := true }, (r1.2 ++ r2.2).map fun b => Out.group g t.idx b false)

def newSets (w : World) (g ob : Nat) (p : Policy) (tol : Int) (ms : List (Nat × Int)) (o : Oracle) :
    List Typ → List ASet × List Out
  | [] => ([], [])
  | t :: ts =>
    let r1 := newSet w g ob p tol ms o t
    let r2 := newSets w g ob p tol ms o ts
    (r1.1 :: r2.1, r1.2 ++ r2.2)

/-- `NewDialerGroup`: six sets (none for the fixed policy), then six init callbacks `(true, nt, true)`. -/
def newGroup (w : World) (g ob : Nat) (p : Policy) (tol : Int) (ms : List (Nat × Int)) (o : Oracle) :
    World × List Out :=
  let r := if p.needsAlive then newSets w g ob p tol ms o standardTyps else ([], [])
  let sets := r.1.map fun s => { s with kbit := true, ncb := 0 }
  ({ w with sets := w.sets ++ sets }, r.2 ++ standardTyps.map fun t => Out.group g t.idx true true)

/-! ## events -/

inductive Event
  | node (n addr : Nat)
  | group (g ob : Nat) (p : Policy) (tol : Int) (ms : List (Nat × Int)) (o : Oracle)
  | close (g : Nat)
  | probe (n : Nat) (t : Typ) (a1 a2 : Attempt) (o : Oracle)
  | txn (n : Nat) (t : Typ) (ignorable : Bool) (o : Oracle)      -- ReportUnavailableTransactional
  | tfail (n : Nat) (t : Typ) (ignorable : Bool) (o : Oracle)    -- ReportUnavailable
  | forced (n : Nat) (t : Typ) (o : Oracle)                      -- ReportUnavailableForced
  | tok (n : Nat) (t : Typ) (o : Oracle)                         -- ReportAvailableTraffic
  | sbegin | send
  | tick (d : Nat)
  | resetGlobal
  | inherit (n m : Nat) (o : Oracle)                             -- n.Restore(m.ReloadHealthSnapshot())
  | restore (n : Nat) (s : Snapshot) (o : Oracle)
  | floor (g : Nat) (fb : Nat → Option Nat) (o : Oracle)
  | reload (gs : List ReloadGroup) (o : Oracle)                  -- ControlPlane.InheritDialerHealthFrom

/-- node / group identifiers are object identities: re-using one that is already referenced is
not an event of the real system and is ignored. -/
def World.nodeInUse (w : World) (n : Nat) : Bool := w.sets.any fun s => s.members.contains n
def World.groupInUse (w : World) (g : Nat) : Bool := w.sets.any fun s => s.gid == g

def nodupB : List Nat → Bool
  | [] => true
  | x :: xs => !xs.contains x && nodupB xs

def step (w : World) : Event → World × List Out
  | .node n a => if w.nodeInUse n then (w, []) else (w.setNode n (Node.fresh a), [])
  | .group g ob p tol ms o =>
    if w.groupInUse g || !nodupB (ms.map (·.1)) then (w, []) else newGroup w g ob p tol ms o
  | .close g => ({ w with sets := w.sets.map fun s => if s.gid = g then { s with active := false } else s }, [])
  | .probe n t a1 a2 o =>
    match probeOutcome a1 a2 with
    | .success l => markAvail { w with now := w.now + l } n t o
    | .failure => markUnavail w n t false o
    | .nothing => (w, [])
  | .txn n t ign o => if ign then (w, []) else markUnavail w n t false o
  | .tfail n t ign o => if ign then (w, []) else markUnavail w n t true o
  | .forced n t o => markForced w n t o
  | .tok n t o => trafficOk w n t o
  | .sbegin => ({ w with supCount := w.supCount + 1 }, [])
  | .send =>
    if w.supCount = 0 then (w, [])
    else if w.supCount = 1 then ({ w with supCount := 0, supUntil := w.now + w.cfg.quiesce }, [])
    else ({ w with supCount := w.supCount - 1 }, [])
  | .tick d => ({ w with now := w.now + d }, [])
  | .resetGlobal => ({ w with failures := [], nextCleanup := none }, [])
  | .inherit n m o => restore w n (reloadSnapshot (w.nodes m)) o
  | .restore n s o => restore w n s o
  | .floor g fb o => floorFrom standardTyps w g fb o
  | .reload gs o => reload w gs o

/-- run a history from a state; outputs concatenated -/
def run : World → List Event → World × List Out
  | w, [] => (w, [])
  | w, e :: es =>
    let r1 := step w e
    let r2 := run r1.1 es
    (r2.1, r1.2 ++ r2.2)

/-! ## the probe loop (`Dialer.aliveBackground`)

One iteration of the loop runs the probes of `CheckOpts` — TCP/4, TCP/6, DNS-UDP/4, DNS-UDP/6, in this
order in the source — restricted to one protocol family for a targeted check (`NotifyCheckTcp` /
`NotifyCheckDnsUdp`, `filterCheckOptsByFamily`) and to the network types for which the node is
registered with at least one alive set (`hasAliveDialerSets`, tested by `submitCheckTasks`).  Data UDP
is never probed.  A cycle is NOT a new event: it is the list of `probe` events it consists of, so
every theorem about histories covers it. -/

inductive Family
  | full      -- timer / `NotifyCheck`
  | tcp       -- `NotifyCheckTcp`
  | udp       -- `NotifyCheckDnsUdp`
deriving DecidableEq, Repr

/-- `CheckOpts` of `aliveBackground`: the network types of the four `CheckOption`s. -/
def probeTable : List Typ := [.t4, .t6, .d4, .d6]

/-- `filterCheckOptsByFamily` (`full`: no filter). -/
def Family.selects : Family → Typ → Bool
  | .full, _ => true
  | .tcp, t => !t.isUdp
  | .udp, t => t.isUdp

/-- `hasAliveDialerSets`: some registered set of that collection lists the node. -/
def World.probed (w : World) (n : Nat) (t : Typ) : Bool :=
  w.sets.any fun s => s.active && s.idx == t.idx && s.members.contains n

/-- the probes one loop iteration submits -/
def cycleOpts (w : World) (n : Nat) (fam : Family) : List Typ :=
  probeTable.filter fun t => fam.selects t && w.probed n t

/-- one loop iteration as events: `sc t` = what the two attempts of the probe of `t` meet -/
def cycleEvents (w : World) (n : Nat) (fam : Family) (sc : Typ → Attempt × Attempt) (o : Oracle) : List Event :=
  (cycleOpts w n fam).map fun t => .probe n t (sc t).1 (sc t).2 o

/-- how many times the attempt loop of `Dialer.check` dials: a missing address (`skip`) is found
before dialling; a second attempt follows a real error only. -/
def dialsUsed (a1 a2 : Attempt) : Nat :=
  match a1 with
  | .skip => 0
  | .err => (match a2 with | .skip => 1 | _ => 2)
  | _ => 1

/-! ## table normalisation (driver performance only)

`upd` builds closure chains; the driver re-tabulates the maps after every event.  Both functions
are the identity (`Proofs.ofTable_tabulate`, `Proofs.tabNodes_eq`). -/

/-- the first eight values as a list (a fully applied call: evaluated eagerly) -/
def tabulate {β : Type} (f : Nat → β) : List β := [f 0, f 1, f 2, f 3, f 4, f 5, f 6, f 7]

def ofTable {β : Type} (l : List β) (f : Nat → β) : Nat → β := fun i =>
  match l[i]? with
  | some v => v
  | none => f i

def Node.tab (nd : Node) : Node :=
  ⟨nd.addr, ofTable (tabulate nd.alive) nd.alive, ofTable (tabulate nd.fail) nd.fail,
    ofTable (tabulate nd.tfail) nd.tfail⟩

def tabNodesAux (l : List (Nat × Node)) (f : Nat → Node) : Nat → Node := fun n =>
  match l.find? fun e => e.1 == n with
  | some e => e.2
  | none => f n

def nodeTable (ids : List Nat) (f : Nat → Node) : List (Nat × Node) := ids.map fun n => (n, (f n).tab)

def World.tab (w : World) (ids : List Nat) : World :=
  { w with nodes := tabNodesAux (nodeTable ids w.nodes) w.nodes }

/-! ## kernel connectivity map (`control/connectivity.go`) -/

/-- `outboundConnectivityDomainIndex` by collection index. -/
def domainOfIdx (i : Nat) : Nat := if i = 4 ∨ i = 5 then 0 else if i = 2 ∨ i = 3 then 1 else 2

def ipvOfIdx (i : Nat) : Nat := i % 2

/-- `outboundConnectivityMapKey`. -/
def kernelKey (outbound i : Nat) : Nat := outbound * 6 + domainOfIdx i * 2 + ipvOfIdx i

/-- `outboundAliveChangeCallback(outbound, dryrun)(alive, networkType, isInit)` with the core's `closed`
and `retired` flags: what is written to `outbound_connectivity_map`, if anything. -/
def kernelCallback (closed retired dryrun : Bool) (outbound i : Nat) (alive isInit : Bool) : Option (Nat × Nat) :=
  if closed || retired || (!isInit && dryrun) then none
  else some (kernelKey outbound i, if alive then 1 else 0)

/-- the (key, value) `outboundAliveChangeCallback` writes. -/
def kernelWrite (outbound i : Nat) (alive : Bool) : Nat × Nat := (kernelKey outbound i, if alive then 1 else 0)

/-! ## the kernel connectivity map as state shared by generations

Every generation has its own `controlPlaneCore`; the groups of all generations write the SAME BPF
array map, and a reload gives the new generation's groups the same outbound ids as the old one's.
`MarkRetired` (and closing the core) silences a generation's callbacks. -/

/-- how one group is wired by `NewControlPlane`: its core (generation), outbound id, dry-run flag
(`dial_mode` other than `ip`) -/
structure KWire where
  core : Nat
  ob : Nat
  dryrun : Bool

structure KWorld where
  w : World
  kmap : Nat → Nat                  -- `outbound_connectivity_map`
  lastWriter : Nat → Option Nat     -- ghost: which group wrote the key last
  silenced : Nat → Bool             -- the core is retired or closed
  wiring : Nat → Option KWire       -- group id ↦ wiring

/-- slots never written hold the sentinel 7 (the harness pre-fills the real map with it) -/
def KWorld.init : KWorld := ⟨World.init, fun _ => 7, fun _ => none, fun _ => false, fun _ => none⟩

/-- the group callback of one `Out.group`, through the closure `outboundAliveChangeCallback` built
for that group on its core -/
def applyOut (kw : KWorld) : Out → KWorld
  | .group g i alive isInit =>
    match kw.wiring g with
    | none => kw
    | some k =>
      match kernelCallback false (kw.silenced k.core) k.dryrun k.ob i alive isInit with
      | none => kw
      | some kv => { kw with kmap := upd kw.kmap kv.1 kv.2, lastWriter := upd kw.lastWriter kv.1 (some g) }
  | _ => kw

def applyOuts (kw : KWorld) : List Out → KWorld
  | [] => kw
  | x :: xs => applyOuts (applyOut kw x) xs

inductive KEvent
  | base (e : Event)
  | wire (g core ob : Nat) (dryrun : Bool)     -- `core.outboundAliveChangeCallback(ob, dryrun)` handed to group g
  | silence (core : Nat)                       -- `MarkRetired` / core closed

def kstep (kw : KWorld) : KEvent → KWorld
  | .base e =>
    let r := step kw.w e
    applyOuts { kw with w := r.1 } r.2
  | .wire g c ob d =>
    -- the closure is handed to `NewDialerGroup`: a group that exists already, or has got its closure, keeps it
    if kw.w.groupInUse g || (kw.wiring g).isSome then kw
    else { kw with wiring := upd kw.wiring g (some ⟨c, ob, d⟩) }
  | .silence c => { kw with silenced := upd kw.silenced c true }

def krun : KWorld → List KEvent → KWorld
  | kw, [] => kw
  | kw, e :: es => krun (kstep kw e) es

/-! ## concurrent reports on one node and one set (interleaving model)

A report stores the node's flag under the node lock (`store`) and, after releasing it, notifies the
set (`deliver`).  Before fix 13e43e7 the notification carried the value captured at the store; now
`NotifyAliveState` reads the node's current flag once the set's notifications are serialised. -/

inductive RAct
  | store (i : Nat) (v : Bool)    -- report i: `collection.Alive.Store(v)` under `collectionFineMu`
  | deliver (i : Nat)             -- report i: its notification reaches the set (serialised by `notifyMu`)
deriving DecidableEq, Repr

structure RState where
  node : Bool
  set : Bool                      -- does the set list the node
  captured : Nat → Bool           -- value captured by report i at its store
  pending : List Nat              -- reports that stored and have not delivered since

def RState.init (b : Bool) : RState := ⟨b, b, fun _ => b, []⟩

/-- one atomic action; `current = true`: the fixed protocol (deliver the node's current flag),
`current = false`: the old protocol (deliver the captured value) -/
def rstep (current : Bool) (s : RState) : RAct → RState
  | .store i v => { s with node := v, captured := upd s.captured i v, pending := i :: s.pending }
  | .deliver i =>
    { s with set := (if current then s.node else s.captured i), pending := s.pending.filter (· != i) }

def rrun (current : Bool) : RState → List RAct → RState
  | s, [] => s
  | s, a :: as => rrun current (rstep current s a) as

end DaeVerif.C16
