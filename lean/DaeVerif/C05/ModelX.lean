import DaeVerif.C05.Model
/-!
# C05 — executable model, extension (core Lean only)

What the first model treated as atomic or left to the kernel:

* Part A — the gather write: `relayBuildWriteSegments`, `relayNonEmptySegments`, `relayAdvanceSegments`
  and the `relayWritevAll` loop (`control/tcp_copy_gather_linux.go`) under an ARBITRARY schedule of `writev`
  results (partial counts, `EINTR`, `EAGAIN` + poller wait, hard errors, zero-length writes).
* Part B — the accounting splice loop `relaySpliceCopyExact` + `putRelaySplicePipe`
  (`control/tcp_copy_linux.go`) under an arbitrary schedule of `splice` results in both legs and a context
  cancelled at any step.
* Part C — the copy engine over a destination that FAILS after accepting `cap` bytes (the failing write may be
  partial): `relayCopyLoop`/`relayCopyDirect`/gather write/continuation all stop at the first write error.
* Part D — the whole connection under faults: write failure towards either peer at any byte offset,
  cancellation of `handleConn`'s context (shutdown / reload) at any time, a failing dial.
-/
namespace DaeVerif.C05

/-! ## Part A — gather write -/

/-- `relayNonEmptySegments` -/
def nonEmptySegs (segs : List Bytes) : List Bytes := segs.filter fun s => !s.isEmpty

/-- `relayAdvanceSegments(segs, n)`: drop the first `n` bytes of the segment list. -/
def advanceSegs : List Bytes → Nat → List Bytes
  | [], _ => []
  | s :: ss, n =>
    if n = 0 then s :: ss
    else if s.length ≤ n then advanceSegs ss (n - s.length)
    else s.drop n :: ss

/-- `relayBuildWriteSegments(prefixSegs, body)`: the body read (if any) becomes the last segment. -/
def buildWriteSegs (pre : List Bytes) (body : Bytes) : List Bytes :=
  if pre.isEmpty then (if body.isEmpty then [] else [body])
  else if body.isEmpty then pre
  else pre ++ [body]

/-- what one `writev` call reports besides its byte count -/
inductive WvErr where
  | none
  | eintr
  /-- `EAGAIN`: the closure returns false, the poller waits for writability; `waitOk = false`: that wait
  itself fails (conn closed / write deadline) and `rawConn.Write` returns its error -/
  | eagain (waitOk : Bool)
  | other
deriving Repr, DecidableEq

/-- one `writev` result: the kernel took `n` bytes (clamped to what was offered) and reported `err` -/
structure WvStep where
  n : Nat
  err : WvErr
deriving Repr, DecidableEq

inductive WvEnd where
  /-- `nil` -/
  | ok
  /-- the syscall's error -/
  | err
  /-- `io.ErrShortWrite` (a successful `writev` of zero bytes) -/
  | short
  /-- the error of `rawConn.Write` itself -/
  | waitErr
  /-- (model only) the schedule ended before the loop did -/
  | exhausted
deriving Repr, DecidableEq

structure WvOut where
  /-- bytes the destination socket received, in order -/
  sink : Bytes
  /-- the `written` count returned -/
  written : Nat
  fin : WvEnd
deriving Repr, DecidableEq

/-- the loop of `relayWritevAll` (`for len(segments) > 0 { writev; advance; … }`), one schedule entry per
`writev` call. -/
def writevLoop : List WvStep → List Bytes → WvOut
  | _, [] => ⟨[], 0, .ok⟩
  | [], _ :: _ => ⟨[], 0, .exhausted⟩
  | st :: rest, s :: ss =>
    let segs := s :: ss
    let k := min st.n segs.flatten.length
    let segs' := if k = 0 then segs else advanceSegs segs k
    let stop (e : WvEnd) : WvOut := ⟨segs.flatten.take k, k, e⟩
    let cont (o : WvOut) : WvOut := ⟨segs.flatten.take k ++ o.sink, k + o.written, o.fin⟩
    match st.err with
    | .none => if k = 0 then stop .short else cont (writevLoop rest segs')
    | .eintr => cont (writevLoop rest segs')
    | .eagain true => cont (writevLoop rest segs')
    | .eagain false => stop .waitErr
    | .other => stop .err

/-- `relayWritevAll(rawConn, segs)` -/
def writevAll (sched : List WvStep) (segs : List Bytes) : WvOut := writevLoop sched (nonEmptySegs segs)

/-! ## Part B — the accounting splice loop -/

inductive SpErr where
  | none | eof | other
deriving Repr, DecidableEq

/-- one `splice` helper result (`spliceSocketToPipe` or `splicePipeToSocket`, whichever the loop calls next):
`n` bytes moved (clamped to what is there / fits), error, and whether the relay's context gets cancelled while
this call is in progress -/
structure SpStep where
  n : Nat
  err : SpErr
  cancel : Bool
deriving Repr

inductive SpEnd where
  | ok | err | short | exhausted
deriving Repr, DecidableEq

structure SpState where
  /-- bytes still in the source socket -/
  src : Bytes
  /-- bytes sitting in the pipe -/
  pipe : Bytes
  /-- bytes the destination socket received -/
  dst : Bytes
  /-- the local `inPipe` -/
  inPipe : Nat
  /-- `pipe.data` -/
  data : Nat
  written : Nat
  cancelled : Bool
deriving Repr, DecidableEq

structure SpOut where
  st : SpState
  fin : SpEnd
deriving Repr, DecidableEq

/-- the state after `n, err := spliceSocketToPipe(srcRaw, pipe.writeFD, relaySpliceMaxStep)`:
`if n > 0 { inPipe = n; pipe.data += n }` (the step limit is an upper bound on what the schedule may say and is
subsumed by it) -/
def SpState.afterIn (s : SpState) (st : SpStep) : SpState :=
  let n := min st.n s.src.length
  if n = 0 then { s with cancelled := s.cancelled || st.cancel }
  else { s with src := s.src.drop n, pipe := s.pipe ++ s.src.take n, inPipe := n, data := s.data + n,
                cancelled := s.cancelled || st.cancel }

/-- the state after `n, err := splicePipeToSocket(dstRaw, pipe.readFD, inPipe)`:
`if n > 0 { inPipe -= n; pipe.data -= n; written += int64(n); record(int64(n)) }` -/
def SpState.afterOut (s : SpState) (st : SpStep) : SpState :=
  let m := min st.n s.inPipe
  if m = 0 then { s with cancelled := s.cancelled || st.cancel }
  else { s with pipe := s.pipe.drop m, dst := s.dst ++ s.pipe.take m, inPipe := s.inPipe - m,
                data := s.data - m, written := s.written + m, cancelled := s.cancelled || st.cancel }

/-- `relaySpliceCopyExact`'s loop, one schedule entry per helper call.  `top`: we are at the top of the `for`
(where `ctx.Err()` is looked at); after a successful socket→pipe call the pipe→socket call follows in the same
iteration, without another look at the context.  Which helper is called is decided by `inPipe == 0` exactly as
in the code; every exit is one of the code's `return`s. -/
def spliceLoop : List SpStep → Bool → SpState → SpOut
  | [], top, s => if top && s.cancelled then ⟨s, .err⟩ else ⟨s, .exhausted⟩
  | st :: rest, top, s =>
    if top && s.cancelled then ⟨s, .err⟩                   -- `if err := ctx.Err(); err != nil { return written, err }`
    else if s.inPipe = 0 then
      let s1 := s.afterIn st
      match st.err with
      | .eof => if s1.inPipe = 0 then ⟨s1, .ok⟩ else ⟨s1, .err⟩
      | .other => ⟨s1, .err⟩
      | .none => if s1.inPipe = 0 then ⟨s1, .ok⟩ else spliceLoop rest false s1
    else
      let s1 := s.afterOut st
      match st.err with
      | .none => if min st.n s.inPipe = 0 then ⟨s1, .short⟩ else spliceLoop rest true s1
      | _ => ⟨s1, .err⟩

def SpState.init (src : Bytes) : SpState := ⟨src, [], [], 0, 0, 0, false⟩

/-- `relaySpliceCopyExact(ctx, dst, src, record)` over a source holding `src` -/
def spliceCopy (sched : List SpStep) (src : Bytes) : SpOut := spliceLoop sched true (SpState.init src)

/-- `putRelaySplicePipe`: the pipe goes back to the pool iff `pipe.data == 0` (else it is closed) -/
def SpOut.pooled (o : SpOut) : Bool := o.st.data == 0

/-! ## Part C — the copy engine over a destination that fails after `cap` bytes -/

/-- what a copy that would have produced `o` produces when the destination accepts only `cap` bytes: the
write that exceeds `cap` is partial and fails, nothing is written afterwards -/
def Out.capTo (cap : Nat) (o : Out) : Out :=
  if o.bytes.length ≤ cap then o else ⟨o.bytes.take cap, false⟩

/-- `relayCopyLoop` / `relayCopyDirect` with `nw, ew := dst.Write(buf[:nr])` looked at BEFORE the read error -/
def copyLoopW (sz : Nat) : Nat → Stack → Base → Nat → Out
  | 0, _, _, _ => ⟨[], false⟩
  | fuel + 1, st, b, cap =>
    let r := st.read sz b
    if cap < r.1.data.length then ⟨r.1.data.take cap, false⟩       -- `if ew != nil { return written, ew }`
    else
      match r.1.err with
      | none => (copyLoopW sz fuel r.2.1 r.2.2 (cap - r.1.data.length)).prepend r.1.data
      | some .eof => ⟨r.1.data, true⟩
      | some .err => ⟨r.1.data, false⟩

def continuationW (env : Env) (fuel : Nat) (s : Stack) (b : Base) (cap : Nat) : Out :=
  match s with
  | .prefixed _ => copyLoopW relayBuf fuel .plain b cap
  | .bufio bf =>
    if bf.isEmpty then
      if env.tcpSrc && env.tcpDst then copyLoopW spliceStep fuel .plain b cap
      else copyLoopW relayBuf fuel .plain b cap
    else copyLoopW relayBuf fuel (.bufio bf) b cap
  | s => copyLoopW relayBuf fuel s b cap

/-- `defaultRelayCopyEngine.Copy` towards a destination that accepts `cap` bytes -/
def engineCopyW (env : Env) (fuel : Nat) (st : Stack) (b : Base) (cap : Nat) : Out :=
  let t := st.take
  let segs := t.1
  let st1 := t.2
  if !segs.isEmpty then
    let body : RRes × Stack × Base :=
      if env.tcpSrc && env.pending then st1.read relayBuf b else (⟨[], none⟩, st1, b)
    let head := segs ++ body.1.data
    -- `nw, err := relayGatherWriteTo(dst, writeSegs); if err != nil { return written, err, true }` comes first
    if cap < head.length then ⟨head.take cap, false⟩
    else
      match body.1.err with
      | some .eof => ⟨head, true⟩
      | some .err => ⟨head, false⟩
      | none => (continuationW env fuel body.2.1 body.2.2 (cap - head.length)).prepend head
  else if env.tcpSrc && env.tcpDst then copyLoopW spliceStep fuel .plain b cap
  else copyLoopW relayBuf fuel st1 b cap

/-! ## Part D — the whole connection under faults -/

/-- what can go wrong around one proxied connection besides what the peers do -/
structure Faults where
  /-- the upstream socket accepts this many bytes from the relay; the write that exceeds it is partial and fails -/
  upCap : Option Nat
  /-- same for the client socket -/
  clCap : Option Nat
  /-- `handleConn`'s context (the control plane's lifecycle context) is cancelled at this time -/
  cancelAt : Option Nat
  /-- `routeDial` fails -/
  dialFails : Bool
deriving Repr

def Faults.none : Faults := ⟨.none, .none, .none, false⟩

/-- deliveries towards a destination that accepts `cap` bytes: `none` if all fit, else the deliveries made
(the last one partial) and the time of the failing write -/
def capDelivs : Nat → List Deliv → Option (List Deliv × Nat)
  | _, [] => none
  | cap, d :: ds =>
    if d.data.length ≤ cap then
      match capDelivs (cap - d.data.length) ds with
      | none => none
      | some (o, t) => some (d :: o, t)
    else some ([⟨d.t, d.data.take cap⟩], d.t)

/-- a direction whose destination fails after `cap` bytes ends there, with an error -/
def capRun (cap : Option Nat) (r : DirRun) : DirRun :=
  match cap with
  | none => r
  | some c =>
    match capDelivs c r.out with
    | none => r
    | some (o, t) => ⟨o, t, false⟩

/-- `relayCore.run` + the deferred closes, as a function of the two directions' own runs (this is the body of
`relayPhase`, see `relayPhase_eq_relayOf`) -/
def relayOf (cfg : Cfg) (f : Front) (l2r r2l : DirRun) : Obs :=
  if l2r.endT ≤ r2l.endT then
    let r := resolve l2r r2l cfg.rightCW
    ⟨some f.T, f.armed.isSome, l2r.out, r.2.2, r.1, r.2.1, r.2.1⟩
  else
    let r := resolve r2l l2r cfg.leftCW
    ⟨some f.T, f.armed.isSome, r.1, r.2.1, r2l.out, r.2.2, r.2.1⟩

/-- cancellation of the context at `x`: the watcher goroutine force-closes both conns; everything that had not
happened before `max T x` does not happen -/
def applyCancel (cancelAt : Option Nat) (T : Nat) (o : Obs) : Obs :=
  match cancelAt with
  | none => o
  | some x =>
    let X := max T x
    if X < o.ret then
      ⟨o.dial, o.armedAtDial, cutBefore X o.up, min o.upEof X, cutBefore X o.cl, min o.clEof X, X⟩
    else o

def relayPhaseF (cfg : Cfg) (flt : Faults) (f : Front) (up : Script) : Obs :=
  let l2r := capRun flt.upCap (dirNaturalArmed f.T f.st.content f.st.poisoned f.armed f.rest)
  let r2l := capRun flt.clCap (dirNatural f.T [] false up)
  applyCancel flt.cancelAt f.T (relayOf cfg f l2r r2l)

/-- one proxied connection from accept to return, under faults.  Detection does not look at the context; a
failing dial ends `handleConn` at the dial (the client conn is closed by the deferred `Close`). -/
def connF (cfg : Cfg) (flt : Faults) (client up : Script) : Obs :=
  let f := front cfg client
  match f.kind with
  | .relay =>
    if flt.dialFails then ⟨some f.T, f.armed.isSome, [], f.T, [], f.T, f.T⟩
    else relayPhaseF cfg flt f up
  | _ => ⟨none, false, [], f.T, [], f.T, f.T⟩

end DaeVerif.C05
