import DaeVerif.C05.ModelX
import DaeVerif.C05.ProofsTimed
/-!
# C05 — helper lemmas for the extension model (`ModelX.lean`)
-/
namespace DaeVerif.C05

/-! ### Part A — gather write -/

theorem nonEmptySegs_flatten (segs : List Bytes) : (nonEmptySegs segs).flatten = segs.flatten := by
  induction segs with
  | nil => rfl
  | cons s ss ih =>
    unfold nonEmptySegs at ih ⊢
    cases s with
    | nil => simpa using ih
    | cons x xs => simp [List.filter_cons, ih]

theorem nonEmptySegs_all (segs : List Bytes) : ∀ s ∈ nonEmptySegs segs, s ≠ [] := by
  intro s hs
  have := (List.mem_filter.mp hs).2
  intro h; subst h; simp at this

theorem advanceSegs_flatten : ∀ (segs : List Bytes) (n : Nat),
    (advanceSegs segs n).flatten = segs.flatten.drop n := by
  intro segs
  induction segs with
  | nil => intro n; simp [advanceSegs]
  | cons s ss ih =>
    intro n
    unfold advanceSegs
    by_cases h0 : n = 0
    · subst h0; simp
    · simp only [h0, ↓reduceIte]
      by_cases hl : s.length ≤ n
      · simp only [hl, ↓reduceIte, ih, List.flatten_cons, List.drop_append]
        rw [List.drop_eq_nil_of_le hl, List.nil_append]
      · simp only [hl, ↓reduceIte, List.flatten_cons, List.drop_append]
        have : n - s.length = 0 := by omega
        rw [this, List.drop_zero]

theorem buildWriteSegs_flatten (pre : List Bytes) (body : Bytes) :
    (buildWriteSegs pre body).flatten = pre.flatten ++ body := by
  unfold buildWriteSegs
  cases pre with
  | nil => cases body <;> simp
  | cons p ps => cases body <;> simp

structure WvSpec (F : Bytes) (o : WvOut) : Prop where
  sink : o.sink = F.take o.written
  le : o.written ≤ F.length
  ok : o.fin = .ok → o.written = F.length

theorem writevLoop_spec : ∀ (sched : List WvStep) (segs : List Bytes),
    WvSpec segs.flatten (writevLoop sched segs) := by
  intro sched
  induction sched with
  | nil =>
    intro segs
    cases segs with
    | nil => exact ⟨by simp [writevLoop], by simp [writevLoop], by simp [writevLoop]⟩
    | cons s ss => exact ⟨by simp [writevLoop], by simp [writevLoop], by simp [writevLoop]⟩
  | cons st rest ih =>
    intro segs
    cases segs with
    | nil => exact ⟨by simp [writevLoop], by simp [writevLoop], by simp [writevLoop]⟩
    | cons s ss =>
      have hk : min st.n (s :: ss).flatten.length ≤ (s :: ss).flatten.length := Nat.min_le_right _ _
      -- the segment list after the advance holds exactly what is left
      have hfl : (if min st.n (s :: ss).flatten.length = 0 then s :: ss
          else advanceSegs (s :: ss) (min st.n (s :: ss).flatten.length)).flatten =
          (s :: ss).flatten.drop (min st.n (s :: ss).flatten.length) := by
        split
        · rename_i h0; rw [h0, List.drop_zero]
        · exact advanceSegs_flatten _ _
      have hi := ih (if min st.n (s :: ss).flatten.length = 0 then s :: ss
          else advanceSegs (s :: ss) (min st.n (s :: ss).flatten.length))
      rw [hfl] at hi
      rw [writevLoop]
      simp only
      generalize (s :: ss).flatten = F at *
      generalize min st.n F.length = k at *
      generalize writevLoop rest (if k = 0 then s :: ss else advanceSegs (s :: ss) k) = o at *
      have hcont : WvSpec F ⟨F.take k ++ o.sink, k + o.written, o.fin⟩ := by
        have h1 := hi.sink; have h2 := hi.le; have h3 := hi.ok
        simp only [List.length_drop] at h2 h3
        refine ⟨?_, ?_, ?_⟩
        · show F.take k ++ o.sink = F.take (k + o.written)
          rw [h1, List.take_add]
        · show k + o.written ≤ F.length
          omega
        · intro hok
          show k + o.written = F.length
          have := h3 hok; omega
      have hstop : ∀ e : WvEnd, e ≠ .ok → WvSpec F ⟨F.take k, k, e⟩ := by
        intro e he
        exact ⟨rfl, hk, fun h => absurd h he⟩
      cases he : st.err with
      | none =>
        simp only
        by_cases h0 : k = 0
        · simp only [h0, ↓reduceIte]; have := hstop .short (by decide); rwa [h0] at this
        · simp only [h0, ↓reduceIte]; exact hcont
      | eintr => exact hcont
      | eagain w =>
        cases w with
        | true => exact hcont
        | false => exact hstop .waitErr (by decide)
      | other => exact hstop .err (by decide)

/-! ### Part B — the splice loop -/

structure SpInv (src0 : Bytes) (s : SpState) : Prop where
  cons : s.dst ++ (s.pipe ++ s.src) = src0
  inPipe : s.inPipe = s.pipe.length
  data : s.data = s.pipe.length
  written : s.written = s.dst.length

theorem SpInv.init (src : Bytes) : SpInv src (SpState.init src) :=
  ⟨by simp [SpState.init], rfl, rfl, rfl⟩

theorem SpInv.pipe_nil {src0 : Bytes} {s : SpState} (h : SpInv src0 s) (h0 : s.inPipe = 0) : s.pipe = [] := by
  have := h.inPipe; rw [h0] at this
  exact List.eq_nil_of_length_eq_zero this.symm

theorem SpInv.afterIn {src0 : Bytes} {s : SpState} (h : SpInv src0 s) (hz : s.inPipe = 0) (st : SpStep) :
    SpInv src0 (s.afterIn st) := by
  have hp := h.pipe_nil hz
  unfold SpState.afterIn
  generalize hn : min st.n s.src.length = n
  have hnle : n ≤ s.src.length := by rw [← hn]; exact Nat.min_le_right _ _
  simp only
  split
  · exact ⟨h.cons, h.inPipe, h.data, h.written⟩
  · refine ⟨?_, ?_, ?_, h.written⟩
    · simp only [hp, List.nil_append, List.take_append_drop]
      have := h.cons; rw [hp, List.nil_append] at this; exact this
    · simp [hp, List.length_take, Nat.min_eq_left hnle]
    · have := h.data; rw [hp] at this
      simp [hp, List.length_take, Nat.min_eq_left hnle, this]

theorem SpInv.afterOut {src0 : Bytes} {s : SpState} (h : SpInv src0 s) (st : SpStep) :
    SpInv src0 (s.afterOut st) := by
  unfold SpState.afterOut
  generalize hm : min st.n s.inPipe = m
  have hmle : m ≤ s.pipe.length := by rw [← hm, ← h.inPipe]; exact Nat.min_le_right _ _
  simp only
  split
  · exact ⟨h.cons, h.inPipe, h.data, h.written⟩
  · refine ⟨?_, ?_, ?_, ?_⟩
    · have := h.cons
      simp only [List.append_assoc]
      rw [← List.append_assoc (s.pipe.take m), List.take_append_drop]; exact this
    · simp [h.inPipe]
    · simp [h.data]
    · simp [h.written, List.length_take, Nat.min_eq_left hmle]

theorem spliceLoop_inv (src0 : Bytes) : ∀ (sched : List SpStep) (top : Bool) (s : SpState), SpInv src0 s →
    SpInv src0 (spliceLoop sched top s).st ∧
    ((spliceLoop sched top s).fin = .ok → (spliceLoop sched top s).st.pipe = []) := by
  intro sched
  induction sched with
  | nil =>
    intro top s h
    unfold spliceLoop
    split <;> exact ⟨h, by simp⟩
  | cons st rest ih =>
    intro top s h
    rw [spliceLoop]
    by_cases hc : (top && s.cancelled) = true
    · rw [if_pos hc]; exact ⟨h, by simp⟩
    · rw [if_neg hc]
      by_cases hz : s.inPipe = 0
      · rw [if_pos hz]
        have hs1 := h.afterIn hz st
        simp only
        generalize s.afterIn st = s1 at *
        cases he : st.err with
        | eof =>
          simp only
          split
          · rename_i h0; exact ⟨hs1, fun _ => hs1.pipe_nil h0⟩
          · exact ⟨hs1, by simp⟩
        | other => exact ⟨hs1, by simp⟩
        | none =>
          simp only
          split
          · rename_i h0; exact ⟨hs1, fun _ => hs1.pipe_nil h0⟩
          · exact ih false s1 hs1
      · rw [if_neg hz]
        have hs1 := h.afterOut st
        simp only
        generalize s.afterOut st = s1 at *
        cases he : st.err with
        | none =>
          simp only
          split
          · exact ⟨hs1, by simp⟩
          · exact ih true s1 hs1
        | eof => exact ⟨hs1, by simp⟩
        | other => exact ⟨hs1, by simp⟩

/-! ### Part C — a destination that fails after `cap` bytes -/

theorem capTo_prepend_le (cap : Nat) (d : Bytes) (o : Out) (h : d.length ≤ cap) :
    (o.prepend d).capTo cap = (o.capTo (cap - d.length)).prepend d := by
  unfold Out.capTo Out.prepend
  simp only [List.length_append]
  by_cases hl : o.bytes.length ≤ cap - d.length
  · have : d.length + o.bytes.length ≤ cap := by omega
    simp [hl, this]
  · have : ¬ d.length + o.bytes.length ≤ cap := by omega
    simp only [hl, this, ↓reduceIte, Out.mk.injEq, and_true]
    rw [List.take_append]
    have : d.take cap = d := List.take_of_length_le h
    rw [this]

theorem capTo_prepend_gt (cap : Nat) (d : Bytes) (o : Out) (h : cap < d.length) :
    (o.prepend d).capTo cap = ⟨d.take cap, false⟩ := by
  unfold Out.capTo Out.prepend
  simp only [List.length_append]
  have : ¬ d.length + o.bytes.length ≤ cap := by omega
  simp only [this, ↓reduceIte, Out.mk.injEq, and_true]
  rw [List.take_append]
  have : cap - d.length = 0 := by omega
  simp [this]

theorem capTo_mk_le (cap : Nat) (d : Bytes) (ok : Bool) (h : d.length ≤ cap) :
    (Out.mk d ok).capTo cap = ⟨d, ok⟩ := by simp [Out.capTo, h]

theorem capTo_mk_gt (cap : Nat) (d : Bytes) (ok : Bool) (h : cap < d.length) :
    (Out.mk d ok).capTo cap = ⟨d.take cap, false⟩ := by
  have : ¬ d.length ≤ cap := by omega
  simp [Out.capTo, this]

theorem copyLoopW_capTo (sz : Nat) : ∀ (fuel : Nat) (st : Stack) (b : Base) (cap : Nat),
    copyLoopW sz fuel st b cap = (copyLoop sz fuel st b).capTo cap := by
  intro fuel
  induction fuel with
  | zero => intro st b cap; simp [copyLoopW, copyLoop, Out.capTo]
  | succ f ih =>
    intro st b cap
    unfold copyLoopW copyLoop
    simp only
    by_cases hc : cap < (st.read sz b).1.data.length
    · simp only [hc, ↓reduceIte]
      cases he : (st.read sz b).1.err with
      | none => simp only; rw [capTo_prepend_gt _ _ _ hc]
      | some e => cases e <;> simp only <;> rw [capTo_mk_gt _ _ _ hc]
    · simp only [hc, ↓reduceIte]
      have hle : (st.read sz b).1.data.length ≤ cap := by omega
      cases he : (st.read sz b).1.err with
      | none => simp only; rw [capTo_prepend_le _ _ _ hle, ih]
      | some e => cases e <;> simp only <;> rw [capTo_mk_le _ _ _ hle]

theorem continuationW_capTo (env : Env) (fuel : Nat) (s : Stack) (b : Base) (cap : Nat) :
    continuationW env fuel s b cap = (continuation env fuel s b).capTo cap := by
  unfold continuationW continuation
  cases s with
  | plain => exact copyLoopW_capTo _ _ _ _ _
  | prefixed r => exact copyLoopW_capTo _ _ _ _ _
  | bufio bf =>
    simp only
    split
    · split <;> exact copyLoopW_capTo _ _ _ _ _
    · exact copyLoopW_capTo _ _ _ _ _
  | sniffer bf p => exact copyLoopW_capTo _ _ _ _ _

theorem engineCopyW_capTo (env : Env) (fuel : Nat) (st : Stack) (b : Base) (cap : Nat) :
    engineCopyW env fuel st b cap = (engineCopy env fuel st b).capTo cap := by
  unfold engineCopyW engineCopy
  simp only
  split
  · -- gather write
    generalize (if (env.tcpSrc && env.pending) = true then st.take.2.read relayBuf b
      else (⟨[], none⟩, st.take.2, b) : RRes × Stack × Base) = body
    by_cases hc : cap < (st.take.1 ++ body.1.data).length
    · simp only [hc, ↓reduceIte]
      cases he : body.1.err with
      | none => simp only; rw [capTo_prepend_gt _ _ _ hc]
      | some e => cases e <;> simp only <;> rw [capTo_mk_gt _ _ _ hc]
    · simp only [hc, ↓reduceIte]
      have hle : (st.take.1 ++ body.1.data).length ≤ cap := by omega
      cases he : body.1.err with
      | none => simp only; rw [capTo_prepend_le _ _ _ hle, continuationW_capTo]
      | some e => cases e <;> simp only <;> rw [capTo_mk_le _ _ _ hle]
  · split <;> exact copyLoopW_capTo _ _ _ _ _

/-! ### Part D — the whole connection under faults -/

abbrev DSorted (ds : List Deliv) : Prop := ds.Pairwise (fun a b => a.t ≤ b.t)

/-- `ds` is sorted by time and its bytes are a prefix of the bytes of `L` -/
structure Good (L ds : List Deliv) : Prop where
  sorted : DSorted ds
  pre : bytesOf ds <+: bytesOf L

theorem Good.of_prefix {L ds : List Deliv} (hL : DSorted L) (h : ds <+: L) : Good L ds :=
  ⟨hL.sublist h.sublist, bytesOf_prefix h⟩

theorem Good.cut {L ds : List Deliv} (h : Good L ds) (t : Nat) : Good L (cutBefore t ds) :=
  ⟨h.sorted.sublist (List.filter_sublist), List.IsPrefix.trans (bytesOf_prefix (cutBefore_prefix t ds h.sorted)) h.pre⟩

theorem relayPhase_eq_relayOf (cfg : Cfg) (f : Front) (u : Script) :
    relayPhase cfg f u =
      relayOf cfg f (dirNaturalArmed f.T f.st.content f.st.poisoned f.armed f.rest) (dirNatural f.T [] false u) := rfl

theorem capDelivs_none_bytes : ∀ (cap : Nat) (ds : List Deliv), capDelivs cap ds = none →
    (bytesOf ds).length ≤ cap := by
  intro cap ds
  induction ds generalizing cap with
  | nil => intro _; simp [bytesOf]
  | cons d ds ih =>
    intro h
    unfold capDelivs at h
    by_cases hl : d.data.length ≤ cap
    · simp only [hl, ↓reduceIte] at h
      cases hc : capDelivs (cap - d.data.length) ds with
      | none =>
        have := ih _ hc
        simp only [bytesOf, List.map_cons, List.flatten_cons, List.length_append] at this ⊢
        omega
      | some p => rw [hc] at h; simp at h
    · simp [hl] at h

theorem capDelivs_some : ∀ (cap : Nat) (ds o : List Deliv) (t : Nat), capDelivs cap ds = some (o, t) →
    bytesOf o = (bytesOf ds).take cap ∧ (∀ x ∈ o, ∃ y ∈ ds, x.t = y.t) ∧ cap < (bytesOf ds).length := by
  intro cap ds
  induction ds generalizing cap with
  | nil => intro o t h; simp [capDelivs] at h
  | cons d ds ih =>
    intro o t h
    unfold capDelivs at h
    by_cases hl : d.data.length ≤ cap
    · simp only [hl, ↓reduceIte] at h
      cases hc : capDelivs (cap - d.data.length) ds with
      | none => rw [hc] at h; simp at h
      | some p =>
        obtain ⟨o', t'⟩ := p
        rw [hc] at h
        simp only [Option.some.injEq, Prod.mk.injEq] at h
        obtain ⟨rfl, rfl⟩ := h
        have := ih _ _ _ hc
        refine ⟨?_, ?_, ?_⟩
        · simp only [bytesOf, List.map_cons, List.flatten_cons] at this ⊢
          rw [this.1, List.take_append, List.take_of_length_le hl]
        · intro x hx
          rcases List.mem_cons.mp hx with rfl | hx
          · exact ⟨x, List.mem_cons_self, rfl⟩
          · obtain ⟨y, hy, e⟩ := this.2.1 x hx
            exact ⟨y, List.mem_cons_of_mem _ hy, e⟩
        · have h3 := this.2.2
          simp only [bytesOf, List.map_cons, List.flatten_cons, List.length_append] at h3 ⊢
          omega
    · simp only [hl, ↓reduceIte, Option.some.injEq, Prod.mk.injEq] at h
      obtain ⟨rfl, rfl⟩ := h
      refine ⟨?_, ?_, ?_⟩
      · simp only [bytesOf, List.map_cons, List.map_nil, List.flatten_cons, List.flatten_nil, List.append_nil]
        rw [List.take_append]
        have : cap - d.data.length = 0 := by omega
        simp [this]
      · intro x hx
        simp only [List.mem_singleton] at hx
        subst hx
        exact ⟨d, List.mem_cons_self, rfl⟩
      · simp only [bytesOf, List.map_cons, List.flatten_cons, List.length_append]; omega

theorem capDelivs_sorted : ∀ (cap : Nat) (ds o : List Deliv) (t : Nat), DSorted ds → capDelivs cap ds = some (o, t) →
    DSorted o := by
  intro cap ds
  induction ds generalizing cap with
  | nil => intro o t _ h; simp [capDelivs] at h
  | cons d ds ih =>
    intro o t hs h
    have hp := List.pairwise_cons.mp hs
    unfold capDelivs at h
    by_cases hl : d.data.length ≤ cap
    · simp only [hl, ↓reduceIte] at h
      cases hc : capDelivs (cap - d.data.length) ds with
      | none => rw [hc] at h; simp at h
      | some p =>
        obtain ⟨o', t'⟩ := p
        rw [hc] at h
        simp only [Option.some.injEq, Prod.mk.injEq] at h
        obtain ⟨rfl, rfl⟩ := h
        refine List.pairwise_cons.mpr ⟨?_, ih _ _ _ hp.2 hc⟩
        intro x hx
        obtain ⟨y, hy, e⟩ := (capDelivs_some _ _ _ _ hc).2.1 x hx
        rw [e]; exact hp.1 y hy
    · simp only [hl, ↓reduceIte, Option.some.injEq, Prod.mk.injEq] at h
      obtain ⟨rfl, rfl⟩ := h
      exact List.pairwise_singleton _ _

theorem Good.capRun {L : List Deliv} (r : DirRun) (h : Good L r.out) (cap : Option Nat) :
    Good L (capRun cap r).out := by
  unfold DaeVerif.C05.capRun
  cases cap with
  | none => exact h
  | some c =>
    simp only
    cases hc : capDelivs c r.out with
    | none => exact h
    | some p =>
      obtain ⟨o, t⟩ := p
      simp only
      refine ⟨capDelivs_sorted _ _ _ _ h.sorted hc, ?_⟩
      rw [(capDelivs_some _ _ _ _ hc).1]
      exact List.IsPrefix.trans (List.take_prefix _ _) h.pre

theorem capRun_none (r : DirRun) : capRun none r = r := rfl

/-- whatever the two directions' own runs are, the relay hands each peer that run's deliveries or the
part of them made before the cut -/
theorem relayOf_good (cfg : Cfg) (f : Front) (l2r r2l : DirRun) (L R : List Deliv)
    (hl : Good L l2r.out) (hr : Good R r2l.out) :
    Good L (relayOf cfg f l2r r2l).up ∧ Good R (relayOf cfg f l2r r2l).cl := by
  unfold relayOf resolve
  dsimp only
  split
  · split
    · exact ⟨hl, hr.cut _⟩
    · split
      · exact ⟨hl, hr⟩
      · exact ⟨hl, hr.cut _⟩
  · split
    · exact ⟨hl.cut _, hr⟩
    · split
      · exact ⟨hl, hr⟩
      · exact ⟨hl.cut _, hr⟩

theorem applyCancel_good (x : Option Nat) (T : Nat) (o : Obs) (L R : List Deliv)
    (hl : Good L o.up) (hr : Good R o.cl) :
    Good L (applyCancel x T o).up ∧ Good R (applyCancel x T o).cl := by
  unfold applyCancel
  cases x with
  | none => exact ⟨hl, hr⟩
  | some x =>
    simp only
    split
    · exact ⟨hl.cut _, hr.cut _⟩
    · exact ⟨hl, hr⟩

theorem dirNatural_out_prefix (T : Nat) (c : Bytes) (p : Bool) (s : Script) :
    (dirNatural T c p s).out <+: natDelivs T c s := by
  cases p with
  | false => rw [dirNatural_clean]; exact List.prefix_refl _
  | true => rw [dirNatural_poisoned]; unfold natDelivs; exact List.prefix_append _ _

theorem connF_noFaults (cfg : Cfg) (c u : Script) : connF cfg Faults.none c u = conn cfg c u := by
  unfold connF conn
  generalize front cfg c = f
  cases hk : f.kind <;>
    simp [hk, Faults.none, relayPhaseF, capRun, applyCancel, relayPhase_eq_relayOf]

theorem connF_relay (cfg : Cfg) (flt : Faults) (c u : Script) (hk : (front cfg c).kind = .relay)
    (hd : flt.dialFails = false) :
    connF cfg flt c u = relayPhaseF cfg flt (front cfg c) u := by
  unfold connF; simp [hk, hd]

end DaeVerif.C05
