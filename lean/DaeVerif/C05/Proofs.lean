import DaeVerif.C05.Model
/-!
# C05 — helper lemmas (untimed part: one read, the copy loop, the engine)
-/
namespace DaeVerif.C05

theorem tad {α} (n : Nat) (l x : List α) : l ++ x = l.take n ++ (l.drop n ++ x) := by
  rw [← List.append_assoc, List.take_append_drop]
theorem tad' {α} (n : Nat) (l x : List α) : l ++ x = l.take n ++ l.drop n ++ x := by
  rw [List.take_append_drop]

/-! ### `Base.read` -/

theorem Base.read_term (n : Nat) (b : Base) : (b.read n).2.term = b.term := by
  unfold Base.read
  cases hc : b.chunks with
  | nil => rfl
  | cons c cs =>
    simp only
    by_cases hl : c.length ≤ n
    · by_cases hw : (cs.isEmpty && b.lastWithTerm) = true <;> simp [hl, hw]
    · simp [hl]

/-- whatever a read returns, it is the front of the stream and the rest is still there -/
theorem Base.read_flat (n : Nat) (b : Base) : b.flat = (b.read n).1.data ++ (b.read n).2.flat := by
  unfold Base.read
  cases hc : b.chunks with
  | nil => simp [Base.flat, hc]
  | cons c cs =>
    simp only
    by_cases hl : c.length ≤ n
    · by_cases hw : (cs.isEmpty && b.lastWithTerm) = true
      · have hcs : cs = [] := by simp at hw; exact hw.1
        have hlw : b.lastWithTerm = true := by simp at hw; exact hw.2
        subst hcs; simp [hl, hlw, Base.flat, hc]
      · simp [hl, hw, Base.flat, hc]
    · simp only [hl, ↓reduceIte, Base.flat, hc, List.flatten_cons]
      first | exact tad n c _ | exact tad' n c _

theorem Base.read_measure (n : Nat) (b : Base) :
    (b.read n).2.measure + (b.read n).1.data.length ≤ b.measure := by
  unfold Base.read
  cases hc : b.chunks with
  | nil => simp [Base.measure, hc]
  | cons c cs =>
    simp only
    by_cases hl : c.length ≤ n
    · by_cases hw : (cs.isEmpty && b.lastWithTerm) = true
      · simp [hl, hw, Base.measure, hc]; omega
      · simp [hl, hw, Base.measure, hc]; omega
    · simp only [hl, ↓reduceIte, Base.measure, hc, List.map_cons, List.sum_cons, List.length_drop,
        List.length_take]
      omega

theorem Base.read_lt (n : Nat) (hn : 0 < n) (b : Base) (h : (b.read n).1.err = none) :
    (b.read n).2.measure < b.measure := by
  unfold Base.read at h ⊢
  cases hc : b.chunks with
  | nil => simp [hc] at h
  | cons c cs =>
    simp only [hc] at h ⊢
    by_cases hl : c.length ≤ n
    · by_cases hw : (cs.isEmpty && b.lastWithTerm) = true
      · simp [hl, hw] at h
      · simp [hl, hw, Base.measure, hc]
    · simp only [hl, ↓reduceIte, Base.measure, hc, List.map_cons, List.sum_cons, List.length_drop]
      omega

/-- a read that reports the end (alone, or together with the last segment) leaves nothing behind -/
theorem Base.read_some (n : Nat) (b : Base) (e : Term) (h : (b.read n).1.err = some e) :
    e = b.term ∧ (b.read n).2.flat = [] := by
  unfold Base.read at h ⊢
  cases hc : b.chunks with
  | nil => simp [hc] at h ⊢; exact ⟨h.symm, by simp [Base.flat, hc]⟩
  | cons c cs =>
    simp only [hc] at h ⊢
    by_cases hl : c.length ≤ n
    · by_cases hw : (cs.isEmpty && b.lastWithTerm) = true
      · simp [hl, hw] at h ⊢
        exact ⟨h.symm, by simp [Base.flat]⟩
      · simp [hl, hw] at h
    · simp [hl] at h

theorem Base.read_none (n : Nat) (hn : 0 < n) (b : Base) (h : (b.read n).1.err = none) :
    b.flat = (b.read n).1.data ++ (b.read n).2.flat ∧ (b.read n).2.measure < b.measure ∧
    (b.read n).2.term = b.term :=
  ⟨Base.read_flat n b, Base.read_lt n hn b h, Base.read_term n b⟩

/-! ### `Stack.read`, case by case -/

theorem read_plain (n : Nat) (b : Base) :
    Stack.plain.read n b = ((b.read n).1, .plain, (b.read n).2) := rfl

theorem read_pre_nil (n : Nat) (b : Base) :
    (Stack.prefixed []).read n b = ((b.read n).1, .prefixed [], (b.read n).2) := by simp [Stack.read]

theorem read_pre_le (n : Nat) (rest : Bytes) (b : Base) (h : rest ≠ []) (hle : n ≤ rest.length) :
    (Stack.prefixed rest).read n b = (⟨rest.take n, none⟩, .prefixed (rest.drop n), b) := by
  have : rest.isEmpty = false := by cases rest <;> simp_all
  simp [Stack.read, this, hle]

theorem read_pre_gt (n : Nat) (rest : Bytes) (b : Base) (h : rest ≠ []) (hgt : ¬ n ≤ rest.length) :
    (Stack.prefixed rest).read n b =
      (⟨rest ++ (b.read (n - rest.length)).1.data, (b.read (n - rest.length)).1.err⟩, .prefixed [],
        (b.read (n - rest.length)).2) := by
  have : rest.isEmpty = false := by cases rest <;> simp_all
  simp [Stack.read, this, hgt]

theorem read_buf_zero (bf : Bytes) (b : Base) :
    (Stack.bufio bf).read 0 b = (⟨[], none⟩, .bufio bf, b) := by simp [Stack.read]

theorem read_buf_ne (n : Nat) (hn : n ≠ 0) (bf : Bytes) (b : Base) (h : bf ≠ []) :
    (Stack.bufio bf).read n b = (⟨bf.take n, none⟩, .bufio (bf.drop n), b) := by
  have : bf.isEmpty = false := by cases bf <;> simp_all
  simp [Stack.read, this, hn]

theorem read_buf_big (n : Nat) (hn : n ≠ 0) (b : Base) (hsz : bufioSize ≤ n) :
    (Stack.bufio []).read n b = ((b.read n).1, .bufio [], (b.read n).2) := by
  simp [Stack.read, hn, hsz]

theorem read_buf_fill_nil (n : Nat) (hn : n ≠ 0) (b : Base) (hsz : ¬ bufioSize ≤ n)
    (hd : (b.read bufioSize).1.data = []) :
    (Stack.bufio []).read n b = (⟨[], (b.read bufioSize).1.err⟩, .bufio [], (b.read bufioSize).2) := by
  simp [Stack.read, hn, hsz, hd]

theorem read_buf_fill (n : Nat) (hn : n ≠ 0) (b : Base) (hsz : ¬ bufioSize ≤ n)
    (hd : (b.read bufioSize).1.data ≠ []) :
    (Stack.bufio []).read n b =
      (⟨(b.read bufioSize).1.data.take n, none⟩, .bufio ((b.read bufioSize).1.data.drop n), (b.read bufioSize).2) := by
  have : (b.read bufioSize).1.data.isEmpty = false := by
    cases h : (b.read bufioSize).1.data <;> simp_all
  simp [Stack.read, hn, hsz, this]

theorem read_snf_ne (n : Nat) (buf : Bytes) (b : Base) (h : buf ≠ []) :
    (Stack.sniffer buf false).read n b = (⟨buf.take n, none⟩, .sniffer (buf.drop n) false, b) := by
  have : buf.isEmpty = false := by cases buf <;> simp_all
  simp [Stack.read, this]

theorem read_snf_nil (n : Nat) (b : Base) :
    (Stack.sniffer [] false).read n b = ((b.read n).1, .sniffer [] false, (b.read n).2) := by
  simp [Stack.read]

/-! ### `Stack.read`: one read (ANY size) neither loses nor duplicates; positive sizes make progress -/

structure ReadGen (n : Nat) (st : Stack) (b : Base) : Prop where
  poison : (st.read n b).2.1.poisoned = false
  term : (st.read n b).2.2.term = b.term
  cons : st.content ++ b.flat =
    (st.read n b).1.data ++ ((st.read n b).2.1.content ++ (st.read n b).2.2.flat)
  some : ∀ e, (st.read n b).1.err = some e →
    e = b.term ∧ (st.read n b).2.1.content = [] ∧ (st.read n b).2.2.flat = []
  lt : 0 < n → (st.read n b).1.err = none → (st.read n b).2.1.measure (st.read n b).2.2 < st.measure b

/-- the wrapper holds nothing and passes the read through to the conn -/
theorem readGen_through (n : Nat) (st : Stack) (b : Base) (hc : st.content = []) (hp : st.poisoned = false)
    (h : st.read n b = ((b.read n).1, st, (b.read n).2)) : ReadGen n st b := by
  refine ⟨by rw [h]; exact hp, by rw [h]; exact Base.read_term n b, ?_, ?_, ?_⟩
  · rw [h]; simp only [hc, List.nil_append]; exact Base.read_flat n b
  · intro e he; rw [h] at he ⊢
    have := Base.read_some n b e he
    exact ⟨this.1, hc, this.2⟩
  · intro hn he; rw [h] at he ⊢
    simp only [Stack.measure, hc, List.length_nil, Nat.zero_add]
    exact Base.read_lt n hn b he

theorem Stack.read_gen (n : Nat) (st : Stack) (b : Base) (hp : st.poisoned = false) : ReadGen n st b := by
  cases st with
  | plain => exact readGen_through n .plain b rfl rfl (read_plain n b)
  | prefixed rest =>
    by_cases hr : rest = []
    · subst hr; exact readGen_through n (.prefixed []) b rfl rfl (read_pre_nil n b)
    · have hpos : 0 < rest.length := by cases rest <;> simp_all
      by_cases hle : n ≤ rest.length
      · have h := read_pre_le n rest b hr hle
        refine ⟨by rw [h]; rfl, by rw [h], ?_, by intro e he; rw [h] at he; simp at he, ?_⟩
        · rw [h]; simp only [Stack.content]; first | exact tad n rest _ | exact tad' n rest _
        · intro hn _; rw [h]; simp only [Stack.measure, Stack.content, List.length_drop]; omega
      · have h := read_pre_gt n rest b hr hle
        refine ⟨by rw [h]; rfl, by rw [h]; exact Base.read_term _ b, ?_, ?_, ?_⟩
        · rw [h]; simp only [Stack.content, List.nil_append, List.append_assoc]
          rw [← Base.read_flat]
        · intro e he; rw [h] at he ⊢
          have := Base.read_some _ b e he
          exact ⟨this.1, rfl, this.2⟩
        · intro _ _; rw [h]
          have := Base.read_measure (n - rest.length) b
          simp only [Stack.measure, Stack.content, List.length_nil, Nat.zero_add]
          omega
  | bufio bf =>
    by_cases hn0 : n = 0
    · subst hn0
      have h := read_buf_zero bf b
      exact ⟨by rw [h]; rfl, by rw [h], by rw [h]; simp [Stack.content], by intro e he; rw [h] at he; simp at he,
        fun h0 => by omega⟩
    · by_cases hb : bf = []
      · subst hb
        by_cases hsz : bufioSize ≤ n
        · exact readGen_through n (.bufio []) b rfl rfl (read_buf_big n hn0 b hsz)
        · by_cases hd : (b.read bufioSize).1.data = []
          · have h := read_buf_fill_nil n hn0 b hsz hd
            refine ⟨by rw [h]; rfl, by rw [h]; exact Base.read_term _ b, ?_, ?_, ?_⟩
            · rw [h]; simp only [Stack.content, List.nil_append]
              have := Base.read_flat bufioSize b; rw [hd] at this; simpa using this
            · intro e he; rw [h] at he ⊢
              have := Base.read_some bufioSize b e he
              exact ⟨this.1, rfl, this.2⟩
            · intro _ he; rw [h] at he ⊢
              simp only [Stack.measure, Stack.content, List.length_nil, Nat.zero_add]
              exact Base.read_lt bufioSize (by decide) b he
          · have h := read_buf_fill n hn0 b hsz hd
            refine ⟨by rw [h]; rfl, by rw [h]; exact Base.read_term _ b, ?_, ?_, ?_⟩
            · rw [h]; simp only [Stack.content, List.nil_append]
              rw [Base.read_flat bufioSize b]
              first | exact tad n _ _ | exact tad' n _ _
            · intro e he; rw [h] at he; simp at he
            · intro _ _; rw [h]
              have hm := Base.read_measure bufioSize b
              have hl : 0 < (b.read bufioSize).1.data.length := by
                cases hdd : (b.read bufioSize).1.data with
                | nil => exact absurd hdd hd
                | cons _ _ => simp
              simp only [Stack.measure, Stack.content, List.length_nil, Nat.zero_add, List.length_drop]
              omega
      · have hpos : 0 < bf.length := by cases bf <;> simp_all
        have h := read_buf_ne n hn0 bf b hb
        refine ⟨by rw [h]; rfl, by rw [h], ?_, by intro e he; rw [h] at he; simp at he, ?_⟩
        · rw [h]; simp only [Stack.content]; first | exact tad n bf _ | exact tad' n bf _
        · intro _ _; rw [h]; simp only [Stack.measure, Stack.content, List.length_drop]; omega
  | sniffer buf p =>
    have : p = false := by simpa [Stack.poisoned] using hp
    subst this
    by_cases hb : buf = []
    · subst hb; exact readGen_through n (.sniffer [] false) b rfl rfl (read_snf_nil n b)
    · have hpos : 0 < buf.length := by cases buf <;> simp_all
      have h := read_snf_ne n buf b hb
      refine ⟨by rw [h]; rfl, by rw [h], ?_, by intro e he; rw [h] at he; simp at he, ?_⟩
      · rw [h]; simp only [Stack.content]; first | exact tad n buf _ | exact tad' n buf _
      · intro hn _; rw [h]; simp only [Stack.measure, Stack.content, List.length_drop]; omega

/-- the shape the copy-loop proofs use -/
structure ReadSpec (n : Nat) (st : Stack) (b : Base) : Prop where
  poison : (st.read n b).2.1.poisoned = false
  term : (st.read n b).2.2.term = b.term
  none : (st.read n b).1.err = none →
    st.content ++ b.flat = (st.read n b).1.data ++ ((st.read n b).2.1.content ++ (st.read n b).2.2.flat) ∧
    (st.read n b).2.1.measure (st.read n b).2.2 < st.measure b
  some : ∀ e, (st.read n b).1.err = some e →
    e = b.term ∧ st.content ++ b.flat = (st.read n b).1.data

theorem Stack.read_spec (n : Nat) (hn : 0 < n) (st : Stack) (b : Base) (hp : st.poisoned = false) :
    ReadSpec n st b := by
  have g := Stack.read_gen n st b hp
  refine ⟨g.poison, g.term, fun h => ⟨g.cons, g.lt hn h⟩, fun e h => ?_⟩
  have := g.some e h
  refine ⟨this.1, ?_⟩
  rw [g.cons, this.2.1, this.2.2]; simp

/-! ### the copy loop -/

def termOk (t : Term) : Bool := t == .eof

theorem copyLoop_identity (sz : Nat) (hsz : 0 < sz) :
    ∀ (fuel : Nat) (st : Stack) (b : Base), st.poisoned = false → st.measure b < fuel →
      copyLoop sz fuel st b = ⟨st.content ++ b.flat, termOk b.term⟩ := by
  intro fuel
  induction fuel with
  | zero => intro st b _ h; omega
  | succ f ih =>
    intro st b hp hm
    have spec := Stack.read_spec sz hsz st b hp
    unfold copyLoop
    cases he : (st.read sz b).1.err with
    | none =>
      have h := spec.none he
      simp only [he]
      rw [ih _ _ spec.poison (by omega)]
      simp only [Out.prepend, spec.term]
      rw [h.1]
    | some e =>
      have h := spec.some e he
      cases e with
      | eof => simp only [he]; rw [h.2, ← h.1]; rfl
      | err => simp only [he]; rw [h.2, ← h.1]; rfl

/-- a latched `dataError` ends the copy at once, after whatever was still buffered. -/
theorem copyLoop_poisoned (sz fuel : Nat) (buf : Bytes) (b : Base) :
    copyLoop sz (fuel + 1) (.sniffer buf true) b = ⟨buf.take sz, false⟩ := by
  simp [copyLoop, Stack.read]

/-! ### `take` -/

theorem Stack.take_spec (st : Stack) :
    st.take.1 = st.content ∧ st.take.2.content = [] ∧ st.take.2.poisoned = st.poisoned := by
  cases st <;> simp [Stack.take, Stack.content, Stack.poisoned]

/-! ### the engine -/

theorem copyLoop_plain (sz : Nat) (hs : 0 < sz) (fuel : Nat) (b : Base) (hb : b.measure < fuel) :
    copyLoop sz fuel .plain b = ⟨b.flat, termOk b.term⟩ := by
  have := copyLoop_identity sz hs fuel .plain b rfl (by simpa [Stack.measure, Stack.content] using hb)
  simpa [Stack.content] using this

/-- once the wrapper holds nothing, every continuation copies exactly the rest of the stream. -/
theorem continuation_identity (env : Env) (fuel : Nat) (s : Stack) (b : Base)
    (hp : s.poisoned = false) (hc : s.content = []) (hb : b.measure < fuel) :
    continuation env fuel s b = ⟨b.flat, termOk b.term⟩ := by
  have hrb : 0 < relayBuf := by decide
  have hsp : 0 < spliceStep := by decide
  cases s with
  | plain => exact copyLoop_plain _ hrb fuel b hb
  | prefixed r => exact copyLoop_plain _ hrb fuel b hb
  | bufio bf =>
    have : bf = [] := by simpa [Stack.content] using hc
    subst this
    simp only [continuation, List.isEmpty_nil, ↓reduceIte]
    split
    · exact copyLoop_plain _ hsp fuel b hb
    · exact copyLoop_plain _ hrb fuel b hb
  | sniffer bf p =>
    have hbf : bf = [] := by simpa [Stack.content] using hc
    subst hbf
    have := copyLoop_identity relayBuf hrb fuel (.sniffer [] p) b hp
      (by simpa [Stack.measure, Stack.content] using hb)
    simpa [continuation, Stack.content] using this

/-- a read through a wrapper that holds nothing leaves it holding nothing (large reads). -/
theorem Stack.read_empty_content (st : Stack) (b : Base) (hc : st.content = [])
    (hp : st.poisoned = false) : (st.read relayBuf b).2.1.content = [] := by
  cases st with
  | plain => rfl
  | prefixed r =>
    have : r = [] := by simpa [Stack.content] using hc
    subst this; simp [Stack.read, Stack.content]
  | bufio bf =>
    have : bf = [] := by simpa [Stack.content] using hc
    subst this
    have : bufioSize ≤ relayBuf := by decide
    have h0 : ¬ relayBuf = 0 := by decide
    simp [Stack.read, this, h0, Stack.content]
  | sniffer bf p =>
    have : bf = [] := by simpa [Stack.content] using hc
    subst this
    have : p = false := by simpa [Stack.poisoned] using hp
    subst this; simp [Stack.read, Stack.content]

theorem engineCopy_identity (env : Env) (fuel : Nat) (st : Stack) (b : Base)
    (hp : st.poisoned = false) (hf : st.measure b < fuel) :
    engineCopy env fuel st b = ⟨st.content ++ b.flat, termOk b.term⟩ := by
  have ht := st.take_spec
  have hrb : 0 < relayBuf := by decide
  have hsp : 0 < spliceStep := by decide
  have hbm : b.measure < fuel := by simp only [Stack.measure] at hf; omega
  have hp1 : st.take.2.poisoned = false := by rw [ht.2.2, hp]
  unfold engineCopy
  by_cases hs : st.take.1.isEmpty = true
  · -- nothing buffered: splice or plain loop
    have hc : st.content = [] := by rw [← ht.1]; simpa using hs
    simp only [hs, Bool.not_true, Bool.false_eq_true, ↓reduceIte]
    have hm1 : st.take.2.measure b < fuel := by
      simp only [Stack.measure, ht.2.1, List.length_nil, Nat.zero_add]; exact hbm
    split
    · rw [copyLoop_plain _ hsp fuel b hbm, hc]; rfl
    · rw [copyLoop_identity relayBuf hrb fuel _ b hp1 hm1, ht.2.1, hc]
  · have hs' : st.take.1.isEmpty = false := by simpa using hs
    simp only [hs', Bool.not_false, ↓reduceIte]
    by_cases hpend : (env.tcpSrc && env.pending) = true
    · simp only [hpend, ↓reduceIte]
      have spec := Stack.read_spec relayBuf hrb st.take.2 b hp1
      cases he : (st.take.2.read relayBuf b).1.err with
      | some e =>
        have h := spec.some e he
        rw [ht.2.1, List.nil_append] at h
        cases e with
        | eof => simp only [he]; rw [ht.1, ← h.2, ← h.1]; rfl
        | err => simp only [he]; rw [ht.1, ← h.2, ← h.1]; rfl
      | none =>
        have h := spec.none he
        rw [ht.2.1, List.nil_append] at h
        have hc2 := Stack.read_empty_content st.take.2 b ht.2.1 hp1
        have hm2 : (st.take.2.read relayBuf b).2.2.measure < fuel := by
          have h2 := h.2
          simp only [Stack.measure, hc2, ht.2.1, List.length_nil, Nat.zero_add] at h2
          omega
        simp only [he]
        rw [continuation_identity env fuel _ _ spec.poison hc2 hm2]
        simp only [Out.prepend, spec.term]
        rw [ht.1, h.1, hc2, List.nil_append, List.append_assoc]
    · have hpend' : (env.tcpSrc && env.pending) = false := by simpa using hpend
      simp only [hpend', Bool.false_eq_true, ↓reduceIte]
      rw [continuation_identity env fuel _ _ hp1 ht.2.1 hbm]
      simp only [Out.prepend, List.append_nil, ht.1]

/-! ### arbitrary interleavings of `Read` (any size, 0 included) and `TakeRelaySegments` -/

theorem Stack.read_any (n : Nat) (st : Stack) (b : Base) (hp : st.poisoned = false) :
    (st.read n b).2.1.poisoned = false ∧
    ((st.read n b).1.err = none →
      st.content ++ b.flat = (st.read n b).1.data ++ ((st.read n b).2.1.content ++ (st.read n b).2.2.flat)) ∧
    (∀ e, (st.read n b).1.err = some e → st.content ++ b.flat = (st.read n b).1.data) := by
  have g := Stack.read_gen n st b hp
  refine ⟨g.poison, fun _ => g.cons, fun e h => ?_⟩
  have := g.some e h
  rw [g.cons, this.2.1, this.2.2]; simp

theorem runActs_conserves :
    ∀ (as : List Act) (st : Stack) (b : Base), st.poisoned = false →
      (runActs as st b).1.flatten ++ ((runActs as st b).2.1.content ++ (runActs as st b).2.2.flat) =
        st.content ++ b.flat ∨
      (runActs as st b).1.flatten = st.content ++ b.flat := by
  intro as
  induction as with
  | nil => intro st b _; left; simp [runActs]
  | cons a as ih =>
    intro st b hp
    cases a with
    | take =>
      have ht := st.take_spec
      simp only [runActs, List.flatten_cons]
      rcases ih st.take.2 b (by rw [ht.2.2, hp]) with h | h
      · left; rw [List.append_assoc, h, ht.1, ht.2.1, List.nil_append]
      · right; rw [h, ht.1, ht.2.1, List.nil_append]
    | read n =>
      have spec := Stack.read_any n st b hp
      simp only [runActs]
      cases he : (st.read n b).1.err with
      | none =>
        simp only [List.flatten_cons]
        rcases ih _ _ spec.1 with h | h
        · left; rw [List.append_assoc, h]; exact (spec.2.1 he).symm
        · right; rw [h]; exact (spec.2.1 he).symm
      | some e =>
        right
        simp only [List.flatten_cons, List.flatten_nil, List.append_nil]
        exact (spec.2.2 e he).symm

end DaeVerif.C05
