import DaeVerif.C05.Model
/-!
# C05 — helper lemmas (untimed part: one read, the copy loop, the engine)
-/
namespace DaeVerif.C05

theorem tad {α} (n : Nat) (l x : List α) : l ++ x = l.take n ++ (l.drop n ++ x) := by
  rw [← List.append_assoc, List.take_append_drop]
theorem tad' {α} (n : Nat) (l x : List α) : l ++ x = l.take n ++ l.drop n ++ x := by
  rw [List.take_append_drop]

/-! ### `Base.read` -/

theorem Base.read_none (n : Nat) (hn : 0 < n) (b : Base) (h : (b.read n).1.err = none) :
    b.flat = (b.read n).1.data ++ (b.read n).2.flat ∧ (b.read n).2.measure < b.measure ∧
    (b.read n).2.term = b.term := by
  unfold Base.read
  unfold Base.read at h
  cases hc : b.chunks with
  | nil => simp [hc] at h
  | cons c cs =>
    simp only [hc] at h ⊢
    by_cases hl : c.length ≤ n
    · simp [hl, Base.flat, Base.measure, hc]
    · simp only [hl, ↓reduceIte, Base.flat, Base.measure, hc, List.flatten_cons, List.map_cons,
        List.sum_cons, List.length_drop]
      refine ⟨?_, ?_, ?_⟩
      · first | exact tad n c _ | exact tad' n c _
      · omega
      · trivial

theorem Base.read_some (n : Nat) (b : Base) (e : Term) (h : (b.read n).1.err = some e) :
    e = b.term ∧ b.flat = [] ∧ (b.read n).1.data = [] := by
  unfold Base.read at h ⊢
  cases hc : b.chunks with
  | nil => simp [hc] at h ⊢; exact ⟨h.symm, by simp [Base.flat, hc]⟩
  | cons c cs =>
    simp only [hc] at h
    by_cases hl : c.length ≤ n <;> simp [hl] at h

/-! ### `Stack.read`: one read neither loses nor duplicates, and makes progress -/

structure ReadSpec (n : Nat) (st : Stack) (b : Base) : Prop where
  poison : (st.read n b).2.1.poisoned = false
  term : (st.read n b).2.2.term = b.term
  none : (st.read n b).1.err = none →
    st.content ++ b.flat = (st.read n b).1.data ++ ((st.read n b).2.1.content ++ (st.read n b).2.2.flat) ∧
    (st.read n b).2.1.measure (st.read n b).2.2 < st.measure b
  some : ∀ e, (st.read n b).1.err = some e →
    e = b.term ∧ st.content ++ b.flat = (st.read n b).1.data

theorem Stack.read_spec (n : Nat) (hn : 0 < n) (st : Stack) (b : Base) (hp : st.poisoned = false) :
    ReadSpec n st b := by
  cases st with
  | plain =>
    refine ⟨rfl, ?_, ?_, ?_⟩
    · simp only [Stack.read]
      cases he : (b.read n).1.err with
      | none => exact (Base.read_none n hn b he).2.2
      | some e =>
        unfold Base.read at he ⊢
        cases hc : b.chunks with
        | nil => simp [hc]
        | cons c cs => simp only [hc] at he; by_cases hl : c.length ≤ n <;> simp [hl] at he
    · intro h
      have := Base.read_none n hn b h
      simp only [Stack.read, Stack.content, Stack.measure, List.nil_append, List.length_nil, Nat.zero_add]
      exact ⟨this.1, this.2.1⟩
    · intro e h
      have := Base.read_some n b e h
      simp only [Stack.read, Stack.content, List.nil_append]
      exact ⟨this.1, by rw [this.2.1, this.2.2]⟩
  | prefixed rest =>
    by_cases hr : rest = []
    · subst hr
      have hterm : (b.read n).2.term = b.term := by
        unfold Base.read
        cases hc : b.chunks with
        | nil => simp
        | cons c cs => simp only; split <;> rfl
      refine ⟨by simp [Stack.read, Stack.poisoned], by simpa [Stack.read] using hterm, ?_, ?_⟩
      · intro h
        simp only [Stack.read, List.isEmpty_nil, ite_true] at h ⊢
        have := Base.read_none n hn b h
        simp only [Stack.content, Stack.measure, List.nil_append, List.length_nil, Nat.zero_add]
        exact ⟨this.1, this.2.1⟩
      · intro e h
        simp only [Stack.read, List.isEmpty_nil, ite_true] at h ⊢
        have := Base.read_some n b e h
        simp only [Stack.content, List.nil_append]
        exact ⟨this.1, by rw [this.2.1, this.2.2]⟩
    · have hne : rest.isEmpty = false := by cases rest <;> simp_all
      by_cases hle : n ≤ rest.length
      · refine ⟨by simp [Stack.read, hne, hle, Stack.poisoned], by simp [Stack.read, hne, hle], ?_, ?_⟩
        · intro _
          simp only [Stack.read, hne, hle, Bool.false_eq_true, ↓reduceIte, Stack.content, Stack.measure,
            List.length_drop]
          refine ⟨?_, ?_⟩
          · first | exact tad n rest _ | exact tad' n rest _
          · have : 0 < rest.length := by cases rest <;> simp_all
            omega
        · intro e h; simp [Stack.read, hne, hle] at h
      · have hterm : (b.read (n - rest.length)).2.term = b.term := by
          unfold Base.read
          cases hc : b.chunks with
          | nil => simp
          | cons c cs => simp only; split <;> rfl
        refine ⟨by simp [Stack.read, hne, hle, Stack.poisoned], by simpa [Stack.read, hne, hle] using hterm, ?_, ?_⟩
        · intro h
          simp only [Stack.read, hne, hle, Bool.false_eq_true, ↓reduceIte] at h ⊢
          have := Base.read_none (n - rest.length) (by omega) b h
          simp only [Stack.content, Stack.measure, List.nil_append, List.length_nil, Nat.zero_add,
            List.append_assoc]
          refine ⟨by rw [this.1], ?_⟩
          have := this.2.1; omega
        · intro e h
          simp only [Stack.read, hne, hle, Bool.false_eq_true, ↓reduceIte] at h ⊢
          have := Base.read_some (n - rest.length) b e h
          simp only [Stack.content]
          exact ⟨this.1, by rw [this.2.1, this.2.2]⟩
  | bufio buffered =>
    have hn0 : ¬ n = 0 := by omega
    have hterm : ∀ k, (b.read k).2.term = b.term := by
      intro k; unfold Base.read
      cases hc : b.chunks with
      | nil => simp
      | cons c cs => simp only; split <;> rfl
    by_cases hb : buffered = []
    · subst hb
      by_cases hsz : bufioSize ≤ n
      · refine ⟨by simp [Stack.read, hn0, ↓reduceIte, hsz, Stack.poisoned], by simpa [Stack.read, hn0, ↓reduceIte, hsz] using hterm n, ?_, ?_⟩
        · intro h
          simp only [Stack.read, hn0, ↓reduceIte, List.isEmpty_nil, hsz, ite_true, Bool.not_true, Bool.false_eq_true,
            ite_false] at h ⊢
          have := Base.read_none n hn b h
          simp only [Stack.content, Stack.measure, List.nil_append, List.length_nil, Nat.zero_add]
          exact ⟨this.1, this.2.1⟩
        · intro e h
          simp only [Stack.read, hn0, ↓reduceIte, List.isEmpty_nil, hsz, ite_true, Bool.not_true, Bool.false_eq_true,
            ite_false] at h ⊢
          have := Base.read_some n b e h
          simp only [Stack.content, List.nil_append]
          exact ⟨this.1, by rw [this.2.1, this.2.2]⟩
      · by_cases hd : (b.read bufioSize).1.data.isEmpty = true
        · refine ⟨by simp [Stack.read, hn0, ↓reduceIte, hsz, hd, Stack.poisoned],
            by simpa [Stack.read, hn0, ↓reduceIte, hsz, hd] using hterm bufioSize, ?_, ?_⟩
          · intro h
            simp only [Stack.read, hn0, ↓reduceIte, List.isEmpty_nil, hsz, hd, ite_true, Bool.not_true,
              Bool.false_eq_true, ite_false] at h ⊢
            have := Base.read_none bufioSize (by decide) b h
            have hd' : (b.read bufioSize).1.data = [] := by simpa using hd
            simp only [Stack.content, Stack.measure, List.nil_append, List.length_nil, Nat.zero_add]
            refine ⟨by rw [this.1, hd']; rfl, this.2.1⟩
          · intro e h
            simp only [Stack.read, hn0, ↓reduceIte, List.isEmpty_nil, hsz, hd, ite_true, Bool.not_true,
              Bool.false_eq_true, ite_false] at h ⊢
            have := Base.read_some bufioSize b e h
            simp only [Stack.content, List.nil_append]
            exact ⟨this.1, this.2.1⟩
        · have hd0 : (b.read bufioSize).1.data.isEmpty = false := by simpa using hd
          have herr : (b.read bufioSize).1.err = none := by
            cases he : (b.read bufioSize).1.err with
            | none => rfl
            | some e => have := (Base.read_some bufioSize b e he).2.2; simp [this] at hd0
          refine ⟨by simp [Stack.read, hn0, ↓reduceIte, hsz, hd0, Stack.poisoned],
            by simpa [Stack.read, hn0, ↓reduceIte, hsz, hd0] using hterm bufioSize, ?_, ?_⟩
          · intro _
            simp only [Stack.read, hn0, ↓reduceIte, List.isEmpty_nil, hsz, hd0, ite_true, Bool.not_true,
              Bool.false_eq_true, ite_false]
            have := Base.read_none bufioSize (by decide) b herr
            simp only [Stack.content, Stack.measure, List.nil_append, List.length_nil, Nat.zero_add,
              List.length_drop]
            refine ⟨?_, ?_⟩
            · rw [this.1]; first | exact tad n _ _ | exact tad' n _ _
            · have h1 := this.2.1
              have h2 : b.flat.length = (b.read bufioSize).1.data.length + (b.read bufioSize).2.flat.length := by
                rw [this.1, List.length_append]
              have hpos : 0 < (b.read bufioSize).1.data.length := by
                cases hdd : (b.read bufioSize).1.data with
                | nil => simp [hdd] at hd0
                | cons _ _ => simp
              -- the fill consumed a whole chunk (or part of one): measure drops by at least its length
              have hm : (b.read bufioSize).2.measure + (b.read bufioSize).1.data.length ≤ b.measure := by
                unfold Base.read at herr ⊢
                cases hc : b.chunks with
                | nil => simp [hc] at herr
                | cons c cs =>
                  simp only [hc]
                  by_cases hl : c.length ≤ bufioSize
                  · simp [hl, Base.measure, hc]; omega
                  · simp only [hl, ite_false, Base.measure, hc, List.map_cons, List.sum_cons,
                      List.length_drop, List.length_take]
                    omega
              omega
          · intro e h
            simp [Stack.read, hn0, ↓reduceIte, hsz, hd0] at h
    · have hne : buffered.isEmpty = false := by cases buffered <;> simp_all
      refine ⟨by simp [Stack.read, hn0, ↓reduceIte, hne, Stack.poisoned], by simp [Stack.read, hn0, ↓reduceIte, hne], ?_, ?_⟩
      · intro _
        simp only [Stack.read, hn0, ↓reduceIte, hne, Bool.not_false, ite_true, Stack.content, Stack.measure,
          List.length_drop]
        refine ⟨by first | exact tad n buffered _ | exact tad' n buffered _, ?_⟩
        have : 0 < buffered.length := by cases buffered <;> simp_all
        omega
      · intro e h; simp [Stack.read, hn0, ↓reduceIte, hne] at h
  | sniffer buf poison =>
    have hpo : poison = false := by simpa [Stack.poisoned] using hp
    subst hpo
    have hterm : ∀ k, (b.read k).2.term = b.term := by
      intro k; unfold Base.read
      cases hc : b.chunks with
      | nil => simp
      | cons c cs => simp only; split <;> rfl
    by_cases hb : buf = []
    · subst hb
      refine ⟨by simp [Stack.read, Stack.poisoned], by simpa [Stack.read] using hterm n, ?_, ?_⟩
      · intro h
        simp only [Stack.read, Bool.false_eq_true, ite_false, List.isEmpty_nil, Bool.not_true] at h ⊢
        have := Base.read_none n hn b h
        simp only [Stack.content, Stack.measure, List.nil_append, List.length_nil, Nat.zero_add]
        exact ⟨this.1, this.2.1⟩
      · intro e h
        simp only [Stack.read, Bool.false_eq_true, ite_false, List.isEmpty_nil, Bool.not_true] at h ⊢
        have := Base.read_some n b e h
        simp only [Stack.content, List.nil_append]
        exact ⟨this.1, by rw [this.2.1, this.2.2]⟩
    · have hne : buf.isEmpty = false := by cases buf <;> simp_all
      refine ⟨by simp [Stack.read, hne, Stack.poisoned], by simp [Stack.read, hne], ?_, ?_⟩
      · intro _
        simp only [Stack.read, Bool.false_eq_true, ite_false, hne, Bool.not_false, ite_true,
          Stack.content, Stack.measure, List.length_drop]
        refine ⟨by first | exact tad n buf _ | exact tad' n buf _, ?_⟩
        have : 0 < buf.length := by cases buf <;> simp_all
        omega
      · intro e h; simp [Stack.read, hne] at h

/-! ### the copy loop -/

def termOk (t : Term) : Bool := t == .eof

theorem copyLoop_identity (sz : Nat) (hsz : 0 < sz) :
    ∀ (fuel : Nat) (st : Stack) (b : Base), st.poisoned = false → st.measure b < fuel →
      copyLoop sz fuel st b = ⟨st.content ++ b.flat, termOk b.term⟩ := by
  intro fuel
  induction fuel with
  | zero => intro st b _ h; omega
  | succ f ih =>
    intro st b hp hm
    have spec := Stack.read_spec sz hsz st b hp
    unfold copyLoop
    cases he : (st.read sz b).1.err with
    | none =>
      have h := spec.none he
      simp only [he]
      rw [ih _ _ spec.poison (by omega)]
      simp only [Out.prepend, spec.term]
      rw [h.1]
    | some e =>
      have h := spec.some e he
      cases e with
      | eof => simp only [he]; rw [h.2, ← h.1]; rfl
      | err => simp only [he]; rw [h.2, ← h.1]; rfl

/-- a latched `dataError` ends the copy at once, after whatever was still buffered. -/
theorem copyLoop_poisoned (sz fuel : Nat) (buf : Bytes) (b : Base) :
    copyLoop sz (fuel + 1) (.sniffer buf true) b = ⟨buf.take sz, false⟩ := by
  simp [copyLoop, Stack.read]

/-! ### `take` -/

theorem Stack.take_spec (st : Stack) :
    st.take.1 = st.content ∧ st.take.2.content = [] ∧ st.take.2.poisoned = st.poisoned := by
  cases st <;> simp [Stack.take, Stack.content, Stack.poisoned]

/-! ### the engine -/

theorem copyLoop_plain (sz : Nat) (hs : 0 < sz) (fuel : Nat) (b : Base) (hb : b.measure < fuel) :
    copyLoop sz fuel .plain b = ⟨b.flat, termOk b.term⟩ := by
  have := copyLoop_identity sz hs fuel .plain b rfl (by simpa [Stack.measure, Stack.content] using hb)
  simpa [Stack.content] using this

/-- once the wrapper holds nothing, every continuation copies exactly the rest of the stream. -/
theorem continuation_identity (env : Env) (fuel : Nat) (s : Stack) (b : Base)
    (hp : s.poisoned = false) (hc : s.content = []) (hb : b.measure < fuel) :
    continuation env fuel s b = ⟨b.flat, termOk b.term⟩ := by
  have hrb : 0 < relayBuf := by decide
  have hsp : 0 < spliceStep := by decide
  cases s with
  | plain => exact copyLoop_plain _ hrb fuel b hb
  | prefixed r => exact copyLoop_plain _ hrb fuel b hb
  | bufio bf =>
    have : bf = [] := by simpa [Stack.content] using hc
    subst this
    simp only [continuation, List.isEmpty_nil, ↓reduceIte]
    split
    · exact copyLoop_plain _ hsp fuel b hb
    · exact copyLoop_plain _ hrb fuel b hb
  | sniffer bf p =>
    have hbf : bf = [] := by simpa [Stack.content] using hc
    subst hbf
    have := copyLoop_identity relayBuf hrb fuel (.sniffer [] p) b hp
      (by simpa [Stack.measure, Stack.content] using hb)
    simpa [continuation, Stack.content] using this

/-- a read through a wrapper that holds nothing leaves it holding nothing (large reads). -/
theorem Stack.read_empty_content (st : Stack) (b : Base) (hc : st.content = [])
    (hp : st.poisoned = false) : (st.read relayBuf b).2.1.content = [] := by
  cases st with
  | plain => rfl
  | prefixed r =>
    have : r = [] := by simpa [Stack.content] using hc
    subst this; simp [Stack.read, Stack.content]
  | bufio bf =>
    have : bf = [] := by simpa [Stack.content] using hc
    subst this
    have : bufioSize ≤ relayBuf := by decide
    have h0 : ¬ relayBuf = 0 := by decide
    simp [Stack.read, this, h0, Stack.content]
  | sniffer bf p =>
    have : bf = [] := by simpa [Stack.content] using hc
    subst this
    have : p = false := by simpa [Stack.poisoned] using hp
    subst this; simp [Stack.read, Stack.content]

theorem engineCopy_identity (env : Env) (fuel : Nat) (st : Stack) (b : Base)
    (hp : st.poisoned = false) (hf : st.measure b < fuel) :
    engineCopy env fuel st b = ⟨st.content ++ b.flat, termOk b.term⟩ := by
  have ht := st.take_spec
  have hrb : 0 < relayBuf := by decide
  have hsp : 0 < spliceStep := by decide
  have hbm : b.measure < fuel := by simp only [Stack.measure] at hf; omega
  have hp1 : st.take.2.poisoned = false := by rw [ht.2.2, hp]
  unfold engineCopy
  by_cases hs : st.take.1.isEmpty = true
  · -- nothing buffered: splice or plain loop
    have hc : st.content = [] := by rw [← ht.1]; simpa using hs
    simp only [hs, Bool.not_true, Bool.false_eq_true, ↓reduceIte]
    have hm1 : st.take.2.measure b < fuel := by
      simp only [Stack.measure, ht.2.1, List.length_nil, Nat.zero_add]; exact hbm
    split
    · rw [copyLoop_plain _ hsp fuel b hbm, hc]; rfl
    · rw [copyLoop_identity relayBuf hrb fuel _ b hp1 hm1, ht.2.1, hc]
  · have hs' : st.take.1.isEmpty = false := by simpa using hs
    simp only [hs', Bool.not_false, ↓reduceIte]
    by_cases hpend : (env.tcpSrc && env.pending) = true
    · simp only [hpend, ↓reduceIte]
      have spec := Stack.read_spec relayBuf hrb st.take.2 b hp1
      cases he : (st.take.2.read relayBuf b).1.err with
      | some e =>
        have h := spec.some e he
        rw [ht.2.1, List.nil_append] at h
        cases e with
        | eof => simp only [he]; rw [ht.1, ← h.2, ← h.1]; rfl
        | err => simp only [he]; rw [ht.1, ← h.2, ← h.1]; rfl
      | none =>
        have h := spec.none he
        rw [ht.2.1, List.nil_append] at h
        have hc2 := Stack.read_empty_content st.take.2 b ht.2.1 hp1
        have hm2 : (st.take.2.read relayBuf b).2.2.measure < fuel := by
          have h2 := h.2
          simp only [Stack.measure, hc2, ht.2.1, List.length_nil, Nat.zero_add] at h2
          omega
        simp only [he]
        rw [continuation_identity env fuel _ _ spec.poison hc2 hm2]
        simp only [Out.prepend, spec.term]
        rw [ht.1, h.1, hc2, List.nil_append, List.append_assoc]
    · have hpend' : (env.tcpSrc && env.pending) = false := by simpa using hpend
      simp only [hpend', Bool.false_eq_true, ↓reduceIte]
      rw [continuation_identity env fuel _ _ hp1 ht.2.1 hbm]
      simp only [Out.prepend, List.append_nil, ht.1]

/-! ### arbitrary interleavings of `Read` (any size, 0 included) and `TakeRelaySegments` -/

theorem Base.read_flat (n : Nat) (b : Base) (h : (b.read n).1.err = none) :
    b.flat = (b.read n).1.data ++ (b.read n).2.flat := by
  unfold Base.read at h ⊢
  cases hc : b.chunks with
  | nil => simp [hc] at h
  | cons c cs =>
    simp only [hc]
    by_cases hl : c.length ≤ n
    · simp [hl, Base.flat, hc]
    · simp only [hl, ↓reduceIte, Base.flat, hc, List.flatten_cons]
      first | exact tad n c _ | exact tad' n c _

/-- a zero-length `Read` never moves a byte in a way that loses it -/
theorem Stack.read_zero (st : Stack) (b : Base) (hp : st.poisoned = false) :
    (st.read 0 b).2.1.poisoned = false ∧
    ((st.read 0 b).1.err = none →
      st.content ++ b.flat = (st.read 0 b).1.data ++ ((st.read 0 b).2.1.content ++ (st.read 0 b).2.2.flat)) ∧
    (∀ e, (st.read 0 b).1.err = some e → st.content ++ b.flat = (st.read 0 b).1.data) := by
  cases st with
  | plain =>
    refine ⟨rfl, fun h => ?_, fun e h => ?_⟩
    · simpa [Stack.read, Stack.content] using Base.read_flat 0 b h
    · have := Base.read_some 0 b e h
      simp [Stack.read, Stack.content, this.2.1, this.2.2]
  | prefixed rest =>
    by_cases hr : rest = []
    · subst hr
      refine ⟨by simp [Stack.read, Stack.poisoned], fun h => ?_, fun e h => ?_⟩
      · simp only [Stack.read, List.isEmpty_nil, ↓reduceIte] at h ⊢
        simpa [Stack.content] using Base.read_flat 0 b h
      · simp only [Stack.read, List.isEmpty_nil, ↓reduceIte] at h ⊢
        have := Base.read_some 0 b e h
        simp [Stack.content, this.2.1, this.2.2]
    · have hne : rest.isEmpty = false := by cases rest <;> simp_all
      refine ⟨by simp [Stack.read, hne, Stack.poisoned], fun _ => ?_, fun e h => ?_⟩
      · simp [Stack.read, hne, Stack.content]
      · simp [Stack.read, hne] at h
  | bufio bf =>
    refine ⟨by simp [Stack.read, Stack.poisoned], fun _ => by simp [Stack.read, Stack.content],
      fun e h => by simp [Stack.read] at h⟩
  | sniffer buf p =>
    have : p = false := by simpa [Stack.poisoned] using hp
    subst this
    by_cases hb : buf = []
    · subst hb
      refine ⟨by simp [Stack.read, Stack.poisoned], fun h => ?_, fun e h => ?_⟩
      · simp only [Stack.read, Bool.false_eq_true, ↓reduceIte, List.isEmpty_nil, Bool.not_true] at h ⊢
        simpa [Stack.content] using Base.read_flat 0 b h
      · simp only [Stack.read, Bool.false_eq_true, ↓reduceIte, List.isEmpty_nil, Bool.not_true] at h ⊢
        have := Base.read_some 0 b e h
        simp [Stack.content, this.2.1, this.2.2]
    · have hne : buf.isEmpty = false := by cases buf <;> simp_all
      refine ⟨by simp [Stack.read, hne, Stack.poisoned], fun _ => by simp [Stack.read, hne, Stack.content],
        fun e h => by simp [Stack.read, hne] at h⟩

theorem Stack.read_any (n : Nat) (st : Stack) (b : Base) (hp : st.poisoned = false) :
    (st.read n b).2.1.poisoned = false ∧
    ((st.read n b).1.err = none →
      st.content ++ b.flat = (st.read n b).1.data ++ ((st.read n b).2.1.content ++ (st.read n b).2.2.flat)) ∧
    (∀ e, (st.read n b).1.err = some e → st.content ++ b.flat = (st.read n b).1.data) := by
  rcases Nat.eq_zero_or_pos n with h0 | hpos
  · subst h0; exact Stack.read_zero st b hp
  · have spec := Stack.read_spec n hpos st b hp
    exact ⟨spec.poison, fun h => (spec.none h).1, fun e h => (spec.some e h).2⟩

theorem runActs_conserves :
    ∀ (as : List Act) (st : Stack) (b : Base), st.poisoned = false →
      (runActs as st b).1.flatten ++ ((runActs as st b).2.1.content ++ (runActs as st b).2.2.flat) =
        st.content ++ b.flat ∨
      (runActs as st b).1.flatten = st.content ++ b.flat := by
  intro as
  induction as with
  | nil => intro st b _; left; simp [runActs]
  | cons a as ih =>
    intro st b hp
    cases a with
    | take =>
      have ht := st.take_spec
      simp only [runActs, List.flatten_cons]
      rcases ih st.take.2 b (by rw [ht.2.2, hp]) with h | h
      · left; rw [List.append_assoc, h, ht.1, ht.2.1, List.nil_append]
      · right; rw [h, ht.1, ht.2.1, List.nil_append]
    | read n =>
      have spec := Stack.read_any n st b hp
      simp only [runActs]
      cases he : (st.read n b).1.err with
      | none =>
        simp only [List.flatten_cons]
        rcases ih _ _ spec.1 with h | h
        · left; rw [List.append_assoc, h]; exact (spec.2.1 he).symm
        · right; rw [h]; exact (spec.2.1 he).symm
      | some e =>
        right
        simp only [List.flatten_cons, List.flatten_nil, List.append_nil]
        exact (spec.2.2 e he).symm

end DaeVerif.C05
