import DaeVerif.C05.ProofsTimed
import DaeVerif.C05.ProofsX
import DaeVerif.C05.Gen.DeadlinePaths
/-!
# C05 — property theorems

"For a proxied TCP connection the bytes the upstream receives are exactly the bytes the client sent,
in order, without loss or duplication, and the same holds in the reverse direction — however the
data is segmented, whether early bytes were buffered for DNS-over-TCP detection or for sniffing,
and whichever copy path is taken.  End of stream on one side is passed on as a write-shutdown to
the other while the opposite direction keeps flowing for the relay's bounded grace period, and
dae's own protocol-detection deadlines delay a connection by no more than their detection window
and never cut an otherwise healthy connection."

Only statements a reader should audit live here; helper lemmas are in `Proofs.lean` (untimed) and
`ProofsTimed.lean`.  Every theorem is followed by a non-vacuity `example`.  All theorems are about
the definitions the driver `c05drv` executes (`engineCopy`, `front`, `conn`).
-/
namespace DaeVerif.C05.Props
open DaeVerif.C05

/-! ## 1. Byte fidelity of the copy engine (every wrapper stack × every copy path × every segmentation) -/

/-- **Headline.** Whatever the wrapper (`plain`, `prefixedConn`, `bufioConn`, `ConnSniffer`), however
the rest of the stream is cut into segments (`b.chunks`, empty reads included), however the stream
ends, and whichever path the engine takes (gather write with or without a body read, continuation
copy, splice, buffered loop — all eight values of `env`), the destination receives exactly the
bytes still buffered in the wrapper followed by the rest of the stream: nothing lost, nothing
duplicated, nothing reordered; and the copy reports success exactly when the stream ended by EOF. -/
theorem relay_identity (env : Env) (st : Stack) (b : Base) (fuel : Nat)
    (hfuel : st.measure b < fuel) (hp : st.poisoned = false) :
    engineCopy env fuel st b = ⟨st.content ++ b.flat, b.term == .eof⟩ :=
  engineCopy_identity env fuel st b hp hfuel

example : (Stack.bufio [1, 2, 3]).measure ⟨[[4], [], [5, 6]], .eof, false⟩ < 20 ∧
    (Stack.bufio [1, 2, 3]).poisoned = false ∧
    engineCopy ⟨true, true, true⟩ 20 (.bufio [1, 2, 3]) ⟨[[4], [], [5, 6]], .eof, false⟩ = ⟨[1, 2, 3, 4, 5, 6], true⟩ := by
  decide

/-- The buffered loop alone (`relayCopyLoop` / `relayCopyDirect` / the splice loop), for every read
size: this is the path taken when nothing was buffered and the pair is not TCP-to-TCP. -/
theorem copy_loop_identity (sz : Nat) (hsz : 0 < sz) (st : Stack) (b : Base) (fuel : Nat)
    (hfuel : st.measure b < fuel) (hp : st.poisoned = false) :
    copyLoop sz fuel st b = ⟨st.content ++ b.flat, b.term == .eof⟩ :=
  copyLoop_identity sz hsz fuel st b hp hfuel

example : copyLoop 2 20 (.prefixed [9, 8, 7]) ⟨[[1, 2, 3]], .err, false⟩ = ⟨[9, 8, 7, 1, 2, 3], false⟩ := by decide

/-- `TakeRelaySegments`/`TakeRelayPrefix` hand over everything that was buffered, once: afterwards
the wrapper holds nothing, so no later read can return those bytes again. -/
theorem take_then_remainder (st : Stack) :
    st.take.1 = st.content ∧ st.take.2.content = [] := ⟨st.take_spec.1, st.take_spec.2.1⟩

example : (Stack.sniffer [1, 2] false).take = ([1, 2], .sniffer [] false) := by decide

/-- One read through any wrapper neither loses nor duplicates: what it returns, plus what the wrapper
still holds, plus what is left of the stream, is what was there before. -/
theorem read_conserves (n : Nat) (hn : 0 < n) (st : Stack) (b : Base) (hp : st.poisoned = false)
    (h : (st.read n b).1.err = none) :
    st.content ++ b.flat =
      (st.read n b).1.data ++ ((st.read n b).2.1.content ++ (st.read n b).2.2.flat) :=
  ((Stack.read_spec n hn st b hp).none h).1

example : ((Stack.prefixed [1, 2, 3]).read 5 ⟨[[4, 5, 6]], .eof, false⟩).1.data = [1, 2, 3, 4, 5] := by decide

/-- **Any use of a wrapper.** For every interleaving of `Read(p)` with arbitrary buffer sizes (0, 1,
one less / equal / one more than the prefix, …) and `TakeRelaySegments`/`TakeRelayPrefix` at any
point — before any read, after a short read, after the prefix is exhausted — what was handed out, in
order, followed by what the wrapper still holds and what is left of the stream, is exactly what was
there at the start; and if a read reported the end of the stream, everything has been handed out. -/
theorem interleaving_conserves (as : List Act) (st : Stack) (b : Base) (hp : st.poisoned = false) :
    (runActs as st b).1.flatten ++ ((runActs as st b).2.1.content ++ (runActs as st b).2.2.flat) =
        st.content ++ b.flat ∨
    (runActs as st b).1.flatten = st.content ++ b.flat :=
  runActs_conserves as st b hp

example : runActs [.read 0, .read 1, .take, .read 0, .read 5, .read 5] (.prefixed [1, 2, 3]) ⟨[[4, 5]], .eof, false⟩ =
    ([[], [1], [2, 3], [], [4, 5], []], .prefixed [], ⟨[], .eof, false⟩) := by decide

/-- What a latched stream error does (the only case excluded above): the copy delivers what the
sniffer had buffered and fails — it never invents, reorders or repeats bytes either. -/
theorem poisoned_copy_delivers_buffer_only (env : Env) (buf : Bytes) (b : Base) (fuel : Nat)
    (hne : buf ≠ []) :
    engineCopy env (fuel + 1) (.sniffer buf true) b = ⟨buf, false⟩ := by
  have : buf.isEmpty = false := by cases buf <;> simp_all
  obtain ⟨s, d, p⟩ := env
  cases s <;> cases p <;>
    simp [engineCopy, Stack.take, this, continuation, copyLoop, Stack.read, Out.prepend]

example : engineCopy ⟨true, true, true⟩ 5 (.sniffer [7] true) ⟨[[1]], .eof, false⟩ = ⟨[7], false⟩ := by decide

/-- a conn that returns its last segment TOGETHER with the end of the stream (`(n > 0, io.EOF)`, as
proxy-protocol conns may) is covered by every theorem of this section (`Base.lastWithTerm`) -/
example : copyLoop 4 9 .plain ⟨[[1, 2], [3]], .eof, true⟩ = ⟨[1, 2, 3], true⟩ ∧
    (Base.read 4 ⟨[[3]], .err, true⟩).1 = ⟨[3], some .err⟩ := by decide

/-! ## 2. Detection hands every byte over to the relay, within its window, with no deadline left -/

/-- **Headline.** Whatever the client sends and whenever (`c`: any segments at any times), whatever
the oracles say, when `handleConn` reaches the dial the bytes buffered in the wrapper it hands to
the relay, followed by what the client has not yet been read, are exactly the client's stream —
for DNS-over-TCP detection (non-DNS bytes, short frames, responses, oversize lengths, timeouts),
for the sniff prefetch (no early data, partial prefix, unlikely prefix) and for the sniffer's
need-more loop.  The end of the client's stream is still to come. -/
theorem detection_hands_over_every_byte (cfg : Cfg) (c : Script)
    (h : (front cfg c).kind = .relay) :
    (front cfg c).st.content ++ (front cfg c).rest.stream = c.stream ∧
    (front cfg c).rest.finT = c.finT ∧ (front cfg c).rest.fin = c.fin :=
  ⟨(front_spec cfg c).stream h, (front_spec cfg c).finT, (front_spec cfg c).fin⟩

def exCfg : Cfg :=
  { start := 0, port53 := false, sniff := true, window := 100000, dnsUnpackOk := false, dnsCtl := false,
    likely := true, needMore := [16], offer := [(16, 4080)], rightCW := true, leftCW := true }
/-- "GET / HTTP/1.1\r\n" at t=0, the rest 300 ms later, FIN at 2.3 s -/
def exClient : Script :=
  ⟨[⟨0, [71, 69, 84, 32, 47, 32, 72, 84, 84, 80, 47, 49, 46, 49, 13, 10]⟩, ⟨300000, [72, 111, 115, 116]⟩], 2300000, .eof⟩
def exUp : Script := ⟨[⟨5000, [50, 48, 48]⟩], 9000000, .eof⟩

example : (front exCfg exClient).kind = .relay ∧ (front exCfg exClient).T = 100000 ∧
    (front exCfg exClient).st = .sniffer [71, 69, 84, 32, 47, 32, 72, 84, 84, 80, 47, 49, 46, 49, 13, 10] false := by
  decide

/-- **The detection front never fails (no-panic clause).** For every client byte stream, segmentation and
timing, DNS-over-TCP detection (a) decodes the length prefix only from two bytes that were really
read, (b) inspects the frame (`Unpack`, QR bit, `Discard` — the code's `fullData[2:]`) only when all
`2 + len` bytes are in the reader, with `2 + len` computed without wrap-around (in ℕ, as
`2 + int(length)` since 74b17e5 — not `int(2 + length)` in uint16, which turned 0xFFFF/0xFFFE into 1/0
and sliced out of range), so a frame larger than the 4096-byte reader never gets there, and (c) ends in
exactly one of the three outcomes relay / handled as DNS / connection ended. -/
theorem detection_total (cfg : Cfg) (s : Script) :
    (match (peekLoop (some (cfg.start + dnsWindow)) 2 s.fuel s cfg.start []).1 with
      | .ok => 2 ≤ (peekLoop (some (cfg.start + dnsWindow)) 2 s.fuel s cfg.start []).2.2.1.length
      | _ => True) ∧
    (∀ (p1buf : Bytes) (rest : Script) (now : Nat), p1buf.length ≤ bufioSize →
      match (peekLoop (some (cfg.start + dnsWindow)) (2 + be16 p1buf) s.fuel rest now p1buf).1 with
      | .ok => 2 + be16 p1buf ≤ (peekLoop (some (cfg.start + dnsWindow)) (2 + be16 p1buf) s.fuel rest now p1buf).2.2.1.length ∧
          (peekLoop (some (cfg.start + dnsWindow)) (2 + be16 p1buf) s.fuel rest now p1buf).2.2.1.length ≤ bufioSize
      | _ => True) ∧
    ((dnsDetect cfg s).kind = .relay ∨ (dnsDetect cfg s).kind = .dns ∨ (dnsDetect cfg s).kind = .abort) := by
  refine ⟨?_, ?_, ?_⟩
  · have := (peekLoop_ok_bounds (some (cfg.start + dnsWindow)) 2 s.fuel s cfg.start [] (by simp)).2.2
    exact this
  · intro p1buf rest now hb
    have h := peekLoop_ok_bounds (some (cfg.start + dnsWindow)) (2 + be16 p1buf) s.fuel rest now p1buf hb
    cases hk : (peekLoop (some (cfg.start + dnsWindow)) (2 + be16 p1buf) s.fuel rest now p1buf).1 with
    | ok => have h2 := h.2.2; rw [hk] at h2; exact ⟨h2, h.1⟩
    | full => trivial
    | fail e => trivial
  · cases (dnsDetect cfg s).kind <;> simp

/-- …in particular a length prefix whose frame cannot fit the reader (4095 … 65535, i.e. also the two
values that used to wrap) is never DNS: the connection is relayed, with every byte
(`detection_hands_over_every_byte`). -/
theorem oversize_length_is_not_dns (cfg : Cfg) (s : Script)
    (hbig : bufioSize < 2 + be16 (peekLoop (some (cfg.start + dnsWindow)) 2 s.fuel s cfg.start []).2.2.1) :
    (dnsDetect cfg s).kind = .relay := by
  have hb1 := (peekLoop_ok_bounds (some (cfg.start + dnsWindow)) 2 s.fuel s cfg.start [] (by simp)).1
  unfold dnsDetect dnsDetectRaw Front.cleared
  simp only
  generalize peekLoop (some (cfg.start + dnsWindow)) 2 s.fuel s cfg.start [] = q at *
  cases h1 : q.1 with
  | ok =>
    simp only [h1]
    split
    · rfl
    · have h := peekLoop_ok_bounds (some (cfg.start + dnsWindow)) (2 + be16 q.2.2.1) s.fuel q.2.2.2 q.2.1 q.2.2.1 hb1
      cases h2 : (peekLoop (some (cfg.start + dnsWindow)) (2 + be16 q.2.2.1) s.fuel q.2.2.2 q.2.1 q.2.2.1).1 with
      | ok =>
        have h3 := h.2.2; rw [h2] at h3
        have := h.1
        omega
      | full => simp only [h2]
      | fail e => simp only [h2]
  | full => simp only [h1]
  | fail e => simp only [h1]

/-- client sends `ff ff 00` to port 53 and closes: not DNS, relayed intact -/
example : (dnsDetect { exCfg with port53 := true, sniff := false } ⟨[⟨1, [255, 255, 0]⟩], 101, .eof⟩).kind = .relay ∧
    (dnsDetect { exCfg with port53 := true, sniff := false } ⟨[⟨1, [255, 255, 0]⟩], 101, .eof⟩).st = .bufio [255, 255, 0] := by
  decide

/-- **Headline (timing).** The relay starts no later than the detection window after `handleConn`
had its routing result: 5 s on port 53, twice the sniffing timeout on a sniffed port (prefetch +
sniffer), immediately otherwise — and never before. -/
theorem relay_starts_within_window (cfg : Cfg) (c : Script) :
    cfg.start ≤ (front cfg c).T ∧ (front cfg c).T ≤ cfg.start + frontBound cfg :=
  ⟨(front_spec cfg c).lb, (front_spec cfg c).ub⟩

example : frontBound exCfg = 200000 ∧ frontBound { exCfg with port53 := true } = 5000000 := by decide

/-- No read deadline armed by a probe survives into the relay. -/
theorem no_deadline_left_armed (cfg : Cfg) (c u : Script) :
    (front cfg c).armed = none ∧ (conn cfg c u).armedAtDial = false := by
  have h := front_armed cfg c
  refine ⟨h, ?_⟩
  unfold conn
  generalize front cfg c = f at *
  cases hk : f.kind with
  | relay => simp only [hk]; unfold relayPhase; dsimp only; split <;> simp [h]
  | abort => simp only [hk]
  | dns => simp only [hk]

example : (conn exCfg exClient exUp).dial = some 100000 := by decide

/-- …and that matters: this is what the relay does when a probe deadline `d` IS left armed on the client
socket (the defect of finding #12). With both peers still open at `d`, the connection is over at
`max T d` — a healthy, merely idle client is cut.  (So `healthy_connection_not_cut` below genuinely
depends on `no_deadline_left_armed`.) -/
theorem armed_deadline_cuts_idle_client (cfg : Cfg) (f : Front) (u : Script) (d : Nat)
    (hp : f.st.poisoned = false) (ha : f.armed = some d)
    (hc : max f.T d ≤ max f.T f.rest.finT) (hu : max f.T d ≤ max f.T u.finT) :
    (relayPhase cfg f u).ret = max f.T d ∧ (relayPhase cfg f u).upEof = max f.T d ∧
    (relayPhase cfg f u).clEof = max f.T d := by
  have h1 : ¬ max f.T f.rest.finT < max f.T d := by omega
  unfold relayPhase
  simp [dirNaturalArmed, ha, hp, dirNatural_clean, h1, hu, resolve]

example : (relayPhase exCfg ⟨.relay, 0, .plain, { exClient with finT := 9000000 }, some 5000000⟩ exUp).ret = 5000000 ∧
    (relayPhase exCfg ⟨.relay, 0, .plain, { exClient with finT := 9000000 }, none⟩ exUp).ret = 9000000 := by decide

/-- A stream error is latched by the sniffer only when the client really reset the connection during
detection: a client that ends its stream with FIN is never handed to the relay "poisoned". -/
theorem poison_only_after_client_reset (cfg : Cfg) (c : Script)
    (h : (front cfg c).st.poisoned = true) : c.fin = .reset ∧ c.finT ≤ (front cfg c).T :=
  (front_spec cfg c).poison h

example : (front exCfg { exClient with evs := exClient.evs.take 1, finT := 50000, fin := .reset }).st.poisoned = true := by
  decide

/-- The fuel the driver gives the detection loops (`Script.fuel`, one unit per segment and per byte)
is enough: with that much fuel, adding more never changes the result, i.e. the out-of-fuel branches of
`peekLoop` and `sniffLoop` are dead code and the model's answers are those of the unbounded loops. -/
theorem detection_fuel_sufficient (s : Script) (fuel k : Nat) (h : s.fuel ≤ fuel + 1) :
    (∀ dl need now buf, peekLoop dl need (fuel + k) s now buf = peekLoop dl need fuel s now buf) ∧
    (∀ nm off dl now buf, (∀ p ∈ off, 0 < p.2) →
      sniffLoop nm off dl (fuel + k) s now buf = sniffLoop nm off dl fuel s now buf) := by
  induction k with
  | zero => exact ⟨fun _ _ _ _ => rfl, fun _ _ _ _ _ _ => rfl⟩
  | succ k ih =>
    refine ⟨fun dl need now buf => ?_, fun nm off dl now buf hoff => ?_⟩
    · rw [← Nat.add_assoc, peekLoop_fuel_stable dl need (fuel + k) s now buf (by omega)]; exact ih.1 _ _ _ _
    · rw [← Nat.add_assoc, sniffLoop_fuel_stable nm off hoff dl (fuel + k) s now buf (by omega)]; exact ih.2 _ _ _ _ _ hoff

example : exClient.fuel ≤ exClient.fuel + 1 ∧ exClient.fuel = 24 := by decide

/-- …and the scripts the loops are re-entered with (after the first `Peek`, after the sniffer's first
read) never need more fuel than the original script. -/
theorem detection_fuel_monotone (s : Script) (dl : Option Nat) (need fuel now : Nat) (buf : Bytes) (n : Nat) :
    (peekLoop dl need fuel s now buf).2.2.2.fuel ≤ s.fuel ∧ (s.readAt now dl n).rest.fuel ≤ s.fuel :=
  ⟨peekLoop_fuel_le dl need fuel s now buf, s.readAt_fuel_le now dl n⟩

example : (exClient.readAt 0 none 16).rest.fuel = 7 := by decide

/-! ## 3. The whole connection: both byte streams, half-close, grace, never cut early -/

/-- time at which the relay sees the end of the client's / the upstream's stream -/
def endL (cfg : Cfg) (c : Script) : Nat := max (front cfg c).T c.finT
def endR (cfg : Cfg) (c u : Script) : Nat := max (front cfg c).T u.finT

/-- **Headline (client → upstream).** For every client script (payload, segmentation, timing
relative to the windows) and every upstream script: if the client ends its stream with FIN and the
relay is not ended from the upstream side first (the upstream is still open when the client
finishes, or it half-closed cleanly less than the grace period earlier), the upstream receives
exactly the client's stream, and each piece at a definite time: what detection had buffered at the
dial, every later segment the moment it arrives. -/
theorem upstream_receives_client_stream (cfg : Cfg) (c u : Script)
    (hk : (front cfg c).kind = .relay) (hc : c.fin = .eof)
    (hcut : endL cfg c ≤ endR cfg c u ∨ (u.fin = .eof ∧ endL cfg c < endR cfg c u + grace)) :
    (conn cfg c u).up = natDelivs (front cfg c).T (front cfg c).st.content (front cfg c).rest ∧
    bytesOf (conn cfg c u).up = c.stream := by
  have hp := clean_of_eof cfg c hc
  have fs := front_spec cfg c
  have hstream := fs.stream hk
  have hfin := fs.fin
  have hfinT := fs.finT
  have ha := front_armed cfg c
  rw [relayPhase_eq cfg c u hk]
  unfold endL endR at hcut
  generalize front cfg c = f at *
  have hup : (relayPhase cfg f u).up = natDelivs f.T f.st.content f.rest := by
    by_cases hle : max f.T f.rest.finT ≤ max f.T u.finT
    · rw [relayPhase_client_first cfg f u hp ha hle]
      simp only [hfin, hc, ↓reduceIte]
      split <;> rfl
    · have hlt : max f.T u.finT < max f.T f.rest.finT := by omega
      rw [relayPhase_upstream_first cfg f u hp ha hlt]
      rw [hfinT] at hlt
      rcases hcut with h | ⟨hu, hg⟩
      · omega
      · simp only [hu, hfinT, hg, ↓reduceIte]
  exact ⟨hup, by rw [hup, bytesOf_natDelivs, hstream]⟩

example : (front exCfg exClient).kind = .relay ∧ exClient.fin = .eof ∧
    endL exCfg exClient ≤ endR exCfg exClient exUp ∧
    bytesOf (conn exCfg exClient exUp).up = exClient.stream := by decide

/-- **Headline (upstream → client).** Symmetric: if the relay is not ended from the client side
first, the client receives exactly the upstream's stream, every segment the moment it arrives (or
at the dial if the upstream spoke first — server-first protocols). -/
theorem client_receives_upstream_stream (cfg : Cfg) (c u : Script)
    (hk : (front cfg c).kind = .relay)
    (hcut : endR cfg c u < endL cfg c ∨ (c.fin = .eof ∧ endR cfg c u < endL cfg c + grace)) :
    (conn cfg c u).cl = natDelivs (front cfg c).T [] u ∧ bytesOf (conn cfg c u).cl = u.stream := by
  have fs := front_spec cfg c
  have hfin := fs.fin
  have hfinT := fs.finT
  have hpo := fs.poison
  have hclean : c.fin = .eof → (front cfg c).st.poisoned = false := clean_of_eof cfg c
  have ha := front_armed cfg c
  rw [relayPhase_eq cfg c u hk]
  unfold endL endR at hcut
  generalize front cfg c = f at *
  have hcl : (relayPhase cfg f u).cl = natDelivs f.T [] u := by
    cases hp : f.st.poisoned with
    | true =>
      have := hpo hp
      rcases hcut with h | ⟨hc, _⟩
      · omega
      · simp [hc] at this
    | false =>
      by_cases hle : max f.T f.rest.finT ≤ max f.T u.finT
      · rw [relayPhase_client_first cfg f u hp ha hle]
        rw [hfinT] at hle
        rcases hcut with h | ⟨hc, hg⟩
        · omega
        · simp only [hfin, hc, hfinT, hg, ↓reduceIte]
      · have hlt : max f.T u.finT < max f.T f.rest.finT := by omega
        rw [relayPhase_upstream_first cfg f u hp ha hlt]
        split
        · split <;> rfl
        · rfl
  exact ⟨hcl, by rw [hcl, bytesOf_natDelivs]; simp⟩

example : bytesOf (conn exCfg exClient exUp).cl = exUp.stream ∧
    (conn exCfg exClient exUp).cl = [⟨100000, [50, 48, 48]⟩] := by decide

/-- **In every case** (resets, grace expiry, a latched error — no side condition at all on the
peers' behaviour beyond segment times not going backwards) what a peer receives is a prefix of what
the other peer sent: never a byte that was not sent, never out of order, never twice. -/
theorem received_is_prefix_of_sent (cfg : Cfg) (c u : Script) (hc : c.Sorted) (hu : u.Sorted) :
    bytesOf (conn cfg c u).up <+: c.stream ∧ bytesOf (conn cfg c u).cl <+: u.stream := by
  have fs := front_spec cfg c
  cases hk : (front cfg c).kind with
  | relay =>
    have hstream := fs.stream hk
    have hsorted := fs.sorted hc
    have ha := front_armed cfg c
    rw [relayPhase_eq cfg c u hk]
    generalize front cfg c = f at *
    have hl : ∀ ds, ds <+: natDelivs f.T f.st.content f.rest → bytesOf ds <+: c.stream := by
      intro ds h
      have := bytesOf_prefix h
      rwa [bytesOf_natDelivs, hstream] at this
    have hr : ∀ ds, ds <+: natDelivs f.T [] u → bytesOf ds <+: u.stream := by
      intro ds h
      have := bytesOf_prefix h
      rwa [bytesOf_natDelivs, List.nil_append] at this
    have sl := natDelivs_sorted f.T f.st.content f.rest hsorted
    have sr := natDelivs_sorted f.T [] u hu
    cases hp : f.st.poisoned with
    | true =>
      rw [relayPhase_poisoned cfg f u hp ha]
      exact ⟨hl _ (List.prefix_append _ _), hr _ (cutBefore_prefix _ _ sr)⟩
    | false =>
      by_cases hle : max f.T f.rest.finT ≤ max f.T u.finT
      · rw [relayPhase_client_first cfg f u hp ha hle]
        split
        · split
          · exact ⟨hl _ (List.prefix_refl _), hr _ (List.prefix_refl _)⟩
          · exact ⟨hl _ (List.prefix_refl _), hr _ (cutBefore_prefix _ _ sr)⟩
        · exact ⟨hl _ (List.prefix_refl _), hr _ (cutBefore_prefix _ _ sr)⟩
      · have hlt : max f.T u.finT < max f.T f.rest.finT := by omega
        rw [relayPhase_upstream_first cfg f u hp ha hlt]
        split
        · split
          · exact ⟨hl _ (List.prefix_refl _), hr _ (List.prefix_refl _)⟩
          · exact ⟨hl _ (cutBefore_prefix _ _ sl), hr _ (List.prefix_refl _)⟩
        · exact ⟨hl _ (cutBefore_prefix _ _ sl), hr _ (List.prefix_refl _)⟩
  | abort => unfold conn; simp [hk, bytesOf]
  | dns => unfold conn; simp [hk, bytesOf]

example : exClient.Sorted ∧ exUp.Sorted := by
  unfold Script.Sorted exClient exUp; constructor <;> simp

/-- **Half-close, client side first.** The client's FIN is passed on to the upstream as a write
shutdown at the very moment the relay reads it (`endL`), the upstream's segments keep reaching the
client until the upstream ends or the grace period (10 s) expires, whichever is first, and the
connection is over no later than `endL + grace`. -/
theorem halfclose_client_first (cfg : Cfg) (c u : Script)
    (hk : (front cfg c).kind = .relay) (hc : c.fin = .eof) (hcw : cfg.rightCW = true)
    (hfirst : endL cfg c ≤ endR cfg c u) :
    (conn cfg c u).upEof = endL cfg c ∧
    (∀ e ∈ u.evs, max (front cfg c).T e.t < endL cfg c + grace →
      (⟨max (front cfg c).T e.t, e.data⟩ : Deliv) ∈ (conn cfg c u).cl) ∧
    endL cfg c ≤ (conn cfg c u).ret ∧ (conn cfg c u).ret ≤ endL cfg c + grace ∧
    (conn cfg c u).ret = min (endR cfg c u) (endL cfg c + grace) := by
  have hp := clean_of_eof cfg c hc
  have fs := front_spec cfg c
  have hfin := fs.fin
  have hfinT := fs.finT
  have ha := front_armed cfg c
  rw [relayPhase_eq cfg c u hk]
  unfold endL endR at *
  generalize front cfg c = f at *
  have hmem : ∀ e ∈ u.evs, (⟨max f.T e.t, e.data⟩ : Deliv) ∈ natDelivs f.T [] u := by
    intro e he
    unfold natDelivs
    exact List.mem_append_right _ (List.mem_map.mpr ⟨e, he, rfl⟩)
  rw [relayPhase_client_first cfg f u hp ha (by rw [hfinT]; exact hfirst)]
  simp only [hfin, hc, hfinT, hcw, ↓reduceIte]
  by_cases hg : max f.T u.finT < max f.T c.finT + grace
  · simp only [hg, ↓reduceIte]
    exact ⟨trivial, fun e he _ => hmem e he, hfirst, by omega, by omega⟩
  · simp only [hg, ↓reduceIte]
    exact ⟨trivial, fun e he ht => cutBefore_keeps _ _ _ (hmem e he) ht, by omega, by omega, by omega⟩

example : (conn exCfg exClient exUp).upEof = 2300000 ∧ (conn exCfg exClient exUp).ret = 9000000 ∧
    (conn exCfg exClient { exUp with finT := 20000000 }).ret = 12300000 := by decide

/-- **Half-close, upstream side first.** The upstream's FIN is passed on to the client as a write
shutdown at the moment the relay reads it — through every wrapper detection may have put around the
client socket — the client's segments keep reaching the upstream until the client ends or the grace
period expires, and the connection is over no later than `endR + grace`. -/
theorem halfclose_upstream_first (cfg : Cfg) (c u : Script)
    (hk : (front cfg c).kind = .relay) (hu : u.fin = .eof) (hcw : cfg.leftCW = true)
    (hfirst : endR cfg c u < endL cfg c) :
    (conn cfg c u).clEof = endR cfg c u ∧
    (∀ d ∈ natDelivs (front cfg c).T (front cfg c).st.content (front cfg c).rest,
      d.t < endR cfg c u + grace → d ∈ (conn cfg c u).up) ∧
    endR cfg c u ≤ (conn cfg c u).ret ∧ (conn cfg c u).ret ≤ endR cfg c u + grace := by
  have fs := front_spec cfg c
  have hfin := fs.fin
  have hfinT := fs.finT
  have hpo := fs.poison
  have ha := front_armed cfg c
  rw [relayPhase_eq cfg c u hk]
  unfold endL endR at *
  generalize front cfg c = f at *
  have hp : f.st.poisoned = false := by
    cases hp : f.st.poisoned with
    | false => rfl
    | true => have := hpo hp; omega
  rw [relayPhase_upstream_first cfg f u hp ha (by rw [hfinT]; exact hfirst)]
  simp only [hu, hfinT, hcw, ↓reduceIte]
  by_cases hg : max f.T c.finT < max f.T u.finT + grace
  · simp only [hg, ↓reduceIte]
    exact ⟨trivial, fun d hd _ => hd, by omega, by omega⟩
  · simp only [hg, ↓reduceIte]
    exact ⟨trivial, fun d hd ht => cutBefore_keeps _ _ _ hd ht, by omega, by omega⟩

def exUpFirst : Script := ⟨[⟨5000, [50, 48, 48]⟩], 600000, .eof⟩
example : endR exCfg exClient exUpFirst < endL exCfg exClient ∧
    (conn exCfg exClient exUpFirst).clEof = 600000 ∧ (conn exCfg exClient exUpFirst).ret = 2300000 := by decide

/-- **Never cut early.** Unless the client itself reset the connection, dae never ends a relayed
connection before one of the two peers has ended its stream — whatever the idle periods — and it ends
it no later than the grace period after that.  The proof uses `front_armed` (= `no_deadline_left_armed`):
the relay phase of the model honours a read deadline left on the client socket
(`armed_deadline_cuts_idle_client`), so this holds only because every probe clears what it armed. -/
theorem healthy_connection_not_cut (cfg : Cfg) (c u : Script)
    (hk : (front cfg c).kind = .relay) (hc : c.fin = .eof) :
    min (endL cfg c) (endR cfg c u) ≤ (conn cfg c u).ret ∧
    (conn cfg c u).ret ≤ min (endL cfg c) (endR cfg c u) + grace ∧
    (conn cfg c u).ret ≤ max (endL cfg c) (endR cfg c u) := by
  have hp := clean_of_eof cfg c hc
  have fs := front_spec cfg c
  have hfin := fs.fin
  have hfinT := fs.finT
  have ha := front_armed cfg c
  rw [relayPhase_eq cfg c u hk]
  unfold endL endR
  generalize front cfg c = f at *
  by_cases hle : max f.T f.rest.finT ≤ max f.T u.finT
  · rw [relayPhase_client_first cfg f u hp ha hle]
    rw [hfinT] at hle
    simp only [hfin, hc, hfinT, ↓reduceIte]
    split <;> dsimp only <;> omega
  · have hlt : max f.T u.finT < max f.T f.rest.finT := by omega
    rw [relayPhase_upstream_first cfg f u hp ha hlt]
    rw [hfinT] at hlt
    simp only [hfinT]
    split
    · split <;> dsimp only <;> omega
    · dsimp only; omega

example : (conn exCfg exClient exUp).ret = max (endL exCfg exClient) (endR exCfg exClient exUp) := by decide

/-- Until that end, nothing is dropped: every client segment that arrives before the connection is
over is delivered to the upstream (at its arrival time, or at the dial). -/
theorem no_drop_before_end (cfg : Cfg) (c u : Script)
    (hk : (front cfg c).kind = .relay) (hc : c.fin = .eof) :
    ∀ d ∈ natDelivs (front cfg c).T (front cfg c).st.content (front cfg c).rest,
      d.t < (conn cfg c u).ret → d ∈ (conn cfg c u).up := by
  have hp := clean_of_eof cfg c hc
  have ha := front_armed cfg c
  rw [relayPhase_eq cfg c u hk]
  generalize front cfg c = f at *
  intro d hd
  by_cases hle : max f.T f.rest.finT ≤ max f.T u.finT
  · rw [relayPhase_client_first cfg f u hp ha hle]
    split
    · split <;> exact fun _ => hd
    · exact fun _ => hd
  · have hlt : max f.T u.finT < max f.T f.rest.finT := by omega
    rw [relayPhase_upstream_first cfg f u hp ha hlt]
    split
    · split
      · exact fun _ => hd
      · exact fun ht => cutBefore_keeps _ _ _ hd ht
    · exact fun ht => cutBefore_keeps _ _ _ hd ht

example : ∀ d ∈ natDelivs (front exCfg exClient).T (front exCfg exClient).st.content (front exCfg exClient).rest,
    d.t < (conn exCfg exClient exUp).ret → d ∈ (conn exCfg exClient exUp).up := by decide

/-- The timed relay and the untimed engine agree on the bytes: an undisturbed direction delivers
exactly what `engineCopy` writes for the same wrapper over the same segments (non-TCP pair). -/
theorem timed_agrees_with_engine (T : Nat) (st : Stack) (s : Script) (pending dstTcp : Bool) (fuel : Nat)
    (hp : st.poisoned = false)
    (hfuel : st.measure ⟨s.evs.map (·.data), if s.fin == .eof then .eof else .err, false⟩ < fuel) :
    bytesOf (dirNatural T st.content st.poisoned s).out =
      (engineCopy ⟨false, dstTcp, pending⟩ fuel st ⟨s.evs.map (·.data), if s.fin == .eof then .eof else .err, false⟩).bytes ∧
    (dirNatural T st.content st.poisoned s).ok =
      (engineCopy ⟨false, dstTcp, pending⟩ fuel st ⟨s.evs.map (·.data), if s.fin == .eof then .eof else .err, false⟩).ok := by
  rw [engineCopy_identity _ fuel st _ hp hfuel, hp, dirNatural_clean]
  refine ⟨by rw [bytesOf_natDelivs]; rfl, ?_⟩
  cases s.fin <;> rfl

/-! ## 4. Every deadline armed by a probe is cleared on every exit path (regenerated table) -/

/-- The table is regenerated from the repository under check on every run by a go/ast path extractor over
every function of the anchor files that arms a read deadline (`SetReadDeadline`/`SetDeadline` with a
non-zero time, or a helper forwarding a deadline parameter to them): each row is one control-flow
path from such a call to an exit of its function.  Every path resets the deadline to zero — directly
or through a registered defer — or closes the conn, or is the path on which the arming call itself
failed; the single exception is the half-close grace timer (`PathRow.isGraceTimer`: a `relayCore` method or
closure arming a deadline computed from `halfCloseTimeout`), whose effect is what `resolve` models. -/
theorem deadline_cleared_on_every_path : ∀ r ∈ Gen.deadlinePaths, r.good = true := by decide

/-- the extractor did see the probes (so an empty or truncated table cannot pass): a successfully armed and
cleared row for each of the three detection probes — found by function name in whatever file of `control/` or
`component/sniffing/` declares them — and at least one grace-timer row. -/
theorem deadline_table_covers_probes :
    (Gen.deadlinePaths.any fun r => r.func == "readDnsMsgFromBufio" && r.cleared && !r.armFailed) = true ∧
    (Gen.deadlinePaths.any fun r => r.func == "prefetchForTcpSniff" && r.cleared) = true ∧
    (Gen.deadlinePaths.any fun r => r.func == "Sniffer.readStreamOnceWithReadDeadline" && r.cleared && !r.armFailed) = true ∧
    (Gen.deadlinePaths.any fun r => r.isGraceTimer) = true := by decide

/-! ## 5. The gather write under every `writev` schedule (partial writes, EINTR, EAGAIN, errors) -/

/-- **`relayWritevAll`.** Whatever the kernel does call by call — takes any number of the offered bytes
(0 included), is interrupted, asks to wait (and the wait itself may fail), or fails — the destination socket has
received exactly the first `written` bytes of the concatenated segments, in order, each once
(`relayAdvanceSegments` resumes exactly where the kernel stopped, `relayNonEmptySegments` drops nothing but empty
segments), `written` never exceeds the total, and a `nil` return means every byte was written. -/
theorem gather_write_no_loss_no_dup (sched : List WvStep) (segs : List Bytes) :
    (writevAll sched segs).sink = segs.flatten.take (writevAll sched segs).written ∧
    (writevAll sched segs).written ≤ segs.flatten.length ∧
    ((writevAll sched segs).fin = .ok → (writevAll sched segs).sink = segs.flatten) := by
  have h := writevLoop_spec sched (nonEmptySegs segs)
  rw [nonEmptySegs_flatten] at h
  unfold writevAll
  refine ⟨h.sink, h.le, fun hok => ?_⟩
  rw [h.sink, h.ok hok, List.take_length]

/-- a first `writev` that takes 3 of 6 bytes and asks to wait, an interrupted one, then the rest -/
example : writevAll [⟨3, .eagain true⟩, ⟨0, .eintr⟩, ⟨9, .none⟩] [[1, 2], [], [3, 4, 5], [6]] =
    ⟨[1, 2, 3, 4, 5, 6], 6, .ok⟩ ∧
    writevAll [⟨3, .none⟩, ⟨0, .none⟩] [[1, 2], [3, 4, 5]] = ⟨[1, 2, 3], 3, .short⟩ ∧
    writevAll [⟨4, .other⟩] [[1, 2], [3, 4, 5]] = ⟨[1, 2, 3, 4], 4, .err⟩ := by decide

/-- `relayAdvanceSegments` removes exactly the first `n` bytes; `relayBuildWriteSegments` is prefix segments then
body; `relayNonEmptySegments` keeps every byte. -/
theorem gather_segment_helpers_exact (segs : List Bytes) (body : Bytes) (n : Nat) :
    (advanceSegs segs n).flatten = segs.flatten.drop n ∧
    (buildWriteSegs segs body).flatten = segs.flatten ++ body ∧
    (nonEmptySegs segs).flatten = segs.flatten ∧ (∀ s ∈ nonEmptySegs segs, s ≠ []) :=
  ⟨advanceSegs_flatten segs n, buildWriteSegs_flatten segs body, nonEmptySegs_flatten segs, nonEmptySegs_all segs⟩

example : advanceSegs [[1, 2], [3, 4, 5], [6]] 3 = [[4, 5], [6]] ∧ advanceSegs [[1, 2], [3]] 2 = [[3]] ∧
    buildWriteSegs [[1], [2, 3]] [4] = [[1], [2, 3], [4]] ∧ buildWriteSegs [] [4] = [[4]] := by decide

/-! ## 6. The accounting splice loop under every `splice` schedule -/

/-- **`relaySpliceCopyExact`.** For every schedule of `splice` results on both legs (any partial counts, EOF,
errors) and a context cancelled during any call: at every exit, what the destination received, followed by what
sits in the pipe, followed by what is still in the source socket, is exactly the source stream — the
destination holds a prefix, nothing is skipped or repeated across the pipe hand-over; `written` is the number
of bytes the destination received; `pipe.data` is the number of bytes in the pipe; and a `nil` return leaves the
pipe empty. -/
theorem splice_loop_conserves (sched : List SpStep) (src : Bytes) :
    (spliceCopy sched src).st.dst ++ ((spliceCopy sched src).st.pipe ++ (spliceCopy sched src).st.src) = src ∧
    (spliceCopy sched src).st.written = (spliceCopy sched src).st.dst.length ∧
    (spliceCopy sched src).st.data = (spliceCopy sched src).st.pipe.length ∧
    ((spliceCopy sched src).fin = .ok → (spliceCopy sched src).st.pipe = []) := by
  have h := spliceLoop_inv src sched true (SpState.init src) (SpInv.init src)
  exact ⟨h.1.cons, h.1.written, h.1.data, h.2⟩

/-- …so `putRelaySplicePipe` returns a pipe to the shared pool only when it is empty: the next connection never
starts with another connection's bytes (seeded change C05-f as a theorem). -/
theorem splice_pipe_pooled_only_when_empty (sched : List SpStep) (src : Bytes)
    (h : (spliceCopy sched src).pooled = true) : (spliceCopy sched src).st.pipe = [] := by
  have hd := (splice_loop_conserves sched src).2.2.1
  unfold SpOut.pooled at h
  have : (spliceCopy sched src).st.data = 0 := by simpa using h
  rw [this] at hd
  exact List.eq_nil_of_length_eq_zero hd.symm

/-- 5 bytes in, 2 out, the destination fails with 3 bytes parked in the pipe: not pooled; a clean run: pooled -/
example : (spliceCopy [⟨5, .none, false⟩, ⟨2, .none, false⟩, ⟨0, .other, false⟩] [1, 2, 3, 4, 5, 6]).st.dst = [1, 2] ∧
    (spliceCopy [⟨5, .none, false⟩, ⟨2, .none, false⟩, ⟨0, .other, false⟩] [1, 2, 3, 4, 5, 6]).pooled = false ∧
    (spliceCopy [⟨5, .none, false⟩, ⟨9, .none, false⟩, ⟨9, .none, false⟩, ⟨9, .none, false⟩, ⟨0, .eof, false⟩]
      [1, 2, 3, 4, 5, 6]).st.dst = [1, 2, 3, 4, 5, 6] ∧
    (spliceCopy [⟨5, .none, false⟩, ⟨9, .none, false⟩, ⟨9, .none, false⟩, ⟨9, .none, false⟩, ⟨0, .eof, false⟩]
      [1, 2, 3, 4, 5, 6]).pooled = true := by decide

/-! ## 7. A destination that fails after accepting `cap` bytes -/

/-- **Write failure at any byte offset, every wrapper, every copy path.** Towards a destination that accepts
`cap` bytes and fails the write that exceeds them (which may be partial), the engine delivers exactly what it
would have delivered, cut at `cap`, and reports failure; if everything fits it behaves as without the limit.
Nothing is retried (no duplicate), nothing is written after the failure (no gap). -/
theorem copy_to_failing_destination (env : Env) (fuel : Nat) (st : Stack) (b : Base) (cap : Nat) :
    engineCopyW env fuel st b cap = (engineCopy env fuel st b).capTo cap :=
  engineCopyW_capTo env fuel st b cap

/-- …hence, with `relay_identity`: the destination holds exactly the first `cap` bytes of "buffered ++ rest of
the stream". -/
theorem failing_destination_gets_exact_prefix (env : Env) (st : Stack) (b : Base) (fuel cap : Nat)
    (hfuel : st.measure b < fuel) (hp : st.poisoned = false) (hcap : cap < (st.content ++ b.flat).length) :
    engineCopyW env fuel st b cap = ⟨(st.content ++ b.flat).take cap, false⟩ := by
  rw [engineCopyW_capTo, engineCopy_identity env fuel st b hp hfuel]
  exact capTo_mk_gt _ _ _ hcap

example : engineCopyW ⟨false, false, false⟩ 20 (.bufio [1, 2, 3]) ⟨[[4], [5, 6]], .eof, false⟩ 4 = ⟨[1, 2, 3, 4], false⟩ ∧
    engineCopyW ⟨false, false, false⟩ 20 (.bufio [1, 2, 3]) ⟨[[4], [5, 6]], .eof, false⟩ 2 = ⟨[1, 2], false⟩ ∧
    engineCopyW ⟨false, false, false⟩ 20 (.bufio [1, 2, 3]) ⟨[[4], [5, 6]], .eof, false⟩ 6 = ⟨[1, 2, 3, 4, 5, 6], true⟩ := by
  decide

/-! ## 8. The whole connection under faults (write failures, cancellation, a failing dial) -/

/-- the fault-free instance of the fault model is the model of sections 2–3: every theorem there is a theorem
about `connF cfg Faults.none` -/
theorem fault_free_is_conn (cfg : Cfg) (c u : Script) : connF cfg Faults.none c u = conn cfg c u :=
  connF_noFaults cfg c u

example : (connF exCfg Faults.none exClient exUp).ret = 9000000 := by decide

/-- **In every case, under every fault.** A write towards either peer failing at any byte offset, `handleConn`'s
context cancelled at any time (shutdown, reload), a failing dial, on top of anything the peers do (resets,
grace expiry, a latched error): what a peer receives is a prefix of what the other peer sent — never a byte
that was not sent, never out of order, never twice. -/
theorem received_is_prefix_under_faults (cfg : Cfg) (flt : Faults) (c u : Script) (hc : c.Sorted) (hu : u.Sorted) :
    bytesOf (connF cfg flt c u).up <+: c.stream ∧ bytesOf (connF cfg flt c u).cl <+: u.stream := by
  have fs := front_spec cfg c
  have ha := front_armed cfg c
  cases hk : (front cfg c).kind with
  | relay =>
    by_cases hd : flt.dialFails = true
    · unfold connF; simp [hk, hd, bytesOf]
    · have hd' : flt.dialFails = false := by simpa using hd
      rw [connF_relay cfg flt c u hk hd']
      have hstream := fs.stream hk
      have hsorted := fs.sorted hc
      unfold relayPhaseF
      generalize front cfg c = f at *
      rw [ha]
      simp only [dirNaturalArmed]
      have gl := Good.capRun (dirNatural f.T f.st.content f.st.poisoned f.rest)
        (Good.of_prefix (natDelivs_sorted f.T f.st.content f.rest hsorted) (dirNatural_out_prefix _ _ _ _)) flt.upCap
      have gr := Good.capRun (dirNatural f.T [] false u)
        (Good.of_prefix (natDelivs_sorted f.T [] u hu) (dirNatural_out_prefix _ _ _ _)) flt.clCap
      have g1 := relayOf_good cfg f _ _ _ _ gl gr
      have g2 := applyCancel_good flt.cancelAt f.T _ _ _ g1.1 g1.2
      have h1 := g2.1.pre
      have h2 := g2.2.pre
      rw [bytesOf_natDelivs, hstream] at h1
      rw [bytesOf_natDelivs, List.nil_append] at h2
      exact ⟨h1, h2⟩
  | abort => unfold connF; simp [hk, bytesOf]
  | dns => unfold connF; simp [hk, bytesOf]

/-- the upstream accepts 20 bytes: it gets the 16 buffered bytes and 4 of the next segment, then all is over -/
example : bytesOf (connF exCfg { Faults.none with upCap := some 18 } exClient exUp).up = exClient.stream.take 18 ∧
    (connF exCfg { Faults.none with upCap := some 18 } exClient exUp).ret = 300000 := by decide

/-- **Cancellation cuts only at the cancellation.** When the control plane's context is cancelled at `x`
(shutdown / reload), the connection ends at `max T x` unless it was over before; everything either peer would
have received before that instant it still receives; a cancellation after the connection's own end changes
nothing. -/
theorem external_cancel_cuts_only_at_cancel (cfg : Cfg) (flt : Faults) (c u : Script) (x : Nat)
    (hk : (front cfg c).kind = .relay) (hd : flt.dialFails = false) :
    (connF cfg { flt with cancelAt := some x } c u).ret =
      min (connF cfg { flt with cancelAt := none } c u).ret (max (front cfg c).T x) ∧
    (∀ d ∈ (connF cfg { flt with cancelAt := none } c u).up, d.t < max (front cfg c).T x →
      d ∈ (connF cfg { flt with cancelAt := some x } c u).up) ∧
    (∀ d ∈ (connF cfg { flt with cancelAt := none } c u).cl, d.t < max (front cfg c).T x →
      d ∈ (connF cfg { flt with cancelAt := some x } c u).cl) ∧
    ((connF cfg { flt with cancelAt := none } c u).ret ≤ max (front cfg c).T x →
      connF cfg { flt with cancelAt := some x } c u = connF cfg { flt with cancelAt := none } c u) := by
  rw [connF_relay cfg { flt with cancelAt := some x } c u hk hd,
    connF_relay cfg { flt with cancelAt := none } c u hk hd]
  unfold relayPhaseF
  simp only [applyCancel]
  generalize relayOf cfg (front cfg c) _ _ = o0
  by_cases hx : max (front cfg c).T x < o0.ret
  · simp only [hx, ↓reduceIte]
    exact ⟨by omega, fun d hd ht => cutBefore_keeps _ _ _ hd ht, fun d hd ht => cutBefore_keeps _ _ _ hd ht,
      fun h => by omega⟩
  · simp only [hx, ↓reduceIte]
    exact ⟨by omega, fun d hd _ => hd, fun d hd _ => hd, fun _ => trivial⟩

example : (connF exCfg { Faults.none with cancelAt := some 1000003 } exClient exUp).ret = 1000003 ∧
    bytesOf (connF exCfg { Faults.none with cancelAt := some 1000003 } exClient exUp).up = exClient.stream ∧
    (connF exCfg { Faults.none with cancelAt := some 1000003 } exClient exUp).upEof = 1000003 := by decide

/-- **A failing dial.** Nothing is forwarded in either direction and the client connection is closed at the
dial, i.e. within the detection window. -/
theorem dial_failure_forwards_nothing (cfg : Cfg) (flt : Faults) (c u : Script) (hd : flt.dialFails = true) :
    (connF cfg flt c u).up = [] ∧ (connF cfg flt c u).cl = [] ∧
    cfg.start ≤ (connF cfg flt c u).ret ∧ (connF cfg flt c u).ret ≤ cfg.start + frontBound cfg ∧
    (connF cfg flt c u).clEof = (connF cfg flt c u).ret := by
  have fs := front_spec cfg c
  unfold connF
  generalize front cfg c = f at *
  cases hk : f.kind <;> simp only [hk, hd, ↓reduceIte] <;> exact ⟨trivial, trivial, fs.lb, fs.ub, trivial⟩

example : (connF exCfg { Faults.none with dialFails := true } exClient exUp).ret = 100000 := by decide

/-- **Half-close towards an upstream that cannot half-close** (most proxy protocols: `rightCW = false`). The
client's FIN cannot be passed on as a write shutdown: the upstream sees the end of the client's stream only when
the relay closes the connection — which happens when the upstream ends or the grace period expires, whichever
is first, i.e. at most `grace` after the client's FIN; the client's bytes are all delivered before that, and the
upstream's segments still reach the client until then. -/
theorem halfclose_without_closewrite (cfg : Cfg) (c u : Script)
    (hk : (front cfg c).kind = .relay) (hc : c.fin = .eof) (hcw : cfg.rightCW = false)
    (hfirst : endL cfg c ≤ endR cfg c u) :
    (conn cfg c u).upEof = (conn cfg c u).ret ∧
    (conn cfg c u).ret = min (endR cfg c u) (endL cfg c + grace) ∧
    bytesOf (conn cfg c u).up = c.stream := by
  have hp := clean_of_eof cfg c hc
  have fs := front_spec cfg c
  have hfin := fs.fin
  have hfinT := fs.finT
  have hstream := fs.stream hk
  have ha := front_armed cfg c
  rw [relayPhase_eq cfg c u hk]
  unfold endL endR at *
  generalize front cfg c = f at *
  rw [relayPhase_client_first cfg f u hp ha (by rw [hfinT]; exact hfirst)]
  simp only [hfin, hc, hfinT, hcw, ↓reduceIte]
  by_cases hg : max f.T u.finT < max f.T c.finT + grace
  · simp only [hg, ↓reduceIte, Bool.false_eq_true]
    exact ⟨trivial, by omega, by rw [bytesOf_natDelivs, hstream]⟩
  · simp only [hg, ↓reduceIte, Bool.false_eq_true]
    exact ⟨trivial, by omega, by rw [bytesOf_natDelivs, hstream]⟩

example : (conn { exCfg with rightCW := false } exClient exUp).upEof = 9000000 ∧
    (conn exCfg exClient exUp).upEof = 2300000 := by decide

end DaeVerif.C05.Props
