import DaeVerif.C05.Model
import DaeVerif.C05.ModelX
import DaeVerif.Common.Proto
/-!
Line-protocol driver for C05 (op grammar: see harness/overlay/control/c05_test.go).

  copy <stack> <env3> <eof|err> <chunk,chunk,…|->
  wrap <stack> <eof|err> <chunk,…|-> <act,act,…>     act = r<n> | t | p | c | w | d
  conn t0= p53= sniff= w= unpack= ctl= likely= nm= rcw= lcw= c=<script> u=<script> [ucap= ccap= cancel= dialfail=]
  copy … cap=<n>                                    destination fails after n bytes
  wv segs=<chunk,…|-> body=<chunk|-> sched=<step,…|->      step = <n><o|i|a|A|x>   (relayBuildWriteSegments + relayWritevAll)
  adv segs=<chunk,…|-> n=<k>                               relayAdvanceSegments
  sp src=<chunk|-> sched=<step,…|->                        step = <n><o|e|x>[!]    (relaySpliceCopyExact; ! = ctx cancelled during the call)

chunk  = h<hex> | g<seed>.<len>            (g: generated pattern, byte i = (seed + 7 i + i/251) mod 256)
script = <t>:<chunk>;…;<finT>:<E|R>
-/
open DaeVerif DaeVerif.C05 DaeVerif.Proto

def genBytes (seed len : Nat) : Bytes :=
  (List.range len).map fun i => (seed + 7 * i + i / 251) % 256

def parseChunk? (tok : String) : Option Bytes :=
  match tok.toList with
  | 'h' :: rest => hexToBytes? (String.ofList rest)
  | 'g' :: rest =>
    match (String.ofList rest).splitOn "." with
    | [a, b] => do let s ← a.toNat?; let l ← b.toNat?; pure (genBytes s l)
    | _ => none
  | _ => none

def fnv64 (bs : Bytes) : UInt64 :=
  bs.foldl (fun h b => (h ^^^ (UInt64.ofNat b)) * 1099511628211) 14695981039346656037

/-- short byte strings in hex, long ones as `len~fnv64` -/
def digest (bs : Bytes) : String :=
  if bs.isEmpty then "-"
  else if bs.length ≤ 96 then bytesToHex bs
  else s!"{bs.length}~{(fnv64 bs).toNat}"

def parseChunks? (tok : String) : Option (List Bytes) :=
  if tok = "-" then some [] else (tok.splitOn ",").mapM parseChunk?

def parseStack? (tok : String) : Option Stack :=
  match tok.splitOn ":" with
  | ["plain"] => some .plain
  | ["pre", c] => (parseChunk? c).map .prefixed
  | ["buf", c] => (parseChunk? c).map .bufio
  | ["snf", c, p] => (parseChunk? c).map fun b => .sniffer b (p = "1")
  | _ => none

def parseEnv? (tok : String) : Option Env :=
  match tok.toList with
  | [a, b, c] => some ⟨a = '1', b = '1', c = '1'⟩
  | _ => none

def parseScript? (tok : String) : Option Script := do
  let parts := tok.splitOn ";"
  let last ← parts.getLast?
  let evToks := parts.dropLast
  let evs ← evToks.mapM fun p =>
    match p.splitOn ":" with
    | [t, c] => do let t ← t.toNat?; let c ← parseChunk? c; pure (⟨t, c⟩ : Ev)
    | _ => none
  match last.splitOn ":" with
  | [t, "E"] => do let t ← t.toNat?; pure ⟨evs, t, .eof⟩
  | [t, "R"] => do let t ← t.toNat?; pure ⟨evs, t, .reset⟩
  | _ => none

def kv (toks : List String) (k : String) : Option String :=
  toks.findSome? fun t => if t.startsWith (k ++ "=") then some ((t.drop (k.length + 1)).toString) else none

def parseNats? (tok : String) : Option (List Nat) :=
  if tok = "-" then some [] else (tok.splitOn ",").mapM (·.toNat?)

def parsePairs? (tok : String) : Option (List (Nat × Nat)) :=
  if tok = "-" then some [] else (tok.splitOn ",").mapM fun p =>
    match p.splitOn ":" with
    | [a, b] => do let a ← a.toNat?; let b ← b.toNat?; pure (a, b)
    | _ => none

/-- merge deliveries made at the same instant -/
def mergeDeliv : List Deliv → List Deliv
  | [] => []
  | d :: ds =>
    match mergeDeliv ds with
    | e :: es => if e.t = d.t then ⟨d.t, d.data ++ e.data⟩ :: es else d :: e :: es
    | [] => [d]

def delivStr (ds : List Deliv) : String :=
  let ds := (mergeDeliv ds).filter fun d => !d.data.isEmpty
  let times := if ds.isEmpty then "-" else ",".intercalate (ds.map fun d => s!"{d.t}:{d.data.length}")
  times ++ "#" ++ digest ((ds.map (·.data)).flatten)

def errStr : Option Term → String
  | none => "-"
  | some .eof => "E"
  | some .err => "X"

/-- wrapper-level op: a sequence of actions on one wrapper; `c`/`w`/`d` end the sequence -/
def runWrap : List String → Stack → Base → List String
  | [], _, _ => []
  | a :: as, st, b =>
    let fuel := st.measure b + 1
    let fin (o : Out) : List String := [s!"{digest o.bytes}/{boolStr o.ok}"]
    if a = "t" || a = "p" then
      let t := st.take
      digest t.1 :: runWrap as t.2 b
    else if a = "c" then fin (st.copyRemainder fuel b)
    else if a = "w" then fin (st.writeTo fuel b)
    else if a = "d" then fin (copyLoop relayBuf fuel st b)
    else
      match (a.drop 1).toString.toNat? with
      | some n =>
        let r := st.read n b
        s!"{digest r.1.data}/{errStr r.1.err}" :: runWrap as r.2.1 r.2.2
      | none => ["bad-act"]

def parseWvStep? (tok : String) : Option WvStep := do
  let cs := tok.toList
  let code ← cs.getLast?
  let n ← (String.ofList cs.dropLast).toNat?
  let e ← match code with
    | 'o' => some WvErr.none
    | 'i' => some WvErr.eintr
    | 'a' => some (WvErr.eagain true)
    | 'A' => some (WvErr.eagain false)
    | 'x' => some WvErr.other
    | _ => none
  pure ⟨n, e⟩

def parseWvSched? (tok : String) : Option (List WvStep) :=
  if tok = "-" then some [] else (tok.splitOn ",").mapM parseWvStep?

def wvEndStr : WvEnd → String
  | .ok => "ok" | .err => "err" | .short => "short" | .waitErr => "wait" | .exhausted => "exhausted"

def parseSpStep? (tok : String) : Option SpStep := do
  let cs := tok.toList
  let cancel := cs.getLast? == some '!'
  let cs := if cancel then cs.dropLast else cs
  let code ← cs.getLast?
  let n ← (String.ofList cs.dropLast).toNat?
  let e ← match code with
    | 'o' => some SpErr.none
    | 'e' => some SpErr.eof
    | 'x' => some SpErr.other
    | _ => none
  pure ⟨n, e, cancel⟩

def parseSpSched? (tok : String) : Option (List SpStep) :=
  if tok = "-" then some [] else (tok.splitOn ",").mapM parseSpStep?

def spEndStr : SpEnd → String
  | .ok => "ok" | .err => "err" | .short => "short" | .exhausted => "exhausted"

/-- optional `k=<n>` token: absent or `-` = none -/
def optNat (toks : List String) (k : String) : Option (Option Nat) :=
  match kv toks k with
  | none => some none
  | some "-" => some none
  | some v => v.toNat?.map some

def handle (line : String) : String :=
  match words line with
  | ["copy", st, env, term, chunks] =>
    match parseStack? st, parseEnv? env, parseChunks? chunks with
    | some st, some env, some cs =>
      -- `eof+` / `err+`: the last segment is returned together with the end
      let b : Base := ⟨cs, if term.startsWith "eof" then .eof else .err, term.endsWith "+"⟩
      let o := engineCopy env (st.measure b + 1) st b
      s!"out={digest o.bytes} ok={boolStr o.ok}"
    | _, _, _ => "bad-op"
  | ["copy", st, env, term, chunks, capTok] =>
    match parseStack? st, parseEnv? env, parseChunks? chunks, ((capTok.drop 4).toString.toNat?) with
    | some st, some env, some cs, some cap =>
      let b : Base := ⟨cs, if term.startsWith "eof" then .eof else .err, term.endsWith "+"⟩
      let o := engineCopyW env (st.measure b + 1) st b cap
      s!"out={digest o.bytes} ok={boolStr o.ok}"
    | _, _, _, _ => "bad-op"
  | "wv" :: toks =>
    let r : Option String := do
      let segs ← parseChunks? (← kv toks "segs")
      let bodyTok ← kv toks "body"
      let body ← if bodyTok = "-" then some [] else parseChunk? bodyTok
      let sched ← parseWvSched? (← kv toks "sched")
      let ws := buildWriteSegs segs body
      let o := writevAll sched ws
      let lens := if ws.isEmpty then "-" else ",".intercalate (ws.map fun s => toString s.length)
      pure s!"built={lens} sink={digest o.sink} n={o.written} end={wvEndStr o.fin}"
    r.getD "bad-op"
  | "adv" :: toks =>
    let r : Option String := do
      let segs ← parseChunks? (← kv toks "segs")
      let n ← (← kv toks "n").toNat?
      let a := advanceSegs segs n
      let lens := if a.isEmpty then "-" else ",".intercalate (a.map fun s => toString s.length)
      pure s!"lens={lens} d={digest a.flatten}"
    r.getD "bad-op"
  | "sp" :: toks =>
    let r : Option String := do
      let srcTok ← kv toks "src"
      let src ← if srcTok = "-" then some [] else parseChunk? srcTok
      let sched ← parseSpSched? (← kv toks "sched")
      let o := spliceCopy sched src
      pure s!"dst={digest o.st.dst} n={o.st.written} end={spEndStr o.fin} pooled={boolStr o.pooled} inpipe={o.st.pipe.length}"
    r.getD "bad-op"
  | ["wrap", st, term, chunks, acts] =>
    match parseStack? st, parseChunks? chunks with
    | some st, some cs =>
      -- `eof+` / `err+`: the last segment is returned together with the end
      let b : Base := ⟨cs, if term.startsWith "eof" then .eof else .err, term.endsWith "+"⟩
      ";".intercalate (runWrap (acts.splitOn ",") st b)
    | _, _ => "bad-op"
  | "oracle" :: _ => "ok"       -- implementation-side oracle only (the harness answers ok / bad:…)
  | "conn" :: toks =>
    let r : Option String := do
      let b (k : String) : Option Bool := (kv toks k).map (· = "1")
      let cfg : Cfg := {
        start := ← (← kv toks "t0").toNat?,
        port53 := ← b "p53", sniff := ← b "sniff", window := ← (← kv toks "w").toNat?,
        dnsUnpackOk := ← b "unpack", dnsCtl := ← b "ctl", likely := ← b "likely",
        needMore := ← parseNats? (← kv toks "nm"),
        offer := ← parsePairs? (← kv toks "or"), rightCW := ← b "rcw", leftCW := ← b "lcw" }
      let c ← parseScript? (← kv toks "c")
      let u ← parseScript? (← kv toks "u")
      let flt : Faults := {
        upCap := ← optNat toks "ucap", clCap := ← optNat toks "ccap", cancelAt := ← optNat toks "cancel",
        dialFails := (kv toks "dialfail") == some "1" }
      let faulty := flt.upCap.isSome || flt.clCap.isSome || flt.cancelAt.isSome
      let o := connF cfg flt c u
      let dial := match o.dial with | some t => toString t | none => "-"
      -- presentation only (the harness applies the same two rules to what the peers saw):
      -- (1) a peer that reset its own connection stops observing at that moment;
      -- (2) when the relay collapses at the very instant it started, what the other direction
      --     managed to hand to the client in that instant is a scheduling race and is not compared.
      let clEof := if c.fin == .reset then min o.clEof c.finT else o.clEof
      let upEof := if u.fin == .reset && o.dial.isSome && !flt.dialFails then min o.upEof u.finT else o.upEof
      let cl := if o.dial == some o.ret then o.cl.filter (fun d => d.t != o.ret) else o.cl
      let cl := if c.fin == .reset then cl.filter (fun d => d.t < c.finT) else cl
      let up := if u.fin == .reset then o.up.filter (fun d => d.t < u.finT) else o.up
      -- (2') same instant, client already gone (reset before the dial): the other direction's write
      --      to the dead client fails and may force-close before the buffered prefix is forwarded
      let up := if o.dial == some o.ret && (c.fin == .reset || faulty) then up.filter (fun d => d.t != o.ret) else up
      pure s!"dial={dial} armed={boolStr o.armedAtDial} up={delivStr up} upeof={upEof} cl={delivStr cl} cleof={clEof} ret={o.ret}"
    r.getD "bad-op"
  | _ => "bad-op"

def main : IO Unit := lineLoop handle
