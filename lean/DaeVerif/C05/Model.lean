/-!
# C05 — executable model of dae's TCP relay (core Lean only)

Mirrors, function by function:

* `control/tcp_sniff_policy.go`  `prefixedConn` (`Read`, `TakeRelayPrefix`, `CopyRelayRemainder`),
  `prefetchForTcpSniff`
* `control/tcp.go`               `bufioConn` (`Read`, `TakeRelayPrefix`, `CopyRelayRemainder`),
  `readDnsMsgFromBufio`, `handleTCPDnsFastPath` (detection part), `handleConn` (wiring)
* `component/sniffing`           `Sniffer.Read`, `ConnSniffer.TakeRelayPrefix`, `SniffTcp` read loop
* `control/tcp_copy_engine.go`, `tcp_copy_gather_linux.go`, `tcp_copy_linux.go`
  `defaultRelayCopyEngine.Copy` = gather write → continuation | splice | buffered loop
* `control/tcp_relay_core.go`    `relayCore.run` (two directions, CloseWrite, grace deadline, force close)

Part 1 is untimed (what bytes come out, whichever way the stream is cut into reads);
part 2 adds an explicit clock (µs) for the detection windows and the half-close grace period.
-/
namespace DaeVerif.C05

abbrev Bytes := List Nat

/-! ## Part 1 — byte streams, wrapper stacks, the copy engine -/

/-- how the underlying connection's read side ends: `eof` = clean FIN, `err` = any other error. -/
inductive Term where
  | eof | err
deriving DecidableEq, Repr

/-- The future of the underlying socket as the sequence of segments its `Read` will return,
followed by the terminating condition.  Chunks may be empty (a `(0, nil)` read). -/
structure Base where
  chunks : List Bytes
  term : Term
  /-- the read that returns the last segment also reports the end (`(n > 0, io.EOF)` / `(n > 0, err)`), as
  proxy-protocol conns may; `false`: the end is reported by a separate empty read, as TCP does -/
  lastWithTerm : Bool
deriving Repr, DecidableEq

/-- one `Read` call: `(data, err)`; Go readers may return both. -/
structure RRes where
  data : Bytes
  err : Option Term
deriving Repr, DecidableEq

def Base.flat (b : Base) : Bytes := b.chunks.flatten

/-- `Read(p)` with `len(p) = n` on the raw conn: at most one segment, at most `n` bytes. -/
def Base.read (n : Nat) (b : Base) : RRes × Base :=
  match b.chunks with
  | [] => (⟨[], some b.term⟩, b)
  | c :: cs =>
    if c.length ≤ n then
      if cs.isEmpty && b.lastWithTerm then (⟨c, some b.term⟩, { b with chunks := [] })
      else (⟨c, none⟩, { b with chunks := cs })
    else (⟨c.take n, none⟩, { b with chunks := c.drop n :: cs })

/-- the wrapper that `handleConn` hands to the relay as the client side -/
inductive Stack where
  /-- the bare conn -/
  | plain
  /-- `prefixedConn`: `rest = prefix[off:]` -/
  | prefixed (rest : Bytes)
  /-- `bufioConn`: bytes sitting in the `bufio.Reader` -/
  | bufio (buffered : Bytes)
  /-- `ConnSniffer` (over an exhausted `prefixedConn`): sniff buffer and whether `dataError` is set -/
  | sniffer (buf : Bytes) (poison : Bool)
deriving Repr, DecidableEq

def Stack.content : Stack → Bytes
  | .plain => []
  | .prefixed r => r
  | .bufio b => b
  | .sniffer b _ => b

def Stack.poisoned : Stack → Bool
  | .sniffer _ p => p
  | _ => false

/-- size of the `bufio.Reader` buffer (`bufio.NewReader` default) -/
def bufioSize : Nat := 4096

/-- `Read(p)`, `len(p) = n`, through the wrapper. -/
def Stack.read (n : Nat) : Stack → Base → RRes × Stack × Base
  | .plain, b => let r := b.read n; (r.1, .plain, r.2)
  | .prefixed rest, b =>
    -- prefixedConn.Read: copy what is left of the prefix; if p is not full, ALSO read the conn
    if rest.isEmpty then let r := b.read n; (r.1, .prefixed [], r.2)
    else if n ≤ rest.length then (⟨rest.take n, none⟩, .prefixed (rest.drop n), b)
    else let r := b.read (n - rest.length); (⟨rest ++ r.1.data, r.1.err⟩, .prefixed [], r.2)
  | .bufio buffered, b =>
    -- bufio.Reader.Read: buffered bytes first; empty buffer: large p reads the conn directly,
    -- small p fills the internal buffer with one read
    if n = 0 then (⟨[], none⟩, .bufio buffered, b)          -- len(p) == 0: nothing is read or filled
    else if !buffered.isEmpty then (⟨buffered.take n, none⟩, .bufio (buffered.drop n), b)
    else if bufioSize ≤ n then let r := b.read n; (r.1, .bufio [], r.2)
    else
      let r := b.read bufioSize
      if r.1.data.isEmpty then (⟨[], r.1.err⟩, .bufio [], r.2)
      else (⟨r.1.data.take n, none⟩, .bufio (r.1.data.drop n), r.2)
  | .sniffer buf poison, b =>
    -- Sniffer.Read: a latched dataError (a genuine stream error) is returned on every call
    if poison then (⟨buf.take n, some .err⟩, .sniffer (buf.drop n) true, b)
    else if !buf.isEmpty then (⟨buf.take n, none⟩, .sniffer (buf.drop n) false, b)
    else let r := b.read n; (r.1, .sniffer [] false, r.2)

/-- `TakeRelaySegments` / `TakeRelayPrefix`: hand over everything buffered, mark it consumed. -/
def Stack.take : Stack → Bytes × Stack
  | .plain => ([], .plain)
  | .prefixed r => (r, .prefixed [])
  | .bufio b => (b, .bufio [])
  | .sniffer b p => (b, .sniffer [] p)

/-- result of one directional copy: bytes written to the destination, and `err == nil`. -/
structure Out where
  bytes : Bytes
  ok : Bool
deriving Repr, DecidableEq

def Out.prepend (p : Bytes) (o : Out) : Out := ⟨p ++ o.bytes, o.ok⟩

/-- `relayCopyLoop` / `relayCopyDirect` / the splice loop: read `sz` at a time, write what was read,
stop at the first error (`EOF` ⇒ nil).  `fuel` bounds the number of reads (see `Stack.measure`). -/
def copyLoop (sz : Nat) : Nat → Stack → Base → Out
  | 0, _, _ => ⟨[], false⟩
  | fuel + 1, st, b =>
    let r := st.read sz b
    match r.1.err with
    | none => (copyLoop sz fuel r.2.1 r.2.2).prepend r.1.data
    | some .eof => ⟨r.1.data, true⟩
    | some .err => ⟨r.1.data, false⟩

/-- every successful read makes this smaller -/
def Base.measure (b : Base) : Nat := (b.chunks.map fun c => c.length + 1).sum

def Stack.measure (st : Stack) (b : Base) : Nat := st.content.length + b.measure

/-- `relayCopyBufferSize` -/
def relayBuf : Nat := 32768
/-- `relaySpliceMaxStep` -/
def spliceStep : Nat := 262144

/-- which concrete branches the engine can take -/
structure Env where
  /-- `unwrapRelayTCPConn(src)` succeeds -/
  tcpSrc : Bool
  /-- `unwrapRelayTCPConn(dst)` succeeds -/
  tcpDst : Bool
  /-- `TIOCINQ` reports pending bytes when the gather path asks -/
  pending : Bool
deriving Repr

/-- what follows the gather write: `CopyRelayRemainder` when the source offers it, else `relayCopyLoop`. -/
def continuation (env : Env) (fuel : Nat) (s : Stack) (b : Base) : Out :=
  match s with
  | .prefixed _ =>                       -- prefixedConn.CopyRelayRemainder: relayCopyDirect(dst, c.Conn)
    copyLoop relayBuf fuel .plain b
  | .bufio bf =>                         -- bufioConn.CopyRelayRemainder
    if bf.isEmpty then
      if env.tcpSrc && env.tcpDst then copyLoop spliceStep fuel .plain b
      else copyLoop relayBuf fuel .plain b
    else copyLoop relayBuf fuel (.bufio bf) b
  | s => copyLoop relayBuf fuel s b      -- no continuation source: relayCopyLoop(dst, src)

/-- `defaultRelayCopyEngine.Copy(dst, src)` with `src = (st, b)`. -/
def engineCopy (env : Env) (fuel : Nat) (st : Stack) (b : Base) : Out :=
  let t := st.take
  let segs := t.1
  let st1 := t.2
  if !segs.isEmpty then
    -- tryRelayGatherWrite
    let body : RRes × Stack × Base :=
      if env.tcpSrc && env.pending then st1.read relayBuf b else (⟨[], none⟩, st1, b)
    let head := segs ++ body.1.data          -- one writev / net.Buffers.WriteTo
    match body.1.err with
    | some .eof => ⟨head, true⟩
    | some .err => ⟨head, false⟩
    | none => (continuation env fuel body.2.1 body.2.2).prepend head
  else if env.tcpSrc && env.tcpDst then
    -- relayFastCopy: splice on the unwrapped sockets, wrappers bypassed
    copyLoop spliceStep fuel .plain b
  else copyLoop relayBuf fuel st1 b

/-- each wrapper's OWN `CopyRelayRemainder` method, called at an arbitrary point (the engine only calls
it right after `take`): `prefixedConn` and `ConnSniffer` copy from the inner conn and bypass whatever
they still hold; `bufioConn` drains its reader first; a bare conn has no such method (plain loop). -/
def Stack.copyRemainder (fuel : Nat) (s : Stack) (b : Base) : Out :=
  match s with
  | .prefixed _ => copyLoop relayBuf fuel .plain b
  | .sniffer _ _ => copyLoop relayBuf fuel .plain b       -- copyDirect(dst, s.Conn): inner prefixedConn is exhausted
  | .bufio bf => if bf.isEmpty then copyLoop relayBuf fuel .plain b else copyLoop relayBuf fuel (.bufio bf) b
  | .plain => copyLoop relayBuf fuel .plain b

/-- `ConnSniffer.WriteTo`: flush the sniff buffer, then copy the inner conn (a latched error is not
consulted); for the other wrappers `io.Copy` falls back to plain reads. -/
def Stack.writeTo (fuel : Nat) (s : Stack) (b : Base) : Out :=
  match s with
  | .sniffer buf _ => (copyLoop relayBuf fuel .plain b).prepend buf
  | s => copyLoop relayBuf fuel s b

/-- one step of an arbitrary use of a wrapper -/
inductive Act where
  | read (n : Nat)
  | take
deriving Repr

/-- any interleaving of `Read(p)` (any sizes, 0 included) and `TakeRelaySegments`; stops at the first
read error. Returns what each step handed out, and the final state. -/
def runActs : List Act → Stack → Base → List Bytes × Stack × Base
  | [], st, b => ([], st, b)
  | .take :: as, st, b =>
    let t := st.take
    let r := runActs as t.2 b
    (t.1 :: r.1, r.2)
  | .read n :: as, st, b =>
    let r := st.read n b
    match r.1.err with
    | none => let q := runActs as r.2.1 r.2.2; (r.1.data :: q.1, q.2)
    | some _ => ([r.1.data], r.2)

/-! ## Part 2 — explicit time: detection windows, relay start, half-close grace -/

/-- a segment arriving from a peer at time `t` (µs since accept) -/
structure Ev where
  t : Nat
  data : Bytes
deriving Repr, DecidableEq

inductive Fin where
  | eof | reset
deriving DecidableEq, Repr

/-- what one peer does: segments at increasing times, then FIN or RST at `finT`. -/
structure Script where
  evs : List Ev
  finT : Nat
  fin : Fin
deriving Repr

def Script.stream (s : Script) : Bytes := (s.evs.map (·.data)).flatten

inductive RErr where
  | none | eof | reset | timeout
deriving DecidableEq, Repr

/-- a blocking read: when it returned, with what, and what is left of the script -/
structure TR where
  t : Nat
  data : Bytes
  err : RErr
  rest : Script
deriving Repr

def deadlineHit (dl : Option Nat) (at_ : Nat) : Bool :=
  match dl with
  | some d => d ≤ at_
  | none => false

def timeoutAt (now : Nat) (dl : Option Nat) : Nat :=
  match dl with
  | some d => max now d
  | none => now

/-- `conn.Read(p)`, `len(p)=n`, started at `now` with read deadline `dl` (an expired deadline fails
the read even when data is queued, as `internal/poll` does). -/
def Script.readAt (s : Script) (now : Nat) (dl : Option Nat) (n : Nat) : TR :=
  match s.evs with
  | e :: es =>
    let at_ := max now e.t
    if deadlineHit dl at_ then ⟨timeoutAt now dl, [], .timeout, s⟩
    else if e.data.length ≤ n then ⟨at_, e.data, .none, { s with evs := es }⟩
    else ⟨at_, e.data.take n, .none, { s with evs := ⟨e.t, e.data.drop n⟩ :: es }⟩
  | [] =>
    let at_ := max now s.finT
    if deadlineHit dl at_ then ⟨timeoutAt now dl, [], .timeout, s⟩
    else ⟨at_, [], (match s.fin with | .eof => .eof | .reset => .reset), s⟩

/-- inputs that are not computed by the model (oracles supplied per connection) -/
structure Cfg where
  /-- time at which `handleConn` has its routing result (0, or the 2 × 2 ms lookup retries) -/
  start : Nat
  /-- destination port is 53: DNS-over-TCP detection runs first -/
  port53 : Bool
  /-- `shouldTryTcpSniff` ∧ not suppressed by the negative cache -/
  sniff : Bool
  /-- sniffing timeout `W` (µs) -/
  window : Nat
  /-- `dns.Msg.Unpack` accepts the first frame -/
  dnsUnpackOk : Bool
  /-- a DNS controller is available -/
  dnsCtl : Bool
  /-- `isLikelyHttpOrTLSPrefix(prefetched)` -/
  likely : Bool
  /-- buffer lengths at which the sniffers answer `ErrNeedMore` -/
  needMore : List Nat
  /-- size of the conn read the sniffer issues when it holds `l` bytes (`Buffer.ReadFromOnce` offers
  `cap - len`, at least 512): pairs `(l, size)`; unlisted lengths read `relayBuf` -/
  offer : List (Nat × Nat)
  /-- the upstream conn implements `CloseWrite` -/
  rightCW : Bool
  /-- the bare client conn implements `CloseWrite` -/
  leftCW : Bool

/-- `TCPDNSFirstReadTimeout` -/
def dnsWindow : Nat := 5000000
/-- `relayHalfCloseTimeout` -/
def grace : Nat := 10000000
/-- `tcpSniffPrefetchBytes` -/
def prefetchBytes : Nat := 16
/-- smallest DNS message -/
def dnsMinLen : Nat := 12

inductive FrontKind where
  /-- `handleConn` returned before dialling -/
  | abort
  /-- handled by the DNS controller, no relay -/
  | dns
  /-- dial + relay -/
  | relay
deriving DecidableEq, Repr

/-- what `handleConn` has done when it reaches `routeDial` -/
structure Front where
  kind : FrontKind
  /-- time of the dial (= relay start; the scripted dial is instantaneous) -/
  T : Nat
  /-- `lRelayConn` -/
  st : Stack
  /-- rest of the client's script -/
  rest : Script
  /-- read deadline left armed on the client socket -/
  armed : Option Nat
deriving Repr

/-- `conn.SetReadDeadline(time.Time{})` -/
def Front.cleared (f : Front) : Front := { f with armed := none }

inductive PeekRes where
  | ok | full | fail (e : RErr)
deriving Repr

/-- `bufio.Reader.Peek(need)`: `fill()` until `need` bytes are buffered, the buffer is full, or a
read fails. Returns (outcome, time, buffer, rest of script). -/
def peekLoop (dl : Option Nat) (need : Nat) : Nat → Script → Nat → Bytes → PeekRes × Nat × Bytes × Script
  | 0, s, now, buf => (.fail .timeout, now, buf, s)
  | fuel + 1, s, now, buf =>
    if need ≤ buf.length then (.ok, now, buf, s)
    else if bufioSize ≤ buf.length then (.full, now, buf, s)
    else
      let r := s.readAt now dl (bufioSize - buf.length)
      match r.err with
      | .none => peekLoop dl need fuel r.rest r.t (buf ++ r.data)
      | e => (.fail e, r.t, buf, r.rest)

def Script.fuel (s : Script) : Nat := (s.evs.map fun e => e.data.length + 1).sum + 2

def be16 (b : Bytes) : Nat := b.getD 0 0 * 256 + b.getD 1 0

/-- `handleTCPDnsFastPath` up to the point where it is decided whether the connection is DNS.
`readDnsMsgFromBufio` arms `now+5s` and clears it on every exit (28bf897); nothing is consumed
from the `bufio.Reader` unless the frame is a well-formed *query*. -/
def dnsDetectRaw (cfg : Cfg) (s : Script) : Front :=
  let dl := some (cfg.start + dnsWindow)
  let through (t : Nat) (buf : Bytes) (rest : Script) : Front :=
    ⟨.relay, t, .bufio buf, rest, dl⟩
  let p1 := peekLoop dl 2 s.fuel s cfg.start []
  match p1.1 with
  | .ok =>
    let len := be16 p1.2.2.1
    if len < dnsMinLen then through p1.2.1 p1.2.2.1 p1.2.2.2
    else
      let p2 := peekLoop dl (2 + len) s.fuel p1.2.2.2 p1.2.1 p1.2.2.1
      match p2.1 with
      | .ok =>
        let buf := p2.2.2.1
        if !cfg.dnsUnpackOk then through p2.2.1 buf p2.2.2.2
        else if 128 ≤ buf.getD 4 0 then
          -- QR=1: not a query; rejected before Discard, the bytes stay buffered
          through p2.2.1 buf p2.2.2.2
        else if cfg.dnsCtl then ⟨.dns, p2.2.1, .bufio (buf.drop (2 + len)), p2.2.2.2, dl⟩
        else
          -- "dns controller is not available": the query is consumed, the connection ends
          ⟨.abort, p2.2.1, .bufio (buf.drop (2 + len)), p2.2.2.2, dl⟩
      | _ => through p2.2.1 p2.2.2.1 p2.2.2.2
  | _ => through p1.2.1 p1.2.2.1 p1.2.2.2

/-- …and the deferred `conn.SetReadDeadline(time.Time{})` of `readDnsMsgFromBufio` (28bf897) on every exit. -/
def dnsDetect (cfg : Cfg) (s : Script) : Front := (dnsDetectRaw cfg s).cleared

def offerAt (off : List (Nat × Nat)) (l : Nat) : Nat :=
  match off.find? (fun p => p.1 == l) with
  | some p => p.2
  | none => relayBuf

/-- the `SniffTcp` loop after the first read: keep reading while the sniffers say `ErrNeedMore`.
The deadline `dl` was fixed when the sniffer was created.  Only a genuine stream error is latched
in `dataError`; the sniffer's own timeout is not.  Returns (time, buffer, poisoned, rest). -/
def sniffLoop (needMore : List Nat) (off : List (Nat × Nat)) (dl : Nat) : Nat → Script → Nat → Bytes → Nat × Bytes × Bool × Script
  | 0, s, now, buf => (now, buf, false, s)
  | fuel + 1, s, now, buf =>
    if needMore.contains buf.length then
      let r := s.readAt now (some dl) (offerAt off buf.length)
      match r.err with
      | .none => sniffLoop needMore off dl fuel r.rest r.t (buf ++ r.data)
      | .eof =>
        -- ReadFromOnce maps EOF to nil: same buffer, same verdict; the loop spins until the
        -- deadline has passed and ends with the (unlatched) timeout
        (max r.t dl, buf, false, r.rest)
      | .timeout => (r.t, buf, false, r.rest)
      | .reset => (r.t, buf, true, r.rest)
    else (now, buf, false, s)

/-- `handleConn` for a sniff-eligible destination: prefetch (≤ 16 bytes, window `W`), prefix gate,
`ConnSniffer`. -/
def sniffFrontRaw (cfg : Cfg) (s : Script) : Front :=
  let pdl := some (cfg.start + cfg.window)     -- armed by prefetchForTcpSniff
  let r := s.readAt cfg.start pdl prefetchBytes
  match r.err with
  | .reset => ⟨.abort, r.t, .plain, r.rest, pdl⟩
  | .eof | .timeout => ⟨.relay, r.t, .plain, r.rest, pdl⟩
  | .none =>
    if r.data.isEmpty then ⟨.relay, r.t, .plain, r.rest, pdl⟩
    else if !cfg.likely then ⟨.relay, r.t, .prefixed r.data, r.rest, pdl⟩
    else
      let dl := r.t + cfg.window
      -- first sniffer read goes through prefixedConn.Read: the prefix, then a blocking conn read
      let r1 := r.rest.readAt r.t (some dl) (offerAt cfg.offer r.data.length)
      let buf := r.data ++ r1.data
      match r1.err with
      | .none | .eof =>
        let l := sniffLoop cfg.needMore cfg.offer dl r1.rest.fuel r1.rest r1.t buf
        ⟨.relay, l.1, .sniffer l.2.1 l.2.2.1, l.2.2.2, some dl⟩
      | .timeout => ⟨.relay, r1.t, .sniffer buf false, r1.rest, some dl⟩
      | .reset => ⟨.relay, r1.t, .sniffer buf true, r1.rest, some dl⟩

/-- …every probe clears what it armed: `prefetchForTcpSniff` right after its read,
`readStreamOnceWithReadDeadline` by a deferred reset. -/
def sniffFront (cfg : Cfg) (s : Script) : Front := (sniffFrontRaw cfg s).cleared

/-- `handleConn` up to `routeDial`. -/
def front (cfg : Cfg) (s : Script) : Front :=
  if cfg.port53 then dnsDetect cfg s          -- port 53 is in tcpSniffingExcludedPorts: no sniffing
  else if cfg.sniff then sniffFront cfg s
  else ⟨.relay, cfg.start, .plain, s, none⟩

/-- bytes handed to one peer at one instant -/
structure Deliv where
  t : Nat
  data : Bytes
deriving Repr, DecidableEq

/-- one direction run to its natural end (nothing from the other direction interferes):
deliveries, end time, `err == nil`. -/
structure DirRun where
  out : List Deliv
  endT : Nat
  ok : Bool
deriving Repr

/-- `Copy(dst, src)` started at `T` over a source whose buffered bytes are `content`. -/
def dirNatural (T : Nat) (content : Bytes) (poison : Bool) (s : Script) : DirRun :=
  let head : List Deliv := if content.isEmpty then [] else [⟨T, content⟩]
  if poison then ⟨head, T, false⟩
  else ⟨head ++ s.evs.map (fun e => ⟨max T e.t, e.data⟩), max T s.finT, s.fin == .eof⟩

def cutBefore (t : Nat) (ds : List Deliv) : List Deliv := ds.filter fun d => d.t < t

/-- the client→upstream direction when a read deadline `d` is (still) armed on the client socket:
what was buffered is forwarded without a read, every read that would complete at or after `d`
fails with a timeout instead, and that error ends the relay. -/
def dirNaturalArmed (T : Nat) (content : Bytes) (poison : Bool) (armed : Option Nat) (s : Script) : DirRun :=
  match armed with
  | none => dirNatural T content poison s
  | some d =>
    let r := dirNatural T content poison s
    if poison || r.endT < max T d then r
    else
      let head : List Deliv := if content.isEmpty then [] else [⟨T, content⟩]
      ⟨head ++ cutBefore (max T d) (s.evs.map (fun e => ⟨max T e.t, e.data⟩)), max T d, false⟩

/-- what both peers observe of one proxied connection -/
structure Obs where
  /-- dial time, `none` when the connection was not relayed -/
  dial : Option Nat
  /-- a read deadline was still armed on the client socket at the dial -/
  armedAtDial : Bool
  /-- bytes the upstream received, with delivery times -/
  up : List Deliv
  /-- when the upstream saw end-of-stream from dae -/
  upEof : Nat
  cl : List Deliv
  clEof : Nat
  /-- when `handleConn` returned (everything closed) -/
  ret : Nat
deriving Repr

/-- `relayCore.run`: the direction that ends first decides what happens to the other.
`first`/`second` are the natural runs; `fwd` says whether the first direction's destination
accepts `CloseWrite`. Returns (second's deliveries, close-all time, EOF time at first's dst). -/
def resolve (first second : DirRun) (fwd : Bool) : List Deliv × Nat × Nat :=
  if !first.ok then
    -- error: cancel + forceClose, the other direction is cut now
    (cutBefore first.endT second.out, first.endT, first.endT)
  else
    -- clean end: CloseWrite(dst), then SetReadDeadline(dst, now + grace) bounds the other direction
    let limit := first.endT + grace
    if second.endT < limit then
      (second.out, second.endT, if fwd then first.endT else second.endT)
    else (cutBefore limit second.out, limit, if fwd then first.endT else limit)

/-- relay phase of `handleConn`: `RelayTCPContextWithRecords(lRelayConn, rConn)` then the deferred closes. -/
def relayPhase (cfg : Cfg) (f : Front) (up : Script) : Obs :=
  let l2r := dirNaturalArmed f.T f.st.content f.st.poisoned f.armed f.rest
  let r2l := dirNatural f.T [] false up
  if l2r.endT ≤ r2l.endT then
    let r := resolve l2r r2l cfg.rightCW
    ⟨some f.T, f.armed.isSome, l2r.out, r.2.2, r.1, r.2.1, r.2.1⟩
  else
    -- every wrapper around the client conn forwards CloseWrite to it
    let r := resolve r2l l2r cfg.leftCW
    ⟨some f.T, f.armed.isSome, r.1, r.2.1, r2l.out, r.2.2, r.2.1⟩

/-- one proxied connection from accept to return. -/
def conn (cfg : Cfg) (client up : Script) : Obs :=
  let f := front cfg client
  match f.kind with
  | .relay => relayPhase cfg f up
  | _ => ⟨none, false, [], f.T, [], f.T, f.T⟩

/-! ## Part 3 — the regenerated deadline path table (rows come from `Gen/DeadlinePaths.lean`) -/

/-- one control-flow path from an arming call — `X.SetReadDeadline(<non-zero>)`, `X.SetDeadline(<non-zero>)`,
or a helper that forwards a deadline parameter to one of them — to an exit of its function -/
structure PathRow where
  file : String
  func : String
  line : Nat
  recv : String
  /-- the deadline expression as written (locals assigned once are resolved) -/
  arg : String
  /-- the arming call sits in a method or closure of `relayCore` -/
  inRelayCore : Bool
  /-- the deadline expression is computed from `halfCloseTimeout` -/
  fromGrace : Bool
  path : Nat
  /-- on this path the deadline is reset to zero (directly or by a registered defer), or the conn is closed -/
  cleared : Bool
  /-- the arming call itself failed on this path (`if err := …SetReadDeadline(…); err != nil { return }`) -/
  armFailed : Bool
deriving Repr, DecidableEq

/-- the arming site that is meant to outlive its function: the half-close grace timer of `relayCore`
(`dir.dst.SetReadDeadline(time.Now().Add(c.halfCloseTimeout))`), modelled by `resolve`.  Keyed on "a method
or closure of `relayCore` arms a deadline computed from `halfCloseTimeout`" (the extractor resolves a local
that was assigned that expression), so turning the closure into a method, renaming `dir`, or hoisting the
expression into a variable keeps the row exempt, while any OTHER deadline armed in `relayCore` is an
ordinary row. -/
def PathRow.isGraceTimer (r : PathRow) : Bool :=
  r.inRelayCore && r.fromGrace

def PathRow.good (r : PathRow) : Bool :=
  r.cleared || r.armFailed || r.isGraceTimer

end DaeVerif.C05
