import DaeVerif.C05.Proofs
/-!
# C05 — helper lemmas (timed part: blocking reads, detection front-end, relay phase)
-/
namespace DaeVerif.C05

/-- segment times never go backwards -/
def Script.Sorted (s : Script) : Prop := s.evs.Pairwise (fun a b => a.t ≤ b.t)

/-! ### one blocking read -/

/-- what a read leaves of the script: the stream is split, never changed; the end is untouched. -/
structure ReadAtSpec (s : Script) (r : TR) (now : Nat) (dl : Option Nat) : Prop where
  stream : r.data ++ r.rest.stream = s.stream
  finT : r.rest.finT = s.finT
  fin : r.rest.fin = s.fin
  lb : now ≤ r.t
  ub : ∀ d, dl = some d → now ≤ d → r.t ≤ d
  errRest : r.err ≠ .none → r.rest = s ∧ r.data = []
  reset : r.err = .reset → s.fin = .reset ∧ s.finT ≤ r.t
  eof : r.err = .eof → s.fin = .eof ∧ s.evs = [] ∧ s.finT ≤ r.t
  sorted : s.Sorted → r.rest.Sorted

theorem deadlineHit_false_lt {dl : Option Nat} {a d : Nat} (h : deadlineHit dl a = false)
    (hd : dl = some d) : a < d := by
  subst hd; simp [deadlineHit] at h; omega

theorem timeoutAt_le {dl : Option Nat} {now d : Nat} (hd : dl = some d) (h : now ≤ d) :
    timeoutAt now dl ≤ d := by
  subst hd; simp [timeoutAt]; omega

theorem le_timeoutAt (now : Nat) (dl : Option Nat) : now ≤ timeoutAt now dl := by
  cases dl <;> simp [timeoutAt]; omega

theorem Script.readAt_spec (s : Script) (now : Nat) (dl : Option Nat) (n : Nat) :
    ReadAtSpec s (s.readAt now dl n) now dl := by
  unfold Script.readAt
  cases hev : s.evs with
  | nil =>
    simp only
    by_cases hh : deadlineHit dl (max now s.finT) = true
    · simp only [hh, ↓reduceIte]
      exact ⟨by simp, rfl, rfl, le_timeoutAt _ _, fun d hd h => timeoutAt_le hd h,
        fun _ => ⟨rfl, rfl⟩, by simp, by simp, fun h => h⟩
    · have hh' : deadlineHit dl (max now s.finT) = false := by simpa using hh
      simp only [hh', Bool.false_eq_true, ↓reduceIte]
      refine ⟨by simp, rfl, rfl, by dsimp only; omega, ?_, fun _ => ⟨rfl, rfl⟩, ?_, ?_, fun h => h⟩
      · intro d hd _; have := deadlineHit_false_lt hh' hd; dsimp only; omega
      · intro h
        cases hf : s.fin with
        | eof => simp [hf] at h
        | reset => exact ⟨rfl, by dsimp only; omega⟩
      · intro h
        cases hf : s.fin with
        | eof => exact ⟨rfl, hev, by dsimp only; omega⟩
        | reset => simp [hf] at h
  | cons e es =>
    simp only
    by_cases hh : deadlineHit dl (max now e.t) = true
    · simp only [hh, ↓reduceIte]
      exact ⟨by simp, rfl, rfl, le_timeoutAt _ _, fun d hd h => timeoutAt_le hd h,
        fun _ => ⟨rfl, rfl⟩, by simp, by simp, fun h => h⟩
    · have hh' : deadlineHit dl (max now e.t) = false := by simpa using hh
      simp only [hh', Bool.false_eq_true, ↓reduceIte]
      have hub : ∀ d, dl = some d → now ≤ d → max now e.t ≤ d := by
        intro d hd _; have := deadlineHit_false_lt hh' hd; omega
      by_cases hl : e.data.length ≤ n
      · simp only [hl, ↓reduceIte]
        refine ⟨by simp [Script.stream, hev], rfl, rfl, by dsimp only; omega, hub, by simp, by simp, by simp, ?_⟩
        intro hs; unfold Script.Sorted at hs ⊢; rw [hev] at hs; exact (List.pairwise_cons.mp hs).2
      · simp only [hl, ↓reduceIte]
        refine ⟨?_, rfl, rfl, by dsimp only; omega, hub, by simp, by simp, by simp, ?_⟩
        · simp only [Script.stream, hev, List.map_cons, List.flatten_cons]
          rw [← List.append_assoc, List.take_append_drop]
        · intro hs; unfold Script.Sorted at hs ⊢; rw [hev] at hs
          have := List.pairwise_cons.mp hs
          exact List.pairwise_cons.mpr ⟨fun x hx => this.1 x hx, this.2⟩

/-! ### `bufio.Reader.Peek` -/

structure LoopSpec (s : Script) (now : Nat) (buf : Bytes) (t : Nat) (buf' : Bytes) (rest : Script)
    (dl : Option Nat) : Prop where
  stream : buf' ++ rest.stream = buf ++ s.stream
  finT : rest.finT = s.finT
  fin : rest.fin = s.fin
  lb : now ≤ t
  ub : ∀ d, dl = some d → now ≤ d → t ≤ d
  sorted : s.Sorted → rest.Sorted

theorem peekLoop_spec (dl : Option Nat) (need : Nat) :
    ∀ (fuel : Nat) (s : Script) (now : Nat) (buf : Bytes),
      LoopSpec s now buf (peekLoop dl need fuel s now buf).2.1 (peekLoop dl need fuel s now buf).2.2.1
        (peekLoop dl need fuel s now buf).2.2.2 dl := by
  intro fuel
  induction fuel with
  | zero => intro s now buf; exact ⟨rfl, rfl, rfl, Nat.le_refl _, fun _ _ h => h, fun h => h⟩
  | succ f ih =>
    intro s now buf
    unfold peekLoop
    by_cases h1 : need ≤ buf.length
    · simp only [h1, ↓reduceIte]; exact ⟨rfl, rfl, rfl, Nat.le_refl _, fun _ _ h => h, fun h => h⟩
    · simp only [h1, ↓reduceIte]
      by_cases h2 : bufioSize ≤ buf.length
      · simp only [h2, ↓reduceIte]; exact ⟨rfl, rfl, rfl, Nat.le_refl _, fun _ _ h => h, fun h => h⟩
      · simp only [h2, ↓reduceIte]
        have rs := s.readAt_spec now dl (bufioSize - buf.length)
        cases he : (s.readAt now dl (bufioSize - buf.length)).err with
        | none =>
          simp only [he]
          have := ih (s.readAt now dl (bufioSize - buf.length)).rest
            (s.readAt now dl (bufioSize - buf.length)).t
            (buf ++ (s.readAt now dl (bufioSize - buf.length)).data)
          refine ⟨?_, ?_, ?_, ?_, ?_, fun h => this.sorted (rs.sorted h)⟩
          · rw [this.stream, List.append_assoc, rs.stream]
          · rw [this.finT, rs.finT]
          · rw [this.fin, rs.fin]
          · exact Nat.le_trans rs.lb this.lb
          · intro d hd hnd; exact this.ub d hd (rs.ub d hd hnd)
        | eof =>
          simp only [he]
          have := rs.errRest (by simp [he])
          exact ⟨by rw [this.1], by rw [this.1], by rw [this.1], rs.lb, rs.ub, rs.sorted⟩
        | reset =>
          simp only [he]
          have := rs.errRest (by simp [he])
          exact ⟨by rw [this.1], by rw [this.1], by rw [this.1], rs.lb, rs.ub, rs.sorted⟩
        | timeout =>
          simp only [he]
          have := rs.errRest (by simp [he])
          exact ⟨by rw [this.1], by rw [this.1], by rw [this.1], rs.lb, rs.ub, rs.sorted⟩

/-! ### the sniffer's read loop -/

theorem sniffLoop_spec (nm : List Nat) (off : List (Nat × Nat)) (dl : Nat) :
    ∀ (fuel : Nat) (s : Script) (now : Nat) (buf : Bytes), now ≤ dl →
      LoopSpec s now buf (sniffLoop nm off dl fuel s now buf).1 (sniffLoop nm off dl fuel s now buf).2.1
        (sniffLoop nm off dl fuel s now buf).2.2.2 (some dl) ∧
      ((sniffLoop nm off dl fuel s now buf).2.2.1 = true →
        s.fin = .reset ∧ s.finT ≤ (sniffLoop nm off dl fuel s now buf).1) := by
  intro fuel
  induction fuel with
  | zero =>
    intro s now buf _
    exact ⟨⟨rfl, rfl, rfl, Nat.le_refl _, fun _ _ h => h, fun h => h⟩, by simp [sniffLoop]⟩
  | succ f ih =>
    intro s now buf hnow
    unfold sniffLoop
    by_cases h1 : nm.contains buf.length = true
    · simp only [h1, ↓reduceIte]
      have rs := s.readAt_spec now (some dl) (offerAt off buf.length)
      have hub := rs.ub dl rfl hnow
      cases he : (s.readAt now (some dl) (offerAt off buf.length)).err with
      | none =>
        simp only [he]
        have := ih (s.readAt now (some dl) (offerAt off buf.length)).rest (s.readAt now (some dl) (offerAt off buf.length)).t
          (buf ++ (s.readAt now (some dl) (offerAt off buf.length)).data) hub
        refine ⟨⟨?_, ?_, ?_, ?_, ?_, fun h => this.1.sorted (rs.sorted h)⟩, ?_⟩
        · rw [this.1.stream, List.append_assoc, rs.stream]
        · rw [this.1.finT, rs.finT]
        · rw [this.1.fin, rs.fin]
        · exact Nat.le_trans rs.lb this.1.lb
        · intro d hd hnd; exact this.1.ub d hd (by cases hd; exact hub)
        · intro hp; have := this.2 hp; rw [rs.fin, rs.finT] at this; exact this
      | eof =>
        simp only [he]
        have := rs.errRest (by simp [he])
        refine ⟨⟨by rw [this.1], by rw [this.1], by rw [this.1], ?_, ?_, rs.sorted⟩, by simp⟩
        · have := rs.lb; omega
        · intro d hd _; cases hd; omega
      | reset =>
        simp only [he]
        have := rs.errRest (by simp [he])
        exact ⟨⟨by rw [this.1], by rw [this.1], by rw [this.1], rs.lb, rs.ub, rs.sorted⟩, fun _ => rs.reset he⟩
      | timeout =>
        simp only [he]
        have := rs.errRest (by simp [he])
        exact ⟨⟨by rw [this.1], by rw [this.1], by rw [this.1], rs.lb, rs.ub, rs.sorted⟩, by simp⟩
    · have h1' : nm.contains buf.length = false := by simpa using h1
      simp only [h1', Bool.false_eq_true, ↓reduceIte]
      exact ⟨⟨rfl, rfl, rfl, Nat.le_refl _, fun _ _ h => h, fun h => h⟩, by simp⟩

/-! ### `Peek` succeeds only with the bytes really there, and never beyond the reader's size -/

theorem peekLoop_ok_bounds (dl : Option Nat) (need : Nat) :
    ∀ (fuel : Nat) (s : Script) (now : Nat) (buf : Bytes), buf.length ≤ bufioSize →
      ((peekLoop dl need fuel s now buf).2.2.1.length ≤ bufioSize) ∧
      (∀ e, (peekLoop dl need fuel s now buf).1 = .fail e → True) ∧
      (match (peekLoop dl need fuel s now buf).1 with
        | .ok => need ≤ (peekLoop dl need fuel s now buf).2.2.1.length
        | _ => True) := by
  intro fuel
  induction fuel with
  | zero => intro s now buf hb; simp [peekLoop, hb]
  | succ f ih =>
    intro s now buf hb
    rw [peekLoop]
    by_cases h1 : need ≤ buf.length
    · simp [h1, hb]
    · simp only [h1, ↓reduceIte]
      by_cases h2 : bufioSize ≤ buf.length
      · simp [h2, hb]
      · simp only [h2, ↓reduceIte]
        cases he : (s.readAt now dl (bufioSize - buf.length)).err with
        | none =>
          simp only [he]
          have hlen : (buf ++ (s.readAt now dl (bufioSize - buf.length)).data).length ≤ bufioSize := by
            have : (s.readAt now dl (bufioSize - buf.length)).data.length ≤ bufioSize - buf.length := by
              unfold Script.readAt
              cases hev : s.evs with
              | nil => simp only; split <;> simp
              | cons e es =>
                simp only
                split
                · simp
                · split
                  · simp only; omega
                  · simp only [List.length_take]; omega
            rw [List.length_append]; omega
          exact ih _ _ _ hlen
        | eof => simp [he, hb]
        | reset => simp [he, hb]
        | timeout => simp [he, hb]

/-! ### the detection front-end -/

/-- everything the relay phase needs to know about what detection did -/
structure FrontSpec (cfg : Cfg) (s : Script) (f : Front) (bound : Nat) : Prop where
  stream : f.kind = .relay → f.st.content ++ f.rest.stream = s.stream
  finT : f.rest.finT = s.finT
  fin : f.rest.fin = s.fin
  lb : cfg.start ≤ f.T
  ub : f.T ≤ cfg.start + bound
  poison : f.st.poisoned = true → s.fin = .reset ∧ s.finT ≤ f.T
  sorted : s.Sorted → f.rest.Sorted

theorem dnsDetectRaw_spec (cfg : Cfg) (s : Script) : FrontSpec cfg s (dnsDetectRaw cfg s) dnsWindow := by
  have hdl : cfg.start ≤ cfg.start + dnsWindow := Nat.le_add_right _ _
  have p1 := peekLoop_spec (some (cfg.start + dnsWindow)) 2 s.fuel s cfg.start []
  have through : ∀ (t : Nat) (buf : Bytes) (rest : Script),
      buf ++ rest.stream = s.stream → rest.finT = s.finT → rest.fin = s.fin →
      cfg.start ≤ t → t ≤ cfg.start + dnsWindow → (s.Sorted → rest.Sorted) →
      FrontSpec cfg s ⟨.relay, t, .bufio buf, rest, some (cfg.start + dnsWindow)⟩ dnsWindow := by
    intro t buf rest h1 h2 h3 h4 h5 h6
    exact ⟨fun _ => h1, h2, h3, h4, h5, by simp [Stack.poisoned], h6⟩
  unfold dnsDetectRaw
  simp only
  have p1s : (peekLoop (some (cfg.start + dnsWindow)) 2 s.fuel s cfg.start []).2.2.1 ++
      (peekLoop (some (cfg.start + dnsWindow)) 2 s.fuel s cfg.start []).2.2.2.stream = s.stream := by
    simpa using p1.stream
  have p1u := p1.ub _ rfl hdl
  cases h1 : (peekLoop (some (cfg.start + dnsWindow)) 2 s.fuel s cfg.start []).1 with
  | ok =>
    simp only [h1]
    split
    · exact through _ _ _ p1s p1.finT p1.fin p1.lb p1u p1.sorted
    · generalize hq : peekLoop (some (cfg.start + dnsWindow)) 2 s.fuel s cfg.start [] = q at *
      have p2 := peekLoop_spec (some (cfg.start + dnsWindow)) (2 + be16 q.2.2.1) s.fuel q.2.2.2 q.2.1 q.2.2.1
      have p2s := p2.stream
      rw [p1s] at p2s
      have p2u := p2.ub _ rfl p1u
      have p2l := Nat.le_trans p1.lb p2.lb
      have p2f := p2.finT.trans p1.finT
      have p2n := p2.fin.trans p1.fin
      have p2o : s.Sorted → _ := fun h => p2.sorted (p1.sorted h)
      cases h2 : (peekLoop (some (cfg.start + dnsWindow)) (2 + be16 q.2.2.1) s.fuel q.2.2.2 q.2.1 q.2.2.1).1 with
      | ok =>
        simp only [h2]
        split
        · exact through _ _ _ p2s p2f p2n p2l p2u p2o
        · split
          · exact through _ _ _ p2s p2f p2n p2l p2u p2o
          · split
            · exact ⟨by simp, p2f, p2n, p2l, p2u, by simp [Stack.poisoned], p2o⟩
            · exact ⟨by simp, p2f, p2n, p2l, p2u, by simp [Stack.poisoned], p2o⟩
      | full => simp only [h2]; exact through _ _ _ p2s p2f p2n p2l p2u p2o
      | fail e => simp only [h2]; exact through _ _ _ p2s p2f p2n p2l p2u p2o
  | full => simp only [h1]; exact through _ _ _ p1s p1.finT p1.fin p1.lb p1u p1.sorted
  | fail e => simp only [h1]; exact through _ _ _ p1s p1.finT p1.fin p1.lb p1u p1.sorted

theorem sniffFrontRaw_spec (cfg : Cfg) (s : Script) :
    FrontSpec cfg s (sniffFrontRaw cfg s) (2 * cfg.window) := by
  have r0 := s.readAt_spec cfg.start (some (cfg.start + cfg.window)) prefetchBytes
  have r0u := r0.ub _ rfl (Nat.le_add_right _ _)
  have r0u2 : (s.readAt cfg.start (some (cfg.start + cfg.window)) prefetchBytes).t ≤
      cfg.start + 2 * cfg.window := by omega
  unfold sniffFrontRaw
  simp only
  generalize hr : s.readAt cfg.start (some (cfg.start + cfg.window)) prefetchBytes = r at *
  have plainCase : r.err ≠ .none ∨ r.data = [] →
      FrontSpec cfg s ⟨.relay, r.t, .plain, r.rest, some (cfg.start + cfg.window)⟩ (2 * cfg.window) := by
    intro h
    refine ⟨fun _ => ?_, r0.finT, r0.fin, r0.lb, r0u2, by simp [Stack.poisoned], r0.sorted⟩
    have hs := r0.stream
    rcases h with h | h
    · have := r0.errRest h; rw [this.2] at hs; simpa [Stack.content] using hs
    · rw [h] at hs; simpa [Stack.content] using hs
  cases he : r.err with
  | reset =>
    simp only [he]
    exact ⟨by simp, r0.finT, r0.fin, r0.lb, r0u2, by simp [Stack.poisoned], r0.sorted⟩
  | eof => simp only [he]; exact plainCase (Or.inl (by simp [he]))
  | timeout => simp only [he]; exact plainCase (Or.inl (by simp [he]))
  | none =>
    simp only [he]
    split
    · rename_i hemp; exact plainCase (Or.inr (by simpa using hemp))
    · split
      · exact ⟨fun _ => by simpa [Stack.content] using r0.stream, r0.finT, r0.fin, r0.lb, r0u2,
          by simp [Stack.poisoned], r0.sorted⟩
      · -- the sniffer
        have hdl : r.t ≤ r.t + cfg.window := Nat.le_add_right _ _
        have r1 := r.rest.readAt_spec r.t (some (r.t + cfg.window)) (offerAt cfg.offer r.data.length)
        have r1u := r1.ub _ rfl hdl
        generalize hr1 : r.rest.readAt r.t (some (r.t + cfg.window)) (offerAt cfg.offer r.data.length) = q at *
        have hstream1 : (r.data ++ q.data) ++ q.rest.stream = s.stream := by
          rw [List.append_assoc, r1.stream, r0.stream]
        have hub1 : q.t ≤ cfg.start + 2 * cfg.window := by omega
        have hlb1 : cfg.start ≤ q.t := Nat.le_trans r0.lb r1.lb
        have loopCase : FrontSpec cfg s
            ⟨.relay, (sniffLoop cfg.needMore cfg.offer (r.t + cfg.window) q.rest.fuel q.rest q.t (r.data ++ q.data)).1,
              .sniffer (sniffLoop cfg.needMore cfg.offer (r.t + cfg.window) q.rest.fuel q.rest q.t (r.data ++ q.data)).2.1
                (sniffLoop cfg.needMore cfg.offer (r.t + cfg.window) q.rest.fuel q.rest q.t (r.data ++ q.data)).2.2.1,
              (sniffLoop cfg.needMore cfg.offer (r.t + cfg.window) q.rest.fuel q.rest q.t (r.data ++ q.data)).2.2.2, some (r.t + cfg.window)⟩
            (2 * cfg.window) := by
          have l := sniffLoop_spec cfg.needMore cfg.offer (r.t + cfg.window) q.rest.fuel q.rest q.t (r.data ++ q.data) r1u
          have lu := l.1.ub _ rfl r1u
          refine ⟨fun _ => ?_, ?_, ?_, ?_, ?_, ?_, fun h => l.1.sorted (r1.sorted (r0.sorted h))⟩
          · simp only [Stack.content]; rw [l.1.stream, hstream1]
          · rw [l.1.finT, r1.finT, r0.finT]
          · rw [l.1.fin, r1.fin, r0.fin]
          · exact Nat.le_trans hlb1 l.1.lb
          · dsimp only; omega
          · intro hp
            have := l.2 (by simpa [Stack.poisoned] using hp)
            rw [r1.fin, r0.fin, r1.finT, r0.finT] at this
            exact this
        cases he1 : q.err with
        | none => simp only [he1]; exact loopCase
        | eof => simp only [he1]; exact loopCase
        | timeout =>
          simp only [he1]
          exact ⟨fun _ => by simpa [Stack.content] using hstream1, by rw [r1.finT, r0.finT],
            by rw [r1.fin, r0.fin], hlb1, hub1, by simp [Stack.poisoned],
            fun h => r1.sorted (r0.sorted h)⟩
        | reset =>
          simp only [he1]
          have hrs := r1.reset he1
          rw [r0.fin, r0.finT] at hrs
          exact ⟨fun _ => by simpa [Stack.content] using hstream1, by rw [r1.finT, r0.finT],
            by rw [r1.fin, r0.fin], hlb1, hub1, fun _ => hrs, fun h => r1.sorted (r0.sorted h)⟩

/-- the detection window that applies to a destination -/
def frontBound (cfg : Cfg) : Nat :=
  if cfg.port53 then dnsWindow else if cfg.sniff then 2 * cfg.window else 0

theorem FrontSpec.cleared {cfg : Cfg} {s : Script} {f : Front} {b : Nat} (h : FrontSpec cfg s f b) :
    FrontSpec cfg s f.cleared b :=
  ⟨h.stream, h.finT, h.fin, h.lb, h.ub, h.poison, h.sorted⟩

/-- every probe of the front-end has cleared the read deadline it armed when `handleConn` dials -/
theorem front_armed (cfg : Cfg) (s : Script) : (front cfg s).armed = none := by
  unfold front
  split
  · rfl
  · split <;> rfl

theorem front_spec (cfg : Cfg) (s : Script) : FrontSpec cfg s (front cfg s) (frontBound cfg) := by
  unfold front frontBound
  split
  · exact (dnsDetectRaw_spec cfg s).cleared
  · split
    · exact (sniffFrontRaw_spec cfg s).cleared
    · exact ⟨fun _ => by simp [Stack.content], rfl, rfl, Nat.le_refl _, Nat.le_refl _,
        by simp [Stack.poisoned], fun h => h⟩

/-! ### the fuel given to the detection loops is enough -/

theorem Script.readAt_fuel (s : Script) (now : Nat) (dl : Option Nat) (n : Nat) (hn : 0 < n)
    (h : (s.readAt now dl n).err = .none) : (s.readAt now dl n).rest.fuel < s.fuel := by
  unfold Script.readAt at h ⊢
  cases hev : s.evs with
  | nil =>
    simp only [hev] at h ⊢
    split at h
    · simp at h
    · cases hf : s.fin <;> simp [hf] at h
  | cons e es =>
    simp only [hev] at h ⊢
    by_cases hh : deadlineHit dl (max now e.t) = true
    · simp [hh] at h
    · simp only [hh, Bool.false_eq_true, ↓reduceIte]
      by_cases hl : e.data.length ≤ n
      · simp only [hl, ↓reduceIte, Script.fuel, hev, List.map_cons, List.sum_cons]; omega
      · simp only [hl, ↓reduceIte, Script.fuel, hev, List.map_cons, List.sum_cons, List.length_drop]; omega

theorem Script.readAt_fuel_le (s : Script) (now : Nat) (dl : Option Nat) (n : Nat) :
    (s.readAt now dl n).rest.fuel ≤ s.fuel := by
  unfold Script.readAt
  cases hev : s.evs with
  | nil => simp only; split <;> simp [Script.fuel, hev]
  | cons e es =>
    simp only
    split
    · simp [Script.fuel, hev]
    · split
      · simp only [Script.fuel, hev, List.map_cons, List.sum_cons]; omega
      · simp only [Script.fuel, hev, List.map_cons, List.sum_cons, List.length_drop]; omega

/-- more fuel than `s.fuel - 1` never changes what `Peek` returns: the out-of-fuel branch is dead. -/
theorem peekLoop_fuel_stable (dl : Option Nat) (need : Nat) :
    ∀ (fuel : Nat) (s : Script) (now : Nat) (buf : Bytes), s.fuel ≤ fuel + 1 →
      peekLoop dl need (fuel + 1) s now buf = peekLoop dl need fuel s now buf := by
  intro fuel
  induction fuel with
  | zero => intro s now buf h; simp [Script.fuel] at h
  | succ f ih =>
    intro s now buf h
    rw [peekLoop, peekLoop]
    split
    · rfl
    · split
      · rfl
      · rename_i h1 h2
        have hn : 0 < bufioSize - buf.length := by omega
        cases he : (s.readAt now dl (bufioSize - buf.length)).err with
        | none =>
          simp only [he]
          have := s.readAt_fuel now dl _ hn he
          exact ih _ _ _ (by omega)
        | eof => simp only [he]
        | reset => simp only [he]
        | timeout => simp only [he]

theorem offerAt_pos (off : List (Nat × Nat)) (hoff : ∀ p ∈ off, 0 < p.2) (l : Nat) : 0 < offerAt off l := by
  unfold offerAt
  cases h : off.find? (fun p => p.1 == l) with
  | none => simp; decide
  | some p => simp; exact hoff p (List.mem_of_find?_eq_some h)

theorem sniffLoop_fuel_stable (nm : List Nat) (off : List (Nat × Nat)) (hoff : ∀ p ∈ off, 0 < p.2) (dl : Nat) :
    ∀ (fuel : Nat) (s : Script) (now : Nat) (buf : Bytes), s.fuel ≤ fuel + 1 →
      sniffLoop nm off dl (fuel + 1) s now buf = sniffLoop nm off dl fuel s now buf := by
  intro fuel
  induction fuel with
  | zero => intro s now buf h; simp [Script.fuel] at h
  | succ f ih =>
    intro s now buf h
    rw [sniffLoop, sniffLoop]
    split
    · cases he : (s.readAt now (some dl) (offerAt off buf.length)).err with
      | none =>
        simp only [he]
        have := s.readAt_fuel now (some dl) (offerAt off buf.length) (offerAt_pos off hoff _) he
        exact ih _ _ _ (by omega)
      | eof => simp only [he]
      | reset => simp only [he]
      | timeout => simp only [he]
    · rfl

theorem peekLoop_fuel_le (dl : Option Nat) (need : Nat) :
    ∀ (fuel : Nat) (s : Script) (now : Nat) (buf : Bytes),
      (peekLoop dl need fuel s now buf).2.2.2.fuel ≤ s.fuel := by
  intro fuel
  induction fuel with
  | zero => intro s now buf; simp [peekLoop]
  | succ f ih =>
    intro s now buf
    rw [peekLoop]
    split
    · simp
    · split
      · simp
      · cases he : (s.readAt now dl (bufioSize - buf.length)).err with
        | none =>
          simp only [he]
          exact Nat.le_trans (ih _ _ _) (s.readAt_fuel_le _ _ _)
        | eof => simp only [he]; exact s.readAt_fuel_le _ _ _
        | reset => simp only [he]; exact s.readAt_fuel_le _ _ _
        | timeout => simp only [he]; exact s.readAt_fuel_le _ _ _

/-! ### deliveries -/

/-- all bytes of a list of deliveries, in order -/
def bytesOf (ds : List Deliv) : Bytes := (ds.map (·.data)).flatten

/-- the deliveries of an undisturbed direction: what was buffered goes out at `T`, every later
segment the moment it arrives (or at `T` if it arrived during detection). -/
def natDelivs (T : Nat) (content : Bytes) (s : Script) : List Deliv :=
  (if content.isEmpty then [] else [⟨T, content⟩]) ++ s.evs.map (fun e => ⟨max T e.t, e.data⟩)

theorem dirNatural_clean (T : Nat) (c : Bytes) (s : Script) :
    dirNatural T c false s = ⟨natDelivs T c s, max T s.finT, s.fin == .eof⟩ := by
  simp [dirNatural, natDelivs]

theorem dirNatural_poisoned (T : Nat) (c : Bytes) (s : Script) :
    dirNatural T c true s = ⟨if c.isEmpty then [] else [⟨T, c⟩], T, false⟩ := by
  simp [dirNatural]

theorem bytesOf_append (a b : List Deliv) : bytesOf (a ++ b) = bytesOf a ++ bytesOf b := by
  simp [bytesOf]

theorem bytesOf_head (T : Nat) (c : Bytes) :
    bytesOf (if c.isEmpty then [] else [⟨T, c⟩]) = c := by
  cases c <;> simp [bytesOf]

theorem bytesOf_natDelivs (T : Nat) (c : Bytes) (s : Script) :
    bytesOf (natDelivs T c s) = c ++ s.stream := by
  unfold natDelivs
  rw [bytesOf_append, bytesOf_head]
  simp [bytesOf, Script.stream, Function.comp_def]

theorem natDelivs_sorted (T : Nat) (c : Bytes) (s : Script) (hs : s.Sorted) :
    (natDelivs T c s).Pairwise (fun a b => a.t ≤ b.t) := by
  unfold natDelivs
  have hm : (s.evs.map (fun e => (⟨max T e.t, e.data⟩ : Deliv))).Pairwise (fun a b => a.t ≤ b.t) := by
    rw [List.pairwise_map]
    exact hs.imp (fun h => by dsimp only; omega)
  by_cases hc : c.isEmpty = true
  · simp only [hc, ↓reduceIte, List.nil_append]; exact hm
  · simp only [hc, Bool.false_eq_true, ↓reduceIte, List.singleton_append]
    refine List.pairwise_cons.mpr ⟨?_, hm⟩
    intro d hd
    obtain ⟨e, _, rfl⟩ := List.mem_map.mp hd
    dsimp only; omega

theorem cutBefore_prefix (t : Nat) (ds : List Deliv) (h : ds.Pairwise (fun a b => a.t ≤ b.t)) :
    cutBefore t ds <+: ds := by
  induction ds with
  | nil => simp [cutBefore]
  | cons d ds ih =>
    have hp := List.pairwise_cons.mp h
    unfold cutBefore
    by_cases hd : d.t < t
    · simp only [List.filter_cons, hd, decide_true, ↓reduceIte]
      exact (List.prefix_cons_inj d).mpr (ih hp.2)
    · have : ds.filter (fun d => decide (d.t < t)) = [] := by
        rw [List.filter_eq_nil_iff]
        intro x hx
        have := hp.1 x hx
        simp only [decide_eq_true_eq]; omega
      simp only [List.filter_cons, hd, decide_false, Bool.false_eq_true, ↓reduceIte, this]
      exact List.nil_prefix

theorem bytesOf_prefix {a b : List Deliv} (h : a <+: b) : bytesOf a <+: bytesOf b := by
  obtain ⟨r, rfl⟩ := h
  rw [bytesOf_append]
  exact List.prefix_append _ _

theorem cutBefore_keeps (t : Nat) (ds : List Deliv) (d : Deliv) (hd : d ∈ ds) (ht : d.t < t) :
    d ∈ cutBefore t ds := by
  unfold cutBefore
  exact List.mem_filter.mpr ⟨hd, by simpa using ht⟩

/-! ### closed forms of the relay phase (for an arbitrary front-end result `f`) -/

/-- client side ends first (or at the same time), without a latched error -/
theorem relayPhase_client_first (cfg : Cfg) (f : Front) (u : Script) (hp : f.st.poisoned = false) (ha : f.armed = none)
    (hle : max f.T f.rest.finT ≤ max f.T u.finT) :
    relayPhase cfg f u =
      if f.rest.fin = .eof then
        if max f.T u.finT < max f.T f.rest.finT + grace then
          ⟨some f.T, f.armed.isSome, natDelivs f.T f.st.content f.rest,
            if cfg.rightCW then max f.T f.rest.finT else max f.T u.finT,
            natDelivs f.T [] u, max f.T u.finT, max f.T u.finT⟩
        else
          ⟨some f.T, f.armed.isSome, natDelivs f.T f.st.content f.rest,
            if cfg.rightCW then max f.T f.rest.finT else max f.T f.rest.finT + grace,
            cutBefore (max f.T f.rest.finT + grace) (natDelivs f.T [] u),
            max f.T f.rest.finT + grace, max f.T f.rest.finT + grace⟩
      else
        ⟨some f.T, f.armed.isSome, natDelivs f.T f.st.content f.rest, max f.T f.rest.finT,
          cutBefore (max f.T f.rest.finT) (natDelivs f.T [] u), max f.T f.rest.finT, max f.T f.rest.finT⟩ := by
  unfold relayPhase
  simp only [hp, ha, dirNaturalArmed, dirNatural_clean, hle, ↓reduceIte]
  cases hf : f.rest.fin with
  | eof =>
    simp only [resolve, beq_self_eq_true, Bool.not_true, Bool.false_eq_true, ↓reduceIte]
    by_cases hg : max f.T u.finT < max f.T f.rest.finT + grace
    · simp only [hg, ↓reduceIte]
    · simp only [hg, ↓reduceIte]
  | reset =>
    have : (Fin.reset == Fin.eof) = false := by decide
    simp [resolve, this]

/-- upstream side ends first -/
theorem relayPhase_upstream_first (cfg : Cfg) (f : Front) (u : Script) (hp : f.st.poisoned = false) (ha : f.armed = none)
    (hlt : max f.T u.finT < max f.T f.rest.finT) :
    relayPhase cfg f u =
      if u.fin = .eof then
        if max f.T f.rest.finT < max f.T u.finT + grace then
          ⟨some f.T, f.armed.isSome, natDelivs f.T f.st.content f.rest, max f.T f.rest.finT,
            natDelivs f.T [] u,
            if cfg.leftCW then max f.T u.finT else max f.T f.rest.finT, max f.T f.rest.finT⟩
        else
          ⟨some f.T, f.armed.isSome,
            cutBefore (max f.T u.finT + grace) (natDelivs f.T f.st.content f.rest), max f.T u.finT + grace,
            natDelivs f.T [] u,
            if cfg.leftCW then max f.T u.finT else max f.T u.finT + grace, max f.T u.finT + grace⟩
      else
        ⟨some f.T, f.armed.isSome, cutBefore (max f.T u.finT) (natDelivs f.T f.st.content f.rest),
          max f.T u.finT, natDelivs f.T [] u, max f.T u.finT, max f.T u.finT⟩ := by
  unfold relayPhase
  have hnle : ¬ max f.T f.rest.finT ≤ max f.T u.finT := by omega
  simp only [hp, ha, dirNaturalArmed, dirNatural_clean, hnle, ↓reduceIte]
  cases hf : u.fin with
  | eof =>
    simp only [resolve, beq_self_eq_true, Bool.not_true, Bool.false_eq_true, ↓reduceIte]
    by_cases hg : max f.T f.rest.finT < max f.T u.finT + grace
    · simp only [hg, ↓reduceIte]
    · simp only [hg, ↓reduceIte]
  | reset =>
    have : (Fin.reset == Fin.eof) = false := by decide
    simp [resolve, this]

/-- a latched stream error: the relay collapses at once, after forwarding what was buffered -/
theorem relayPhase_poisoned (cfg : Cfg) (f : Front) (u : Script) (hp : f.st.poisoned = true)
    (ha : f.armed = none) :
    relayPhase cfg f u =
      ⟨some f.T, f.armed.isSome, if f.st.content.isEmpty then [] else [⟨f.T, f.st.content⟩], f.T,
        cutBefore f.T (natDelivs f.T [] u), f.T, f.T⟩ := by
  unfold relayPhase
  have hle : f.T ≤ max f.T u.finT := by omega
  simp [hp, ha, dirNaturalArmed, dirNatural_poisoned, dirNatural_clean, hle, resolve]

/-! ### small bridges used by the property theorems -/

theorem relayPhase_eq (cfg : Cfg) (c u : Script) (h : (front cfg c).kind = .relay) :
    conn cfg c u = relayPhase cfg (front cfg c) u := by
  unfold conn; simp [h]

theorem clean_of_eof (cfg : Cfg) (c : Script) (h : c.fin = .eof) : (front cfg c).st.poisoned = false := by
  cases hp : (front cfg c).st.poisoned with
  | false => rfl
  | true => have := ((front_spec cfg c).poison hp).1; simp [h] at this

end DaeVerif.C05
