import DaeVerif.C06.Proofs
/-! # C06 — a QUIC flight spread over datagrams: what the packet sniffer answers on the way -/
namespace DaeVerif.C06

/-! ## The walk over a partial stream never contradicts the walk over the whole stream -/

/-- Every successful read of `s` is answered the same by `t`. -/
def Refines (s t : Loc) : Prop := ∀ i j x, i ≤ j → s.range i j = .ok x → t.range i j = .ok x

theorem sniLoop_refines (s t : Loc) (h : Refines s t) (iNext j : Nat) (r : Option Bytes) :
    sniLoop s iNext j = .ok r → sniLoop t iNext j = .ok r := by
  fun_induction sniLoop s iNext j with
  | case1 => intro h'; cases h'
  | case2 j hj nm hr typ l ht ih =>
    intro h'
    rw [sniLoop, dif_pos hj, h _ _ _ (by omega) hr]
    simp only []
    rw [if_pos ht]
    exact ih h'
  | case3 => intro h'; cases h'
  | case4 => intro h'; cases h'
  | case5 j hj nm hr typ l ht hl nm2 hr2 =>
    intro h'
    rw [sniLoop, dif_pos hj, h _ _ _ (by omega) hr]
    simp only []
    rw [if_neg ht, if_neg hl, h _ _ _ (by omega) hr2]
    exact h'
  | case6 j hj =>
    intro h'
    rw [sniLoop, dif_neg hj]
    exact h'

theorem findSniFrom_refines (s t : Loc) (h : Refines s t) (hlen : s.len = t.len) (i : Nat) (d : Bytes) :
    findSniFrom s i = .ok d → findSniFrom t i = .ok d := by
  fun_induction findSniFrom s i with
  | case1 => intro h'; cases h'
  | case2 => intro h'; cases h'
  | case3 => intro h'; cases h'
  | case4 => intro h'; cases h'
  | case5 => intro h'; cases h'
  | case6 => intro h'; cases h'
  | case7 => intro h'; cases h'
  | case8 i h1 nm hr typ extLength iNext h2 ht hl nm2 hr2 sniLen hs' nm3 hloop =>
    intro h'
    rw [findSniFrom, dif_neg (by rw [← hlen]; exact h1), h _ _ _ (by omega) hr]
    simp only []
    rw [dif_neg (by rw [← hlen]; exact h2), if_pos ht, if_neg hl, h _ _ _ (by omega) hr2]
    simp only []
    rw [if_neg hs', sniLoop_refines s t h _ _ _ hloop]
    exact h'
  | case9 i h1 nm hr typ extLength iNext h2 ht hl nm2 hr2 sniLen hs' hloop ih =>
    intro h'
    rw [findSniFrom, dif_neg (by rw [← hlen]; exact h1), h _ _ _ (by omega) hr]
    simp only []
    rw [dif_neg (by rw [← hlen]; exact h2), if_pos ht, if_neg hl, h _ _ _ (by omega) hr2]
    simp only []
    rw [if_neg hs', sniLoop_refines s t h _ _ _ hloop]
    exact ih h'
  | case10 i h1 nm hr typ extLength iNext h2 ht ih =>
    intro h'
    rw [findSniFrom, dif_neg (by rw [← hlen]; exact h1), h _ _ _ (by omega) hr]
    simp only []
    rw [dif_neg (by rw [← hlen]; exact h2), if_neg ht]
    exact ih h'

theorem extractSni_refines (s t : Loc) (h : Refines s t) (hlen : s.len ≤ t.len)
    (hat : ∀ i x, s.at i = .ok x → t.at i = .ok x)
    (hsl : ∀ a b s', s.sliceLoc a b = .ok s' → ∃ t', t.sliceLoc a b = .ok t' ∧ Refines s' t' ∧ s'.len = t'.len)
    (d : Bytes) : extractSni s = .ok d → extractSni t = .ok d := by
  unfold extractSni
  intro h0
  split at h0
  · cases h0
  split at h0
  · cases h0
  try simp only [] at h0
  split at h0
  · cases h0
  split at h0
  · cases h0
  split at h0
  · cases h0
  try simp only [] at h0
  split at h0
  · cases h0
  split at h0
  · cases h0
  try simp only [] at h0
  split at h0
  · cases h0
  split at h0
  · cases h0
  try simp only [] at h0
  split at h0
  · cases h0
  split at h0
  · cases h0
  try simp only [] at h0
  split at h0
  · cases h0
  split at h0
  · cases h0
  rename_i l1 _ b0 r1 c1 c2 _ sid a1 l2 _ b1 r2 l3 _ cm a2 l4 _ b3 r3 l5 _ exts sl
  obtain ⟨t', ht', hr', hl'⟩ := hsl _ _ _ sl
  rw [if_neg (by omega), h _ _ _ (by omega) r1]
  simp only []
  rw [if_neg c1, if_neg c2, hat _ _ a1]
  simp only []
  rw [if_neg (by omega), h _ _ _ (by omega) r2]
  simp only []
  rw [if_neg (by omega), hat _ _ a2]
  simp only []
  rw [if_neg (by omega), h _ _ _ (by omega) r3]
  simp only []
  rw [if_neg (by omega), ht']
  exact findSniFrom_refines exts t' hr' hl' 0 d h0

theorem refines_linear (S : Bytes) (blocks : List Block) (hw : ∀ b ∈ blocks, Within S b) (left n m : Nat) :
    Refines (.linear blocks left n) (.linear [⟨0, S⟩] left m) := by
  intro i j x hij hx
  simp only [Loc.range] at hx ⊢
  split at hx
  · rename_i he; rw [if_pos he]; exact hx
  · rename_i hne
    rw [if_neg hne]
    obtain ⟨e, hl⟩ := linRange_sound S blocks hw (i + left) (j + left) x (by omega) hx
    rw [linRange_single S _ _ (by omega) hl, e]

theorem at_linear_stable (S : Bytes) (blocks : List Block) (hw : ∀ b ∈ blocks, Within S b) (left n m : Nat)
    (i x : Nat) (h : (Loc.linear blocks left n).at i = .ok x) : (Loc.linear [⟨0, S⟩] left m).at i = .ok x := by
  simp only [Loc.at] at h ⊢
  split at h
  · rename_i y ys hr
    obtain ⟨e, hl⟩ := linRange_sound S blocks hw _ _ _ (by omega) hr
    rw [linRange_single S _ _ (by omega) hl, ← e]
    exact h
  · cases h
  · cases h

/-- **Prefix stability.** If the walk over a partial CRYPTO stream (any blocks that are slices of `S`)
finds a name, the walk over the whole stream finds the same name. -/
theorem extractSni_partial_stable (S : Bytes) (blocks : List Block) (hw : ∀ b ∈ blocks, Within S b) (d : Bytes)
    (h : extractSni (newLinear blocks) = .ok d) : extractSni (newLinear [⟨0, S⟩]) = .ok d := by
  have hfull : newLinear [⟨0, S⟩] = .linear [⟨0, S⟩] 0 S.length := by simp [newLinear, Block.stop]
  rw [hfull]
  unfold newLinear at h
  split at h
  · -- no blocks: the walk cannot succeed
    rename_i hnil
    unfold extractSni at h
    simp [Loc.len] at h
  · rename_i l hl
    have hlmem : l ∈ blocks := List.mem_of_getLast? hl
    refine extractSni_refines _ _ (refines_linear S blocks hw 0 _ _) ?_ (at_linear_stable S blocks hw 0 _ _) ?_ d h
    · simp only [Loc.len]; exact (hw l hlmem).1
    · intro a b s' hs'
      simp only [Loc.sliceLoc] at hs'
      cases hs'
      exact ⟨.linear [⟨0, S⟩] (0 + a) (b - a + 1), rfl, refines_linear S blocks hw _ _ _, rfl⟩

/-! ## When the sniffer calls the stream complete, it is -/

theorem handshake_shape (ch : ClientHello) :
    ∃ n body, handshake ch = 1 :: n / 65536 :: n / 256 % 256 :: n % 256 :: body ∧ body.length = n := by
  refine ⟨(helloBody ch).length, helloBody ch, ?_, rfl⟩
  simp [handshake]

theorem helloComplete_full (ch : ClientHello) (cr : List Block) (hw : ∀ b ∈ cr, Within (handshake ch) b)
    (hsep : Separated cr) (hc : helloComplete cr = true) : cr = [⟨0, handshake ch⟩] := by
  obtain ⟨n, body, hS, hn⟩ := handshake_shape ch
  generalize handshake ch = S at *
  have hSlen : S.length = 4 + n := by rw [hS]; simp [hn]; omega
  cases cr with
  | nil => simp [helloComplete] at hc
  | cons b rest =>
    simp only [helloComplete, Bool.and_eq_true, beq_iff_eq, decide_eq_true_eq] at hc
    obtain ⟨⟨hoff, h4⟩, hlen⟩ := hc
    obtain ⟨hstop, hdata⟩ := hw b (by simp)
    have hbs : b.stop = b.data.length := by unfold Block.stop; omega
    rw [hoff] at hdata
    have hg : ∀ k, k < b.stop → b.data.getD k 0 = S.getD k 0 := by
      intro k hk
      rw [hdata]
      have := slice_getD S 0 b.stop k (by omega) hstop
      simpa using this
    have g1 : b.data.getD 1 0 = n / 65536 := by rw [hg 1 (by omega), hS]; rfl
    have g2 : b.data.getD 2 0 = n / 256 % 256 := by rw [hg 2 (by omega), hS]; rfl
    have g3 : b.data.getD 3 0 = n % 256 := by rw [hg 3 (by omega), hS]; rfl
    rw [g1, g2, g3] at hlen
    have hfull : b.stop = S.length := by omega
    have hb : b = ⟨0, S⟩ := by
      rw [hfull, slice_full] at hdata
      cases b; simp_all
    have hrest : rest = [] := by
      cases rest with
      | nil => rfl
      | cons c cs =>
        exfalso
        unfold Separated at hsep
        rw [List.pairwise_cons] at hsep
        have h1 := hsep.1 c (by simp)
        have h2 := (hw c (by simp)).1
        have h3 : c.off ≤ c.stop := by unfold Block.stop; omega
        omega
    rw [hb, hrest]

theorem feedPayloads_append (cr : List Block) (a b : List Bytes) :
    feedPayloads cr (a ++ b) = match feedPayloads cr a with
      | .ok cr' => feedPayloads cr' b
      | .error e => .error e := by
  induction a generalizing cr with
  | nil => simp [feedPayloads]
  | cons p ps ih =>
    simp only [List.cons_append, feedPayloads]
    cases reassemble cr p with
    | ok cr1 => exact ih cr1
    | error e => rfl

theorem feed_sep (S : Bytes) (flight : List (Bytes × List Block))
    (hparse : ∀ pf ∈ flight, parseFrames pf.1.length pf.1 = .ok pf.2)
    (hw : ∀ pf ∈ flight, ∀ b ∈ pf.2, Within S b) (cr cr' : List Block)
    (hcr : ∀ b ∈ cr, Within S b) (hsep : Separated cr)
    (h : feedPayloads cr (flight.map Prod.fst) = .ok cr') : Separated cr' := by
  induction flight generalizing cr with
  | nil => simp only [List.map_nil, feedPayloads] at h; cases h; exact hsep
  | cons pf rest ih =>
    obtain ⟨p, fs⟩ := pf
    have hp : parseFrames p.length p = .ok fs := hparse (p, fs) List.mem_cons_self
    simp only [List.map_cons, feedPayloads, reassemble, hp] at h
    have hwall : ∀ b ∈ cr ++ fs, Within S b := by
      intro b hb
      rcases List.mem_append.mp hb with h | h
      · exact hcr b h
      · exact hw (p, fs) List.mem_cons_self b h
    obtain ⟨h1, h2, _⟩ := mergeBlocks_spec S _ hwall
    exact ih (fun pf hpf => hparse pf (List.mem_cons_of_mem _ hpf))
      (fun pf hpf => hw pf (List.mem_cons_of_mem _ hpf)) _ h1 h2 h

/-! ## The block loop of `SniffQuic` over the packets of a datagram -/

theorem wire_length (p : InitialPkt) : p.wire.length = (encodeHdr p.hdr p.body.length).length + p.body.length := by
  simp [InitialPkt.wire]

theorem wire_pos (p : InitialPkt) : 7 ≤ p.wire.length ∨ 0 < p.wire.length := by
  right; simp [InitialPkt.wire, encodeHdr]

theorem dgWire_cons (p : InitialPkt) (ps : List InitialPkt) : dgWire (p :: ps) = p.wire ++ dgWire ps := by
  simp [dgWire]

theorem dgWire_append (a b : List InitialPkt) : dgWire (a ++ b) = dgWire a ++ dgWire b := by
  simp [dgWire]

theorem dgWire_ne_nil (ps : List InitialPkt) (h : ps ≠ []) : dgWire ps ≠ [] := by
  cases ps with
  | nil => exact absurd rfl h
  | cons p ps => rw [dgWire_cons]; simp [InitialPkt.wire, encodeHdr]

theorem dgWire_length_ge (ps : List InitialPkt) : ps.length ≤ (dgWire ps).length := by
  induction ps with
  | nil => simp [dgWire]
  | cons p ps ih =>
    rw [dgWire_cons, List.length_append, List.length_cons]
    have : 0 < p.wire.length := by simp [InitialPkt.wire, encodeHdr]
    omega

theorem reassemble_plain (cr : List Block) (p : InitialPkt) (hwf : p.WF) :
    reassemble cr p.plain = .ok (mergeBlocks (sortBlocks (cr ++ cryptoBlocks p.items))) := by
  unfold reassemble InitialPkt.plain
  rw [parseFrames_encode p.items p.tp hwf.2 _ (Nat.le_refl _)]

theorem quicBlock_packet (oracle : List Sealed) (base : Nat) (cr : List Block) (p : InitialPkt) (rest : Bytes)
    (hwf : p.WF)
    (horc : oracleLookup oracle base (encodeHdr p.hdr p.body.length).length p.wire.length p.hdr.dcid = some p.plain) :
    quicBlock oracle base cr (p.wire ++ rest)
      = .ok (mergeBlocks (sortBlocks (cr ++ cryptoBlocks p.items)), rest) := by
  have hqh := quicHeader_encode p.hdr p.body.length p.body rest hwf.1 rfl
  unfold quicBlock
  have e : p.wire ++ rest = encodeHdr p.hdr p.body.length ++ (p.body ++ rest) := by
    simp [InitialPkt.wire, List.append_assoc]
  rw [e, hqh]
  simp only []
  rw [← wire_length, horc]
  simp only []
  rw [reassemble_plain cr p hwf]
  simp only []
  rw [← e, drop_append_len _ _ _ rfl]

theorem quicLoop_packets (oracle : List Sealed) (total : Nat) (ps : List InitialPkt) (hne : ps ≠ [])
    (hwf : ∀ p ∈ ps, p.WF) (cr : List Block) (isQ : Bool) (fuel : Nat) (hfuel : ps.length ≤ fuel)
    (htot : (dgWire ps).length ≤ total) (horc : OracleFor oracle (total - (dgWire ps).length) ps) :
    ∃ cr', feedPayloads cr (ps.map InitialPkt.plain) = .ok cr' ∧
      quicLoop oracle total fuel cr (dgWire ps) isQ = (cr', none) := by
  induction ps generalizing cr isQ fuel with
  | nil => exact absurd rfl hne
  | cons p rest ih =>
    cases fuel with
    | zero => simp at hfuel
    | succ f =>
      have hp := hwf p (by simp)
      obtain ⟨ho1, ho2⟩ := horc
      have hblk := quicBlock_packet oracle (total - (dgWire (p :: rest)).length) cr p (dgWire rest) hp ho1
      rw [← dgWire_cons] at hblk
      simp only [List.map_cons, feedPayloads, reassemble_plain cr p hp]
      rw [quicLoop, hblk]
      simp only []
      by_cases hr : rest = []
      · subst hr
        refine ⟨_, rfl, ?_⟩
        simp [dgWire]
      · have hnn : dgWire rest ≠ [] := dgWire_ne_nil rest hr
        rw [if_neg hnn]
        have hl : (dgWire (p :: rest)).length = p.wire.length + (dgWire rest).length := by
          rw [dgWire_cons, List.length_append]
        apply ih hr (fun q hq => hwf q (by simp [hq])) _ true f (by simp at hfuel; omega) (by omega)
        have : total - (dgWire rest).length = total - (dgWire (p :: rest)).length + p.wire.length := by omega
        rw [this]; exact ho2

end DaeVerif.C06
