import DaeVerif.C06.Model
/-!
# C06 — specification side: what clients emit (wire encoders written from the RFCs) and what the
documented answer is.  Core-only: the driver uses `record (handshake ch)` to check, on every run,
that these encoders produce the same bytes as the independent Go encoder of the harness.
-/
namespace DaeVerif.C06

/-- A ClientHello extension: `server_name` (type 0) with its ServerNameList `(name_type, name)`, or
any other extension with opaque data. -/
inductive ExtItem
  | sni (entries : List (Nat × Bytes))
  | other (typ : Nat) (data : Bytes)
deriving Repr, Inhabited

/-- RFC 8446 §4.1.2 ClientHello (legacy_version = 3.`minor`); `exts = none`: no extensions block. -/
structure ClientHello where
  minor : Nat
  random : Bytes
  sid : Bytes
  suites : Bytes
  comp : Bytes
  exts : Option (List ExtItem)
deriving Repr, Inhabited

def u16 (n : Nat) : Bytes := [n / 256, n % 256]

def encodeEntry (e : Nat × Bytes) : Bytes := e.1 :: (u16 e.2.length ++ e.2)

def encodeEntries : List (Nat × Bytes) → Bytes
  | [] => []
  | e :: es => encodeEntry e ++ encodeEntries es

/-- RFC 6066 §3 `ServerNameList`. -/
def sniData (es : List (Nat × Bytes)) : Bytes := u16 (encodeEntries es).length ++ encodeEntries es

def ExtItem.typ : ExtItem → Nat
  | .sni _ => 0
  | .other t _ => t

def ExtItem.data : ExtItem → Bytes
  | .sni es => sniData es
  | .other _ d => d

def encodeExt (e : ExtItem) : Bytes := u16 e.typ ++ (u16 e.data.length ++ e.data)

def encodeExts : List ExtItem → Bytes
  | [] => []
  | e :: es => encodeExt e ++ encodeExts es

def extBlock : Option (List ExtItem) → Bytes
  | none => []
  | some es => u16 (encodeExts es).length ++ encodeExts es

def helloBody (ch : ClientHello) : Bytes :=
  [3, ch.minor] ++ ch.random ++ ([ch.sid.length] ++ ch.sid) ++ (u16 ch.suites.length ++ ch.suites)
    ++ ([ch.comp.length] ++ ch.comp) ++ extBlock ch.exts

/-- Handshake message: `client_hello(1)`, uint24 length, body. -/
def handshake (ch : ClientHello) : Bytes :=
  let n := (helloBody ch).length
  [1, n / 65536, n / 256 % 256, n % 256] ++ helloBody ch

/-- TLSPlaintext record carrying one fragment. -/
def record (recMinor : Nat) (frag : Bytes) : Bytes := [22, 3, recMinor] ++ (u16 frag.length ++ frag)

/-- First `host_name` (type 0) entry of a ServerNameList. -/
def firstHost : List (Nat × Bytes) → Option Bytes
  | [] => none
  | (t, n) :: es => if t = 0 then some n else firstHost es

/-- The name a ClientHello carries: the first `host_name` entry, in wire order, over its
`server_name` extensions. -/
def firstHostName : List ExtItem → Option Bytes
  | [] => none
  | .sni es :: rest => (match firstHost es with
    | some n => some n
    | none => firstHostName rest)
  | .other _ _ :: rest => firstHostName rest

/-- The documented answer for a ClientHello (before `NormalizeDomain`): the carried name with one
trailing dot removed; "not found" when there is none; "not applicable" without extensions block. -/
def specResult (ch : ClientHello) : Except Err Bytes :=
  match ch.exts with
  | none => .error .notApplicable
  | some es => match firstHostName es with
    | some n => .ok (trimDot n)
    | none => .error .notFound

/-- What a TLS 1.2/1.3 (or QUIC) client may put in the fields the sniffer looks at. -/
def ClientHello.WF (ch : ClientHello) : Prop :=
  1 ≤ ch.minor ∧ ch.minor ≤ 3 ∧ ch.random.length = 32 ∧
  ∀ es, ch.exts = some es → ∀ e ∈ es, ∀ t d, e = .other t d → t ≠ 0

/-! ## HTTP/1 request heads -/

def crlf : Bytes := [13, 10]

/-- No CRLF inside (a line of the head). -/
def noCRLF : Bytes → Bool
  | [] => true
  | 13 :: 10 :: _ => false
  | _ :: rest => noCRLF rest

structure HttpHead where
  method : Bytes
  target : Bytes            -- request-target and version, i.e. the rest of the request line
  headers : List (Bytes × Bytes)
  body : Bytes
deriving Repr, Inhabited

def encodeHeaders : List (Bytes × Bytes) → Bytes
  | [] => []
  | (k, v) :: hs => k ++ [58] ++ v ++ crlf ++ encodeHeaders hs

def encodeHead (h : HttpHead) : Bytes :=
  h.method ++ [32] ++ h.target ++ crlf ++ encodeHeaders h.headers ++ crlf ++ h.body

/-- The documented answer: value of the first header whose name is `Host` (any case), trimmed. -/
def hostSpec : List (Bytes × Bytes) → Except Err Bytes
  | [] => .error .notFound
  | (k, v) :: hs =>
    if isHostKey (trimSpace k) then
      (if trimSpace v = [] then .error .notFound else .ok (trimSpace v))
    else hostSpec hs

/-! ## QUIC frames as clients emit them (RFC 9000 §16, §19.1, §19.2, §19.6) -/

/-- `n` big-endian bytes of `v` (low `8n` bits). -/
def beBytes : Nat → Nat → Bytes
  | 0, _ => []
  | n + 1, v => (v / 256 ^ n % 256) :: beBytes n v

/-- Variable-length integer in `2^k` bytes (`k ≤ 3`); needs `v < 2^(8·2^k − 2)`. -/
def encVarint (v k : Nat) : Bytes :=
  (k * 64 + v / 256 ^ (2 ^ k - 1)) :: beBytes (2 ^ k - 1) v

def VarintFits (v k : Nat) : Prop := k ≤ 3 ∧ v < 64 * 256 ^ (2 ^ k - 1)

inductive Frame
  | crypto (off : Nat) (data : Bytes) (ko kl : Nat)   -- offset, data, varint size exponents
  | ping
deriving Repr, Inhabited

/-- A frame preceded by `pad` PADDING frames (zero bytes). -/
structure Item where
  pad : Nat
  frame : Frame
deriving Repr, Inhabited

def encodeFrame : Frame → Bytes
  | .crypto off data ko kl => 6 :: (encVarint off ko ++ (encVarint data.length kl ++ data))
  | .ping => [1]

def encodeItems : List Item → Nat → Bytes
  | [], trailingPad => List.replicate trailingPad 0
  | it :: rest, tp => List.replicate it.pad 0 ++ (encodeFrame it.frame ++ encodeItems rest tp)

def Frame.block? : Frame → Option Block
  | .crypto off data _ _ => some ⟨off, data⟩
  | .ping => none

/-- The CRYPTO frames of a packet payload, in wire order. -/
def cryptoBlocks : List Item → List Block
  | [] => []
  | it :: rest => it.frame.block?.toList ++ cryptoBlocks rest

def Frame.Fits : Frame → Prop
  | .crypto off data ko kl => VarintFits off ko ∧ VarintFits data.length kl
  | .ping => True

/-! ## Notions used in the property statements -/

/-- The documented answer for an extension list. -/
def specExts (exts : List ExtItem) : Except Err Bytes :=
  match firstHostName exts with
  | some n => .ok (trimDot n)
  | none => .error .notFound

/-- The name is a literal host_name entry of the data: type byte 0, two-byte length, the name. -/
def CarriedIn (x : Bytes) (d : Bytes) : Prop :=
  ∃ k n, k + 3 + n ≤ x.length ∧ x.getD k 0 = 0 ∧ be16 (x.getD (k + 1) 0) (x.getD (k + 2) 0) = n ∧
    d = trimDot (slice x (k + 3) (k + 3 + n))

/-- What the TLS branch of `sniffGroup` answers for a complete record carrying `hs`. -/
def tlsAnswer (hs : Bytes) : Except Err Bytes :=
  match extractSni (.builtin hs) with
  | .ok d => .ok (normalizeDomain d)
  | .error e => .error e

/-- Well-formed request head: a known method, no CRLF inside the request line or a header line,
no colon inside a header name, no header name that begins with white space (that would be a folded
continuation of the previous header). -/
def HttpHead.WF (h : HttpHead) : Prop :=
  h.method ∈ httpMethods ∧ noCRLF (h.method ++ [32] ++ h.target) = true ∧
  ∀ kv ∈ h.headers, noCRLF (kv.1 ++ [58] ++ kv.2) = true ∧ 58 ∉ kv.1 ∧
    kv.1.head? ≠ some 32 ∧ kv.1.head? ≠ some 9

/-- The block holds exactly the bytes `[off, stop)` of the stream `S`. -/
def Within (S : Bytes) (b : Block) : Prop := b.stop ≤ S.length ∧ b.data = slice S b.off b.stop

def covers (b : Block) (p : Nat) : Prop := b.off ≤ p ∧ p < b.stop

/-- Output blocks are strictly separated: a gap of at least one byte between neighbours. -/
def Separated (l : List Block) : Prop := l.Pairwise (fun a b => a.stop < b.off)

/-- The successive `ReassembleCryptos` calls of one sniffing session, one per decrypted packet. -/
def feedPayloads : List Block → List Bytes → Except Err (List Block)
  | cr, [] => .ok cr
  | cr, p :: ps =>
    match reassemble cr p with
    | .ok cr' => feedPayloads cr' ps
    | .error e => .error e

/-- The answer the stream sniffer gives for a ClientHello, after `NormalizeDomain`. -/
def tcpAnswer (ch : ClientHello) : Except Err Bytes :=
  match specResult ch with
  | .ok d => .ok (normalizeDomain d)
  | .error e => .error e

/-- Characters of an ordinary host name as carried on the wire: no white space, colon or bracket. -/
def isNameChar (c : Nat) : Bool := !isAsciiSpace c && c != 58 && c != 91 && c != 93

/-- What holds of the flow state between packets. -/
def Flow.Inv (f : Flow) : Prop := f.pkt.data.head? = some [] ∧ (f.established = true → f.withheld = [])

/-- `d` is the (trimmed, non-empty) value of a complete header line of `b` whose name is `Host`:
the line starts the buffer or follows a CRLF, is followed by a CRLF, does not begin with white space
(so it is not a folded continuation), and its name — the part before the first colon — is `Host`
in any letter case. -/
def HostLineIn (b d : Bytes) : Prop :=
  ∃ pre k v rest, b = pre ++ (k ++ 58 :: v) ++ crlf ++ rest ∧ (pre = [] ∨ ∃ p, pre = p ++ crlf) ∧
    58 ∉ k ∧ (k ++ 58 :: v).head? ≠ some 32 ∧ (k ++ 58 :: v).head? ≠ some 9 ∧
    isHostKey (trimSpace k) = true ∧ d = trimSpace v ∧ d ≠ []

/-- The name the stream sniffer reports is the normalised form of a name the buffer carries. -/
def ReportedFrom (buf n : Bytes) : Prop :=
  ∃ d, n = normalizeDomain d ∧ (CarriedIn buf d ∨ HostLineIn buf d)

/-! ## QUIC long header of an Initial packet (RFC 9000 §17.2.2) -/

structure InitialHdr where
  first : Nat               -- first byte as it is on the wire (low four bits protected)
  v0 : Nat
  v1 : Nat
  v2 : Nat
  v3 : Nat                  -- version
  dcid : Bytes
  scid : Bytes
  token : Bytes
  kTok : Nat                -- varint width exponents of Token Length and Length
  kLen : Nat
deriving Repr, Inhabited

/-- Header up to and excluding the packet number; `len` = value of the Length field (packet number +
protected payload). -/
def encodeHdr (h : InitialHdr) (len : Nat) : Bytes :=
  [h.first, h.v0, h.v1, h.v2, h.v3, h.dcid.length] ++ (h.dcid ++ (h.scid.length :: (h.scid ++
    (encVarint h.token.length h.kTok ++ (h.token ++ encVarint len h.kLen)))))

/-- Long header, Initial type for its version, varints that fit, and a protected part long enough to
take the header-protection sample from (as every real Initial has: ≥ 4 + 16 bytes). -/
def InitialHdr.WF (h : InitialHdr) (len : Nat) : Prop :=
  h.first / 128 % 4 = 1 ∧ isInitialType [h.first, h.v0, h.v1, h.v2, h.v3] = true ∧
  VarintFits h.token.length h.kTok ∧ VarintFits len h.kLen ∧ 8 ≤ len

/-- What `SniffUdp` answers once the whole ClientHello is there. -/
def udpAnswer (ch : ClientHello) : Except Err Bytes :=
  match specResult ch with
  | .ok d => .ok (normalizeDomain d)
  | .error _ => .error .notFound

/-! ## A flight of Initial packets over several datagrams -/

/-- A QUIC Initial packet as the client built it: the long header, the protected part as it is on
the wire (packet number + sealed payload: `body`; the header's Length field is its length), and the
plaintext frames inside. -/
structure InitialPkt where
  hdr : InitialHdr
  body : Bytes
  items : List Item
  tp : Nat                  -- trailing PADDING
deriving Repr, Inhabited

def InitialPkt.wire (p : InitialPkt) : Bytes := encodeHdr p.hdr p.body.length ++ p.body

def InitialPkt.plain (p : InitialPkt) : Bytes := encodeItems p.items p.tp

def InitialPkt.WF (p : InitialPkt) : Prop := p.hdr.WF p.body.length ∧ ∀ it ∈ p.items, it.frame.Fits

/-- A datagram: one or more coalesced Initial packets. -/
def dgWire (ps : List InitialPkt) : Bytes := (ps.map InitialPkt.wire).flatten

/-- Header unprotection + AEAD answer every packet with its plaintext at the place where it lies in
the session buffer (`base` = offset of the first one). -/
def OracleFor (oracle : List Sealed) : Nat → List InitialPkt → Prop
  | _, [] => True
  | base, p :: ps =>
    oracleLookup oracle base (encodeHdr p.hdr p.body.length).length p.wire.length p.hdr.dcid = some p.plain ∧
      OracleFor oracle (base + p.wire.length) ps

end DaeVerif.C06
