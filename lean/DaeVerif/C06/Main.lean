import DaeVerif.C06.Model
import DaeVerif.C06.Spec
import DaeVerif.C06.Family
import DaeVerif.Common.Proto
/-! Line-protocol driver for C06 (op grammar: harness/overlay/component/sniffing/c06_test.go). -/
open DaeVerif DaeVerif.C06 DaeVerif.Proto

def hx (b : Bytes) : String := if b = [] then "-" else bytesToHex b

def unhx (s : String) : Option Bytes := if s = "-" then some [] else hexToBytes? s

def errStr : Err → String
  | .notApplicable => "na"
  | .needMore => "needmore"
  | .notFound => "nf"
  | .missingCrypto => "missing"
  | .oob => "oob"
  | .closed => "closed"
  | .unknownFrame => "unknownframe"
  | .unexpectedEOF => "eof"
  | .timeout => "timeout"
  | .ioError => "io"

def resStr : Except Err Bytes → String
  | .ok d => "ok:" ++ hx d
  | .error e => "err:" ++ errStr e

def optErr : Option Err → String
  | none => "-"
  | some e => errStr e

/-- FNV-1a, 32 bit (only to keep answer lines short). -/
def fnv32 (b : Bytes) : Nat := b.foldl (fun h x => ((h ^^^ x) * 16777619) % 4294967296) 2166136261

def nonAscii (b : Bytes) : Bool := b.any (· ≥ 128)

/-- Canonical form of a stream-sniffing answer on buffer `buf` (see the design note: names and
HTTP heads with bytes ≥ 0x80 go through Go's Unicode folding, which is not modelled). -/
def tcpResStr (buf : Bytes) (r : Except Err Bytes) : String :=
  match sniffTls buf with
  | .ok raw => if nonAscii raw then "nonascii" else resStr r
  | .error .notApplicable =>
    (match cutByte 32 (buf.take 12) with
     | some (m, _) => if httpMethods.contains m && nonAscii buf then "nonascii" else resStr r
     | none => resStr r)
  | .error _ => resStr r

def parseEv (t : String) : Option Ev :=
  if t = "e" then some .eof
  else if t = "s" then some .stall
  else if t = "r" then some .rst
  else match t.splitOn ":" with
    | ["d", h] => (unhx h).map Ev.data
    | _ => none

def parseDrain : String → Option Drain
  | "read" => some .read
  | "writeto" => some .writeTo
  | "prefixread" => some .prefixRead
  | "prefixconn" => some .prefixConn
  | _ => none

def parseBlock (t : String) : Option Block :=
  match t.splitOn ":" with
  | [o, h] => do let off ← o.toNat?; let d ← unhx h; pure ⟨off, d⟩
  | _ => none

def parseBlocks (t : String) : Option (List Block) :=
  if t = "-" then some [] else (t.splitOn ",").mapM parseBlock

def blocksStr (bs : List Block) : String :=
  if bs = [] then "-" else ",".intercalate (bs.map fun b => s!"{b.off}:{hx b.data}")

def parseSealed (t : String) : Option Sealed :=
  match t.splitOn ":" with
  | [a, b, c, d, e] => do
    let st ← a.toNat?; let pn ← b.toNat?; let en ← c.toNat?; let dc ← unhx d; let pl ← unhx e
    pure ⟨st, pn, en, dc, pl⟩
  | _ => none

def parseOracle (t : String) : Option (List Sealed) :=
  if t = "-" then some [] else (t.splitOn ",").mapM parseSealed

/-- structured ClientHello: `minor rnd sid cs cm exts` with exts = `-` | `none` | items joined by `,`;
item = `o<typ>:<hex>` (opaque extension) or `s<t>.<hexname>/<t>.<hexname>…` (server_name list; `s` alone = empty list). -/
def parseExt (t : String) : Option ExtItem :=
  match t.toList with
  | 'o' :: rest =>
    (match (String.ofList rest).splitOn ":" with
     | [ty, h] => do let n ← ty.toNat?; let d ← unhx h; pure (.other n d)
     | _ => none)
  | 's' :: rest =>
    let body := String.ofList rest
    if body = "" then some (.sni [])
    else do
      let es ← (body.splitOn "/").mapM fun e =>
        match e.splitOn "." with
        | [ty, h] => do let n ← ty.toNat?; let d ← unhx h; pure (n, d)
        | _ => none
      pure (.sni es)
  | _ => none

def parseHello (toks : List String) : Option ClientHello :=
  match toks with
  | [mi, rnd, sid, cs, cm, ex] => do
    let minor ← mi.toNat?
    let r ← unhx rnd; let s ← unhx sid; let c ← unhx cs; let m ← unhx cm
    let exts ← if ex = "none" then some none
               else if ex = "-" then some (some [])
               else ((ex.splitOn ",").mapM parseExt).map some
    pure ⟨minor, r, s, c, m, exts⟩
  | _ => none

/-- frame items: `p<pad>G` (ping) or `p<pad>C<off>.<hex>.<ko>.<kl>` -/
def parseItem (t : String) : Option Item :=
  match t.toList with
  | 'p' :: rest =>
    let body := String.ofList rest
    if body.endsWith "G" then do
      let pad ← (body.dropEnd 1).toString.toNat?
      pure ⟨pad, .ping⟩
    else match body.splitOn "C" with
      | [pd, fr] =>
        (match fr.splitOn "." with
         | [o, h, a, b] => do
           let pad ← pd.toNat?; let off ← o.toNat?; let d ← unhx h; let ko ← a.toNat?; let kl ← b.toNat?
           pure ⟨pad, .crypto off d ko kl⟩
         | _ => none)
      | _ => none
  | _ => none

def handle (line : String) : String :=
  match words line with
  | ["tls", h] =>
    match unhx h with
    | some b => resStr (extractSni (.builtin b))
    | none => "bad-op"
  | ["rec", h] =>
    match unhx h with
    | some b => resStr (sniffTls b)
    | none => "bad-op"
  | "chenc" :: recMinor :: rest =>
    match recMinor.toNat?, parseHello rest with
    | some rm, some ch => s!"bytes={hx (record rm (handshake ch))} want={resStr (specResult ch)}"
    | _, _ => "bad-op"
  | ["http", h] =>
    match unhx h with
    | some b => if nonAscii b then "nonascii" else resStr (sniffHttp b)
    | none => "bad-op"
  | ["norm", h] =>
    match unhx h with
    | some b => if nonAscii b then "nonascii" else "ok:" ++ hx (normalizeDomain b)
    | none => "bad-op"
  | "tcp" :: dr :: evs =>
    match parseDrain dr, evs.mapM parseEv with
    | some d, some script =>
      let o := sniffTcp script
      let (rel, en) := relayBytes o d
      let intact := rel == clientBytes script && en == clientEnd script
      s!"res={tcpResStr o.buf o.result} armed=0 relay={hx rel} end={optErr en} intact={boolStr intact} # nm={boolStr (o.needMoreSeen && !o.result.toBool)} buf={o.buf.length} derr={optErr o.dataError}"
    | _, _ => "bad-op"
  | "ttcp" :: dl :: dr :: evs =>
    -- timed script: `<delay>:<event>`; async = plain reader (answer and time only)
    let parseT (t : String) : Option TEv :=
      match t.splitOn ":" with
      | d :: rest => do let dt ← d.toNat?; let e ← parseEv (":".intercalate rest); pure ⟨dt, e⟩
      | _ => none
    match dl.toNat?, evs.mapM parseT with
    | some D, some script =>
      let ot := sniffTcpT D script
      if dr = "async" then s!"res={tcpResStr ot.buf ot.result} t={ot.time}"
      else match parseDrain dr with
        | some d =>
          let o := sniffTcp (untime D 0 script)
          let (rel, en) := relayBytes o d
          let evs := script.map TEv.ev
          let intact := rel == clientBytes evs && en == clientEnd evs
          s!"res={tcpResStr ot.buf ot.result} t={ot.time} armed=0 relay={hx rel} end={optErr en} intact={boolStr intact}"
        | none => "bad-op"
    | _, _ => "bad-op"
  | ["frames", offs, h] =>
    match parseBlocks offs, unhx h with
    | some o, some p =>
      (match reassemble o p with
       | .ok bs => "ok " ++ blocksStr bs
       | .error e => "err:" ++ errStr e)
    | _, _ => "bad-op"
  | ["qext", bl] =>
    match parseBlocks bl with
    | some bs => resStr (extractSni (newLinear bs))
    | none => "bad-op"
  | ["fenc", tp, its] =>
    match tp.toNat?, (if its = "-" then some [] else (its.splitOn ",").mapM parseItem) with
    | some t, some items => s!"bytes={hx (encodeItems items t)} frames={blocksStr (cryptoBlocks items)}"
    | _, _ => "bad-op"
  | ["henc", fb, v, dc, sc, tk, kt, kl, ln] =>
    match fb.toNat?, unhx v, unhx dc, unhx sc, unhx tk, kt.toNat?, kl.toNat?, ln.toNat? with
    | some f, some [a, b, c, d], some dcid, some scid, some tok, some ktok, some klen, some len =>
      let h : InitialHdr := ⟨f, a, b, c, d, dcid, scid, tok, ktok, klen⟩
      s!"bytes={hx (encodeHdr h len)} walk={match quicHeader (encodeHdr h len ++ List.replicate len 0) with
        | some (p, e, dc) => s!"{p}/{e}/{hx dc}"
        | none => "none"}"
    | _, _, _, _, _, _, _, _ => "bad-op"
  | ["uvar", h] =>
    match unhx h with
    | some b => (match uvarint b with
      | .ok (v, n) => s!"ok {v} {n}"
      | .error e => "err:" ++ errStr e)
    | none => "bad-op"
  | ["likely", h] =>
    match unhx h with
    | some b => "- # " ++ boolStr (isLikelyQuic b)
    | none => "bad-op"
  | ["udp", orc, dgs] =>
    -- datagram tokens; `C` = CompactPacketState between two datagrams
    match parseOracle orc, (dgs.splitOn ",").mapM (fun t => if t = "C" then some none else (unhx t).map some) with
    | some o, some toks =>
      let (st, kept, outs) := toks.foldl (fun (acc : Pkt × List Bytes × (List String × List String)) tok =>
        match tok with
        | none => (acc.1.compact, [], acc.2.2)
        | some d =>
          let s1 := acc.1.append d
          let (r, s2) := s1.sniffUdp o
          let rs := match r, extractSni (newLinear s2.cryptos) with
            | .ok n, .ok raw => if nonAscii raw || nonAscii n then "nonascii" else resStr r
            | .ok n, _ => if nonAscii n then "nonascii" else resStr r
            | _, _ => resStr r
          (s2, acc.2.1 ++ [d], (acc.2.2.1 ++ [s!"{rs}/{boolStr s2.needMore}"], acc.2.2.2 ++ [s!"{s2.nextRead}/{s2.cryptos.length}"])))
        (({} : Pkt), [], ([], []))
      let intact := st.data == [[]] ++ kept
      " ".intercalate outs.1 ++ s!" intact={boolStr intact} # " ++ " ".intercalate outs.2
    | _, _ => "bad-op"
  | ["pkt", orc, dgs] =>
    match parseOracle orc, (dgs.splitOn ",").mapM unhx with
    | some o, some ds =>
      let (outs, f) := Flow.run o {} ds
      let step (l : List Bytes) : String :=
        if l = [] then "-" else ",".intercalate (l.map fun b => s!"{b.length}:{fnv32 b}")
      " ".intercalate (outs.map step) ++ s!" held={f.withheld.length} dom={hx f.domain}"
    | _, _ => "bad-op"
  | "fam" :: steps =>
    -- one flow family through handlePkt: step = `<datagram>/<dial fails 0|1>/<seals|->`, seal =
    -- `<start in datagram>:<pnOff>:<stop>:<dcid>:<plain>`.  Written datagrams of a step are listed in
    -- a canonical order (stable by connection key: the order ACROSS sessions is Go map order).
    let parseStep (t : String) : Option Dg :=
      match t.splitOn "/" with
      | [h, df, sl] => do
        let d ← unhx h
        let o ← parseOracle sl
        pure { data := d, seals := o, dialFails := df == "1" }
      | _ => none
    match steps.mapM parseStep with
    | some xs =>
      let (outs, f) := Fam.run {} xs
      -- diagnostic: the largest number of sessions holding datagrams at the same time
      let maxHolding := (xs.foldl (fun (acc : Fam × Nat) x =>
        let f1 := (acc.1.step x).1
        (f1, max acc.2 ((f1.sessions.filter fun s => s.withheld ≠ []).length))) (({} : Fam), 0)).2
      let keyStr (b : Bytes) : String := hx (dcidKey b)
      let rec ins (x : Bytes) : List Bytes → List Bytes
        | [] => [x]
        | y :: ys => if keyStr x < keyStr y then x :: y :: ys else y :: ins x ys
      let canonSort (l : List Bytes) : List Bytes := l.foldl (fun acc x => ins x acc) []
      let step (l : List Bytes) : String :=
        if l = [] then "-" else ",".intercalate ((canonSort l).map fun b => s!"{b.length}:{fnv32 b}")
      let dom := match f.ue with
        | some d => hx d
        | none => "-"
      " ".intercalate (outs.map fun o => step o.written) ++ s!" held={f.held.length} dom={dom} # dropped={(outs.map fun o => o.dropped.length).sum} failed={f.failed.length} sessions={f.sessions.length} holding={maxHolding}"
    | none => "bad-op"
  | _ => "bad-op"

def main : IO Unit := lineLoop handle
