import DaeVerif.C06.Model
/-!
# C06 — one UDP flow *family* through `handlePkt`: several QUIC connections on one 4-tuple

`control/udp.go handlePkt` + `control/packet_sniffer_pool.go` (`NewPacketSnifferKey`,
`EnsureSnifferSession`, `HasFlowFamilySession`, `ObserveFlowFamilyQuicInitial`,
`RemoveFlowFamilySessions`, `TakeFlowFamilyBufferedPackets`, `RecordSniffNoSni/Success`,
`ShouldBypassSniff`, the failed-DCID cache) for a fixed source and destination (a sniff-eligible
port), datagrams handled one after the other as the ordered ingress does.

Generalises `Flow` (Model.lean): one sniffer session per destination connection id, the release
of everything the family holds whenever a datagram is forwarded, the reset of a domain-less endpoint
by the Initial of another connection, the decrypt-failure / no-SNI counters, the negative cache, and
a fault input: the dial of a step may fail (the payload of that step is then lost, no endpoint).

Time: the bypass window (1 s), the negative-cache entries (>= 15 s) and the session TTL (5 s) are
treated as "for the rest of the history" — the harness only compares histories that the real code
handled within a fraction of a second (slower runs are discarded, never compared).
Core-only.
-/
namespace DaeVerif.C06

/-- DCID part of `NewPacketSnifferKey` (`[]` = no cacheable DCID: not an Initial, or a DCID of
length 0 or more than 20). -/
def dcidKey (d : Bytes) : Bytes :=
  if isLikelyQuic d then
    let dl := d.getD 5 0
    if 0 < dl ∧ dl ≤ 20 ∧ 6 + dl ≤ d.length then slice d 6 (6 + dl) else []
  else []

/-- `quicInitialFingerprint`. -/
structure Sig where
  version : Bytes
  dcid : Bytes
  scid : Bytes
deriving DecidableEq, Repr, Inhabited

/-- `parseQuicInitialFingerprint`. -/
def parseSig (d : Bytes) : Option Sig :=
  if !isLikelyQuic d then none else
  let dl := d.getD 5 0
  if dl > 20 then none else
  if d.length < 6 + dl + 1 then none else
  let sl := d.getD (6 + dl) 0
  if sl > 20 then none else
  if d.length < 7 + dl + sl then none else
  some ⟨slice d 1 5, slice d 6 (6 + dl), slice d (7 + dl) (7 + dl + sl)⟩

/-- `PacketSniffer` (one sniffing session). `oracle` is not state of the code: it is what
header-unprotection + AEAD answer for the packets that are now in `pkt.buf` (see `Sealed`). -/
structure Sess where
  key : Bytes
  pkt : Pkt := {}
  oracle : List Sealed := []
  decFail : Nat := 0          -- consecutiveDecryptFailures
  noSni : Nat := 0            -- noSniStreak
  bypass : Bool := false      -- now < bypassSniffUntil
  sig : Option Sig := none    -- quicInitialSig / hasQuicInitialSig
deriving Repr, Inhabited

/-- Datagrams the session is holding back (`Data()[1:]`). -/
def Sess.withheld (s : Sess) : List Bytes := s.pkt.data.drop 1

/-- `CompactPacketState` on the session. -/
def Sess.release (s : Sess) : Sess := { s with pkt := s.pkt.compact, oracle := [] }

/-- One ingress event: the datagram, what AEAD answers for the packets inside it (`start` relative
to the datagram), and whether the dial of this step — if the step needs one — fails. -/
structure Dg where
  data : Bytes
  seals : List Sealed := []
  dialFails : Bool := false
deriving Repr, Inhabited

structure Fam where
  sessions : List Sess := []
  ue : Option Bytes := none     -- the flow's `UdpEndpoint` and its `SniffedDomain`
  failed : List Bytes := []     -- failed-DCID cache
deriving Repr, Inhabited

/-- What one `handlePkt` call does with payload. -/
structure StepOut where
  written : List Bytes := []    -- written to the endpoint, in order
  dropped : List Bytes := []    -- handed to a dial that failed
deriving Repr, Inhabited

def findSess (ss : List Sess) (k : Bytes) : Option Sess := ss.find? (fun s => s.key == k)

/-- Store the session (replacing the one with its key). -/
def putSess (ss : List Sess) (s : Sess) : List Sess := s :: ss.filter (fun t => t.key != s.key)

/-- `HasFlowFamilySession(key)`: a session under this very key, or a family reference (which only
sessions with a cacheable DCID take). -/
def hasFamilySession (ss : List Sess) (k : Bytes) : Bool :=
  (findSess ss k).isSome || ss.any (fun s => s.key != [])

/-- `TakeFlowFamilyBufferedPackets` (as repaired by 629a74d): the session stored under the family key
itself (an Initial without a cacheable DCID) and every member of the family — i.e. every session of
this source and destination. -/
def takeHeld : List Sess → List Bytes × List Sess
  | [] => ([], [])
  | s :: ss =>
    let r := takeHeld ss
    if 1 < s.pkt.data.length then (s.withheld ++ r.1, s.release :: r.2)
    else (r.1, s :: r.2)

/-- `ObserveFlowFamilyQuicInitial`: the sessions afterwards (the exact-key member without a
fingerprint is seeded) and `changed`. -/
def observeFamily (ss : List Sess) (key : Bytes) (d : Bytes) : List Sess × Bool :=
  if key = [] then (ss, false) else
  match parseSig d with
  | none => (ss, false)
  | some sig =>
    let mem := ss.filter (fun s => s.key != [])
    if mem = [] then (ss, false) else
    let matched := mem.any (fun s => s.sig == some sig)
    let mismatched := mem.any (fun s => s.sig.isSome && s.sig != some sig)
    (ss.map (fun s => if s.key = key ∧ s.sig = none then { s with sig := some sig } else s),
     mismatched && !matched)

def shiftSeals (n : Nat) (l : List Sealed) : List Sealed := l.map fun e => { e with start := e.start + n }

/-- From `afterSniffing` on: release what the family holds, dial if there is no endpoint, write. -/
def Fam.forward (f : Fam) (pre : List Bytes) (dom : Bytes) (x : Dg) (hadSession : Bool) : Fam × StepOut :=
  let r := if hadSession then takeHeld f.sessions else ([], f.sessions)
  let payload := pre ++ r.1 ++ [x.data]
  match f.ue with
  | some _ => ({ f with sessions := r.2 }, { written := payload })
  | none =>
    if x.dialFails then ({ f with sessions := r.2 }, { dropped := payload })
    else ({ f with sessions := r.2, ue := some dom }, { written := payload })

/-- `RecordSniffNoSni` / `RecordSniffSuccess`. -/
def Sess.record (s : Sess) (dom : Bytes) : Sess :=
  if dom = [] then
    if s.noSni + 1 ≥ 4 then { s with noSni := 0, bypass := true } else { s with noSni := s.noSni + 1 }
  else { s with noSni := 0, bypass := false }

/-- `DefaultPacketSnifferSessionMgr.GetOrCreate(key)`. -/
def Fam.sessionFor (f : Fam) (key : Bytes) : Sess :=
  match findSess f.sessions key with
  | some s => s
  | none => { key := key }

/-- `MarkQuicDcidFailed` (only cacheable DCIDs are remembered). -/
def markFailed (failed : List Bytes) (key : Bytes) : List Bytes := if key ≠ [] then key :: failed else failed

/-- `ObserveQuicInitial`, `AppendData`, `SniffUdp` and the decrypt-failure counter: the answer and the
session afterwards. -/
def Sess.sniffed (s0 : Sess) (x : Dg) : Except Err Bytes × Sess :=
  let sig1 := match s0.sig with
    | some g => some g
    | none => parseSig x.data
  let orc := s0.oracle ++ shiftSeals s0.pkt.buf.length x.seals
  let r := (s0.pkt.append x.data).sniffUdp orc
  let n := match r.1 with
    | .error .notApplicable => s0.decFail + 1
    | .error _ => 0
    | .ok _ => s0.decFail
  (r.1, { s0 with pkt := r.2, oracle := orc, decFail := n, sig := sig1 })

/-- The domain `handlePkt` goes on with. -/
def domainOf : Except Err Bytes → Bytes
  | .ok n => n
  | .error _ => []

/-- The sniffing section (no endpoint, the datagram is shaped like a QUIC Initial). -/
def Fam.sniff (f : Fam) (x : Dg) : Fam × StepOut :=
  let key := dcidKey x.data
  if key ≠ [] ∧ f.failed.contains key then f.forward [] [] x true
  else
    let s0 := f.sessionFor key
    if s0.bypass then (Fam.mk (putSess f.sessions s0) f.ue (markFailed f.failed key)).forward [] [] x true
    else
      let r := s0.sniffed x
      let pre := (r.2.pkt.data.drop 1).dropLast      -- `flushHeld`: all but the first (empty) and the last (self)
      if r.1 = .error .notApplicable ∧ r.2.decFail ≥ 2 then
        (Fam.mk (putSess f.sessions r.2.release) f.ue (markFailed f.failed key)).forward pre [] x true
      else if r.2.pkt.needMore then (Fam.mk (putSess f.sessions r.2) f.ue f.failed, {})
      else
        (Fam.mk (putSess f.sessions (r.2.record (domainOf r.1)).release) f.ue f.failed).forward pre (domainOf r.1) x true

/-- `EnsureSnifferSession` (the ingress does it for every datagram shaped like a QUIC Initial before
`handlePkt` runs). -/
def Fam.ensure (f : Fam) (d : Bytes) : Fam :=
  if isLikelyQuic d = true ∧ hasFamilySession f.sessions (dcidKey d) = false then
    { f with sessions := f.sessions ++ [{ key := dcidKey d }] }
  else f

/-- `ClassifyUdpFlow` + `EnsureSnifferSession` + `handlePkt` for one datagram. -/
def Fam.step (f0 : Fam) (x : Dg) : Fam × StepOut :=
  let d := x.data
  let key := dcidKey d
  let hadSession := isLikelyQuic d || !f0.sessions.isEmpty     -- `flowDecision.HasSnifferSession`
  let f := f0.ensure d
  match f.ue with
  | some dom =>
    if dom ≠ [] then (f, { written := [d] })                 -- fast path of a sniffed flow
    else if isLikelyQuic d = true then
      let o := observeFamily f.sessions key d
      if key ≠ [] ∧ o.2 = true then
        -- another connection on a domain-less endpoint: sessions and endpoint are torn down
        (Fam.mk (o.1.filter (fun s => s.key == [])) none f.failed).sniff x
      else (Fam.mk o.1 f.ue f.failed).forward [] [] x hadSession
    else f.forward [] [] x hadSession
  | none => if isLikelyQuic d = true then f.sniff x else f.forward [] [] x hadSession

def Fam.run : Fam → List Dg → List StepOut × Fam
  | f, [] => ([], f)
  | f, x :: xs =>
    let r := f.step x
    let rs := Fam.run r.1 xs
    (r.2 :: rs.1, rs.2)

/-- Everything the sessions hold back. -/
def Fam.held (f : Fam) : List Bytes := f.sessions.flatMap Sess.withheld

/-- The datagrams of one connection (same session key), in the order of the list. -/
def onKey (k : Bytes) (l : List Bytes) : List Bytes := l.filter (fun b => dcidKey b == k)

/-- What the steps handed on, in order: written to the endpoint, or given to a dial that failed. -/
def released (outs : List StepOut) : List Bytes := outs.flatMap fun o => o.written ++ o.dropped

end DaeVerif.C06
