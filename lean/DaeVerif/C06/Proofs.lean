import DaeVerif.C06.Spec
namespace DaeVerif.C06
end DaeVerif.C06
