import DaeVerif.C06.Spec
/-! # C06 — helper lemmas -/
namespace DaeVerif.C06

/-! ## Stream sniffer: what the relay gets -/

theorem drainConn_eq (s : List Ev) : drainConn s = (clientBytes s, clientEnd s) := by
  induction s with
  | nil => rfl
  | cons e rest ih =>
    cases e with
    | data b => simp [drainConn, clientBytes, clientEnd, ih]
    | eof => rfl
    | stall => simpa [drainConn, clientBytes, clientEnd] using ih
    | rst => rfl

theorem relay_atEof (buf : Bytes) (nm : Bool) (rest : List Ev) (d : Drain)
    (h : drainConn rest = ([], none)) :
    relayBytes (atEof buf nm rest) d = (buf, none) := by
  unfold atEof
  split
  · cases d <;> simp [relayBytes, h]
  · split <;> cases d <;> simp [relayBytes, h]

theorem relay_sniffLoop (script : List Ev) (buf : Bytes) (nm : Bool) (d : Drain) :
    relayBytes (sniffLoop buf nm script) d = (buf ++ clientBytes script, clientEnd script) := by
  induction script generalizing buf nm with
  | nil =>
    rw [sniffLoop, relay_atEof _ _ _ _ rfl]; simp [clientBytes, clientEnd]
  | cons e rest ih =>
    cases e with
    | eof => rw [sniffLoop, relay_atEof _ _ _ _ rfl]; simp [clientBytes, clientEnd]
    | stall =>
      cases d <;> simp [sniffLoop, relayBytes, drainConn_eq, clientBytes, clientEnd]
    | rst =>
      cases d <;> simp [sniffLoop, relayBytes, drainConn, clientBytes, clientEnd]
    | data b =>
      rw [sniffLoop]
      split
      · cases d <;> simp [relayBytes, drainConn_eq, clientBytes, clientEnd, List.append_assoc]
      · split
        · rw [ih]; simp [clientBytes, clientEnd, List.append_assoc]
        · cases d <;> simp [relayBytes, drainConn_eq, clientBytes, clientEnd, List.append_assoc]

/-! ## Slices -/

theorem slice_append_right (a r : Bytes) (i j : Nat) :
    slice (a ++ r) (a.length + i) (a.length + j) = slice r i j := by
  unfold slice
  rw [List.drop_append, List.drop_of_length_le (by omega)]
  simp
  congr 1
  omega

theorem slice_prefix (b c : Bytes) : slice (b ++ c) 0 b.length = b := by
  unfold slice; simp

theorem slice_mid (a b c : Bytes) : slice (a ++ (b ++ c)) a.length (a.length + b.length) = b := by
  have := slice_append_right a (b ++ c) 0 b.length
  simp only [Nat.add_zero] at this
  rw [this, slice_prefix]

theorem slice_mid' (a b c : Bytes) (n : Nat) (h : n = b.length) :
    slice (a ++ (b ++ c)) a.length (a.length + n) = b := by subst h; exact slice_mid a b c

theorem be16_u16 (n : Nat) : be16 (n / 256) (n % 256) = n := by
  unfold be16; have := Nat.div_add_mod n 256; omega

/-- A locator that serves the bytes of `S` (and may know a little more). -/
structure Reads (s : Loc) (S : Bytes) : Prop where
  range : ∀ i j, i ≤ j → j ≤ S.length → s.range i j = .ok (slice S i j)
  at_ : ∀ i, i < S.length → s.at i = .ok (S.getD i 0)
  len_ge : S.length ≤ s.len

theorem reads_builtin (S : Bytes) : Reads (.builtin S) S where
  range := by intro i j h1 h2; simp [Loc.range, h1, h2]
  at_ := by
    intro i h
    simp only [Loc.at]
    rw [List.getElem?_eq_getElem h]
    simp [List.getD, List.getElem?_eq_getElem h]
  len_ge := by simp [Loc.len]

theorem encodeEntry_length (e : Nat × Bytes) : (encodeEntry e).length = 3 + e.2.length := by
  simp [encodeEntry, u16]; omega

theorem sniLoop_encode (s : Loc) (es : List (Nat × Bytes)) (pre post S : Bytes)
    (hS : S = pre ++ (encodeEntries es ++ post)) (hr : Reads s S) :
    sniLoop s (pre.length + (encodeEntries es).length) pre.length
      = .ok ((firstHost es).map trimDot) := by
  induction es generalizing pre with
  | nil =>
    unfold sniLoop
    rw [dif_neg (by simp [encodeEntries])]
    simp [firstHost]
  | cons e es ih =>
    obtain ⟨t, n⟩ := e
    have hlen : (encodeEntries ((t, n) :: es)).length = 3 + n.length + (encodeEntries es).length := by
      simp [encodeEntries, encodeEntry_length]
    have hSlen : S.length = pre.length + (3 + n.length + (encodeEntries es).length) + post.length := by
      rw [hS]; simp [hlen]; omega
    have hS' : S = pre ++ ([t, n.length / 256, n.length % 256] ++ (n ++ (encodeEntries es ++ post))) := by
      rw [hS]; simp [encodeEntries, encodeEntry, u16]
    have hr1 : s.range pre.length (pre.length + 3) = .ok [t, n.length / 256, n.length % 256] := by
      rw [hr.range _ _ (by omega) (by omega), hS']
      exact congrArg Except.ok (slice_mid' pre [t, n.length / 256, n.length % 256] _ 3 rfl)
    unfold sniLoop
    rw [dif_pos (by omega), hr1]
    simp only [List.getD_cons_zero, List.getD_cons_succ, be16_u16]
    by_cases ht : t = 0
    · subst ht
      have hr2 : s.range (pre.length + 3) (pre.length + 3 + n.length) = .ok n := by
        rw [hr.range _ _ (by omega) (by omega), hS']
        have := slice_mid' (pre ++ [0, n.length / 256, n.length % 256]) n (encodeEntries es ++ post) n.length rfl
        simpa [List.append_assoc] using this
      simp [hr2, firstHost, hlen]
      omega
    · have e1 : pre.length + (encodeEntries ((t, n) :: es)).length
          = (pre ++ encodeEntry (t, n)).length + (encodeEntries es).length := by
        simp [hlen, encodeEntry_length]; omega
      have e2 : pre.length + 3 + n.length = (pre ++ encodeEntry (t, n)).length := by
        simp [encodeEntry_length]; omega
      simp only [ht, ne_eq, not_false_eq_true, if_true, firstHost, if_false]
      rw [e1, e2]
      exact ih (pre ++ encodeEntry (t, n)) (by rw [hS]; simp [encodeEntries, List.append_assoc])

/-! ## `findSniExtension` on an encoded extension list -/

theorem sniData_length (es : List (Nat × Bytes)) : (sniData es).length = 2 + (encodeEntries es).length := by
  simp [sniData, u16]; omega

theorem encodeExt_length (e : ExtItem) : (encodeExt e).length = 4 + e.data.length := by
  simp [encodeExt, u16]; omega

theorem encodeExts_eq_nil (l : List ExtItem) (h : (encodeExts l).length = 0) : l = [] := by
  cases l with
  | nil => rfl
  | cons e es => simp [encodeExts, encodeExt_length] at h

/-- The documented answer for an extension list. -/
def specExts (exts : List ExtItem) : Except Err Bytes :=
  match firstHostName exts with
  | some n => .ok (trimDot n)
  | none => .error .notFound

theorem findSniFrom_encode (s : Loc) (exts : List ExtItem) (pre S : Bytes)
    (hwf : ∀ e ∈ exts, ∀ t d, e = .other t d → t ≠ 0)
    (hS : S = pre ++ encodeExts exts) (hr : Reads s S) (hl : s.len ≤ S.length + 1) :
    findSniFrom s pre.length = specExts exts := by
  induction exts generalizing pre with
  | nil =>
    have : S.length = pre.length := by rw [hS]; simp [encodeExts]
    unfold findSniFrom
    rw [dif_pos (by omega)]
    rfl
  | cons e rest ih =>
    have hge := hr.len_ge
    have hSlen : S.length = pre.length + (4 + e.data.length + (encodeExts rest).length) := by
      rw [hS]; simp [encodeExts, encodeExt_length]
    have hS' : S = pre ++ ([e.typ / 256, e.typ % 256, e.data.length / 256, e.data.length % 256]
        ++ (e.data ++ encodeExts rest)) := by
      rw [hS]; simp [encodeExts, encodeExt, u16]
    have ihr := ih (pre ++ encodeExt e) (fun x hx => hwf x (List.mem_cons_of_mem _ hx))
      (by rw [hS]; simp [encodeExts])
    have enext : pre.length + 4 + e.data.length = (pre ++ encodeExt e).length := by
      simp [encodeExt_length]; omega
    by_cases hc : pre.length + 4 ≥ s.len
    · -- an empty extension as the very last one
      have h0 : e.data.length = 0 := by omega
      have h1 : (encodeExts rest).length = 0 := by omega
      have hrest := encodeExts_eq_nil rest h1
      subst hrest
      unfold findSniFrom
      rw [dif_pos hc]
      cases e with
      | sni es => simp [ExtItem.data, sniData_length] at h0
      | other t d => rfl
    · have hr1 : s.range pre.length (pre.length + 4)
          = .ok [e.typ / 256, e.typ % 256, e.data.length / 256, e.data.length % 256] := by
        rw [hr.range _ _ (by omega) (by omega), hS']
        exact congrArg Except.ok (slice_mid' pre _ _ 4 rfl)
      unfold findSniFrom
      rw [dif_neg hc, hr1]
      simp only [List.getD_cons_zero, List.getD_cons_succ, be16_u16]
      rw [dif_neg (by omega)]
      cases e with
      | other t d =>
        have ht : t ≠ 0 := hwf _ (List.mem_cons_self) t d rfl
        simp only [ExtItem.typ, ht, if_false]
        rw [show pre.length + 4 + (ExtItem.other t d).data.length = (pre ++ encodeExt (.other t d)).length from enext]
        rw [ihr]
        simp [specExts, firstHostName]
      | sni es =>
        have hd : (ExtItem.sni es).data.length = 2 + (encodeEntries es).length := sniData_length es
        have hr2 : s.range (pre.length + 4) (pre.length + 6)
            = .ok [(encodeEntries es).length / 256, (encodeEntries es).length % 256] := by
          rw [hr.range _ _ (by omega) (by omega), hS]
          have := slice_mid' (pre ++ [0 / 256, 0 % 256, (sniData es).length / 256, (sniData es).length % 256])
            [(encodeEntries es).length / 256, (encodeEntries es).length % 256]
            (encodeEntries es ++ encodeExts rest) 2 rfl
          simp only [List.length_append, List.length_cons, List.length_nil] at this
          simp only [encodeExts, encodeExt, ExtItem.typ, ExtItem.data, sniData, u16, List.append_assoc,
            List.cons_append, List.nil_append]
          simp only [List.append_assoc, List.cons_append, List.nil_append, sniData, u16] at this
          exact congrArg Except.ok this
        have hloop := sniLoop_encode s es
          (pre ++ [0 / 256, 0 % 256, (sniData es).length / 256, (sniData es).length % 256,
            (encodeEntries es).length / 256, (encodeEntries es).length % 256])
          (encodeExts rest) S
          (by rw [hS]; simp [encodeExts, encodeExt, ExtItem.typ, ExtItem.data, sniData, u16]) hr
        simp only [List.length_append, List.length_cons, List.length_nil] at hloop
        simp only [ExtItem.typ, if_true]
        rw [if_neg (by omega), hr2]
        simp only [List.getD_cons_zero, List.getD_cons_succ, be16_u16]
        rw [if_neg (by omega)]
        rw [show pre.length + 4 + (ExtItem.sni es).data.length = pre.length + (0 + 1 + 1 + 1 + 1 + 1 + 1) + (encodeEntries es).length by omega,
          show pre.length + 6 = pre.length + (0 + 1 + 1 + 1 + 1 + 1 + 1) by omega, hloop]
        cases hf : firstHost es with
        | some n => simp [specExts, firstHostName, hf]
        | none =>
          simp only [Option.map_none]
          rw [show pre.length + (0 + 1 + 1 + 1 + 1 + 1 + 1) + (encodeEntries es).length
            = (pre ++ encodeExt (.sni es)).length by rw [← enext]; omega]
          rw [ihr]
          simp [specExts, firstHostName, hf]

/-! ## `extractSniFromTls` on an encoded ClientHello -/

theorem getD_append_mid (a : Bytes) (x : Nat) (b : Bytes) (n : Nat) (h : n = a.length) :
    (a ++ x :: b).getD n 0 = x := by
  subst h; simp [List.getD]

/-- What `Slice` must give for the generic round trip. -/
def SliceOk (s : Loc) (S : Bytes) : Prop :=
  ∀ a b, a ≤ b → b ≤ S.length →
    ∃ s', s.sliceLoc a b = .ok s' ∧ Reads s' (slice S a b) ∧ s'.len ≤ (b - a) + 1

theorem slice_length (S : Bytes) (a b : Nat) (h : b ≤ S.length) : (slice S a b).length = b - a := by
  unfold slice; simp; omega

theorem sliceOk_builtin (S : Bytes) : SliceOk (.builtin S) S := by
  intro a b h1 h2
  refine ⟨.builtin (slice S a b), by simp [Loc.sliceLoc, h1, h2], reads_builtin _, ?_⟩
  simp [Loc.len, slice_length S a b h2]

theorem extractSni_encode (s : Loc) (ch : ClientHello) (hwf : ch.WF)
    (hr : Reads s (handshake ch)) (hlen : s.len = (handshake ch).length)
    (hsl : SliceOk s (handshake ch)) :
    extractSni s = specResult ch := by
  obtain ⟨hm1, hm3, hrnd, hext⟩ := hwf
  -- name the pieces
  generalize hS : handshake ch = S at *
  let n := (helloBody ch).length
  let A : Bytes := [1, n / 65536, n / 256 % 256, n % 256, 3, ch.minor] ++ ch.random
  have hA : A.length = 38 := by simp [A, hrnd]
  let sl := ch.sid.length
  let csl := ch.suites.length
  let cml := ch.comp.length
  have hS1 : S = [] ++ ([1, n / 65536, n / 256 % 256, n % 256, 3, ch.minor] ++
      (ch.random ++ ([sl] ++ ch.sid) ++ (u16 csl ++ ch.suites) ++ ([cml] ++ ch.comp) ++ extBlock ch.exts)) := by
    rw [← hS]; simp [handshake, helloBody, n, sl, csl, cml]
  have hS2 : S = A ++ sl :: (ch.sid ++ (u16 csl ++ ch.suites) ++ ([cml] ++ ch.comp) ++ extBlock ch.exts) := by
    rw [← hS]; simp [handshake, helloBody, A, n, sl, csl, cml]
  have hS3 : S = (A ++ sl :: ch.sid) ++ ([csl / 256, csl % 256] ++ (ch.suites ++ ([cml] ++ ch.comp) ++ extBlock ch.exts)) := by
    rw [hS2]; simp [u16]
  have hS4 : S = (A ++ sl :: ch.sid ++ [csl / 256, csl % 256] ++ ch.suites) ++ cml :: (ch.comp ++ extBlock ch.exts) := by
    rw [hS2]; simp [u16]
  have hL0 : S.length = 42 + sl + csl + cml + (extBlock ch.exts).length := by
    rw [hS2]; simp [hA, u16, sl, csl, cml]; omega
  have r1 : s.range 0 6 = .ok [1, n / 65536, n / 256 % 256, n % 256, 3, ch.minor] := by
    rw [hr.range _ _ (by omega) (by omega)]
    have := slice_mid' [] [1, n / 65536, n / 256 % 256, n % 256, 3, ch.minor]
      (ch.random ++ ([sl] ++ ch.sid) ++ (u16 csl ++ ch.suites) ++ ([cml] ++ ch.comp) ++ extBlock ch.exts) 6 rfl
    rw [← hS1] at this
    exact congrArg Except.ok this
  have r2 : s.at 38 = .ok sl := by
    rw [hr.at_ _ (by omega)]
    exact congrArg Except.ok (by rw [hS2]; exact getD_append_mid A sl _ 38 hA.symm)
  have r3 : s.range (39 + sl) (41 + sl) = .ok [csl / 256, csl % 256] := by
    rw [hr.range _ _ (by omega) (by omega)]
    have := slice_mid' (A ++ sl :: ch.sid) [csl / 256, csl % 256]
      (ch.suites ++ ([cml] ++ ch.comp) ++ extBlock ch.exts) 2 rfl
    rw [← hS3] at this
    have e : (A ++ sl :: ch.sid).length = 39 + sl := by simp [hA, sl]; omega
    rw [e] at this
    rw [show 41 + sl = 39 + sl + 2 by omega]
    exact congrArg Except.ok this
  have r4 : s.at (41 + sl + csl) = .ok cml := by
    rw [hr.at_ _ (by omega)]
    refine congrArg Except.ok ?_
    rw [hS4]
    exact getD_append_mid _ cml _ _ (by simp [hA, sl, csl]; omega)
  unfold extractSni
  rw [if_neg (by omega), r1]
  simp only [List.getD_cons_zero, List.getD_cons_succ]
  rw [if_neg (by simp), if_neg (by omega), r2]
  simp only []
  rw [if_neg (by omega), show 39 + sl + 2 - 2 = 39 + sl by omega, show 39 + sl + 2 = 41 + sl by omega, r3]
  simp only [List.getD_cons_zero, List.getD_cons_succ, be16_u16]
  rw [if_neg (by omega), show 41 + sl + csl + 1 - 1 = 41 + sl + csl by omega, r4]
  simp only []
  cases hx : ch.exts with
  | none =>
    have : (extBlock ch.exts).length = 0 := by simp [hx, extBlock]
    rw [if_pos (by omega)]
    simp [specResult, hx]
  | some es =>
    let E := (encodeExts es).length
    have hEB : (extBlock ch.exts).length = 2 + E := by simp [hx, extBlock, u16, E]; omega
    have hS5 : S = (A ++ sl :: ch.sid ++ [csl / 256, csl % 256] ++ ch.suites ++ cml :: ch.comp)
        ++ ([E / 256, E % 256] ++ (encodeExts es ++ [])) := by
      rw [hS2]; simp [u16, hx, extBlock, E]
    have e5 : (A ++ sl :: ch.sid ++ [csl / 256, csl % 256] ++ ch.suites ++ cml :: ch.comp).length
        = 42 + sl + csl + cml := by simp [hA, sl, csl, cml]; omega
    have r5 : s.range (42 + sl + csl + cml) (44 + sl + csl + cml) = .ok [E / 256, E % 256] := by
      rw [hr.range _ _ (by omega) (by omega)]
      have := slice_mid' (A ++ sl :: ch.sid ++ [csl / 256, csl % 256] ++ ch.suites ++ cml :: ch.comp)
        [E / 256, E % 256] (encodeExts es ++ []) 2 rfl
      rw [← hS5, e5] at this
      exact congrArg Except.ok this
    rw [if_neg (by omega), show 41 + sl + csl + 1 + cml + 2 - 2 = 42 + sl + csl + cml by omega,
      show 41 + sl + csl + 1 + cml + 2 = 44 + sl + csl + cml by omega, r5]
    simp only [List.getD_cons_zero, List.getD_cons_succ, be16_u16]
    rw [if_neg (by omega), show 44 + sl + csl + cml + E - E = 44 + sl + csl + cml by omega]
    obtain ⟨s', hs', hrs', hls'⟩ := hsl (44 + sl + csl + cml) (44 + sl + csl + cml + E) (by omega) (by omega)
    rw [hs']
    simp only []
    have hslice : slice S (44 + sl + csl + cml) (44 + sl + csl + cml + E) = encodeExts es := by
      have := slice_mid' (A ++ sl :: ch.sid ++ [csl / 256, csl % 256] ++ ch.suites ++ cml :: ch.comp ++ [E / 256, E % 256])
        (encodeExts es) [] E rfl
      have e6 : (A ++ sl :: ch.sid ++ [csl / 256, csl % 256] ++ ch.suites ++ cml :: ch.comp ++ [E / 256, E % 256]).length
          = 44 + sl + csl + cml := by simp [hA, sl, csl, cml]; omega
      rw [e6] at this
      rw [← this, hS5]
      simp
    rw [hslice] at hrs'
    have := findSniFrom_encode s' es [] (encodeExts es) (fun e he t d hd => hext es hx e he t d hd)
      (by simp) hrs' (by simp only [E] at hls'; omega)
    simp only [List.length_nil] at this
    unfold findSni
    rw [this]
    simp only [specResult, hx, specExts]

end DaeVerif.C06
