import DaeVerif.C06.Spec
/-! # C06 — helper lemmas -/
namespace DaeVerif.C06

/-! ## Stream sniffer: what the relay gets -/

theorem drainConn_eq (s : List Ev) : drainConn s = (clientBytes s, clientEnd s) := by
  induction s with
  | nil => rfl
  | cons e rest ih =>
    cases e with
    | data b => simp [drainConn, clientBytes, clientEnd, ih]
    | eof => rfl
    | stall => simpa [drainConn, clientBytes, clientEnd] using ih
    | rst => rfl

theorem relay_atEof (buf : Bytes) (nm : Bool) (rest : List Ev) (d : Drain)
    (h : drainConn rest = ([], none)) :
    relayBytes (atEof buf nm rest) d = (buf, none) := by
  unfold atEof
  split
  · cases d <;> simp [relayBytes, h]
  · split <;> cases d <;> simp [relayBytes, h]

theorem relay_sniffLoop (script : List Ev) (buf : Bytes) (nm : Bool) (d : Drain) :
    relayBytes (sniffLoop buf nm script) d = (buf ++ clientBytes script, clientEnd script) := by
  induction script generalizing buf nm with
  | nil =>
    rw [sniffLoop, relay_atEof _ _ _ _ rfl]; simp [clientBytes, clientEnd]
  | cons e rest ih =>
    cases e with
    | eof => rw [sniffLoop, relay_atEof _ _ _ _ rfl]; simp [clientBytes, clientEnd]
    | stall =>
      cases d <;> simp [sniffLoop, relayBytes, drainConn_eq, clientBytes, clientEnd]
    | rst =>
      cases d <;> simp [sniffLoop, relayBytes, drainConn, clientBytes, clientEnd]
    | data b =>
      rw [sniffLoop]
      split
      · cases d <;> simp [relayBytes, drainConn_eq, clientBytes, clientEnd, List.append_assoc]
      · split
        · rw [ih]; simp [clientBytes, clientEnd, List.append_assoc]
        · cases d <;> simp [relayBytes, drainConn_eq, clientBytes, clientEnd, List.append_assoc]

/-! ## Slices -/

theorem slice_append_right (a r : Bytes) (i j : Nat) :
    slice (a ++ r) (a.length + i) (a.length + j) = slice r i j := by
  unfold slice
  rw [List.drop_append, List.drop_of_length_le (by omega)]
  simp
  congr 1
  omega

theorem slice_prefix (b c : Bytes) : slice (b ++ c) 0 b.length = b := by
  unfold slice; simp

theorem slice_mid (a b c : Bytes) : slice (a ++ (b ++ c)) a.length (a.length + b.length) = b := by
  have := slice_append_right a (b ++ c) 0 b.length
  simp only [Nat.add_zero] at this
  rw [this, slice_prefix]

theorem slice_mid' (a b c : Bytes) (n : Nat) (h : n = b.length) :
    slice (a ++ (b ++ c)) a.length (a.length + n) = b := by subst h; exact slice_mid a b c

theorem be16_u16 (n : Nat) : be16 (n / 256) (n % 256) = n := by
  unfold be16; have := Nat.div_add_mod n 256; omega

/-- A locator that serves the bytes of `S` (and may know a little more). -/
structure Reads (s : Loc) (S : Bytes) : Prop where
  range : ∀ i j, i ≤ j → j ≤ S.length → s.range i j = .ok (slice S i j)
  at_ : ∀ i, i < S.length → s.at i = .ok (S.getD i 0)
  len_ge : S.length ≤ s.len

theorem reads_builtin (S : Bytes) : Reads (.builtin S) S where
  range := by intro i j h1 h2; simp [Loc.range, h1, h2]
  at_ := by
    intro i h
    simp only [Loc.at]
    rw [List.getElem?_eq_getElem h]
    simp [List.getD, List.getElem?_eq_getElem h]
  len_ge := by simp [Loc.len]

theorem encodeEntry_length (e : Nat × Bytes) : (encodeEntry e).length = 3 + e.2.length := by
  simp [encodeEntry, u16]; omega

theorem sniLoop_encode (s : Loc) (es : List (Nat × Bytes)) (pre post S : Bytes)
    (hS : S = pre ++ (encodeEntries es ++ post)) (hr : Reads s S) :
    sniLoop s (pre.length + (encodeEntries es).length) pre.length
      = .ok ((firstHost es).map trimDot) := by
  induction es generalizing pre with
  | nil =>
    unfold sniLoop
    simp [encodeEntries, firstHost]
  | cons e es ih =>
    obtain ⟨t, n⟩ := e
    have hlen : (encodeEntries ((t, n) :: es)).length = 3 + n.length + (encodeEntries es).length := by
      simp [encodeEntries, encodeEntry_length]
    have hSlen : S.length = pre.length + (3 + n.length + (encodeEntries es).length) + post.length := by
      rw [hS]; simp [hlen]; omega
    have hS' : S = pre ++ ([t, n.length / 256, n.length % 256] ++ (n ++ (encodeEntries es ++ post))) := by
      rw [hS]; simp [encodeEntries, encodeEntry, u16]
    have hr1 : s.range pre.length (pre.length + 3) = .ok [t, n.length / 256, n.length % 256] := by
      rw [hr.range _ _ (by omega) (by omega), hS']
      exact slice_mid' _ _ _ 3 rfl
    unfold sniLoop
    rw [dif_pos (by omega), hr1]
    simp only [List.getD_cons_zero, List.getD_cons_succ, be16_u16]
    by_cases ht : t = 0
    · subst ht
      have hr2 : s.range (pre.length + 3) (pre.length + 3 + n.length) = .ok n := by
        rw [hr.range _ _ (by omega) (by omega), hS']
        have := slice_mid' (pre ++ [0, n.length / 256, n.length % 256]) n (encodeEntries es ++ post) n.length rfl
        simpa [List.append_assoc] using this
      simp [hr2, firstHost, hlen]
      omega
    · have e1 : pre.length + (encodeEntries ((t, n) :: es)).length
          = (pre ++ encodeEntry (t, n)).length + (encodeEntries es).length := by
        simp [hlen, encodeEntry_length]; omega
      have e2 : pre.length + 3 + n.length = (pre ++ encodeEntry (t, n)).length := by
        simp [encodeEntry_length]; omega
      simp only [ht, ne_eq, not_false_eq_true, if_true, firstHost, if_false]
      rw [e1, e2]
      exact ih (pre ++ encodeEntry (t, n)) (by rw [hS]; simp [encodeEntries, List.append_assoc])

end DaeVerif.C06
