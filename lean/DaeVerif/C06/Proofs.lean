import DaeVerif.C06.Spec
/-! # C06 — helper lemmas -/
namespace DaeVerif.C06

/-! ## Stream sniffer: what the relay gets -/

theorem drainConn_eq (s : List Ev) : drainConn s = (clientBytes s, clientEnd s) := by
  induction s with
  | nil => rfl
  | cons e rest ih =>
    cases e with
    | data b => simp [drainConn, clientBytes, clientEnd, ih]
    | eof => rfl
    | stall => simpa [drainConn, clientBytes, clientEnd] using ih
    | rst => rfl

theorem relay_atEof (buf : Bytes) (nm : Bool) (rest : List Ev) (d : Drain)
    (h : drainConn rest = ([], none)) :
    relayBytes (atEof buf nm rest) d = (buf, none) := by
  unfold atEof
  split
  · cases d <;> simp [relayBytes, h]
  · split <;> cases d <;> simp [relayBytes, h]

theorem relay_sniffLoop (script : List Ev) (buf : Bytes) (nm : Bool) (d : Drain) :
    relayBytes (sniffLoop buf nm script) d = (buf ++ clientBytes script, clientEnd script) := by
  induction script generalizing buf nm with
  | nil =>
    rw [sniffLoop, relay_atEof _ _ _ _ rfl]; simp [clientBytes, clientEnd]
  | cons e rest ih =>
    cases e with
    | eof => rw [sniffLoop, relay_atEof _ _ _ _ rfl]; simp [clientBytes, clientEnd]
    | stall =>
      cases d <;> simp [sniffLoop, relayBytes, drainConn_eq, clientBytes, clientEnd]
    | rst =>
      cases d <;> simp [sniffLoop, relayBytes, drainConn, clientBytes, clientEnd]
    | data b =>
      rw [sniffLoop]
      split
      · cases d <;> simp [relayBytes, drainConn_eq, clientBytes, clientEnd, List.append_assoc]
      · split
        · rw [ih]; simp [clientBytes, clientEnd, List.append_assoc]
        · cases d <;> simp [relayBytes, drainConn_eq, clientBytes, clientEnd, List.append_assoc]

/-! ## Slices -/

theorem slice_append_right (a r : Bytes) (i j : Nat) :
    slice (a ++ r) (a.length + i) (a.length + j) = slice r i j := by
  unfold slice
  rw [List.drop_append, List.drop_of_length_le (by omega)]
  simp
  congr 1
  omega

theorem slice_prefix (b c : Bytes) : slice (b ++ c) 0 b.length = b := by
  unfold slice; simp

theorem slice_mid (a b c : Bytes) : slice (a ++ (b ++ c)) a.length (a.length + b.length) = b := by
  have := slice_append_right a (b ++ c) 0 b.length
  simp only [Nat.add_zero] at this
  rw [this, slice_prefix]

theorem slice_mid' (a b c : Bytes) (n : Nat) (h : n = b.length) :
    slice (a ++ (b ++ c)) a.length (a.length + n) = b := by subst h; exact slice_mid a b c

theorem be16_u16 (n : Nat) : be16 (n / 256) (n % 256) = n := by
  unfold be16; have := Nat.div_add_mod n 256; omega

/-- A locator that serves the bytes of `S` (and may know a little more). -/
structure Reads (s : Loc) (S : Bytes) : Prop where
  range : ∀ i j, i ≤ j → j ≤ S.length → s.range i j = .ok (slice S i j)
  at_ : ∀ i, i < S.length → s.at i = .ok (S.getD i 0)
  len_ge : S.length ≤ s.len

theorem reads_builtin (S : Bytes) : Reads (.builtin S) S where
  range := by intro i j h1 h2; simp [Loc.range, h1, h2]
  at_ := by
    intro i h
    simp only [Loc.at]
    rw [List.getElem?_eq_getElem h]
    simp [List.getD, List.getElem?_eq_getElem h]
  len_ge := by simp [Loc.len]

theorem encodeEntry_length (e : Nat × Bytes) : (encodeEntry e).length = 3 + e.2.length := by
  simp [encodeEntry, u16]; omega

theorem sniLoop_encode (s : Loc) (es : List (Nat × Bytes)) (pre post S : Bytes)
    (hS : S = pre ++ (encodeEntries es ++ post)) (hr : Reads s S) :
    sniLoop s (pre.length + (encodeEntries es).length) pre.length
      = .ok ((firstHost es).map trimDot) := by
  induction es generalizing pre with
  | nil =>
    unfold sniLoop
    rw [dif_neg (by simp [encodeEntries])]
    simp [firstHost]
  | cons e es ih =>
    obtain ⟨t, n⟩ := e
    have hlen : (encodeEntries ((t, n) :: es)).length = 3 + n.length + (encodeEntries es).length := by
      simp [encodeEntries, encodeEntry_length]
    have hSlen : S.length = pre.length + (3 + n.length + (encodeEntries es).length) + post.length := by
      rw [hS]; simp [hlen]; omega
    have hS' : S = pre ++ ([t, n.length / 256, n.length % 256] ++ (n ++ (encodeEntries es ++ post))) := by
      rw [hS]; simp [encodeEntries, encodeEntry, u16]
    have hr1 : s.range pre.length (pre.length + 3) = .ok [t, n.length / 256, n.length % 256] := by
      rw [hr.range _ _ (by omega) (by omega), hS']
      exact congrArg Except.ok (slice_mid' pre [t, n.length / 256, n.length % 256] _ 3 rfl)
    unfold sniLoop
    rw [dif_pos (by omega), hr1]
    simp only [List.getD_cons_zero, List.getD_cons_succ, be16_u16]
    by_cases ht : t = 0
    · subst ht
      have hr2 : s.range (pre.length + 3) (pre.length + 3 + n.length) = .ok n := by
        rw [hr.range _ _ (by omega) (by omega), hS']
        have := slice_mid' (pre ++ [0, n.length / 256, n.length % 256]) n (encodeEntries es ++ post) n.length rfl
        simpa [List.append_assoc] using this
      simp [hr2, firstHost, hlen]
      omega
    · have e1 : pre.length + (encodeEntries ((t, n) :: es)).length
          = (pre ++ encodeEntry (t, n)).length + (encodeEntries es).length := by
        simp [hlen, encodeEntry_length]; omega
      have e2 : pre.length + 3 + n.length = (pre ++ encodeEntry (t, n)).length := by
        simp [encodeEntry_length]; omega
      simp only [ht, ne_eq, not_false_eq_true, if_true, firstHost, if_false]
      rw [e1, e2]
      exact ih (pre ++ encodeEntry (t, n)) (by rw [hS]; simp [encodeEntries, List.append_assoc])

/-! ## `findSniExtension` on an encoded extension list -/

theorem sniData_length (es : List (Nat × Bytes)) : (sniData es).length = 2 + (encodeEntries es).length := by
  simp [sniData, u16]; omega

theorem encodeExt_length (e : ExtItem) : (encodeExt e).length = 4 + e.data.length := by
  simp [encodeExt, u16]; omega

theorem encodeExts_eq_nil (l : List ExtItem) (h : (encodeExts l).length = 0) : l = [] := by
  cases l with
  | nil => rfl
  | cons e es => simp [encodeExts, encodeExt_length] at h


theorem findSniFrom_encode (s : Loc) (exts : List ExtItem) (pre S : Bytes)
    (hwf : ∀ e ∈ exts, ∀ t d, e = .other t d → t ≠ 0)
    (hS : S = pre ++ encodeExts exts) (hr : Reads s S) (hl : s.len ≤ S.length + 1) :
    findSniFrom s pre.length = specExts exts := by
  induction exts generalizing pre with
  | nil =>
    have : S.length = pre.length := by rw [hS]; simp [encodeExts]
    unfold findSniFrom
    rw [dif_pos (by omega)]
    rfl
  | cons e rest ih =>
    have hge := hr.len_ge
    have hSlen : S.length = pre.length + (4 + e.data.length + (encodeExts rest).length) := by
      rw [hS]; simp [encodeExts, encodeExt_length]
    have hS' : S = pre ++ ([e.typ / 256, e.typ % 256, e.data.length / 256, e.data.length % 256]
        ++ (e.data ++ encodeExts rest)) := by
      rw [hS]; simp [encodeExts, encodeExt, u16]
    have ihr := ih (pre ++ encodeExt e) (fun x hx => hwf x (List.mem_cons_of_mem _ hx))
      (by rw [hS]; simp [encodeExts])
    have enext : pre.length + 4 + e.data.length = (pre ++ encodeExt e).length := by
      simp [encodeExt_length]; omega
    by_cases hc : pre.length + 4 ≥ s.len
    · -- an empty extension as the very last one
      have h0 : e.data.length = 0 := by omega
      have h1 : (encodeExts rest).length = 0 := by omega
      have hrest := encodeExts_eq_nil rest h1
      subst hrest
      unfold findSniFrom
      rw [dif_pos hc]
      cases e with
      | sni es => simp [ExtItem.data, sniData_length] at h0
      | other t d => rfl
    · have hr1 : s.range pre.length (pre.length + 4)
          = .ok [e.typ / 256, e.typ % 256, e.data.length / 256, e.data.length % 256] := by
        rw [hr.range _ _ (by omega) (by omega), hS']
        exact congrArg Except.ok (slice_mid' pre _ _ 4 rfl)
      unfold findSniFrom
      rw [dif_neg hc, hr1]
      simp only [List.getD_cons_zero, List.getD_cons_succ, be16_u16]
      rw [dif_neg (by omega)]
      cases e with
      | other t d =>
        have ht : t ≠ 0 := hwf _ (List.mem_cons_self) t d rfl
        simp only [ExtItem.typ, ht, if_false]
        rw [show pre.length + 4 + (ExtItem.other t d).data.length = (pre ++ encodeExt (.other t d)).length from enext]
        rw [ihr]
        simp [specExts, firstHostName]
      | sni es =>
        have hd : (ExtItem.sni es).data.length = 2 + (encodeEntries es).length := sniData_length es
        have hr2 : s.range (pre.length + 4) (pre.length + 6)
            = .ok [(encodeEntries es).length / 256, (encodeEntries es).length % 256] := by
          rw [hr.range _ _ (by omega) (by omega), hS]
          have := slice_mid' (pre ++ [0 / 256, 0 % 256, (sniData es).length / 256, (sniData es).length % 256])
            [(encodeEntries es).length / 256, (encodeEntries es).length % 256]
            (encodeEntries es ++ encodeExts rest) 2 rfl
          simp only [List.length_append, List.length_cons, List.length_nil] at this
          simp only [encodeExts, encodeExt, ExtItem.typ, ExtItem.data, sniData, u16, List.append_assoc,
            List.cons_append, List.nil_append]
          simp only [List.append_assoc, List.cons_append, List.nil_append, sniData, u16] at this
          exact congrArg Except.ok this
        have hloop := sniLoop_encode s es
          (pre ++ [0 / 256, 0 % 256, (sniData es).length / 256, (sniData es).length % 256,
            (encodeEntries es).length / 256, (encodeEntries es).length % 256])
          (encodeExts rest) S
          (by rw [hS]; simp [encodeExts, encodeExt, ExtItem.typ, ExtItem.data, sniData, u16]) hr
        simp only [List.length_append, List.length_cons, List.length_nil] at hloop
        simp only [ExtItem.typ, if_true]
        rw [if_neg (by omega), hr2]
        simp only [List.getD_cons_zero, List.getD_cons_succ, be16_u16]
        rw [if_neg (by omega)]
        rw [show pre.length + 4 + (ExtItem.sni es).data.length = pre.length + (0 + 1 + 1 + 1 + 1 + 1 + 1) + (encodeEntries es).length by omega,
          show pre.length + 6 = pre.length + (0 + 1 + 1 + 1 + 1 + 1 + 1) by omega, hloop]
        cases hf : firstHost es with
        | some n => simp [specExts, firstHostName, hf]
        | none =>
          simp only [Option.map_none]
          rw [show pre.length + (0 + 1 + 1 + 1 + 1 + 1 + 1) + (encodeEntries es).length
            = (pre ++ encodeExt (.sni es)).length by rw [← enext]; omega]
          rw [ihr]
          simp [specExts, firstHostName, hf]

/-! ## `extractSniFromTls` on an encoded ClientHello -/

theorem getD_append_mid (a : Bytes) (x : Nat) (b : Bytes) (n : Nat) (h : n = a.length) :
    (a ++ x :: b).getD n 0 = x := by
  subst h; simp [List.getD]

/-- What `Slice` must give for the generic round trip. -/
def SliceOk (s : Loc) (S : Bytes) : Prop :=
  ∀ a b, a ≤ b → b ≤ S.length →
    ∃ s', s.sliceLoc a b = .ok s' ∧ Reads s' (slice S a b) ∧ s'.len ≤ (b - a) + 1

theorem slice_length (S : Bytes) (a b : Nat) (h : b ≤ S.length) : (slice S a b).length = b - a := by
  unfold slice; simp; omega

theorem sliceOk_builtin (S : Bytes) : SliceOk (.builtin S) S := by
  intro a b h1 h2
  refine ⟨.builtin (slice S a b), by simp [Loc.sliceLoc, h1, h2], reads_builtin _, ?_⟩
  simp [Loc.len, slice_length S a b h2]

theorem extractSni_encode (s : Loc) (ch : ClientHello) (hwf : ch.WF)
    (hr : Reads s (handshake ch)) (hlen : s.len = (handshake ch).length)
    (hsl : SliceOk s (handshake ch)) :
    extractSni s = specResult ch := by
  obtain ⟨hm1, hm3, hrnd, hext⟩ := hwf
  -- name the pieces
  generalize hS : handshake ch = S at *
  let n := (helloBody ch).length
  let A : Bytes := [1, n / 65536, n / 256 % 256, n % 256, 3, ch.minor] ++ ch.random
  have hA : A.length = 38 := by simp [A, hrnd]
  let sl := ch.sid.length
  let csl := ch.suites.length
  let cml := ch.comp.length
  have hS1 : S = [] ++ ([1, n / 65536, n / 256 % 256, n % 256, 3, ch.minor] ++
      (ch.random ++ ([sl] ++ ch.sid) ++ (u16 csl ++ ch.suites) ++ ([cml] ++ ch.comp) ++ extBlock ch.exts)) := by
    rw [← hS]; simp [handshake, helloBody, n, sl, csl, cml]
  have hS2 : S = A ++ sl :: (ch.sid ++ (u16 csl ++ ch.suites) ++ ([cml] ++ ch.comp) ++ extBlock ch.exts) := by
    rw [← hS]; simp [handshake, helloBody, A, n, sl, csl, cml]
  have hS3 : S = (A ++ sl :: ch.sid) ++ ([csl / 256, csl % 256] ++ (ch.suites ++ ([cml] ++ ch.comp) ++ extBlock ch.exts)) := by
    rw [hS2]; simp [u16]
  have hS4 : S = (A ++ sl :: ch.sid ++ [csl / 256, csl % 256] ++ ch.suites) ++ cml :: (ch.comp ++ extBlock ch.exts) := by
    rw [hS2]; simp [u16]
  have hL0 : S.length = 42 + sl + csl + cml + (extBlock ch.exts).length := by
    rw [hS2]; simp [hA, u16, sl, csl, cml]; omega
  have r1 : s.range 0 6 = .ok [1, n / 65536, n / 256 % 256, n % 256, 3, ch.minor] := by
    rw [hr.range _ _ (by omega) (by omega)]
    have := slice_mid' [] [1, n / 65536, n / 256 % 256, n % 256, 3, ch.minor]
      (ch.random ++ ([sl] ++ ch.sid) ++ (u16 csl ++ ch.suites) ++ ([cml] ++ ch.comp) ++ extBlock ch.exts) 6 rfl
    rw [← hS1] at this
    exact congrArg Except.ok this
  have r2 : s.at 38 = .ok sl := by
    rw [hr.at_ _ (by omega)]
    exact congrArg Except.ok (by rw [hS2]; exact getD_append_mid A sl _ 38 hA.symm)
  have r3 : s.range (39 + sl) (41 + sl) = .ok [csl / 256, csl % 256] := by
    rw [hr.range _ _ (by omega) (by omega)]
    have := slice_mid' (A ++ sl :: ch.sid) [csl / 256, csl % 256]
      (ch.suites ++ ([cml] ++ ch.comp) ++ extBlock ch.exts) 2 rfl
    rw [← hS3] at this
    have e : (A ++ sl :: ch.sid).length = 39 + sl := by simp [hA, sl]; omega
    rw [e] at this
    rw [show 41 + sl = 39 + sl + 2 by omega]
    exact congrArg Except.ok this
  have r4 : s.at (41 + sl + csl) = .ok cml := by
    rw [hr.at_ _ (by omega)]
    refine congrArg Except.ok ?_
    rw [hS4]
    exact getD_append_mid _ cml _ _ (by simp [hA, sl, csl]; omega)
  unfold extractSni
  rw [if_neg (by omega), r1]
  simp only [List.getD_cons_zero, List.getD_cons_succ]
  rw [if_neg (by simp), if_neg (by omega), r2]
  simp only []
  rw [if_neg (by omega), show 39 + sl + 2 - 2 = 39 + sl by omega, show 39 + sl + 2 = 41 + sl by omega, r3]
  simp only [List.getD_cons_zero, List.getD_cons_succ, be16_u16]
  rw [if_neg (by omega), show 41 + sl + csl + 1 - 1 = 41 + sl + csl by omega, r4]
  simp only []
  cases hx : ch.exts with
  | none =>
    have : (extBlock ch.exts).length = 0 := by simp [hx, extBlock]
    rw [if_pos (by omega)]
    simp [specResult, hx]
  | some es =>
    let E := (encodeExts es).length
    have hEB : (extBlock ch.exts).length = 2 + E := by simp [hx, extBlock, u16, E]; omega
    have hS5 : S = (A ++ sl :: ch.sid ++ [csl / 256, csl % 256] ++ ch.suites ++ cml :: ch.comp)
        ++ ([E / 256, E % 256] ++ (encodeExts es ++ [])) := by
      rw [hS2]; simp [u16, hx, extBlock, E]
    have e5 : (A ++ sl :: ch.sid ++ [csl / 256, csl % 256] ++ ch.suites ++ cml :: ch.comp).length
        = 42 + sl + csl + cml := by simp [hA, sl, csl, cml]; omega
    have r5 : s.range (42 + sl + csl + cml) (44 + sl + csl + cml) = .ok [E / 256, E % 256] := by
      rw [hr.range _ _ (by omega) (by omega)]
      have := slice_mid' (A ++ sl :: ch.sid ++ [csl / 256, csl % 256] ++ ch.suites ++ cml :: ch.comp)
        [E / 256, E % 256] (encodeExts es ++ []) 2 rfl
      rw [← hS5, e5] at this
      rw [show 44 + sl + csl + cml = 42 + sl + csl + cml + 2 by omega]
      exact congrArg Except.ok this
    rw [if_neg (by omega), show 41 + sl + csl + 1 + cml + 2 - 2 = 42 + sl + csl + cml by omega,
      show 41 + sl + csl + 1 + cml + 2 = 44 + sl + csl + cml by omega, r5]
    simp only [List.getD_cons_zero, List.getD_cons_succ, be16_u16]
    rw [if_neg (by omega), show 44 + sl + csl + cml + E - E = 44 + sl + csl + cml by omega]
    obtain ⟨s', hs', hrs', hls'⟩ := hsl (44 + sl + csl + cml) (44 + sl + csl + cml + E) (by omega) (by omega)
    rw [hs']
    simp only []
    have hslice : slice S (44 + sl + csl + cml) (44 + sl + csl + cml + E) = encodeExts es := by
      have := slice_mid' (A ++ sl :: ch.sid ++ [csl / 256, csl % 256] ++ ch.suites ++ cml :: ch.comp ++ [E / 256, E % 256])
        (encodeExts es) [] E rfl
      have e6 : (A ++ sl :: ch.sid ++ [csl / 256, csl % 256] ++ ch.suites ++ cml :: ch.comp ++ [E / 256, E % 256]).length
          = 44 + sl + csl + cml := by simp [hA, sl, csl, cml]; omega
      rw [e6] at this
      rw [← this, hS5]
      simp
    rw [hslice] at hrs'
    have := findSniFrom_encode s' es [] (encodeExts es) (fun e he t d hd => hext es hx e he t d hd)
      (by simp) hrs' (by simp only [E] at hls'; omega)
    simp only [List.length_nil] at this
    unfold findSni
    rw [this]
    simp only [specResult, specExts]
    rw [hx]

/-! ## Totality on the builtin locator: every access is inside the data -/

theorem range_builtin_ok (b : Bytes) (i j : Nat) (h1 : i ≤ j) (h2 : j ≤ b.length) :
    (Loc.builtin b).range i j = .ok (slice b i j) := by simp [Loc.range, h1, h2]

theorem at_builtin_ok (b : Bytes) (i : Nat) (h : i < b.length) :
    ∃ x, (Loc.builtin b).at i = .ok x := by
  simp only [Loc.at]; rw [List.getElem?_eq_getElem h]; exact ⟨_, rfl⟩

theorem sniLoop_builtin_err (b : Bytes) (iNext j : Nat) (h : iNext ≤ b.length) (e : Err) :
    sniLoop (.builtin b) iNext j = .error e → e = .notApplicable := by
  fun_induction sniLoop (.builtin b) iNext j with
  | case1 j hj e' hr =>
    rw [range_builtin_ok b j (j+3) (by omega) (by omega)] at hr
    cases hr
  | case2 j hj bb hr typ l ht ih => exact ih
  | case3 => intro h; cases h; rfl
  | case4 j hj nm hr typ l ht hl e' hr2 =>
    rw [range_builtin_ok b _ _ (by omega) (by omega)] at hr2
    cases hr2
  | case5 => intro h; cases h
  | case6 => intro h; cases h

theorem findSniFrom_builtin_err (b : Bytes) (i : Nat) (e : Err) :
    findSniFrom (.builtin b) i = .error e → e = .notApplicable ∨ e = .notFound := by
  fun_induction findSniFrom (.builtin b) i with
  | case1 => intro h; cases h; right; rfl
  | case2 i h1 e' hr =>
    simp only [Loc.len] at h1
    rw [range_builtin_ok b _ _ (by omega) (by omega)] at hr
    cases hr
  | case3 => intro h; cases h; left; rfl
  | case4 => intro h; cases h; left; rfl
  | case5 i h1 nm hr typ extLength iNext h2 ht hl e' hr2 =>
    simp only [Loc.len] at h1 h2
    rw [range_builtin_ok b _ _ (by omega) (by omega)] at hr2
    cases hr2
  | case6 => intro h; cases h; left; rfl
  | case7 i h1 nm hr typ extLength iNext h2 ht hl nm2 hr2 sniLen hs e' hloop =>
    simp only [Loc.len] at h1 h2
    intro h; cases h
    left
    exact sniLoop_builtin_err b iNext (i + 6) (by omega) _ hloop
  | case8 => intro h; cases h
  | case9 _ _ _ _ _ _ _ _ _ _ _ _ _ _ _ ih => exact ih
  | case10 _ _ _ _ _ _ _ _ _ ih => exact ih

theorem sliceLoc_builtin_ok (b : Bytes) (i j : Nat) (h1 : i ≤ j) (h2 : j ≤ b.length) :
    (Loc.builtin b).sliceLoc i j = .ok (.builtin (slice b i j)) := by simp [Loc.sliceLoc, h1, h2]

theorem extractSni_builtin_err (b : Bytes) (e : Err) :
    extractSni (.builtin b) = .error e → e = .notApplicable ∨ e = .notFound := by
  unfold extractSni
  have hlen : (Loc.builtin b).len = b.length := rfl
  intro h
  split at h
  · cases h; left; rfl
  rename_i h39
  rw [range_builtin_ok b 0 6 (by omega) (by omega)] at h
  simp only [] at h
  split at h
  · cases h; left; rfl
  split at h
  · cases h; left; rfl
  obtain ⟨sid, hsid⟩ := at_builtin_ok b 38 (by omega)
  rw [hsid] at h; simp only [] at h
  split at h
  · cases h; left; rfl
  rename_i hb1
  rw [range_builtin_ok b _ _ (by omega) (by omega)] at h
  simp only [] at h
  split at h
  · cases h; left; rfl
  rename_i hb2
  obtain ⟨cm, hcm⟩ := at_builtin_ok b (39 + sid + 2 + be16 (List.getD (slice b (39 + sid + 2 - 2) (39 + sid + 2)) 0 0)
    (List.getD (slice b (39 + sid + 2 - 2) (39 + sid + 2)) 1 0) + 1 - 1) (by omega)
  rw [hcm] at h; simp only [] at h
  split at h
  · cases h; left; rfl
  rename_i hb3
  rw [range_builtin_ok b _ _ (by omega) (by omega)] at h
  simp only [] at h
  split at h
  · cases h; left; rfl
  rename_i hb4
  rw [sliceLoc_builtin_ok b _ _ (by omega) (by omega)] at h
  simp only [] at h
  exact findSniFrom_builtin_err _ 0 e h


/-! ## Soundness: the reported name is a host_name entry of the input -/

theorem slice_getD (b : Bytes) (i j k : Nat) (h : i + k < j) (_hj : j ≤ b.length) :
    (slice b i j).getD k 0 = b.getD (i + k) 0 := by
  unfold slice
  simp only [List.getD_eq_getElem?_getD]
  rw [List.getElem?_take_of_lt (by omega), List.getElem?_drop]

theorem slice_slice (b : Bytes) (a c p q : Nat) (hq : q ≤ c - a) :
    slice (slice b a c) p q = slice b (a + p) (a + q) := by
  unfold slice
  rw [List.drop_take, List.take_take, List.drop_drop]
  congr 1
  omega


theorem sniLoop_builtin_sound (x : Bytes) (iNext j : Nat) (h : iNext ≤ x.length) (d : Bytes) :
    sniLoop (.builtin x) iNext j = .ok (some d) → CarriedIn x d := by
  fun_induction sniLoop (.builtin x) iNext j with
  | case1 => intro h; cases h
  | case2 j hj bb hr typ l ht ih => exact ih
  | case3 => intro h; cases h
  | case4 => intro h; cases h
  | case5 j hj b3 hr typ l ht hl nm hr2 =>
    intro hd
    rw [range_builtin_ok x _ _ (by omega) (by omega)] at hr hr2
    cases hr; cases hr2
    simp only [Except.ok.injEq, Option.some.injEq] at hd
    refine ⟨j, l, by omega, ?_, ?_, hd.symm⟩
    · have := slice_getD x j (j + 3) 0 (by omega) (by omega)
      simp only [Nat.add_zero] at this
      rw [← this]
      simpa [typ] using ht
    · simp only [l]
      rw [slice_getD x j (j + 3) 1 (by omega) (by omega), slice_getD x j (j + 3) 2 (by omega) (by omega)]
  | case6 => intro h; cases h

theorem findSniFrom_builtin_sound (x : Bytes) (i : Nat) (d : Bytes) :
    findSniFrom (.builtin x) i = .ok d → CarriedIn x d := by
  fun_induction findSniFrom (.builtin x) i with
  | case1 => intro h; cases h
  | case2 => intro h; cases h
  | case3 => intro h; cases h
  | case4 => intro h; cases h
  | case5 => intro h; cases h
  | case6 => intro h; cases h
  | case7 => intro h; cases h
  | case8 i h1 nm hr typ extLength iNext h2 ht hl nm2 hr2 sniLen hs nm3 hloop =>
    simp only [Loc.len] at h1 h2
    intro h; cases h
    exact sniLoop_builtin_sound x iNext (i + 6) (by omega) _ hloop
  | case9 _ _ _ _ _ _ _ _ _ _ _ _ _ _ _ ih => exact ih
  | case10 _ _ _ _ _ _ _ _ _ ih => exact ih

theorem carriedIn_slice (b : Bytes) (a c : Nat) (d : Bytes) (hc : c ≤ b.length) :
    CarriedIn (slice b a c) d → CarriedIn b d := by
  rintro ⟨k, n, hk, h0, hl, hd⟩
  rw [slice_length b a c hc] at hk
  refine ⟨a + k, n, by omega, ?_, ?_, ?_⟩
  · rw [← slice_getD b a c k (by omega) hc]; exact h0
  · rw [show a + k + 1 = a + (k + 1) by omega, show a + k + 2 = a + (k + 2) by omega,
      ← slice_getD b a c (k + 1) (by omega) hc, ← slice_getD b a c (k + 2) (by omega) hc]; exact hl
  · rw [hd, slice_slice b a c _ _ (by omega)]
    congr 2 <;> omega

theorem extractSni_builtin_sound (b : Bytes) (d : Bytes) :
    extractSni (.builtin b) = .ok d → CarriedIn b d := by
  unfold extractSni
  have hlen : (Loc.builtin b).len = b.length := rfl
  intro h
  split at h
  · cases h
  rename_i h39
  rw [range_builtin_ok b 0 6 (by omega) (by omega)] at h
  simp only [] at h
  split at h
  · cases h
  split at h
  · cases h
  obtain ⟨sid, hsid⟩ := at_builtin_ok b 38 (by omega)
  rw [hsid] at h; simp only [] at h
  split at h
  · cases h
  rename_i hb1
  rw [range_builtin_ok b _ _ (by omega) (by omega)] at h
  simp only [] at h
  split at h
  · cases h
  rename_i hb2
  obtain ⟨cm, hcm⟩ := at_builtin_ok b (39 + sid + 2 + be16 (List.getD (slice b (39 + sid + 2 - 2) (39 + sid + 2)) 0 0)
    (List.getD (slice b (39 + sid + 2 - 2) (39 + sid + 2)) 1 0) + 1 - 1) (by omega)
  rw [hcm] at h; simp only [] at h
  split at h
  · cases h
  rename_i hb3
  rw [range_builtin_ok b _ _ (by omega) (by omega)] at h
  simp only [] at h
  split at h
  · cases h
  rename_i hb4
  rw [sliceLoc_builtin_ok b _ _ (by omega) (by omega)] at h
  simp only [] at h
  exact carriedIn_slice b _ _ d (by omega) (findSniFrom_builtin_sound _ 0 d h)


/-! ## Records, prefixes of records, chunked delivery -/

theorem record_length (rm : Nat) (hs : Bytes) : (record rm hs).length = 5 + hs.length := by
  simp [record, u16]; omega

theorem sniffTls_record_append (rm : Nat) (hs extra : Bytes) :
    sniffTls (record rm hs ++ extra) = extractSni (.builtin hs) := by
  unfold sniffTls
  have e : record rm hs ++ extra = 22 :: 3 :: rm :: (hs.length / 256) :: (hs.length % 256) :: (hs ++ extra) := by
    simp [record, u16]
  rw [e]
  simp only [List.length_cons, List.getD_cons_zero, List.getD_cons_succ, be16_u16, List.drop_succ_cons, List.drop_zero]
  rw [if_neg (by omega), if_neg (by simp), if_neg (by simp)]
  simp

theorem sniffTls_record_prefix (rm : Nat) (hs : Bytes) (k : Nat) (h5 : 5 ≤ k)
    (hk : k < (record rm hs).length) : sniffTls ((record rm hs).take k) = .error .needMore := by
  rw [record_length] at hk
  obtain ⟨m, rfl⟩ : ∃ m, k = 5 + m := ⟨k - 5, by omega⟩
  have e : (record rm hs).take (5 + m) = 22 :: 3 :: rm :: (hs.length / 256) :: (hs.length % 256) :: hs.take m := by
    simp [record, u16, show 5 + m = m + 1 + 1 + 1 + 1 + 1 by omega]
  unfold sniffTls
  rw [e]
  simp only [List.length_cons, List.getD_cons_zero, List.getD_cons_succ, be16_u16, List.drop_succ_cons, List.drop_zero]
  rw [if_neg (by omega), if_neg (by simp), if_pos (by simp; omega)]


theorem sniffHttp_record (rm : Nat) (hs extra : Bytes) :
    sniffHttp (record rm hs ++ extra) = .error .notApplicable := by
  simp [record, sniffHttp, isPrintByte]

theorem sniffGroupTcp_record (rm : Nat) (hs extra : Bytes) :
    sniffGroupTcp (record rm hs ++ extra) = tlsAnswer hs := by
  unfold sniffGroupTcp tlsAnswer
  rw [sniffTls_record_append, sniffHttp_record]
  cases h : extractSni (.builtin hs) with
  | ok d => rfl
  | error e => cases e <;> rfl

theorem tlsAnswer_ne_needMore (hs : Bytes) : tlsAnswer hs ≠ .error .needMore := by
  unfold tlsAnswer
  cases h : extractSni (.builtin hs) with
  | ok d => simp
  | error e =>
    rcases extractSni_builtin_err hs e h with rfl | rfl <;> simp

theorem sniffGroupTcp_prefix (rm : Nat) (hs : Bytes) (k : Nat) (h5 : 5 ≤ k)
    (hk : k < (record rm hs).length) : sniffGroupTcp ((record rm hs).take k) = .error .needMore := by
  unfold sniffGroupTcp
  rw [sniffTls_record_prefix rm hs k h5 hk]

theorem sniffLoop_chunks (rm : Nat) (hs : Bytes) (chunks : List Bytes) (buf extra : Bytes)
    (tail : List Ev) (nm : Bool)
    (hflat : buf ++ chunks.flatten = record rm hs ++ extra)
    (hbuf : buf.length < (record rm hs).length)
    (h5 : (buf = [] ∧ ∃ c cs, chunks = c :: cs ∧ 5 ≤ c.length) ∨ 5 ≤ buf.length) :
    (sniffLoop buf nm (chunks.map Ev.data ++ tail)).result = tlsAnswer hs := by
  induction chunks generalizing buf nm with
  | nil =>
    simp at hflat
    rw [hflat] at hbuf
    simp at hbuf
    omega
  | cons c cs ih =>
    have hne : buf ++ c ≠ [] := by
      rcases h5 with ⟨_, c', cs', hc, hl⟩ | h
      · cases hc; intro h0; simp at h0; rw [h0.2] at hl; simp at hl
      · intro h0; simp at h0; rw [h0.1] at h; simp at h
    have h5' : 5 ≤ (buf ++ c).length := by
      rcases h5 with ⟨hb, c', cs', hc, hl⟩ | h
      · cases hc; simp [hb]; exact hl
      · simp; omega
    have hflat' : (buf ++ c) ++ cs.flatten = record rm hs ++ extra := by
      simpa [List.append_assoc] using hflat
    simp only [List.map_cons, List.cons_append]
    rw [sniffLoop, if_neg hne]
    by_cases hlt : (buf ++ c).length < (record rm hs).length
    · have hpre : buf ++ c = (record rm hs).take (buf ++ c).length := by
        have h1 : ((buf ++ c) ++ cs.flatten).take (buf ++ c).length = buf ++ c := List.take_left' rfl
        rw [hflat', List.take_append_of_le_length (by omega)] at h1
        exact h1.symm
      rw [hpre, sniffGroupTcp_prefix rm hs _ h5' hlt]
      simp only []
      rw [← hpre]
      exact ih (buf ++ c) true hflat' hlt (Or.inr h5')
    · have hsplit : buf ++ c = record rm hs ++ (buf ++ c).drop (record rm hs).length := by
        have h1 : ((buf ++ c) ++ cs.flatten).take (record rm hs).length = (buf ++ c).take (record rm hs).length := by
          rw [List.take_append_of_le_length (by omega)]
        rw [hflat'] at h1
        simp at h1
        conv => lhs; rw [← List.take_append_drop (record rm hs).length (buf ++ c)]
        rw [← h1]
      rw [hsplit, sniffGroupTcp_record]
      have := tlsAnswer_ne_needMore hs
      split
      · rename_i heq; exact absurd heq this
      · rfl


/-! ## HTTP heads -/

theorem noCRLF_tail (x : Nat) (l : Bytes) (h : noCRLF (x :: l) = true) : noCRLF l = true := by
  unfold noCRLF at h
  split at h
  · rename_i heq; cases heq
  · cases h
  · rename_i _ heq; cases heq; exact h

theorem noCRLF_not_head (l : Bytes) : noCRLF (13 :: 10 :: l) = false := by
  unfold noCRLF; rfl

theorem splitLinesAux_step (acc : Bytes) (x : Nat) (r : Bytes) (h : ¬ (x = 13 ∧ ∃ t, r = 10 :: t)) :
    splitLinesAux acc (x :: r) = splitLinesAux (x :: acc) r := by
  rw [splitLinesAux]
  intro t h1 h2
  exact h ⟨h1, t, h2⟩

theorem splitLinesAux_line (l : Bytes) (acc rest : Bytes) (h : noCRLF l = true) :
    splitLinesAux acc (l ++ 13 :: 10 :: rest) = (acc.reverse ++ l) :: splitLinesAux [] rest := by
  induction l generalizing acc with
  | nil => simp [splitLinesAux]
  | cons x l ih =>
    have hl := noCRLF_tail x l h
    have step : splitLinesAux acc ((x :: l) ++ 13 :: 10 :: rest) = splitLinesAux (x :: acc) (l ++ 13 :: 10 :: rest) := by
      apply splitLinesAux_step
      rintro ⟨hx, t, ht⟩
      subst hx
      cases l with
      | nil => simp at ht
      | cons y l' =>
        simp at ht
        rw [ht.1, noCRLF_not_head] at h
        cases h
    rw [step, ih (x :: acc) hl]
    simp

theorem splitLinesAux_ne_nil (acc d : Bytes) : splitLinesAux acc d ≠ [] := by
  fun_induction splitLinesAux acc d <;> simp_all

theorem splitLines_line (l rest : Bytes) (h : noCRLF l = true) :
    splitLines (l ++ crlf ++ rest) = l :: splitLines rest := by
  unfold splitLines
  have := splitLinesAux_line l [] rest h
  simpa [crlf] using this

theorem cutByte_append (sep : Nat) (k v : Bytes) (h : sep ∉ k) : cutByte sep (k ++ sep :: v) = some (k, v) := by
  induction k with
  | nil => simp [cutByte]
  | cons x k ih =>
    have hx : x ≠ sep := by intro e; subst e; simp at h
    have hk : sep ∉ k := by intro e; exact h (List.mem_cons_of_mem _ e)
    simp [cutByte, hx, ih hk]

theorem encodeHeaders_lines (hs : List (Bytes × Bytes)) (rest : Bytes)
    (hok : ∀ kv ∈ hs, noCRLF (kv.1 ++ [58] ++ kv.2) = true) :
    splitLines (encodeHeaders hs ++ rest) = hs.map (fun kv => kv.1 ++ [58] ++ kv.2) ++ splitLines rest := by
  induction hs with
  | nil => simp [encodeHeaders]
  | cons kv hs ih =>
    obtain ⟨k, v⟩ := kv
    have h1 := hok (k, v) (List.mem_cons_self)
    have e : encodeHeaders ((k, v) :: hs) ++ rest = (k ++ [58] ++ v) ++ crlf ++ (encodeHeaders hs ++ rest) := by
      simp [encodeHeaders, List.append_assoc]
    rw [e, splitLines_line _ _ h1, ih (fun kv hkv => hok kv (List.mem_cons_of_mem _ hkv))]
    simp

theorem head_header_line (k v : Bytes) (c : Nat) (hc : c ≠ 58) (h : k.head? ≠ some c) :
    (k ++ [58] ++ v).head? ≠ some c := by
  cases k with
  | nil => simp; exact fun e => hc e.symm
  | cons x xs => simpa using h

theorem hostFromLines_headers (hs : List (Bytes × Bytes)) (tail : List Bytes)
    (hk : ∀ kv ∈ hs, 58 ∉ kv.1 ∧ kv.1.head? ≠ some 32 ∧ kv.1.head? ≠ some 9) :
    hostFromLines (hs.map (fun kv => kv.1 ++ [58] ++ kv.2) ++ [] :: tail) = hostSpec hs := by
  induction hs with
  | nil => simp [hostFromLines, hostSpec]
  | cons kv hs ih =>
    obtain ⟨k, v⟩ := kv
    obtain ⟨h58, hsp, htab⟩ := hk (k, v) List.mem_cons_self
    have hc : cutByte 58 (k ++ [58] ++ v) = some (k, v) := by
      have := cutByte_append 58 k v h58
      simpa using this
    simp only [List.map_cons, List.cons_append]
    rw [hostFromLines, if_neg (by simp),
      if_neg (by
        intro h
        rcases h with h | h
        · exact head_header_line k v 32 (by decide) hsp h
        · exact head_header_line k v 9 (by decide) htab h), hc]
    simp only [hostSpec]
    rw [ih (fun kv hkv => hk kv (List.mem_cons_of_mem _ hkv))]

theorem httpMethods_eq : httpMethods = [[71,69,84],[80,79,83,84],[80,85,84],[80,65,84,67,72],[68,69,76,69,84,69],[67,79,80,89],[72,69,65,68],[79,80,84,73,79,78,83],[76,73,78,75],[85,78,76,73,78,75],[80,85,82,71,69],[76,79,67,75],[85,78,76,79,67,75],[80,82,79,80,70,73,78,68],[67,79,78,78,69,67,84],[84,82,65,67,69]] := by decide

/-- Facts about the sixteen method tokens (checked by evaluation). -/
theorem method_facts (m : Bytes) (hm : m ∈ httpMethods) :
    m.dropWhile isAsciiSpace = m ∧ m.reverse.dropWhile isAsciiSpace = m.reverse ∧ m ≠ [] ∧
    58 ∉ m ∧ 32 ∉ m ∧ m.length ≤ 11 ∧ (lower m).isPrefixOf [104, 111, 115, 116] = false ∧
    (∃ c r, m = c :: r ∧ isPrintByte c = true ∧ c ≠ 32 ∧ c ≠ 9) := by
  rw [httpMethods_eq] at hm
  simp only [List.mem_cons, List.not_mem_nil, or_false] at hm
  rcases hm with rfl | rfl | rfl | rfl | rfl | rfl | rfl | rfl | rfl | rfl | rfl | rfl | rfl | rfl | rfl | rfl <;>
    exact ⟨by decide, by decide, by decide, by decide, by decide, by decide, by decide, ⟨_, _, rfl, by decide, by decide, by decide⟩⟩

theorem cutByte_prefix (sep : Nat) (a b k v : Bytes) (ha : sep ∉ a)
    (h : cutByte sep (a ++ b) = some (k, v)) : ∃ k', k = a ++ k' := by
  induction a generalizing k v with
  | nil => exact ⟨k, rfl⟩
  | cons x a ih =>
    have hx : x ≠ sep := by intro e; subst e; simp at ha
    have hk : sep ∉ a := by intro e; exact ha (List.mem_cons_of_mem _ e)
    simp only [List.cons_append, cutByte, hx, if_false] at h
    cases hc : cutByte sep (a ++ b) with
    | none => rw [hc] at h; cases h
    | some kv =>
      obtain ⟨k1, v1⟩ := kv
      rw [hc] at h
      simp only [Option.some.injEq, Prod.mk.injEq] at h
      obtain ⟨k', hk'⟩ := ih k1 v1 hk hc
      exact ⟨k', by rw [← h.1, hk']; rfl⟩

theorem trimSpace_method_prefix (m w : Bytes) (hm : m ∈ httpMethods) :
    ∃ w', trimSpace (m ++ w) = m ++ w' := by
  obtain ⟨h1, h2, hne, _, _, _, _, _⟩ := method_facts m hm
  unfold trimSpace dropRightWhile
  have e1 : (m ++ w).dropWhile isAsciiSpace = m ++ w := by
    rw [List.dropWhile_append, h1]
    cases m with
    | nil => exact absurd rfl hne
    | cons c r => simp
  rw [e1, List.reverse_append, List.dropWhile_append]
  split
  · rw [h2]; exact ⟨[], by simp⟩
  · exact ⟨(w.reverse.dropWhile isAsciiSpace).reverse, by simp⟩

theorem lower_append (a b : Bytes) : lower (a ++ b) = lower a ++ lower b := by simp [lower]

theorem method_line_not_host (m t k v : Bytes) (hm : m ∈ httpMethods)
    (h : cutByte 58 (m ++ 32 :: t) = some (k, v)) : isHostKey (trimSpace k) = false := by
  obtain ⟨_, _, _, h58, _, _, hpre, _⟩ := method_facts m hm
  obtain ⟨k', rfl⟩ := cutByte_prefix 58 m (32 :: t) k v h58 h
  obtain ⟨w', hw'⟩ := trimSpace_method_prefix m k' hm
  rw [hw']
  unfold isHostKey
  rw [lower_append]
  cases hb : (lower m ++ lower w' == [104, 111, 115, 116]) with
  | false => rfl
  | true =>
    have heq : lower m ++ lower w' = [104, 111, 115, 116] := by simpa using hb
    have : (lower m).isPrefixOf [104, 111, 115, 116] = true := by
      rw [List.isPrefixOf_iff_prefix]; exact ⟨lower w', heq⟩
    rw [this] at hpre; cases hpre

theorem hostFromLines_reqline (m t : Bytes) (rest : List Bytes) (hm : m ∈ httpMethods) :
    hostFromLines ((m ++ 32 :: t) :: rest) = hostFromLines rest := by
  obtain ⟨_, _, _, _, _, _, _, c, r, hcr, _, hc32, hc9⟩ := method_facts m hm
  have hhead : ¬ ((m ++ 32 :: t).head? = some 32 ∨ (m ++ 32 :: t).head? = some 9) := by
    rw [hcr]
    simp only [List.cons_append, List.head?_cons, Option.some.injEq]
    intro h
    rcases h with h | h
    · exact hc32 h
    · exact hc9 h
  rw [hostFromLines, if_neg (by simp), if_neg hhead]
  cases hc : cutByte 58 (m ++ 32 :: t) with
  | none => rfl
  | some kv =>
    obtain ⟨k, v⟩ := kv
    simp only []
    rw [method_line_not_host m t k v hm hc]
    simp


theorem sniffHttp_encodeHead (h : HttpHead) (hwf : h.WF) :
    sniffHttp (encodeHead h) = hostSpec h.headers := by
  obtain ⟨hm, hreq, hhd⟩ := hwf
  obtain ⟨_, _, hne, _, h32, hlen, _, c, r, hcr, hprint, _, _⟩ := method_facts h.method hm
  have e0 : encodeHead h = h.method ++ 32 :: (h.target ++ crlf ++ encodeHeaders h.headers ++ crlf ++ h.body) := by
    simp [encodeHead, List.append_assoc]
  have hcut : cutByte 32 ((encodeHead h).take 12) = some (h.method, ((h.target ++ crlf ++ encodeHeaders h.headers ++ crlf ++ h.body)).take (11 - h.method.length)) := by
    rw [e0, List.take_append, List.take_of_length_le (by omega)]
    have : 12 - h.method.length = (11 - h.method.length) + 1 := by omega
    rw [this, List.take_succ_cons]
    exact cutByte_append 32 _ _ h32
  have hlines : splitLines (encodeHead h)
      = (h.method ++ 32 :: h.target) :: (h.headers.map (fun kv => kv.1 ++ [58] ++ kv.2) ++ [] :: splitLines h.body) := by
    have e1 : encodeHead h = (h.method ++ [32] ++ h.target) ++ crlf ++ (encodeHeaders h.headers ++ (crlf ++ h.body)) := by
      simp [encodeHead, List.append_assoc]
    rw [e1, splitLines_line _ _ hreq, encodeHeaders_lines _ _ (fun kv hkv => (hhd kv hkv).1)]
    have e2 : crlf ++ h.body = [] ++ crlf ++ h.body := by simp
    rw [e2, splitLines_line [] _ rfl]
    simp
  unfold sniffHttp
  rw [e0, hcr]
  simp only [List.cons_append]
  rw [← List.cons_append, ← hcr, ← e0, hprint]
  simp only [Bool.not_true, Bool.false_eq_true, if_false]
  rw [hcut]
  simp only []
  rw [if_pos (by simpa using hm)]
  have hbody : splitLines h.body ≠ [] := splitLinesAux_ne_nil [] h.body
  rw [hlines, List.dropLast_cons_of_ne_nil (by simp), List.dropLast_append_of_ne_nil (by simp),
    List.dropLast_cons_of_ne_nil hbody,
    hostFromLines_reqline _ _ _ hm, hostFromLines_headers _ _ (fun kv hkv => (hhd kv hkv).2)]


/-! ## Soundness for any locator that only ever hands out bytes of `S` -/

/-- Every successful `Range(i, j)` of `s` is the slice `[off+i, off+j)` of `S`. -/
def SoundAt (s : Loc) (S : Bytes) (off : Nat) : Prop :=
  ∀ i j x, s.range i j = .ok x → i ≤ j → x = slice S (off + i) (off + j) ∧ (i < j → off + j ≤ S.length)

theorem sniLoop_sound (s : Loc) (S : Bytes) (off : Nat) (hs : SoundAt s S off) (iNext j : Nat) (d : Bytes) :
    sniLoop s iNext j = .ok (some d) → CarriedIn S d := by
  fun_induction sniLoop s iNext j with
  | case1 => intro h; cases h
  | case2 j hj bb hr typ l ht ih => exact ih
  | case3 => intro h; cases h
  | case4 => intro h; cases h
  | case5 j hj b3 hr typ l ht hl nm hr2 =>
    intro hd
    obtain ⟨e1, b1⟩ := hs _ _ _ hr (by omega)
    obtain ⟨e2, b2⟩ := hs _ _ _ hr2 (by omega)
    have hb1 := b1 (by omega)
    simp only [Except.ok.injEq, Option.some.injEq] at hd
    have htyp : S.getD (off + j) 0 = 0 := by
      have := slice_getD S (off + j) (off + (j + 3)) 0 (by omega) hb1
      simp only [Nat.add_zero] at this
      rw [← this, ← e1]
      simpa [typ] using ht
    have hl' : be16 (S.getD (off + j + 1) 0) (S.getD (off + j + 2) 0) = l := by
      simp only [l]
      rw [e1, slice_getD S (off + j) (off + (j + 3)) 1 (by omega) hb1,
        slice_getD S (off + j) (off + (j + 3)) 2 (by omega) hb1]
    refine ⟨off + j, l, ?_, htyp, hl', ?_⟩
    · by_cases h0 : l = 0
      · omega
      · have := b2 (by omega); omega
    · rw [← hd, e2]
      congr 2 <;> omega
  | case6 => intro h; cases h

theorem findSniFrom_sound (s : Loc) (S : Bytes) (off : Nat) (hs : SoundAt s S off) (i : Nat) (d : Bytes) :
    findSniFrom s i = .ok d → CarriedIn S d := by
  fun_induction findSniFrom s i with
  | case1 => intro h; cases h
  | case2 => intro h; cases h
  | case3 => intro h; cases h
  | case4 => intro h; cases h
  | case5 => intro h; cases h
  | case6 => intro h; cases h
  | case7 => intro h; cases h
  | case8 i h1 nm hr typ extLength iNext h2 ht hl nm2 hr2 sniLen hs' nm3 hloop =>
    intro h; cases h
    exact sniLoop_sound s S off hs iNext (i + 6) _ hloop
  | case9 _ _ _ _ _ _ _ _ _ _ _ _ _ _ _ ih => exact ih
  | case10 _ _ _ _ _ _ _ _ _ ih => exact ih

theorem extractSni_sound (s : Loc) (S : Bytes)
    (hsl : ∀ a b s', s.sliceLoc a b = .ok s' → SoundAt s' S a) (d : Bytes) :
    extractSni s = .ok d → CarriedIn S d := by
  unfold extractSni
  intro h
  split at h
  · cases h
  split at h
  · cases h
  try simp only [] at h
  split at h
  · cases h
  split at h
  · cases h
  split at h
  · cases h
  try simp only [] at h
  split at h
  · cases h
  split at h
  · cases h
  try simp only [] at h
  split at h
  · cases h
  split at h
  · cases h
  try simp only [] at h
  split at h
  · cases h
  split at h
  · cases h
  try simp only [] at h
  split at h
  · cases h
  split at h
  · cases h
  rename_i exts hexts
  exact findSniFrom_sound exts S _ (hsl _ _ _ hexts) 0 d h

theorem soundAt_builtin_slice (b : Bytes) (a c : Nat) (s' : Loc)
    (h : (Loc.builtin b).sliceLoc a c = .ok s') : SoundAt s' b a := by
  simp only [Loc.sliceLoc] at h
  split at h
  · rename_i hc
    cases h
    intro i j x hx hij
    simp only [Loc.range] at hx
    split at hx
    · rename_i hj
      cases hx
      rw [slice_length b a c hc.2] at hj
      exact ⟨slice_slice b a c i j hj.2, fun _ => by omega⟩
    · cases hx
  · cases h

theorem extractSni_builtin_sound' (b d : Bytes) : extractSni (.builtin b) = .ok d → CarriedIn b d :=
  extractSni_sound (.builtin b) b (soundAt_builtin_slice b) d


/-! ## The linear locator over blocks that are slices of one stream -/


theorem slice_append_slice (S : Bytes) (a b c : Nat) (h1 : a ≤ b) (h2 : b ≤ c) (_h3 : c ≤ S.length) :
    slice S a b ++ slice S b c = slice S a c := by
  unfold slice
  have e : List.drop b S = List.drop (b - a) (List.drop a S) := by rw [List.drop_drop]; congr 1; omega
  rw [e]
  have : c - a = (b - a) + (c - b) := by omega
  rw [this, List.take_add]

theorem drop_slice (S : Bytes) (a b k : Nat) : (slice S a b).drop k = slice S (a + k) b := by
  unfold slice
  rw [List.drop_take, List.drop_drop]
  congr 1
  omega

theorem gather_sound (S : Bytes) (cur : Block) (rest : List Block) (i j : Nat) (x : Bytes)
    (hc : Within S cur) (hr : ∀ b ∈ rest, Within S b) (hi : cur.off ≤ i) (hi2 : i ≤ cur.stop) (hij : i ≤ j)
    (h : gather cur rest i j = .ok x) : x = slice S i j ∧ j ≤ max cur.stop S.length ∧ (cur.stop < j → j ≤ S.length) := by
  induction rest generalizing cur i x with
  | nil =>
    unfold gather at h
    split at h
    · rename_i hj
      cases h
      refine ⟨?_, by omega, by omega⟩
      rw [hc.2, slice_slice S cur.off cur.stop _ _ (by omega)]
      congr 1 <;> omega
    · cases h
  | cons nx rest ih =>
    unfold gather at h
    split at h
    · rename_i hj
      cases h
      refine ⟨?_, by omega, by omega⟩
      rw [hc.2, slice_slice S cur.off cur.stop _ _ (by omega)]
      congr 1 <;> omega
    · rename_i hj
      split at h
      · rename_i heq; cases heq
      · rename_i nx' rest' heq
        cases heq
        split at h
        · rename_i hadj
          split at h
          · rename_i r hg
            cases h
            have hnx := hr nx List.mem_cons_self
            have hb : nx.off ≤ nx.stop := by unfold Block.stop; omega
            obtain ⟨e, _, hle⟩ := ih nx nx.off r hnx (fun b hb => hr b (List.mem_cons_of_mem _ hb))
              (Nat.le_refl _) hb (by omega) hg
            have hjS : j ≤ S.length := by
              by_cases hq : nx.stop < j
              · exact hle hq
              · have := hnx.1; omega
            refine ⟨?_, by omega, fun _ => hjS⟩
            rw [e, hc.2, drop_slice, ← hadj]
            rw [show cur.off + (i - cur.off) = i by omega]
            exact slice_append_slice S i cur.stop j hi2 (by omega) hjS
          · cases h
        · cases h

theorem locate_spec (blocks : List Block) (p : Nat) (cur : Block) (rest : List Block)
    (h : locate blocks p = some (cur, rest)) :
    p < cur.stop ∧ cur ∈ blocks ∧ ∀ b ∈ rest, b ∈ blocks := by
  induction blocks with
  | nil => cases h
  | cons b bs ih =>
    unfold locate at h
    split at h
    · rename_i hp
      cases h
      exact ⟨hp, List.mem_cons_self, fun b hb => List.mem_cons_of_mem _ hb⟩
    · obtain ⟨h1, h2, h3⟩ := ih h
      exact ⟨h1, List.mem_cons_of_mem _ h2, fun b hb => List.mem_cons_of_mem _ (h3 b hb)⟩

theorem linRange_sound (S : Bytes) (blocks : List Block) (hw : ∀ b ∈ blocks, Within S b)
    (i j : Nat) (x : Bytes) (hij : i < j) (h : linRange blocks i j = .ok x) :
    x = slice S i j ∧ j ≤ S.length := by
  unfold linRange at h
  split at h
  · cases h
  · rename_i cur rest hloc
    obtain ⟨hp, hcur, hrest⟩ := locate_spec blocks i cur rest hloc
    split at h
    · cases h
    · rename_i hoff
      obtain ⟨e, hm, hl⟩ := gather_sound S cur rest i j x (hw cur hcur) (fun b hb => hw b (hrest b hb))
        (by omega) (by omega) (by omega) h
      refine ⟨e, ?_⟩
      have := (hw cur hcur).1
      by_cases hq : cur.stop < j
      · exact hl hq
      · omega

theorem soundAt_linear (S : Bytes) (blocks : List Block) (hw : ∀ b ∈ blocks, Within S b) (left len : Nat) :
    SoundAt (.linear blocks left len) S left := by
  intro i j x hx hij
  simp only [Loc.range] at hx
  split at hx
  · rename_i heq
    cases hx
    subst heq
    refine ⟨?_, fun h => absurd h (Nat.lt_irrefl _)⟩
    unfold slice; simp
  · rename_i hne
    obtain ⟨e, hl⟩ := linRange_sound S blocks hw (i + left) (j + left) x (by omega) hx
    refine ⟨?_, fun _ => by omega⟩
    rw [e, Nat.add_comm i, Nat.add_comm j]

/-- QUIC soundness: whatever CRYPTO blocks have been collected, as long as each is a slice of the
client's CRYPTO stream `S`, a reported name is a host_name entry of `S`. -/
theorem extractSni_linear_sound (S : Bytes) (blocks : List Block) (hw : ∀ b ∈ blocks, Within S b) (d : Bytes) :
    extractSni (newLinear blocks) = .ok d → CarriedIn S d := by
  apply extractSni_sound
  intro a b s' hs'
  unfold newLinear at hs'
  split at hs'
  · simp only [Loc.sliceLoc] at hs'
    cases hs'
    simpa using soundAt_linear S [] (by simp) (0 + a) (b - a + 1)
  · simp only [Loc.sliceLoc] at hs'
    cases hs'
    simpa using soundAt_linear S blocks hw (0 + a) (b - a + 1)


/-! ## CRYPTO reassembly: sort + merge -/

theorem mem_insertBlock (x y : Block) (l : List Block) : y ∈ insertBlock x l ↔ y = x ∨ y ∈ l := by
  induction l with
  | nil => simp [insertBlock]
  | cons z zs ih =>
    unfold insertBlock
    split
    · simp
    · simp [ih]
      constructor <;> (intro h; rcases h with h | h | h <;> simp [h])

theorem mem_sortBlocks (y : Block) (l : List Block) : y ∈ sortBlocks l ↔ y ∈ l := by
  induction l with
  | nil => simp [sortBlocks]
  | cons z zs ih => simp [sortBlocks, mem_insertBlock, ih]

def SortedOff (l : List Block) : Prop := l.Pairwise (fun a b => a.off ≤ b.off)

theorem sorted_insertBlock (x : Block) (l : List Block) (h : SortedOff l) : SortedOff (insertBlock x l) := by
  induction l with
  | nil => simp [insertBlock, SortedOff]
  | cons z zs ih =>
    unfold SortedOff at h ih ⊢
    rw [List.pairwise_cons] at h
    unfold insertBlock
    split
    · rename_i hle
      rw [List.pairwise_cons]
      refine ⟨?_, List.pairwise_cons.mpr h⟩
      intro b hb
      rcases List.mem_cons.mp hb with rfl | hb
      · exact hle
      · exact Nat.le_trans hle (h.1 b hb)
    · rename_i hle
      rw [List.pairwise_cons]
      refine ⟨?_, ih h.2⟩
      intro b hb
      rcases (mem_insertBlock x b zs).mp hb with rfl | hb
      · omega
      · exact h.1 b hb

theorem sorted_sortBlocks (l : List Block) : SortedOff (sortBlocks l) := by
  induction l with
  | nil => simp [sortBlocks, SortedOff]
  | cons z zs ih => exact sorted_insertBlock z _ ih


theorem stop_mk (o : Nat) (d : Bytes) : (Block.mk o d).stop = o + d.length := rfl

theorem within_extend (S : Bytes) (cur nx : Block) (hc : Within S cur) (hn : Within S nx)
    (h1 : nx.off ≤ cur.stop) (h2 : cur.stop < nx.stop) (_h3 : cur.off ≤ nx.off) :
    Within S ⟨cur.off, cur.data ++ nx.data.drop (cur.stop - nx.off)⟩ := by
  have hco : cur.off ≤ cur.stop := by unfold Block.stop; omega
  have key : cur.data ++ nx.data.drop (cur.stop - nx.off) = slice S cur.off nx.stop := by
    have e : cur.data ++ nx.data.drop (cur.stop - nx.off)
        = slice S cur.off cur.stop ++ (slice S nx.off nx.stop).drop (cur.stop - nx.off) := by
      rw [← hc.2, ← hn.2]
    rw [e, drop_slice, show nx.off + (cur.stop - nx.off) = cur.stop by omega]
    exact slice_append_slice S cur.off cur.stop nx.stop hco (by omega) hn.1
  have hstop : (Block.mk cur.off (cur.data ++ nx.data.drop (cur.stop - nx.off))).stop = nx.stop := by
    rw [stop_mk, key, slice_length S _ _ hn.1]; omega
  exact ⟨by rw [hstop]; exact hn.1, by rw [hstop]; exact key⟩

theorem mergeInto_within (S : Bytes) (rest : List Block) (cur : Block) (hc : Within S cur)
    (hr : ∀ b ∈ rest, Within S b) (hs : SortedOff (cur :: rest)) :
    ∀ b ∈ mergeInto cur rest, Within S b := by
  induction rest generalizing cur with
  | nil => intro b hb; simp [mergeInto] at hb; subst hb; exact hc
  | cons nx rest ih =>
    have hnx := hr nx List.mem_cons_self
    have hrr : ∀ b ∈ rest, Within S b := fun b hb => hr b (List.mem_cons_of_mem _ hb)
    unfold SortedOff at hs
    rw [List.pairwise_cons, List.pairwise_cons] at hs
    obtain ⟨hs1, hs2, hs3⟩ := hs
    have hsub : ∀ c : Block, c.off = cur.off → SortedOff (c :: rest) := by
      intro c hcoff
      unfold SortedOff
      rw [List.pairwise_cons]
      exact ⟨fun b hb => by rw [hcoff]; exact hs1 b (List.mem_cons_of_mem _ hb), hs3⟩
    unfold mergeInto
    split
    · rename_i hle
      split
      · rename_i hgt
        exact ih _ (within_extend S cur nx hc hnx hle hgt (hs1 nx List.mem_cons_self)) hrr (hsub _ rfl)
      · exact ih cur hc hrr (hsub _ rfl)
    · intro b hb
      rcases List.mem_cons.mp hb with rfl | hb
      · exact hc
      · exact ih nx hnx hrr (by unfold SortedOff; rw [List.pairwise_cons]; exact ⟨hs2, hs3⟩) b hb

theorem mergeInto_covers (rest : List Block) (cur : Block) (hs : SortedOff (cur :: rest)) (p : Nat) :
    (∃ b ∈ mergeInto cur rest, covers b p) ↔ (covers cur p ∨ ∃ b ∈ rest, covers b p) := by
  induction rest generalizing cur with
  | nil => simp [mergeInto]
  | cons nx rest ih =>
    unfold SortedOff at hs
    rw [List.pairwise_cons, List.pairwise_cons] at hs
    obtain ⟨hs1, hs2, hs3⟩ := hs
    have hoff := hs1 nx List.mem_cons_self
    have hsub : ∀ c : Block, c.off = cur.off → SortedOff (c :: rest) := by
      intro c hcoff
      unfold SortedOff
      rw [List.pairwise_cons]
      exact ⟨fun b hb => by rw [hcoff]; exact hs1 b (List.mem_cons_of_mem _ hb), hs3⟩
    unfold mergeInto
    split
    · rename_i hle
      split
      · rename_i hgt
        rw [ih ⟨cur.off, cur.data ++ nx.data.drop (cur.stop - nx.off)⟩ (hsub _ rfl)]
        have hst : (Block.mk cur.off (cur.data ++ nx.data.drop (cur.stop - nx.off))).stop = nx.stop := by
          rw [stop_mk]; simp only [List.length_append, List.length_drop]; unfold Block.stop at *; omega
        simp only [covers, hst, List.mem_cons, exists_eq_or_imp]
        constructor
        · rintro (⟨h1, h2⟩ | h)
          · by_cases hq : p < cur.stop
            · left; exact ⟨h1, hq⟩
            · right; left; exact ⟨by omega, h2⟩
          · right; right; exact h
        · rintro (⟨h1, h2⟩ | ⟨h1, h2⟩ | h)
          · left; exact ⟨h1, by omega⟩
          · left; exact ⟨by omega, h2⟩
          · right; exact h
      · rename_i hgt
        rw [ih cur (hsub _ rfl)]
        simp only [covers, List.mem_cons, exists_eq_or_imp]
        constructor
        · rintro (h | h)
          · left; exact h
          · right; right; exact h
        · rintro (h | ⟨h1, h2⟩ | h)
          · left; exact h
          · left; exact ⟨by omega, by omega⟩
          · right; exact h
    · simp only [List.mem_cons, exists_eq_or_imp]
      rw [ih nx (by unfold SortedOff; rw [List.pairwise_cons]; exact ⟨hs2, hs3⟩)]


theorem mergeInto_sep (rest : List Block) (cur : Block) (hs : SortedOff (cur :: rest)) :
    Separated (mergeInto cur rest) ∧ ∀ b ∈ mergeInto cur rest, cur.off ≤ b.off := by
  induction rest generalizing cur with
  | nil => simp [mergeInto, Separated]
  | cons nx rest ih =>
    unfold SortedOff at hs
    rw [List.pairwise_cons, List.pairwise_cons] at hs
    obtain ⟨hs1, hs2, hs3⟩ := hs
    have hsub : ∀ c : Block, c.off = cur.off → SortedOff (c :: rest) := by
      intro c hcoff
      unfold SortedOff
      rw [List.pairwise_cons]
      exact ⟨fun b hb => by rw [hcoff]; exact hs1 b (List.mem_cons_of_mem _ hb), hs3⟩
    unfold mergeInto
    split
    · split
      · exact ih _ (hsub _ rfl)
      · exact ih cur (hsub _ rfl)
    · rename_i hgt
      obtain ⟨h1, h2⟩ := ih nx (by unfold SortedOff; rw [List.pairwise_cons]; exact ⟨hs2, hs3⟩)
      constructor
      · unfold Separated
        rw [List.pairwise_cons]
        exact ⟨fun b hb => by have := h2 b hb; omega, h1⟩
      · intro b hb
        rcases List.mem_cons.mp hb with rfl | hb
        · exact Nat.le_refl _
        · have := h2 b hb; have := hs1 nx List.mem_cons_self; omega


theorem mergeBlocks_spec (S : Bytes) (l : List Block) (hw : ∀ b ∈ l, Within S b) :
    (∀ b ∈ mergeBlocks (sortBlocks l), Within S b) ∧ Separated (mergeBlocks (sortBlocks l)) ∧
    ∀ p, (∃ b ∈ mergeBlocks (sortBlocks l), covers b p) ↔ ∃ b ∈ l, covers b p := by
  have hsorted := sorted_sortBlocks l
  have hmem := fun y => mem_sortBlocks y l
  generalize sortBlocks l = sl at hsorted hmem
  cases sl with
  | nil =>
    refine ⟨by simp [mergeBlocks], by simp [mergeBlocks, Separated], ?_⟩
    intro p
    simp only [mergeBlocks, List.not_mem_nil, false_and, exists_false, false_iff]
    rintro ⟨b, hb, _⟩
    exact absurd ((hmem b).mpr hb) (by simp)
  | cons c rest =>
    have hwc : Within S c := hw c ((hmem c).mp List.mem_cons_self)
    have hwr : ∀ b ∈ rest, Within S b := fun b hb => hw b ((hmem b).mp (List.mem_cons_of_mem _ hb))
    refine ⟨mergeInto_within S rest c hwc hwr hsorted, (mergeInto_sep rest c hsorted).1, ?_⟩
    intro p
    simp only [mergeBlocks]
    rw [mergeInto_covers rest c hsorted p]
    constructor
    · rintro (h | ⟨b, hb, h⟩)
      · exact ⟨c, (hmem c).mp List.mem_cons_self, h⟩
      · exact ⟨b, (hmem b).mp (List.mem_cons_of_mem _ hb), h⟩
    · rintro ⟨b, hb, h⟩
      rcases List.mem_cons.mp ((hmem b).mpr hb) with rfl | hb'
      · left; exact h
      · right; exact ⟨b, hb', h⟩

theorem pairwise_mem_or {α} (R : α → α → Prop) (l : List α) (hp : l.Pairwise R) (a b : α)
    (ha : a ∈ l) (hb : b ∈ l) : a = b ∨ R a b ∨ R b a := by
  induction l with
  | nil => cases ha
  | cons x xs ih =>
    rw [List.pairwise_cons] at hp
    rcases List.mem_cons.mp ha with rfl | ha' <;> rcases List.mem_cons.mp hb with rfl | hb'
    · left; rfl
    · right; left; exact hp.1 b hb'
    · right; right; exact hp.1 a ha'
    · exact ih hp.2 ha' hb'

/-- Separated blocks that are slices of `S` and together cover all of `S` are the single block `S`. -/
theorem complete_single (S : Bytes) (hS : 0 < S.length) (out : List Block)
    (hw : ∀ b ∈ out, Within S b) (hsep : Separated out)
    (hcov : ∀ p, p < S.length → ∃ b ∈ out, covers b p) : out = [⟨0, S⟩] := by
  obtain ⟨b0, hb0, h0⟩ := hcov 0 hS
  have hoff0 : b0.off = 0 := by unfold covers at h0; omega
  have hstop : b0.stop = S.length := by
    have hle := (hw b0 hb0).1
    by_cases hlt : b0.stop < S.length
    · obtain ⟨b1, hb1, h1⟩ := hcov b0.stop hlt
      unfold covers at h1
      rcases pairwise_mem_or _ out hsep b0 b1 hb0 hb1 with rfl | h | h
      · omega
      · omega
      · omega
    · omega
  have hb0eq : b0 = ⟨0, S⟩ := by
    have hd := (hw b0 hb0).2
    rw [hoff0, hstop] at hd
    have : slice S 0 S.length = S := by unfold slice; simp
    rw [this] at hd
    cases b0; simp_all
  have hall : ∀ b ∈ out, b = b0 := by
    intro b hb
    rcases pairwise_mem_or _ out hsep b0 b hb0 hb with rfl | h | h
    · rfl
    · have := (hw b hb).1
      have hbo : b.off ≤ b.stop := by unfold Block.stop; omega
      omega
    · omega
  -- a separated list whose members are all equal has one element
  cases out with
  | nil => cases hb0
  | cons x xs =>
    have hx := hall x List.mem_cons_self
    cases xs with
    | nil => rw [hx, hb0eq]
    | cons y ys =>
      have hy := hall y (List.mem_cons_of_mem _ List.mem_cons_self)
      unfold Separated at hsep
      rw [List.pairwise_cons] at hsep
      have := hsep.1 y List.mem_cons_self
      rw [hx, hy] at this
      unfold Block.stop at this; omega


theorem feed_complete_aux (S : Bytes) (hS : 0 < S.length) (flight : List (Bytes × List Block))
    (hparse : ∀ pf ∈ flight, parseFrames pf.1.length pf.1 = .ok pf.2)
    (hw : ∀ pf ∈ flight, ∀ b ∈ pf.2, Within S b) (cr : List Block)
    (hcr : ∀ b ∈ cr, Within S b) (hsep : Separated cr)
    (hcov : ∀ p, p < S.length → (∃ b ∈ cr, covers b p) ∨ ∃ pf ∈ flight, ∃ b ∈ pf.2, covers b p) :
    feedPayloads cr (flight.map Prod.fst) = .ok [⟨0, S⟩] := by
  induction flight generalizing cr with
  | nil =>
    simp only [List.map_nil, feedPayloads]
    congr 1
    apply complete_single S hS cr hcr hsep
    intro p hp
    rcases hcov p hp with h | ⟨pf, hpf, _⟩
    · exact h
    · cases hpf
  | cons pf rest ih =>
    obtain ⟨p, fs⟩ := pf
    have hp : parseFrames p.length p = .ok fs := hparse (p, fs) List.mem_cons_self
    simp only [List.map_cons, feedPayloads, reassemble, hp]
    have hwall : ∀ b ∈ cr ++ fs, Within S b := by
      intro b hb
      rcases List.mem_append.mp hb with h | h
      · exact hcr b h
      · exact hw (p, fs) List.mem_cons_self b h
    obtain ⟨h1, h2, h3⟩ := mergeBlocks_spec S (cr ++ fs) hwall
    apply ih (fun pf hpf => hparse pf (List.mem_cons_of_mem _ hpf))
      (fun pf hpf => hw pf (List.mem_cons_of_mem _ hpf)) _ h1 h2
    intro q hq
    rcases hcov q hq with ⟨b, hb, hc⟩ | ⟨pf', hpf', b, hb, hc⟩
    · left; exact (h3 q).mpr ⟨b, List.mem_append_left _ hb, hc⟩
    · rcases List.mem_cons.mp hpf' with rfl | hpf''
      · left; exact (h3 q).mpr ⟨b, List.mem_append_right _ hb, hc⟩
      · right; exact ⟨pf', hpf'', b, hb, hc⟩


/-! ## The locator over the completely reassembled stream -/

theorem linRange_single (S : Bytes) (i j : Nat) (h : i < j) (hj : j ≤ S.length) :
    linRange [⟨0, S⟩] i j = .ok (slice S i j) := by
  unfold linRange locate
  have hstop : (Block.mk 0 S).stop = S.length := by simp [Block.stop]
  rw [if_pos (by rw [hstop]; omega)]
  simp only []
  rw [if_neg (by simp)]
  unfold gather
  rw [if_pos (by rw [hstop]; exact hj)]
  simp

theorem slice_one (S : Bytes) (i : Nat) (h : i < S.length) : slice S i (i + 1) = [S.getD i 0] := by
  unfold slice
  rw [show i + 1 - i = 1 by omega]
  have : S.drop i = S[i] :: S.drop (i + 1) := by
    rw [List.drop_eq_getElem_cons h]
  simp only [List.getD, List.getElem?_eq_getElem h, Option.getD_some]
  rw [this]
  rfl

theorem slice_self_nil (S : Bytes) (i : Nat) : slice S i i = [] := by unfold slice; simp

theorem reads_linear_single (S : Bytes) (a b len : Nat) (hab : a ≤ b) (hb : b ≤ S.length)
    (hlen : b - a ≤ len) : Reads (.linear [⟨0, S⟩] a len) (slice S a b) where
  range := by
    intro i j hij hj
    rw [slice_length S a b hb] at hj
    simp only [Loc.range]
    split
    · rename_i h; subst h; rw [slice_self_nil]
    · rw [linRange_single S (i + a) (j + a) (by omega) (by omega), slice_slice S a b i j hj,
        Nat.add_comm i, Nat.add_comm j]
  at_ := by
    intro i hi
    rw [slice_length S a b hb] at hi
    simp only [Loc.at]
    rw [linRange_single S (i + a) (i + a + 1) (by omega) (by omega), slice_one S (i + a) (by omega)]
    simp only []
    rw [slice_getD S a b i (by omega) hb, Nat.add_comm]
  len_ge := by rw [slice_length S a b hb]; simpa [Loc.len] using hlen

theorem slice_full (S : Bytes) : slice S 0 S.length = S := by unfold slice; simp

theorem extractSni_complete (ch : ClientHello) (hwf : ch.WF) :
    extractSni (newLinear [⟨0, handshake ch⟩]) = specResult ch := by
  have hnl : newLinear [⟨0, handshake ch⟩] = .linear [⟨0, handshake ch⟩] 0 (handshake ch).length := by
    simp [newLinear, Block.stop]
  rw [hnl]
  apply extractSni_encode _ ch hwf
  · have := reads_linear_single (handshake ch) 0 (handshake ch).length (handshake ch).length
      (Nat.zero_le _) (Nat.le_refl _) (by omega)
    rwa [slice_full] at this
  · rfl
  · intro a b hab hb
    refine ⟨.linear [⟨0, handshake ch⟩] (0 + a) (b - a + 1), rfl, ?_, ?_⟩
    · simpa using reads_linear_single (handshake ch) a b (b - a + 1) hab hb (by omega)
    · simp [Loc.len]


/-! ## Varints and frames: encode then parse -/

theorem foldl_beBytes (n v acc : Nat) :
    (beBytes n v).foldl (fun x y => x * 256 + y) acc = acc * 256 ^ n + v % 256 ^ n := by
  induction n generalizing acc with
  | zero => simp [beBytes, Nat.mod_one]
  | succ n ih =>
    simp only [beBytes, List.foldl_cons]
    rw [ih]
    have h1 : v % 256 ^ (n + 1) = (v / 256 ^ n % 256) * 256 ^ n + v % 256 ^ n := by
      rw [Nat.pow_succ, Nat.mod_mul, Nat.add_comm, Nat.mul_comm]
    rw [h1, Nat.pow_succ]
    rw [Nat.add_mul, Nat.mul_assoc, Nat.mul_comm 256 (256 ^ n)]
    omega

theorem beBytes_length (n v : Nat) : (beBytes n v).length = n := by
  induction n with
  | zero => rfl
  | succ n ih => simp [beBytes, ih]

theorem uvarint_encode (v k : Nat) (rest : Bytes) (h : VarintFits v k) :
    uvarint (encVarint v k ++ rest) = .ok (v, 2 ^ k) := by
  obtain ⟨hk, hv⟩ := h
  have hpos : 0 < 256 ^ (2 ^ k - 1) := Nat.pow_pos (by decide)
  have htop : v / 256 ^ (2 ^ k - 1) < 64 := by
    rw [Nat.div_lt_iff_lt_mul hpos]; exact hv
  have hk1 : 1 ≤ 2 ^ k := Nat.one_le_two_pow
  unfold uvarint encVarint
  simp only [List.cons_append]
  have hb0 : (k * 64 + v / 256 ^ (2 ^ k - 1)) / 64 = k := by
    generalize v / 256 ^ (2 ^ k - 1) = d at htop ⊢; omega
  have hb1 : (k * 64 + v / 256 ^ (2 ^ k - 1)) % 64 = v / 256 ^ (2 ^ k - 1) := by
    generalize v / 256 ^ (2 ^ k - 1) = d at htop ⊢; omega
  simp only [hb0, hb1]
  rw [if_neg (by simp [beBytes_length]; omega)]
  have htake : (((k * 64 + v / 256 ^ (2 ^ k - 1)) :: (beBytes (2 ^ k - 1) v ++ rest)).take (2 ^ k)).drop 1
      = beBytes (2 ^ k - 1) v := by
    have : 2 ^ k = (2 ^ k - 1) + 1 := by omega
    rw [this, List.take_succ_cons, List.drop_succ_cons, List.drop_zero]
    have hl := beBytes_length (2 ^ k - 1) v
    exact List.take_left' hl
  rw [htake, foldl_beBytes]
  congr 2
  have := Nat.div_add_mod v (256 ^ (2 ^ k - 1))
  rw [Nat.mul_comm] at this
  exact this

theorem encVarint_length (v k : Nat) : (encVarint v k).length = 2 ^ k := by
  have : 1 ≤ 2 ^ k := Nat.one_le_two_pow
  simp [encVarint, beBytes_length]; omega

theorem uvarint_small (c : Nat) (rest : Bytes) (h : c < 64) : uvarint (c :: rest) = .ok (c, 1) := by
  unfold uvarint
  have h0 : c / 64 = 0 := by omega
  have h1 : c % 64 = c := by omega
  simp [h0, h1]

theorem extractFrame_crypto (off : Nat) (data : Bytes) (ko kl : Nat) (rest : Bytes)
    (h : (Frame.crypto off data ko kl).Fits) :
    extractFrame (encodeFrame (.crypto off data ko kl) ++ rest)
      = .ok (some ⟨off, data⟩, (encodeFrame (.crypto off data ko kl)).length) := by
  obtain ⟨ho, hl⟩ := h
  have e : encodeFrame (.crypto off data ko kl) ++ rest
      = 6 :: (encVarint off ko ++ (encVarint data.length kl ++ (data ++ rest))) := by
    simp [encodeFrame, List.append_assoc]
  have hlen : (encodeFrame (.crypto off data ko kl)).length = 1 + 2 ^ ko + 2 ^ kl + data.length := by
    simp [encodeFrame, encVarint_length]; omega
  unfold extractFrame
  rw [e, uvarint_small 6 _ (by decide)]
  simp only [List.drop_succ_cons, List.drop_zero]
  rw [if_neg (by decide), if_neg (by decide), if_pos trivial, uvarint_encode off ko _ ho]
  simp only []
  have hd : List.drop (1 + 2 ^ ko) (6 :: (encVarint off ko ++ (encVarint data.length kl ++ (data ++ rest))))
      = encVarint data.length kl ++ (data ++ rest) := by
    rw [Nat.add_comm, List.drop_succ_cons]
    exact List.drop_left' (encVarint_length off ko)
  rw [hd, uvarint_encode data.length kl _ hl]
  simp only []
  have htot : (6 :: (encVarint off ko ++ (encVarint data.length kl ++ (data ++ rest)))).length
      = 1 + 2 ^ ko + 2 ^ kl + data.length + rest.length := by
    simp [encVarint_length]; omega
  rw [if_neg (by rw [htot]; omega), hlen]
  have hs : slice (6 :: (encVarint off ko ++ (encVarint data.length kl ++ (data ++ rest))))
      (1 + 2 ^ ko + 2 ^ kl) (1 + 2 ^ ko + 2 ^ kl + data.length) = data := by
    have := slice_mid' (6 :: (encVarint off ko ++ encVarint data.length kl)) data rest data.length rfl
    have e2 : (6 :: (encVarint off ko ++ encVarint data.length kl)).length = 1 + 2 ^ ko + 2 ^ kl := by
      simp [encVarint_length]; omega
    rw [e2] at this
    simpa [List.append_assoc] using this
  rw [hs]

theorem takeWhile_zeros (n : Nat) (c : Nat) (rest : Bytes) (hc : c ≠ 0) :
    ((List.replicate n 0 ++ c :: rest).takeWhile (· == 0)).length = n := by
  have hcb : (c == 0) = false := by simp [hc]
  induction n with
  | zero => simp [hcb]
  | succ n ih => simpa [List.replicate_succ, List.takeWhile] using ih

theorem takeWhile_zeros_end (n : Nat) : ((List.replicate n 0).takeWhile (· == 0)).length = n := by
  induction n with
  | zero => rfl
  | succ n ih => simpa [List.replicate_succ] using ih

theorem extractFrame_padding (n c : Nat) (rest : Bytes) (hc : c ≠ 0) :
    extractFrame (List.replicate (n + 1) 0 ++ c :: rest) = .ok (none, n + 1) := by
  unfold extractFrame
  rw [List.replicate_succ, List.cons_append, uvarint_small 0 _ (by decide)]
  simp only [List.drop_succ_cons, List.drop_zero]
  rw [if_neg (by decide), if_pos trivial, takeWhile_zeros n c rest hc, Nat.add_comm]

theorem extractFrame_padding_end (n : Nat) :
    extractFrame (List.replicate (n + 1) 0) = .ok (none, n + 1) := by
  unfold extractFrame
  rw [List.replicate_succ, uvarint_small 0 _ (by decide)]
  simp only [List.drop_succ_cons, List.drop_zero]
  rw [if_neg (by decide), if_pos trivial, takeWhile_zeros_end n, Nat.add_comm]

theorem extractFrame_ping (rest : Bytes) : extractFrame (1 :: rest) = .ok (none, 1) := by
  unfold extractFrame
  rw [uvarint_small 1 _ (by decide)]
  simp

theorem encodeFrame_head (f : Frame) : ∃ c r, encodeFrame f = c :: r ∧ c ≠ 0 := by
  cases f with
  | crypto off data ko kl => exact ⟨6, _, rfl, by decide⟩
  | ping => exact ⟨1, _, rfl, by decide⟩

theorem extractFrame_frame (f : Frame) (rest : Bytes) (h : f.Fits) :
    extractFrame (encodeFrame f ++ rest) = .ok (f.block?, (encodeFrame f).length) := by
  cases f with
  | crypto off data ko kl => exact extractFrame_crypto off data ko kl rest h
  | ping => simpa [encodeFrame, Frame.block?] using extractFrame_ping rest

theorem parseFrames_frame (fuel : Nat) (f : Frame) (rest : Bytes) (h : f.Fits) :
    parseFrames (fuel + 1) (encodeFrame f ++ rest)
      = match parseFrames fuel rest with
        | .ok r => .ok (f.block?.toList ++ r)
        | .error e => .error e := by
  obtain ⟨c, r, hcr, _⟩ := encodeFrame_head f
  rw [parseFrames, if_neg (by rw [hcr]; simp), extractFrame_frame f rest h]
  simp only []
  rw [List.drop_left]
  cases parseFrames fuel rest <;> rfl

theorem parseFrames_encode (items : List Item) (tp : Nat) (hfit : ∀ it ∈ items, it.frame.Fits)
    (fuel : Nat) (hfuel : (encodeItems items tp).length ≤ fuel) :
    parseFrames fuel (encodeItems items tp) = .ok (cryptoBlocks items) := by
  induction items generalizing fuel with
  | nil =>
    simp only [encodeItems, cryptoBlocks]
    cases tp with
    | zero => cases fuel <;> simp [parseFrames]
    | succ n =>
      cases fuel with
      | zero => simp [encodeItems] at hfuel
      | succ fuel =>
        rw [parseFrames, if_neg (by simp [List.replicate_succ]), extractFrame_padding_end n]
        simp only []
        rw [List.drop_of_length_le (by simp)]
        cases fuel <;> simp [parseFrames]
  | cons it rest ih =>
    obtain ⟨pad, f⟩ := it
    have hf : f.Fits := hfit ⟨pad, f⟩ List.mem_cons_self
    have ih' := ih (fun it hit => hfit it (List.mem_cons_of_mem _ hit))
    obtain ⟨c, r, hcr, hc0⟩ := encodeFrame_head f
    have hflen : 1 ≤ (encodeFrame f).length := by rw [hcr]; simp
    simp only [encodeItems, cryptoBlocks]
    simp only [encodeItems, List.length_append, List.length_replicate] at hfuel
    cases pad with
    | zero =>
      simp only [List.replicate_zero, List.nil_append]
      cases fuel with
      | zero => omega
      | succ fuel =>
        rw [parseFrames_frame fuel f _ hf, ih' fuel (by omega)]
    | succ n =>
      cases fuel with
      | zero => omega
      | succ fuel =>
        cases fuel with
        | zero => omega
        | succ fuel =>
          have e : List.replicate (n + 1) 0 ++ (encodeFrame f ++ encodeItems rest tp)
              = List.replicate (n + 1) 0 ++ c :: (r ++ encodeItems rest tp) := by rw [hcr]; rfl
          rw [parseFrames, if_neg (by simp [List.replicate_succ]), e, extractFrame_padding n c _ hc0]
          simp only []
          rw [List.drop_left' (by simp), ← List.cons_append, ← hcr]
          rw [parseFrames_frame fuel f _ hf, ih' fuel (by omega)]
          simp


/-! ## Wrappers used by the property theorems -/

theorem sniffTls_err (buf : Bytes) (e : Err) (h : sniffTls buf = .error e) :
    e = .notApplicable ∨ e = .needMore ∨ e = .notFound := by
  unfold sniffTls at h
  split at h
  · cases h; left; rfl
  split at h
  · cases h; left; rfl
  simp only [] at h
  split at h
  · cases h; right; left; rfl
  · rcases extractSni_builtin_err _ e h with h | h
    · left; exact h
    · right; right; exact h

theorem sniffTls_sound (buf d : Bytes) (h : sniffTls buf = .ok d) : CarriedIn buf d := by
  unfold sniffTls at h
  split at h
  · cases h
  split at h
  · cases h
  simp only [] at h
  split at h
  · cases h
  · rename_i h5 _ hlen
    have hx := extractSni_sound _ _ (soundAt_builtin_slice _) d h
    have e : (buf.drop 5).take (be16 (buf.getD 3 0) (buf.getD 4 0))
        = slice buf 5 (5 + be16 (buf.getD 3 0) (buf.getD 4 0)) := by
      unfold slice; congr 1; omega
    rw [e] at hx
    simp only [List.length_drop] at hlen
    exact carriedIn_slice buf _ _ d (by omega) hx


theorem tlsAnswer_handshake (ch : ClientHello) (hwf : ch.WF) : tlsAnswer (handshake ch) = tcpAnswer ch := by
  unfold tlsAnswer tcpAnswer
  rw [extractSni_encode (.builtin (handshake ch)) ch hwf (reads_builtin _) rfl (sliceOk_builtin _)]

/-! ### `NormalizeDomain` on ordinary host names -/


theorem lower_nameChar (c : Nat) (h : isNameChar c = true) : isNameChar (toLowerAscii c) = true := by
  unfold toLowerAscii
  split
  · rename_i hc
    unfold isNameChar isAsciiSpace
    have : c + 32 ≥ 97 := by omega
    have h2 : c + 32 ≤ 122 := by omega
    simp; omega
  · exact h

theorem dropWhile_none (p : Nat → Bool) (l : Bytes) (h : ∀ c ∈ l, p c = false) :
    (l.dropWhile p = l) := by
  cases l with
  | nil => rfl
  | cons x xs => simp [List.dropWhile, h x List.mem_cons_self]

theorem trimSpace_nameChars (l : Bytes) (h : ∀ c ∈ l, isNameChar c = true) : trimSpace l = l := by
  have hsp : ∀ c ∈ l, isAsciiSpace c = false := by
    intro c hc
    have := h c hc
    unfold isNameChar at this
    cases hs : isAsciiSpace c <;> simp_all
  unfold trimSpace dropRightWhile
  rw [dropWhile_none _ l hsp, dropWhile_none _ l.reverse (fun c hc => hsp c (List.mem_reverse.mp hc))]
  simp

theorem idxOf?_none (c : Nat) (l : Bytes) (h : c ∉ l) : l.idxOf? c = none := by
  rw [List.idxOf?_eq_none_iff]; exact h

theorem normalizeDomain_name (n : Bytes) (h : ∀ c ∈ n, isNameChar c = true) :
    normalizeDomain n = trimDot (lower n) := by
  have hl : ∀ c ∈ lower n, isNameChar c = true := by
    intro c hc
    simp only [lower, List.mem_map] at hc
    obtain ⟨a, ha, rfl⟩ := hc
    exact lower_nameChar a (h a ha)
  have hne : ∀ x, x = 58 ∨ x = 91 ∨ x = 93 → x ∉ lower n := by
    intro x hx hmem
    have := hl x hmem
    unfold isNameChar at this
    rcases hx with rfl | rfl | rfl <;> simp at this
  unfold normalizeDomain
  simp only []
  rw [trimSpace_nameChars _ hl]
  have hlast : (lower n).getLast? ≠ some 93 := by
    intro hx
    exact hne 93 (by simp) (List.mem_of_getLast? hx)
  rw [if_neg hlast]
  have hsp : splitHostPort (lower n) = none := by
    unfold splitHostPort lastIndexOf
    rw [idxOf?_none 58 _ (fun hm => hne 58 (by simp) (List.mem_reverse.mp hm))]
  rw [hsp]

/-! ### Within is preserved by every reassembly step -/

theorem feed_within (S : Bytes) (flight : List (Bytes × List Block))
    (hparse : ∀ pf ∈ flight, parseFrames pf.1.length pf.1 = .ok pf.2)
    (hw : ∀ pf ∈ flight, ∀ b ∈ pf.2, Within S b) (cr cr' : List Block)
    (hcr : ∀ b ∈ cr, Within S b)
    (h : feedPayloads cr (flight.map Prod.fst) = .ok cr') : ∀ b ∈ cr', Within S b := by
  induction flight generalizing cr with
  | nil => simp only [List.map_nil, feedPayloads] at h; cases h; exact hcr
  | cons pf rest ih =>
    obtain ⟨p, fs⟩ := pf
    have hp : parseFrames p.length p = .ok fs := hparse (p, fs) List.mem_cons_self
    simp only [List.map_cons, feedPayloads, reassemble, hp] at h
    have hwall : ∀ b ∈ cr ++ fs, Within S b := by
      intro b hb
      rcases List.mem_append.mp hb with h | h
      · exact hcr b h
      · exact hw (p, fs) List.mem_cons_self b h
    exact ih (fun pf hpf => hparse pf (List.mem_cons_of_mem _ hpf))
      (fun pf hpf => hw pf (List.mem_cons_of_mem _ hpf)) _ (mergeBlocks_spec S _ hwall).1 h

/-! ### Header unprotection in place, then the deferred restore -/

theorem unprotect_restore (buf : Bytes) (pnOff f0 : Nat) (pn : Bytes) (h1 : 1 ≤ pnOff)
    (h2 : pnOff + 4 ≤ buf.length) (hpn : pn.length = 4) :
    restoreHeader (unprotectInPlace buf pnOff f0 pn) pnOff (buf.getD 0 0) (slice buf pnOff (pnOff + 4)) = buf := by
  obtain ⟨b0, rest, rfl⟩ : ∃ b0 rest, buf = b0 :: rest := by
    cases buf with
    | nil => simp at h2
    | cons b0 rest => exact ⟨b0, rest, rfl⟩
  obtain ⟨k, rfl⟩ : ∃ k, pnOff = k + 1 := ⟨pnOff - 1, by omega⟩
  simp only [List.length_cons] at h2
  have hX : unprotectInPlace (b0 :: rest) (k + 1) f0 pn = f0 :: (rest.take k ++ (pn ++ (rest.drop k).drop 4)) := by
    simp [unprotectInPlace, List.take_of_length_le (Nat.le_of_eq hpn), hpn]
  have hraw : slice (b0 :: rest) (k + 1) (k + 1 + 4) = (rest.drop k).take 4 := by
    simp [slice]
  rw [hX, hraw]
  have hrl : ((rest.drop k).take 4).length = 4 := by simp; omega
  simp only [restoreHeader, List.set_cons_zero, List.take_succ_cons, List.drop_succ_cons, List.getD_cons_zero, hrl]
  rw [List.take_left' (by simp; omega), List.drop_left' (by simp; omega), List.drop_left' hpn]
  rw [List.take_append_drop]
  simp


/-! ## One UDP flow through `handlePkt` -/

theorem sniffUdp_data (oracle : List Sealed) (s : Pkt) : (s.sniffUdp oracle).2.data = s.data := by
  unfold Pkt.sniffUdp
  split
  · rfl
  split
  · rfl
  split
  · rfl
  simp only []
  split
  · rfl
  · split <;> rfl

theorem drop_one_append (l : List Bytes) (d : Bytes) (h : l.head? = some []) :
    (l ++ [d]).drop 1 = l.drop 1 ++ [d] := by
  cases l with
  | nil => simp at h
  | cons x xs => simp

theorem head_append (l : List Bytes) (d : Bytes) (h : l.head? = some []) : (l ++ [d]).head? = some [] := by
  cases l with
  | nil => simp at h
  | cons x xs => simpa using h

theorem flow_step_spec (oracle : List Sealed) (f : Flow) (d : Bytes) (hinv : f.Inv) :
    (f.step oracle d).1.Inv ∧ (f.step oracle d).2 ++ (f.step oracle d).1.withheld = f.withheld ++ [d] := by
  obtain ⟨hhead, hest⟩ := hinv
  unfold Flow.step
  split
  · rename_i he
    exact ⟨⟨hhead, hest⟩, by simp only []; rw [hest he]; simp⟩
  · rename_i he
    have he' : f.established = false := by cases h : f.established <;> simp_all
    split
    · exact ⟨⟨rfl, fun _ => rfl⟩, by simp [Flow.withheld, Pkt.compact]⟩
    · simp only []
      have hdata : ((f.pkt.append d).sniffUdp oracle).2.data = f.pkt.data ++ [d] := by
        rw [sniffUdp_data]; rfl
      split
      · refine ⟨⟨by simp only []; rw [hdata]; exact head_append _ _ hhead, fun h => absurd h (by simp [he'])⟩, ?_⟩
        simp only [Flow.withheld, List.nil_append]
        rw [hdata, drop_one_append _ _ hhead]
      · refine ⟨⟨rfl, fun _ => rfl⟩, ?_⟩
        simp only [Flow.withheld, Pkt.compact, List.drop_succ_cons, List.drop_zero, List.append_nil]
        rw [hdata, drop_one_append _ _ hhead]

theorem flow_in_order_aux (oracle : List Sealed) (ds : List Bytes) (f : Flow) (hinv : f.Inv) :
    (Flow.run oracle f ds).1.flatten ++ (Flow.run oracle f ds).2.withheld = f.withheld ++ ds := by
  induction ds generalizing f with
  | nil => simp [Flow.run]
  | cons d ds ih =>
    obtain ⟨hinv1, hout⟩ := flow_step_spec oracle f d hinv
    simp only [Flow.run]
    cases hstep : f.step oracle d with
    | mk f1 out =>
      rw [hstep] at hinv1 hout
      have := ih f1 hinv1
      simp only [List.flatten_cons, List.append_assoc]
      rw [this, ← List.append_assoc, hout]
      simp


/-! ## HTTP soundness -/

theorem cutByte_some (sep : Nat) (l k v : Bytes) (h : cutByte sep l = some (k, v)) :
    l = k ++ sep :: v ∧ sep ∉ k := by
  induction l generalizing k with
  | nil => simp [cutByte] at h
  | cons x xs ih =>
    unfold cutByte at h
    split at h
    · rename_i hx; cases h; subst hx; simp
    · rename_i hx
      split at h
      · rename_i a b hc
        cases h
        obtain ⟨e, hn⟩ := ih a hc
        refine ⟨by rw [e]; simp, ?_⟩
        intro hm
        rcases List.mem_cons.mp hm with h1 | h1
        · exact hx h1.symm
        · exact hn h1
      · cases h

theorem hostFromLines_sound (ls : List Bytes) (d : Bytes) (h : hostFromLines ls = .ok d) :
    ∃ l ∈ ls, ∃ k v, l = k ++ 58 :: v ∧ 58 ∉ k ∧ l.head? ≠ some 32 ∧ l.head? ≠ some 9 ∧
      isHostKey (trimSpace k) = true ∧ d = trimSpace v ∧ d ≠ [] := by
  induction ls with
  | nil => simp [hostFromLines] at h
  | cons l ls ih =>
    unfold hostFromLines at h
    split at h
    · cases h
    split at h
    · obtain ⟨l', hl', r⟩ := ih h
      exact ⟨l', List.mem_cons_of_mem _ hl', r⟩
    rename_i hsp
    split at h
    · obtain ⟨l', hl', r⟩ := ih h
      exact ⟨l', List.mem_cons_of_mem _ hl', r⟩
    · rename_i k v hc
      obtain ⟨e, hn⟩ := cutByte_some 58 l k v hc
      split at h
      · rename_i hk
        split at h
        · cases h
        · rename_i hne
          cases h
          exact ⟨l, List.mem_cons_self, k, v, e, hn, fun x => hsp (Or.inl x), fun x => hsp (Or.inr x), hk, rfl, hne⟩
      · obtain ⟨l', hl', r⟩ := ih h
        exact ⟨l', List.mem_cons_of_mem _ hl', r⟩

theorem complete_line_position (acc b l : Bytes) (h : l ∈ (splitLinesAux acc b).dropLast) :
    ∃ pre rest, acc.reverse ++ b = pre ++ l ++ crlf ++ rest ∧ (pre = [] ∨ ∃ p, pre = p ++ crlf) := by
  fun_induction splitLinesAux acc b with
  | case1 acc => simp at h
  | case2 acc rest ih =>
    rw [List.dropLast_cons_of_ne_nil (splitLinesAux_ne_nil [] rest)] at h
    rcases List.mem_cons.mp h with rfl | h'
    · exact ⟨[], rest, by simp [crlf], Or.inl rfl⟩
    · obtain ⟨pre, rest', e, hp⟩ := ih h'
      simp only [List.reverse_nil, List.nil_append] at e
      refine ⟨acc.reverse ++ crlf ++ pre, rest', by rw [e]; simp [crlf], Or.inr ?_⟩
      rcases hp with rfl | ⟨p, rfl⟩
      · exact ⟨acc.reverse, by simp⟩
      · exact ⟨acc.reverse ++ crlf ++ p, by simp⟩
  | case3 acc x rest hne ih =>
    obtain ⟨pre, rest', e, hp⟩ := ih h
    exact ⟨pre, rest', by rw [← e]; simp, hp⟩

theorem sniffHttp_sound (b d : Bytes) (h : sniffHttp b = .ok d) : HostLineIn b d := by
  unfold sniffHttp at h
  split at h
  · cases h
  split at h
  · cases h
  split at h
  · cases h
  split at h
  · obtain ⟨l, hl, k, v, e, hn, h32, h9, hk, hd, hne⟩ := hostFromLines_sound _ d h
    obtain ⟨pre, rest, eb, hp⟩ := complete_line_position [] _ l hl
    simp only [List.reverse_nil, List.nil_append] at eb
    subst e
    exact ⟨pre, k, v, rest, eb, hp, hn, h32, h9, hk, hd, hne⟩
  · cases h


theorem sniffGroupTcp_sound (buf n : Bytes) (h : sniffGroupTcp buf = .ok n) : ReportedFrom buf n := by
  unfold sniffGroupTcp at h
  split at h
  · rename_i d hd
    cases h
    exact ⟨d, rfl, Or.inl (sniffTls_sound buf d hd)⟩
  · split at h
    · rename_i d hd
      cases h
      exact ⟨d, rfl, Or.inr (sniffHttp_sound buf d hd)⟩
    · cases h
  · cases h

theorem atEof_sound (buf : Bytes) (nm : Bool) (rest : List Ev) (n : Bytes)
    (h : (atEof buf nm rest).result = .ok n) : ReportedFrom (atEof buf nm rest).buf n := by
  unfold atEof at h ⊢
  split at h
  · cases h
  · split at h
    · cases h
    · rename_i hne r hr
      rw [if_neg hne]
      exact sniffGroupTcp_sound buf n h

theorem sniffLoop_sound (script : List Ev) (buf : Bytes) (nm : Bool) (n : Bytes)
    (h : (sniffLoop buf nm script).result = .ok n) : ReportedFrom (sniffLoop buf nm script).buf n := by
  induction script generalizing buf nm with
  | nil => rw [sniffLoop] at h ⊢; exact atEof_sound _ _ _ _ h
  | cons e rest ih =>
    cases e with
    | eof => rw [sniffLoop] at h ⊢; exact atEof_sound _ _ _ _ h
    | stall => simp [sniffLoop] at h
    | rst => simp [sniffLoop] at h
    | data b =>
      rw [sniffLoop] at h ⊢
      split at h
      · cases h
      · rename_i hne
        rw [if_neg hne]
        split at h
        · exact ih _ _ h
        · exact sniffGroupTcp_sound _ n h

theorem sniffLoop_buf_prefix (script : List Ev) (buf : Bytes) (nm : Bool) :
    ∃ t, buf ++ clientBytes script = (sniffLoop buf nm script).buf ++ t := by
  have := relay_sniffLoop script buf nm .writeTo
  simp only [relayBytes] at this
  have h1 := congrArg Prod.fst this
  exact ⟨(drainConn (sniffLoop buf nm script).rest).1, h1.symm⟩

theorem hostSpec_err (hs : List (Bytes × Bytes)) (e : Err) (h : hostSpec hs = .error e) : e = .notFound := by
  induction hs with
  | nil => simp [hostSpec] at h; exact h.symm
  | cons kv hs ih =>
    obtain ⟨k, v⟩ := kv
    unfold hostSpec at h
    split at h
    · split at h
      · cases h; rfl
      · cases h
    · exact ih h


theorem helloComplete_handshake (ch : ClientHello) : helloComplete [⟨0, handshake ch⟩] = true := by
  generalize hn : (helloBody ch).length = n
  have e : handshake ch = 1 :: n / 65536 :: n / 256 % 256 :: n % 256 :: helloBody ch := by
    simp [handshake, hn]
  rw [e]
  simp [helloComplete, hn]
  omega

/-! ## The stream sniffer with a clock -/

theorem atEofT_time (D : Nat) (buf : Bytes) (nm : Bool) (now : Nat) (rest : List TEv) :
    now ≤ (atEofT D buf nm now rest).time ∧ (atEofT D buf nm now rest).time ≤ max now D := by
  unfold atEofT
  split
  · simp only []; omega
  · split <;> simp only [] <;> omega

theorem sniffLoopT_time (D : Nat) (s : List TEv) (buf : Bytes) (nm : Bool) (now : Nat) :
    now ≤ (sniffLoopT D buf nm now s).time ∧ (sniffLoopT D buf nm now s).time ≤ max now D := by
  induction s generalizing buf nm now with
  | nil => rw [sniffLoopT]; exact atEofT_time D buf nm now []
  | cons te rest ih =>
    obtain ⟨dt, e⟩ := te
    simp only [sniffLoopT]
    split
    · rename_i hlt
      cases e with
      | eof => have := atEofT_time D buf nm (now + dt) (⟨0, .eof⟩ :: rest); simp only []; omega
      | stall => have := ih buf nm (now + dt); simp only []; omega
      | rst => simp only []; omega
      | data b =>
        simp only []
        split
        · simp only []; omega
        · split
          · have := ih (buf ++ b) true (now + dt); omega
          · simp only []; omega
    · simp only []; omega

theorem atEofT_fields (D : Nat) (buf : Bytes) (nm : Bool) (now : Nat) (rest : List TEv) (rest' : List Ev) :
    (atEofT D buf nm now rest).result = (atEof buf nm rest').result ∧
    (atEofT D buf nm now rest).needMoreSeen = (atEof buf nm rest').needMoreSeen ∧
    (atEofT D buf nm now rest).buf = (atEof buf nm rest').buf ∧
    (atEofT D buf nm now rest).dataError = (atEof buf nm rest').dataError := by
  unfold atEofT atEof
  split
  · exact ⟨rfl, rfl, rfl, rfl⟩
  · split <;> exact ⟨rfl, rfl, rfl, rfl⟩

theorem sniffLoopT_refines (D : Nat) (s : List TEv) (buf : Bytes) (nm : Bool) (now : Nat) :
    (sniffLoopT D buf nm now s).result = (sniffLoop buf nm (untime D now s)).result ∧
    (sniffLoopT D buf nm now s).needMoreSeen = (sniffLoop buf nm (untime D now s)).needMoreSeen ∧
    (sniffLoopT D buf nm now s).buf = (sniffLoop buf nm (untime D now s)).buf ∧
    (sniffLoopT D buf nm now s).dataError = (sniffLoop buf nm (untime D now s)).dataError := by
  induction s generalizing buf nm now with
  | nil => rw [sniffLoopT, untime, sniffLoop]; exact atEofT_fields D buf nm now [] []
  | cons te rest ih =>
    obtain ⟨dt, e⟩ := te
    simp only [sniffLoopT, untime]
    split
    · cases e with
      | eof => simp only []; rw [sniffLoop]; exact atEofT_fields _ _ _ _ _ _
      | stall => simp only []; exact ih buf nm (now + dt)
      | rst => simp only []; rw [sniffLoop]; exact ⟨rfl, rfl, rfl, rfl⟩
      | data b =>
        simp only []
        rw [sniffLoop]
        split
        · exact ⟨rfl, rfl, rfl, rfl⟩
        · split
          · exact ih (buf ++ b) true (now + dt)
          · exact ⟨rfl, rfl, rfl, rfl⟩
    · rw [sniffLoop]; exact ⟨rfl, rfl, rfl, rfl⟩

theorem clientBytes_untime (D : Nat) (s : List TEv) (now : Nat) :
    clientBytes (untime D now s) = clientBytes (s.map TEv.ev) ∧
    clientEnd (untime D now s) = clientEnd (s.map TEv.ev) := by
  induction s generalizing now with
  | nil => exact ⟨rfl, rfl⟩
  | cons te rest ih =>
    obtain ⟨dt, e⟩ := te
    simp only [untime]
    split
    · cases e with
      | eof => exact ⟨rfl, rfl⟩
      | stall => simpa [clientBytes, clientEnd] using ih (now + dt)
      | rst => exact ⟨rfl, rfl⟩
      | data b => simp [clientBytes, clientEnd, ih (now + dt)]
    · simp [clientBytes, clientEnd]


/-! ## The QUIC long-header walk on an encoded Initial -/

theorem drop_append_len {α} (a b : List α) (n : Nat) (h : n = a.length) : (a ++ b).drop n = b := by
  subst h; simp

theorem quicHeader_encode (h : InitialHdr) (len : Nat) (body rest : Bytes) (hwf : h.WF len)
    (hb : body.length = len) :
    quicHeader (encodeHdr h len ++ (body ++ rest))
      = some ((encodeHdr h len).length, (encodeHdr h len).length + len, h.dcid) := by
  obtain ⟨hlong, hinit, htok, hlen, h8⟩ := hwf
  have hk1 : 1 ≤ 2 ^ h.kTok := Nat.one_le_two_pow
  have hk2 : 1 ≤ 2 ^ h.kLen := Nat.one_le_two_pow
  let dl := h.dcid.length
  let sl := h.scid.length
  let tl := h.token.length
  -- the whole buffer, right-nested
  have eB : encodeHdr h len ++ (body ++ rest)
      = h.first :: h.v0 :: h.v1 :: h.v2 :: h.v3 :: dl :: (h.dcid ++ (sl :: (h.scid ++
          (encVarint tl h.kTok ++ (h.token ++ (encVarint len h.kLen ++ (body ++ rest))))))) := by
    simp [encodeHdr, dl, sl, tl, List.append_assoc]
  have eL : (encodeHdr h len).length = 6 + dl + 1 + sl + 2 ^ h.kTok + tl + 2 ^ h.kLen := by
    simp [encodeHdr, encVarint_length, dl, sl, tl]; omega
  generalize hB : encodeHdr h len ++ (body ++ rest) = B at eB
  have hBlen : B.length = 6 + dl + 1 + sl + 2 ^ h.kTok + tl + 2 ^ h.kLen + len + rest.length := by
    rw [← hB]; simp [eL, hb]; omega
  have g0 : B.getD 0 0 = h.first := by rw [eB]; rfl
  have g5 : B.getD 5 0 = dl := by rw [eB]; rfl
  have hit : isInitialType B = true := by
    rw [eB]; simpa [isInitialType] using hinit
  have gsl : B.getD (6 + dl) 0 = sl := by
    rw [eB]
    have := getD_append_mid (h.first :: h.v0 :: h.v1 :: h.v2 :: h.v3 :: dl :: h.dcid) sl
      (h.scid ++ (encVarint tl h.kTok ++ (h.token ++ (encVarint len h.kLen ++ (body ++ rest))))) (6 + dl)
      (by simp [dl]; omega)
    simpa using this
  have hdcid : slice B 6 (6 + dl) = h.dcid := by
    rw [eB]
    have := slice_mid' [h.first, h.v0, h.v1, h.v2, h.v3, dl] h.dcid
      (sl :: (h.scid ++ (encVarint tl h.kTok ++ (h.token ++ (encVarint len h.kLen ++ (body ++ rest)))))) dl rfl
    simpa using this
  have hd1 : B.drop (6 + dl + 1 + sl) = encVarint tl h.kTok ++ (h.token ++ (encVarint len h.kLen ++ (body ++ rest))) := by
    rw [eB]
    have := drop_append_len (h.first :: h.v0 :: h.v1 :: h.v2 :: h.v3 :: dl :: (h.dcid ++ (sl :: h.scid)))
      (encVarint tl h.kTok ++ (h.token ++ (encVarint len h.kLen ++ (body ++ rest)))) (6 + dl + 1 + sl)
      (by simp [dl, sl]; omega)
    simpa [List.append_assoc] using this
  have hd2 : B.drop (6 + dl + 1 + sl + 2 ^ h.kTok + tl) = encVarint len h.kLen ++ (body ++ rest) := by
    rw [eB]
    have := drop_append_len (h.first :: h.v0 :: h.v1 :: h.v2 :: h.v3 :: dl :: (h.dcid ++ (sl :: (h.scid ++
      (encVarint tl h.kTok ++ h.token))))) (encVarint len h.kLen ++ (body ++ rest)) (6 + dl + 1 + sl + 2 ^ h.kTok + tl)
      (by simp [dl, sl, tl, encVarint_length]; omega)
    simpa [List.append_assoc] using this
  unfold quicHeader
  rw [if_neg (by omega)]
  simp only [g0, g5, hit]
  rw [if_neg (by omega), if_neg (by simp), if_neg (by omega)]
  simp only [show 6 + dl + 1 - 1 = 6 + dl by omega, gsl, hdcid]
  rw [if_neg (by omega), show 6 + dl + 1 + sl + 8 - 8 = 6 + dl + 1 + sl by omega, hd1,
    uvarint_encode tl h.kTok _ htok]
  simp only []
  rw [if_neg (by omega), show 6 + dl + 1 + sl + 2 ^ h.kTok + tl + 8 - 8 = 6 + dl + 1 + sl + 2 ^ h.kTok + tl by omega,
    hd2, uvarint_encode len h.kLen _ hlen]
  simp only []
  rw [if_neg (by omega), if_neg (by omega), eL]


theorem reassemble_single (ch : ClientHello) (items : List Item) (tp : Nat)
    (hfit : ∀ it ∈ items, it.frame.Fits)
    (hw : ∀ b ∈ cryptoBlocks items, Within (handshake ch) b)
    (hcov : ∀ q, q < (handshake ch).length → ∃ b ∈ cryptoBlocks items, covers b q) :
    reassemble [] (encodeItems items tp) = .ok [⟨0, handshake ch⟩] := by
  have hpos : 0 < (handshake ch).length := by simp [handshake]
  have := feed_complete_aux (handshake ch) hpos [(encodeItems items tp, cryptoBlocks items)]
    (by intro pf hpf; simp only [List.mem_singleton] at hpf; subst hpf
        exact parseFrames_encode items tp hfit _ (Nat.le_refl _))
    (by intro pf hpf; simp only [List.mem_singleton] at hpf; subst hpf; exact hw)
    [] (by simp) (by simp [Separated])
    (by intro q hq; obtain ⟨b, hb, hc⟩ := hcov q hq; exact Or.inr ⟨_, List.mem_singleton.mpr rfl, b, hb, hc⟩)
  simp only [List.map_cons, List.map_nil, feedPayloads] at this
  cases hr : reassemble [] (encodeItems items tp) with
  | ok cr => rw [hr] at this; simpa using this
  | error e => rw [hr] at this; cases this

theorem sniffUdp_single_packet (ch : ClientHello) (hwf : ch.WF) (items : List Item) (tp : Nat)
    (hfit : ∀ it ∈ items, it.frame.Fits)
    (hw : ∀ b ∈ cryptoBlocks items, Within (handshake ch) b)
    (hcov : ∀ q, q < (handshake ch).length → ∃ b ∈ cryptoBlocks items, covers b q)
    (h : InitialHdr) (len : Nat) (body : Bytes) (hh : h.WF len) (hb : body.length = len)
    (oracle : List Sealed)
    (horc : oracleLookup oracle 0 (encodeHdr h len).length ((encodeHdr h len).length + len) h.dcid
      = some (encodeItems items tp)) :
    ((({} : Pkt).append (encodeHdr h len ++ body)).sniffUdp oracle).1 = udpAnswer ch ∧
    ((({} : Pkt).append (encodeHdr h len ++ body)).sniffUdp oracle).2.needMore = false := by
  let dg := encodeHdr h len ++ body
  have hqh := quicHeader_encode h len body [] hh hb
  simp only [List.append_nil] at hqh
  have hlen : dg.length = (encodeHdr h len).length + len := by simp [dg, hb]
  have hne : dg ≠ [] := by simp [dg, encodeHdr]
  have hge : 7 ≤ dg.length := by
    have : 6 ≤ (encodeHdr h len).length := by simp [encodeHdr]
    have := hh.2.2.2.2; omega
  have hlikely : isLikelyQuic dg = true := by
    unfold isLikelyQuic
    rw [if_neg (by omega)]
    have h0 : dg.getD 0 0 = h.first := by simp [dg, encodeHdr]
    have hi : isInitialType dg = true := by
      have := hh.2.1
      simpa [isInitialType, dg, encodeHdr] using this
    have := hh.1
    simp only [h0, hi, Bool.and_true, beq_iff_eq]
    omega
  have hblock : quicBlock oracle 0 [] dg = .ok ([⟨0, handshake ch⟩], []) := by
    unfold quicBlock
    rw [hqh]
    simp only []
    rw [horc]
    simp only []
    rw [reassemble_single ch items tp hfit hw hcov]
    simp only []
    rw [← hlen]; simp
  have hloop : quicLoop oracle dg.length (dg.length + 1) [] dg false = ([⟨0, handshake ch⟩], none) := by
    rw [quicLoop, Nat.sub_self, hblock]
    simp
  have happ : (({} : Pkt).append dg) = { buf := dg, data := [[], dg], nextRead := 0, cryptos := [], needMore := false, sniffed := [] } := by
    simp [Pkt.append]
  show ((({} : Pkt).append dg).sniffUdp oracle).1 = udpAnswer ch ∧ ((({} : Pkt).append dg).sniffUdp oracle).2.needMore = false
  rw [happ]
  unfold Pkt.sniffUdp
  simp only []
  rw [if_neg (by simp), if_neg hne, if_neg (by simp [hlikely])]
  simp only [List.drop_zero, hloop]
  rw [extractSni_complete ch hwf]
  unfold udpAnswer
  cases hs : specResult ch with
  | ok d => exact ⟨rfl, rfl⟩
  | error e => simp [helloComplete_handshake]


end DaeVerif.C06
