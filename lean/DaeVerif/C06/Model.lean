/-!
# C06 — sniffing: executable model

Mirrors, function by function, `component/sniffing/{tls,http,sniffer,quic,conn_sniffer,sniffing}.go`
and `component/sniffing/internal/quicutils/{relocation,binary}.go` of /repo, plus the sniffing
section of `control/udp.go handlePkt`.

Bytes are `Nat`s (the driver only ever feeds values < 256; no theorem needs the bound).
Core-only (no Mathlib) so that the line-protocol driver links as a `lean_exe`.
-/
namespace DaeVerif.C06

abbrev Bytes := List Nat

/-- Error classes the real code can answer with (canonical enum used by the harness too). -/
inductive Err
  | notApplicable   -- sniffing.ErrNotApplicable
  | needMore        -- sniffing.ErrNeedMore
  | notFound        -- sniffing.ErrNotFound
  | missingCrypto   -- quicutils.ErrMissingCrypto
  | oob             -- a slice / index expression outside the data (Go: panic, or a silent read of
                    --   stale bytes between len and cap of the pooled buffer)
  | closed          -- fs.ErrClosed (CONNECTION_CLOSE frame)
  | unknownFrame    -- quicutils.ErrUnknownFrameType
  | unexpectedEOF   -- io.ErrUnexpectedEOF (varint) / quicutils.ErrOutOfRange
  | timeout         -- ErrNotApplicable wrapping context.DeadlineExceeded
  | ioError         -- any other read error of the connection
deriving DecidableEq, Repr, Inhabited

deriving instance DecidableEq for Except

def be16 (a b : Nat) : Nat := a * 256 + b

/-- Go `b[i:j]` on data that is long enough. -/
def slice (b : Bytes) (i j : Nat) : Bytes := (b.drop i).take (j - i)

/-! ## Locators (`quicutils.Locator`) -/

/-- `quicutils.CryptoFrameOffset`. -/
structure Block where
  off : Nat
  data : Bytes
deriving DecidableEq, Repr, Inhabited

def Block.stop (b : Block) : Nat := b.off + b.data.length

/-- `BuiltinBytesLocator` (exact capacity: everything past `len` is out of bounds) and
`LinearLocator` (`o`, `left`, `length`).  The forward-only cursor `iOuter` of the Go struct is not
state of the model: every caller accesses positions in non-decreasing order and the block list is
always the sorted, disjoint output of `ReassembleCryptos`, for which the cursor is a cache. -/
inductive Loc
  | builtin (b : Bytes)
  | linear (blocks : List Block) (left length : Nat)
deriving Repr, Inhabited

def Loc.len : Loc → Nat
  | .builtin b => b.length
  | .linear _ _ n => n

/-- `relocate`: the first block whose end is beyond `p`, and the blocks after it. -/
def locate : List Block → Nat → Option (Block × List Block)
  | [], _ => none
  | b :: rest, p => if p < b.stop then some (b, rest) else locate rest p

/-- The copy loop of `LinearLocator.Range`: bytes `[i, j)` starting inside `cur`, continuing over
blocks that are exactly adjacent. -/
def gather : Block → List Block → Nat → Nat → Except Err Bytes
  | cur, rest, i, j =>
    if j ≤ cur.stop then .ok (slice cur.data (i - cur.off) (j - cur.off))
    else match rest with
      | [] => .error .missingCrypto
      | nx :: rest' =>
        if cur.stop = nx.off then
          match gather nx rest' nx.off j with
          | .ok r => .ok (cur.data.drop (i - cur.off) ++ r)
          | .error e => .error e
        else .error .missingCrypto

/-- `LinearLocator.Range` on absolute positions (`left` already added). -/
def linRange (blocks : List Block) (i j : Nat) : Except Err Bytes :=
  match locate blocks i with
  | none => .error .missingCrypto
  | some (cur, rest) => if i < cur.off then .error .missingCrypto else gather cur rest i j

def Loc.range : Loc → Nat → Nat → Except Err Bytes
  | .builtin b, i, j => if i ≤ j ∧ j ≤ b.length then .ok (slice b i j) else .error .oob
  | .linear blocks left _, i, j => if i = j then .ok [] else linRange blocks (i + left) (j + left)

def Loc.at : Loc → Nat → Except Err Nat
  | .builtin b, i => match b[i]? with
    | some x => .ok x
    | none => .error .oob
  | .linear blocks left _, i =>
    match linRange blocks (i + left) (i + left + 1) with
    | .ok (x :: _) => .ok x
    | .ok [] => .error .missingCrypto
    | .error e => .error e

/-- `Slice(i, j)`.  NB the linear locator sets `length = j - i + 1` (one more than the builtin one). -/
def Loc.sliceLoc : Loc → Nat → Nat → Except Err Loc
  | .builtin b, i, j => if i ≤ j ∧ j ≤ b.length then .ok (.builtin (slice b i j)) else .error .oob
  | .linear blocks left _, i, j => .ok (.linear blocks (left + i) (j - i + 1))

/-! ## TLS (`tls.go`) -/

/-- `strings.TrimSuffix(s, ".")`. -/
def trimDot (b : Bytes) : Bytes :=
  match b.getLast? with
  | some 46 => b.dropLast
  | _ => b

/-- Inner loop of `findSniExtension` over the server-name list: `some name` when a `host_name`
entry is found, `none` when the list is exhausted. -/
def sniLoop (s : Loc) (iNext : Nat) (j : Nat) : Except Err (Option Bytes) :=
  if _h : j + 3 ≤ iNext then
    match s.range j (j + 3) with
    | .error e => .error e
    | .ok b =>
      let typ := b.getD 0 0
      let l := be16 (b.getD 1 0) (b.getD 2 0)
      if typ ≠ 0 then sniLoop s iNext (j + 3 + l)
      else if j + 3 + l > iNext then .error .notApplicable
      else match s.range (j + 3) (j + 3 + l) with
        | .error e => .error e
        | .ok nm => .ok (some (trimDot nm))
  else .ok none
termination_by iNext - j
decreasing_by omega

/-- `findSniExtension`, started at index `i`. -/
def findSniFrom (s : Loc) (i : Nat) : Except Err Bytes :=
  if _h1 : i + 4 ≥ s.len then .error .notFound
  else
    match s.range i (i + 4) with
    | .error e => .error e
    | .ok b =>
      let typ := be16 (b.getD 0 0) (b.getD 1 0)
      let extLength := be16 (b.getD 2 0) (b.getD 3 0)
      let iNext := i + 4 + extLength
      if _h2 : iNext > s.len then .error .notApplicable
      else if typ = 0 then
        if extLength < 2 then .error .notApplicable else
        match s.range (i + 4) (i + 6) with
        | .error e => .error e
        | .ok b2 =>
          let sniLen := be16 (b2.getD 0 0) (b2.getD 1 0)
          if extLength < sniLen + 2 then .error .notApplicable
          else match sniLoop s iNext (i + 6) with
            | .error e => .error e
            | .ok (some nm) => .ok nm
            | .ok none => findSniFrom s iNext
      else findSniFrom s iNext
termination_by s.len - i
decreasing_by all_goals omega

def findSni (s : Loc) : Except Err Bytes := findSniFrom s 0

/-- `extractSniFromTls`. -/
def extractSni (s : Loc) : Except Err Bytes :=
  if s.len < 39 then .error .notApplicable else
  match s.range 0 6 with
  | .error e => .error e
  | .ok b =>
    if b.getD 0 0 ≠ 1 then .error .notApplicable
    else if b.getD 4 0 ≠ 3 ∨ b.getD 5 0 < 1 ∨ b.getD 5 0 > 3 then .error .notApplicable
    else match s.at 38 with
    | .error e => .error e
    | .ok sidLen =>
      let bd1 := 39 + sidLen + 2
      if s.len < bd1 then .error .notApplicable else
      match s.range (bd1 - 2) bd1 with
      | .error e => .error e
      | .ok b1 =>
        let bd2 := bd1 + be16 (b1.getD 0 0) (b1.getD 1 0) + 1
        if s.len < bd2 then .error .notApplicable else
        match s.at (bd2 - 1) with
        | .error e => .error e
        | .ok cmLen =>
          let bd3 := bd2 + cmLen + 2
          if s.len < bd3 then .error .notApplicable else
          match s.range (bd3 - 2) bd3 with
          | .error e => .error e
          | .ok b3 =>
            let extLen := be16 (b3.getD 0 0) (b3.getD 1 0)
            let bd4 := bd3 + extLen
            if s.len < bd4 then .error .notApplicable else
            match s.sliceLoc (bd4 - extLen) bd4 with
            | .error e => .error e
            | .ok exts => findSni exts

/-- `Sniffer.SniffTls` on the buffered bytes. -/
def sniffTls (buf : Bytes) : Except Err Bytes :=
  if buf.length < 5 then .error .notApplicable
  else if buf.getD 0 0 ≠ 22 ∨ buf.getD 1 0 ≠ 3 then .error .notApplicable
  else
    let length := be16 (buf.getD 3 0) (buf.getD 4 0)
    let search := buf.drop 5
    if search.length < length then .error .needMore
    else extractSni (.builtin (search.take length))

/-! ## HTTP (`http.go`) -/

/-- Split at every CRLF (`bytes.Index(data[lineStart:], "\r\n")` repeatedly). -/
def splitLinesAux : Bytes → Bytes → List Bytes
  | acc, [] => [acc.reverse]
  | acc, 13 :: 10 :: rest => acc.reverse :: splitLinesAux [] rest
  | acc, x :: rest => splitLinesAux (x :: acc) rest

def splitLines (d : Bytes) : List Bytes := splitLinesAux [] d

/-- `bytes.Cut(line, sep)` for a one-byte separator. -/
def cutByte (sep : Nat) : Bytes → Option (Bytes × Bytes)
  | [] => none
  | x :: rest => if x = sep then some ([], rest) else
    match cutByte sep rest with
    | some (a, b) => some (x :: a, b)
    | none => none

def isAsciiSpace (c : Nat) : Bool := c == 9 || c == 10 || c == 11 || c == 12 || c == 13 || c == 32

def dropRightWhile (p : Nat → Bool) (b : Bytes) : Bytes := (b.reverse.dropWhile p).reverse

/-- `bytes.TrimSpace` / `strings.TrimSpace` (ASCII white space; inputs with bytes ≥ 0x80 are outside
the tie, see design note). -/
def trimSpace (b : Bytes) : Bytes := dropRightWhile isAsciiSpace (b.dropWhile isAsciiSpace)

def toLowerAscii (c : Nat) : Nat := if 65 ≤ c ∧ c ≤ 90 then c + 32 else c

def lower (b : Bytes) : Bytes := b.map toLowerAscii

/-- `bytes.EqualFold(key, "host")` for ASCII keys. -/
def isHostKey (k : Bytes) : Bool := lower k == [104, 111, 115, 116]

/-- The per-line loop of `sniffHTTPHostHeader`. -/
def hostFromLines : List Bytes → Except Err Bytes
  | [] => .error .notFound
  | line :: rest =>
    if line = [] then .error .notFound
    -- a line that begins with SP / HT continues the previous header (obs-fold): never a header itself
    else if line.head? = some 32 ∨ line.head? = some 9 then hostFromLines rest
    else match cutByte 58 line with
      | none => hostFromLines rest
      | some (k, v) =>
        if isHostKey (trimSpace k) then
          (if trimSpace v = [] then .error .notFound else .ok (trimSpace v))
        else hostFromLines rest

def sniffHTTPHostHeader (d : Bytes) : Except Err Bytes := hostFromLines (splitLines d)

/-- `unicode.IsPrint(rune(b))` for a byte (Latin-1). -/
def isPrintByte (c : Nat) : Bool := (32 ≤ c && c ≤ 126) || (161 ≤ c && c ≤ 255 && c != 173)

def str (s : String) : Bytes := s.toList.map Char.toNat

def httpMethods : List Bytes :=
  ["GET", "POST", "PUT", "PATCH", "DELETE", "COPY", "HEAD", "OPTIONS", "LINK", "UNLINK", "PURGE",
   "LOCK", "UNLOCK", "PROPFIND", "CONNECT", "TRACE"].map str

/-- `Sniffer.SniffHttp`. -/
def sniffHttp (buf : Bytes) : Except Err Bytes :=
  match buf with
  | [] => .error .notApplicable
  | c :: _ =>
    if !isPrintByte c then .error .notApplicable
    else match cutByte 32 (buf.take 12) with
      | none => .error .notApplicable
      | some (m, _) =>
        -- only the complete (CRLF-terminated) lines of what has been read are examined (fix6)
        if httpMethods.contains m then hostFromLines (splitLines buf).dropLast else .error .notApplicable

/-! ## `NormalizeDomain` (`sniffing.go`) with `net.SplitHostPort` -/

def lastIndexOf (c : Nat) (s : Bytes) : Option Nat :=
  match (s.reverse.idxOf? c) with
  | some k => some (s.length - 1 - k)
  | none => none

/-- `net.SplitHostPort`, host part only; `none` = error. -/
def splitHostPort (s : Bytes) : Option Bytes :=
  match lastIndexOf 58 s with
  | none => none
  | some i =>
    if s.head? = some 91 then
      match s.idxOf? 93 with
      | none => none
      | some e =>
        if e + 1 = s.length then none
        else if e + 1 = i then
          let host := slice s 1 e
          -- no '[' after position 1, no ']' after position e+1
          if (s.drop 1).contains 91 then none
          else if (s.drop (e + 1)).contains 93 then none
          else some host
        else none
    else
      let host := s.take i
      if host.contains 58 then none
      else if s.contains 91 then none
      else if s.contains 93 then none
      else some host

def isBracket (c : Nat) : Bool := c == 91 || c == 93

/-- `NormalizeDomain`. -/
def normalizeDomain (h : Bytes) : Bytes :=
  let host := trimSpace (lower h)
  if host.getLast? = some 93 then dropRightWhile isBracket (host.dropWhile isBracket)
  else match splitHostPort host with
    | some d => d
    | none => trimDot host

/-- `sniffGroup(SniffTls, SniffHttp)`. -/
def sniffGroupTcp (buf : Bytes) : Except Err Bytes :=
  match sniffTls buf with
  | .ok d => .ok (normalizeDomain d)
  | .error .notApplicable =>
    (match sniffHttp buf with
     | .ok d => .ok (normalizeDomain d)
     | .error e => .error e)
  | .error e => .error e

/-! ## The stream sniffer (`sniffer.go`, `conn_sniffer.go`) over a scripted connection -/

/-- What the client side does, one entry per `Read` of the connection:
`data b` — `b` arrives; `stall` — nothing arrives before the armed read deadline (a read without
deadline just waits for the next event); `eof` — the client has closed: this and every later read
returns `io.EOF` (an armed read that is repeated at EOF eventually hits its deadline); `rst` — this
and every later read fails with a non-timeout error.  A script that ends is at EOF. -/
inductive Ev
  | data (b : Bytes)
  | eof
  | stall
  | rst
deriving DecidableEq, Repr, Inhabited

/-- Result of `SniffTcp` and the sniffer state the relay then sees. -/
structure TcpOutcome where
  result : Except Err Bytes
  needMoreSeen : Bool          -- `oerr` was set (the final error also `Is(ErrNeedMore)`)
  buf : Bytes                  -- `s.buf`: everything read so far, unread
  dataError : Option Err       -- `s.dataError`
  rest : List Ev               -- what the connection still has to deliver
deriving Repr

/-- One pass of the `SniffTcp` loop body after a read that added nothing because the client is at
EOF: a further `ErrNeedMore` makes the loop read again, and again, until the deadline fires. -/
def atEof (buf : Bytes) (nm : Bool) (rest : List Ev) : TcpOutcome :=
  if buf = [] then ⟨.error .notApplicable, nm, buf, none, rest⟩
  else match sniffGroupTcp buf with
    | .error .needMore => ⟨.error .timeout, true, buf, none, rest⟩
    | r => ⟨r, nm, buf, none, rest⟩

/-- The `for` loop of `SniffTcp` (stream case, read-deadline path): one `readStreamOnce` per event. -/
def sniffLoop (buf : Bytes) (nm : Bool) : List Ev → TcpOutcome
  | [] => atEof buf nm []
  | .eof :: rest => atEof buf nm (.eof :: rest)
  -- the sniffer's own deadline: reported, but not latched in `dataError` (fix 9872939)
  | .stall :: rest => ⟨.error .timeout, nm, buf, none, rest⟩
  | .rst :: rest => ⟨.error .ioError, nm, buf, some .ioError, .rst :: rest⟩   -- a reset is sticky
  | .data b :: rest =>
    if buf ++ b = [] then ⟨.error .notApplicable, nm, buf ++ b, none, rest⟩
    else match sniffGroupTcp (buf ++ b) with
      | .error .needMore => sniffLoop (buf ++ b) true rest
      | r => ⟨r, nm, buf ++ b, none, rest⟩

def sniffTcp (script : List Ev) : TcpOutcome := sniffLoop [] false script

/-- Reading the underlying connection with no deadline armed until it ends:
the bytes obtained and how it ended (`none` = `io.EOF`). -/
def drainConn : List Ev → Bytes × Option Err
  | [] => ([], none)
  | .data b :: rest => let (r, e) := drainConn rest; (b ++ r, e)
  | .stall :: rest => drainConn rest
  | .eof :: _ => ([], none)
  | .rst :: _ => ([], some .ioError)

/-- How the relay consumes the client side after sniffing. -/
inductive Drain
  | read        -- `ConnSniffer.Read` until error (generic copy loop)
  | writeTo     -- `ConnSniffer.WriteTo`
  | prefixRead  -- `TakeRelayPrefix` then `ConnSniffer.Read` (what `control` does on Linux)
  | prefixConn  -- `TakeRelayPrefix` then the underlying connection (`CopyRelayRemainder`)
deriving DecidableEq, Repr

/-- Bytes handed to the relay and the terminal error (`none` = clean EOF). -/
def relayBytes (o : TcpOutcome) : Drain → Bytes × Option Err
  | .writeTo | .prefixConn => let (r, e) := drainConn o.rest; (o.buf ++ r, e)
  | .read | .prefixRead =>
    match o.dataError with
    | some e => (o.buf, some e)       -- `Read`: `n, _ = s.buf.Read(p); return n, s.dataError`
    | none => let (r, e) := drainConn o.rest; (o.buf ++ r, e)

/-- Everything the client sent (up to a connection failure). -/
def clientBytes : List Ev → Bytes
  | [] => []
  | .data b :: rest => b ++ clientBytes rest
  | .stall :: rest => clientBytes rest
  | .eof :: _ => []
  | .rst :: _ => []

/-- How the client side ends. -/
def clientEnd : List Ev → Option Err
  | [] => none
  | .data _ :: rest => clientEnd rest
  | .stall :: rest => clientEnd rest
  | .eof :: _ => none
  | .rst :: _ => some .ioError

/-! ## QUIC: varints, CRYPTO reassembly (`quicutils/binary.go`, `relocation.go`) -/

/-- `BigEndianUvarint`: value and encoded size. -/
def uvarint (b : Bytes) : Except Err (Nat × Nat) :=
  match b with
  | [] => .error .unexpectedEOF
  | b0 :: _ =>
    let n := 2 ^ (b0 / 64)
    if b.length < n then .error .unexpectedEOF
    else .ok (((b.take n).drop 1).foldl (fun x y => x * 256 + y) (b0 % 64), n)

/-- `ExtractCryptoFrameOffset`: the CRYPTO frame (if the frame is one) and the frame size. -/
def extractFrame (rem : Bytes) : Except Err (Option Block × Nat) :=
  match uvarint rem with
  | .error e => .error e
  | .ok (ft, nf) =>
    if ft = 1 then .ok (none, nf)
    else if ft = 0 then .ok (none, nf + ((rem.drop nf).takeWhile (· == 0)).length)
    else if ft = 6 then
      match uvarint (rem.drop nf) with
      | .error e => .error e
      | .ok (off, n1) =>
        match uvarint (rem.drop (nf + n1)) with
        | .error e => .error e
        | .ok (len, n2) =>
          let st := nf + n1 + n2
          if st + len > rem.length then .error .unexpectedEOF
          else .ok (some ⟨off, slice rem st (st + len)⟩, st + len)
    else if ft = 0x1c ∨ ft = 0x1d then .error .closed
    else .error .unknownFrame

/-- The frame loop of `ReassembleCryptos` (fuel = payload length; every frame has size ≥ 1). -/
def parseFrames : Nat → Bytes → Except Err (List Block)
  | 0, _ => .ok []
  | fuel + 1, p =>
    if p = [] then .ok []
    else match extractFrame p with
      | .error e => .error e
      | .ok (ob, sz) =>
        match parseFrames fuel (p.drop sz) with
        | .error e => .error e
        | .ok rest => .ok (ob.toList ++ rest)

/-- Stable insertion sort by offset (stands in for `sort.Slice`; see design note for ties). -/
def insertBlock (x : Block) : List Block → List Block
  | [] => [x]
  | y :: ys => if x.off ≤ y.off then x :: y :: ys else y :: insertBlock x ys

def sortBlocks : List Block → List Block
  | [] => []
  | x :: xs => insertBlock x (sortBlocks xs)

/-- The merge loop: `cur` is `current`, the list is what is left of the sorted offsets. -/
def mergeInto (cur : Block) : List Block → List Block
  | [] => [cur]
  | nx :: rest =>
    if nx.off ≤ cur.stop then
      if nx.stop > cur.stop then
        mergeInto ⟨cur.off, cur.data ++ nx.data.drop (cur.stop - nx.off)⟩ rest
      else mergeInto cur rest
    else cur :: mergeInto nx rest

def mergeBlocks : List Block → List Block
  | [] => []
  | b :: rest => mergeInto b rest

/-- `ReassembleCryptos(offsets, newPayload)`. -/
def reassemble (offsets : List Block) (payload : Bytes) : Except Err (List Block) :=
  match parseFrames payload.length payload with
  | .error e => .error e
  | .ok new => .ok (mergeBlocks (sortBlocks (offsets ++ new)))

/-- `NewLinearLocator`. -/
def newLinear (o : List Block) : Loc :=
  match o.getLast? with
  | none => .linear [] 0 0
  | some l => .linear o 0 l.stop

/-! ## QUIC Initial packets (`quic.go`) -/

/-- What header-unprotection + AEAD answer (trusted oracle, supplied per run by the packet
generator): for the packet that starts at absolute buffer offset `start`, with packet-number
offset `pnOff` and end `stop` relative to it and the given destination connection id, the
plaintext frames.  Every other query fails to authenticate. -/
structure Sealed where
  start : Nat
  pnOff : Nat
  stop : Nat
  dcid : Bytes
  plain : Bytes
deriving Repr, Inhabited

def oracleLookup (o : List Sealed) (start pnOff stop : Nat) (dcid : Bytes) : Option Bytes :=
  match o.find? (fun e => e.start == start && e.pnOff == pnOff && e.stop == stop && e.dcid == dcid) with
  | some e => some e.plain
  | none => none

/-- `isQuicInitialPacketType`: Initial is long-packet-type 0 in QUIC v1 (and drafts), 1 in QUIC v2
(version `0x6b3343cf`, RFC 9369 §3.2). -/
def isInitialType (buf : Bytes) : Bool :=
  let typ := buf.getD 0 0 / 16 % 4
  if [buf.getD 1 0, buf.getD 2 0, buf.getD 3 0, buf.getD 4 0] == [0x6b, 0x33, 0x43, 0xcf] then typ == 1
  else typ == 0

/-- `IsLikelyQuicInitialPacket`. -/
def isLikelyQuic (buf : Bytes) : Bool :=
  if buf.length < 7 then false
  else buf.getD 0 0 / 128 % 2 == 1 && isInitialType buf

/-- Header walk of `sniffQuicBlock`: `(pnOffset, blockEnd, dcid)` or not applicable. -/
def quicHeader (buf : Bytes) : Option (Nat × Nat × Bytes) :=
  if buf.length < 6 then none else
  let f := buf.getD 0 0
  if f / 128 % 4 ≠ 1 then none else
  if !isInitialType buf then none else
  let dl := buf.getD 5 0
  let bd1 := 6 + dl + 1
  if buf.length < bd1 then none else
  let dcid := slice buf 6 (6 + dl)
  let sl := buf.getD (bd1 - 1) 0
  let bd2 := bd1 + sl + 8
  if buf.length < bd2 then none else
  match uvarint (buf.drop (bd2 - 8)) with
  | .error _ => none
  | .ok (tokLen, n) =>
    let bd3 := bd2 - 8 + n + tokLen + 8
    if buf.length < bd3 then none else
    match uvarint (buf.drop (bd3 - 8)) with
    | .error _ => none
    | .ok (length, n2) =>
      let bd4 := bd3 - 8 + n2
      let blockEnd := bd4 + length
      if buf.length < blockEnd then none else
      if buf.length < bd4 + 4 then none else
      some (bd4, blockEnd, dcid)

/-- `sniffQuicBlock`: new crypto list and the rest of the datagram buffer. `absOff` is where `buf`
starts inside `s.buf` (only used to address the oracle). -/
def quicBlock (oracle : List Sealed) (absOff : Nat) (cryptos : List Block) (buf : Bytes) :
    Except Err (List Block × Bytes) :=
  match quicHeader buf with
  | none => .error .notApplicable
  | some (pnOff, blockEnd, dcid) =>
    match oracleLookup oracle absOff pnOff blockEnd dcid with
    | none => .error .notApplicable
    | some plain =>
      match reassemble cryptos plain with
      | .error .closed => .error .closed
      | .error _ => .error .notApplicable
      | .ok new => .ok (new, buf.drop blockEnd)

/-- The block loop of `SniffQuic`: the crypto list afterwards and `some e` when the function
returns `e` before looking for the name. -/
def quicLoop (oracle : List Sealed) (total : Nat) :
    Nat → List Block → Bytes → Bool → List Block × Option Err
  | 0, cryptos, _, _ => (cryptos, none)
  | fuel + 1, cryptos, nextBlock, isQuic =>
    match quicBlock oracle (total - nextBlock.length) cryptos nextBlock with
    | .error .notApplicable => if isQuic then (cryptos, none) else (cryptos, some .notApplicable)
    | .error .closed => (cryptos, some .notFound)
    | .error e => (cryptos, some e)
    | .ok (new, next) => if next = [] then (new, none) else quicLoop oracle total fuel new next true

/-- `quicClientHelloComplete`: the reassembled CRYPTO stream covers the whole first handshake
message (4-byte header + announced uint24 length) from offset 0 without a gap. -/
def helloComplete : List Block → Bool
  | [] => false
  | b :: _ =>
    b.off == 0 && decide (4 ≤ b.data.length) &&
      decide (4 + (b.data.getD 1 0 * 65536 + b.data.getD 2 0 * 256 + b.data.getD 3 0) ≤ b.data.length)

/-- Packet sniffer state (`Sniffer`, packet fields). -/
structure Pkt where
  buf : Bytes := []
  data : List Bytes := [[]]
  nextRead : Nat := 0
  cryptos : List Block := []
  needMore : Bool := false
  sniffed : Bytes := []
deriving Repr, Inhabited

/-- `AppendData`. -/
def Pkt.append (s : Pkt) (d : Bytes) : Pkt :=
  { s with needMore := false, buf := s.buf ++ d, data := s.data ++ [d] }

/-- `SniffUdp` (with `SniffQuic` and `sniffGroup` inlined). -/
def Pkt.sniffUdp (oracle : List Sealed) (s : Pkt) : Except Err Bytes × Pkt :=
  if s.sniffed ≠ [] then (.ok s.sniffed, s)
  else if s.buf = [] then (.error .notApplicable, s)
  else if s.cryptos = [] ∧ !isLikelyQuic (s.buf.drop s.nextRead) then (.error .notApplicable, s)
  else
    let nextBlock := s.buf.drop s.nextRead
    match quicLoop oracle s.buf.length (nextBlock.length + 1) s.cryptos nextBlock false with
    | (cr, some e) => (.error e, { s with cryptos := cr })
    | (cr, none) =>
      let s' := { s with cryptos := cr, nextRead := s.buf.length }
      match extractSni (newLinear cr) with
      | .error _ => (.error .notFound, { s' with needMore := !helloComplete cr })
      | .ok d => (.ok (normalizeDomain d), { s' with sniffed := normalizeDomain d })

/-- `CompactPacketState`. -/
def Pkt.compact (s : Pkt) : Pkt := { sniffed := s.sniffed }

/-! ### In-place header unprotection and its undo (`sniffQuicBlock`, the `defer`) -/

def setAt (b : Bytes) (i : Nat) (v : Nat) : Bytes := b.set i v

/-- What `DecryptQuic_` does to the datagram buffer: it rewrites the first byte and the
`MaxPacketNumberLength` bytes at `pnOff` (any values: `f0`, `pn`), nothing else. -/
def unprotectInPlace (buf : Bytes) (pnOff : Nat) (f0 : Nat) (pn : Bytes) : Bytes :=
  let b1 := buf.set 0 f0
  b1.take pnOff ++ (pn.take 4 ++ (b1.drop pnOff).drop (pn.take 4).length)

/-- The deferred restore: `header[0] = firstByte; copy(header[boundary-4:], rawPacketNumber)`. -/
def restoreHeader (buf : Bytes) (pnOff : Nat) (firstByte : Nat) (rawPn : Bytes) : Bytes :=
  let b1 := buf.set 0 firstByte
  b1.take pnOff ++ (rawPn ++ (b1.drop pnOff).drop rawPn.length)

/-! ## One UDP flow through `handlePkt` (`control/udp.go`, sniffing section)

Single flow (fixed source, destination, QUIC port), packets handled one after the other as the
ordered ingress does.  `established` = a `UdpEndpoint` exists for the flow: from then on every
datagram is written to it at once (fast path with a sniffed domain, or the plain reuse path) and
sniffing is over.  Before that, a datagram that is not shaped like a QUIC Initial is forwarded
immediately (which creates the endpoint), preceded by anything an unfinished sniff still holds;
a QUIC Initial goes through the packet sniffer and is
withheld while the sniffer asks for more; the first other answer releases the buffered datagrams
in ingress order followed by the current one (`toReplay`), and `CompactPacketState` empties the
sniffer. -/
structure Flow where
  pkt : Pkt := {}
  established : Bool := false
  domain : Bytes := []
deriving Repr, Inhabited

def Flow.step (oracle : List Sealed) (f : Flow) (d : Bytes) : Flow × List Bytes :=
  if f.established then (f, [d])
  else if !isLikelyQuic d then
    -- not sniffed; it creates the endpoint, so whatever an unfinished sniff still holds is released
    -- ahead of it (`TakeFlowFamilyBufferedPackets`, fix a210030)
    ({ f with pkt := f.pkt.compact, established := true }, f.pkt.data.drop 1 ++ [d])
  else
    let r := (f.pkt.append d).sniffUdp oracle
    if r.2.needMore then ({ f with pkt := r.2 }, [])
    else
      ({ pkt := r.2.compact, established := true,
         domain := match r.1 with
           | .ok n => n
           | .error _ => [] },
       r.2.data.drop 1)

/-- Datagrams the flow's sniffer session is holding back. -/
def Flow.withheld (f : Flow) : List Bytes := f.pkt.data.drop 1

/-- Handle a sequence of datagrams: what is forwarded at each step, and the final state. -/
def Flow.run (oracle : List Sealed) : Flow → List Bytes → List (List Bytes) × Flow
  | f, [] => ([], f)
  | f, d :: ds =>
    let (f1, out) := f.step oracle d
    let (outs, f2) := Flow.run oracle f1 ds
    (out :: outs, f2)

/-! ## The stream sniffer with a clock

`NewStreamSniffer` fixes ONE absolute deadline `D` (creation time + timeout); every `readStreamOnce`
arms the connection with that same instant.  Time is in whole milliseconds since the sniffer was
created.  A timed script gives, for each client event, the delay after the previous one. -/

structure TEv where
  delay : Nat
  ev : Ev
deriving Repr, Inhabited

structure TimedOutcome where
  result : Except Err Bytes
  needMoreSeen : Bool
  buf : Bytes
  dataError : Option Err
  rest : List TEv
  time : Nat            -- when `SniffTcp` returned
deriving Repr

/-- At EOF: an answer now, or (another `ErrNeedMore`) reads that return EOF at once, again and
again, until the deadline `D` has passed. -/
def atEofT (D : Nat) (buf : Bytes) (nm : Bool) (now : Nat) (rest : List TEv) : TimedOutcome :=
  if buf = [] then ⟨.error .notApplicable, nm, buf, none, rest, now⟩
  else match sniffGroupTcp buf with
    | .error .needMore => ⟨.error .timeout, true, buf, none, rest, max now D⟩
    | r => ⟨r, nm, buf, none, rest, now⟩

/-- `SniffTcp` with the clock: a read returns when its event arrives, or at the deadline, whichever
is first (an event arriving exactly at the deadline loses). -/
def sniffLoopT (D : Nat) (buf : Bytes) (nm : Bool) (now : Nat) : List TEv → TimedOutcome
  | [] => atEofT D buf nm now []
  | ⟨dt, e⟩ :: rest =>
    if now + dt < D then
      match e with
      | .eof => atEofT D buf nm (now + dt) (⟨0, .eof⟩ :: rest)
      | .stall => sniffLoopT D buf nm (now + dt) rest
      | .rst => ⟨.error .ioError, nm, buf, some .ioError, ⟨0, .rst⟩ :: rest, now + dt⟩
      | .data b =>
        if buf ++ b = [] then ⟨.error .notApplicable, nm, buf ++ b, none, rest, now + dt⟩
        else match sniffGroupTcp (buf ++ b) with
          | .error .needMore => sniffLoopT D (buf ++ b) true (now + dt) rest
          | r => ⟨r, nm, buf ++ b, none, rest, now + dt⟩
    else ⟨.error .timeout, nm, buf, none, ⟨now + dt - max now D, e⟩ :: rest, max now D⟩

def sniffTcpT (D : Nat) (script : List TEv) : TimedOutcome := sniffLoopT D [] false 0 script

/-- The same script as the untimed sniffer sees it: a `stall` where the deadline comes first. -/
def untime (D : Nat) (now : Nat) : List TEv → List Ev
  | [] => []
  | ⟨dt, e⟩ :: rest =>
    if now + dt < D then
      (match e with
       | .stall => untime D (now + dt) rest
       | e => e :: untime D (now + dt) rest)
    else .stall :: e :: rest.map TEv.ev

end DaeVerif.C06
