import DaeVerif.C06.Proofs
import DaeVerif.C06.Family
/-! # C06 — the flow-family model: invariants and conservation per connection -/
namespace DaeVerif.C06

/-- What one connection's session holds. -/
def heldK (ss : List Sess) (k : Bytes) : List Bytes :=
  (ss.filter (fun s => s.key == k)).flatMap Sess.withheld

structure SessInv (ss : List Sess) : Prop where
  heads : ∀ s ∈ ss, s.pkt.data.head? = some []
  nodup : (ss.map Sess.key).Nodup
  keyed : ∀ s ∈ ss, ∀ b ∈ s.withheld, dcidKey b = s.key

def AllEmpty (ss : List Sess) : Prop := ∀ s ∈ ss, s.withheld = []

/-- Between packets: the session invariants, and nothing is held once the flow has its endpoint. -/
def Fam.Inv (f : Fam) : Prop := SessInv f.sessions ∧ (f.ue.isSome = true → AllEmpty f.sessions)

theorem onKey_append (k : Bytes) (a b : List Bytes) : onKey k (a ++ b) = onKey k a ++ onKey k b := by
  simp [onKey]

theorem onKey_self (k : Bytes) (l : List Bytes) (h : ∀ b ∈ l, dcidKey b = k) : onKey k l = l := by
  unfold onKey
  rw [List.filter_eq_self]
  intro b hb
  simp [h b hb]

theorem onKey_other (k : Bytes) (l : List Bytes) (k' : Bytes) (h : ∀ b ∈ l, dcidKey b = k') (hne : k' ≠ k) :
    onKey k l = [] := by
  unfold onKey
  rw [List.filter_eq_nil_iff]
  intro b hb
  simp [h b hb, hne]

theorem heldK_cons (s : Sess) (ss : List Sess) (k : Bytes) :
    heldK (s :: ss) k = if s.key = k then s.withheld ++ heldK ss k else heldK ss k := by
  unfold heldK
  by_cases h : s.key = k
  · simp [h]
  · simp [h]

theorem heldK_nil_of_no_key (ss : List Sess) (k : Bytes) (h : ∀ t ∈ ss, t.key ≠ k) : heldK ss k = [] := by
  unfold heldK
  have : ss.filter (fun s => s.key == k) = [] := by
    rw [List.filter_eq_nil_iff]
    intro t ht
    simp [h t ht]
  rw [this]; rfl

theorem heldK_of_allEmpty (ss : List Sess) (k : Bytes) (h : AllEmpty ss) : heldK ss k = [] := by
  induction ss with
  | nil => rfl
  | cons s ss ih =>
    rw [heldK_cons]
    have hs := h s (by simp)
    have := ih (fun t ht => h t (by simp [ht]))
    split <;> simp [hs, this]

theorem held_of_allEmpty (ss : List Sess) (h : AllEmpty ss) : ss.flatMap Sess.withheld = [] := by
  induction ss with
  | nil => rfl
  | cons s ss ih =>
    simp only [List.flatMap_cons]
    rw [h s (by simp), ih (fun t ht => h t (by simp [ht]))]; rfl

/-- Lemma A: restricted to one connection key, what the family holds is what that key's session holds. -/
theorem onKey_held (ss : List Sess) (hk : ∀ s ∈ ss, ∀ b ∈ s.withheld, dcidKey b = s.key) (k : Bytes) :
    onKey k (ss.flatMap Sess.withheld) = heldK ss k := by
  induction ss with
  | nil => rfl
  | cons s ss ih =>
    simp only [List.flatMap_cons]
    rw [onKey_append, heldK_cons, ih (fun t ht => hk t (by simp [ht]))]
    by_cases h : s.key = k
    · rw [if_pos h, onKey_self k _ (fun b hb => by rw [hk s (by simp) b hb, h])]
    · rw [if_neg h, onKey_other k _ s.key (hk s (by simp)) h]; rfl

/-- Lemma B. -/
theorem heldK_putSess (ss : List Sess) (s : Sess) (k : Bytes) :
    heldK (putSess ss s) k = if s.key = k then s.withheld else heldK ss k := by
  unfold putSess
  rw [heldK_cons]
  by_cases h : s.key = k
  · rw [if_pos h, if_pos h, heldK_nil_of_no_key]
    · simp
    · intro t ht
      simp only [List.mem_filter, bne_iff_ne, ne_eq] at ht
      rw [← h]; exact ht.2
  · rw [if_neg h, if_neg h]
    unfold heldK
    rw [List.filter_filter]
    congr 1
    apply List.filter_congr
    intro t _
    by_cases ht : t.key = k
    · simp [ht]; intro h'; exact h (h'.symm ▸ rfl)
    · simp [ht]

theorem findSess_some (ss : List Sess) (k : Bytes) (s : Sess) (h : findSess ss k = some s) : s ∈ ss ∧ s.key = k := by
  unfold findSess at h
  exact ⟨List.mem_of_find?_eq_some h, by simpa using List.find?_some h⟩

theorem findSess_none (ss : List Sess) (k : Bytes) (h : findSess ss k = none) : ∀ t ∈ ss, t.key ≠ k := by
  unfold findSess at h
  rw [List.find?_eq_none] at h
  intro t ht
  simpa using h t ht

/-- Lemma C. -/
theorem heldK_find (ss : List Sess) (k : Bytes) (hn : (ss.map Sess.key).Nodup) :
    heldK ss k = match findSess ss k with
      | some s => s.withheld
      | none => [] := by
  induction ss with
  | nil => rfl
  | cons t ss ih =>
    rw [heldK_cons]
    simp only [List.map_cons, List.nodup_cons] at hn
    unfold findSess
    rw [List.find?_cons]
    by_cases h : t.key = k
    · simp only [h, beq_self_eq_true, if_true]
      rw [heldK_nil_of_no_key]
      · simp
      · intro u hu hk
        exact hn.1 (by rw [h, ← hk]; exact List.mem_map_of_mem hu)
    · have hb : (t.key == k) = false := by simp [h]
      rw [if_neg h, hb]
      exact ih hn.2

theorem release_withheld (s : Sess) : s.release.withheld = [] := rfl
theorem release_key (s : Sess) : s.release.key = s.key := rfl
theorem release_head (s : Sess) : s.release.pkt.data.head? = some [] := rfl

theorem withheld_nil_of_short (s : Sess) (hl : ¬ 1 < s.pkt.data.length) :
    s.withheld = [] := by
  unfold Sess.withheld
  cases hd : s.pkt.data with
  | nil => rfl
  | cons a tl =>
    rw [hd] at hl
    cases tl with
    | nil => rfl
    | cons b tl' => simp at hl

theorem takeHeld_spec (ss : List Sess) (hh : ∀ s ∈ ss, s.pkt.data.head? = some []) :
    (takeHeld ss).1 = ss.flatMap Sess.withheld ∧ (takeHeld ss).2.map Sess.key = ss.map Sess.key ∧
      AllEmpty (takeHeld ss).2 ∧ ∀ s ∈ (takeHeld ss).2, s.pkt.data.head? = some [] := by
  induction ss with
  | nil =>
    refine ⟨rfl, rfl, ?_, ?_⟩ <;> intro s hs <;> simp [takeHeld] at hs
  | cons s ss ih =>
    obtain ⟨h1, h2, h3, h4⟩ := ih (fun t ht => hh t (by simp [ht]))
    simp only [takeHeld]
    by_cases hl : 1 < s.pkt.data.length
    · rw [if_pos hl]
      refine ⟨by simp [h1], by simp [h2, release_key], ?_, ?_⟩
      · intro t ht
        simp only [List.mem_cons] at ht
        rcases ht with rfl | ht
        · rfl
        · exact h3 t ht
      · intro t ht
        simp only [List.mem_cons] at ht
        rcases ht with rfl | ht
        · rfl
        · exact h4 t ht
    · rw [if_neg hl]
      have hw := withheld_nil_of_short s hl
      refine ⟨by simp [h1, hw], by simp [h2], ?_, ?_⟩
      · intro t ht
        simp only [List.mem_cons] at ht
        rcases ht with rfl | ht
        · exact hw
        · exact h3 t ht
      · intro t ht
        simp only [List.mem_cons] at ht
        rcases ht with rfl | ht
        · exact hh _ (by simp)
        · exact h4 t ht

theorem sessInv_of_allEmpty (ss ss' : List Sess) (hI : SessInv ss) (hk : ss'.map Sess.key = ss.map Sess.key)
    (he : AllEmpty ss') (hh : ∀ s ∈ ss', s.pkt.data.head? = some []) : SessInv ss' := by
  refine ⟨hh, by rw [hk]; exact hI.nodup, ?_⟩
  intro s hs b hb
  rw [he s hs] at hb; cases hb

/-- From `afterSniffing` on: everything the family holds goes out (or is lost with the dial), ahead
of the current datagram; afterwards no session holds anything. -/
theorem forward_spec (f : Fam) (pre : List Bytes) (dom : Bytes) (x : Dg) (hs : Bool) (hI : SessInv f.sessions)
    (hhs : hs = true ∨ f.sessions = []) :
    SessInv (f.forward pre dom x hs).1.sessions ∧ AllEmpty (f.forward pre dom x hs).1.sessions ∧
      (f.forward pre dom x hs).2.written ++ (f.forward pre dom x hs).2.dropped = pre ++ f.held ++ [x.data] ∧
      ((f.forward pre dom x hs).1.ue.isSome = true ∨ (f.forward pre dom x hs).2.written = []) := by
  obtain ⟨h1, h2, h3, h4⟩ := takeHeld_spec f.sessions hI.heads
  have hr : (if hs = true then takeHeld f.sessions else ([], f.sessions)) = takeHeld f.sessions := by
    rcases hhs with h | h
    · rw [if_pos h]
    · rw [h]; simp [takeHeld]
  have hS := sessInv_of_allEmpty f.sessions (takeHeld f.sessions).2 hI h2 h3 h4
  unfold Fam.forward
  simp only [hr]
  cases hue : f.ue with
  | some d0 => exact ⟨hS, h3, by simp [h1, Fam.held], Or.inl rfl⟩
  | none =>
    simp only []
    by_cases hd : x.dialFails = true
    · rw [if_pos hd]
      exact ⟨hS, h3, by simp [h1, Fam.held], Or.inr rfl⟩
    · rw [if_neg hd]
      exact ⟨hS, h3, by simp [h1, Fam.held], Or.inl rfl⟩

theorem sessInv_putSess (ss : List Sess) (s : Sess) (hI : SessInv ss) (hh : s.pkt.data.head? = some [])
    (hk : ∀ b ∈ s.withheld, dcidKey b = s.key) : SessInv (putSess ss s) := by
  unfold putSess
  refine ⟨?_, ?_, ?_⟩
  · intro t ht
    simp only [List.mem_cons, List.mem_filter] at ht
    rcases ht with rfl | ht
    · exact hh
    · exact hI.heads t ht.1
  · simp only [List.map_cons, List.nodup_cons]
    refine ⟨?_, ?_⟩
    · intro hmem
      rw [List.mem_map] at hmem
      obtain ⟨t, ht, hkt⟩ := hmem
      simp only [List.mem_filter, bne_iff_ne, ne_eq] at ht
      exact ht.2 hkt
    · exact hI.nodup.sublist ((List.filter_sublist).map Sess.key)
  · intro t ht
    simp only [List.mem_cons, List.mem_filter] at ht
    rcases ht with rfl | ht
    · exact hk
    · exact hI.keyed t ht.1

/-- The conservation law of a forwarding step, per connection key. -/
def Conserves (ss : List Sess) (x : Dg) (r : Fam × StepOut) : Prop :=
  ∀ k, onKey k (r.2.written ++ r.2.dropped) ++ heldK r.1.sessions k = heldK ss k ++ onKey k [x.data]

theorem forward_conserves (f : Fam) (x : Dg) (hs : Bool) (hI : SessInv f.sessions) (hhs : hs = true ∨ f.sessions = []) (dom : Bytes) :
    Conserves f.sessions x (f.forward [] dom x hs) := by
  obtain ⟨hS, hE, hout, _⟩ := forward_spec f [] dom x hs hI hhs
  intro k
  rw [hout, heldK_of_allEmpty _ k hE]
  simp only [List.nil_append, List.append_nil, Fam.held]
  rw [onKey_append, onKey_held _ hI.keyed]

/-- Forwarding right after the current session `s'` was stored: `pre` (its datagrams before the
current one) and what `s'` still holds are what the key's session held before. -/
theorem forward_after_put (ss : List Sess) (u : Option Bytes) (fl : List Bytes) (s' : Sess) (pre : List Bytes) (dom : Bytes) (x : Dg)
    (hI : SessInv ss)
    (hh : s'.pkt.data.head? = some []) (hk : ∀ b ∈ s'.withheld, dcidKey b = s'.key)
    (hpre : pre ++ s'.withheld = heldK ss s'.key) (hpk : ∀ b ∈ pre, dcidKey b = s'.key) :
    SessInv ((Fam.mk (putSess ss s') u fl).forward pre dom x true).1.sessions ∧
      AllEmpty ((Fam.mk (putSess ss s') u fl).forward pre dom x true).1.sessions ∧
      Conserves ss x ((Fam.mk (putSess ss s') u fl).forward pre dom x true) := by
  have hI' : SessInv (Fam.mk (putSess ss s') u fl).sessions := sessInv_putSess ss s' hI hh hk
  obtain ⟨hS, hE, hout, _⟩ := forward_spec (Fam.mk (putSess ss s') u fl) pre dom x true hI' (Or.inl rfl)
  refine ⟨hS, hE, ?_⟩
  intro k
  rw [hout, heldK_of_allEmpty _ k hE]
  simp only [List.append_nil, Fam.held]
  rw [onKey_append, onKey_append, onKey_held _ hI'.keyed, heldK_putSess]
  by_cases hkk : s'.key = k
  · rw [if_pos hkk, onKey_self k pre (fun b hb => by rw [hpk b hb, hkk]), hpre, hkk]
  · rw [if_neg hkk, onKey_other k pre s'.key hpk hkk]; rfl

/-- What a step must establish. -/
def StepOk (ss : List Sess) (x : Dg) (r : Fam × StepOut) : Prop :=
  r.1.Inv ∧ Conserves ss x r ∧ (r.2.written ++ r.2.dropped ≠ [] → AllEmpty r.1.sessions)

theorem stepOk_of_forward (ss : List Sess) (x : Dg) (r : Fam × StepOut) (hS : SessInv r.1.sessions)
    (hE : AllEmpty r.1.sessions) (hC : Conserves ss x r) : StepOk ss x r :=
  ⟨⟨hS, fun _ => hE⟩, hC, fun _ => hE⟩

theorem newSess_withheld (k : Bytes) : ({ key := k } : Sess).withheld = [] := rfl

theorem dropLast_drop_one (l : List Bytes) (d : Bytes) (h : l.head? = some []) :
    ((l ++ [d]).drop 1).dropLast = l.drop 1 := by
  rw [drop_one_append l d h, List.dropLast_concat]

theorem sessionFor_spec (f : Fam) (key : Bytes) (hI : SessInv f.sessions) :
    (f.sessionFor key).key = key ∧ (f.sessionFor key).pkt.data.head? = some [] ∧
      (∀ b ∈ (f.sessionFor key).withheld, dcidKey b = (f.sessionFor key).key) ∧
      (f.sessionFor key).withheld = heldK f.sessions key := by
  have hC := heldK_find f.sessions key hI.nodup
  unfold Fam.sessionFor
  cases hf : findSess f.sessions key with
  | some s =>
    rw [hf] at hC
    obtain ⟨hm, hkey⟩ := findSess_some _ _ _ hf
    exact ⟨hkey, hI.heads _ hm, hI.keyed _ hm, hC.symm⟩
  | none =>
    rw [hf] at hC
    refine ⟨rfl, rfl, ?_, hC.symm⟩
    intro b hb
    rw [newSess_withheld] at hb
    cases hb

theorem sniffed_spec (s0 : Sess) (x : Dg) :
    (s0.sniffed x).2.key = s0.key ∧ (s0.sniffed x).2.pkt.data = s0.pkt.data ++ [x.data] := by
  unfold Sess.sniffed
  refine ⟨rfl, ?_⟩
  simp only []
  rw [sniffUdp_data]; rfl

theorem record_release (s : Sess) (dom : Bytes) :
    (s.record dom).release.key = s.key ∧ (s.record dom).release.withheld = [] ∧
      (s.record dom).release.pkt.data.head? = some [] := by
  unfold Sess.record
  split
  · split <;> exact ⟨rfl, rfl, rfl⟩
  · exact ⟨rfl, rfl, rfl⟩

theorem sniff_spec (f : Fam) (x : Dg) (hI : SessInv f.sessions) (hue : f.ue = none) :
    StepOk f.sessions x (f.sniff x) := by
  obtain ⟨h0k, h0h, h0keyed, h0w⟩ := sessionFor_spec f (dcidKey x.data) hI
  obtain ⟨h3k, h3d⟩ := sniffed_spec (f.sessionFor (dcidKey x.data)) x
  have hpre : (((f.sessionFor (dcidKey x.data)).sniffed x).2.pkt.data.drop 1).dropLast
      = (f.sessionFor (dcidKey x.data)).withheld := by
    rw [h3d, dropLast_drop_one _ _ h0h]; rfl
  unfold Fam.sniff
  simp only []
  split
  · -- negative cache: straight to afterSniffing
    obtain ⟨hS, hE, _, _⟩ := forward_spec f [] [] x true hI (Or.inl rfl)
    exact stepOk_of_forward _ _ _ hS hE (forward_conserves f x true hI (Or.inl rfl) [])
  · split
    · -- bypass window
      obtain ⟨hS, hE, hC⟩ := forward_after_put f.sessions f.ue (markFailed f.failed (dcidKey x.data)) _ [] [] x hI
        h0h h0keyed (by rw [List.nil_append, h0w, h0k]) (fun b hb => nomatch hb)
      exact stepOk_of_forward _ _ _ hS hE hC
    · split
      · -- second decrypt failure in a row
        rw [hpre]
        obtain ⟨hS, hE, hC⟩ := forward_after_put f.sessions f.ue (markFailed f.failed (dcidKey x.data))
          ((f.sessionFor (dcidKey x.data)).sniffed x).2.release (f.sessionFor (dcidKey x.data)).withheld [] x hI
          rfl (fun b hb => nomatch hb)
          (by rw [release_withheld, List.append_nil, release_key, h3k, h0k, h0w])
          (by rw [release_key, h3k]; exact h0keyed)
        exact stepOk_of_forward _ _ _ hS hE hC
      · split
        · -- the sniffer asks for more: the datagram stays in the session
          have hhead : ((f.sessionFor (dcidKey x.data)).sniffed x).2.pkt.data.head? = some [] := by
            rw [h3d]; exact head_append _ _ h0h
          have hw : ((f.sessionFor (dcidKey x.data)).sniffed x).2.withheld
              = (f.sessionFor (dcidKey x.data)).withheld ++ [x.data] := by
            unfold Sess.withheld
            rw [h3d, drop_one_append _ _ h0h]
          have hkeyed : ∀ b ∈ ((f.sessionFor (dcidKey x.data)).sniffed x).2.withheld,
              dcidKey b = ((f.sessionFor (dcidKey x.data)).sniffed x).2.key := by
            intro b hb
            rw [hw, List.mem_append] at hb
            rw [h3k]
            rcases hb with hb | hb
            · exact h0keyed b hb
            · simp only [List.mem_singleton] at hb
              rw [hb, h0k]
          refine ⟨⟨sessInv_putSess _ _ hI hhead hkeyed, ?_⟩, ?_, ?_⟩
          · intro h; simp [hue] at h
          · intro k
            simp only [List.append_nil, onKey, List.filter_nil, List.nil_append]
            rw [heldK_putSess, h3k, h0k, hw, h0w]
            by_cases hkk : dcidKey x.data = k
            · rw [if_pos hkk, ← hkk]
              simp
            · rw [if_neg hkk]
              simp [hkk]
          · intro h; simp at h
        · -- an answer: release, record, forward
          rw [hpre]
          obtain ⟨rk, rw_, rh⟩ := record_release ((f.sessionFor (dcidKey x.data)).sniffed x).2
            (domainOf ((f.sessionFor (dcidKey x.data)).sniffed x).1)
          obtain ⟨hS, hE, hC⟩ := forward_after_put f.sessions f.ue f.failed
            ((((f.sessionFor (dcidKey x.data)).sniffed x).2.record (domainOf ((f.sessionFor (dcidKey x.data)).sniffed x).1)).release)
            (f.sessionFor (dcidKey x.data)).withheld (domainOf ((f.sessionFor (dcidKey x.data)).sniffed x).1) x hI
            rh (by rw [rw_]; intro b hb; cases hb)
            (by rw [rw_, List.append_nil, rk, h3k, h0k, h0w])
            (by rw [rk, h3k]; exact h0keyed)
          exact stepOk_of_forward _ _ _ hS hE hC

theorem stepOk_congr (ss ss' : List Sess) (x : Dg) (r : Fam × StepOut) (h : ∀ k, heldK ss k = heldK ss' k)
    (hok : StepOk ss x r) : StepOk ss' x r := by
  obtain ⟨h1, h2, h3⟩ := hok
  exact ⟨h1, fun k => by rw [← h k]; exact h2 k, h3⟩

theorem heldK_append_empty (ss : List Sess) (s : Sess) (hw : s.withheld = []) (k : Bytes) :
    heldK (ss ++ [s]) k = heldK ss k := by
  induction ss with
  | nil => rw [List.nil_append, heldK_cons, hw]; split <;> rfl
  | cons t ss ih => rw [List.cons_append, heldK_cons, heldK_cons, ih]

/-- Rewriting sessions without touching key or packet state (`ObserveFlowFamilyQuicInitial`). -/
theorem map_preserves (ss : List Sess) (g : Sess → Sess) (hg : ∀ s, (g s).key = s.key ∧ (g s).pkt = s.pkt)
    (hI : SessInv ss) :
    SessInv (ss.map g) ∧ (∀ k, heldK (ss.map g) k = heldK ss k) ∧ (AllEmpty ss → AllEmpty (ss.map g)) := by
  have hw : ∀ s, (g s).withheld = s.withheld := fun s => by unfold Sess.withheld; rw [(hg s).2]
  refine ⟨⟨?_, ?_, ?_⟩, ?_, ?_⟩
  · intro t ht
    rw [List.mem_map] at ht
    obtain ⟨s, hs, rfl⟩ := ht
    rw [(hg s).2]; exact hI.heads s hs
  · rw [List.map_map]
    have : (Sess.key ∘ g) = Sess.key := funext fun s => (hg s).1
    rw [this]; exact hI.nodup
  · intro t ht
    rw [List.mem_map] at ht
    obtain ⟨s, hs, rfl⟩ := ht
    rw [hw s, (hg s).1]; exact hI.keyed s hs
  · intro k
    clear hI
    induction ss with
    | nil => rfl
    | cons t ss ih => rw [List.map_cons, heldK_cons, heldK_cons, ih, hw t, (hg t).1]
  · intro he t ht
    rw [List.mem_map] at ht
    obtain ⟨s, hs, rfl⟩ := ht
    rw [hw s]; exact he s hs

theorem observeFamily_spec (ss : List Sess) (key d : Bytes) (hI : SessInv ss) :
    SessInv (observeFamily ss key d).1 ∧ (∀ k, heldK (observeFamily ss key d).1 k = heldK ss k) ∧
      (AllEmpty ss → AllEmpty (observeFamily ss key d).1) := by
  have hid : SessInv ss ∧ (∀ k, heldK ss k = heldK ss k) ∧ (AllEmpty ss → AllEmpty ss) := ⟨hI, fun _ => rfl, id⟩
  unfold observeFamily
  split
  · exact hid
  · split
    · exact hid
    · simp only []
      split
      · exact hid
      · apply map_preserves _ _ _ hI
        intro s
        split <;> exact ⟨rfl, rfl⟩

theorem ensure_spec (f : Fam) (d : Bytes) (hI : SessInv f.sessions) :
    SessInv (f.ensure d).sessions ∧ (∀ k, heldK (f.ensure d).sessions k = heldK f.sessions k) ∧
      (AllEmpty f.sessions → AllEmpty (f.ensure d).sessions) ∧ (f.ensure d).ue = f.ue ∧
      ((isLikelyQuic d || !f.sessions.isEmpty) = true ∨ (f.ensure d).sessions = []) := by
  unfold Fam.ensure
  split
  · rename_i h
    obtain ⟨hq, hno⟩ := h
    have hnone : findSess f.sessions (dcidKey d) = none := by
      unfold hasFamilySession at hno
      simp only [Bool.or_eq_false_iff] at hno
      cases hf : findSess f.sessions (dcidKey d) with
      | none => rfl
      | some s => rw [hf] at hno; simp at hno
    have hfresh := findSess_none _ _ hnone
    refine ⟨⟨?_, ?_, ?_⟩, fun k => heldK_append_empty _ _ rfl k, ?_, rfl, Or.inl (by simp [hq])⟩
    · intro t ht
      simp only [List.mem_append, List.mem_singleton] at ht
      rcases ht with ht | rfl
      · exact hI.heads t ht
      · rfl
    · simp only [List.map_append, List.map_cons, List.map_nil]
      rw [List.nodup_append]
      refine ⟨hI.nodup, by simp, ?_⟩
      intro a ha b hb
      simp only [List.mem_singleton] at hb
      rw [List.mem_map] at ha
      obtain ⟨t, ht, rfl⟩ := ha
      rw [hb]; exact hfresh t ht
    · intro t ht
      simp only [List.mem_append, List.mem_singleton] at ht
      rcases ht with ht | rfl
      · exact hI.keyed t ht
      · intro b hb; cases hb
    · intro he t ht
      simp only [List.mem_append, List.mem_singleton] at ht
      rcases ht with ht | rfl
      · exact he t ht
      · rfl
  · refine ⟨hI, fun _ => rfl, id, rfl, ?_⟩
    cases hs : f.sessions with
    | nil => exact Or.inr rfl
    | cons a l => exact Or.inl (by simp)

theorem stepOk_forward (f : Fam) (ss0 : List Sess) (x : Dg) (hs : Bool) (hI : SessInv f.sessions)
    (hhs : hs = true ∨ f.sessions = []) (hh : ∀ k, heldK f.sessions k = heldK ss0 k) :
    StepOk ss0 x (f.forward [] [] x hs) := by
  obtain ⟨hS, hE, _, _⟩ := forward_spec f [] [] x hs hI hhs
  exact stepOk_congr _ _ _ _ hh (stepOk_of_forward _ _ _ hS hE (forward_conserves f x hs hI hhs []))

theorem sessInv_filter (ss : List Sess) (p : Sess → Bool) (hI : SessInv ss) : SessInv (ss.filter p) := by
  refine ⟨fun s hs => hI.heads s (List.mem_filter.mp hs).1,
    hI.nodup.sublist ((List.filter_sublist).map Sess.key), fun s hs => hI.keyed s (List.mem_filter.mp hs).1⟩

theorem step_spec (f : Fam) (x : Dg) (hI : f.Inv) : StepOk f.sessions x (f.step x) := by
  obtain ⟨hS, hq⟩ := hI
  obtain ⟨eS, eH, eE, eU, eHad⟩ := ensure_spec f x.data hS
  unfold Fam.step
  simp only []
  cases hue : (f.ensure x.data).ue with
  | some dom =>
    have hsome : f.ue.isSome = true := by rw [← eU, hue]; rfl
    have hE0 := hq hsome
    have hE1 := eE hE0
    simp only []
    split
    · -- fast path
      refine ⟨⟨eS, fun _ => hE1⟩, ?_, fun _ => hE1⟩
      intro k
      simp only [List.append_nil]
      rw [heldK_of_allEmpty _ k hE1, heldK_of_allEmpty _ k hE0]
      simp
    · split
      · rename_i hinit
        obtain ⟨oS, oH, oE⟩ := observeFamily_spec (f.ensure x.data).sessions (dcidKey x.data) x.data eS
        split
        · -- reset by another connection's Initial
          have hfE : AllEmpty ((observeFamily (f.ensure x.data).sessions (dcidKey x.data) x.data).1.filter (fun s => s.key == [])) :=
            fun s hs => oE hE1 s (List.mem_filter.mp hs).1
          have := sniff_spec (Fam.mk ((observeFamily (f.ensure x.data).sessions (dcidKey x.data) x.data).1.filter (fun s => s.key == [])) none (f.ensure x.data).failed) x (sessInv_filter _ _ oS) rfl
          exact stepOk_congr _ _ _ _ (fun k => by rw [heldK_of_allEmpty _ k hE0, heldK_of_allEmpty _ k hfE]) this
        · exact stepOk_forward (Fam.mk _ _ _) f.sessions x _ oS
            (Or.inl (by simp [hinit]))
            (fun k => by rw [oH k, eH k])
      · exact stepOk_forward _ f.sessions x _ eS eHad eH
  | none =>
    simp only []
    split
    · rename_i hq'
      exact stepOk_congr _ _ _ _ eH (sniff_spec (f.ensure x.data) x eS hue)
    · exact stepOk_forward _ f.sessions x _ eS eHad eH

theorem inv_init : ({} : Fam).Inv := by
  refine ⟨⟨?_, List.nodup_nil, ?_⟩, ?_⟩
  · intro s hs; cases hs
  · intro s hs; cases hs
  · intro _ s hs; cases hs

theorem released_cons (o : StepOut) (os : List StepOut) : released (o :: os) = (o.written ++ o.dropped) ++ released os := by
  simp [released]

theorem run_spec (xs : List Dg) (f : Fam) (hI : f.Inv) :
    (Fam.run f xs).2.Inv ∧ ∀ k, onKey k (released (Fam.run f xs).1) ++ heldK (Fam.run f xs).2.sessions k
      = heldK f.sessions k ++ onKey k (xs.map Dg.data) := by
  induction xs generalizing f with
  | nil => exact ⟨hI, fun k => by simp [Fam.run, released, onKey]⟩
  | cons x xs ih =>
    obtain ⟨h1, h2, _⟩ := step_spec f x hI
    obtain ⟨i1, i2⟩ := ih (f.step x).1 h1
    simp only [Fam.run]
    refine ⟨i1, fun k => ?_⟩
    rw [released_cons, onKey_append, List.append_assoc, i2 k, ← List.append_assoc, h2 k]
    simp only [List.map_cons, List.append_assoc]
    rw [← onKey_append]; rfl

theorem run_last_step (xs : List Dg) (x : Dg) :
    StepOk (Fam.run {} xs).2.sessions x ((Fam.run {} xs).2.step x) :=
  step_spec _ x (run_spec xs {} inv_init).1

end DaeVerif.C06
