import DaeVerif.C06.Proofs
namespace DaeVerif.C06.Props
open DaeVerif.C06

/-- placeholder while the tie is brought up -/
theorem clientBytes_nil : clientBytes [] = [] := rfl

end DaeVerif.C06.Props
